"""C03 — saved files are valid, self-consistent C3D for any other reader."""
import os
from lib import harness, gen, c3dspec, filegen
from lib.harness import hx
from checks import common, apihist, filecmp, c01
from checks.apihist import rand_lit, conforming_history, trim
LEVEL = 'proof'

def residue_cases(rng):
    """objects whose parameter section length sweeps every residue modulo 512 (two description lengths)"""
    cases = []
    for variant in (0, 1, 2):
        for a in range(256):
            lines = ['new 0', 'point 0 x6d31', 'P.new x52415445 x', 'P.set F 0 1 42c80000', 'param 0 x504f494e54',
                     'frame 0 - 1 x6d31 3f8ccccd 40000000 40400000 00000000 0']
            lines += ['P.new %s %s' % (hx(b'FILL'), hx(b'd' * a)), 'P.set I 0 1 7', 'param 0 ' + hx(b'EXTRA')]
            if variant:
                lines += ['P.new %s %s' % (hx(b'SHIFT'), hx(b'e' * (244 if variant == 1 else 120))), 'P.set I 0 1 9', 'param 0 ' + hx(b'EXTRA')]
            cid = 'res%d_%d' % (variant, a)
            lines += ['snap 0', 'save 0 %s.c3d' % cid]
            cases.append((cid, lines))
    return cases

def scale_is_minus_one(snap): return snap.h['scale'] == -1

def run(rep, work, rng, tier):
    common.proof_part(rep, 'C03')
    cases = [('kf_' + k['signature'], k['replay']) for k in rep.kf]
    cases += residue_cases(rng)
    n = 200 if tier == 'quick' else 20000
    kinds = {}
    for i in range(n):
        if rng.random() < 0.7:
            b = conforming_history(rng, max_frames=rng.choice([2, 5, 9]), snap=False); lines = b.lines[:-1] if b.lines[-1] == 'snap 0' else b.lines
            for k in b.kinds: kinds[k] = kinds.get(k, 0) + 1
            # fill gaps left by extensions so that the object is complete (unfilled frames are a known finding, tested separately)
        else:
            lines = ['new 0']
            for _ in range(rng.choice([1, 3, 6])):
                h = gen.Hist(rng, snap_every=False); h.lines = []
                h.rand_param(); lines += h.lines
            kinds['param-only'] = kinds.get('param-only', 0) + 1
        cid = 'h%d' % i
        lines = lines + ['snap 0', 'save 0 %s.c3d' % cid]
        # load-then-edit: reload the saved file, edit, save again
        if rng.random() < 0.4:
            lines += ['load 1 %s.c3d' % cid, 'P.new %s %s' % (hx(b'EDITED'), hx(b'x' * rng.randrange(40))), 'P.set I 0 1 1', 'param 1 ' + hx(b'EXTRA'),
                      'snap 1', 'save 1 %s_2.c3d' % cid]
            kinds['load-then-edit'] = kinds.get('load-then-edit', 0) + 1
        cases.append((cid, lines))
    shared = work.sub('shared')
    for i in range(n // 2):
        L = filegen.make_layout(rng); c = filegen.make_content(rng)
        name = 'in%d.c3d' % i; open(os.path.join(shared, name), 'wb').write(c3dspec.encode(L, c))
        cid = 'ld%d' % i
        lines = ['loadx 0 ' + name, 'snap 0', 'save 0 %s.c3d' % cid]
        if rng.random() < 0.5:
            lines += ['P.new %s %s' % (hx(b'EDITED'), hx(b'y' * rng.choice([0, 1, 7, 60, 254, 255]))), 'P.set I 0 1 1', 'param 0 ' + hx(b'EXTRA'), 'snap 0', 'save 0 %s_e.c3d' % cid]
        cases.append((cid, lines)); kinds['loaded-from-layout-variant'] = kinds.get('loaded-from-layout-variant', 0) + 1
    sel = lambda ln: ln.split(' ', 1)[0] in ('save', 'fsum')
    cases = [(cid, [l2 for l in lines for l2 in ([l, 'fsum ' + l.split(' ')[2]] if l.startswith('save ') else [l])]) for cid, lines in cases]
    (c, cown), (m, mown), nd = common.correspondence(rep, work, cases, select=sel, label='bytes of the saved file (size and digest)', shared=shared)
    bad = 0; files = 0; residues = set(); comps = {}
    for cid, lines in cases:
        cl, cs = c.get(cid, ([], 'missing'))
        ops = harness.split_ops(lines, cl); snap = None; hist = []
        for ln, out in ops:
            hist.append(ln)
            if ln.startswith('snap') and out and out[0].startswith('H '): snap = harness.Snap(out)
            elif ln.startswith('save ') and out and out[0] == 'ok' and snap is not None:
                path = os.path.join(cown[cid], ln.split(' ')[2])
                try: buf = open(path, 'rb').read()
                except OSError: continue
                files += 1
                try:
                    dec = c3dspec.decode(buf, strict=True)
                    endrec = c3dspec.decode_section(buf, 512)[2]
                    residues.add(endrec % 512)
                    diffs = ['%s -- %s' % x for x in dec['issues']] + filecmp.diff_file_vs_object(dec, snap)
                except c3dspec.SpecError as e:
                    diffs = [e.component + ' -- ' + str(e)]
                except Exception as e:
                    diffs = ['decoder-crash -- %r' % (e,)]
                for d in diffs:
                    comp = d.split(' ')[0]; comps[comp] = comps.get(comp, 0) + 1
                    sig = None
                    nonuniform = any(not (f['pts'] or f['subs']) for f in snap.frames) or len(set((len(f['pts']), tuple(len(s) for s in f['subs'])) for f in snap.frames)) > 1
                    if comp == 'hdr.scale' and scale_is_minus_one(snap): sig = 'scale-word-of-new-object'
                    elif (comp.startswith('data.length') or comp.startswith('frames.count') or comp.startswith('hdr.frames') or comp.startswith('frame[')) and nonuniform:
                        sig = 'unfilled-or-nonuniform-frame-saved'
                    elif (comp.startswith('data.length') or comp.startswith('frames.count') or comp.startswith('hdr.frames')) and snap.h['npts'] == 0 and snap.h['nanalogs'] == 0:
                        sig = 'frames-without-points-or-channels'
                    elif (comp.startswith('param[') or comp.startswith('record.') or comp.startswith('section.') or comp.startswith('group')) and filecmp.beyond_capacity(snap): sig = 'content-beyond-format-capacity'
                    elif (comp.startswith('group') or comp.startswith('param')) and c01.case_collision(snap): sig = 'names-differ-only-by-case'
                    if rep.violation('oracle', 'the saved file does not decode to the object: %s' % d,
                                     script=[l for l in hist if not l.startswith('snap') and not l.startswith('fsum')], signature=sig):
                        bad += 1
    rep.coverage.update(dict(evaluations=files, distinct_nontrivial=len(set(tuple(ls) for _, ls in cases)),
        rule='objects built through the API (conforming histories, parameter-only objects, load-then-edit) plus a sweep of two description lengths covering every residue of the parameter-section length modulo 512; every saved file is decoded by the independent pointer-following decoder (lib/c3dspec.py, strict) and compared with the dump of the saving object; distinct = distinct scripts',
        samples=[cases[-1][1][-6:]], op_kinds=kinds, residues_covered=len(residues), exhaustive_residues=(len(residues) == 512),
        failing_components=comps, disagreements=nd, oracle_failures=bad))
    if len(residues) < 512:
        rep.violation('coverage', 'the residue sweep covered only %d of 512 alignments' % len(residues), found_input=False, theorem='residue sweep')
