"""C16 — damaged files are refused or loaded, never crash or hang."""
import os, time
from lib import harness, gen, c3dspec, filegen, build
from checks import common
LEVEL = 'proof'

BOUNDARY = [0x00, 0x01, 0x7f, 0x80, 0xff]

def base_files(rng, work, n):
    """small valid files: the spec encoder's and one saved by the library itself (model bytes = library bytes, tied by C03)"""
    out = []
    for i in range(n):
        L = filegen.make_layout(rng); L['zeros'] = rng.choice([0, 0, 2]); L['paddr'] = 2; L['extra_pad_blocks'] = 0
        c = filegen.make_content(rng, dict(nframes=rng.choice([1, 2]), npoints=rng.choice([1, 2]), nchan=rng.choice([0, 1]), dense_ids=True))
        out.append(('gen%d' % i, c3dspec.encode(L, c)))
    return out

def damage(rng, name, buf, tier):
    """(label, bytes) : every truncation length (files <= 4 KB, stratified above), boundary overwrites at every offset of
    header and parameter section, double overwrites, structure-aware corruption of each field"""
    out = []
    n = len(buf)
    hdr_par = min(n, 1024 + 512)
    lens = list(range(0, n)) if n <= 4096 else sorted(set(list(range(0, 1600)) + [rng.randrange(n) for _ in range(400)]))
    if tier == 'quick': lens = [l for l in lens if l < 40 or l % 3 == 0 or 500 <= l <= 560]
    for l in lens: out.append(('trunc@%d' % l, buf[:l]))
    offs = range(0, hdr_par)
    for o in offs:
        vals = BOUNDARY if tier != 'quick' else ([0xff, 0x80] if o % 2 else [0x00, 0x7f])
        if o < 24 or 510 <= o < 700: vals = BOUNDARY + [rng.randrange(256)]
        for v in vals:
            if o < n and buf[o] != v:
                b = bytearray(buf); b[o] = v; out.append(('set@%d=%02x' % (o, v), bytes(b)))
    for _ in range(150 if tier == 'quick' else 3000):
        b = bytearray(buf)
        for _ in range(2):
            o = rng.randrange(min(n, hdr_par)); b[o] = rng.choice(BOUNDARY + [rng.randrange(256)])
        out.append(('double', bytes(b)))
    return out

def classify_cxx(lines, status):
    if status.startswith('signal') or status in ('driver-died', 'missing'): return 'CRASH:' + status
    if status != 'exit:0': return 'ABNORMAL:' + status
    if not lines: return 'NOOUTPUT'
    return lines[0]

def run(rep, work, rng, tier):
    common.proof_part(rep, 'C16')
    shared = work.sub('shared')
    files = base_files(rng, work, 2 if tier == 'quick' else 8)
    cases = []; labels = {}; kinds = {}
    for name, buf in files:
        for k, (lab, b) in enumerate(damage(rng, name, buf, tier)):
            fn = '%s_%d.c3d' % (name, k); open(os.path.join(shared, fn), 'wb').write(b)
            cid = '%s_%d' % (name, k); labels[cid] = (name, lab, fn)
            cases.append((cid, ['loadx 0 ' + fn, 'snap 0']))
            kinds[lab.split('@')[0].split('=')[0]] = kinds.get(lab.split('@')[0].split('=')[0], 0) + 1
    t0 = time.time()
    # sanitizer build, per-case time limit and address-space limit: a crash, a hang or an allocation storm is an outcome
    (cres, cown, cerr), (mres, mown, merr) = harness.run_both(cases, work, shared=shared, flavor='asan',
                                                               cxx_extra=['--timeout', '10'], cxx_env={'ASAN_OPTIONS': 'detect_leaks=0:abort_on_error=1:allocator_may_return_null=1:max_allocation_size_mb=2048'})
    bad = 0; nd = 0; outcomes = {}; blow = 0; casts = 0
    for cid, lines in cases:
        cl, cs = cres.get(cid, ([], 'missing')); ml, ms = mres.get(cid, ([], 'missing'))
        oc = classify_cxx(cl, cs)
        key = oc if not oc.startswith('H ') else 'ok'
        key = 'ok' if key == 'ok' else key
        outcomes[key] = outcomes.get(key, 0) + 1
        name, lab, fn = labels[cid]
        model_blowup = ms.startswith('ub:blowup')
        if model_blowup: blow += 1
        if oc.startswith('CRASH') or oc.startswith('ABNORMAL') or oc == 'NOOUTPUT':
            sig = 'declared-size-exceeds-file' if model_blowup else None
            keep = os.path.join(harness.VERIF, 'replays', 'C16-%s-%s' % (rep.seed, fn))
            if rep.violation('oracle', 'loading a damaged file (%s of %s) ended with %s' % (lab, name, oc), script=lines, signature=sig,
                             extra=dict(file=keep, damage=lab)):
                bad += 1
                if bad <= 5:
                    os.makedirs(os.path.dirname(keep), exist_ok=True); open(keep, 'wb').write(open(os.path.join(shared, fn), 'rb').read())
            continue
        if ms.startswith('ub:'):
            if not model_blowup and not ms.startswith('ub:cast-range'):
                # the model says the C++ runs into a memory error although it survived this time: latent
                if rep.violation('latent', 'the model reaches undefined behaviour (%s) on a damaged file (%s of %s) that the library happened to survive' % (ms, lab, name),
                                 script=lines, signature='latent:' + ms.split('@')[0], extra=dict(damage=lab)): bad += 1
            elif ms.startswith('ub:cast-range'): casts += 1     # an out-of-range float conversion: the subject of C19, not a memory error
            continue
        d = harness.compare_case(cl, cs, ml, ms)
        if d is not None:
            nd += 1
            if nd <= 3:
                keep = os.path.join(harness.VERIF, 'replays', 'C16-%s-%s' % (rep.seed, fn))
                os.makedirs(os.path.dirname(keep), exist_ok=True); open(keep, 'wb').write(open(os.path.join(shared, fn), 'rb').read())
                rep.violation('correspondence', 'model and implementation differ on a damaged file (%s of %s)' % (lab, name), script=lines,
                              theorem='correspondence of the loader model with /repo (damaged files)', found_input=False,
                              extra=dict(first_difference=d, file=keep))
    rep.coverage.update(dict(evaluations=len(cases), distinct_nontrivial=len(set(labels[c][1] + labels[c][0] for c in labels)),
        rule='valid files x every truncation length (all for files <= 4 KB), boundary values {00,01,7f,80,ff,random} written at every offset of header and parameter section, double overwrites; each damaged file is loaded by the real library built with ASan + bounds + _GLIBCXX_ASSERTIONS under a 10 s limit in its own process; outcome must be an object or a standard exception and must equal the model\'s; distinct = distinct (file, damage)',
        samples=[labels[cases[0][0]][1], labels[cases[-1][0]][1]], damage_kinds=kinds, outcome_classes=outcomes, model_blowup_verdicts=blow, out_of_range_float_casts=casts,
        disagreements=nd, oracle_failures=bad, load_wall_s=round(time.time() - t0, 1)))
