"""C16 — damaged files are refused or loaded, never crash or hang."""
import os, time
from lib import harness, gen, c3dspec, filegen, build
from checks import common
LEVEL = 'proof'

BOUNDARY = [0x00, 0x01, 0x7f, 0x80, 0xff]

def base_files(rng, work, n):
    """small valid files: the spec encoder's and one saved by the library itself (model bytes = library bytes, tied by C03)"""
    out = []
    for i in range(n):
        L = filegen.make_layout(rng); L['zeros'] = rng.choice([0, 0, 2]); L['paddr'] = 2; L['extra_pad_blocks'] = 0
        c = filegen.make_content(rng, dict(nframes=rng.choice([1, 2]), npoints=rng.choice([1, 2]), nchan=rng.choice([0, 1]), dense_ids=True))
        out.append(('gen%d' % i, c3dspec.encode(L, c)))
    return out

def records(buf, zeros):
    """(kind, gid, name, pos of the type byte, pos of the dimension bytes, their number, pos of the values) of the records of a
    well-formed file, found by walking the chain"""
    out = []
    try:
        paddr = buf[zeros]; p = zeros + (paddr - 1) * 512 + 4
        while p + 2 < len(buf):
            nl = buf[p]; nl = nl - 256 if nl >= 128 else nl
            if nl == 0: break
            gid = buf[p + 1]; gid = gid - 256 if gid >= 128 else gid
            q = p + 2 + abs(nl); off = buf[q] | (buf[q + 1] << 8)
            if gid > 0:
                nd = buf[q + 3]; out.append(('P', gid, bytes(buf[p + 2:q]), q + 2, q + 4, nd, q + 4 + nd))
            else: out.append(('G', -gid, bytes(buf[p + 2:q]), None, None, 0, None))
            if off == 0: break
            p = q + off
    except IndexError: pass
    return out

def vocabulary_file(rng):
    """a well-formed file whose extra groups carry the names other programs give a meaning to (TRIAL:ACTUAL_START_FIELD ...):
    for this library they are parameters like any others, whatever their dimensions"""
    c = filegen.make_content(rng, dict(nframes=2, npoints=2, nchan=1, nsub=2, dense_ids=True, order='canonical', big_record=False, empty_analog=False, nlabels=2, nalabels=1))
    P = lambda gid, name, ty, dims, vals: ('P', gid, name, b'', 0, ty, dims, vals)
    c['records'] = [r for r in c['records'] if not (r[0] == 'G' and r[2].startswith(b'EXTRA')) and r[1] in (1, 2)] + [
        ('G', 3, b'TRIAL', b'', 0), P(3, b'ACTUAL_START_FIELD', 'I', [2], [1, 0]), P(3, b'ACTUAL_END_FIELD', 'I', [2], [2, 0]), P(3, b'CAMERA_RATE', 'F', [], ['42c80000']),
        ('G', 4, b'EVENT', b'', 0), P(4, b'USED', 'I', [], [2]), P(4, b'CONTEXTS', 'C', [5, 2], [b'Left', b'Right']), P(4, b'LABELS', 'C', [4, 2], [b'FS', b'FO']),
        P(4, b'TIMES', 'F', [2, 2], ['00000000', '3f800000', '00000000', '40000000']), P(4, b'GENERIC_FLAGS', 'B', [2], [1, 0]),
        ('G', 5, b'SUBJECTS', b'', 0), P(5, b'USED', 'I', [], [1]), P(5, b'NAMES', 'C', [4, 1], [b'Anon']), P(5, b'LABEL_PREFIXES', 'C', [1, 1], [b'A']),
        ('G', 6, b'FORCE_PLATFORM', b'', 0), P(6, b'USED', 'I', [], [1]), P(6, b'TYPE', 'I', [1], [2]), P(6, b'CORNERS', 'F', [3, 4, 1], ['3f800000'] * 12),
        P(6, b'ORIGIN', 'F', [3, 1], ['00000000'] * 3), P(6, b'CHANNEL', 'I', [6, 1], [1, 1, 1, 1, 1, 1]), P(6, b'ZERO', 'I', [2], [1, 0]),
        ('G', 7, b'MANUFACTURER', b'', 0), P(7, b'COMPANY', 'C', [5], [b'Vicon']), P(7, b'SOFTWARE', 'C', [5], [b'Nexus']), P(7, b'VERSION', 'I', [3], [2, 12, 0])]
    return c3dspec.encode(dict(zeros=0, paddr=2, prologue_zeroed=False, end_by_zero_offset=False, strpad=b' ', extra_pad_blocks=0), c)

def structural_damage(rng, buf, zeros, tier):
    """field-aware corruption: the dimensions of one parameter all set to 0 / 1 / 0xff / 0x80 (the values stay where they are),
    its type byte set to each type code, alone and together with POINT:FRAMES set to 0xffff / 0x8000 / 0"""
    out = []; recs = records(buf, zeros)
    frames = [r for r in recs if r[0] == 'P' and r[2] == b'FRAMES']
    for k, r in enumerate(recs):
        if r[0] != 'P': continue
        muts = []
        if r[5]:
            for v in (0x00, 0x01, 0xff, 0x80):
                muts.append(('dims=%02x' % v, [(r[4] + j, v) for j in range(r[5])]))
            if r[5] >= 2: muts.append(('dims=ff,01', [(r[4], 0xff), (r[4] + 1, 0x01)]))
        for tcode in (0xff, 0x01, 0x02, 0x04, 0x00, 0x03):
            muts.append(('type=%02x' % tcode, [(r[3], tcode)]))
        muts.append(('ndims+1', [(r[3] + 1, r[5] + 1)]))
        for lab, edits in muts:
            for fv in (None, 0xffff, 0x8000):
                if fv is not None and (not frames or tier == 'quick' and k % 2): continue
                b = bytearray(buf)
                for o, v in edits:
                    if o < len(b): b[o] = v
                if fv is not None:
                    fo = frames[0][6]; b[fo] = fv & 0xff; b[fo + 1] = fv >> 8
                out.append(('struct:%s:%s%s' % (r[2].decode('latin-1'), lab, '' if fv is None else '+FRAMES=%04x' % fv), bytes(b)))
    return out

def damage(rng, name, buf, tier):
    """(label, bytes) : every truncation length (files <= 4 KB, stratified above), boundary overwrites at every offset of
    header and parameter section, double overwrites, structure-aware corruption of each field"""
    out = []
    n = len(buf)
    hdr_par = min(n, 1024 + 512)
    lens = list(range(0, n)) if n <= 4096 else sorted(set(list(range(0, 1600)) + [rng.randrange(n) for _ in range(400)]))
    if tier == 'quick': lens = [l for l in lens if l < 40 or l % 3 == 0 or 500 <= l <= 560]
    for l in lens: out.append(('trunc@%d' % l, buf[:l]))
    offs = range(0, hdr_par)
    for o in offs:
        vals = BOUNDARY if tier != 'quick' else ([0xff, 0x80] if o % 2 else [0x00, 0x7f])
        if o < 24 or 510 <= o < 700: vals = BOUNDARY + [rng.randrange(256)]
        for v in vals:
            if o < n and buf[o] != v:
                b = bytearray(buf); b[o] = v; out.append(('set@%d=%02x' % (o, v), bytes(b)))
    for _ in range(150 if tier == 'quick' else 3000):
        b = bytearray(buf)
        for _ in range(2):
            o = rng.randrange(min(n, hdr_par)); b[o] = rng.choice(BOUNDARY + [rng.randrange(256)])
        out.append(('double', bytes(b)))
    return out

def classify_cxx(lines, status):
    if status.startswith('signal') or status in ('driver-died', 'missing'): return 'CRASH:' + status
    if status != 'exit:0': return 'ABNORMAL:' + status
    if not lines: return 'NOOUTPUT'
    return lines[0]

def run(rep, work, rng, tier):
    common.proof_part(rep, 'C16')
    shared = work.sub('shared')
    files = base_files(rng, work, 2 if tier == 'quick' else 8)
    cases = []; labels = {}; kinds = {}
    damaged = [(name, buf, damage(rng, name, buf, tier) + structural_damage(rng, buf, buf.index(b'\x02') if buf[0] == 0 else 0, tier)) for name, buf in files]
    vb = vocabulary_file(rng)
    damaged.append(('vocab', vb, [('intact', vb)] + structural_damage(rng, vb, 0, tier)))
    # well-formed files in which ONE of the parameters the loader reads a first value of is an EMPTY array (one dimension of 0
    # entries, no value): nothing is damaged in the record chain, the value is simply not there
    empties = []
    for gname, pname in ((b'POINT', b'USED'), (b'POINT', b'FRAMES'), (b'POINT', b'RATE'), (b'ANALOG', b'USED'), (b'ANALOG', b'RATE'), (b'POINT', b'LABELS'), (b'ANALOG', b'LABELS'), (b'POINT', b'SCALE')):
        cc = filegen.make_content(rng, dict(nframes=1, npoints=2, nchan=1, nsub=1, dense_ids=True, order='canonical', big_record=False, empty_analog=False, nlabels=2, nalabels=1))
        gid = [r[1] for r in cc['records'] if r[0] == 'G' and r[2] == gname][0]
        cc['records'] = [(r[:6] + ([0] if r[5] != 'C' else [r[6][0] if r[6] else 4, 0], [])) if (r[0] == 'P' and r[1] == gid and r[2] == pname) else r for r in cc['records']]
        empties.append(('empty:%s:%s' % (gname.decode(), pname.decode()), c3dspec.encode(dict(zeros=0, paddr=2, prologue_zeroed=False, end_by_zero_offset=False, strpad=b' ', extra_pad_blocks=0), cc)))
    # files that hold nothing but zero bytes (the scan for the first non-zero byte must end with the file)
    for nz in (1, 2, 3, 300, 511, 512, 513, 1024, 4096): empties.append(('zeros:%d' % nz, bytes(nz)))
    damaged.append(('special', b'', empties))
    for name, buf, dmg in damaged:
        for k, (lab, b) in enumerate(dmg):
            fn = '%s_%d.c3d' % (name, k); open(os.path.join(shared, fn), 'wb').write(b)
            cid = '%s_%d' % (name, k); labels[cid] = (name, lab, fn)
            cases.append((cid, ['loadx 0 ' + fn, 'snap 0']))
            kk = 'structural' if lab.startswith('struct') else lab.split(':')[0] if lab.startswith(('empty:', 'zeros:')) else lab.split('@')[0].split('=')[0]; kinds[kk] = kinds.get(kk, 0) + 1
    t0 = time.time()
    # sanitizer build, per-case time limit and address-space limit: a crash, a hang or an allocation storm is an outcome
    (cres, cown, cerr), (mres, mown, merr) = harness.run_both(cases, work, shared=shared, flavor='asan',
                                                               cxx_extra=['--timeout', '10'], cxx_env={'ASAN_OPTIONS': 'detect_leaks=0:abort_on_error=1:allocator_may_return_null=1:max_allocation_size_mb=2048'})
    bad = 0; nd = 0; outcomes = {}; blow = 0; casts = 0
    for cid, lines in cases:
        cl, cs = cres.get(cid, ([], 'missing')); ml, ms = mres.get(cid, ([], 'missing'))
        oc = classify_cxx(cl, cs)
        key = oc if not oc.startswith('H ') else 'ok'
        key = 'ok' if key == 'ok' else key
        outcomes[key] = outcomes.get(key, 0) + 1
        name, lab, fn = labels[cid]
        model_blowup = ms.startswith('ub:blowup')
        if model_blowup: blow += 1
        if oc.startswith('CRASH') or oc.startswith('ABNORMAL') or oc == 'NOOUTPUT':
            sig = 'declared-size-exceeds-file' if model_blowup else None
            keep = os.path.join(harness.VERIF, 'replays', 'C16-%s-%s' % (rep.seed, fn))
            if rep.violation('oracle', 'loading a damaged file (%s of %s) ended with %s' % (lab, name, oc), script=lines, signature=sig,
                             extra=dict(file=keep, damage=lab)):
                bad += 1
                if bad <= 5:
                    os.makedirs(os.path.dirname(keep), exist_ok=True); open(keep, 'wb').write(open(os.path.join(shared, fn), 'rb').read())
            continue
        if ms.startswith('ub:'):
            if not model_blowup and not ms.startswith('ub:cast-range'):
                # the model says the C++ runs into a memory error although it survived this time: latent
                if rep.violation('latent', 'the model reaches undefined behaviour (%s) on a damaged file (%s of %s) that the library happened to survive' % (ms, lab, name),
                                 script=lines, signature='latent:' + ms.split('@')[0], extra=dict(damage=lab)): bad += 1
            elif ms.startswith('ub:cast-range'): casts += 1     # an out-of-range float conversion: the subject of C19, not a memory error
            continue
        d = harness.compare_case(cl, cs, ml, ms)
        if d is not None:
            nd += 1
            if nd <= 3:
                keep = os.path.join(harness.VERIF, 'replays', 'C16-%s-%s' % (rep.seed, fn))
                os.makedirs(os.path.dirname(keep), exist_ok=True); open(keep, 'wb').write(open(os.path.join(shared, fn), 'rb').read())
                rep.violation('correspondence', 'model and implementation differ on a damaged file (%s of %s)' % (lab, name), script=lines,
                              theorem='correspondence of the loader model with /repo (damaged files)', found_input=False,
                              extra=dict(first_difference=d, file=keep))
    rep.coverage.update(dict(evaluations=len(cases), distinct_nontrivial=len(set(labels[c][1] + labels[c][0] for c in labels)),
        rule='valid files x every truncation length (all for files <= 4 KB), boundary values {00,01,7f,80,ff,random} written at every offset of header and parameter section, double overwrites; each damaged file is loaded by the real library built with ASan + bounds + _GLIBCXX_ASSERTIONS under a 10 s limit in its own process; outcome must be an object or a standard exception and must equal the model\'s; distinct = distinct (file, damage)',
        samples=[labels[cases[0][0]][1], labels[cases[-1][0]][1]], damage_kinds=kinds, outcome_classes=outcomes, model_blowup_verdicts=blow, out_of_range_float_casts=casts,
        disagreements=nd, oracle_failures=bad, load_wall_s=round(time.time() - t0, 1)))
