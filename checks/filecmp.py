"""Comparing what a file encodes (c3dspec.decode) with what an object holds (a parsed dump)."""
from lib import harness, c3dspec

def canon_str(b): return b.rstrip(b' ')

def expected_groups_from_dump(snap, for_file=True):
    """the groups a file saved from this object must encode: [(id, NAME, desc, lock, [(NAME, desc, lock, type, dims, vals)])]"""
    out = []
    for i, g in enumerate(snap.groups):
        if g['name'] == b'' and not g['params']: continue
        ps = []
        for p in g['params']:
            vals = [canon_str(v) for v in p['vals']] if p['type'] == 'C' else list(p['vals'])
            ps.append((p['name'].upper(), p['desc'], p['lock'], p['type'], list(p['dims']), vals))
        out.append((i + 1, g['name'].upper(), g['desc'], g['lock'], ps))
    return out

def groups_from_decoded(dec):
    out = []
    for gid in sorted(dec['groups']):
        e = dec['groups'][gid]
        ps = [(p['name'], p['desc'], p['lock'], p['type'], list(p['dims']), list(p['vals'])) for p in e['params']]
        out.append((gid, e['name'], e['desc'], e['lock'], ps))
    return out

def diff_groups(exp, got, skip_values=((b'POINT', b'DATA_START'),)):
    """list of differing components"""
    bad = []
    if [(g[0], g[1]) for g in exp] != [(g[0], g[1]) for g in got]:
        return ['groups: ids/names %r vs %r' % ([(g[0], g[1]) for g in exp][:8], [(g[0], g[1]) for g in got][:8])]
    for ge, gg in zip(exp, got):
        if ge[2] != gg[2]: bad.append('group[%s].description' % ge[1].decode('latin-1'))
        if ge[3] != gg[3]: bad.append('group[%s].lock' % ge[1].decode('latin-1'))
        if [p[0] for p in ge[4]] != [p[0] for p in gg[4]]:
            bad.append('group[%s].parameter names %r vs %r' % (ge[1].decode('latin-1'), [p[0] for p in ge[4]], [p[0] for p in gg[4]])); continue
        for pe, pg in zip(ge[4], gg[4]):
            key = '%s:%s' % (ge[1].decode('latin-1'), pe[0].decode('latin-1'))
            for k, nm in ((1, 'description'), (2, 'lock'), (3, 'type'), (4, 'dimensions'), (5, 'values')):
                if nm == 'values' and (ge[1], pe[0]) in skip_values: continue
                if pe[k] != pg[k]: bad.append('param[%s].%s object=%r file=%r' % (key, nm, pe[k] if nm != 'values' else pe[k][:6], pg[k] if nm != 'values' else pg[k][:6])); break
    return bad

def frames_from_dump(snap):
    return [([p[1:5] for p in f['pts']], [[c[1] for c in sf] for sf in f['subs']]) for f in snap.frames]

def diff_file_vs_object(dec, snap):
    """components on which the decoded file and the saving object disagree (C03)"""
    bad = diff_groups(expected_groups_from_dump(snap), groups_from_decoded(dec))
    h = snap.h
    if dec['npoints'] != h['npts'] & 0xFFFF: bad.append('hdr.points')
    if dec['nmeas'] != h['nmeas'] & 0xFFFF: bad.append('hdr.meas')
    if dec['nsub'] != h['byframe'] & 0xFFFF: bad.append('hdr.subframes')
    if dec['first'] != (h['first'] + 1) & 0xFFFF: bad.append('hdr.first')
    if dec['last'] != (h['last'] + 1) & 0xFFFF: bad.append('hdr.last')
    if dec['rate'] != h['rate']: bad.append('hdr.rate')
    if dec['gap'] != h['gap'] & 0xFFFF: bad.append('hdr.gap')
    if dec['nev'] != h['nev'] & 0xFFFF: bad.append('hdr.nevents')
    if dec['evtime'] != h['evtime']: bad.append('hdr.event_times')
    if dec['evdisp'] != [x & 0xFFFF for x in h['evdisp']]: bad.append('hdr.event_display')
    if dec['evlab'] != [x[:4] for x in h['evlab']]: bad.append('hdr.event_labels')
    # the numbers of a saved file are little-endian IEEE: the section must say so (84), whatever tag the source file carried
    if dec.get('proc', 84) != 84: bad.append('section.processor_type file=%d (the numbers written are Intel: 84)' % dec['proc'])
    for k, nm in (('keylab', 'hdr.key_labels_present'), ('keyblk', 'hdr.key_labels_block'), ('four', 'hdr.four_char_labels')):
        if k in dec and dec[k] != h[k] & 0xFFFF: bad.append('%s object=%r file=%r' % (nm, h[k], dec[k]))
    fo = frames_from_dump(snap)
    fd = [([tuple(p) for p in pts], an) for pts, an in dec['frames']]
    fo2 = [([tuple(p) for p in pts], an) for pts, an in fo]
    if len(fd) != len(fo2): bad.append('frames.count (%d decoded, %d stored)' % (len(fd), len(fo2)))
    else:
        for k, (a, b) in enumerate(zip(fd, fo2)):
            if a != b: bad.append('frame[%d]' % k); break
    return bad


def beyond_capacity(snap):
    """the format limits this object exceeds (empty list: the content fits the format)"""
    out = []
    ng = len([g for g in snap.groups if g['name'] or g['params']])
    if len(snap.groups) > 127: out.append('groups>127')
    for g in snap.groups:
        if len(g['name']) > 127: out.append('group-name>127')
        if len(g['desc']) > 255: out.append('group-description>255')
        for p in g['params']:
            if len(p['name']) > 127: out.append('name>127')
            if len(p['desc']) > 255: out.append('description>255')
            if len(p['dims']) > 127: out.append('dimensions>127')
            if any(d > 255 for d in p['dims']): out.append('dimension>255')
            if p['type'] == 'I' and any(v < -32768 or v > 32767 for v in p['vals']): out.append('int16-range')
            if p['type'] == 'B' and any(v < -128 or v > 127 for v in p['vals']): out.append('int8-range')
            if p['type'] == 'C' and p['dims'] and any(len(v) > p['dims'][0] for v in p['vals']): out.append('string>width')
            n = 1
            for d in p['dims']: n *= d
            size = {'C': 1, 'B': 1, 'I': 2, 'F': 4}.get(p['type'], 0)
            if 5 + len(p['name']) + len(p['dims']) + n * size + len(p['desc']) > 65535: out.append('record>65535')
    h = snap.h
    if h['npts'] > 255 or (h['nanalogs'] > 255): out.append('points-or-channels>255')
    if len(snap.frames) > 32767: out.append('frames>32767')
    if h['last'] + 1 > 65535 and h['last'] < 2**63: out.append('last-frame>65535')
    return sorted(set(out))
