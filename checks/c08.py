"""C08 — stored data is independent of the caller's objects and of other frames."""
from lib import harness, gen
from lib.harness import hx
from checks import common, apihist
from checks.apihist import rand_lit, trim
LEVEL = 'proof'

def history(rng):
    """a caller frame is reused, copied, mutated and handed over several times; stored frames are edited in place; columns"""
    lines = ['new 0']; kinds = []
    names = apihist.uniq_names(rng, rng.choice([1, 2, 3]), pad=False)
    chans = apihist.uniq_names(rng, rng.choice([0, 1, 2]), b'c', pad=False)
    # a data set that starts WITHOUT points (channels only): its first point column arrives when frames are already stored
    if chans and rng.random() < 0.4: names = []; kinds.append('starts-without-points')
    for n in names: lines.append('point 0 ' + hx(n))
    for c in chans: lines.append('analog 0 ' + hx(c))
    lines += ['P.new x52415445 x', 'P.set F 0 1 42c80000', 'param 0 x504f494e54']
    nsub = 0
    if chans:
        nsub = rng.choice([1, 2]); lines += ['P.new x52415445 x', 'P.set F 0 1 %s' % harness.fhex(harness.f2bits(100.0 * nsub)), 'param 0 x414e414c4f47']
    lit = lambda: rand_lit(rng, names, chans, nsub)
    lines += ['F.new 0', 'F.set 0 ' + lit().text()]
    nstored = 0
    for _ in range(rng.choice([4, 8, 14])):
        r = rng.random()
        if r < 0.30:
            tgt = '-' if (nstored == 0 or rng.random() < 0.6) else str(rng.choice([0, nstored - 1, nstored, nstored + 2]))
            lines.append('frameR 0 %s 0' % tgt); kinds.append('hand-over-same-frame')
            nstored = nstored + 1 if tgt == '-' else max(nstored, int(tgt) + 1)
        elif r < 0.45:
            if names: lines.append('F.mutpt 0 %d %s' % (rng.randrange(len(names)), apihist.rf(rng))); kinds.append('caller-mutates-point')
        elif r < 0.55 and chans:
            lines.append('F.mutch 0 %d %d %s' % (rng.randrange(nsub), rng.randrange(len(chans)), apihist.rf(rng))); kinds.append('caller-mutates-channel')
        elif r < 0.62:
            lines.append('F.copy 1 0'); lines.append(('F.mutpt 1 0 ' if names else 'F.mutch 1 0 0 ') + apihist.rf(rng)); lines.append('frameR 0 - 1'); kinds.append('copy-then-mutate-then-hand-over'); nstored += 1
        elif r < 0.66:
            lines.append('F.set 0 ' + lit().text()); kinds.append('caller-refills')
        elif r < 0.70 and nstored:
            # the caller copies a stored frame out of the object and gives the copy new content (points AND analogs): the copy
            # detaches, the stored frame keeps what it held
            lines.append('F.fromdata 1 0 %d' % rng.randrange(nstored)); lines.append('F.set 1 ' + lit().text()); kinds.append('copy-of-stored-frame-refilled')
        elif r < 0.70:
            lines.append('F.copy 1 0'); lines.append('F.set 1 ' + lit().text()); kinds.append('copy-of-caller-frame-refilled')
        elif r < 0.80 and nstored:
            if names and rng.random() < 0.4:      # the same through the by-name accessors (point_nonConst(name); an absent name is refused)
                lines.append('D.mutptn 0 %d %s %s' % (rng.randrange(nstored), harness.hx(rng.choice(list(names) + [b'nosuch'])), apihist.rf(rng))); kinds.append('edit-stored-frame-in-place-by-name')
            else:
                lines.append('D.mutpt 0 %d %d %s' % (rng.randrange(nstored), rng.randrange(max(1, len(names))), apihist.rf(rng))); kinds.append('edit-stored-frame-in-place')
        elif r < 0.86 and nstored and chans:
            if rng.random() < 0.4:
                lines.append('D.mutchn 0 %d %d %s %s' % (rng.randrange(nstored), rng.randrange(nsub), harness.hx(rng.choice(list(chans) + [b'nosuch'])), apihist.rf(rng))); kinds.append('edit-stored-channel-in-place-by-name')
            else:
                lines.append('D.mutch 0 %d %d %d %s' % (rng.randrange(nstored), rng.randrange(nsub), rng.randrange(len(chans)), apihist.rf(rng))); kinds.append('edit-stored-channel-in-place')
        elif r < 0.90 and nstored and nstored <= 12:
            # a point column handed over as CALLER frames (one register per stored frame, or one register for all of them), which
            # the caller then goes on editing: the stored frames must keep what they were given
            n = apihist.uniq_names(rng, 1, b'nq', False)[0]
            regs = [2] * nstored if rng.random() < 0.5 else list(range(2, 2 + nstored))
            for k in sorted(set(regs)): lines += ['F.new %d' % k, 'F.set %d %s' % (k, rand_lit(rng, [n], [], 0).text())]
            lines.append('pointcolR 0 %d %s' % (nstored, ' '.join(str(k) for k in regs))); kinds.append('point-column-of-caller-frames'); names = names + [n]
            lines.append('snap 0')
            lines.append('F.mutpt %d 0 %s' % (regs[-1], apihist.rf(rng))); lines.append('snap 0')
            lines.append('F.set 0 ' + lit().text())
        elif r < 0.93 and nstored:
            n = apihist.uniq_names(rng, 1, b'np', False)[0]
            lines.append('point 0 ' + hx(n)); kinds.append('add-point-column'); names = names + [n]
            lines.append('snap 0'); lines.append('F.show 0')
            lines.append('F.set 0 ' + lit().text())
        elif nstored and chans and nsub:
            n = apihist.uniq_names(rng, 1, b'nc', False)[0]
            lines.append('analog 0 ' + hx(n)); kinds.append('add-channel-column'); chans = chans + [n]
            lines.append('snap 0'); lines.append('F.show 0')
            lines.append('F.set 0 ' + lit().text())
        lines.append('snap 0'); lines.append('F.show 0'); lines.append('F.show 1')
    return lines, kinds

def run(rep, work, rng, tier):
    common.proof_part(rep, 'C08')
    n = 200 if tier == 'quick' else 20000
    cases = []; kinds = {}
    for i in range(n):
        lines, ks = history(rng); cases.append(('a%d' % i, lines))
        for k in ks: kinds[k] = kinds.get(k, 0) + 1
    def proj(l): return l if l[:2] in ('D ', 'F ', 'p ', 's ', 'c ', 'ok', 'th', 'E') else None
    (c, _), (m, _), nd = common.correspondence(rep, work, cases, project=proj, select=lambda ln: True, label='stored frames and caller frames after every step')
    # direct oracle on the C++ alone: a caller-side operation (F.*) must leave the object's dump unchanged, and an in-place edit
    # of stored frame f must change frame f only
    bad = 0; checked = 0
    for cid, lines in cases:
        cl, cs = c.get(cid, ([], 'missing'))
        ops = harness.split_ops(lines, cl); last = None; pending = None; hist = []
        for ln, out in ops:
            hist.append(ln); cmd = ln.split(' ')[0]
            if cmd == 'snap' and out and out[0].startswith('H '):
                s = harness.Snap(out); fk = apihist.frames_key(s)
                if pending is not None and last is not None:
                    kind, arg = pending; checked += 1
                    if kind == 'caller' and fk != last:
                        bad += 1
                        if bad <= 3: rep.violation('oracle', 'a change to the caller\'s own frame (%s) changed what the object stores' % arg, script=[l for l in hist if not l.startswith(('snap', 'F.show'))], signature='caller-aliasing')
                    if kind == 'inplace':
                        f = int(arg.split(' ')[2])
                        others_same = len(fk) == len(last) and all(a == b for k, (a, b) in enumerate(zip(fk, last)) if k != f)
                        if not others_same:
                            bad += 1
                            if bad <= 3: rep.violation('oracle', 'editing stored frame %d in place changed another frame' % f, script=[l for l in hist if not l.startswith(('snap', 'F.show'))], signature='store-aliasing')
                    if kind == 'column':
                        grew = [len(b[0]) - len(a[0]) + sum(len(x) for x in b[1]) - sum(len(x) for x in a[1]) for a, b in zip(last, fk)]
                        nsub = [max(1, len(a[1])) if arg == 'analog' else 1 for a in last]
                        if len(fk) == len(last) and any(g != ns for g, ns in zip(grew, nsub)) and out:
                            bad += 1
                            if bad <= 3: rep.violation('oracle', 'adding one %s column changed frames by %s elements' % (arg, grew), script=[l for l in hist if not l.startswith(('snap', 'F.show'))], signature='column-added-more-than-once')
                last = fk; pending = None
            elif cmd in ('F.mutpt', 'F.mutch', 'F.set', 'F.copy', 'F.addpt', 'F.addch', 'F.fromdata'): pending = ('caller', ln[:60])
            elif cmd in ('D.mutpt', 'D.mutch', 'D.mutptn', 'D.mutchn') and out and out[0] == 'ok': pending = ('inplace', ln[:60])
            elif cmd in ('point', 'analog') and out and out[0] == 'ok' and last: pending = ('column', cmd)
            elif cmd in ('frameR', 'pointcolR', 'analogcolR', 'frame', 'param'): pending = None
    rep.coverage.update(dict(evaluations=sum(kinds.values()), distinct_nontrivial=len(set(l for _, ls in cases for l in ls if not l.startswith(('snap', 'F.show')))),
        rule='histories in which one caller frame is handed over several times (append and indexed), copied (shared handles), mutated between submissions and after, refilled, stored frames edited in place through the non-const accessors, point/channel columns added afterwards; after every step the stored frames and the caller frame are compared with the handle-heap model, and three direct checks run on the C++ snapshots alone (caller edits change nothing stored; an in-place edit changes one frame; a column is added once); distinct = distinct operation lines',
        samples=[cases[0][1][:14]], op_kinds=kinds, direct_checks=checked, disagreements=nd, oracle_failures=bad))
