"""C07 — frame-adding calls enforce their documented preconditions."""
from lib import harness, gen
from lib.harness import hx
from lib import oracles
from checks import common, apihist
from checks.apihist import Lit, parse_lit, rand_lit, trim
LEVEL = 'proof'

def sel(ln): return ln.split(' ', 1)[0] in ('frame', 'point', 'analog', 'pointcol', 'analogcol')

def is_zero(h): return (int(h, 16) & 0x7fffffff) == 0

def env_of(s):
    """what the guards read, from a snapshot; None if a mandatory parameter is missing / retyped"""
    def vals(g, n, ty):
        p = s.param(g, n)
        if p is None or p['type'] != ty: return None
        return p['vals']
    used = vals(b'POINT', b'USED', 'I'); labels = vals(b'POINT', b'LABELS', 'C'); prate = vals(b'POINT', b'RATE', 'F')
    aused = vals(b'ANALOG', b'USED', 'I'); alabels = vals(b'ANALOG', b'LABELS', 'C'); arate = vals(b'ANALOG', b'RATE', 'F')
    if None in (used, labels, prate, aused, alabels, arate) or not used or not prate or not aused or not arate: return None
    return dict(used=used[0] % 2**64, labels=labels, prate=prate[0], aused=aused[0] % 2**64, alabels=alabels, arate=arate[0],
                byframe=s.h['byframe'], nframes=len(s.frames))

def doc_frame(env, lit):
    """(verdict, class): 'refuse' with the documented class, 'accept', or 'unspecified'"""
    st = lit.stored(); names = [p[0] for p in st['pts']]; nsub = len(st['subs'])
    if env['used'] != 0 and len(names) != env['used']: return 'refuse', 'throw runtime_error'
    if any(l not in names for l in env['labels']): return 'refuse', 'throw invalid_argument'
    if names and is_zero(env['prate']): return 'refuse', 'throw runtime_error'
    if nsub and is_zero(env['arate']): return 'refuse', 'throw runtime_error'
    if nsub and env['aused'] != 0 and len(st['subs'][0]) != env['aused']: return 'refuse', 'throw runtime_error'
    # "a frame that matches the declared names, counts, rates and sub-frame ratio is always accepted"
    matches = (len(names) == env['used'] and (nsub == 0 and env['aused'] == 0 or
               (nsub == env['byframe'] and all(len(sf) == env['aused'] for sf in st['subs']))))
    return ('accept', 'ok') if matches else ('unspecified', None)

def doc_pointcol(env, lits):
    if len(lits) == 0 or len(lits) != env['nframes']: return 'refuse', 'throw invalid_argument'
    k = len(lits[0].pts)
    if k == 0: return 'refuse', 'throw invalid_argument'
    names = [trim(p[0]) for p in lits[0].pts]
    if any(n in env['labels'] for n in names): return 'refuse', 'throw invalid_argument'
    if all(len(l.pts) >= k for l in lits): return 'accept', 'ok'
    return 'unspecified', None

def doc_analogcol(env, lits):
    if len(lits) == 0 or len(lits) != env['nframes']: return 'refuse', 'throw invalid_argument'
    if len(lits[0].subs) != env['byframe']: return 'refuse', 'throw invalid_argument'
    if env['byframe'] == 0: return 'unspecified', None
    k = len(lits[0].subs[0])
    if k == 0: return 'refuse', 'throw invalid_argument'
    names = [trim(c[0]) for c in lits[0].subs[0]]
    if any(n in env['alabels'] for n in names): return 'refuse', 'throw invalid_argument'
    if all(len(l.subs) >= env['byframe'] and all(len(sf) >= k for sf in l.subs[:env['byframe']]) for l in lits): return 'accept-if-stored-uniform', 'ok'
    return 'unspecified', None

def base_states(rng):
    """(declared/undeclared) x (with/without rates) x (with/without data)"""
    out = []
    for npts, nch in ((0, 0), (2, 0), (0, 2), (3, 2), (1, 1)):
        for rates in ('none', 'point', 'analog', 'both', 'both-low', 'both-tiny'):
            for nfr in (0, 2):
                b = apihist.Builder(rng, snap=False); sh = b.sh
                for n in apihist.uniq_names(rng, npts): b.declare_point(n); sh.pts.append(trim(n))
                for n in apihist.uniq_names(rng, nch, b'c'): b.declare_analog(n); sh.chans.append(trim(n))
                pr, ar = rng.choice(apihist.RATES + [(0.5, 0.5), (0.25, 0.75), (0.999, 1.998), (1e-3, 2e-3), (214748.0, 429496.0),
                                                  (100.0, 50.0), (120.0, 60.0), (2.0, 1.0), (100.0, 99.0), (3.0, 2.0)])   # ratio below 1: no sub-frame announced
                if rates == 'both-low':      # the analog rate is below the point rate: the rates announce NO sub-frame
                    if not nch or nfr: continue
                    pr, ar = rng.choice([(100.0, 50.0), (120.0, 60.0), (2.0, 1.0), (100.0, 99.0), (3.0, 2.0)])
                if rates == 'both-tiny':     # rates that are not zero but far below any resolution one may think of (the guard says "is 0")
                    if nfr: continue
                    pr, ar = rng.choice([(5e-5, 1e-4), (1e-5, 2e-5), (1e-30, 3e-30), (1.4e-45, 2.8e-45)])
                if rates in ('point', 'both', 'both-low', 'both-tiny'): b.set_rate(b'POINT', pr)
                if rates in ('analog', 'both', 'both-low', 'both-tiny'): b.set_rate(b'ANALOG', ar)
                ok_data = (rates == 'both') or (rates == 'point' and not nch) or (rates == 'analog' and not npts) or (npts == 0 and nch == 0)
                if nfr and ok_data:
                    for _ in range(nfr):
                        b.frame(rand_lit(rng, sh.pts, sh.chans, sh.expected_nsub() if sh.chans else 0), '-')
                        if sh.filled == 0: sh.nsub = sh.expected_nsub() if sh.chans else 0
                        sh.filled += 1; sh.nframes += 1
                elif nfr: continue
                out.append(b)
    return out

def run(rep, work, rng, tier):
    common.proof_part(rep, 'C07')
    cases = []; kinds = {}
    reps = 1 if tier == 'quick' else 40
    for _ in range(reps):
        for bi, b in enumerate(base_states(rng)):
            sh = b.sh
            tests = []
            for dev in ['conforming'] + apihist.DEVIATIONS:
                lit = rand_lit(rng, sh.pts, sh.chans, sh.expected_nsub() if sh.chans else 0) if dev == 'conforming' else apihist.deviate(rng, sh, dev)
                for idx in ('-', '0'):
                    tests.append(('frame:' + dev, 'frame 0 %s %s' % (idx, lit.text())))
            # columns
            nf = sh.nframes
            for dev in ('ok1', 'ok2', 'dup0', 'dup1', 'frames-1', 'frames+1', 'none', 'nopoints', 'short'):
                k = 2 if dev in ('ok2', 'dup1', 'short') else 1
                names = [b'new_a', b'new_b'][:k]
                if dev == 'dup0' and sh.pts: names[0] = sh.pts[0]
                if dev == 'dup1' and sh.pts: names[1] = sh.pts[-1]
                n = nf + (-1 if dev == 'frames-1' else 1 if dev == 'frames+1' else 0)
                if dev == 'none': n = 0
                if n < 0: continue
                lits = [rand_lit(rng, [] if dev == 'nopoints' else names, [], 0) for _ in range(n)]
                if dev == 'short' and n >= 2: lits[-1] = rand_lit(rng, names[:1], [], 0)
                tests.append(('pointcol:' + dev, 'pointcol 0 %d %s' % (n, ' '.join(l.text() for l in lits))))
            ns = sh.nsub if sh.filled else sh.expected_nsub()
            for dev in ('ok1', 'ok2', 'dup0', 'dup1', 'frames-1', 'frames+1', 'none', 'nochan', 'subs-1', 'subs+1'):
                k = 2 if dev in ('ok2', 'dup1') else 1
                names = [b'new_c', b'new_d'][:k]
                if dev == 'dup0' and sh.chans: names[0] = sh.chans[0]
                if dev == 'dup1' and sh.chans: names[1] = sh.chans[-1]
                n = nf + (-1 if dev == 'frames-1' else 1 if dev == 'frames+1' else 0)
                if dev == 'none': n = 0
                if n < 0: continue
                nsub = (ns or 0) + (-1 if dev == 'subs-1' else 1 if dev == 'subs+1' else 0)
                if nsub < 0: continue
                lits = [rand_lit(rng, [], [] if dev == 'nochan' else names, nsub) for _ in range(n)]
                tests.append(('analogcol:' + dev, 'analogcol 0 %d %s' % (n, ' '.join(l.text() for l in lits))))
            for dev, nm in (('new', b'fresh'), ('dup', sh.pts[0] if sh.pts else b'fresh2'), ('padded-dup', (sh.pts[0] + b'  ') if sh.pts else b'x ')):
                tests.append(('point:' + dev, 'point 0 ' + hx(nm)))
            for dev, nm in (('new', b'cfresh'), ('dup', sh.chans[0] if sh.chans else b'cfresh2')):
                tests.append(('analog:' + dev, 'analog 0 ' + hx(nm)))
            # every test runs from the same state: one case per test (state rebuilt by replaying the base lines)
            for ti, (kind, line) in enumerate(tests):
                cases.append(('s%d_%d_%d' % (_, bi, ti), b.lines + ['snap 0', line]))
                kinds[kind] = kinds.get(kind, 0) + 1
    # RELABELLED data sets: POINT:LABELS / ANALOG:LABELS rewritten through parameter() after the data exist (same count, other
    # names): "a name already exists" is about the declared labels, whatever the stored points are called
    for ri in range(3 * reps):
        npts = rng.choice([2, 3]); nch = rng.choice([0, 2])
        b = apihist.Builder(rng, snap=False); sh = b.sh
        for n in apihist.uniq_names(rng, npts): b.declare_point(n); sh.pts.append(trim(n))
        for n in apihist.uniq_names(rng, nch, b'c'): b.declare_analog(n); sh.chans.append(trim(n))
        pr, ar = rng.choice(apihist.RATES); b.set_rate(b'POINT', pr)
        if nch: b.set_rate(b'ANALOG', ar)
        nf = rng.choice([1, 2, 3])
        for _k in range(nf): b.frame(rand_lit(rng, sh.pts, sh.chans, sh.expected_nsub() if sh.chans else 0), '-')
        newl = [b'RL%d' % i for i in range(npts)]
        b.raw('P.new %s x' % hx(b'LABELS')); b.raw('P.set S 1 %d %d %s' % (npts, npts, ' '.join(hx(x) for x in newl)))
        b.emit('param 0 ' + hx(b'POINT'), 'relabel')
        tests = []
        for nm, kind in ((newl[0], 'pointcol:new-label'), (newl[-1], 'pointcol:new-label-last'), (sh.pts[0], 'pointcol:stored-name-not-a-label'), (b'fresh_q', 'pointcol:fresh')):
            tests.append((kind, 'pointcol 0 %d %s' % (nf, ' '.join(rand_lit(rng, [nm], [], 0).text() for _k in range(nf)))))
            tests.append((kind.replace('pointcol', 'point'), 'point 0 ' + hx(nm)))
        if nch:
            newc = [b'RC%d' % i for i in range(nch)]
            b.raw('P.new %s x' % hx(b'LABELS')); b.raw('P.set S 1 %d %d %s' % (nch, nch, ' '.join(hx(x) for x in newc)))
            b.emit('param 0 ' + hx(b'ANALOG'), 'relabel')
            ns = sh.expected_nsub()
            for nm, kind in ((newc[0], 'analogcol:new-label'), (sh.chans[0], 'analogcol:stored-name-not-a-label'), (b'fresh_c', 'analogcol:fresh')):
                tests.append((kind, 'analogcol 0 %d %s' % (nf, ' '.join(rand_lit(rng, [], [nm], ns).text() for _k in range(nf)))))
                tests.append((kind.replace('analogcol', 'analog'), 'analog 0 ' + hx(nm)))
        for ti, (kind, line) in enumerate(tests):
            cases.append(('rl%d_%d' % (ri, ti), b.lines + ['snap 0', line]))
            kinds[kind] = kinds.get(kind, 0) + 1
    (c, _), (m, _), nd = common.correspondence(rep, work, cases, select=sel, label='guards (accept/refuse and exception class)')
    bad = 0; verdicts = {}
    for cid, lines in cases:
        cl, cs = c.get(cid, ([], 'missing'))
        recs = apihist.op_records(lines, cl)
        if not recs: continue
        r = recs[-1]
        if r.before is None or not r.out: continue
        env = env_of(r.before)
        if env is None: continue
        t = r.line.split(); cmd = t[0]; got = r.out[0]
        if cmd == 'frame':
            lit, _ = parse_lit(t, 3); v, cls = doc_frame(env, lit)
        elif cmd == 'pointcol':
            n = int(t[2]); i = 3; lits = []
            for _ in range(n): l, i = parse_lit(t, i); lits.append(l)
            v, cls = doc_pointcol(env, lits)
        elif cmd == 'analogcol':
            n = int(t[2]); i = 3; lits = []
            for _ in range(n): l, i = parse_lit(t, i); lits.append(l)
            v, cls = doc_analogcol(env, lits)
            if v == 'accept-if-stored-uniform':
                v = 'accept' if all(len(f['subs']) >= env['byframe'] for f in r.before.frames) else 'unspecified'
        elif cmd == 'point':
            nm = trim(harness.unhx(t[2]))
            if env['nframes'] == 0: v, cls = 'accept', 'ok'
            elif nm in env['labels']: v, cls = 'refuse', 'throw invalid_argument'
            else: v, cls = 'accept', 'ok'
        elif cmd == 'analog':
            nm = trim(harness.unhx(t[2]))
            if env['nframes'] == 0: v, cls = 'accept', 'ok'
            elif env['byframe'] == 0: v, cls = 'unspecified', None
            elif nm in env['alabels']: v, cls = 'refuse', 'throw invalid_argument'
            else: v, cls = ('accept', 'ok') if all(len(f['subs']) >= env['byframe'] for f in r.before.frames) else ('unspecified', None)
        else: continue
        verdicts[v + ':' + (cls or '-')] = verdicts.get(v + ':' + (cls or '-'), 0) + 1
        if v != 'unspecified' and got != cls:
            bad += 1
            if bad <= 4:
                rep.violation('oracle', '%s answered %r where the documented contract says %s (%s)' % (cmd, got, v, cls),
                              script=[l for l in lines if not l.startswith('snap')], signature='guard:%s:%s' % (cmd, v))
    rep.coverage.update(dict(evaluations=len(cases), distinct_nontrivial=len(set(ls[-1] for _, ls in cases)),
        rule='object states {0/2/3 points x 0/2 channels} x {no rate, point, analog, both} x {no data, data} crossed with every deviation of a frame (one point/channel/sub-frame too few or too many, renamed, duplicated, permuted, empty, nothing) and of a column (frames +-1, none, no point/channel, duplicate in column 0 or 1, sub-frames +-1, short frame); the accept/refuse verdict and the exception class of the C++ are compared with the model and with the documented guard evaluated on the snapshot taken before the call; distinct = distinct final calls',
        samples=[cases[0][1][-2:]], deviation_kinds=kinds, documented_verdicts=verdicts, disagreements=nd, oracle_failures=bad))
