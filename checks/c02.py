"""C02 — loading a well-formed C3D yields exactly what the file encodes."""
import os
from lib import harness, gen, c3dspec, filegen
from checks import common
LEVEL = 'proof'

VENDOR = ['/repo/test/c3dFiles/Vicon.c3d', '/repo/test/c3dFiles/Qualisys.c3d', '/repo/test/c3dFiles/Optotrak.c3d', '/repo/example/markers_analogs.c3d']

def run(rep, work, rng, tier):
    common.proof_part(rep, 'C02')
    shared = work.sub('shared')
    n = 300 if tier == 'quick' else 30000
    cases = []; exp = {}; layouts = {}; shapes = {}
    for i in range(n):
        L = filegen.make_layout(rng); c = filegen.make_content(rng)
        buf = c3dspec.encode(L, c)
        name = 'f%d.c3d' % i
        open(os.path.join(shared, name), 'wb').write(buf)
        cid = 'f%d' % i
        cases.append((cid, ['loadx 0 ' + name, 'snap 0']))
        exp[cid] = filegen.expected_dump(L, c)
        for k in ('zeros', 'paddr', 'prologue_zeroed', 'end_by_zero_offset', 'extra_pad_blocks'):
            layouts['%s=%s' % (k, L[k])] = layouts.get('%s=%s' % (k, L[k]), 0) + 1
        key = 'points=%d channels=%d subframes=%d' % (min(c['npoints'], 9), min(c['nchan'], 9), c['nsub'])
        shapes[key] = shapes.get(key, 0) + 1
    nv = 0
    for p in (VENDOR[1:3] if tier == 'quick' else VENDOR):
        if os.path.exists(p):
            name = 'vendor%d.c3d' % nv; nv += 1
            open(os.path.join(shared, name), 'wb').write(open(p, 'rb').read())
            cases.append(('v_' + os.path.basename(p), ['loadx 0 ' + name, 'snap 0']))
    (c, _), (m, _), nd = common.correspondence(rep, work, cases, label='loaded object (full dump)', shared=shared)
    bad = 0; comps = {}; loaded = 0
    # C02_any_layout: on which files does the layout theorem apply (certificate computed and checked by the extracted Coq functions)
    certs = common.layout_certificates(work, [lines[0].split(' ')[2] for cid, lines in cases], shared); ncert = 0; ncert_ok = 0
    for cid, lines in cases:
        cl, cs = c.get(cid, ([], 'missing'))
        ops = harness.split_ops(lines, cl)
        if cid.startswith('v_'):
            # vendor files: decoded by the reference decoder (non strict: vendors break several consistency rules)
            continue
        out0 = ops[0][1]
        if not out0 or out0[0] != 'ok':
            bad += 1
            rep.violation('oracle', 'a well-formed file was not loaded: %s (%s)' % (out0, cs), script=lines, signature='load-refused',
                          extra=dict(file=os.path.join(shared, lines[0].split(' ')[2])))
            continue
        loaded += 1
        snap = harness.Snap(ops[1][1])
        diffs = filegen.diff_dump(snap, exp[cid])
        proved = certs.get(lines[0].split(' ')[2], (False, ''))[0]; ncert += proved; ncert_ok += (proved and not diffs)
        for d in diffs[:1]:
            if proved: d += ' (the layout theorem applies to this file: the model provably loads exactly its parts)'
            comp = d.split(' ')[0].split('.')[0] + '.' + d.split(' ')[0].split('.')[-1] if '.' in d.split(' ')[0] else d.split(' ')[0]
            comps[comp] = comps.get(comp, 0) + 1
            bad += 1
            if bad <= 4:
                keep = os.path.join(harness.VERIF, 'replays', 'C02-%s-%s' % (rep.seed, lines[0].split(' ')[2]))
                os.makedirs(os.path.dirname(keep), exist_ok=True)
                open(keep, 'wb').write(open(os.path.join(shared, lines[0].split(' ')[2]), 'rb').read())
                rep.violation('oracle', 'the loaded object differs from what the file encodes: %s' % d, script=['loadx 0 <file>', 'snap 0'],
                              signature='decode:' + comp, extra=dict(file=keep))
    rep.coverage.update(dict(evaluations=len(cases), distinct_nontrivial=loaded,
        rule='files written by the independent spec-level encoder (lib/c3dspec.py) over layout variants (leading zeros, parameter block address, zeroed prologue, termination by zero offset or zero length, extra padding blocks, NUL or space padded strings) x contents (group ids sparse and in any order, parameters before their group, empty ANALOG group, labels fewer / more than points, byte/int/float/string parameters of 0..7 dimensions, events, first-frame offsets, every float class in point/residual/analog positions) plus the vendor files; the dump of the loaded object is compared with the model (correspondence) and with the content the file was encoded from; non-trivial = loaded and compared',
        samples=[cases[0][1]], layout_variants=layouts, shapes=shapes, failing_components=comps, disagreements=nd, oracle_failures=bad,
        theorem_C02_any_layout=dict(files=len(certs), hypotheses_hold=sum(1 for v in certs.values() if v[0]), of_the_generated_files=ncert, of_which_loaded_as_encoded_by_the_implementation=ncert_ok, excluded_by=common.failing_cert_hypotheses(certs))))
