"""C14 — saving is pure, repeatable and writes only defined bytes."""
import os, subprocess, re
from lib import harness, gen, c3dspec, filegen, build
from checks import common, apihist
LEVEL = 'proof'

def run(rep, work, rng, tier):
    common.proof_part(rep, 'C14')
    shared = work.sub('shared')
    n = 150 if tier == 'quick' else 10000
    cases = []; kinds = {}
    import shutil
    for f in ('str1d.c3d', 'charscalar.c3d', 'sparse.c3d'):
        shutil.copy(os.path.join(harness.VERIF, 'corpus', 'files', f), shared)
        cid = 'k_' + f.split('.')[0]
        cases.append((cid, ['loadx 0 ' + f, 'snap 0', 'save 0 %s_a.c3d' % cid, 'fsum %s_a.c3d' % cid, 'snap 0', 'save 0 %s_b.c3d' % cid, 'fsum %s_b.c3d' % cid, 'snap 0', 'save 0 %s_c.c3d' % cid, 'fsum %s_c.c3d' % cid]))
        kinds['loaded-file-with-padded-1d-string'] = kinds.get('loaded-file-with-padded-1d-string', 0) + 1
    for i in range(n):
        r = rng.random()
        if r < 0.45:
            b = apihist.conforming_history(rng, snap=False); lines = list(b.lines); kind = 'conforming-history'
        elif r < 0.6:
            h = gen.history(rng, snap_every=False); lines = list(h.lines); kind = 'random-history'
        elif r < 0.7:
            # channels whose value the caller never set
            lines = ['new 0', 'analog 0 x6331', 'analog 0 x6332', 'P.new x52415445 x', 'P.set F 0 1 42c80000', 'param 0 x414e414c4f47', 'P.new x52415445 x', 'P.set F 0 1 42c80000', 'param 0 x504f494e54',
                     'frame 0 - 0 1 2 x6331 u x6332 3f800000', 'frame 0 - 0 1 2 x6331 u x6332 u', 'snap 0']; kind = 'channel-value-never-set'
        else:
            L = filegen.make_layout(rng); c = filegen.make_content(rng)
            name = 'f%d.c3d' % i; open(os.path.join(shared, name), 'wb').write(c3dspec.encode(L, c))
            lines = ['loadx 0 ' + name, 'snap 0']; kind = 'loaded-file'
        cid = 'p%d' % i
        lines += ['save 0 %s_a.c3d' % cid, 'fsum %s_a.c3d' % cid, 'snap 0', 'save 0 %s_b.c3d' % cid, 'fsum %s_b.c3d' % cid, 'snap 0', 'save 0 %s_c.c3d' % cid, 'fsum %s_c.c3d' % cid]
        cases.append((cid, lines)); kinds[kind] = kinds.get(kind, 0) + 1
    # a frame count beyond the 16-bit header words (one extension call: the frames in between stay unfilled)
    for k, nf in enumerate([65534, 65535, 65536, 70000]):
        cid = 'big%d' % k
        cases.append((cid, ['new 0', 'point 0 x61', 'P.new x52415445 x', 'P.set F 0 1 42c80000', 'param 0 x504f494e54',
                            'frame 0 - 1 x61 3f800000 40000000 40400000 00000000 0', 'frame 0 %d 1 x61 3f800000 40000000 40400000 00000000 0' % (nf - 1), 'snap 0',
                            'save 0 %s_a.c3d' % cid, 'fsum %s_a.c3d' % cid, 'snap 0', 'save 0 %s_b.c3d' % cid, 'fsum %s_b.c3d' % cid, 'snap 0']))
        kinds['frame-count-around-65535'] = kinds.get('frame-count-around-65535', 0) + 1
    sel = lambda ln: ln.split(' ', 1)[0] in ('save', 'fsum')
    # the model's save is a function of the dumped state alone: equal digests on both sides mean every byte the library
    # wrote is determined by the object's content
    (c, cown), (m, mown), nd = common.correspondence(rep, work, cases, select=sel, label='bytes written (size and digest) = function of the object', shared=shared)
    bad = 0; saves = 0
    for cid, lines in cases:
        cl, cs = c.get(cid, ([], 'missing'))
        ops = harness.split_ops(lines, cl)
        snaps = [out for ln, out in ops if ln.startswith('snap') and out and out[0].startswith('H ')]
        sums = [out[0] for ln, out in ops if ln.startswith('fsum') and out and out[0].startswith('ok')]
        saves += len(sums)
        script = [l for l in lines if not l.startswith('fsum')]
        if len(snaps) >= 2 and any(s != snaps[-3 if len(snaps) >= 3 else 0] for s in snaps[-2:]):
            if rep.violation('oracle', 'saving changed the object being saved', script=script, signature='save-mutates'): bad += 1
        if len(sums) >= 2 and len(set(sums)) != 1:
            if rep.violation('oracle', 'saving the same object again wrote different bytes: %s' % sums, script=script, signature='save-not-repeatable'): bad += 1
    # definedness: memcheck on the plain build, the whole case in one process
    drv = build.build_driver('plain', extra_flags=['-g'])
    vcases = [cs_ for cs_ in cases if True][: (12 if tier == 'quick' else 120)]
    vdir = work.sub('vg'); cf = os.path.join(vdir, 'cases.txt')
    with open(cf, 'w') as f:
        for cid, lines in vcases:
            f.write('case %s\n' % cid); f.write('\n'.join(lines) + '\nend\n')
    own = os.path.join(vdir, 'own'); os.makedirs(own, exist_ok=True)
    r = subprocess.run(['timeout', '1500', 'valgrind', '--quiet', '--error-exitcode=0', '--track-origins=no', drv, cf, own, shared, '--nofork'],
                       stdout=subprocess.PIPE, stderr=subprocess.PIPE, text=True)
    undef = [l for l in r.stderr.split('\n') if 'uninitialised' in l]
    wr = [l for l in undef if 'write(buf)' in l or 'Syscall param write' in l]
    if wr:
        bad += 1
        rep.violation('oracle', 'memcheck: bytes handed to write(2) are not defined: %s' % wr[:2], script=vcases[0][1], signature='undefined-bytes-written',
                      extra=dict(valgrind=r.stderr[:3000]))
    rep.coverage.update(dict(evaluations=len(cases), distinct_nontrivial=saves,
        rule='objects reached by conforming and random histories, objects holding channels whose value was never set, objects loaded from well-formed files; each is saved three times with a dump in between; the dumps must be identical, the three files byte-identical, and equal to the bytes the pure model function computes from the dump (on both sides, in different processes); a sample runs under valgrind memcheck for the definedness of every buffer given to write(2); non-trivial = files written and compared',
        samples=[cases[0][1][-8:]], object_kinds=kinds, memcheck_cases=len(vcases), memcheck_undefined_reports=len(undef), disagreements=nd, oracle_failures=bad))
