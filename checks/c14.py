"""C14 — saving is pure, repeatable and writes only defined bytes."""
import os, subprocess, re
from lib import harness, gen, c3dspec, filegen, build
from checks import common, apihist
LEVEL = 'proof'

def run(rep, work, rng, tier):
    common.proof_part(rep, 'C14')
    shared = work.sub('shared')
    n = 150 if tier == 'quick' else 10000
    cases = []; kinds = {}
    import shutil
    for f in ('str1d.c3d', 'charscalar.c3d', 'sparse.c3d'):
        shutil.copy(os.path.join(harness.VERIF, 'corpus', 'files', f), shared)
        cid = 'k_' + f.split('.')[0]
        cases.append((cid, ['loadx 0 ' + f, 'snap 0', 'save 0 %s_a.c3d' % cid, 'fsum %s_a.c3d' % cid, 'snap 0', 'save 0 %s_b.c3d' % cid, 'fsum %s_b.c3d' % cid, 'snap 0', 'save 0 %s_c.c3d' % cid, 'fsum %s_c.c3d' % cid]))
        kinds['loaded-file-with-padded-1d-string'] = kinds.get('loaded-file-with-padded-1d-string', 0) + 1
    for i in range(n):
        r = rng.random()
        if r < 0.45:
            b = apihist.conforming_history(rng, snap=False); lines = list(b.lines); kind = 'conforming-history'
        elif r < 0.6:
            h = gen.history(rng, snap_every=False); lines = list(h.lines); kind = 'random-history'
        elif r < 0.7:
            # channels whose value the caller never set
            lines = ['new 0', 'analog 0 x6331', 'analog 0 x6332', 'P.new x52415445 x', 'P.set F 0 1 42c80000', 'param 0 x414e414c4f47', 'P.new x52415445 x', 'P.set F 0 1 42c80000', 'param 0 x504f494e54',
                     'frame 0 - 0 1 2 x6331 u x6332 3f800000', 'frame 0 - 0 1 2 x6331 u x6332 u', 'snap 0']; kind = 'channel-value-never-set'
        else:
            L = filegen.make_layout(rng); c = filegen.make_content(rng)
            name = 'f%d.c3d' % i; open(os.path.join(shared, name), 'wb').write(c3dspec.encode(L, c))
            lines = ['loadx 0 ' + name, 'snap 0']; kind = 'loaded-file'
        cid = 'p%d' % i
        lines += ['save 0 %s_a.c3d' % cid, 'fsum %s_a.c3d' % cid, 'snap 0', 'save 0 %s_b.c3d' % cid, 'fsum %s_b.c3d' % cid, 'snap 0', 'save 0 %s_c.c3d' % cid, 'fsum %s_c.c3d' % cid]
        cases.append((cid, lines)); kinds[kind] = kinds.get(kind, 0) + 1
    # RAGGED frames: frame() looks at the channels of sub-frame 0 only, so later sub-frames may hold fewer (or more) channels;
    # whatever is written for such a frame is a function of the object
    for i in range(max(6, n // 15)):
        chans = [b'c%d' % k for k in range(rng.choice([2, 3, 4]))]; nsub = rng.choice([2, 3, 4])
        lines = ['new 0'] + ['analog 0 ' + harness.hx(x) for x in chans]
        npt = rng.choice([0, 1, 2]); pts = [b'p%d' % k for k in range(npt)]
        lines += ['point 0 ' + harness.hx(x) for x in pts]
        lines += ['P.new x52415445 x', 'P.set F 0 1 42c80000', 'param 0 x504f494e54', 'P.new x52415445 x', 'P.set F 0 1 %s' % harness.fhex(harness.f2bits(100.0 * nsub)), 'param 0 x414e414c4f47']
        for _f in range(rng.choice([1, 2, 3])):
            lit = apihist.rand_lit(rng, pts, chans, nsub)
            for sfi in range(1, nsub):
                r = rng.random()
                if r < 0.5: lit.subs[sfi] = lit.subs[sfi][:rng.randrange(len(chans))]          # fewer channels than sub-frame 0
                elif r < 0.65: lit.subs[sfi] = lit.subs[sfi] + [(b'extra', apihist.rf(rng))]      # more
            lines.append('frame 0 - ' + lit.text())
        cid = 'rg%d' % i
        lines += ['snap 0', 'save 0 %s_a.c3d' % cid, 'fsum %s_a.c3d' % cid, 'snap 0', 'save 0 %s_b.c3d' % cid, 'fsum %s_b.c3d' % cid, 'snap 0', 'save 0 %s_c.c3d' % cid, 'fsum %s_c.c3d' % cid]
        cases.append((cid, lines)); kinds['ragged-sub-frames'] = kinds.get('ragged-sub-frames', 0) + 1
    # the destination ALREADY EXISTS and is longer (or shorter) than what is written now: the file afterwards is the new image
    # and nothing else — same bytes as on a fresh path
    for i in range(max(6, n // 15)):
        big = apihist.conforming_history(rng, max_frames=20, snap=False, with_cols=False); small = apihist.conforming_history(rng, max_frames=rng.choice([0, 1]), snap=False, with_cols=False)
        cid = 'ow%d' % i
        lb = list(big.lines); ls = [l.replace('new 0', 'new 1').replace(' 0 ', ' 1 ', 1) if l.split(' ')[0] in ('new', 'point', 'analog', 'param', 'frame', 'pointcol', 'analogcol', 'snap', 'lock', 'unlock') else l for l in small.lines]
        lines = lb + ls + ['save 0 %s_x.c3d' % cid, 'fsum %s_x.c3d' % cid, 'save 1 %s_x.c3d' % cid, 'fsum %s_x.c3d' % cid, 'save 1 %s_fresh.c3d' % cid, 'fsum %s_fresh.c3d' % cid,
                           'save 0 %s_fresh.c3d' % cid, 'fsum %s_fresh.c3d' % cid, 'save 0 %s_y.c3d' % cid, 'fsum %s_y.c3d' % cid]
        cases.append((cid, lines)); kinds['destination-exists-with-other-content'] = kinds.get('destination-exists-with-other-content', 0) + 1
    # a frame count beyond the 16-bit header words (one extension call: the frames in between stay unfilled)
    for k, nf in enumerate([65534, 65535, 65536, 70000]):
        cid = 'big%d' % k
        cases.append((cid, ['new 0', 'point 0 x61', 'P.new x52415445 x', 'P.set F 0 1 42c80000', 'param 0 x504f494e54',
                            'frame 0 - 1 x61 3f800000 40000000 40400000 00000000 0', 'frame 0 %d 1 x61 3f800000 40000000 40400000 00000000 0' % (nf - 1), 'snap 0',
                            'save 0 %s_a.c3d' % cid, 'fsum %s_a.c3d' % cid, 'snap 0', 'save 0 %s_b.c3d' % cid, 'fsum %s_b.c3d' % cid, 'snap 0']))
        kinds['frame-count-around-65535'] = kinds.get('frame-count-around-65535', 0) + 1
    sel = lambda ln: ln.split(' ', 1)[0] in ('save', 'fsum')
    # the model's save is a function of the dumped state alone: equal digests on both sides mean every byte the library
    # wrote is determined by the object's content
    (c, cown), (m, mown), nd = common.correspondence(rep, work, cases, select=sel, label='bytes written (size and digest) = function of the object', shared=shared)
    bad = 0; saves = 0
    for cid, lines in cases:
        cl, cs = c.get(cid, ([], 'missing'))
        ops = harness.split_ops(lines, cl)
        snaps = [out for ln, out in ops if ln.startswith('snap') and out and out[0].startswith('H ')]
        sums = [out[0] for ln, out in ops if ln.startswith('fsum') and out and out[0].startswith('ok')]
        saves += len(sums)
        script = [l for l in lines if not l.startswith('fsum')]
        if len(snaps) >= 2 and any(s != snaps[-3 if len(snaps) >= 3 else 0] for s in snaps[-2:]):
            if rep.violation('oracle', 'saving changed the object being saved', script=script, signature='save-mutates'): bad += 1
        if cid.startswith('ow'):
            # sums: [big@x, small@x (over the longer file), small@fresh, big@fresh (over the shorter file), big@y]
            if len(sums) == 5 and (sums[1] != sums[2] or sums[0] != sums[3] or sums[0] != sums[4]):
                if rep.violation('oracle', 'what a save leaves on disk depends on what the destination held before: %s' % sums, script=script, signature='save-depends-on-destination'): bad += 1
            continue
        if len(sums) >= 2 and len(set(sums)) != 1:
            if rep.violation('oracle', 'saving the same object again wrote different bytes: %s' % sums, script=script, signature='save-not-repeatable'): bad += 1
    # definedness: memcheck on the plain build, the whole case in one process
    drv = build.build_driver('plain', extra_flags=['-g'])
    vcases = [cs_ for cs_ in cases if True][: (12 if tier == 'quick' else 120)]
    vdir = work.sub('vg'); cf = os.path.join(vdir, 'cases.txt')
    with open(cf, 'w') as f:
        for cid, lines in vcases:
            f.write('case %s\n' % cid); f.write('\n'.join(lines) + '\nend\n')
    own = os.path.join(vdir, 'own'); os.makedirs(own, exist_ok=True)
    r = subprocess.run(['timeout', '1500', 'valgrind', '--quiet', '--error-exitcode=0', '--track-origins=no', drv, cf, own, shared, '--nofork'],
                       stdout=subprocess.PIPE, stderr=subprocess.PIPE, text=True)
    undef = [l for l in r.stderr.split('\n') if 'uninitialised' in l]
    wr = [l for l in undef if 'write(buf)' in l or 'Syscall param write' in l]
    if wr:
        bad += 1
        rep.violation('oracle', 'memcheck: bytes handed to write(2) are not defined: %s' % wr[:2], script=vcases[0][1], signature='undefined-bytes-written',
                      extra=dict(valgrind=r.stderr[:3000]))
    rep.coverage.update(dict(evaluations=len(cases), distinct_nontrivial=saves,
        rule='objects reached by conforming and random histories, objects holding channels whose value was never set, objects loaded from well-formed files; each is saved three times with a dump in between; the dumps must be identical, the three files byte-identical, and equal to the bytes the pure model function computes from the dump (on both sides, in different processes); a sample runs under valgrind memcheck for the definedness of every buffer given to write(2); non-trivial = files written and compared',
        samples=[cases[0][1][-8:]], object_kinds=kinds, memcheck_cases=len(vcases), memcheck_undefined_reports=len(undef), disagreements=nd, oracle_failures=bad))
