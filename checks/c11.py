"""C11 — look-ups return the right element or throw the documented error."""
from lib import harness, gen
from lib.harness import hx
from checks import common
LEVEL = 'proof'

BIG = [2**32, 2**32 + 1, 2**63, 2**64 - 1]

def idx_set(n, rng):
    s = list(range(min(n, 4))) + ([n - 1] if n > 0 else []) + [n, n + 1] + BIG
    if n > 6: s.append(rng.randrange(n))
    return sorted(set(s))

def name_variants(names, rng):
    out = [b'', b'nope', b'NOPE ']
    for n in names[:4]:
        out += [n, n + b' ', n + b'  ', n.upper(), n.lower(), n.swapcase(), b' ' + n, n[:-1] if n else b'x', n + b'\t', n + b'\n', n.split(b':')[-1] if b':' in n else b'S:' + n]
    return out

def build_case(rng, cid):
    h = gen.history(rng, nops=rng.choice([2, 4, 8]), snap_every=False)
    lines = list(h.lines)      # ends with 'snap 0'
    return cid, lines, h

def add_gets(lines, snap, rng):
    """append look-ups chosen from the object's real shape (taken from the C++ snapshot)"""
    g = ['get.vec 0']      # the same containers through the getters that return whole vectors
    nf = len(snap.frames)
    for i in idx_set(nf, rng): g.append('get.frame 0 %d' % i)
    for fi in sorted(set([0, nf - 1, nf]) & set(range(nf + 1))):
        fr = snap.frames[fi] if fi < nf else None
        npts = len(fr['pts']) if fr else 0
        for i in idx_set(npts, rng)[:8]: g.append('get.point 0 %d %d' % (fi, i))
        for n in name_variants([p[0] for p in fr['pts']] if fr else [], rng)[:14]: g.append('get.pointn 0 %d %s' % (fi, hx(n)))
        ns = len(fr['subs']) if fr else 0
        for s in idx_set(ns, rng)[:6]:
            g.append('get.sub 0 %d %d' % (fi, s))
            nc = len(fr['subs'][s]) if fr and s < ns else 0
            for i in idx_set(nc, rng)[:6]: g.append('get.chan 0 %d %d %d' % (fi, s, i))
            for n in name_variants([c[0] for c in fr['subs'][s]] if fr and s < ns else [], rng)[:10]:
                g.append('get.chann 0 %d %d %s' % (fi, s, hx(n)))
    ng = len(snap.groups)
    for i in idx_set(ng, rng): g.append('get.group 0 %d' % i)
    for n in name_variants([x['name'] for x in snap.groups], rng): g.append('get.groupn 0 %s' % hx(n))
    for gi in list(range(min(ng, 4))) + [ng]:
        np_ = len(snap.groups[gi]['params']) if gi < ng else 0
        for j in idx_set(np_, rng)[:8]:
            g.append('get.param 0 %d %d' % (gi, j))
            for ty in 'CBIF': g.append('get.as 0 %d %d %s' % (gi, j, ty))
        if gi < ng:
            for n in name_variants([p['name'] for p in snap.groups[gi]['params']], rng)[:12]:
                g.append('get.paramn 0 %s %s' % (hx(snap.groups[gi]['name']), hx(n)))
    for i in idx_set(18, rng): g.append('get.evt 0 %d' % i); g.append('get.evl 0 %d' % i)
    for i in idx_set(9, rng): g.append('get.evd 0 %d' % i)
    for how in ('ctor', 'setter'):
        # only the blank (0x20) is trimmed: a tab, a line feed, a carriage return, a NUL at the end belong to the name
        for n in (b'abc', b'abc ', b'abc   ', b' abc', b' ', b'', b'abc\t', b'abc\n', b'abc\r ', b'abc\t  ', b'abc \t', b'ab\x0b', b'ab\x0c ', b'a\x00 '):
            g.append('mk.point %s %s %s' % (how, hx(n), hx(n.rstrip(b' '))))
            g.append('mk.chan %s %s %s' % (how, hx(n), hx(n.rstrip(b' '))))
            if n.rstrip(b' ') != n.rstrip():      # the over-trimmed name must NOT be found
                g.append('mk.point %s %s %s' % (how, hx(n), hx(n.rstrip())))
                g.append('mk.chan %s %s %s' % (how, hx(n), hx(n.rstrip())))
    return g

def expect(ln, snap):
    """The documented result of one look-up, computed from the snapshot alone."""
    t = ln.split(' ')
    def at(l, i): return l[i] if 0 <= i < len(l) else None
    def first(l, key, n):
        for k, x in enumerate(l):
            if key(x) == n: return k
        return None
    OOR, INV = 'throw out_of_range', 'throw invalid_argument'
    def pbody(p): return '%s %s %s %s %s' % (hx(p[0]), p[1], p[2], p[3], p[4])
    def cbody(c): return '%s %s' % (hx(c[0]), c[1])
    c = t[0]
    if c == 'get.frame':
        f = at(snap.frames, int(t[2])); return OOR if f is None else 'ok %d %d' % (len(f['pts']), len(f['subs']))
    if c in ('get.point', 'get.pointn', 'get.sub', 'get.chan', 'get.chann'):
        f = at(snap.frames, int(t[2]))
        if f is None: return OOR
        if c == 'get.point':
            p = at(f['pts'], int(t[3])); return OOR if p is None else 'ok ' + pbody(p)
        if c == 'get.pointn':
            k = first(f['pts'], lambda p: p[0], harness.unhx(t[3])); return INV if k is None else 'ok %d %s' % (k, pbody(f['pts'][k]))
        sf = at(f['subs'], int(t[3]))
        if sf is None: return OOR
        if c == 'get.sub': return 'ok %d' % len(sf)
        if c == 'get.chan':
            ch = at(sf, int(t[4])); return OOR if ch is None else 'ok ' + cbody(ch)
        k = first(sf, lambda x: x[0], harness.unhx(t[4])); return INV if k is None else 'ok %d %s' % (k, cbody(sf[k]))
    def gbody(g): return '%s %s %d %d' % (hx(g['name']), hx(g['desc']), g['lock'], len(g['params']))
    if c == 'get.group':
        g = at(snap.groups, int(t[2])); return OOR if g is None else 'ok ' + gbody(g)
    if c == 'get.groupn':
        k = first(snap.groups, lambda g: g['name'], harness.unhx(t[2])); return INV if k is None else 'ok %d %s' % (k, gbody(snap.groups[k]))
    if c in ('get.param', 'get.as'):
        g = at(snap.groups, int(t[2]))
        if g is None: return OOR
        p = at(g['params'], int(t[3]))
        if p is None: return OOR
        if c == 'get.param': return None          # full body compared through the correspondence and the snapshot
        if p['type'] != t[4]: return INV
        if t[4] == 'C': return 'ok' + ''.join(' ' + hx(v) for v in p['vals'])
        return 'ok' + ''.join(' ' + str(v) for v in p['vals'])
    if c == 'get.paramn':
        k = first(snap.groups, lambda g: g['name'], harness.unhx(t[2]))
        if k is None: return INV
        j = first(snap.groups[k]['params'], lambda p: p['name'], harness.unhx(t[3]))
        return INV if j is None else ('prefix', 'ok %d ' % j)
    if c == 'get.evt': v = at(snap.h['evtime'], int(t[2])); return OOR if v is None else 'ok ' + v
    if c == 'get.evd': v = at(snap.h['evdisp'], int(t[2])); return OOR if v is None else 'ok %d' % v
    if c == 'get.evl': v = at(snap.h['evlab'], int(t[2])); return OOR if v is None else 'ok ' + hx(v)
    if c in ('mk.point', 'mk.chan'):
        stored = harness.unhx(t[2]).rstrip(b' ')
        return ('ok 0 ' + hx(stored)) if harness.unhx(t[3]) == stored else 'throw invalid_argument'
    return None

def run(rep, work, rng, tier):
    common.proof_part(rep, 'C11')
    n = 120 if tier == 'quick' else 6000
    base = [build_case(rng, 'b%d' % i) for i in range(n)]
    # pass 1: real shapes from the C++ snapshots
    from lib import build
    drv = build.build_driver('plain')
    c1, _, _ = harness.run_side(drv, [(cid, l) for cid, l, _ in base], work, 'shape', work.sub('shared'))
    cases = []; snaps = {}
    for cid, lines, h in base:
        cl, cs = c1.get(cid, ([], 'missing'))
        ops = harness.split_ops(lines, cl)
        out = ops[-1][1] if ops else None
        if not out or not out[0].startswith('H '): continue
        snap = harness.Snap(out); snaps[cid] = snap
        cases.append((cid, lines + add_gets(lines, snap, rng)))
    # typed reads of a caller-side parameter after accepted AND refused sets: the type a parameter answers to is the type of
    # the last ACCEPTED set
    nreg = 0
    for i in range(n):
        lines = ['P.new %s x' % hx(b'REG')]; 
        for _ in range(rng.choice([1, 2, 3, 4])):
            ty = rng.choice('IFS'); nd = rng.choice([0, 1, 1, 2]); dims = [rng.choice([0, 1, 2, 3]) for _ in range(nd)]
            k = 1
            for d in dims: k *= d
            if nd == 0: k = rng.choice([0, 1, 2])
            if rng.random() < 0.45: k = k + 1 if (k == 0 or rng.random() < 0.5) else k - 1      # refused on purpose
            if ty == 'I': vals = [str(rng.choice([0, 1, -1, 127, -128, 255, 32767, -32768])) for _ in range(k)]
            elif ty == 'F': vals = [harness.fhex(gen.rfloat(rng)) for _ in range(k)]
            else: vals = [hx(gen.rname(rng, 6)) for _ in range(k)]
            lines.append(('P.set %s %d %s %d %s' % (ty, nd, ' '.join(map(str, dims)), k, ' '.join(vals))).replace('  ', ' ').rstrip())
            for t in 'CBIF': lines.append('P.as ' + t)
        cases.append(('reg%d' % i, lines)); nreg += 1
    # containers with REPEATED names and look-up sequences that jump between containers: the first element of that name,
    # whatever was looked up before and wherever
    ndup = 0
    for i in range(n):
        base = [b'HEAD', b'LASI', b'RASI', b'X', b'x', b'X ', b'X\t', b'LASI\n', b'X\t ', b'S:LASI', b'S:HEAD', b'HEAD:1', b'LASI.x']
        conts = []
        for _ in range(rng.choice([1, 2, 3])):
            k = rng.choice([1, 2, 3, 4, 6]); conts.append([rng.choice(base) for _ in range(k)])
        qs = []
        for _ in range(rng.choice([3, 6, 10])):
            ci = rng.randrange(len(conts)); qs.append((ci, rng.choice(conts[ci] + [b'NOPE'] + base[:3])))
        line = ' '.join([str(len(conts))] + ['%d %s' % (len(cn), ' '.join(hx(x) for x in cn)) for cn in conts] + [str(len(qs))] + ['%d %s' % (ci, hx(q)) for ci, q in qs])
        cases.append(('dup%d' % i, ['mk.pts ' + line, 'mk.chs ' + line])); ndup += 1
        # the same containers with elements RENAMED IN PLACE between look-ups (point_nonConst(j).name(..)): a look-up answers
        # for the names the elements carry NOW — an earlier element renamed to a name found before wins from then on
        ops = []
        for _ in range(rng.choice([4, 8, 12])):
            ci = rng.randrange(len(conts))
            if rng.random() < 0.4:
                j = rng.randrange(len(conts[ci]) + 1)
                ops.append(('r', ci, j, rng.choice(conts[ci] + base[:5])))
            else: ops.append(('q', ci, rng.choice(conts[ci] + [b'NOPE'])))
        # the sharpest sequence, always present: find a name at position i > 0, rename an EARLIER element to it, ask again
        big = [k for k, cn in enumerate(conts) if len(cn) >= 2]
        if big:
            ci = rng.choice(big); i2 = rng.randrange(1, len(conts[ci])); nm = b'UNIQ%d' % i
            ops += [('r', ci, i2, nm), ('q', ci, nm), ('r', ci, rng.randrange(i2), nm + (b' ' if rng.random() < 0.3 else b'')), ('q', ci, nm)]
        # ... and through a reference the caller TOOK EARLIER and still holds (Point& p = pts.point_nonConst(j); ... p.name(..)): look-ups
        # made in between must not freeze what the container answers
        ci = rng.randrange(len(conts)); j = rng.randrange(len(conts[ci])); nm2 = b'KEPT%d' % i
        ops += [('k', ci, j), ('q', ci, conts[ci][j]), ('q', ci, nm2), ('w', 0, nm2 + (b'  ' if rng.random() < 0.5 else b'')), ('q', ci, nm2), ('q', ci, conts[ci][j])]
        rline = ' '.join([str(len(conts))] + ['%d %s' % (len(cn), ' '.join(hx(x) for x in cn)) for cn in conts] + [str(len(ops))] +
                         [('r %d %d %s' % (o[1], o[2], hx(o[3]))) if o[0] == 'r' else ('k %d %d' % (o[1], o[2])) if o[0] == 'k' else ('w %d %s' % (o[1], hx(o[2]))) if o[0] == 'w' else ('q %d %s' % (o[1], hx(o[2]))) for o in ops])
        cases.append(('ren%d' % i, ['mk.ptsr ' + rline, 'mk.chsr ' + rline]))
    sel = lambda ln: ln.startswith('get.') or ln.startswith('mk.') or ln.startswith('P.as')
    (c, _), (m, _), nd = common.correspondence(rep, work, cases, select=sel, label='look-ups')
    # oracle for the repeated-name containers: index of the FIRST element whose (trimmed) name is the (exact) query
    dupbad = 0
    for cid, lines in cases:
        if not (cid.startswith('dup') or cid.startswith('ren')): continue
        cl, cs = c.get(cid, ([], 'missing'))
        for ln, out in harness.split_ops(lines, cl):
            t = ln.split(' '); i = 1; nc = int(t[i]); i += 1; conts = []
            for _ in range(nc):
                k = int(t[i]); i += 1; conts.append([harness.unhx(x).rstrip(b' ') for x in t[i:i + k]]); i += k
            nq = int(t[i]); i += 1; exp = ['ok']; kept = None
            for _ in range(nq):
                if cid.startswith('ren'):
                    what = t[i]; i += 1
                    if what == 'k':
                        ci = int(t[i]); j = int(t[i + 1]); i += 2
                        if j < len(conts[ci]): kept = (ci, j); exp.append('k')
                        else: exp.append('o')
                        continue
                    if what == 'w':
                        nm = harness.unhx(t[i + 1]).rstrip(b' '); i += 2
                        if kept is not None: conts[kept[0]][kept[1]] = nm; exp.append('w')
                        else: exp.append('-')
                        continue
                    if what == 'r':
                        ci = int(t[i]); j = int(t[i + 1]); nm = harness.unhx(t[i + 2]).rstrip(b' '); i += 3
                        if j < len(conts[ci]): conts[ci][j] = nm; exp.append('r')
                        else: exp.append('o')
                        continue
                ci = int(t[i]); q = harness.unhx(t[i + 1]); i += 2
                idx = next((j for j, nm in enumerate(conts[ci]) if nm == q), None)
                exp.append('x' if idx is None else '%d:%d' % (idx, idx))
            got = out[0] if out else '<none:%s>' % cs
            if got != ' '.join(exp):
                dupbad += 1
                if dupbad <= 3:
                    rep.violation('oracle', 'name look-ups in containers with repeated names returned %r, the first elements of those names are %r' % (got[:150], ' '.join(exp)[:150]),
                                  script=[ln], signature='lookup:repeated-names')
    # oracle for the register histories
    regbad = 0
    for cid, lines in cases:
        if not cid.startswith('reg'): continue
        cl, cs = c.get(cid, ([], 'missing')); cur = None; hist = []
        for ln, out in harness.split_ops(lines, cl):
            hist.append(ln); got = out[0] if out else '<none:%s>' % cs; t = ln.split(' ')
            if t[0] == 'P.set':
                if got == 'ok':
                    nd_ = int(t[2]); k = int(t[3 + nd_]); vals = t[4 + nd_:4 + nd_ + k]
                    cur = ({'S': 'C'}.get(t[1], t[1]), vals)
            elif t[0] == 'P.as':
                if cur is None or cur[0] != t[1]: e = 'throw invalid_argument'
                elif t[1] == 'C': e = None      # strings are padded/trimmed by the setter: compared through the model
                else: e = 'ok' + ''.join(' ' + v for v in cur[1])
                if e is not None and got != e:
                    regbad += 1
                    if regbad <= 3:
                        rep.violation('oracle', 'typed read %s of a parameter whose last accepted set was %s returned %r, documented result %r' % (ln, cur[0] if cur else 'none', got[:120], e),
                                      script=[l for l in hist if not l.startswith('P.as')] + [ln], signature='lookup:P.as')
    # direct oracle: the documented result, from the snapshot of the C++ object
    ev = 0; kinds = {}; bad = 0; outcomes = {}
    for cid, lines in cases:
        cl, cs = c.get(cid, ([], 'missing'))
        for ln, out in harness.split_ops(lines, cl):
            if not sel(ln): continue
            ev += 1; k = ln.split(' ')[0]; kinds[k] = kinds.get(k, 0) + 1
            got = out[0] if out else '<none:%s>' % cs
            oc = got.split(' ')[0] + (' ' + got.split(' ')[1] if got.startswith('throw') else '')
            outcomes[oc] = outcomes.get(oc, 0) + 1
            if cid.startswith('reg') or cid.startswith('dup') or cid.startswith('ren'): continue
            e = expect(ln, snaps[cid])
            if e is None: continue
            ok = got.startswith(e[1]) if isinstance(e, tuple) else got == e
            if not ok:
                bad += 1
                if bad <= 3:
                    rep.violation('oracle', 'look-up %s returned %r, documented result %r' % (ln, got[:200], e),
                                  script=[l for l in lines if not sel(l)] + [ln], signature='lookup:' + k)
    rep.coverage.update(dict(evaluations=ev, distinct_nontrivial=len(set(l for _, ls in cases for l in ls if sel(l))),
        rule='objects from %d random histories; on each, every container is accessed at {0..3, size-1, size, size+1, 2^32, 2^32+1, 2^63, 2^64-1} and by present/absent/case-variant/space-padded names; each result is compared with the model and with the documented result computed from the C++ snapshot; distinct = distinct look-up lines' % len(cases),
        samples=[cases[0][1][-3:]] if cases else [], op_kinds=kinds, outcome_classes=outcomes, disagreements=nd, oracle_failures=bad + regbad + dupbad, register_histories=nreg, repeated_name_containers=ndup))
