"""C01 — build -> save -> load returns the same content."""
import os
from lib import harness, gen, c3dspec
from lib.harness import hx
from checks import common, apihist, filecmp
from checks.apihist import rand_lit, conforming_history, trim
LEVEL = 'proof'

def obs(snap, loaded=False):
    """the content C01 speaks about, canonical: names upper-cased, DATA_START ignored; the strings of the SAVED object are
    right-trimmed (the format pads them), those of the LOADED one are taken as they are: a loaded "   " is not a saved ''"""
    gs = []
    for g in snap.groups:
        if g['name'] == b'' and not g['params']: continue
        ps = []
        for p in g['params']:
            vals = [(v if loaded else v.rstrip(b' ')) for v in p['vals']] if p['type'] == 'C' else list(p['vals'])
            if (g['name'].upper(), p['name'].upper()) == (b'POINT', b'DATA_START'): vals = ['<derived>']
            ps.append((p['name'].upper(), p['desc'], p['lock'], p['type'], tuple(p['dims']), tuple(vals)))
        gs.append((g['name'].upper(), g['desc'], g['lock'], tuple(ps)))
    # a sub-frame without channels carries no sample: the loader creates header-many of them, the API none
    fr = [(tuple(f['pts']), tuple(tuple(sf) for sf in f['subs'] if sf)) for f in snap.frames]
    h = snap.h
    # the sub-frame count is only meaningful when there are channels (a new object says 0, any updater says 1)
    hd = (h['npts'], h['nmeas'], h['nanalogs'], h['byframe'] if h['nanalogs'] else '-', h['first'], h['last'], h['nframes'], h['rate'])
    return gs, fr, hd

def diff_obs(a, b):
    out = []
    ga, fa, ha = a; gb, fb, hb = b
    if [g[0] for g in ga] != [g[0] for g in gb]: out.append('groups %r -> %r' % ([g[0] for g in ga], [g[0] for g in gb]))
    else:
        for x, y in zip(ga, gb):
            if x[1] != y[1]: out.append('group[%s].description' % x[0].decode('latin-1'))
            if x[2] != y[2]: out.append('group[%s].lock' % x[0].decode('latin-1'))
            if [p[0] for p in x[3]] != [p[0] for p in y[3]]: out.append('group[%s].parameters' % x[0].decode('latin-1')); continue
            for p, q in zip(x[3], y[3]):
                for k, nm in ((1, 'description'), (2, 'lock'), (3, 'type'), (4, 'dimensions'), (5, 'values')):
                    if p[k] != q[k]:
                        out.append('param[%s:%s].%s saved=%r loaded=%r' % (x[0].decode('latin-1'), p[0].decode('latin-1'), nm, p[k] if k != 5 else p[k][:4], q[k] if k != 5 else q[k][:4])); break
    if len(fa) != len(fb): out.append('frames.count saved=%d loaded=%d' % (len(fa), len(fb)))
    else:
        for k, (x, y) in enumerate(zip(fa, fb)):
            if x != y:
                w = 'frame[%d]' % k
                for i, (p, q) in enumerate(zip(x[0], y[0])):
                    if p != q: w += '.point[%d] saved=%r loaded=%r' % (i, p, q); break
                out.append(w); break
    names = ('points', 'samples', 'channels', 'subframes', 'first', 'last', 'frames', 'rate')
    for n, x, y in zip(names, ha, hb):
        if x != y: out.append('hdr.%s saved=%r loaded=%r' % (n, x, y))
    return out

def case_collision(snap):
    for g in snap.groups:
        names = [p['name'].upper() for p in g['params']]
        if len(set(names)) != len(names): return True
    gn = [g['name'].upper() for g in snap.groups if g['name']]
    return len(set(gn)) != len(gn)

def classify(snap, d):
    if (d.startswith('group') or d.startswith('param') or d == 'load') and case_collision(snap): return 'names-differ-only-by-case'
    nonuniform = any(not (f['pts'] or f['subs']) for f in snap.frames) or len(set((len(f['pts']), tuple(len(s) for s in f['subs'])) for f in snap.frames)) > 1
    if nonuniform and (d.startswith('frame') or d.startswith('hdr.')): return 'unfilled-or-nonuniform-frame-saved'
    if snap.frames and snap.h['npts'] == 0 and snap.h['nanalogs'] == 0: return 'frames-without-points-or-channels'
    if filecmp.beyond_capacity(snap): return 'content-beyond-format-capacity'
    return None

def build_case(rng, i):
    kinds = []
    if rng.random() < 0.75:
        b = conforming_history(rng, max_frames=rng.choice([2, 5, 9, 20]), snap=False); lines = b.lines[:-1] if b.lines[-1] == 'snap 0' else list(b.lines)
        kinds += b.kinds
        # more parameters of every type and shape, descriptions 0..255, lock toggles
        for _ in range(rng.choice([0, 1, 3])):
            h = gen.Hist(rng, snap_every=False); h.lines = []; h.rand_param(); lines += h.lines; kinds.append('param')
    else:
        lines = ['new 0']
        for _ in range(rng.choice([1, 4, 8])):
            h = gen.Hist(rng, snap_every=False); h.lines = []
            if rng.random() < 0.8: h.rand_param()
            else: h.lock()
            lines += h.lines; kinds.append('param')
    if rng.random() < 0.3:
        d = bytes(rng.randrange(33, 127) for _ in range(rng.choice([127, 128, 200, 255])))
        lines += ['P.new %s %s' % (hx(b'LONGDESC'), hx(d)), 'P.set S 0 2 %s %s' % (hx(b'ab  '), hx(b'')), 'param 0 ' + hx(b'EXTRA')]; kinds.append('long-description')
    cid = 'b%d' % i
    lines += ['snap 0', 'save 0 %s.c3d' % cid, 'fsum %s.c3d' % cid, 'load 1 %s.c3d' % cid, 'snap 1']
    return cid, lines, kinds

def run(rep, work, rng, tier):
    common.proof_part(rep, 'C01')
    n = 300 if tier == 'quick' else 30000
    cases = [('kf_' + k['signature'], k['replay']) for k in rep.kf]; kinds = {}
    for i in range(n):
        cid, lines, ks = build_case(rng, i); cases.append((cid, lines))
        for k in ks: kinds[k] = kinds.get(k, 0) + 1
    # every alignment of the parameter section (the padding doubles as end marker): save, reload, compare
    from checks import c03
    for cid, lines in c03.residue_cases(rng):
        lines = [l.replace('frame 0 - 1 x6d31 3f8ccccd', 'frame 0 - 1 x6d31 3f8ccccd') for l in lines]
        cases.append((cid, lines[:-1] + ['save 0 %s.c3d' % cid, 'load 1 %s.c3d' % cid, 'snap 1']))
    kinds['alignment-sweep'] = 768
    # (1) a stored frame REPLACED by one that adds the kind of data the object did not have yet (POINT:USED = 0, or ANALOG:USED = 0
    #     under a header that announces no sub-frame, accept any count): the counts must follow at once, the file must reload alike
    for k in range(6):
        chans = [b'wc%d' % j for j in range(rng.choice([1, 2]))]; pts = [b'wp%d' % j for j in range(rng.choice([1, 2, 3]))]
        # (the symmetric case — channels added under ANALOG:USED = 0 — needs rates that announce NO sub-frame, i.e. an analog rate
        # below the point rate: such an object is outside the property's quantifier "sub-frames per frame 1..N"; it was generated
        # at first and flagged on the unchanged tree, a false alarm of the generator, removed)
        lines = ['new 0'] + ['analog 0 ' + hx(x) for x in chans] + ['P.new x52415445 x', 'P.set F 0 1 42c80000', 'param 0 x504f494e54', 'P.new x52415445 x', 'P.set F 0 1 43480000', 'param 0 x414e414c4f47']
        lines += ['frame 0 - ' + apihist.rand_lit(rng, [], chans, 2).text()] * rng.choice([1, 1, 2])
        lines += ['frame 0 0 ' + apihist.rand_lit(rng, pts, chans, 2).text()]
        cid = 'wr%d' % k
        cases.append((cid, lines + ['snap 0', 'save 0 %s.c3d' % cid, 'fsum %s.c3d' % cid, 'load 1 %s.c3d' % cid, 'snap 1'])); kinds['replacement-adds-a-kind-of-data'] = kinds.get('replacement-adds-a-kind-of-data', 0) + 1
    # (2) the groups and parameters other programs give a meaning to (TRIAL:ACTUAL_START_FIELD / ACTUAL_END_FIELD consistent with the
    #     number of frames, EVENT, SUBJECTS ...): for this library they are parameters like any others
    for k in range(8):
        b = conforming_history(rng, max_frames=rng.choice([2, 5, 10]), snap=False, with_cols=False); lines = b.lines[:-1] if b.lines[-1] == 'snap 0' else list(b.lines)
        nf = max(1, b.sh.nframes); st = rng.choice([1, 2, 101, 1000])
        def P(name, setl, g): return ['P.new %s x' % hx(name), setl, 'param 0 ' + hx(g)]
        lines += P(b'ACTUAL_START_FIELD', 'P.set I 1 2 2 %d 0' % st, b'TRIAL') + P(b'ACTUAL_END_FIELD', 'P.set I 1 2 2 %d 0' % (st + nf - 1), b'TRIAL') + P(b'CAMERA_RATE', 'P.set F 0 1 42c80000', b'TRIAL')
        lines += P(b'USED', 'P.set I 0 1 2', b'EVENT') + P(b'LABELS', 'P.set S 1 2 2 %s %s' % (hx(b'FS'), hx(b'FO')), b'EVENT') + P(b'TIMES', 'P.set F 2 2 2 4 00000000 3f800000 00000000 40000000', b'EVENT')
        lines += P(b'USED', 'P.set I 0 1 1', b'SUBJECTS') + P(b'NAMES', 'P.set S 1 1 1 %s' % hx(b'Anon'), b'SUBJECTS') + P(b'LONG_FRAMES', 'P.set I 0 1 %d' % nf, b'POINT' if rng.random() < 0.3 else b'TRIAL')
        cid = 'vv%d' % k
        cases.append((cid, lines + ['snap 0', 'save 0 %s.c3d' % cid, 'fsum %s.c3d' % cid, 'load 1 %s.c3d' % cid, 'snap 1'])); kinds['vendor-vocabulary'] = kinds.get('vendor-vocabulary', 0) + 1
    # (4) one caller-side Parameter object given values of one type, then of another, then stored (the containers of the other types
    #     are still there inside the object): what is saved is what the typed getter of the LAST accepted set returns
    for k in range(8):
        n1 = rng.choice([1, 3, 4]); n2 = rng.choice([1, 3, 4])
        seq = rng.choice([('F', 'I'), ('I', 'F'), ('F', 'S'), ('S', 'I'), ('F', 'I', 'F'), ('I', 'F', 'I')])
        lines = ['new 0', 'P.new %s x' % hx(b'RETYPED')]
        for ty in seq:
            nv = rng.choice([n1, n2])
            vals = {'I': [str(rng.choice([7, -8, 9, 1000, 32767])) for _ in range(nv)], 'F': [harness.fhex(gen.rfloat(rng)) for _ in range(nv)], 'S': [hx(gen.rname(rng, 5, False)) for _ in range(nv)]}[ty]
            lines.append('P.set %s 0 %d %s' % (ty, nv, ' '.join(vals)))
        cid = 'rt%d' % k
        lines += ['param 0 ' + hx(b'EXTRA'), 'snap 0', 'save 0 %s.c3d' % cid, 'fsum %s.c3d' % cid, 'load 1 %s.c3d' % cid, 'snap 1']
        cases.append((cid, lines)); kinds['parameter-object-retyped-before-it-is-stored'] = kinds.get('parameter-object-retyped-before-it-is-stored', 0) + 1
    # (5) a saved object reloaded, a LARGE parameter replaced by a small one (the parameter section shrinks by whole blocks), saved
    #     again and reloaded: the second file is the image of the edited object, like the first was of the built one
    for k in range(6):
        nbig = rng.choice([400, 600, 1000]); d1 = rng.choice([100, 200])
        lines = ['new 0', 'point 0 x61', 'P.new x52415445 x', 'P.set F 0 1 42c80000', 'param 0 x504f494e54', 'frame 0 - 1 x61 3dcccccd 40000000 40400000 3c23d70a 0',
                 'P.new %s x' % hx(b'TABLE'), 'P.set F 2 %d %d %d %s' % (d1, nbig // d1, nbig, ' '.join(['3f800000'] * nbig)), 'param 0 ' + hx(b'CALIB'),
                 'save 0 sh%d_a.c3d' % k, 'load 1 sh%d_a.c3d' % k, 'P.new %s x' % hx(b'TABLE'), 'P.set F 0 4 3f800000 40000000 40400000 40800000', 'param 1 ' + hx(b'CALIB'),
                 'snap 1', 'save 1 sh%d_b.c3d' % k, 'fsum sh%d_b.c3d' % k, 'load 2 sh%d_b.c3d' % k, 'snap 2']
        cases.append(('sh%d' % k, lines)); kinds['reloaded-object-whose-parameter-section-shrinks'] = kinds.get('reloaded-object-whose-parameter-section-shrinks', 0) + 1
    # (3) the largest parameter section the format can describe (254 / 255 blocks: the data start beyond block 255) WITH data after it
    for v in (254, 255):
        lines = ['new 0', 'point 0 x61', 'P.new x52415445 x', 'P.set F 0 1 42c80000', 'param 0 x504f494e54'] + ['frame 0 - 1 x61 3dcccccd 40000000 40400000 3c23d70a 0', 'frame 0 - 1 x61 3f8ccccd c0000000 40400000 00000000 0']
        size = 4 + 330; k = 0
        while True:
            rec = 2 + 4 + 2 + 1 + 1 + 2 + 1 + 255
            if (size + rec + 511) // 512 > v: break
            lines += ['P.new %s %s' % (hx(b'F%03d' % (k % 1000)), hx(b'f' * 255)), 'P.set I 0 1 1', 'param 0 ' + hx(b'G%02d' % (k // 500))]; size += rec; k += 1
        cid = 'pb%d' % v
        cases.append((cid, lines + ['snap 0', 'save 0 %s.c3d' % cid, 'fsum %s.c3d' % cid, 'load 1 %s.c3d' % cid, 'snap 1'])); kinds['parameter-section-of-%d-blocks-with-data' % v] = 1
    sel = lambda ln: ln.split(' ', 1)[0] in ('save', 'fsum', 'load', 'snap')
    (c, _), (m, _), nd = common.correspondence(rep, work, cases, select=sel, label='saved bytes and reloaded object')
    bad = 0; compared = 0; comps = {}
    # C01_decided: on which of the saved objects do the hypotheses of the theorem hold (computed by the extracted predicate)
    appl = common.theorem_applicability(work, cases); napp = 0; napp_ok = 0; nnorm = 0
    for cid, lines in cases:
        cl, cs = c.get(cid, ([], 'missing'))
        ops = harness.split_ops(lines, cl)
        snaps = [(ln, out) for ln, out in ops if ln.startswith('snap') and out and out[0].startswith('H ')]
        loads = [(ln, out) for ln, out in ops if ln.startswith('load ')]
        if len(snaps) < 1: continue
        s0 = harness.Snap(snaps[0][1])
        if loads and loads[-1][1] and loads[-1][1][0] != 'ok':
            sig = classify(s0, 'load')
            if rep.violation('oracle', 'the saved file could not be loaded back: %s' % loads[-1][1][0],
                             script=[l for l in lines if not l.startswith('snap') and not l.startswith('fsum')], signature=sig): bad += 1
            continue
        if len(snaps) < 2: continue
        s1 = harness.Snap(snaps[-1][1]); compared += 1
        fl = appl.get(cid) or [None]
        proved = bool(fl[0] and fl[0][0]); napp += proved; nnorm += bool(proved and fl[0][3] == 0)
        ds = diff_obs(obs(s0), obs(s1, loaded=True))
        if proved and not ds: napp_ok += 1
        for d in ds[:1]:
            if proved: d += ' (the object meets the hypotheses of C01_decided / C01_decided_points_only: the model provably reloads it unchanged)'
            comp = d.split(' ')[0]; comps[comp.split('[')[0]] = comps.get(comp.split('[')[0], 0) + 1
            if rep.violation('oracle', 'content differs after save and load: %s' % d,
                             script=[l for l in lines if not l.startswith('fsum')], signature=classify(s0, d)): bad += 1
    rep.coverage.update(dict(evaluations=len(cases), distinct_nontrivial=compared,
        rule='API construction histories (conforming data sets with replacements, extensions, columns, non-integer ratios; parameters of every type with 0..7 dimensions incl. empty ones, descriptions 0..255, lock toggles) saved and loaded by the real library; the canonical content (upper-cased names, right-trimmed strings, DATA_START excluded) before the save and after the load must be equal, floats compared as bit patterns; non-trivial = saved, reloaded and compared',
        samples=[cases[-1][1][-8:]], op_kinds=kinds, failing_components=comps, disagreements=nd, oracle_failures=bad,
        theorem_C01_decided=dict(objects_compared=compared, hypotheses_hold=napp, of_which_points_only_objects_covered_through_normalisation=nnorm, of_which_reloaded_equal_in_the_implementation=napp_ok, excluded_by=common.failing_hypotheses(appl))))
