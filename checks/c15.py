"""C15 — a save that did not reach the disk is reported."""
import os
from lib import harness, gen
from lib.harness import hx
from checks import common, apihist
LEVEL = 'proof'

def objects(rng, tier):
    """several object sizes: default object (1 KB), a few frames, a data section of several stream buffers"""
    out = [('empty', ['new 0'])]
    b = apihist.conforming_history(rng, max_frames=4, snap=False, with_cols=False); out.append(('small', b.lines[:-1] if b.lines[-1] == 'snap 0' else b.lines))
    big = ['new 0', 'point 0 x61', 'point 0 x62', 'P.new x52415445 x', 'P.set F 0 1 42c80000', 'param 0 x504f494e54']
    for i in range(900 if tier == 'quick' else 3000):
        big.append('frame 0 - 2 x61 3f800000 40000000 40400000 00000000 x62 3f800000 40000000 40400000 00000000 0')
    out.append(('several-buffers', big))
    # wide frames: 80 points per frame and no analog data (one frame is larger than the threshold above which a stream
    # hands a block straight to the operating system instead of its buffer), and the same with analog data
    names = [b'w%02d' % i for i in range(80)]
    wide = ['new 0'] + ['point 0 ' + hx(n) for n in names] + ['P.new x52415445 x', 'P.set F 0 1 42c80000', 'param 0 x504f494e54']
    lit = '80 ' + ' '.join('%s 3f800000 40000000 40400000 00000000' % hx(n) for n in names) + ' 0'
    for i in range(25): wide.append('frame 0 - ' + lit)
    out.append(('wide-frames', wide))
    widea = ['new 0'] + ['point 0 ' + hx(n) for n in names] + ['analog 0 x6368', 'P.new x52415445 x', 'P.set F 0 1 42c80000', 'param 0 x504f494e54',
                                                               'P.new x52415445 x', 'P.set F 0 1 42c80000', 'param 0 x414e414c4f47']
    lita = '80 ' + ' '.join('%s 3f800000 40000000 40400000 00000000' % hx(n) for n in names) + ' 1 1 x6368 3f000000'
    for i in range(25): widea.append('frame 0 - ' + lita)
    out.append(('wide-frames-with-analogs', widea))
    # analog-only recordings whose frame holds 1 KiB of samples or more (300 channels x 1 sub-frame; 64 channels x 5 sub-frames):
    # the same threshold, reached through the analog writer
    for tag, nch, nsub in (('wide-analog-only-frames', 300, 1), ('wide-analog-only-subframes', 64, 5)):
        chans = [b'a%03d' % i for i in range(nch)]
        o = ['new 0'] + ['analog 0 ' + hx(c) for c in chans] + ['P.new x52415445 x', 'P.set F 0 1 42c80000', 'param 0 x504f494e54',
                                                                 'P.new x52415445 x', 'P.set F 0 1 %s' % harness.fhex(harness.f2bits(100.0 * nsub)), 'param 0 x414e414c4f47']
        sub = '%d %s' % (nch, ' '.join('%s 3f000000' % hx(c) for c in chans))
        lit = '0 %d %s' % (nsub, ' '.join([sub] * nsub))
        for i in range(12): o.append('frame 0 - ' + lit)
        out.append((tag, o))
    return out

def run(rep, work, rng, tier):
    common.proof_part(rep, 'C15')
    objs = objects(rng, tier)
    # first pass: the size of each file
    probe = [(name, lines + ['save 0 p.c3d', 'fsum p.c3d']) for name, lines in objs]
    from lib import build
    drv = build.build_driver('plain')
    res, owns, _ = harness.run_side(drv, probe, work, 'probe', work.sub('shared'))
    sizes = {name: int(res[name][0][-1].split(' ')[1]) for name, _ in probe if res[name][0] and res[name][0][-1].startswith('ok')}
    cases = []; kinds = {}
    for name, lines in objs:
        n = sizes[name]
        if n <= 4096: ks = list(range(0, n + 2))
        else:
            ks = sorted(set(list(range(0, 1100, 7)) + [n - 1, n, n + 1, n - 4096, n - 8191, n - 8192, n - 8193] + [rng.randrange(n) for _ in range(60 if tier == 'quick' else 600)]
                            + list(range(n - 9000, n, 97 if tier == 'quick' else 11))))
            ks = [k for k in ks if k >= 0]
        if tier == 'quick' and n <= 4096: ks = [k for k in ks if k % 3 == 0 or k < 30 or abs(k - 512) < 6 or abs(k - 1024) < 6 or k >= n - 3]
        for k in ks:
            cases.append(('%s_l%d' % (name, k), lines + ['savefault 0 limit %d out.c3d' % k])); kinds['size-limit'] = kinds.get('size-limit', 0) + 1
        for mode, arg in (('path', '/dev/full'), ('path', '/nonexistent_dir_for_c15/x.c3d'), ('readonly', 'ro.c3d')):
            cases.append(('%s_%s' % (name, arg.strip('/').replace('/', '_')), lines + ['savefault 0 %s %s' % (mode, arg)])); kinds[arg] = kinds.get(arg, 0) + 1
    sel = lambda ln: ln.startswith('savefault')
    proj = lambda l: None if l.startswith('disk') else l
    (c, cown), (m, mown), nd = common.correspondence(rep, work, cases, select=sel, project=proj, label='outcome of a save under an injected fault')
    bad = 0; outcomes = {}
    for cid, lines in cases:
        cl, cs = c.get(cid, ([], 'missing'))
        ops = harness.split_ops(lines, cl)
        out = ops[-1][1]
        if not out or len(out) < 2: continue
        name = cid.rsplit('_l', 1)[0] if '_l' in cid else cid.split('_')[0]
        t = lines[-1].split(' ')
        verdict, disk = out[0], out[1].split(' ')[1]
        outcomes[verdict] = outcomes.get(verdict, 0) + 1
        if t[2] == 'limit':
            k = int(t[3]); n = sizes[name]
            complete = disk.lstrip('-').isdigit() and int(disk) == n
            if verdict == 'ok' and not complete:
                if rep.violation('oracle', 'write() returned normally with a size limit of %d bytes but only %s of %d bytes are on the disk' % (k, disk, n),
                                 script=[l[:200] for l in lines[-3:]], signature='silent-short-write', extra=dict(object=name, limit=k)): bad += 1
            if verdict != 'ok' and k >= n:
                if rep.violation('oracle', 'write() threw %s although the limit %d is not below the file size %d' % (verdict, k, n), script=lines[-3:], signature='spurious-failure'): bad += 1
            if verdict not in ('ok', 'throw ios_failure'):
                if rep.violation('oracle', 'write() under a size limit answered %s' % verdict, script=lines[-3:], signature='wrong-class'): bad += 1
        else:
            if verdict != 'throw ios_failure':
                if rep.violation('oracle', 'write() to %s answered %r instead of an I/O failure' % (t[3], verdict), script=lines[-3:], signature='unreported-destination-fault'): bad += 1
    rep.coverage.update(dict(evaluations=len(cases), distinct_nontrivial=len(set(ls[-1] + cid.split('_')[0] for cid, ls in cases)),
        rule='three object sizes (1 KB default object, a few frames, a data section spanning several stream buffers) x a write failure injected at byte offset k (RLIMIT_FSIZE = k, SIGXFSZ ignored; every k for files <= 4 KB, dense near block / buffer boundaries and the end otherwise) and the destination faults /dev/full, missing directory, read-only file (as an unprivileged user); the call must throw ios_base::failure exactly when the complete content did not reach the disk',
        samples=[cases[0][1][-1], cases[-1][1][-1]], fault_kinds=kinds, file_sizes=sizes, outcome_classes=outcomes, disagreements=nd, oracle_failures=bad))
