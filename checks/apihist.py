"""Shared machinery for the properties about API histories (C05, C06, C07, C08, C10):
a state-aware generator that knows the real shape of the object (it is driven by the model,
i.e. by what the previous snapshot says) and per-operation before/after records."""
import struct
from lib import harness, gen
from lib.harness import hx, fhex

def trim(b): return b.rstrip(b' ')

class Lit:
    """a frame literal: points [(name,x,y,z,r)], subs [[(name,v)]]"""
    def __init__(self, pts, subs): self.pts = pts; self.subs = subs
    def text(self):
        t = [str(len(self.pts))]
        for p in self.pts: t += [hx(p[0]), p[1], p[2], p[3], p[4]]
        t.append(str(len(self.subs)))
        for sf in self.subs:
            t.append(str(len(sf)))
            for c in sf: t += [hx(c[0]), c[1]]
        return ' '.join(t)
    def stored(self):
        """what the object must hold for this literal: names trimmed by the setters"""
        return dict(pts=[(trim(p[0]),) + tuple(p[1:]) for p in self.pts], subs=[[(trim(c[0]), c[1]) for c in sf] for sf in self.subs])

def parse_lit(tokens, i=0):
    np_ = int(tokens[i]); i += 1; pts = []
    for _ in range(np_):
        pts.append((harness.unhx(tokens[i]), tokens[i + 1], tokens[i + 2], tokens[i + 3], tokens[i + 4])); i += 5
    ns = int(tokens[i]); i += 1; subs = []
    for _ in range(ns):
        nc = int(tokens[i]); i += 1; sf = []
        for _ in range(nc):
            sf.append((harness.unhx(tokens[i]), tokens[i + 1])); i += 2
        subs.append(sf)
    return Lit(pts, subs), i

def rf(rng): return fhex(gen.rfloat(rng))

def rand_lit(rng, names, chans, nsub):
    return Lit([(n, rf(rng), rf(rng), rf(rng), rf(rng)) for n in names],
               [[(c, rf(rng)) for c in chans] for _ in range(nsub)])

class Shape:
    """What the generator believes about the object (kept exact by construction for conforming
    histories; re-synchronised from snapshots by the checks that need exactness)."""
    def __init__(self):
        self.pts = []; self.chans = []; self.prate = 0.0; self.arate = 0.0
        self.nframes = 0; self.filled = 0; self.nsub = None
    def expected_nsub(self):
        if self.filled and self.nsub is not None: return self.nsub
        if not self.chans: return 0
        if self.prate == 0.0: return 1
        q = struct.unpack('<f', struct.pack('<f', f32(self.arate) / f32(self.prate)))[0]
        return int(q)

def f32(x): return struct.unpack('<f', struct.pack('<f', x))[0]

RATES = [(100.0, 1000.0), (100.0, 100.0), (50.0, 150.0), (60.0, 120.0), (1.0, 4.0), (200.0, 200.0), (29.97, 59.94), (100.0, 250.0),
         # fractional point rates: the quotient of the rates is not the quotient of their integer parts (2.5/10 -> 4, not 10/2)
         (2.5, 10.0), (1.5, 3.0), (1.5, 4.5), (2.5, 5.0)]

class Builder:
    """Builds a conforming history: declare, set rates, frames of the declared shape, columns.
    Every line goes through emit() so that snapshots can be interleaved."""
    def __init__(self, rng, snap=True):
        self.rng = rng; self.lines = ['new 0']; self.sh = Shape(); self.snap = snap; self.kinds = []
        if snap: self.lines.append('snap 0')
    def emit(self, line, kind):
        self.lines.append(line); self.kinds.append(kind)
        if self.snap: self.lines.append('snap 0')
    def raw(self, line): self.lines.append(line)
    def declare_point(self, name):
        self.emit('point 0 ' + hx(name), 'point')
    def declare_analog(self, name):
        self.emit('analog 0 ' + hx(name), 'analog')
    def set_rate(self, group, v, lock=False):
        self.raw('P.new %s x' % hx(b'RATE')); self.raw('P.set F 0 1 ' + fhex(harness.f2bits(v)))
        if lock: self.raw('P.lock')
        self.emit('param 0 ' + hx(group), 'rate')
        if group == b'POINT': self.sh.prate = v
        else: self.sh.arate = v
    def frame(self, lit, idx='-', kind='frame'):
        self.emit('frame 0 %s %s' % (idx, lit.text()), kind)
    def pointcol(self, lits, kind='pointcol'):
        self.emit('pointcol 0 %d %s' % (len(lits), ' '.join(l.text() for l in lits)), kind)
    def analogcol(self, lits, kind='analogcol'):
        self.emit('analogcol 0 %d %s' % (len(lits), ' '.join(l.text() for l in lits)), kind)

def uniq_names(rng, n, prefix=b'', pad=True):
    out = []
    while len(out) < n:
        s = prefix + gen.rname(rng, 6, False)
        if s not in out and trim(s) not in [trim(x) for x in out] and trim(s): out.append(s)
    if pad: out = [x + (b'  ' if rng.random() < 0.15 else b'') for x in out]
    return out

def conforming_history(rng, max_frames=8, snap=True, with_cols=True, with_params=True):
    """declare-then-fill, frames-before-rates (refused), analog-only, declare-after-data (columns),
    non-integer ratios; every accepted frame has the declared shape."""
    b = Builder(rng, snap); sh = b.sh
    plan = rng.choice(['both', 'both', 'points', 'analogs', 'none', 'late-declare'])
    npts = 0 if plan in ('analogs', 'none') else rng.choice([1, 2, 3, 5])
    nch = 0 if plan in ('points', 'none') else rng.choice([1, 2, 4])
    pts = uniq_names(rng, npts); chans = uniq_names(rng, nch, b'c')
    prate, arate = rng.choice(RATES)
    steps = []
    if plan != 'late-declare':
        steps += [('dp', n) for n in pts] + [('da', c) for c in chans]
    steps += [('rp',), ('ra',)] if rng.random() < 0.8 else [('ra',), ('rp',)]
    if plan == 'late-declare': steps += [('dp', n) for n in pts] + [('da', c) for c in chans]
    if rng.random() < 0.3: rng.shuffle(steps)
    if with_params and rng.random() < 0.5: steps.insert(rng.randrange(len(steps) + 1), ('param',))
    # rates are set again, several times: ratios that shrink by one sub-frame are where rescaling arithmetic lives
    if rng.random() < 0.6:
        for _ in range(rng.choice([1, 2, 3])):
            if rng.random() < 0.75: steps.append(('ra2', rng.choice([10, 9, 8, 7, 5, 4, 3, 2, 1, 6, 12])))
            elif rng.random() < 0.5: steps.append(('rp2', rng.choice([50.0, 100.0, 200.0, 25.0, 0.0])))
            # a small correction of the point rate (more than 1e-4 Hz, far less than 1 %): the header follows to 1e-4 Hz
            else: steps.append(('rp3', rng.choice([-0.006, -0.0011, -0.0002, -0.01, -0.05, 0.0003])))
    for st in steps:
        if st[0] == 'dp': b.declare_point(st[1]); sh.pts.append(trim(st[1]))
        elif st[0] == 'da': b.declare_analog(st[1]); sh.chans.append(trim(st[1]))
        elif st[0] == 'rp':
            if npts or rng.random() < 0.5: b.set_rate(b'POINT', prate, rng.random() < 0.3)
        elif st[0] == 'ra':
            if nch: b.set_rate(b'ANALOG', arate, rng.random() < 0.3)
        elif st[0] == 'ra2':
            if nch: b.set_rate(b'ANALOG', (sh.prate or 100.0) * st[1], rng.random() < 0.3)
        elif st[0] == 'rp2':
            b.set_rate(b'POINT', st[1], rng.random() < 0.3)
        elif st[0] == 'rp3':
            if sh.prate: b.set_rate(b'POINT', f32(f32(sh.prate) + st[1]), rng.random() < 0.3)
        elif st[0] == 'param':
            b.raw('P.new %s x' % hx(b'NOTE')); b.raw('P.set I 0 2 1 2'); b.emit('param 0 ' + hx(b'EXTRA'), 'param')
    if (sh.pts and sh.prate == 0.0): b.set_rate(b'POINT', prate)
    if (sh.chans and sh.arate == 0.0): b.set_rate(b'ANALOG', arate)
    # a conforming data set has at least one sub-frame per frame when channels are declared
    if sh.chans and sh.expected_nsub() < 1: b.set_rate(b'ANALOG', (sh.prate or 1.0) * rng.choice([1, 2, 3, 10]))
    # frames
    nfr = rng.choice([0, 1, 2, 3, max_frames])
    for k in range(nfr):
        nsub = sh.expected_nsub()
        lit = rand_lit(rng, sh.pts, sh.chans, nsub if sh.chans else 0)
        r = rng.random()
        if sh.nframes > 0 and r < 0.25:
            tgt = rng.randrange(sh.nframes); b.frame(lit, str(tgt), 'frame-replace')
        elif sh.nframes > 0 and r < 0.35:
            tgt = sh.nframes + rng.choice([0, 1, 3]); b.frame(lit, str(tgt), 'frame-extend'); sh.nframes = tgt + 1
        else:
            b.frame(lit, '-', 'frame-append'); sh.nframes += 1
        if sh.filled == 0: sh.nsub = nsub if sh.chans else 0
        sh.filled += 1
    # columns after data
    if with_cols and sh.nframes > 0 and rng.random() < 0.6:
        for _ in range(rng.choice([1, 2])):
            if rng.random() < 0.5 and (sh.prate != 0.0):
                if rng.random() < 0.5:
                    n = uniq_names(rng, 1, b'np')[0]
                    if trim(n) not in sh.pts: b.declare_point(n); sh.pts.append(trim(n))
                else:
                    k = rng.choice([1, 2]); names = [x for x in uniq_names(rng, k, b'nq', False) if x not in sh.pts]
                    # ragged supply: frames after the first may hold MORE points than the first one; the first frame fixes the columns
                    ragged = rng.random() < 0.35
                    b.pointcol([rand_lit(rng, names + ([b'zzr1', b'zzr2'][:rng.choice([0, 1, 2])] if ragged and f > 0 else []), [], 0) for f in range(sh.nframes)],
                               'pointcol-ragged' if ragged and sh.nframes > 1 else 'pointcol'); sh.pts += names
            elif sh.chans and sh.nsub:
                if rng.random() < 0.5:
                    n = uniq_names(rng, 1, b'nc')[0]
                    if trim(n) not in sh.chans: b.declare_analog(n); sh.chans.append(trim(n))
                else:
                    k = rng.choice([1, 2]); names = [x for x in uniq_names(rng, k, b'nd', False) if x not in sh.chans]
                    ragged = rng.random() < 0.35
                    b.analogcol([rand_lit(rng, [], names + ([b'zzs1', b'zzs2'][:rng.choice([0, 1, 2])] if ragged and f > 0 else []), sh.nsub) for f in range(sh.nframes)],
                                'analogcol-ragged' if ragged and sh.nframes > 1 else 'analogcol'); sh.chans += names
        # one more conforming frame after the columns
        if rng.random() < 0.7:
            b.frame(rand_lit(rng, sh.pts, sh.chans, sh.nsub if sh.chans else 0), '-', 'frame-append'); sh.nframes += 1
    if not snap: b.lines.append('snap 0')
    return b

DEVIATIONS = ['point-missing', 'point-extra', 'point-renamed', 'point-dup', 'points-none', 'chan-missing', 'chan-extra',
              'subs-none', 'sub-extra', 'sub-missing', 'empty', 'permuted',
              # the channel count is wrong AND the frame carries at least one sub-frame, whatever the rates announce (a rate
              # ratio below 1 announces none: the channel guard must still see ANALOG:USED)
              'chan-extra-1sub', 'chan-missing-1sub',
              # a declared point is missing but a point whose name ENDS with that name is there (Subject:LASI for LASI): not that point
              'point-renamed-prefix', 'point-renamed-suffix']

def deviate(rng, sh, dev):
    """a frame literal that deviates from the declared shape in exactly one way"""
    pts = list(sh.pts); chans = list(sh.chans); nsub = sh.expected_nsub() if sh.chans else 0
    subs_override = None
    if dev == 'point-missing' and pts: pts.pop(rng.randrange(len(pts)))
    elif dev == 'point-extra': pts.insert(rng.randrange(len(pts) + 1), b'zz_extra')
    elif dev == 'point-renamed' and pts: pts[rng.randrange(len(pts))] = b'zz_other'
    elif dev == 'point-dup' and len(pts) >= 2: pts[-1] = pts[0]
    elif dev == 'points-none': pts = []
    elif dev == 'chan-missing' and chans: chans.pop()
    elif dev == 'chan-extra': chans.append(b'zz_c')
    elif dev == 'subs-none': nsub = 0
    elif dev == 'sub-extra': nsub += 1
    elif dev == 'sub-missing' and nsub > 0: nsub -= 1
    elif dev == 'empty': pts = []; chans = []; nsub = 0
    elif dev == 'permuted' and len(pts) >= 2: pts = pts[1:] + pts[:1]
    elif dev == 'point-renamed-prefix' and pts: k = rng.randrange(len(pts)); pts[k] = b'Subj:' + pts[k]
    elif dev == 'point-renamed-suffix' and pts: k = rng.randrange(len(pts)); pts[k] = pts[k] + b':1'
    elif dev == 'chan-extra-1sub': chans.append(b'zz_c'); nsub = max(1, nsub)
    elif dev == 'chan-missing-1sub' and chans: chans.pop(); nsub = max(1, nsub)
    return rand_lit(rng, pts, chans, nsub)

class OpRec:
    __slots__ = ('line', 'out', 'before', 'after', 'index')

def op_records(lines, outlines):
    """[(OpRec)] for every non-snap operation, with the snapshots around it (None when missing)"""
    ops = harness.split_ops(lines, outlines)
    recs = []; last = None; pending = []
    for k, (ln, out) in enumerate(ops):
        if ln.startswith('snap'):
            if out and out[0].startswith('H '):
                s = harness.Snap(out)
                for r in pending: r.after = s
                pending = []; last = s
            continue
        r = OpRec(); r.line = ln; r.out = out; r.before = last; r.after = None; r.index = k
        recs.append(r)
        c = ln.split(' ', 1)[0]
        if c in ('frame', 'frameR', 'frameD', 'point', 'analog', 'pointcol', 'analogcol', 'pointcolR', 'analogcolR', 'param', 'lock', 'unlock', 'new', 'load', 'loadx'):
            pending = [r]
        # caller-side commands (P.*, F.*) do not touch the object: keep 'last'
    return recs

def frames_key(snap):
    return [(tuple(f['pts']), tuple(tuple(sf) for sf in f['subs'])) for f in snap.frames]
