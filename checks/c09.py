"""C09 — parameter and group edits change exactly what was asked."""
import copy
from lib import harness, gen
from lib.harness import hx
from checks import common
LEVEL = 'proof'

GROUPS = [b'POINT', b'ANALOG', b'FORCE_PLATFORM', b'EXTRA', b'extra', b'Extra', b'G2', b'']
PNAMES = [b'CUSTOM', b'custom', b'X', b'Y', b'ZERO', b'GEN_SCALE', b'DESCRIPTIONS', b'LABELS', b'UNITS', b'BITS', b'', b'A B', b'RATE2']

def prod(d):
    r = 1
    for x in d: r *= x
    return r

def gen_set(rng):
    """one P.set line: (type, values, dims) with 0..7 dimensions, mostly consistent"""
    ty = rng.choice('IFS')
    nd = rng.choice([0, 0, 1, 1, 2, 2, 3, 4, 5, 6, 7])
    dims = []
    for _ in range(nd):
        dims.append(rng.choice([0, 1, 1, 2, 2, 3, 4]) if rng.random() < 0.95 else rng.choice([255, 256]))
    if nd >= 2 and rng.random() < 0.02: dims = [65536, 65536]; nd = 2        # the 2^32 wrap
    big = None
    if rng.random() < 0.03: big = rng.choice([([4, 25, 13, 41, 61, 1321], 4), ([2, 2, 25, 13, 41, 61, 1321], 4), ([65536, 65537], 65536 % 2**32 and 0 or 65536), ([3, 1431655766], 2)])
    n = prod(dims) if nd else rng.choice([0, 1, 2, 3, 7])
    if n > 300: n = 0
    if big is not None:      # a product of 2^32 + k with k values: the count equals the product only modulo 2^32
        dims, n = list(big[0]), big[1]; nd = len(dims)
        if n > 300: dims, n = [4, 25, 13, 41, 61, 1321], 4; nd = 6
    r = rng.random() if big is None else 1.0
    if r < 0.12: n = max(0, n + rng.choice([-1, 1, 2]))
    elif r < 0.16 and nd >= 2: n = prod(dims[:-1])             # product of a proper prefix
    elif r < 0.20: n = 0
    if ty == 'I': vals = [str(rng.choice([0, 1, -1, 32767, -32768, 2147483647, -2147483648, rng.randrange(-70000, 70000)])) for _ in range(n)]
    elif ty == 'F': vals = [harness.fhex(gen.rfloat(rng)) for _ in range(n)]
    else:
        vals = [hx(gen.rname(rng, 12)) for _ in range(n)]
        # one long string now and then: the leading dimension is the longest string, whatever its length (254..300, 1000)
        if n and rng.random() < 0.12:
            L = rng.choice([254, 255, 256, 257, 300, 1000])
            vals[rng.randrange(n)] = hx(bytes(rng.randrange(33, 127) for _ in range(L)))
    return 'P.set %s %d %s %d %s' % (ty, nd, ' '.join(map(str, dims)), n, ' '.join(vals)), ty, n, dims

def build(rng, nops):
    lines = ['new 0', 'snap 0']
    kinds = {}
    for _ in range(nops):
        r = rng.random()
        if r < 0.70:
            name = rng.choice(PNAMES) if rng.random() < 0.8 else gen.rname(rng, 6, False)
            desc = b'' if rng.random() < 0.5 else bytes(rng.randrange(32, 127) for _ in range(rng.choice([1, 7, 30])))
            lines.append('P.new %s %s' % (hx(name), hx(desc)))
            for _ in range(rng.choice([0, 1, 1, 1, 2])):
                if rng.random() < 0.15:
                    # the scalar setters set(int) / set(size_t) / set(float) / set(string): one value, one dimension of one entry
                    lines.append(rng.choice(['P.seti %d' % rng.choice([0, 1, -1, 32767, -32768, 2147483647, -2147483648]), 'P.setu %d' % rng.choice([0, 1, 255, 65535, 2147483647]),
                                             'P.setf ' + harness.fhex(gen.rfloat(rng)), 'P.sets ' + hx(gen.rname(rng, 12))]))
                else: lines.append(gen_set(rng)[0])
                lines.append('P.show')
            if rng.random() < 0.3: lines.append('P.lock')
            if rng.random() < 0.1: lines.append('P.unlock')
            if rng.random() < 0.1: lines.append('P.name ' + hx(rng.choice(PNAMES)))
            g = rng.choice(GROUPS) if rng.random() < 0.85 else gen.rname(rng, 5, False)
            lines.append('param 0 ' + hx(g)); lines.append('snap 0')
            kinds['param'] = kinds.get('param', 0) + 1
            if rng.random() < 0.35:
                # replace it at once by a parameter of the same name whose lock flag (and possibly type) differs:
                # the look-up must return the GIVEN lock state, not the previous occupant's
                lines.append('P.new %s %s' % (hx(name), hx(b'again')))
                lines.append(gen_set(rng)[0])
                lines.append(rng.choice(['P.lock', 'P.unlock', 'P.unlock']))
                lines.append('param 0 ' + hx(g)); lines.append('snap 0')
                kinds['replace-same-name-other-lock'] = kinds.get('replace-same-name-other-lock', 0) + 1
        elif r < 0.85:
            g = rng.choice(GROUPS + [b'NOPE'])
            lines.append('%s 0 %s' % (rng.choice(['lock', 'unlock']), hx(g))); lines.append('snap 0')
            kinds['lock'] = kinds.get('lock', 0) + 1
        else:
            lines.append('point 0 ' + hx(gen.rname(rng))) if rng.random() < 0.5 else lines.append('analog 0 ' + hx(gen.rname(rng)))
            lines.append('snap 0')
            kinds['declare'] = kinds.get('declare', 0) + 1
    return lines, kinds

def _retype(rng, ty, dims):
    n = prod(dims)
    if ty == 'C':
        if not dims: return [], [bytes([rng.randrange(65, 91)])]
        w = dims[0]; cells = prod(dims[1:]) if len(dims) > 1 else 1
        return dims, [bytes(rng.randrange(65, 91) for _ in range(rng.randrange(w + 1))) if w else b'' for _ in range(cells)]
    if ty == 'B': return dims, [rng.choice([-128, -1, 0, 1, 127]) for _ in range(n)]
    if ty == 'I': return dims, [rng.choice([-32768, -1, 0, 1, 32767]) for _ in range(n)]
    return dims, [harness.fhex(gen.rfloat(rng)) for _ in range(n)]

def sel(ln):
    return ln.split(' ')[0] in ('get.paramn', 'P.seti', 'P.setu', 'P.setf', 'P.sets', 'P.get', 'P.desc', 'P.new', 'P.set', 'P.show', 'P.lock', 'P.unlock', 'P.name', 'param', 'lock', 'unlock', 'snap')
def proj(l):
    # the property's projection of a snapshot: the parameter tree (groups, parameters)
    return l if l[:2] in ('G ', 'P ', 'ok', 'th') else None

def tree_after(groups, gname, p):
    gs = copy.deepcopy(groups)
    for g in gs:
        if g['name'] == gname:
            for k, q in enumerate(g['params']):
                if q['name'] == p['name']:
                    g['params'][k] = p; return gs
            g['params'].append(p); return gs
    gs.append(dict(name=gname, desc=b'', lock=0, params=[p])); return gs

def strip(gs):
    return [(g['name'], g['desc'], g['lock'], [(p['name'], p['desc'], p['lock'], p['type'], tuple(p['dims']), tuple(p['vals'])) for p in g['params']]) for g in gs]

def oracle(rep, cid, lines, cl, stats):
    ops = harness.split_ops(lines, cl)
    snap = None; P = None; hist = []; bad = 0
    mand = {(b'POINT', b'USED'), (b'POINT', b'FRAMES'), (b'POINT', b'RATE'), (b'ANALOG', b'USED'), (b'ANALOG', b'RATE')}
    for ln, out in ops:
        hist.append(ln)
        if out is None: break
        t = ln.split(); c = t[0]; o = out[0]
        if c == 'snap' and o.startswith('H '):
            new = harness.Snap(out)
            pend = stats.pop('pending', None)
            if pend is not None and snap is not None:
                kind, exp, why = pend
                if strip(new.groups) != strip(exp):
                    bad += 1
                    rep.violation('oracle', '%s: parameter tree after the call is not the documented one (%s)' % (kind, why),
                                  script=[l for l in hist if not l.startswith('snap')] + ['snap 0'], signature='tree:' + kind)
            snap = new
        elif c == 'P.get':
            P = None
            if o == 'ok' and snap is not None:
                for g in snap.groups:
                    if g['name'] == harness.unhx(t[2]):
                        for q in g['params']:
                            if q['name'] == harness.unhx(t[3]): P = copy.deepcopy(q); break
                        break
        elif c == 'P.desc' and P is not None: P['desc'] = harness.unhx(t[1])
        elif c == 'P.new': P = dict(name=harness.unhx(t[1]), desc=harness.unhx(t[2]), lock=0, type='N', dims=[], vals=[])
        elif c == 'P.name': P['name'] = harness.unhx(t[1])
        elif c == 'P.lock': P['lock'] = 1
        elif c == 'P.unlock': P['lock'] = 0
        elif c == 'P.set':
            ty = t[1]; nd = int(t[2]); dims = [int(x) for x in t[3:3 + nd]]; n = int(t[3 + nd]); vals = t[4 + nd:4 + nd + n]
            d = dims if nd else [n]
            pr = prod(d)
            ok_doc = (n != 0 and n == pr) or (n == 0 and (pr == 0))
            stats['set'] = stats.get('set', 0) + 1
            if pr >= 2 ** 31:
                stats['set_outside_int_range'] = stats.get('set_outside_int_range', 0) + 1
                if (o == 'ok') != ok_doc:
                    # the known finding is about EMPTY data under dimensions whose product is a multiple of 2^32; values accepted
                    # under a product they do not cover are another matter
                    if rep.violation('oracle', 'set of %d values with dimensions %s (product beyond the int range) answered %r' % (n, dims, o),
                                  script=[l for l in hist if l.startswith('P.')], signature='dims-product-wraps-32bit' if n == 0 else None): bad += 1
            elif (o == 'ok') != ok_doc or (o != 'ok' and o != 'throw range_error'):
                bad += 1
                rep.violation('oracle', 'set of %d values with dimensions %s answered %r; documented: %s' % (n, dims, o, 'accepted' if ok_doc else 'range_error'),
                              script=[l for l in hist if l.startswith('P.')], signature='set-accept')
            if o == 'ok':
                stats['set_ok'] = stats.get('set_ok', 0) + 1
                v = [int(x) for x in vals] if ty == 'I' else ([harness.unhx(x) for x in vals] if ty == 'S' else list(vals))
                dd = list(d)
                if ty == 'S': dd = [max([len(x) for x in v] + [0])] + dd
                P.update(type={'I': 'I', 'F': 'F', 'S': 'C'}[ty], dims=dd, vals=v)
        elif c in ('P.seti', 'P.setu', 'P.setf', 'P.sets') and P is not None:
            stats['set'] = stats.get('set', 0) + 1
            if o != 'ok':
                bad += 1; rep.violation('oracle', 'a scalar setter answered %r' % o, script=[l for l in hist if l.startswith('P.')], signature='set-accept')
            else:
                stats['set_ok'] = stats.get('set_ok', 0) + 1
                if c in ('P.seti', 'P.setu'): P.update(type='I', dims=[1], vals=[int(t[1])])
                elif c == 'P.setf': P.update(type='F', dims=[1], vals=[t[1]])
                else:
                    v = harness.unhx(t[1]); P.update(type='C', dims=[len(v), 1], vals=[v])
        elif c == 'P.show' and P is not None:
            got = harness.parse_param(o.split(' ')[1:])
            want = dict(P)
            if want['type'] == 'N': want = dict(want, vals=[])
            for k in ('name', 'desc', 'lock', 'type', 'dims', 'vals'):
                if got[k] != want[k]:
                    bad += 1
                    rep.violation('oracle', 'caller-side parameter %s is %r, expected %r (a refused set must leave it as it was)' % (k, got[k], want[k]),
                                  script=[l for l in hist if l.startswith('P.')], signature='set-state'); break
        elif c == 'param' and snap is not None and P is not None:
            g = harness.unhx(t[2])
            stats['param'] = stats.get('param', 0) + 1
            if o == 'ok':
                stats['param_ok'] = stats.get('param_ok', 0) + 1
                if (g, P['name']) in mand or (g in (b'POINT', b'ANALOG') and P['name'] in (b'USED', b'FRAMES', b'RATE', b'LABELS', b'DESCRIPTIONS', b'UNITS', b'SCALE', b'OFFSET')):
                    stats.pop('pending', None)     # the updaters may legitimately rewrite these afterwards
                else:
                    stats['pending'] = ('parameter', tree_after(snap.groups, g, copy.deepcopy(P)), 'group %r parameter %r' % (g, P['name']))
            else:
                want = 'throw invalid_argument' if P['name'] == b'' else ('throw runtime_error' if P['type'] == 'N' else None)
                # a named parameter of ANY of the four types is accepted (groups other than POINT / ANALOG: their mandatory
                # parameters are read back by the updaters, see the known finding of C10)
                if want is None and g not in (b'POINT', b'ANALOG'): want = 'ok'
                if want and o != want:
                    bad += 1
                    rep.violation('oracle', 'parameter() answered %r, documented %r' % (o, want), script=list(hist), signature='param-refusal')
                stats.pop('pending', None)
        elif c in ('lock', 'unlock') and snap is not None:
            g = harness.unhx(t[2]); stats['lock'] = stats.get('lock', 0) + 1
            exp = copy.deepcopy(snap.groups); found = False
            for gr in exp:
                if gr['name'] == g: gr['lock'] = 1 if c == 'lock' else 0; found = True; break
            if (o == 'ok') != found or (not found and o != 'throw invalid_argument'):
                bad += 1
                rep.violation('oracle', '%s of group %r answered %r' % (c, g, o), script=list(hist), signature='lock-outcome')
            stats['pending'] = (c, exp, 'group %r' % g)
        else:
            stats.pop('pending', None)
    stats.pop('pending', None)
    return bad

def run(rep, work, rng, tier):
    common.proof_part(rep, 'C09', trusted_extra=['Flocq 4.1 binary32 (only in the executable instance; Example C09_nonvacuous depends on the standard-library axioms ClassicalDedekindReals.sig_forall_dec, sig_not_dec, Classical_Prop.classic, FunctionalExtensionality.functional_extensionality_dep through it)'])
    n = 250 if tier == 'quick' else 24000
    cases = []; kinds = {}
    for i in range(n):
        lines, k = build(rng, rng.choice([2, 5, 9, 14]))
        cases.append(('e%d' % i, lines))
        for a, b in k.items(): kinds[a] = kinds.get(a, 0) + b
    # an object with TWO groups of the same name (reachable through a file: "Extra" and "EXTRA" are distinct in memory and both
    # written as EXTRA): parameter("EXTRA", p) edits the group every look-up by that name finds — the first
    for i in range(max(6, n // 25)):
        g1, g2 = rng.choice([(b'Extra', b'EXTRA'), (b'extra', b'EXTRA'), (b'Gx', b'GX')])
        lines = ['new 0', 'P.new %s x' % hx(b'A1'), 'P.set I 0 1 1', 'param 0 ' + hx(g1), 'P.new %s x' % hx(b'B1'), 'P.set I 0 1 2', 'param 0 ' + hx(g2),
                 'save 0 dg%d.c3d' % i, 'load 1 dg%d.c3d' % i, 'snap 1']
        for _k in range(rng.choice([1, 2, 3])):
            nm = rng.choice([b'A1', b'B1', b'NEWP', b'C%d' % _k])
            lines += ['P.new %s x' % hx(nm), gen_set(rng)[0], 'param 1 ' + hx(g2.upper()), 'snap 1', 'get.paramn 1 %s %s' % (hx(g2.upper()), hx(nm))]
        cases.append(('dg%d' % i, lines)); kinds['two-groups-of-one-name'] = kinds.get('two-groups-of-one-name', 0) + 1
    # parameters of EVERY type the format knows (BYTE included: no setter builds one) copied out of a loaded file and handed to
    # parameter(): into a new group, into an existing one, over a parameter of that name
    import os
    from lib import filegen, c3dspec
    shared = work.sub('shared'); ncopy = 0
    for i in range(max(20, n // 6)):
        L = filegen.make_layout(rng); cont = filegen.make_content(rng, dict(dense_ids=False))
        gids = {r[1]: r[2] for r in cont['records'] if r[0] == 'G'}
        gid = max(gids) + 1 if max(gids) < 127 else min(set(range(1, 128)) - set(gids))
        recs = [('G', gid, b'SRC', b'', 0)]
        for ty in 'BBCIF':
            r = filegen.rand_param_rec(rng, gid, name=b'Q' + ty.encode() + b'%d' % len(recs))
            recs.append(r[:5] + (ty,) + ((r[6], r[7]) if r[5] == ty else _retype(rng, ty, r[6])))
        cont['records'] = cont['records'] + recs
        name = 'pc%d.c3d' % i; open(os.path.join(shared, name), 'wb').write(c3dspec.encode(L, cont))
        lines = ['loadx 0 ' + name, 'snap 0']
        for r in recs[1:]:
            lines += ['P.get 0 %s %s' % (hx(b'SRC'), hx(r[2])), 'P.show']
            if rng.random() < 0.4: lines.append(rng.choice(['P.lock', 'P.unlock', 'P.desc ' + hx(b'copied')]))
            tgt = rng.choice([b'NEWG', b'SRC', b'POINT', b'FORCE_PLATFORM', b'EXTRA0'])
            if rng.random() < 0.3: lines.append('P.name ' + hx(rng.choice([b'ZERO', b'USED2', r[2], b'OTHER'])))
            lines += ['param 0 ' + hx(tgt), 'snap 0']; ncopy += 1
        cases.append(('pc%d' % i, lines)); kinds['copied-from-file'] = kinds.get('copied-from-file', 0) + len(recs) - 1
    (c, _), (m, _), nd = common.correspondence(rep, work, cases, select=sel, project=proj, label='parameter tree', shared=shared)
    stats = {}; bad = 0
    for cid, lines in cases:
        cl, cs = c.get(cid, ([], 'missing'))
        bad += oracle(rep, cid, lines, cl, stats)
    rep.coverage.update(dict(evaluations=sum(kinds.values()), distinct_nontrivial=len(set(l for _, ls in cases for l in ls if l.startswith(('P.set', 'param', 'lock', 'unlock')))),
        rule='random sequences of parameter construction (set with 0..7 dimensions, consistent / off-by-one / prefix-product / zero / 2^32-wrap shapes), add/replace on existing and new groups, lock/unlock, interleaved with declarations; after every call the parameter tree of the C++ is compared with the model and with the documented tree computed from the previous snapshot; distinct = distinct operation lines',
        samples=[cases[0][1][:12]] if cases else [], op_kinds=kinds, measured=stats, disagreements=nd, oracle_failures=bad))
