"""C06 — adding a frame appends, replaces or extends exactly as documented."""
from lib import harness, gen
from lib.harness import hx
from checks import common, apihist
from checks.apihist import Lit, parse_lit, rand_lit, conforming_history, trim
LEVEL = 'proof'

def sel(ln):
    return ln.split(' ', 1)[0] in ('frame', 'frameR', 'frameD', 'point', 'analog', 'pointcol', 'analogcol', 'snap')
def proj(l):
    return l if l[:2] in ('D ', 'F ', 'p ', 's ', 'c ', 'ok', 'th') else None

def store_spec(frames, f, idx):
    empty = (tuple(), tuple())
    if idx is None: return frames + [f]
    if idx < len(frames): return frames[:idx] + [f] + frames[idx + 1:]
    return frames + [empty] * (idx - len(frames)) + [f]

def lit_key(lit):
    st = lit.stored()
    return (tuple(st['pts']), tuple(tuple(sf) for sf in st['subs']))

def index_matrix(rng, tier):
    """every data-set size x every target {append, each index, count, count+k}"""
    cases = []
    sizes = [0, 1, 2, 3, 5, 8] if tier == 'quick' else list(range(0, 13)) + [20, 40]
    for n in sizes:
        for tgt in ['-'] + [str(i) for i in range(n)] + [str(n), str(n + 1), str(n + 4)]:
            b = apihist.Builder(rng, snap=False)
            names = apihist.uniq_names(rng, rng.choice([1, 2]))
            for nm in names: b.declare_point(nm); b.sh.pts.append(trim(nm))
            b.set_rate(b'POINT', 100.0)
            for _ in range(n): b.frame(rand_lit(rng, b.sh.pts, [], 0), '-')
            b.raw('snap 0')
            b.frame(rand_lit(rng, b.sh.pts, [], 0), tgt, 'frame@%s/%d' % (tgt, n))
            b.raw('snap 0')
            cases.append(('m%d_%s' % (n, tgt), b.lines, b.kinds))
    return cases

def reuse_cases(rng, tier):
    """one caller frame (a register) stored at several places — appended, put over existing frames, a stored frame handed back at
    another index — and a column added afterwards: every frame must gain exactly that one column"""
    cases = []
    for i in range(20 if tier == 'quick' else 1500):
        b = apihist.Builder(rng, snap=False)
        names = apihist.uniq_names(rng, rng.choice([1, 2]), pad=False); chans = apihist.uniq_names(rng, rng.choice([0, 1, 2]), b'c', pad=False)
        for nm in names: b.declare_point(nm); b.sh.pts.append(trim(nm))
        for c in chans: b.declare_analog(c); b.sh.chans.append(trim(c))
        b.set_rate(b'POINT', 100.0)
        nsub = 0
        if chans: nsub = rng.choice([1, 2]); b.set_rate(b'ANALOG', 100.0 * nsub)
        n = rng.choice([3, 4, 6])
        for _ in range(n): b.frame(rand_lit(rng, b.sh.pts, b.sh.chans, nsub), '-')
        b.raw('F.new 0'); b.raw('F.set 0 ' + rand_lit(rng, b.sh.pts, b.sh.chans, nsub).text())
        how = rng.choice(['replace-twice', 'replace-and-append', 'stored-frame-handed-back'])
        if how == 'replace-twice':
            i1, i2 = rng.sample(range(n), 2); b.emit('frameR 0 %d 0' % i1, 'frameR-replace'); b.emit('frameR 0 %d 0' % i2, 'frameR-replace')
        elif how == 'replace-and-append':
            b.emit('frameR 0 %d 0' % rng.randrange(n), 'frameR-replace'); b.emit('frameR 0 - 0', 'frameR-append')
        else:
            src, dst = rng.sample(range(n), 2); b.emit('frameD 0 %d %d' % (dst, src), 'frameD-replace')
        b.raw('snap 0')
        if chans and rng.random() < 0.5: b.emit('analog 0 ' + hx(apihist.uniq_names(rng, 1, b'nc', False)[0]), 'analog')
        else: b.emit('point 0 ' + hx(apihist.uniq_names(rng, 1, b'np', False)[0]), 'point')
        b.raw('snap 0')
        cases.append(('r%d' % i, b.lines, b.kinds))
    return cases

def run(rep, work, rng, tier):
    common.proof_part(rep, 'C06', trusted_extra=['Flocq binary32 only in Example C06_nonvacuous (standard-library real-number and classical axioms)'])
    cases = []; kinds = {}
    for cid, lines, ks in index_matrix(rng, tier):
        cases.append((cid, lines))
        for k in ks: kinds[k.split('@')[0]] = kinds.get(k.split('@')[0], 0) + 1
    for cid, lines, ks in reuse_cases(rng, tier):
        cases.append((cid, lines))
        for k in ks: kinds[k] = kinds.get(k, 0) + 1
    # channel columns where the header cannot know the number of frames: sub-frames that hold no channel yet on an object without
    # points (the header then reports 0 frames), and POINT:FRAMES set by hand to another number before the column is added —
    # the column goes to every STORED frame
    for i in range(10 if tier == 'quick' else 600):
        nsub = rng.choice([1, 2, 3]); nf = rng.choice([1, 2, 4])
        lines = ['new 0', 'snap 0', 'P.new x52415445 x', 'P.set F 0 1 42c80000', 'param 0 x504f494e54', 'P.new x52415445 x', 'P.set F 0 1 %s' % harness.fhex(harness.f2bits(100.0 * nsub)), 'param 0 x414e414c4f47', 'snap 0']
        names = []
        if i % 2 == 0:
            lits = [rand_lit(rng, [], [], 0) for _ in range(nf)]
            for l in lits: l.subs = [[] for _ in range(nsub)]
            for l in lits: lines += ['frame 0 - ' + l.text(), 'snap 0']
            kind = 'channel-column-on-sub-frames-without-channels'
        else:
            names = [b'q0']; chans = [b'c0']
            lines = ['new 0', 'point 0 ' + hx(b'q0'), 'analog 0 ' + hx(b'c0')] + lines[2:]
            for _k in range(nf): lines += ['frame 0 - ' + rand_lit(rng, names, chans, nsub).text(), 'snap 0']
            lines += ['P.new %s x' % hx(b'FRAMES'), 'P.set I 0 1 %d' % rng.choice([max(0, nf - 1), nf + 2, 0]), 'param 0 x504f494e54', 'snap 0']
            kind = 'channel-column-after-POINT:FRAMES-set-by-hand'
        cl = [rand_lit(rng, [], [b'newc'], nsub) for _ in range(nf)]
        lines += ['analogcol 0 %d %s' % (nf, ' '.join(l.text() for l in cl)), 'snap 0']
        if i % 2 == 0: lines += ['analog 0 ' + hx(b'newd'), 'snap 0']
        cases.append(('fc%d' % i, lines)); kinds[kind] = kinds.get(kind, 0) + 1
    n = 150 if tier == 'quick' else 16000
    for i in range(n):
        b = conforming_history(rng, max_frames=rng.choice([4, 8, 12]))
        cases.append(('h%d' % i, b.lines))
        for k in b.kinds: kinds[k] = kinds.get(k, 0) + 1
    (c, _), (m, _), nd = common.correspondence(rep, work, cases, select=sel, project=proj, label='frame store')
    bad = 0; checked = {}; accepted = 0
    for cid, lines in cases:
        cl, cs = c.get(cid, ([], 'missing'))
        for r in apihist.op_records(lines, cl):
            if r.before is None or r.after is None or not r.out: continue
            t = r.line.split(); cmd = t[0]
            if r.out[0] != 'ok': continue
            before = apihist.frames_key(r.before); after = apihist.frames_key(r.after)
            exp = None
            if cmd == 'frame':
                idx = None if t[2] == '-' else int(t[2]); lit, _ = parse_lit(t, 3)
                exp = store_spec(before, lit_key(lit), idx)
                what = 'frame(%s) on %d frames' % (t[2], len(before))
            elif cmd == 'point':
                z = '00000000'; nm = trim(harness.unhx(t[2]))
                if not before: continue
                exp = [(f[0] + ((nm, z, z, z, z),), f[1]) for f in before]; what = 'point(name) on %d frames' % len(before)
            elif cmd == 'analog':
                nm = trim(harness.unhx(t[2]))
                if not before: continue
                exp = [(f[0], tuple(sf + ((nm, '00000000'),) for sf in f[1])) for f in before]; what = 'analog(name)'
            elif cmd == 'pointcol':
                n = int(t[2]); i = 3; lits = []
                for _ in range(n): l, i = parse_lit(t, i); lits.append(l)
                k = len(lits[0].pts)
                exp = [(f[0] + tuple(lit_key(l)[0][:k]), f[1]) for f, l in zip(before, lits)]; what = 'point(frames) with %d columns' % k
            elif cmd == 'analogcol':
                n = int(t[2]); i = 3; lits = []
                for _ in range(n): l, i = parse_lit(t, i); lits.append(l)
                k = len(lits[0].subs[0])
                exp = [(f[0], tuple(sf + tuple(nsf[:k]) for sf, nsf in zip(f[1], lit_key(l)[1]))) for f, l in zip(before, lits)]; what = 'analog(frames) with %d columns' % k
            if exp is None: continue
            accepted += 1; checked[cmd] = checked.get(cmd, 0) + 1
            if after != exp:
                bad += 1
                if bad <= 3:
                    j = next((q for q in range(max(len(after), len(exp))) if q >= len(after) or q >= len(exp) or after[q] != exp[q]), -1)
                    rep.violation('oracle', '%s: stored frames are not the documented result (first differing frame %d; %d frames stored, %d expected)' % (what, j, len(after), len(exp)),
                                  script=lines[:lines.index(r.line) + 2] if r.line in lines else lines, signature='store:' + cmd)
    rep.coverage.update(dict(evaluations=sum(kinds.values()), distinct_nontrivial=len(set(l for _, ls in cases for l in ls if sel(l) and not l.startswith('snap'))),
        rule='index matrix (data-set sizes x targets {append, every index, count, count+1, count+4}) plus conforming histories with replacements, extensions and point/channel columns; all frames snapshotted before and after each call; oracle = list-level store_spec / column spec on the C++ snapshots; distinct = distinct frame/column operation lines',
        samples=[cases[-1][1][:10]], op_kinds=kinds, accepted_calls_checked=checked, disagreements=nd, oracle_failures=bad))
