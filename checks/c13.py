"""C13 — no memory error on any valid use."""
import os
from lib import harness, gen, c3dspec, filegen
from checks import common, apihist, c10
LEVEL = 'proof'

def run(rep, work, rng, tier):
    common.proof_part(rep, 'C13')
    shared = work.sub('shared')
    n = 150 if tier == 'quick' else 12000
    cases = []; kinds = {}
    def add(kind, cid, lines):
        cases.append((cid, lines)); kinds[kind] = kinds.get(kind, 0) + 1
    for i in range(n):
        r = rng.random()
        if r < 0.3:
            h = gen.history(rng, snap_every=False); lines = h.lines + ['print 0', 'save 0 a%d.c3d' % i, 'load 1 a%d.c3d' % i, 'snap 1', 'print 1', 'drop 1', 'drop 0']
            add('random-history+save+load+print+destroy', 'h%d' % i, lines)
        elif r < 0.6:
            b = apihist.conforming_history(rng, snap=False); lines = b.lines + ['print 0', 'save 0 b%d.c3d' % i, 'load 1 b%d.c3d' % i, 'snap 1', 'drop 0']
            for kind, calls in c10.refusing_calls(rng, b.sh)[:rng.choice([3, 8])]: lines += calls
            lines += ['snap 1']
            if b.sh.nframes:
                # a stored frame handed back to the object (append, extend, replace): the argument aliases the frame vector
                lines += ['frameD 1 - 0', 'frameD 1 %d %d' % (b.sh.nframes + 70, b.sh.nframes - 1), 'frameD 1 0 %d' % (b.sh.nframes - 1), 'snap 1']
            add('conforming-history+refused-calls', 'c%d' % i, lines)
        else:
            L = filegen.make_layout(rng); c = filegen.make_content(rng)
            name = 'f%d.c3d' % i; open(os.path.join(shared, name), 'wb').write(c3dspec.encode(L, c))
            lines = ['loadx 0 ' + name, 'snap 0', 'print 0', 'save 0 g%d.c3d' % i, 'load 1 g%d.c3d' % i, 'snap 1', 'point 1 x6e6577', 'snap 1', 'drop 1']
            add('well-formed-file+edit', 'f%d' % i, lines)
    # an element handed back to its own container (points, channels, sub-frames), at every size around the growth steps of the
    # vectors (1, 2, 4, 8, 16: full capacity when appended one by one; any size when sized or copied)
    for k in ([1, 2, 3, 4, 5, 8, 16, 17] if tier == 'quick' else list(range(1, 70))):
        for how in ('plain', 'sized', 'copied'):
            add('element-appended-to-its-own-container', 'self%d%s' % (k, how), ['mk.self %d %d %s' % (k, j, how) for j in sorted(set([0, k // 2, k - 1]))])
        # ... and stored AT AN INDEX of its own container: inside (replacement), at the size, beyond it (the vector grows first)
        add('element-stored-at-an-index-of-its-own-container', 'selfat%d' % k,
            ['mk.selfat %d %d %d' % (k, j, at) for j in sorted(set([0, k - 1])) for at in sorted(set([0, k - 1, k, k + 1, k + 9, 4 * k + 3]))])
    # the per-point / per-channel lists (LABELS, DESCRIPTIONS, UNITS, SCALE, OFFSET) set by the caller to a length other than the
    # count, then a point or a channel is added: the updater rebuilds every list from the stored one
    from lib.harness import hx
    for i in range(24 if tier == 'quick' else 1200):
        lines = ['new 0']
        npts = rng.choice([0, 1, 2]); nch = rng.choice([0, 1, 2])
        for k in range(npts): lines.append('point 0 ' + hx(b'p%d' % k))
        for k in range(nch): lines.append('analog 0 ' + hx(b'c%d' % k))
        for _ in range(rng.choice([1, 2, 3])):
            grp, nm, ty = rng.choice([(b'ANALOG', b'SCALE', 'F'), (b'ANALOG', b'OFFSET', 'I'), (b'ANALOG', b'UNITS', 'S'), (b'ANALOG', b'LABELS', 'S'), (b'ANALOG', b'DESCRIPTIONS', 'S'),
                                      (b'POINT', b'LABELS', 'S'), (b'POINT', b'DESCRIPTIONS', 'S'), (b'POINT', b'UNITS', 'S')])
            k = rng.choice([0, 1, 3, 4, 7])
            if ty == 'F': setl = ('P.set F 0 %d %s' % (k, ' '.join(['3f800000'] * k))).rstrip()
            elif ty == 'I': setl = ('P.set I 0 %d %s' % (k, ' '.join(['5'] * k))).rstrip()
            else: setl = ('P.set S 0 %d %s' % (k, ' '.join(hx(b'u%d' % j) for j in range(k)))).rstrip()
            lines += ['P.new %s x' % hx(nm), setl, 'param 0 ' + hx(grp)]
        lines += ['analog 0 ' + hx(b'Fx'), 'snap 0', 'point 0 ' + hx(b'Mk'), 'snap 0', 'analog 0 ' + hx(b'Fy'), 'snap 0', 'print 0', 'drop 0']
        add('label-like lists of another length, then a column is declared', 'lst%d' % i, lines)
    # a caller-side parameter whose set() was REFUSED (dimensions that do not match the values), then stored and saved: whatever the
    # refused call left behind, the writer must stay inside the value vectors
    for i in range(16 if tier == 'quick' else 800):
        ty = rng.choice('IFS'); k = rng.choice([1, 2, 3])
        okv = {'I': ' '.join(['7'] * k), 'F': ' '.join(['3f800000'] * k), 'S': ' '.join(hx(b'v%d' % j) for j in range(k))}[ty]
        d1, d2 = rng.choice([(2, 3), (3, 3), (4, 2), (2, 2), (255, 2)]); nv = rng.choice([k, d1 * d2 - 1, 1])
        badv = {'I': ' '.join(['9'] * nv), 'F': ' '.join(['40000000'] * nv), 'S': ' '.join(hx(b'w%d' % j) for j in range(nv))}[ty]
        lines = ['new 0', 'P.new %s x' % hx(b'REF'), 'P.set %s 0 %d %s' % (ty, k, okv), 'P.set %s 2 %d %d %d %s' % (ty, d1, d2, nv, badv), 'P.show',
                 'param 0 ' + hx(rng.choice([b'EXTRA', b'POINT'])), 'snap 0', 'save 0 ref%d.c3d' % i, 'load 1 ref%d.c3d' % i, 'snap 1', 'print 0', 'drop 0', 'drop 1']
        add('refused set, then stored and saved', 'ref%d' % i, lines)
    (cres, cown, cerr), (mres, mown, merr) = harness.run_both(cases, work, shared=shared, flavor='asan',
        cxx_env={'ASAN_OPTIONS': 'detect_leaks=1:abort_on_error=1:new_delete_type_mismatch=1:alloc_dealloc_mismatch=1'})
    bad = 0; nd = 0; skipped_ub = 0; clean = 0
    reports = [l for l in cerr.split('\n') if 'ERROR: AddressSanitizer' in l or 'ERROR: LeakSanitizer' in l or 'runtime error' in l or 'Assertion' in l]
    for cid, lines in cases:
        cl, cs = cres.get(cid, ([], 'missing')); ml, ms = mres.get(cid, ([], 'missing'))
        if ms.startswith('ub:'):
            skipped_ub += 1; continue        # the model says this history leaves the documented preconditions
        if cs != 'exit:0':
            bad += 1
            if bad <= 4:
                rep.violation('oracle', 'a valid history ended with %s under AddressSanitizer/bounds/_GLIBCXX_ASSERTIONS (%s)' % (cs, '; '.join(reports[:2])[:300]),
                              script=lines, signature='memory-error')
            continue
        clean += 1
        d = harness.compare_case(cl, cs, ml, ms)
        if d is not None:
            nd += 1
            if nd <= 2:
                rep.violation('correspondence', 'model and sanitizer build differ', script=lines, found_input=False,
                              theorem='correspondence of the model with /repo (sanitizer build)', extra=dict(first_difference=d))
    if reports and not bad:
        rep.violation('oracle', 'sanitizer reports without a failing case: %s' % reports[:3], found_input=False, theorem='sanitizer log')
    rep.coverage.update(dict(evaluations=len(cases), distinct_nontrivial=clean,
        rule='API histories (random and conforming, with refused calls), well-formed files loaded, printed, edited, saved, reloaded, and every object destroyed, on the real library built with -fsanitize=address,bounds -D_GLIBCXX_ASSERTIONS and LeakSanitizer; every case in its own process; non-trivial = ran to completion and compared with the model',
        samples=[cases[0][1][-6:]], history_kinds=kinds, outside_preconditions_per_model=skipped_ub, sanitizer_reports=len(reports), disagreements=nd, oracle_failures=bad))
