"""C19 — results do not depend on optimisation level or library kind."""
import os, shutil, tempfile
from concurrent.futures import ThreadPoolExecutor
from lib import harness, gen, c3dspec, filegen, build
from checks import common, c01
LEVEL = 'proof'

def corpus(rng, tier, shared):
    cases = []; kinds = {}
    n = 60 if tier == 'quick' else 4000
    for i in range(n):
        cid, lines, ks = c01.build_case(rng, i)
        cases.append(('h%d' % i, lines)); kinds['api-history+save+load'] = kinds.get('api-history+save+load', 0) + 1
    # names whose last character is a control white-space (tab, CR, LF, VT, FF): what is trimmed must not depend on the build
    from checks import apihist
    from lib.harness import hx
    for i in range(max(6, n // 10)):
        tails = [b'\t', b'\r', b'\n', b'\x0b', b'\x0c', b'\t ', b' \t', b'']
        pts = [b'P%d' % k + rng.choice(tails) for k in range(rng.choice([1, 2, 3]))]
        chs = [b'C%d' % k + rng.choice(tails) for k in range(rng.choice([0, 1, 2]))]
        lines = ['new 0'] + ['point 0 ' + hx(x) for x in pts] + ['analog 0 ' + hx(x) for x in chs]
        lines += ['P.new x52415445 x', 'P.set F 0 1 42c80000', 'param 0 x504f494e54']
        if chs: lines += ['P.new x52415445 x', 'P.set F 0 1 43480000', 'param 0 x414e414c4f47']
        lines += ['snap 0']
        for _ in range(2): lines += ['frame 0 - ' + apihist.rand_lit(rng, pts, chs, 2 if chs else 0).text(), 'snap 0']
        for x in pts + chs:
            lines += ['mk.point ctor %s %s' % (hx(x), hx(x.rstrip(b' '))), 'mk.point setter %s %s' % (hx(x), hx(x.rstrip())),
                      'mk.chan ctor %s %s' % (hx(x), hx(x.rstrip(b' '))), 'mk.chan setter %s %s' % (hx(x), hx(x.rstrip()))]
        lines += ['save 0 nt%d.c3d' % i, 'load 1 nt%d.c3d' % i, 'snap 1', 'frame 1 - ' + apihist.rand_lit(rng, pts, chs, 2 if chs else 0).text(), 'snap 1']
        cases.append(('nt%d' % i, lines)); kinds['names-with-control-whitespace-tails'] = kinds.get('names-with-control-whitespace-tails', 0) + 1
    for i in range(n):
        L = filegen.make_layout(rng); c = filegen.make_content(rng)
        # integer-format files (header scale factor >= 0): a documented refusal as soon as there is a frame; every build must refuse alike
        intfmt = rng.random() < 0.2
        if intfmt: c['scale_bits'] = rng.choice([0x3f800000, 0x00000000, 0x3c23d70a, 0x42c80000])
        buf = bytearray(c3dspec.encode(L, c))
        flagged = (not intfmt) and rng.random() < 0.3
        if flagged:
            # inputs on which the byte assembly leaves what C++ defines: non-zero bytes in the reserved header blocks
            z = L['zeros']
            for _ in range(rng.choice([1, 3])):
                o = rng.choice(list(range(24, 294)) + list(range(468, 512))); buf[z + o] = rng.choice([1, 2, 0x7f, 0x80, 0xff])
        name = 'f%d.c3d' % i; open(os.path.join(shared, name), 'wb').write(bytes(buf))
        cid = ('x%d' if flagged else 'f%d') % i
        cases.append((cid, ['loadx 0 ' + name, 'snap 0', 'save 0 %s_o.c3d' % cid, 'fsum %s_o.c3d' % cid]))
        k = 'file-with-reserved-bytes (outside the defined domain)' if flagged else ('integer-format-file (refused when it holds frames)' if intfmt else 'well-formed-file')
        kinds[k] = kinds.get(k, 0) + 1
    return cases, kinds

def run(rep, work, rng, tier):
    common.proof_part(rep, 'C19')
    shared = work.sub('shared')
    cases, kinds = corpus(rng, tier, shared)
    scratch = tempfile.mkdtemp(prefix='ezc3d-c19-', dir='/tmp')     # scratch build trees outside /repo and /verif, removed below
    try:
        with ThreadPoolExecutor(6) as ex:
            builds = list(ex.map(lambda cfg: build.build_cmake_driver(cfg[0], cfg[1], scratch), build.CMAKE_CONFIGS))
        mdl = build.build_model()
        outs = {}
        for tag, exe, env in builds:
            outs[tag], _, _ = harness.run_side(exe, cases, work, 'cxx-' + tag, shared, (), env, 8)
        mres, _, _ = harness.run_side(mdl, cases, work, 'mdl', shared, (), None, 16)
    finally:
        shutil.rmtree(scratch, ignore_errors=True)
    tags = [b[0] for b in builds]
    bad = 0; nd = 0; agree = 0
    for cid, lines in cases:
        ref_l, ref_s = outs[tags[0]].get(cid, ([], 'missing'))
        differing = [t for t in tags[1:] if outs[t].get(cid, ([], 'missing')) != (ref_l, ref_s)]
        if differing:
            bad += 1
            if bad <= 4:
                t = differing[0]; ol, os_ = outs[t].get(cid, ([], 'missing'))
                j = next((k for k in range(max(len(ol), len(ref_l))) if k >= len(ol) or k >= len(ref_l) or ol[k] != ref_l[k]), -1)
                rep.violation('oracle', 'builds %s and %s give different results (first differing output line %d: %r vs %r)' % (tags[0], t, j, (ref_l[j] if 0 <= j < len(ref_l) else ref_s)[:120], (ol[j] if 0 <= j < len(ol) else os_)[:120]),
                              script=lines, signature='build-dependent', extra=dict(file=lines[0]))
            continue
        agree += 1
        ml, ms = mres.get(cid, ([], 'missing'))
        d = harness.compare_case(ref_l, ref_s, ml, ms)
        if d is not None:
            nd += 1
            if nd <= 3:
                rep.violation('correspondence', 'model and implementation (all six builds agree) differ', script=lines, found_input=False,
                              theorem='correspondence of the model with /repo (CMake builds)', extra=dict(first_difference=d))
    rep.coverage.update(dict(evaluations=len(cases) * len(tags), distinct_nontrivial=agree,
        rule='the library configured and built by its own CMakeLists.txt as {Debug (-O0), RelWithDebInfo (-O2), Release (-O3)} x {static, shared}; the same driver linked against each runs API histories with save and reload and well-formed files (30% of them with non-zero bytes in the reserved header blocks, where the byte assembly leaves the domain the C++ standard defines); outputs (values, exception classes, digests of saved files) must be identical across the six builds and equal to the model; non-trivial = cases on which all builds agreed and the model was compared',
        samples=[cases[0][1][-4:]], builds=tags, corpus_kinds=kinds, disagreements=nd, oracle_failures=bad))
