"""C12 — every integer and float bit pattern is decoded and encoded exactly."""
from lib import harness
from checks import common
LEVEL = 'proof'

def run(rep, work, rng, tier):
    common.proof_part(rep, 'C12')
    cases = [('sweep1', ['h2sweep 1']), ('sweep2', ['h2sweep 2'])]
    # boundary-dense 4-byte and long assemblies (the header's 4-, 44- and 270-byte reads)
    pats = []
    for n in (3, 4):
        for b in (0, 1, 0x7f, 0x80, 0xff):
            for pos in range(n):
                bs = [0] * n; bs[pos] = b; pats.append(bytes(bs))
            pats.append(bytes([b] * n))
    for _ in range(200 if tier == 'quick' else 5000):
        n = rng.choice([1, 2, 3, 4])
        pats.append(bytes(rng.randrange(256) for _ in range(n)))
    lines = []
    for p in pats:
        lines.append('h2u ' + harness.hx(p)); lines.append('h2i ' + harness.hx(p))
    cases.append(('pats', lines))
    (c, _), (m, _), nd = common.correspondence(rep, work, cases, label='hex2uint/hex2int')
    # direct oracle on the C++ output: the sweep tables are the little-endian values
    bad = 0
    for cid, w in (('sweep1', 1), ('sweep2', 2)):
        cl, st = c.get(cid, ([], 'missing'))
        if len(cl) != 2: bad += 1; rep.violation('oracle', 'sweep output missing (%s)' % st, script=['h2sweep %d' % w]); continue
        u = [int(x) for x in cl[0].split(' ')[2:]]; s = [int(x) for x in cl[1].split(' ')[2:]]
        lim = 256 ** w
        for v in range(lim):
            sv = v - lim if v >= lim // 2 else v
            if u[v] != v or s[v] != sv:
                bad += 1
                rep.violation('oracle', 'bytes %s decode to unsigned %d / signed %d' % (v.to_bytes(w, 'little').hex(), u[v], s[v]),
                              script=['h2u ' + harness.hx(v.to_bytes(w, 'little')), 'h2i ' + harness.hx(v.to_bytes(w, 'little'))])
                break
    rep.coverage.update(dict(evaluations=256 + 65536 + len(pats), distinct_nontrivial=256 + 65536 + len(set(pats)),
        exhaustive=True, rule='all 2^8 one-byte and all 2^16 two-byte patterns through hex2uint and hex2int of the real library (probe subclass), plus boundary and random 3/4-byte patterns; distinct = distinct byte strings',
        samples=['h2u x0080 -> %s' % (c['pats'][0][0] if c.get('pats') and c['pats'][0] else '?')],
        disagreements=nd, oracle_failures=bad))
