"""C12 — every integer and float bit pattern is decoded and encoded exactly."""
import os
from lib import harness, c3dspec, filegen
from checks import common
LEVEL = 'proof'

def float_patterns(rng):
    """every exponent x sign with several mantissas, NaN payloads (quiet and signalling), denormals, zeros, infinities"""
    out = []
    for sign in (0, 1):
        for e in range(256):
            for m in (0, 1, 0x400000, 0x3fffff, 0x7fffff, rng.getrandbits(23)):
                out.append('%08x' % ((sign << 31) | (e << 23) | m))
    return out

def pattern_file(rng, part=0):
    """one well-formed file holding all 2^8 byte values, all 2^16 integer values (three INT parameters: a record is
    limited to 65535 bytes) and the float patterns in parameters, points, residuals, analog samples, rate and event times"""
    fl = float_patterns(rng)
    c = filegen.make_content(rng, dict(npoints=4, nchan=3, nsub=2, nframes=0, dense_ids=True, order='canonical', nlabels=4, nalabels=3, first=1))
    k = 0; frames = []
    while k + 4 * 4 + 3 * 2 <= len(fl):
        pts = [tuple(fl[k + 4 * i:k + 4 * i + 4]) for i in range(4)]; k += 16
        an = [fl[k + 3 * s_:k + 3 * s_ + 3] for s_ in range(2)]; k += 6
        frames.append((pts, an))
    c['frames'] = frames
    recs = []
    for r in c['records']:
        if r[0] == 'P' and r[2] == b'FRAMES': r = r[:7] + ([len(frames)],)
        recs.append(r)
    ints = [v - 65536 if v >= 32768 else v for v in range(65536)]
    recs += [('G', 20, b'PATTERNS', b'', 0)]
    if part == 0:
        recs += [('P', 20, b'BYTES', b'', 0, 'B', [255], [v - 256 if v >= 128 else v for v in range(255)]), ('P', 20, b'BYTE255', b'', 0, 'B', [], [-1]),
                 ('P', 20, b'INTS_A', b'', 0, 'I', [150, 145], ints[:21750]), ('P', 20, b'INTS_B', b'', 0, 'I', [150, 145], ints[21750:43500]),
                 ('P', 20, b'FLOATS', b'', 0, 'F', [255, 12], fl[:3060])]
    else:
        recs += [('P', 20, b'INTS_C', b'', 0, 'I', [254, 86], ints[43500:43500 + 21844]), ('P', 20, b'INTS_D', b'', 0, 'I', [192], ints[65344:])]
    c['records'] = recs
    c['nev'] = 18; c['evtime'] = fl[100:118]
    return c

def run(rep, work, rng, tier):
    common.proof_part(rep, 'C12')
    # ---- files: every pattern through load and save ----
    shared = work.sub('shared')
    L = dict(zeros=0, paddr=2, prologue_zeroed=False, end_by_zero_offset=False, strpad=b' ', extra_pad_blocks=0)
    contents = {}
    fcases = []
    for part in (0, 1):
        c = pattern_file(rng, part); contents['patterns%d' % part] = c
        open(os.path.join(shared, 'patterns%d.c3d' % part), 'wb').write(c3dspec.encode(L, c))
        fcases.append(('patterns%d' % part, ['loadx 0 patterns%d.c3d' % part, 'snap 0', 'save 0 p%d_2.c3d' % part, 'fsum p%d_2.c3d' % part, 'load 1 p%d_2.c3d' % part, 'snap 1', 'save 1 p%d_3.c3d' % part, 'fsum p%d_3.c3d' % part]))
    # header words boundary-dense over their ranges
    for i, (first, gap) in enumerate([(1, 0), (2, 1), (32767, 32767), (32768, 32768), (65535, 65535), (255, 256), (256, 255)]):
        cc = filegen.make_content(rng, dict(first=first, nframes=1, npoints=1, nchan=0, dense_ids=True)); cc['gap'] = gap
        open(os.path.join(shared, 'hw%d.c3d' % i), 'wb').write(c3dspec.encode(L, cc))
        fcases.append(('hw%d' % i, ['loadx 0 hw%d.c3d' % i, 'snap 0', 'save 0 hw%d_2.c3d' % i, 'fsum hw%d_2.c3d' % i, 'load 1 hw%d_2.c3d' % i, 'snap 1']))
    # patterns in the parameters that carry a MEANING for other programs (POINT:SCALE of either sign, denormal, infinite, NaN;
    # ANALOG:OFFSET with the top bit set under ANALOG:FORMAT SIGNED / UNSIGNED / absent; GEN_SCALE): for this library they are
    # numbers like any other — decoded as the bytes spell, re-encoded to the same bytes
    k = 0
    for ps in ('bf800000', '3f800000', '3c23d70a', 'bc23d70a', '00000001', '80000001', '7f800000', 'ff800000', '7fc00000', 'ffc00001', '00000000', '80000000'):
        for fm in (None, b'SIGNED', b'UNSIGNED'):
            if tier == 'quick' and k % 2 == 1 and fm is None: k += 1; continue
            cc = filegen.make_content(rng, dict(npoints=2, nchan=4, nsub=2, nframes=1, dense_ids=True, nlabels=2, nalabels=4, first=1, point_scale=ps, analog_format=fm, empty_analog=False))
            offs = [-32768, -1, 32767, rng.choice([-2, -2048, -32767, 1])]
            cc['records'] = [(r[:7] + (offs,)) if (r[0] == 'P' and r[2] == b'OFFSET') else r for r in cc['records']]
            contents['np%d' % k] = cc
            open(os.path.join(shared, 'np%d.c3d' % k), 'wb').write(c3dspec.encode(L, cc))
            fcases.append(('np%d' % k, ['loadx 0 np%d.c3d' % k, 'snap 0', 'save 0 np%d_2.c3d' % k, 'fsum np%d_2.c3d' % k, 'load 1 np%d_2.c3d' % k, 'snap 1', 'save 1 np%d_3.c3d' % k, 'fsum np%d_3.c3d' % k]))
            k += 1
    (fc, fcown), (fm, _), fnd = common.correspondence(rep, work, fcases, label='every pattern through load, save, reload', shared=shared)
    fbad = 0
    for cid, lines in fcases:
        cl, cs = fc.get(cid, ([], 'missing')); ops = harness.split_ops(lines, cl)
        snaps = [out for ln, out in ops if ln.startswith('snap') and out and out[0].startswith('H ')]
        if len(snaps) < 2:
            fbad += 1; rep.violation('oracle', 'the pattern file was not loaded / reloaded (%s)' % cs, script=lines, signature='pattern-file'); continue
        s0 = harness.Snap(snaps[0]); s1 = harness.Snap(snaps[1])
        if cid.startswith('patterns') or cid.startswith('np'):
            d = filegen.diff_dump(s0, filegen.expected_dump(L, contents[cid]))
            if d:
                fbad += 1; rep.violation('oracle', 'a pattern is not decoded as the bytes spell: %s' % d[0][:300], script=lines, signature='pattern-decode')
        from checks import c04
        d2 = c04.diff_named(c04.named(s0), c04.named(s1))
        if d2:
            fbad += 1; rep.violation('oracle', 'a pattern changed between load and save: %s' % d2[0][:300], script=lines, signature='pattern-reencode')
        sums = [out[0] for ln, out in ops if ln.startswith('fsum') and out]
        if (cid.startswith('patterns') or cid.startswith('np')) and len(sums) == 2 and sums[0] != sums[1]:
            fbad += 1; rep.violation('oracle', 'saving the reloaded pattern file again is not byte-identical', script=lines, signature='pattern-bytes')
    rep.coverage['file_patterns'] = dict(bytes=256, ints=65536, floats=len(float_patterns(rng)), header_word_cases=7, named_parameter_files=k, oracle_failures=fbad, disagreements=fnd)
    cases = [('sweep1', ['h2sweep 1']), ('sweep2', ['h2sweep 2'])]
    # boundary-dense 4-byte and long assemblies (the header's 4-, 44- and 270-byte reads)
    pats = []
    for n in (3, 4):
        for b in (0, 1, 0x7f, 0x80, 0xff):
            for pos in range(n):
                bs = [0] * n; bs[pos] = b; pats.append(bytes(bs))
            pats.append(bytes([b] * n))
    for _ in range(200 if tier == 'quick' else 5000):
        n = rng.choice([1, 2, 3, 4])
        pats.append(bytes(rng.randrange(256) for _ in range(n)))
    lines = []
    for p in pats:
        lines.append('h2u ' + harness.hx(p)); lines.append('h2i ' + harness.hx(p))
    cases.append(('pats', lines))
    (c, _), (m, _), nd = common.correspondence(rep, work, cases, label='hex2uint/hex2int')
    # direct oracle on the C++ output: the sweep tables are the little-endian values
    bad = 0
    for cid, w in (('sweep1', 1), ('sweep2', 2)):
        cl, st = c.get(cid, ([], 'missing'))
        if len(cl) != 2: bad += 1; rep.violation('oracle', 'sweep output missing (%s)' % st, script=['h2sweep %d' % w]); continue
        u = [int(x) for x in cl[0].split(' ')[2:]]; s = [int(x) for x in cl[1].split(' ')[2:]]
        lim = 256 ** w
        for v in range(lim):
            sv = v - lim if v >= lim // 2 else v
            if u[v] != v or s[v] != sv:
                bad += 1
                rep.violation('oracle', 'bytes %s decode to unsigned %d / signed %d' % (v.to_bytes(w, 'little').hex(), u[v], s[v]),
                              script=['h2u ' + harness.hx(v.to_bytes(w, 'little')), 'h2i ' + harness.hx(v.to_bytes(w, 'little'))])
                break
    rep.coverage.update(dict(evaluations=256 + 65536 + len(pats), distinct_nontrivial=256 + 65536 + len(set(pats)),
        exhaustive=True, rule='all 2^8 one-byte and all 2^16 two-byte patterns through hex2uint and hex2int of the real library (probe subclass), plus boundary and random 3/4-byte patterns; distinct = distinct byte strings',
        samples=['h2u x0080 -> %s' % (c['pats'][0][0] if c.get('pats') and c['pats'][0] else '?')],
        disagreements=nd, oracle_failures=bad))
