"""Pieces shared by the per-property checks."""
import os, json, time
from lib import harness, proofs, build

def proof_part(rep, prop, trusted_extra=()):
    """Re-check the property's theorems; a failure is a violation without a failing input."""
    pr = proofs.check_property(prop)
    rep.coverage['obligations'] = pr['obligations']
    rep.coverage['discharged'] = pr['discharged']
    rep.coverage['checker_cmd'] = pr['checker_cmd'] or ('coqc -Q . EZ Properties_%s.v' % prop)
    rep.coverage['theorems'] = pr['theorems']
    rep.coverage['assumptions_per_theorem'] = pr.get('assumptions', {})
    rep.coverage['trusted_base'] = [
        'Coq 8.16.1 kernel incl. vm_compute (no native_compute)',
        'hand-written Gallina model coq/*.v tied to /repo by the correspondence run below',
        'extraction with ExtrOcamlBasic only (bool, option, unit, list, prod, sumbool); OCaml 4.13.1; zarith for printing',
        'harness/driver.cpp (dump through public accessors), harness/model_main.ml (glue), lib/*.py (generator, comparator)',
        'g++ 12 / libstdc++ as the implementation under test',
    ] + list(trusted_extra)
    if not pr['ok']:
        rep.violation('proof', 'Properties_%s.v does not check: %s' % (prop, pr['log'][-1500:]),
                      theorem='Properties_%s.v' % prop, found_input=False)
    return pr['ok']

def correspondence(rep, work, cases, project=None, flavor='plain', label='correspondence', shared=None,
                   max_report=3, cxx_extra=(), sig=None):
    """Run every case on both sides; report the first differing line per disagreeing case.
    project(line)->line|None narrows the comparison to the property's projection.
    Returns (cxx_results, model_results, n_disagreements)."""
    (c, cown, cerr), (m, mown, merr) = harness.run_both(cases, work, shared=shared, flavor=flavor, cxx_extra=cxx_extra)
    scripts = dict(cases)
    nd = 0
    for cid, lines in cases:
        cl, cs = c.get(cid, ([], 'missing'))
        ml, ms = m.get(cid, ([], 'missing'))
        if project:
            cl2 = [x for x in (project(l) for l in cl) if x is not None]
            ml2 = [x for x in (project(l) for l in ml) if x is not None]
        else:
            cl2, ml2 = cl, ml
        d = harness.compare_case(cl2, cs, ml2, ms)
        if d is not None:
            nd += 1
            if nd <= max_report:
                rep.violation(label, 'model and implementation differ at output line %d' % d['line'],
                              script=lines, theorem='correspondence of the model with /repo (%s)' % label,
                              found_input=False, signature=sig,
                              extra=dict(first_difference=d, case=cid))
    return (c, cown), (m, mown), nd
