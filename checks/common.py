"""Pieces shared by the per-property checks."""
import os, json, time
from lib import harness, proofs, build

def proof_part(rep, prop, trusted_extra=()):
    """Re-check the property's theorems; a failure is a violation without a failing input."""
    pr = proofs.check_property(prop)
    rep.coverage['obligations'] = pr['obligations']
    rep.coverage['discharged'] = pr['discharged']
    rep.coverage['checker_cmd'] = pr['checker_cmd'] or ('coqc -Q . EZ Properties_%s.v' % prop)
    rep.coverage['theorems'] = pr['theorems']
    rep.coverage['assumptions_per_theorem'] = pr.get('assumptions', {})
    rep.coverage['trusted_base'] = [
        'Coq 8.16.1 kernel incl. vm_compute (no native_compute)',
        'hand-written Gallina model coq/*.v tied to /repo by the correspondence run below',
        'extraction with ExtrOcamlBasic only (bool, option, unit, list, prod, sumbool); OCaml 4.13.1; zarith for printing',
        'harness/driver.cpp (dump through public accessors), harness/model_main.ml (glue), lib/*.py (generator, comparator)',
        'g++ 12 / libstdc++ as the implementation under test',
    ] + list(trusted_extra)
    if not pr['ok']:
        rep.violation('proof', 'Properties_%s.v does not check: %s' % (prop, pr['log'][-1500:]),
                      theorem='Properties_%s.v' % prop, found_input=False)
    return pr['ok']

def correspondence(rep, work, cases, select=None, project=None, flavor='plain', label='correspondence', shared=None,
                   max_report=3, cxx_extra=(), sig=None, results=None):
    """Run every case on both sides (or take results=(cxx, model)); compare, operation by operation, the
    output of the operations chosen by select(script_line) (default: all), each output line passed
    through project(line) (None drops it).  This is how a property's tie is kept as narrow as its theorem.
    Returns ((cxx, cxx_owns), (model, model_owns), n_disagreements)."""
    if results is None:
        (c, cown, cerr), (m, mown, merr) = harness.run_both(cases, work, shared=shared, flavor=flavor, cxx_extra=cxx_extra)
    else:
        (c, cown), (m, mown) = results
    nd = 0
    for cid, lines in cases:
        cl, cs = c.get(cid, ([], 'missing'))
        ml, ms = m.get(cid, ([], 'missing'))
        d = None
        if select is None and project is None:
            d = harness.compare_case(cl, cs, ml, ms)
        else:
            co = harness.split_ops(lines, cl); mo = harness.split_ops(lines, ml)
            for k, ((ln, a), (_, b)) in enumerate(zip(co, mo)):
                if select is not None and not select(ln): continue
                if b is None and ms.startswith('ub:'): break      # model: undefined behaviour from here on
                if project is not None:
                    a = None if a is None else [x for x in (project(l) for l in a) if x is not None]
                    b = None if b is None else [x for x in (project(l) for l in b) if x is not None]
                if a != b:
                    j = 0
                    if a and b:
                        while j < min(len(a), len(b)) and a[j] == b[j]: j += 1
                    d = dict(op_index=k, op=ln[:300], line=j,
                             cxx=(a[j] if a and j < len(a) else '<end:%s>' % cs)[:400],
                             model=(b[j] if b and j < len(b) else '<end:%s>' % ms)[:400])
                    break
            if d is None and not ms.startswith('ub:') and cs != ms and (cs.startswith('signal') or ms != 'exit:0' or cs != 'exit:0'):
                d = dict(line=-1, cxx='<end:%s>' % cs, model='<end:%s>' % ms)
        if d is not None:
            nd += 1
            if nd <= max_report:
                rep.violation(label, 'model and implementation differ (%s)' % (d.get('op', 'output line %s' % d.get('line')),),
                              script=lines, theorem='correspondence of the model with /repo (%s)' % label,
                              found_input=False, signature=sig,
                              extra=dict(first_difference=d, case=cid))
    return (c, cown), (m, mown), nd


def corpus_part(rep, work, prop):
    """Replay the minimal scripts of the repaired defects that concern this property (model of the repaired code
    against the implementation): a defect that returns is reported again."""
    import shutil
    p = os.path.join(harness.VERIF, 'corpus', 'fixed.json')
    if not os.path.exists(p): return 0
    entries = [e for e in json.load(open(p))['entries'] if prop in e['properties']]
    if not entries: return 0
    shared = work.sub('corpus-shared')
    for f in os.listdir(os.path.join(harness.VERIF, 'corpus', 'files')):
        shutil.copy(os.path.join(harness.VERIF, 'corpus', 'files', f), shared)
    cases = [('fix_%s' % e['commit'], e['script']) for e in entries]
    flavor = 'asan' if prop in ('C13', 'C16') else 'plain'
    proj = lambda l: None if l.startswith('disk') else l
    env = {'ASAN_OPTIONS': 'detect_leaks=1:abort_on_error=1:new_delete_type_mismatch=1:alloc_dealloc_mismatch=1'} if flavor == 'asan' else None
    (cres, cown, cerr), (mres, mown, merr) = harness.run_both(cases, work, shared=shared, flavor=flavor, cxx_env=env)
    n = 0
    for e in entries:
        cid = 'fix_%s' % e['commit']
        cl, cs = cres.get(cid, ([], 'missing')); ml, ms = mres.get(cid, ([], 'missing'))
        cl = [l for l in cl if not l.startswith('disk')]; ml = [l for l in ml if not l.startswith('disk')]
        d = harness.compare_case(cl, cs, ml, ms)
        if d is not None:
            n += 1
            rep.violation('regression', 'a repaired defect is back (%s, fixed by %s): %s' % (e['what'], e['commit'], d), script=e['script'],
                          signature=None, extra=dict(commit=e['commit']))
    rep.coverage['repaired_defects_replayed'] = len(entries)
    return n
