"""Pieces shared by the per-property checks."""
import os, json, time
from lib import harness, proofs, build

def proof_part(rep, prop, trusted_extra=()):
    """Re-check the property's theorems; a failure is a violation without a failing input."""
    pr = proofs.check_property(prop)
    rep.coverage['obligations'] = pr['obligations']
    rep.coverage['discharged'] = pr['discharged']
    rep.coverage['checker_cmd'] = pr['checker_cmd'] or ('coqc -Q . EZ Properties_%s.v' % prop)
    rep.coverage['theorems'] = pr['theorems']
    rep.coverage['assumptions_per_theorem'] = pr.get('assumptions', {})
    rep.coverage['trusted_base'] = [
        'Coq 8.16.1 kernel incl. vm_compute (no native_compute)',
        'hand-written Gallina model coq/*.v tied to /repo by the correspondence run below',
        'extraction with ExtrOcamlBasic only (bool, option, unit, list, prod, sumbool); OCaml 4.13.1; zarith for printing',
        'harness/driver.cpp (dump through public accessors), harness/model_main.ml (glue), lib/*.py (generator, comparator)',
        'g++ 12 / libstdc++ as the implementation under test',
    ] + list(trusted_extra)
    if not pr['ok']:
        rep.violation('proof', 'Properties_%s.v does not check: %s' % (prop, pr['log'][-1500:]),
                      theorem='Properties_%s.v' % prop, found_input=False)
    return pr['ok']

def correspondence(rep, work, cases, select=None, project=None, flavor='plain', label='correspondence', shared=None,
                   max_report=3, cxx_extra=(), sig=None, results=None):
    """Run every case on both sides (or take results=(cxx, model)); compare, operation by operation, the
    output of the operations chosen by select(script_line) (default: all), each output line passed
    through project(line) (None drops it).  This is how a property's tie is kept as narrow as its theorem.
    Returns ((cxx, cxx_owns), (model, model_owns), n_disagreements)."""
    if results is None:
        (c, cown, cerr), (m, mown, merr) = harness.run_both(cases, work, shared=shared, flavor=flavor, cxx_extra=cxx_extra)
    else:
        (c, cown), (m, mown) = results
    nd = 0
    for cid, lines in cases:
        cl, cs = c.get(cid, ([], 'missing'))
        ml, ms = m.get(cid, ([], 'missing'))
        d = None
        if select is None and project is None:
            d = harness.compare_case(cl, cs, ml, ms)
        else:
            co = harness.split_ops(lines, cl); mo = harness.split_ops(lines, ml)
            for k, ((ln, a), (_, b)) in enumerate(zip(co, mo)):
                if select is not None and not select(ln): continue
                if b is None and ms.startswith('ub:'): break      # model: undefined behaviour from here on
                if project is not None:
                    a = None if a is None else [x for x in (project(l) for l in a) if x is not None]
                    b = None if b is None else [x for x in (project(l) for l in b) if x is not None]
                if a != b:
                    j = 0
                    if a and b:
                        while j < min(len(a), len(b)) and a[j] == b[j]: j += 1
                    d = dict(op_index=k, op=ln[:300], line=j,
                             cxx=(a[j] if a and j < len(a) else '<end:%s>' % cs)[:400],
                             model=(b[j] if b and j < len(b) else '<end:%s>' % ms)[:400])
                    break
            if d is None and not ms.startswith('ub:') and cs != ms and (cs.startswith('signal') or ms != 'exit:0' or cs != 'exit:0'):
                d = dict(line=-1, cxx='<end:%s>' % cs, model='<end:%s>' % ms)
        if d is not None:
            nd += 1
            if nd <= max_report:
                rep.violation(label, 'model and implementation differ (%s)' % (d.get('op', 'output line %s' % d.get('line')),),
                              script=lines, theorem='correspondence of the model with /repo (%s)' % label,
                              found_input=False, signature=sig,
                              extra=dict(first_difference=d, case=cid))
    return (c, cown), (m, mown), nd


def theorem_applicability(work, cases, shared=None, tag='mdlx'):
    """Evaluate the decision predicates of coq/Proofs_Decide.v (extracted through ExtractX.v) on every snapshot the model takes
    while it runs `cases`: returns {case id: [(ok, ok4, flags, plain) per `snap` line that produced a dump]}.  ok = the hypotheses of
    the round-trip theorem hold of that object (C01_decided / C01_decided_points_only: for an object without channels the frames
    are first normalised to the header's number of empty sub-frames), ok4 = those of the second-generation theorem (C04_decided*),
    flags = the hypotheses one by one, plain = C01_decided applies without normalisation."""
    from lib import build
    exe = build.build_modelx()
    env = dict(os.environ); env['EZ_LS'] = '1'
    res, _, _ = harness.run_side(exe, cases, work, tag, shared or work.sub('shared'), (), env, 16)
    out = {}
    for cid, lines in cases:
        ml, ms = res.get(cid, ([], 'missing'))
        flags = []
        for ln, o in harness.split_ops(lines, ml):
            if ln.startswith('snap') and o and o[0].startswith('H '):
                l = [x for x in o if x.startswith('L ')]
                t = l[0].split(' ') if l else None
                flags.append((int(t[1]), int(t[2]), t[3] if len(t) > 3 else '', int(t[4]) if len(t) > 4 and t[4] in '01' else None) if t else None)
        out[cid] = flags
    return out

CERT_HYPOTHESES = ['the file is the spec encoding of its parts (byte for byte)', 'header fields within the format', 'data-start word 16 bit', 'parameter block address 2..255',
                   'gap of address-2 blocks', 'section = prologue + chain (either ending) + padding fills its blocks', 'block count and processor byte', 'prologue (1,80) or zeroed',
                   'every record well formed (ids 1..127, capacity limits, exact offsets)', 'file below 2^31 bytes', 'header agrees with the parameters',
                   'header frame count = frames in the file, within the loop bound', 'data present => float format', 'every frame of the announced shape']
def layout_certificates(work, names, shared, tag='cert'):
    """Evaluate coq/Proofs_LayoutCert.v (cert_ok_x, extracted through ExtractX.v) on files of the shared directory: does the layout
    theorem C02_any_layout apply?  Returns {name: (ok, flags)}; flags = '' when the file could not be cut into parts."""
    exe = build.build_modelx()
    cases = [('k%d' % i, ['certx ' + n]) for i, n in enumerate(names)]
    res, _, _ = harness.run_side(exe, cases, work, tag, shared, (), None, 16)
    out = {}
    for (cid, _), n in zip(cases, names):
        ml, ms = res.get(cid, ([], 'missing'))
        t = ml[0].split(' ') if ml and ml[0].startswith('C ') else ['C', '-', '-']
        out[n] = (t[1] == '1', t[2] if len(t) > 2 and t[2] != '-' else '')
    return out
def failing_cert_hypotheses(certs):
    out = {}
    for n, (ok, bits) in certs.items():
        if ok: continue
        if not bits: out['not cut into parts (load refused)'] = out.get('not cut into parts (load refused)', 0) + 1
        for k, b in enumerate(bits):
            if b == '0': out[CERT_HYPOTHESES[k]] = out.get(CERT_HYPOTHESES[k], 0) + 1
    return out

LS_HYPOTHESES = ['header within the format', 'every group and parameter well formed (capacity limits)', 'at most one DATA_START', 'no repeated name, no untyped parameter',
                 'last group not a placeholder', 'parameter section below 256 blocks', 'section starts at byte 1 of its block', 'group ids 1..127 and records below 65536 bytes',
                 'header agrees with the parameters', 'header frame count = stored frames', 'frame count below the vector limit', 'declared data size within the loop bound of the model',
                 'data present => float format', 'every frame of the announced shape']
def failing_hypotheses(appl, pick=0):
    """{hypothesis: number of objects it excludes} over the snapshot number `pick` of every case"""
    out = {}
    for cid, fl in appl.items():
        if len(fl) > pick and fl[pick] is not None and not fl[pick][0]:
            bits = fl[pick][2]
            if not bits: out['save refused or names not readable'] = out.get('save refused or names not readable', 0) + 1
            for k, b in enumerate(bits):
                if b == '0': out[LS_HYPOTHESES[k]] = out.get(LS_HYPOTHESES[k], 0) + 1
    return out

def corpus_part(rep, work, prop):
    """Replay the minimal scripts of the repaired defects that concern this property (model of the repaired code
    against the implementation): a defect that returns is reported again."""
    import shutil
    p = os.path.join(harness.VERIF, 'corpus', 'fixed.json')
    if not os.path.exists(p): return 0
    entries = [e for e in json.load(open(p))['entries'] if prop in e['properties']]
    if not entries: return 0
    shared = work.sub('corpus-shared')
    for f in os.listdir(os.path.join(harness.VERIF, 'corpus', 'files')):
        shutil.copy(os.path.join(harness.VERIF, 'corpus', 'files', f), shared)
    cases = [('fix_%s' % e['commit'], e['script']) for e in entries]
    flavor = 'asan' if prop in ('C13', 'C16') else 'plain'
    proj = lambda l: None if l.startswith('disk') else l
    env = {'ASAN_OPTIONS': 'detect_leaks=1:abort_on_error=1:new_delete_type_mismatch=1:alloc_dealloc_mismatch=1'} if flavor == 'asan' else None
    (cres, cown, cerr), (mres, mown, merr) = harness.run_both(cases, work, shared=shared, flavor=flavor, cxx_env=env)
    n = 0
    for e in entries:
        cid = 'fix_%s' % e['commit']
        cl, cs = cres.get(cid, ([], 'missing')); ml, ms = mres.get(cid, ([], 'missing'))
        cl = [l for l in cl if not l.startswith('disk')]; ml = [l for l in ml if not l.startswith('disk')]
        d = harness.compare_case(cl, cs, ml, ms)
        if d is not None:
            n += 1
            rep.violation('regression', 'a repaired defect is back (%s, fixed by %s): %s' % (e['what'], e['commit'], d), script=e['script'],
                          signature=None, extra=dict(commit=e['commit']))
    rep.coverage['repaired_defects_replayed'] = len(entries)
    return n
