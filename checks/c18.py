"""C18 — independent objects can be used from different threads."""
import os, subprocess, re
from lib import harness, gen, c3dspec, filegen, build
from checks import common, apihist
LEVEL = 'proof'

WHITELIST = re.compile(r'__ioinit|_ZStL8__ioinit|__gnu_cxx|_GLOBAL__|__dso_handle|completed\.|__TMC_END__|\.LC|guard variable|__frame_dummy|__do_global|_ZGV')

def static_storage():
    """writable static-storage symbols defined by the library's own objects (the premise of the theorem)"""
    srcs, _ = build.repo_sources()
    d = os.path.dirname(build.build_driver('plain'))
    found = []
    for s in srcs:
        o = os.path.join(d, os.path.basename(s) + '.o')
        r = subprocess.run(['nm', '-C', '--defined-only', o], stdout=subprocess.PIPE, text=True)
        for ln in r.stdout.split('\n'):
            p = ln.split(None, 2)
            if len(p) == 3 and p[1] in 'bBdDcCsSgG' and not WHITELIST.search(p[2]):
                found.append('%s: %s %s' % (os.path.basename(s), p[1], p[2]))
    return found

def thread_case(rng, i, shared):
    """construct, load, edit, save to its own path, reload, destroy"""
    r = rng.random()
    if r < 0.5:
        b = apihist.conforming_history(rng, max_frames=rng.choice([3, 8, 20]), snap=False); lines = list(b.lines)
    else:
        L = filegen.make_layout(rng); c = filegen.make_content(rng)
        name = 't%d.c3d' % i; open(os.path.join(shared, name), 'wb').write(c3dspec.encode(L, c))
        lines = ['loadx 0 ' + name, 'snap 0', 'point 0 x6e6577']
    cid = 't%d' % i
    # different paths that differ ONLY in their extension (neighbouring cases run at the same time): rec7_a.c3d / rec7_a.bak;
    # nothing derived from the stem of a path may be shared between two saves
    fa = 'rec%d_a.%s' % (i // 2, 'c3d' if i % 2 == 0 else 'bak'); fb = 'rec%d_b.%s' % (i // 2, 'c3d' if i % 2 == 0 else 'bak')
    lines += ['save 0 ' + fa, 'load 1 ' + fa, 'snap 1', 'save 1 ' + fb, 'fsum ' + fa, 'fsum ' + fb, 'drop 0', 'load 2 ' + fb, 'snap 2', 'drop 1', 'drop 2']
    return cid, lines

def run(rep, work, rng, tier):
    common.proof_part(rep, 'C18')
    shared = work.sub('shared')
    n = 64 if tier == 'quick' else 640
    cases = [thread_case(rng, i, shared) for i in range(n)]
    statics = static_storage()
    bad = 0
    if statics:
        bad += 1
        rep.violation('oracle', 'the library defines writable static storage (shared by all objects): %s' % statics[:5], script=['nm -C --defined-only <objects>'], signature='shared-mutable-state')
    mdl = build.build_model(); tsan = build.build_driver('tsan'); plain = build.build_driver('plain')
    mres, _, _ = harness.run_side(mdl, cases, work, 'mdl', shared, (), None, 16)
    nd = 0; races = 0; rounds = 0; thread_cases = 0
    schedules = [(8, 0), (8, 1), (16, 2), (4, 3)] if tier == 'quick' else [(t, j) for t in (2, 4, 8, 16) for j in range(6)]
    for k, (nthreads, jitter) in enumerate(schedules):
        for flavor, exe in (('tsan', tsan), ('plain', plain)):
            if flavor == 'plain' and k % 2: continue
            env = dict(os.environ); env['TSAN_OPTIONS'] = 'halt_on_error=0:report_signal_unsafe=0:exitcode=0'
            res, owns, err = harness.run_side(exe, cases, work, '%s-%d' % (flavor, k), shared, ['--threads', str(nthreads), '--jitter', str(jitter)], env, 1, timeout=1500)
            rounds += 1
            nrep = err.count('WARNING: ThreadSanitizer')
            if nrep:
                races += nrep; bad += 1
                m = re.search(r'WARNING: ThreadSanitizer: ([^\n]*)\n(.*?\n.*?\n.*?\n)', err, re.S)
                rep.violation('oracle', 'ThreadSanitizer: %d report(s) with %d threads on independent objects: %s' % (nrep, nthreads, (m.group(1) + ' | ' + ' '.join(m.group(2).split())[:300]) if m else ''),
                              script=cases[0][1], signature='data-race', extra=dict(threads=nthreads, jitter=jitter))
            for cid, lines in cases:
                thread_cases += 1
                cl, cs = res.get(cid, ([], 'missing')); ml, ms = mres.get(cid, ([], 'missing'))
                if ms.startswith('ub:'): continue
                d = harness.compare_case(cl, cs, ml, ms)
                if d is not None:
                    nd += 1
                    if nd <= 3:
                        rep.violation('oracle', 'a thread did not observe the results of its solo run (%d threads, %s build): %s' % (nthreads, flavor, d),
                                      script=lines, signature='thread-interference', extra=dict(threads=nthreads, jitter=jitter))
    rep.coverage.update(dict(evaluations=thread_cases, distinct_nontrivial=len(cases),
        rule='%d independent histories (construct or load, edit, save to own path, reload, destroy) run concurrently, 2..16 at a time, with randomised start offsets, on the ThreadSanitizer build and on the plain build; every thread\'s transcript (dumps, exception classes, file digests) is compared with the sequential model output; nm lists the writable static storage the library defines' % len(cases),
        samples=[cases[0][1][-8:]], schedules=schedules, rounds=rounds, tsan_reports=races, writable_statics=statics, disagreements=nd, oracle_failures=bad + nd))
