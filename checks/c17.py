"""C17 — content at the format's limits survives; beyond them saving refuses."""
import os
from lib import harness, gen
from lib.harness import hx
from checks import common, c01, filecmp
LEVEL = 'proof'

def nm(n, ch=b'N'): return (ch * n)[:n]

def obj_with(lines_extra, data=False):
    lines = ['new 0']
    return lines + lines_extra

def limit_cases(rng, tier):
    """(limit, value, lines) : content at L-1, L, L+1 and far beyond, alone and in pairs"""
    out = []
    def P(name, desc, setline, group=b'EXTRA'):
        return ['P.new %s %s' % (hx(name), hx(desc)), setline, 'param 0 ' + hx(group)]
    for L, vals in (('description', [254, 255, 256, 300]), ('group-and-param-name', [126, 127, 128, 200]),
                    ('dimension-entries', [254, 255, 256, 400]), ('int16', [32766, 32767, 32768, 70000]), ('int16-neg', [-32767, -32768, -32769, -70000]),
                    ('dimension-count', [126, 127, 128, 200]), ('points', [254, 255, 256] if tier == 'quick' else [254, 255, 256, 300]),
                    ('channels', [254, 255, 256]), ('last-frame', [65534, 65535, 65536]), ('groups', [126, 127, 128]),
                    ('string-width', [254, 255, 256]), ('parameter-blocks', [254, 255, 256] if tier != 'quick' else [255]),
                    ('frames', [32766, 32767, 32768] if tier != 'quick' else []), ('record-bytes', [65032, 65287, 65797]),
                    # a record whose next-record offset crosses 2^15 (it is an UNSIGNED 16-bit word), with records after it
                    ('record-offset', [32767, 32768, 32769, 40000]),
                    # a parameter section that ends exactly on a block boundary (every residue modulo 512 once), with data after it
                    ('section-end-modulo-512', list(range(512)))):
        for v in vals:
            if L == 'description': lines = P(b'D', b'd' * v, 'P.set I 0 1 1')
            elif L == 'group-and-param-name': lines = P(nm(v, b'N'), b'', 'P.set I 0 1 1', nm(v, b'G'))
            elif L == 'dimension-entries': lines = P(b'MANY', b'', 'P.set I 0 %d %s' % (v, ' '.join(str(i % 100) for i in range(v))))
            elif L in ('int16', 'int16-neg'): lines = P(b'EXT', b'', 'P.set I 0 3 %d 0 %d' % (v, -v if abs(v) < 32768 else 1))
            elif L == 'dimension-count': lines = P(b'DIMS', b'', 'P.set I %d %s 1 7' % (v, ' '.join(['1'] * v)))
            elif L == 'record-bytes':
                if v == 65032: lines = P(b'BIGSTR', b'', 'P.set S 0 255 %s' % ' '.join(hx(bytes([65 + (i % 26)]) * 255) for i in range(255)))
                else:
                    k = 128 if v == 65287 else 129
                    lines = P(b'BIGINT', b'', 'P.set I 2 255 %d %d %s' % (k, 255 * k, ' '.join(str((i * 7) % 32768) for i in range(255 * k))))
            elif L == 'record-offset':
                # offset word = 2 + type,ndims (2) + dims (2) + 510 k + description length byte (1) + d
                k = 64 if v < 40000 else 78; d = v - (510 * k + 7)
                lines = P(b'TABLE', b'd' * d, 'P.set I 2 255 %d %d %s' % (k, 255 * k, ' '.join(str((i * 7) % 32768) for i in range(255 * k))), b'BIG')
                lines += P(b'AFTER', b'', 'P.set I 0 1 7', b'BIG') + P(b'LAST', b'', 'P.set F 0 2 3f800000 bf800000', b'LATER')
            elif L == 'section-end-modulo-512':
                a = min(v, 255); b = min(v - a, 255); c_ = v - a - b
                lines = ['point 0 x61', 'P.new %s x' % hx(b'RATE'), 'P.set F 0 1 42c80000', 'param 0 ' + hx(b'POINT'),
                         'frame 0 - 1 x61 3dcccccd 40000000 40400000 3c23d70a 0']
                lines += P(b'NOTE', b'a' * a, 'P.set I 0 1 1') + P(b'NOTE2', b'b' * b, 'P.set I 0 1 2') + P(b'NOTE3', b'c' * c_, 'P.set I 0 1 3')
            elif L == 'string-width': lines = P(b'WIDE', b'', 'P.set S 0 2 %s %s' % (hx(b'w' * v), hx(b'x')))
            elif L == 'groups': 
                lines = []
                for g in range(v - 3): lines += P(b'V', b'', 'P.set I 0 1 %d' % (g % 100), b'G%03d' % g)
            elif L == 'parameter-blocks':
                # fill the parameter section up to v blocks with 300-byte records; data after it (at 255 blocks they start in block 257,
                # which no one-byte field of the file can hold)
                lines = ['point 0 x61', 'P.new %s x' % hx(b'RATE'), 'P.set F 0 1 42c80000', 'param 0 ' + hx(b'POINT'),
                         'frame 0 - 1 x61 3dcccccd 40000000 40400000 3c23d70a 0', 'frame 0 - 1 x61 3f8ccccd c0000000 40400000 00000000 0']
                size = 4 + 330  # rough size of the default groups
                k = 0
                while True:
                    rec = 2 + 4 + 2 + 1 + 1 + 2 + 1 + 255
                    if (size + rec + 511) // 512 > v: break
                    lines += P(b'F%03d' % (k % 1000), b'f' * 255, 'P.set I 0 1 1', b'G%02d' % (k // 500)); size += rec; k += 1
            elif L in ('points', 'channels'):
                names = [b'%s%03d' % (b'p' if L == 'points' else b'c', i) for i in range(v)]
                lines = ['P.new %s x' % hx(b'RATE'), 'P.set F 0 1 42c80000', 'param 0 ' + hx(b'POINT'), 'P.new %s x' % hx(b'RATE'), 'P.set F 0 1 42c80000', 'param 0 ' + hx(b'ANALOG')]
                lit_p = ' '.join('%s 3f800000 40000000 40400000 3c23d70a' % hx(n) for n in names)
                if L == 'points': lines += ['frame 0 - %d %s 0' % (v, lit_p)] * 2
                else: lines += ['frame 0 - 0 1 %d %s' % (v, ' '.join('%s 3f000000' % hx(n) for n in names))] * 2
            elif L == 'last-frame':
                # a loaded object whose first frame number is high: built by file in the C04 corpus; through the API the frame count is the lever
                continue
            elif L == 'frames':
                lines = ['point 0 x61', 'P.new %s x' % hx(b'RATE'), 'P.set F 0 1 42c80000', 'param 0 ' + hx(b'POINT'),
                         ] + ['frame 0 - 1 x61 3f800000 40000000 40400000 3c23d70a 0'] * v
            out.append((L, v, ['new 0'] + lines))
    # pairs at the limit
    out.append(('pair:description+name', 255, ['new 0'] + P(nm(127), b'd' * 255, 'P.set I 0 2 32767 -32768', nm(127, b'G'))))
    out.append(('pair:dimension+strings', 255, ['new 0'] + P(b'S255', b'', 'P.set S 0 255 %s' % ' '.join(hx(b'%03d' % i) for i in range(255)))))
    return out

LIMITS = {'description': 255, 'group-and-param-name': 127, 'dimension-entries': 255, 'int16': 32767, 'int16-neg': -32768, 'dimension-count': 127,
          'points': 255, 'channels': 255, 'groups': 127, 'string-width': 255, 'parameter-blocks': 255, 'frames': 32767,
          'pair:description+name': 255, 'pair:dimension+strings': 255, 'record-bytes': 65535, 'record-offset': 65535,
          'section-end-modulo-512': 511}

def run(rep, work, rng, tier):
    common.proof_part(rep, 'C17')
    cases = []; meta = {}
    for k in rep.kf: cases.append(('kf_' + k['signature'], k['replay']))
    for i, (L, v, lines) in enumerate(limit_cases(rng, tier)):
        cid = 'l%d' % i
        cases.append((cid, lines + ['snap 0', 'save 0 %s.c3d' % cid, 'fsum %s.c3d' % cid, 'load 1 %s.c3d' % cid, 'snap 1']))
        meta[cid] = (L, v)
    sel = lambda ln: ln.split(' ', 1)[0] in ('save', 'fsum', 'load', 'snap')
    (c, _), (m, _), nd = common.correspondence(rep, work, cases, select=sel, label='saved bytes and reloaded object at the limits')
    bad = 0; table = {}
    # C17_within_limits_end_to_end: where the extracted predicate says the object is within every limit, the reload must be equal
    appl = common.theorem_applicability(work, cases); proved = {}
    for cid, lines in cases:
        cl, cs = c.get(cid, ([], 'missing'))
        ops = harness.split_ops(lines, cl)
        snaps = [out for ln, out in ops if ln.startswith('snap') and out and out[0].startswith('H ')]
        save = [out for ln, out in ops if ln.startswith('save ')]
        load = [out for ln, out in ops if ln.startswith('load ')]
        if not snaps: continue
        s0 = harness.Snap(snaps[0])
        L, v = meta.get(cid, ('known-finding', 0))
        lim = LIMITS.get(L, 0)
        inside = (abs(v) <= abs(lim)) if L in LIMITS else False
        beyond = filecmp.beyond_capacity(s0)
        if save and save[0] and save[0][0].startswith('throw'):
            verdict = 'save-refused'
        elif load and load[0] and load[0][0] != 'ok':
            verdict = 'reload-failed:' + load[0][0]
        elif len(snaps) >= 2:
            d = c01.diff_obs(c01.obs(s0), c01.obs(harness.Snap(snaps[1]), loaded=True))
            verdict = 'same' if not d else 'differs:' + d[0].split(' ')[0]
        else: verdict = 'no-result:' + cs
        table['%s=%s' % (L, v)] = verdict
        fl = appl.get(cid) or [None]
        if fl[0] is not None:
            proved['%s=%s' % (L, v)] = bool(fl[0][0])
            if fl[0][0] and verdict != 'same':
                if rep.violation('oracle', 'content with %s = %s meets the hypotheses of C17_within_limits_end_to_end (provably reloaded unchanged by the model) but the implementation: %s' % (L, v, verdict),
                                 script=[l[:300] for l in lines if not l.startswith('fsum')], signature=None): bad += 1
        ok = verdict in ('same', 'save-refused') if not inside else verdict == 'same'
        if not ok:
            sig = 'content-beyond-format-capacity' if (not inside and (beyond or L in ('groups', 'parameter-blocks', 'dimension-count', 'frames'))) else c01.classify(s0, 'load')
            if rep.violation('oracle', 'content with %s = %s (limit %s): %s' % (L, v, lim, verdict),
                             script=[l[:300] for l in lines if not l.startswith('fsum')], signature=sig): bad += 1
    rep.coverage.update(dict(evaluations=len(cases), distinct_nontrivial=len(table),
        rule='for each capacity limit L of the format: content at L-1, L, L+1 and far beyond (and pairs at the limit), built through the API, saved and reloaded by the real library; at or below L the reloaded content must equal the saved one, beyond L saving must throw or the content must still be equal',
        samples=[cases[-1][1][:4]], verdicts=table, hypotheses_of_the_end_to_end_theorem_hold=proved, excluded_by={k: [common.LS_HYPOTHESES[i] for i, b in enumerate((appl.get(c_) or [None])[0][2]) if b == '0'] for c_, k in ((c_, '%s=%s' % meta[c_]) for c_ in meta) if (appl.get(c_) or [None])[0] is not None and not (appl.get(c_) or [None])[0][0]}, disagreements=nd, oracle_failures=bad))
