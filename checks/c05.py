"""C05 — header, POINT/ANALOG parameters and stored data always agree."""
from lib import harness, gen, oracles
from lib.harness import hx
from checks import common, apihist
from checks.apihist import rand_lit, conforming_history, trim
LEVEL = 'proof'

def sel(ln): return True
def proj(l):
    # the property's projection: header line, POINT / ANALOG parameters, frame shapes
    if l[:2] == 'H ': return l
    if l[:4] in ('P 0 ', 'P 1 ', 'G 0 ', 'G 1 '): return l
    if l[:2] in ('D ', 'F ', 's '): return l
    if l[:2] in ('ok', 'th'): return l
    return None

def classify(snap, comp):
    """signature of a known finding that explains this failing component in this state, or None"""
    filled = [f for f in snap.frames if f['pts'] or f['subs']]
    used = snap.param(b'POINT', b'USED'); aused = snap.param(b'ANALOG', b'USED')
    u = used['vals'][0] if used and used['vals'] else None; au = aused['vals'][0] if aused and aused['vals'] else None
    if snap.frames and u == 0 and au == 0 and snap.h['npts'] == 0 and snap.h['nanalogs'] == 0 and comp == 'hdr.frames!=POINT:FRAMES':
        return 'frames-without-points-or-channels'
    if snap.frames and not (snap.frames[0]['pts'] or snap.frames[0]['subs']) and filled:
        return 'frame0-unfilled'
    sizes = set(len(f['pts']) for f in filled); 
    if len(snap.frames) > 0 and filled and (len(sizes) > 1 or len(set(len(f['subs']) for f in filled)) > 1 or any(len(set(len(sf) for sf in f['subs'])) > 1 for f in filled)):
        # frames of different shapes: only reachable (in conforming histories) through a column added over an unfilled frame
        return 'column-over-unfilled-frame'
    return None

def run(rep, work, rng, tier):
    common.proof_part(rep, 'C05')
    n = 250 if tier == 'quick' else 5000
    cases = []; kinds = {}
    # the known findings first (corpus)
    for k in rep.kf:
        cases.append(('kf_' + k['signature'], k['replay']))
    for i in range(n):
        b = conforming_history(rng, max_frames=rng.choice([3, 6, 10]))
        # reload-then-edit is added by the C01/C04 corpora; here every call is followed by a snapshot
        cases.append(('h%d' % i, b.lines))
        for k in b.kinds: kinds[k] = kinds.get(k, 0) + 1
    (cres, cown, _), (mres, mown, _) = harness.run_both(cases, work, model_env={'EZ_INV': '1'})
    # the Coq predicate (extracted) evaluated on every model snapshot: lines "I b0..b9"; strip them before comparing
    coq_reports = {}
    for cid in list(mres):
        ml, ms = mres[cid]; keep = []; k = 0
        for l in ml:
            if l.startswith('I '): coq_reports.setdefault(cid, []).append(l[2:].split(' '))
            else: keep.append(l)
        mres[cid] = (keep, ms)
    (c, _), (m, _), nd = common.correspondence(rep, work, cases, select=sel, project=proj, label='shape views after every call',
                                               results=((cres, cown), (mres, mown)))
    bad = 0; states = 0; comps = {}; coq_false = 0; mirror_mismatch = 0
    NAMES = ['points_hdr', 'points_frames', 'frames_hdr', 'frames_stored', 'subframes', 'analogs_hdr', 'analogs_meas', 'analogs_frames', 'label_counts', 'label_order']
    for cid, lines in cases:
        cl, cs = c.get(cid, ([], 'missing'))
        ops = harness.split_ops(lines, cl); hist = []; si = 0
        for ln, out in ops:
            hist.append(ln)
            if ln.startswith('snap') and out and out[0].startswith('H '):
                s = harness.Snap(out); states += 1
                failing = oracles.inv_components(s)
                # cross-check of the Python mirror with the Coq predicate on the model's snapshot (same state when the tie holds)
                rpt = coq_reports.get(cid, [])
                if si < len(rpt):
                    coq_ok = all(b == '1' for b in rpt[si])
                    if not coq_ok: coq_false += 1
                    py_ok = not [x for x in failing if x != 'hdr.rate!=POINT:RATE' and 'order' not in x and 'LABELS!=' not in x] and not [x for x in failing if 'order' in x or 'LABELS!=' in x]
                    if coq_ok != (not failing) and not [x for x in failing if 'rate' in x]:
                        mirror_mismatch += 1
                        if mirror_mismatch <= 2:
                            rep.violation('oracle-mirror', 'Coq inv_report %s and the Python mirror %s disagree on a snapshot' % (dict(zip(NAMES, rpt[si])), failing),
                                          script=[l for l in hist if not l.startswith('snap')] + ['snap 0'], theorem='inv_b (Spec_Inv.v)', found_input=False)
                si += 1
                for comp in failing:
                    comps[comp] = comps.get(comp, 0) + 1
                    sig = classify(s, comp)
                    if rep.violation('oracle', 'after the last call the three views disagree: %s' % comp,
                                     script=[l for l in hist if not l.startswith('snap')] + ['snap 0'], signature=sig):
                        bad += 1
                    break
    rep.coverage.update(dict(evaluations=sum(kinds.values()), distinct_nontrivial=len(set(l for _, ls in cases for l in ls if not l.startswith('snap'))),
        rule='conforming histories (declare before/after data, either rate first, analog-only, points-only, none, non-integer ratios, replacements, extensions, point/channel columns) with a snapshot after EVERY call; the agreement predicate is evaluated on every intermediate snapshot of the C++; distinct = distinct operation lines',
        samples=[cases[-1][1][:12]], op_kinds=kinds, snapshots_checked=states, coq_predicate_false_on=coq_false, mirror_mismatches=mirror_mismatch, failing_components=comps, disagreements=nd, oracle_failures=bad))
