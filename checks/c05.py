"""C05 — header, POINT/ANALOG parameters and stored data always agree."""
import os
from lib import harness, gen, oracles, c3dspec, filegen
from lib.harness import hx
from checks import common, apihist
from checks.apihist import rand_lit, conforming_history, trim
LEVEL = 'proof'

def sel(ln): return True
def proj(l):
    # the property's projection: header line, POINT / ANALOG parameters, frame shapes
    if l[:2] == 'H ': return l
    if l[:4] in ('P 0 ', 'P 1 ', 'G 0 ', 'G 1 '): return l
    if l[:2] in ('D ', 'F ', 's '): return l
    if l[:2] in ('ok', 'th'): return l
    return None

def classify(snap, comp):
    """signature of a known finding that explains this failing component in this state, or None"""
    filled = [f for f in snap.frames if f['pts'] or f['subs']]
    used = snap.param(b'POINT', b'USED'); aused = snap.param(b'ANALOG', b'USED')
    u = used['vals'][0] if used and used['vals'] else None; au = aused['vals'][0] if aused and aused['vals'] else None
    if snap.frames and u == 0 and au == 0 and snap.h['npts'] == 0 and snap.h['nanalogs'] == 0 and comp == 'hdr.frames!=POINT:FRAMES':
        return 'frames-without-points-or-channels'
    if snap.frames and not (snap.frames[0]['pts'] or snap.frames[0]['subs']) and filled:
        return 'frame0-unfilled'
    sizes = set(len(f['pts']) for f in filled); 
    if len(snap.frames) > 0 and filled and (len(sizes) > 1 or len(set(len(f['subs']) for f in filled)) > 1 or any(len(set(len(sf) for sf in f['subs'])) > 1 for f in filled)):
        # frames of different shapes: only reachable (in conforming histories) through a column added over an unfilled frame
        return 'column-over-unfilled-frame'
    return None

def run(rep, work, rng, tier):
    common.proof_part(rep, 'C05')
    n = 250 if tier == 'quick' else 20000
    cases = []; kinds = {}
    # the known findings first (corpus)
    for k in rep.kf:
        cases.append(('kf_' + k['signature'], k['replay']))
    for i in range(n):
        b = conforming_history(rng, max_frames=rng.choice([3, 6, 10]))
        # reload-then-edit is added by the C01/C04 corpora; here every call is followed by a snapshot
        cases.append(('h%d' % i, b.lines))
        for k in b.kinds: kinds[k] = kinds.get(k, 0) + 1
    # reload-then-edit: objects loaded from well-formed files (first frame numbers other than 1, events, sparse ids), then
    # conforming appends / replacements / columns with a snapshot after every call
    shared = work.sub('shared')
    for i in range(n // 3):
        L = filegen.make_layout(rng)
        c = filegen.make_content(rng)
        npts, nch, nsub = c['npoints'], c['nchan'], (c['nsub'] or 1)
        # labels exactly as many as points/channels so that appended frames can conform
        c = filegen.make_content(rng, dict(npoints=npts, nchan=nch, nsub=nsub, empty_analog=False, nlabels=npts, nalabels=nch, nframes=rng.choice([1, 2, 4]) if (npts or nch) else 0, first=rng.choice([1, 2, 11, 300])))
        name = 'ld%d.c3d' % i; open(os.path.join(shared, name), 'wb').write(c3dspec.encode(L, c))
        plab = [r[7] for r in c['records'] if r[0] == 'P' and r[2] == b'LABELS' and r[1] == [x for x in c['records'] if x[0] == 'G' and x[2] == b'POINT'][0][1]]
        alab = [r[7] for r in c['records'] if r[0] == 'P' and r[2] == b'LABELS' and [x for x in c['records'] if x[0] == 'G' and x[2] == b'ANALOG'] and r[1] == [x for x in c['records'] if x[0] == 'G' and x[2] == b'ANALOG'][0][1]]
        pn = plab[0] if plab else []; an = alab[0] if alab else []
        lines = ['loadx 0 ' + name, 'snap 0']
        if c['frames'] and not c.get('empty_analog'):
            for _ in range(rng.choice([1, 2, 3])):
                lit = apihist.rand_lit(rng, pn, an, c['nsub'])
                tgt = rng.choice(['-', '-', '0', str(len(c['frames']))])
                lines += ['frame 0 %s %s' % (tgt, lit.text()), 'snap 0']
            if pn and rng.random() < 0.5: lines += ['point 0 ' + harness.hx(b'added'), 'snap 0']
        cases.append(('ld%d' % i, lines)); kinds['reload-then-edit'] = kinds.get('reload-then-edit', 0) + 1
    # a data set of ONE frame whose frame is replaced by one with another (uniform) sub-frame count: the new count is the
    # data set's; header, parameters and data must agree at once (not only after the next append)
    for i in range(max(10, n // 10)):
        names = apihist.uniq_names(rng, rng.choice([0, 1, 2]), pad=False); chans = apihist.uniq_names(rng, rng.choice([1, 2, 3]), b'c', pad=False)
        s1, s2 = rng.sample([1, 2, 3, 5, 10], 2)
        lines = ['new 0'] + ['point 0 ' + hx(x) for x in names] + ['analog 0 ' + hx(x) for x in chans]
        lines += ['P.new x52415445 x', 'P.set F 0 1 42c80000', 'param 0 x504f494e54',
                  'P.new x52415445 x', 'P.set F 0 1 %s' % harness.fhex(harness.f2bits(100.0 * s1)), 'param 0 x414e414c4f47', 'snap 0']
        lines += ['frame 0 - ' + apihist.rand_lit(rng, names, chans, s1).text(), 'snap 0']
        lines += ['frame 0 0 ' + apihist.rand_lit(rng, names, chans, s2).text(), 'snap 0']
        lines += ['frame 0 - ' + apihist.rand_lit(rng, names, chans, s2).text(), 'snap 0']
        cases.append(('rs%d' % i, lines)); kinds['single-frame-replaced-other-subframe-count'] = kinds.get('single-frame-replaced-other-subframe-count', 0) + 1
    # channels x sub-frames at and beyond 2^16 (the header word is 16 bits wide on disk, the object holds the exact product):
    # declared objects, the rates set, one frame for the smallest
    for i, (nch, ratio) in enumerate([(128, 512), (3, 21846), (255, 257), (2, 32768)] if tier != 'quick' else [(128, 512), (3, 21846)]):
        chans = [b'k%03d' % j for j in range(nch)]
        lines = ['new 0'] + ['analog 0 ' + hx(x) for x in chans] + ['snap 0', 'P.new x52415445 x', 'P.set F 0 1 41200000', 'param 0 x504f494e54', 'snap 0',
                 'P.new x52415445 x', 'P.set F 0 1 %s' % harness.fhex(harness.f2bits(10.0 * ratio)), 'param 0 x414e414c4f47', 'snap 0', 'point 0 x6d31', 'snap 0']
        if nch * ratio <= 70000: lines += ['frame 0 - ' + apihist.rand_lit(rng, [b'm1'], chans, ratio).text(), 'snap 0']
        cases.append(('big%d' % i, lines)); kinds['channels-x-subframes-beyond-16-bits'] = kinds.get('channels-x-subframes-beyond-16-bits', 0) + 1
    (cres, cown, _), (mres, mown, _) = harness.run_both(cases, work, model_env={'EZ_INV': '1'}, shared=shared)
    # the Coq predicate (extracted) evaluated on every model snapshot: lines "I b0..b9"; strip them before comparing
    coq_reports = {}; typed = {}
    for cid in list(mres):
        ml, ms = mres[cid]; keep = []; k = 0
        for l in ml:
            if l.startswith('I '): coq_reports.setdefault(cid, []).append(l[2:].split(' '))
            elif l.startswith('T '): typed[l[2:]] = typed.get(l[2:], 0) + 1
            else: keep.append(l)
        mres[cid] = (keep, ms)
    (c, _), (m, _), nd = common.correspondence(rep, work, cases, select=sel, project=proj, label='shape views after every call',
                                               results=((cres, cown), (mres, mown)))
    bad = 0; states = 0; comps = {}; coq_false = 0; mirror_mismatch = 0
    NAMES = ['points_hdr', 'points_frames', 'frames_hdr', 'frames_stored', 'subframes', 'analogs_hdr', 'analogs_meas', 'analogs_frames', 'label_counts', 'label_order']
    for cid, lines in cases:
        cl, cs = c.get(cid, ([], 'missing'))
        ops = harness.split_ops(lines, cl); hist = []; si = 0; baseline = None
        for ln, out in ops:
            hist.append(ln)
            if ln.startswith('snap') and out and out[0].startswith('H '):
                s = harness.Snap(out); states += 1
                failing = oracles.inv_components(s)
                # cross-check of the Python mirror with the Coq predicate on the model's snapshot (same state when the tie holds)
                rpt = coq_reports.get(cid, [])
                if si < len(rpt):
                    coq_ok = all(b == '1' for b in rpt[si])
                    if not coq_ok: coq_false += 1
                    py_ok = not [x for x in failing if x != 'hdr.rate!=POINT:RATE' and 'order' not in x and 'LABELS!=' not in x] and not [x for x in failing if 'order' in x or 'LABELS!=' in x]
                    if coq_ok != (not failing) and not [x for x in failing if 'rate' in x]:
                        mirror_mismatch += 1
                        if mirror_mismatch <= 2:
                            rep.violation('oracle-mirror', 'Coq inv_report %s and the Python mirror %s disagree on a snapshot' % (dict(zip(NAMES, rpt[si])), failing),
                                          script=[l for l in hist if not l.startswith('snap')] + ['snap 0'], theorem='inv_b (Spec_Inv.v)', found_input=False)
                si += 1
                if cid.startswith('ld'):
                    # a loaded file's points and channels were not declared by name through the API: the per-name lists
                    # (":... entries", "missing") that the FILE came without are not demanded of the states that follow
                    if baseline is None: baseline = set(x for x in failing if x.endswith('entries!=count') or x.endswith(' missing') and 'mandatory' not in x and 'RATE' not in x)
                    failing = [x for x in failing if x not in baseline]
                for comp in failing:
                    comps[comp] = comps.get(comp, 0) + 1
                    sig = classify(s, comp)
                    if rep.violation('oracle', 'after the last call the three views disagree: %s' % comp,
                                     script=[l for l in hist if not l.startswith('snap')] + ['snap 0'], signature=sig):
                        bad += 1
                    break
    rep.coverage.update(dict(evaluations=sum(kinds.values()), distinct_nontrivial=len(set(l for _, ls in cases for l in ls if not l.startswith('snap'))),
        rule='conforming histories (declare before/after data, either rate first, analog-only, points-only, none, non-integer ratios, replacements, extensions, point/channel columns) with a snapshot after EVERY call; the agreement predicate is evaluated on every intermediate snapshot of the C++; distinct = distinct operation lines',
        samples=[cases[-1][1][:12]], op_kinds=kinds, snapshots_checked=states, coq_predicate_false_on=coq_false, mirror_mismatches=mirror_mismatch, snapshots_with_well_typed_mandatory_parameters=typed.get('1', 0), snapshots_without=typed.get('0', 0), failing_components=comps, disagreements=nd, oracle_failures=bad))
