"""C10 — a refused call leaves the object unchanged."""
from lib import harness, gen
from lib.harness import hx
from checks import common, apihist
from checks.apihist import rand_lit, conforming_history, trim
LEVEL = 'proof'

MAND = [(b'POINT', b'USED', 'I'), (b'POINT', b'FRAMES', 'I'), (b'POINT', b'RATE', 'F'), (b'POINT', b'LABELS', 'C'),
        (b'POINT', b'DESCRIPTIONS', None), (b'POINT', b'UNITS', None),
        (b'ANALOG', b'USED', 'I'), (b'ANALOG', b'RATE', 'F'), (b'ANALOG', b'LABELS', 'C'), (b'ANALOG', b'DESCRIPTIONS', None),
        (b'ANALOG', b'SCALE', 'F'), (b'ANALOG', b'OFFSET', 'I'), (b'ANALOG', b'UNITS', 'C')]

def mand_ok(s):
    """the mandatory parameters exist with their types (and a value where [0] is read)"""
    for g, n, ty in MAND:
        p = s.param(g, n)
        if p is None: return False
        if ty and p['type'] != ty: return False
        if n in (b'USED', b'FRAMES', b'RATE') and not p['vals']: return False
    return True

def retyped(s):
    """a mandatory parameter that EXISTS with another type or without the value that is read (the known finding); a mandatory
    parameter that does not exist at all (objects loaded from files with an empty ANALOG group) is another situation"""
    for g, n, ty in MAND:
        p = s.param(g, n)
        if p is None: continue
        if ty and p['type'] != ty: return True
        if n in (b'USED', b'FRAMES', b'RATE') and not p['vals']: return True
    return False

def loaded_cases(rng, tier, shared):
    """objects LOADED from spec-encoded files (incl. an ANALOG group without parameters, labels fewer than points), then one
    refused call: a frame with the file's points plus an analog sub-frame nobody announced, a frame with a point missing, a
    column for the wrong number of frames, an untyped parameter for a new group"""
    import os
    from lib import filegen, c3dspec
    cases = []
    for i in range(30 if tier == 'quick' else 1500):
        L = filegen.make_layout(rng)
        c = filegen.make_content(rng, dict(empty_analog=True, nchan=0) if rng.random() < 0.5 else None)
        name = 'ld%d.c3d' % i; open(os.path.join(shared, name), 'wb').write(c3dspec.encode(L, c))
        h, groups, frames = filegen.expected_dump(L, c)
        if frames: pts = [p[0] for p in frames[0]['pts']]
        else:
            lab = [pp['vals'] for g in groups if g['name'] == b'POINT' for pp in g['params'] if pp['name'] == b'LABELS']
            pts = [x.rstrip(b' ') for x in (lab[0] if lab else [])][:c['npoints']]
            pts += [b'unlabeled_point_%d' % k for k in range(len(pts), c['npoints'])]
        nf = len(frames)
        calls = []
        litp = ' '.join('%s 3f800000 40000000 40400000 00000000' % hx(n) for n in pts)
        calls.append(('loaded:frame+unannounced-analog', 'frame 0 - %d %s 1 1 %s 3f000000' % (len(pts), litp, hx(b'zz'))))
        if pts: calls.append(('loaded:frame-point-missing', 'frame 0 - %d %s 0' % (len(pts) - 1, ' '.join('%s 3f800000 40000000 40400000 00000000' % hx(n) for n in pts[1:]))))
        calls.append(('loaded:pointcol-wrong-frame-count', 'pointcol 0 %d %s' % (nf + 1, ' '.join('1 %s 3f800000 0 0 0 0' % hx(b'fresh') for _ in range(nf + 1)))))
        for j, (kind, call) in enumerate(calls):
            cases.append(('ld%d_%d' % (i, j), ['loadx 0 ' + name, 'snap 0', call, 'snap 0'], kind))
        cases.append(('ld%d_p' % i, ['loadx 0 ' + name, 'snap 0', 'P.new %s x' % hx(b'NOTYPE'), 'param 0 ' + hx(b'BRANDNEW'), 'snap 0'], 'loaded:untyped-parameter-new-group'))
        # VALID calls on the loaded object (a new point, a conforming frame appended or put in place of frame 0, a parameter in another
        # group): whether the library accepts or refuses them — an object whose ANALOG group holds no parameter makes the updaters
        # refuse — a refusal must leave the object as it was
        valid = [('loaded:valid-point', 'point 0 ' + hx(b'brandnew')), ('loaded:valid-analog', 'analog 0 ' + hx(b'brandnewc'))]
        if not c['nchan']:
            fl = 'frame 0 %s %d %s 0' % ('%s', len(pts), litp)
            valid += [('loaded:valid-frame-append', fl % '-'), ('loaded:valid-frame-replace', fl % '0')]
        for j, (kind, call) in enumerate(valid):
            cases.append(('ld%d_v%d' % (i, j), ['loadx 0 ' + name, 'snap 0', call, 'snap 0'], kind))
    return cases

def refusing_calls(rng, sh, heavy=False):
    """calls that must be refused, incl. calls whose arguments are only partly invalid"""
    out = []
    nf = sh.nframes
    for dev in apihist.DEVIATIONS:
        out.append(('frame:' + dev, ['frame 0 %s %s' % (rng.choice(['-', '0', str(nf)]), apihist.deviate(rng, sh, dev).text())]))
    if nf:
        # second new point is a duplicate / a later frame is short / wrong number of frames
        dupname = sh.pts[0] if sh.pts else b'a'
        lits = [rand_lit(rng, [b'fresh1', dupname], [], 0) for _ in range(nf)]
        out.append(('pointcol:dup-second', ['pointcol 0 %d %s' % (nf, ' '.join(l.text() for l in lits))]))
        lits = [rand_lit(rng, [b'fresh1', b'fresh2'], [], 0) for _ in range(nf)]
        lits[-1] = rand_lit(rng, [b'fresh1'], [], 0)
        out.append(('pointcol:last-frame-short', ['pointcol 0 %d %s' % (nf, ' '.join(l.text() for l in lits))]))
        lits = [rand_lit(rng, [b'fresh1'], [], 0) for _ in range(nf + 1)]
        out.append(('pointcol:one-frame-too-many', ['pointcol 0 %d %s' % (nf + 1, ' '.join(l.text() for l in lits))]))
        out.append(('pointcol:none', ['pointcol 0 0']))
        if sh.chans and sh.nsub:
            dupc = sh.chans[-1]
            lits = [rand_lit(rng, [], [b'cfresh', dupc], sh.nsub) for _ in range(nf)]
            out.append(('analogcol:dup-second', ['analogcol 0 %d %s' % (nf, ' '.join(l.text() for l in lits))]))
            lits = [rand_lit(rng, [], [b'cfresh', b'cfresh2'], sh.nsub) for _ in range(nf)]
            lits[-1] = rand_lit(rng, [], [b'cfresh'], sh.nsub)
            out.append(('analogcol:last-frame-short', ['analogcol 0 %d %s' % (nf, ' '.join(l.text() for l in lits))]))
            lits = [rand_lit(rng, [], [b'cfresh'], sh.nsub + 1) for _ in range(nf)]
            out.append(('analogcol:sub-frames+1', ['analogcol 0 %d %s' % (nf, ' '.join(l.text() for l in lits))]))
            out.append(('analog:dup', ['analog 0 ' + hx(dupc)]))
            if sh.nsub >= 2:
                # a stored frame with fewer sub-frames than the data set (frame() only looks at sub-frame 0), then a well-formed column
                short = rand_lit(rng, sh.pts, sh.chans, sh.nsub - 1)
                lits = [rand_lit(rng, [], [b'cfresh'], sh.nsub) for _ in range(nf + 1)]
                out.append(('analogcol:stored-frame-has-fewer-subframes', ['frame 0 - ' + short.text(), 'snap 0', 'analogcol 0 %d %s' % (nf + 1, ' '.join(l.text() for l in lits))]))
                out.append(('analog:stored-frame-has-fewer-subframes', ['frame 0 - ' + short.text(), 'snap 0', 'analog 0 ' + hx(b'cfresh9')]))
        out.append(('analogcol:none', ['analogcol 0 0']))
        if sh.pts: out.append(('point:dup', ['point 0 ' + hx(sh.pts[-1] + b' ')]))
    long = b'n' * 256
    out.append(('point:name-256', ['point 0 ' + hx(long)]))
    out.append(('analog:name-256', ['analog 0 ' + hx(b'c' * 300)]))
    if nf == 0 and not sh.pts: out.append(('frame:name-256-undeclared', ['P.new x52415445 x', 'P.set F 0 1 42c80000', 'param 0 x504f494e54', 'frame 0 - 1 %s 3f800000 3f800000 3f800000 00000000 0' % hx(long)]))
    if nf: out.append(('pointcol:name-256', ['pointcol 0 %d %s' % (nf, ' '.join(rand_lit(rng, [long], [], 0).text() for _ in range(nf)))]))
    out.append(('param:unnamed', ['P.new x x', 'P.set I 0 1 5', 'param 0 ' + hx(b'POINT')]))
    out.append(('param:untyped-newgroup', ['P.new %s x' % hx(b'Q'), 'param 0 ' + hx(b'NEWGROUP')]))
    out.append(('param:untyped-oldgroup', ['P.new %s x' % hx(b'Q'), 'param 0 ' + hx(b'POINT')]))
    out.append(('param:bad-dims', ['P.new %s x' % hx(b'Q'), 'P.set I 0 1 7', 'P.set I 2 2 2 3 1 2 3', 'P.show', 'param 0 ' + hx(b'EXTRA')]))
    out.append(('lock:unknown', ['lock 0 ' + hx(b'NOSUCH')])); out.append(('unlock:unknown', ['unlock 0 ' + hx(b'NOSUCH')]))
    out.append(('frame:huge-index', ['frame 0 4611686018427387904 ' + rand_lit(rng, sh.pts, sh.chans, sh.expected_nsub() if sh.chans else 0).text()]))
    if heavy:
        # an index at the 16-bit frame-count boundary of the format: accepted by the library (the data set is extended); were it
        # refused, it must be refused BEFORE the data set has grown
        for ix in (65534, 65535, 65536):
            out.append(('frame:index-%d' % ix, ['frame 0 %d %s' % (ix, rand_lit(rng, sh.pts, sh.chans, sh.expected_nsub() if sh.chans else 0).text())]))
    # mandatory parameter retyped (the object is then outside the documented use: listed as a known finding)
    out.append(('param:retype-USED', ['P.new %s x' % hx(b'USED'), 'P.set F 0 1 3f800000', 'param 0 ' + hx(b'POINT')]))
    return out

def run(rep, work, rng, tier):
    common.proof_part(rep, 'C10')
    n = 60 if tier == 'quick' else 4000
    cases = []; kinds = {}
    for i in range(n):
        b = conforming_history(rng, max_frames=rng.choice([2, 4]), snap=False, with_cols=rng.random() < 0.5)
        base = b.lines[:-1] if b.lines[-1] == 'snap 0' else b.lines
        for j, (kind, calls) in enumerate(refusing_calls(rng, b.sh, heavy=(i < 2))):
            cases.append(('r%d_%d' % (i, j), base + ['snap 0'] + calls + ['snap 0']))
            kinds[kind] = kinds.get(kind, 0) + 1
    shared = work.sub('shared')
    for cid, lines, kind in loaded_cases(rng, tier, shared):
        cases.append((cid, lines)); kinds[kind] = kinds.get(kind, 0) + 1
    # correspondence: outcome of the last call and the snapshot after it
    def sel(ln): return True
    (c, _), (m, _), nd0 = common.correspondence(rep, work, [], label='x')
    (cres, cown, _), (mres, mown, _) = harness.run_both(cases, work, shared=shared)
    nd = 0; bad = 0; thrown = {}; unchanged = 0
    for cid, lines in cases:
        cl, cs = cres.get(cid, ([], 'missing')); ml, ms = mres.get(cid, ([], 'missing'))
        co = harness.split_ops(lines, cl); mo = harness.split_ops(lines, ml)
        # the final call and the two snapshots around it
        k = len(lines) - 2
        if ms.startswith('ub:'): continue
        ca = [x[1] for x in co[k:]]; ma = [x[1] for x in mo[k:]]
        if ca != ma:
            nd += 1
            if nd <= 3:
                rep.violation('correspondence', 'model and implementation differ on a refused call or on the state after it',
                              script=lines, theorem='correspondence of the model with /repo (refused calls)', found_input=False,
                              extra=dict(case=cid, cxx=str(ca)[:500], model=str(ma)[:500]))
        # direct oracle on the C++: a throw leaves the dump unchanged
        recs = apihist.op_records(lines, cl)
        if not recs: continue
        r = recs[-1]
        if not r.out or r.before is None or r.after is None: continue
        if r.out[0].startswith('throw'):
            thrown[r.out[0]] = thrown.get(r.out[0], 0) + 1
            if r.before.raw != r.after.raw:
                sig = None
                if '_v' in cid and cid.startswith('ld') and not mand_ok(r.before) and not retyped(r.before) and r.out[0] == 'throw invalid_argument':
                    sig = 'mandatory-parameter-absent'      # a VALID call on an object loaded from a file that came without one of the thirteen: refused by the updater
                elif retyped(r.before) or ('param:retype' in ' '.join(lines[-4:]) or lines[-3].startswith('P.set F 0 1 3f800000')):
                    sig = 'mandatory-parameter-retyped'
                diff = [(a, b2) for a, b2 in zip(r.before.raw, r.after.raw) if a != b2][:2]
                if rep.violation('oracle', 'the call %s threw %s but the object changed: %s' % (r.line[:80], r.out[0], diff),
                                 script=[l for l in lines if not l.startswith('snap')], signature=sig):
                    bad += 1
            else: unchanged += 1
    rep.coverage.update(dict(evaluations=len(cases), distinct_nontrivial=len(set(tuple(ls[-3:]) for _, ls in cases)),
        rule='%d conforming objects (with and without data, columns, rates) x every refusing call: each deviation of a frame, columns whose second new name is a duplicate or whose last frame is short, wrong frame / sub-frame counts, unnamed / untyped parameter (new and existing group), inconsistent dimensions, unknown group, index beyond capacity, retyped mandatory parameter; the dump before and after each throwing call must be identical; distinct = distinct (object tail, call)' % n,
        samples=[cases[0][1][-3:]], refusal_kinds=kinds, thrown_classes=thrown, unchanged_after_throw=unchanged, disagreements=nd, oracle_failures=bad))
