"""C04 — load -> save -> load preserves a file's content; further saves are byte-identical."""
import os
from lib import harness, gen, c3dspec, filegen
from checks import common, c01, c02
LEVEL = 'proof'

def named(snap):
    """named content with group ids: placeholders for unused ids are ignored, ids of named groups kept"""
    gs = []
    for i, g in enumerate(snap.groups):
        if g['name'] == b'' and not g['params']: continue
        ps = []
        for p in g['params']:
            vals = [v.rstrip(b' ') for v in p['vals']] if p['type'] == 'C' else list(p['vals'])
            if (g['name'].upper(), p['name'].upper()) == (b'POINT', b'DATA_START'): vals = ['<derived>']
            ps.append((p['name'].upper(), p['desc'], p['lock'], p['type'], tuple(p['dims']), tuple(vals)))
        gs.append((i + 1, g['name'].upper(), g['desc'], g['lock'], tuple(ps)))
    fr = [(tuple(f['pts']), tuple(tuple(sf) for sf in f['subs'])) for f in snap.frames]
    h = snap.h
    hd = (h['npts'], h['nmeas'], h['nanalogs'], h['byframe'], h['first'], h['last'], h['nframes'], h['rate'], h['gap'], h['scale'],
          h['nev'], tuple(h['evtime']), tuple(h['evdisp']), tuple(h['evlab']), h['e1'], h['e2'], h['e3'], h['e4'], h['keylab'], h['keyblk'], h['four'])
    return gs, fr, hd

def diff_named(a, b):
    out = []
    ga, fa, ha = a; gb, fb, hb = b
    if [(g[0], g[1]) for g in ga] != [(g[0], g[1]) for g in gb]: out.append('groups %r -> %r' % ([(g[0], g[1]) for g in ga][:6], [(g[0], g[1]) for g in gb][:6]))
    else:
        for x, y in zip(ga, gb):
            if x[2] != y[2]: out.append('group[%s].description' % x[1].decode('latin-1'))
            if x[3] != y[3]: out.append('group[%s].lock' % x[1].decode('latin-1'))
            if [p[0] for p in x[4]] != [p[0] for p in y[4]]: out.append('group[%s].parameters' % x[1].decode('latin-1')); continue
            for p, q in zip(x[4], y[4]):
                for k, nm in ((1, 'description'), (2, 'lock'), (3, 'type'), (4, 'dimensions'), (5, 'values')):
                    if p[k] != q[k]:
                        out.append('param[%s:%s].%s gen1=%r gen2=%r' % (x[1].decode('latin-1'), p[0].decode('latin-1'), nm, p[k] if k != 5 else p[k][:4], q[k] if k != 5 else q[k][:4])); break
    if fa != fb: out.append('frames (%d -> %d)' % (len(fa), len(fb)))
    names = ('points', 'samples', 'channels', 'subframes', 'first', 'last', 'frames', 'rate', 'gap', 'scale', 'nevents', 'event_times', 'event_display', 'event_labels', 'reserved1', 'reserved2', 'reserved3', 'reserved4', 'keylab', 'keyblk', 'four')
    for n, x, y in zip(names, ha, hb):
        if x != y: out.append('hdr.%s gen1=%r gen2=%r' % (n, x, y))
    return out

def run(rep, work, rng, tier):
    common.proof_part(rep, 'C04')
    shared = work.sub('shared')
    n = 250 if tier == 'quick' else 24000
    cases = []
    for i in range(n):
        L = filegen.make_layout(rng); c = filegen.make_content(rng)
        name = 'f%d.c3d' % i; open(os.path.join(shared, name), 'wb').write(c3dspec.encode(L, c))
        cid = 'f%d' % i
        cases.append((cid, ['loadx 0 ' + name, 'snap 0', 'save 0 %s_g2.c3d' % cid, 'fsum %s_g2.c3d' % cid, 'load 1 %s_g2.c3d' % cid, 'snap 1',
                            'save 1 %s_g3.c3d' % cid, 'fsum %s_g3.c3d' % cid, 'load 2 %s_g3.c3d' % cid, 'save 2 %s_g4.c3d' % cid, 'fsum %s_g4.c3d' % cid]))
    # the REWRITTEN parameter section ends on every residue modulo 512 once (three descriptions whose lengths add up to t): the
    # section must stay terminated when its records end exactly on a block boundary; the data start with a byte that is not 0
    main_ids = set(cid for cid, _ in cases)
    for t in range(512):
        a = min(t, 255); b = min(t - a, 255); c3 = t - a - b
        cc = filegen.make_content(rng, dict(npoints=1, nchan=0, nframes=1, dense_ids=True, order='canonical', nlabels=1, first=1, big_record=False, empty_analog=False))
        recs = []
        for r in cc['records']:
            if r[0] == 'G' and r[2] == b'POINT': r = r[:3] + (b'a' * a,) + r[4:]
            elif r[0] == 'P' and r[2] == b'USED' and r[5] == 'I' and r[1] == [x for x in cc['records'] if x[0] == 'G' and x[2] == b'POINT'][0][1]: r = r[:3] + (b'b' * b,) + r[4:]
            elif r[0] == 'P' and r[2] == b'RATE' and r[1] == [x for x in cc['records'] if x[0] == 'G' and x[2] == b'POINT'][0][1]: r = r[:3] + (b'c' * c3,) + r[4:]
            elif r[0] == 'G' or (r[0] == 'P' and r[3]): r = r[:3] + (b'',) + r[4:]        # every other description empty: one byte per step
            recs.append(r)
        cc['records'] = [r for r in recs if not (r[0] == 'G' and r[2].startswith(b'EXTRA')) and not (r[0] == 'P' and r[1] not in [x[1] for x in recs if x[0] == 'G' and x[2] in (b'POINT', b'ANALOG')])]
        cc['frames'] = [([('3dcccccd', '40000000', '40400000', '3c23d70a')], [])]; cc['nev'] = 0; cc['evlab'] = [b''] * 18
        name = 'al%d.c3d' % t; open(os.path.join(shared, name), 'wb').write(c3dspec.encode(dict(zeros=0, paddr=2, prologue_zeroed=False, end_by_zero_offset=False, strpad=b' ', extra_pad_blocks=0), cc))
        cid = 'al%d' % t
        cases.append((cid, ['loadx 0 ' + name, 'snap 0', 'save 0 %s_g2.c3d' % cid, 'fsum %s_g2.c3d' % cid, 'load 1 %s_g2.c3d' % cid, 'snap 1', 'save 1 %s_g3.c3d' % cid, 'fsum %s_g3.c3d' % cid]))
    nv = 0
    for p in (c02.VENDOR[2:3] if tier == 'quick' else c02.VENDOR[:3]):
        if os.path.exists(p):
            name = 'vendor%d.c3d' % nv; nv += 1
            open(os.path.join(shared, name), 'wb').write(open(p, 'rb').read())
            cid = 'v_' + os.path.basename(p).split('.')[0]
            cases.append((cid, ['loadx 0 ' + name, 'snap 0', 'save 0 %s_g2.c3d' % cid, 'fsum %s_g2.c3d' % cid, 'load 1 %s_g2.c3d' % cid, 'snap 1',
                                'save 1 %s_g3.c3d' % cid, 'fsum %s_g3.c3d' % cid]))
    sel = lambda ln: ln.split(' ', 1)[0] in ('save', 'fsum', 'load', 'snap')
    (c, _), (m, _), nd = common.correspondence(rep, work, cases, select=sel, label='generations 2 and 3 (bytes) and reloaded object', shared=shared)
    bad = 0; compared = 0; comps = {}
    # C04_decided evaluated on the generation-1 object (loaded from any layout) and on the generation-2 object
    appl = common.theorem_applicability(work, [x for x in cases if not x[0].startswith('al')], shared=shared); th = dict(gen1_objects=0, gen1_hypotheses_hold=0, gen2_objects=0, gen2_hypotheses_hold=0, confirmed_by_the_implementation=0)
    for cid, lines in cases:
        cl, cs = c.get(cid, ([], 'missing'))
        ops = harness.split_ops(lines, cl)
        res = {ln: out for ln, out in ops}
        snaps = [out for ln, out in ops if ln.startswith('snap') and out and out[0].startswith('H ')]
        if not (ops and ops[0][1] and ops[0][1][0] == 'ok'): continue
        script = [l for l in lines if not l.startswith('fsum')]
        failed = [ln for ln, out in ops if ln.split(' ')[0] in ('save', 'load') and out and out[0] != 'ok']
        if failed:
            if rep.violation('oracle', 'a generation could not be saved or reloaded: %s -> %s' % (failed[0], res[failed[0]][0]), script=script,
                             signature=None, extra=dict(file=os.path.join(shared, lines[0].split(' ')[2]))): bad += 1
            continue
        if len(snaps) >= 2:
            compared += 1
            for d in diff_named(named(harness.Snap(snaps[0])), named(harness.Snap(snaps[1])))[:1]:
                comps[d.split(' ')[0].split('[')[0]] = comps.get(d.split(' ')[0].split('[')[0], 0) + 1
                if rep.violation('oracle', 'generation 2 does not hold the content of generation 1: %s' % d, script=script, signature=None): bad += 1
        sums = [out[0] for ln, out in ops if ln.startswith('fsum') and out]
        fl = appl.get(cid) or []
        for k, name in ((0, 'gen1'), (1, 'gen2')):
            if k < len(fl) and fl[k] is not None and k + 1 < len(sums):
                th[name + '_objects'] += 1
                if fl[k][1]:
                    th[name + '_hypotheses_hold'] += 1
                    if sums[k] == sums[k + 1]: th['confirmed_by_the_implementation'] += 1
                    elif rep.violation('oracle', 'the object of generation %d meets the hypotheses of C04_decided (its file reloads to an object that saves to the same bytes) but the implementation wrote %s then %s' % (k + 1, sums[k], sums[k + 1]), script=script, signature=None): bad += 1
        if len(sums) >= 2 and len(set(sums[1:])) != 1:
            if rep.violation('oracle', 'saving again is not byte-identical: %s' % sums, script=script, signature=None): bad += 1
    rep.coverage.update(dict(evaluations=len(cases), distinct_nontrivial=compared,
        rule='every well-formed file of the C02 generator (all layout variants and content shapes) and the vendor files: load, save, reload, compare the named content of generations 1 and 2 (group ids kept, placeholders ignored, header events / gap / reserved words included), save generations 3 and 4 and compare the bytes of generations 2, 3, 4',
        samples=[cases[0][1]], failing_components=comps, disagreements=nd, oracle_failures=bad, theorem_C04_decided=th, gen1_excluded_by=common.failing_hypotheses(appl, 0), gen2_excluded_by=common.failing_hypotheses(appl, 1)))
