// Script driver for the real ezc3d library (compiled against /repo's working tree).
// Reads a file of cases; each case is a list of operations (one per line); every case
// runs in its own forked child so that a crash, sanitizer abort or hang is an outcome
// of that case.  After each operation one canonical line is printed; snapshots print
// the whole observable state through public accessors only.
//
// usage: driver <cases-file> <own-dir> <shared-dir> [--timeout s] [--aslimit MB]
#include "ezc3d.h"
#include <cstdio>
#include <cstdlib>
#include <cstdint>
#include <cstring>
#include <map>
#include <unistd.h>
#include <signal.h>
#include <sys/wait.h>
#include <sys/resource.h>
#include <sys/time.h>
#include <sys/stat.h>
#include <thread>
#include <chrono>
#include <random>

using namespace ezc3d;
typedef ParametersNS::GroupNS::Parameter Param;
typedef ParametersNS::GroupNS::Group Group;
typedef DataNS::Frame Frame;
typedef DataNS::Points3dNS::Points Points;
typedef DataNS::Points3dNS::Point Point;
typedef DataNS::AnalogsNS::Analogs Analogs;
typedef DataNS::AnalogsNS::SubFrame SubFrame;
typedef DataNS::AnalogsNS::Channel Channel;

#ifdef EZ_COV
extern "C" void __gcov_dump(void);
#endif
static std::string g_own, g_shared;
static thread_local FILE* g_out = stdout;   // per thread in --threads mode

// ---------- token helpers ----------
struct Toks {
    std::vector<std::string> t; size_t i;
    Toks(const std::string& line): i(0) {
        std::istringstream ss(line); std::string w;
        while (ss >> w) t.push_back(w);
    }
    bool more() const { return i < t.size(); }
    const std::string& next() {
        if (i >= t.size()) { fprintf(g_out, "script-error missing-token\n"); fflush(g_out); _exit(3); }
        return t[i++];
    }
    uint64_t u64() { return strtoull(next().c_str(), nullptr, 10); }
    long long i64() { return strtoll(next().c_str(), nullptr, 10); }
    size_t idx() { const std::string& s = next(); if (s == "-") return SIZE_MAX; return strtoull(s.c_str(), nullptr, 10); }
    std::string str() {
        const std::string& s = next(); std::string r;
        for (size_t k = 1; k + 2 <= s.size(); k += 2)
            r.push_back(static_cast<char>(strtoul(s.substr(k, 2).c_str(), nullptr, 16)));
        return r;
    }
    float flt() { uint32_t b = static_cast<uint32_t>(strtoul(next().c_str(), nullptr, 16)); float f; memcpy(&f, &b, 4); return f; }
};

static std::string hexs(const std::string& s) {
    static const char* d = "0123456789abcdef"; std::string r = "x";
    for (unsigned char c : s) { r.push_back(d[c >> 4]); r.push_back(d[c & 15]); }
    return r;
}
static std::string hexf(float f) { uint32_t b; memcpy(&b, &f, 4); char buf[16]; snprintf(buf, sizeof buf, "%08x", b); return buf; }
static std::string u(size_t v) { return std::to_string(static_cast<unsigned long long>(v)); }
static std::string z(long long v) { return std::to_string(v); }

// ---------- exception classification ----------
#define GUARD(body) \
    try { body; } \
    catch (const std::ios_base::failure&) { fprintf(g_out, "throw ios_failure\n"); } \
    catch (const std::range_error&) { fprintf(g_out, "throw range_error\n"); } \
    catch (const std::out_of_range&) { fprintf(g_out, "throw out_of_range\n"); } \
    catch (const std::invalid_argument&) { fprintf(g_out, "throw invalid_argument\n"); } \
    catch (const std::length_error&) { fprintf(g_out, "throw length_error\n"); } \
    catch (const std::runtime_error&) { fprintf(g_out, "throw runtime_error\n"); } \
    catch (const std::logic_error&) { fprintf(g_out, "throw logic_error\n"); } \
    catch (const std::bad_alloc&) { fprintf(g_out, "throw bad_alloc\n"); } \
    catch (const std::exception&) { fprintf(g_out, "throw exception\n"); } \
    catch (const std::string& s) { fprintf(g_out, "%s\n", s.c_str()); } \
    catch (...) { fprintf(g_out, "throw unknown\n"); }

// ---------- dumps ----------
static char tchar(DATA_TYPE t) {
    switch (t) { case CHAR: return 'C'; case BYTE: return 'B'; case INT: return 'I'; case FLOAT: return 'F'; default: return 'N'; }
}
static std::string paramBody(const Param& p) {
    std::string s = hexs(p.name()) + " " + hexs(p.description()) + " " + (p.isLocked() ? "1" : "0") + " ";
    s.push_back(tchar(p.type()));
    std::vector<size_t> d = p.dimension();
    s += " " + u(d.size());
    for (size_t v : d) s += " " + u(v);
    switch (p.type()) {
    case CHAR: { const std::vector<std::string>& v = p.valuesAsString(); s += " " + u(v.size()); for (auto& e : v) s += " " + hexs(e); break; }
    case BYTE: { const std::vector<int>& v = p.valuesAsByte(); s += " " + u(v.size()); for (int e : v) s += " " + z(e); break; }
    case INT: { const std::vector<int>& v = p.valuesAsInt(); s += " " + u(v.size()); for (int e : v) s += " " + z(e); break; }
    case FLOAT: { const std::vector<float>& v = p.valuesAsFloat(); s += " " + u(v.size()); for (float e : v) s += " " + hexf(e); break; }
    default: s += " 0";
    }
    return s;
}
static std::string groupBody(const Group& g) {
    return hexs(g.name()) + " " + hexs(g.description()) + " " + (g.isLocked() ? "1" : "0") + " " + u(g.nbParameters());
}
static std::string pointBody(const Point& p) {
    return hexs(p.name()) + " " + hexf(p.x()) + " " + hexf(p.y()) + " " + hexf(p.z()) + " " + hexf(p.residual());
}
static std::string chanBody(const Channel& c) { return hexs(c.name()) + " " + hexf(c.data()); }

static void dumpFrame(const Frame& f, size_t i) {
    fprintf(g_out, "F %s %s %s\n", u(i).c_str(), u(f.points().nbPoints()).c_str(), u(f.analogs().nbSubframes()).c_str());
    for (size_t k = 0; k < f.points().nbPoints(); ++k) fprintf(g_out, "p %s\n", pointBody(f.points().point(k)).c_str());
    for (size_t s = 0; s < f.analogs().nbSubframes(); ++s) {
        const SubFrame& sf = f.analogs().subframe(s);
        fprintf(g_out, "s %s %s\n", u(s).c_str(), u(sf.nbChannels()).c_str());
        for (size_t k = 0; k < sf.nbChannels(); ++k) fprintf(g_out, "c %s\n", chanBody(sf.channel(k)).c_str());
    }
}
static void dumpHeader(const Header& h) {
    fprintf(g_out, "H %s %s %s %s %s %s %s %s %s %s %s %s %s %s %s %s %s %s %s %s | %s %s\n",
        u(h.nbOfZerosBeforeHeader()).c_str(), u(h.parametersAddress()).c_str(), u(h.checksum()).c_str(),
        u(h.nb3dPoints()).c_str(), u(h.nbAnalogsMeasurement()).c_str(), u(h.firstFrame()).c_str(), u(h.lastFrame()).c_str(),
        u(h.nbMaxInterpGap()).c_str(), z(h.scaleFactor()).c_str(), u(h.dataStart()).c_str(), u(h.nbAnalogByFrame()).c_str(),
        hexf(h.frameRate()).c_str(), z(h.emptyBlock1()).c_str(), z(h.emptyBlock2()).c_str(), z(h.emptyBlock3()).c_str(), z(h.emptyBlock4()).c_str(),
        u(h.keyLabelPresent()).c_str(), u(h.firstBlockKeyLabel()).c_str(), u(h.fourCharPresent()).c_str(), u(h.nbEvents()).c_str(),
        u(h.nbAnalogs()).c_str(), u(h.nbFrames()).c_str());
    std::string t = "HT", d = "HD", l = "HL";
    for (float e : h.eventsTime()) t += " " + hexf(e);
    for (size_t e : h.eventsDisplay()) d += " " + u(e);
    for (auto& e : h.eventsLabel()) l += " " + hexs(e);
    fprintf(g_out, "%s\n%s\n%s\n", t.c_str(), d.c_str(), l.c_str());
}
static void dumpAll(const c3d& c) {
    dumpHeader(c.header());
    const ParametersNS::Parameters& ps = c.parameters();
    fprintf(g_out, "PS %s %s %s %s %s\n", u(ps.parametersStart()).c_str(), u(ps.checksum()).c_str(), u(ps.nbParamBlock()).c_str(),
            u(ps.processorType()).c_str(), u(ps.nbGroups()).c_str());
    for (size_t i = 0; i < ps.nbGroups(); ++i) {
        const Group& g = ps.group(i);
        fprintf(g_out, "G %s %s\n", u(i).c_str(), groupBody(g).c_str());
        for (size_t j = 0; j < g.nbParameters(); ++j)
            fprintf(g_out, "P %s %s %s\n", u(i).c_str(), u(j).c_str(), paramBody(g.parameter(j)).c_str());
    }
    fprintf(g_out, "D %s\n", u(c.data().nbFrames()).c_str());
    for (size_t i = 0; i < c.data().nbFrames(); ++i) dumpFrame(c.data().frame(i), i);
    fprintf(g_out, "E\n");
}

// ---------- frame literals ----------
static void readFrameLit(Toks& tk, Frame& f) {
    Points pts; Analogs an;
    size_t np = tk.u64();
    for (size_t i = 0; i < np; ++i) {
        Point pt; pt.name(tk.str());
        pt.x(tk.flt()); pt.y(tk.flt()); pt.z(tk.flt()); pt.residual(tk.flt());
        pts.point(pt);
    }
    size_t ns = tk.u64();
    for (size_t s = 0; s < ns; ++s) {
        SubFrame sf; size_t nc = tk.u64();
        for (size_t i = 0; i < nc; ++i) {
            Channel ch; ch.name(tk.str());
            if (tk.more() && tk.t[tk.i] == "u") tk.next();     // value never set by the caller
            else ch.data(tk.flt());
            sf.channel(ch);
        }
        an.subframe(sf);
    }
    f.add(pts, an);
}

// probe subclass: reaches the protected byte-assembly helpers (no hook in /repo needed)
struct Probe : public c3d {
    unsigned int h2u(const char* v, unsigned int n) { return hex2uint(v, n); }
    int h2i(const char* v, unsigned int n) { return hex2int(v, n); }
};

// ---------- one case ----------
static void runCase(const std::vector<std::string>& lines) {
    std::map<int, c3d*> obj;
    std::map<int, Frame> reg;
    Param P;
    auto O = [&](int k) -> c3d& {
        if (!obj.count(k) || !obj[k]) throw std::string("noobj");
        return *obj[k];
    };
    for (const std::string& line : lines) {
        Toks tk(line);
        if (!tk.more()) continue;
        std::string cmd = tk.next();
        if (cmd == "new") { int k = (int)tk.i64(); GUARD(obj[k] = new c3d(); fprintf(g_out, "ok\n")); }
        else if (cmd == "load" || cmd == "loadx") {
            int k = (int)tk.i64(); std::string path = (cmd == "load" ? g_own : g_shared) + "/" + tk.next();
            GUARD(obj[k] = new c3d(path); fprintf(g_out, "ok\n"));
        }
        else if (cmd == "save") { int k = (int)tk.i64(); std::string path = g_own + "/" + tk.next(); GUARD(O(k).write(path); fprintf(g_out, "ok\n")); }
        else if (cmd == "savefault") {   // save under an injected fault (C15): limit <n> = RLIMIT_FSIZE, path <p> = unwritable destination
            int k = (int)tk.i64(); std::string mode = tk.next(); std::string arg = tk.next(); std::string path;
            if (mode == "limit") {
                path = g_own + "/" + tk.next();
                signal(SIGXFSZ, SIG_IGN);
                struct rlimit rl; rl.rlim_cur = rl.rlim_max = (rlim_t)strtoull(arg.c_str(), nullptr, 10); setrlimit(RLIMIT_FSIZE, &rl);
            } else if (mode == "readonly") {
                path = g_own + "/" + arg; { std::ofstream t(path); t << "x"; } chmod(path.c_str(), 0444);
                if (geteuid() == 0) { if (setgid(65534) != 0 || setuid(65534) != 0) {} }   // root ignores permission bits
            } else path = arg;
            GUARD(O(k).write(path); fprintf(g_out, "ok\n"));
            struct stat sb; long sz = -1; if (stat(path.c_str(), &sb) == 0 && S_ISREG(sb.st_mode)) sz = (long)sb.st_size;
            fprintf(g_out, "disk %ld\n", sz);
        }
        else if (cmd == "savex") { int k = (int)tk.i64(); std::string path = tk.next(); GUARD(O(k).write(path); fprintf(g_out, "ok\n")); }
        else if (cmd == "fsum") {   // size and FNV-1a of a file of the case's own directory
            std::string path = g_own + "/" + tk.next(); std::ifstream f(path, std::ios::binary);
            if (!f) fprintf(g_out, "nofile\n");
            else { uint64_t h = 1469598103934665603ULL; size_t n = 0; char ch; while (f.get(ch)) { h ^= (unsigned char)ch; h *= 1099511628211ULL; ++n; }
                   fprintf(g_out, "ok %zu %016llx\n", n, (unsigned long long)h); }
        }
        else if (cmd == "snap") { int k = (int)tk.i64(); GUARD(dumpAll(O(k))); }
        else if (cmd == "print") { int k = (int)tk.i64(); FILE* sv = stdout; (void)sv; std::streambuf* old = std::cout.rdbuf(); std::ostringstream sink; std::cout.rdbuf(sink.rdbuf()); GUARD(O(k).print(); fprintf(g_out, "ok\n")); std::cout.rdbuf(old); }
        else if (cmd == "drop") { int k = (int)tk.i64(); GUARD(delete obj[k]; obj[k] = nullptr; fprintf(g_out, "ok\n")); }
        else if (cmd == "P.new") { std::string n = tk.str(), d = tk.str(); GUARD(P = Param(n, d); fprintf(g_out, "ok\n")); }
        else if (cmd == "P.name") { std::string n = tk.str(); GUARD(P.name(n); fprintf(g_out, "ok\n")); }
        else if (cmd == "P.desc") { std::string n = tk.str(); GUARD(P.description(n); fprintf(g_out, "ok\n")); }
        else if (cmd == "P.lock") { GUARD(P.lock(); fprintf(g_out, "ok\n")); }
        else if (cmd == "P.unlock") { GUARD(P.unlock(); fprintf(g_out, "ok\n")); }
        else if (cmd == "P.set") {
            std::string ty = tk.next(); size_t nd = tk.u64(); std::vector<size_t> dims;
            for (size_t i = 0; i < nd; ++i) dims.push_back(tk.u64());
            size_t nv = tk.u64();
            if (ty == "I") { std::vector<int> v; for (size_t i = 0; i < nv; ++i) v.push_back((int)tk.i64()); GUARD(P.set(v, dims); fprintf(g_out, "ok\n")); }
            else if (ty == "F") { std::vector<float> v; for (size_t i = 0; i < nv; ++i) v.push_back(tk.flt()); GUARD(P.set(v, dims); fprintf(g_out, "ok\n")); }
            else { std::vector<std::string> v; for (size_t i = 0; i < nv; ++i) v.push_back(tk.str()); GUARD(P.set(v, dims); fprintf(g_out, "ok\n")); }
        }
        else if (cmd == "P.seti") { long long v = tk.i64(); GUARD(P.set((int)v); fprintf(g_out, "ok\n")); }
        else if (cmd == "P.setu") { size_t v = tk.u64(); GUARD(P.set(v); fprintf(g_out, "ok\n")); }
        else if (cmd == "P.setf") { float v = tk.flt(); GUARD(P.set(v); fprintf(g_out, "ok\n")); }
        else if (cmd == "P.sets") { std::string v = tk.str(); GUARD(P.set(v); fprintf(g_out, "ok\n")); }
        else if (cmd == "P.as") {   // typed getter on the caller's parameter register
            std::string ty = tk.next();
            GUARD(const Param& p = P; std::string s = "ok";
                  if (ty == "C") { for (auto& e : p.valuesAsString()) s += " " + hexs(e); }
                  else if (ty == "B") { for (int e : p.valuesAsByte()) s += " " + z(e); }
                  else if (ty == "I") { for (int e : p.valuesAsInt()) s += " " + z(e); }
                  else { for (float e : p.valuesAsFloat()) s += " " + hexf(e); }
                  fprintf(g_out, "%s\n", s.c_str()));
        }
        else if (cmd == "P.get") {   // the caller copies a parameter out of an object: Parameter p = c.parameters().group(g).parameter(n)
            int k = (int)tk.i64(); std::string g = tk.str(); std::string n = tk.str();
            GUARD(P = O(k).parameters().group(g).parameter(n); fprintf(g_out, "ok\n")); }
        else if (cmd == "P.show") { GUARD(fprintf(g_out, "ok %s\n", paramBody(P).c_str())); }
        else if (cmd == "param") { int k = (int)tk.i64(); std::string g = tk.str(); GUARD(O(k).parameter(g, P); fprintf(g_out, "ok\n")); }
        else if (cmd == "lock") { int k = (int)tk.i64(); std::string g = tk.str(); GUARD(O(k).lockGroup(g); fprintf(g_out, "ok\n")); }
        else if (cmd == "unlock") { int k = (int)tk.i64(); std::string g = tk.str(); GUARD(O(k).unlockGroup(g); fprintf(g_out, "ok\n")); }
        else if (cmd == "frame") { int k = (int)tk.i64(); size_t idx = tk.idx(); Frame f; readFrameLit(tk, f); GUARD(O(k).frame(f, idx); fprintf(g_out, "ok\n")); }
        else if (cmd == "point") { int k = (int)tk.i64(); std::string n = tk.str(); GUARD(O(k).point(n); fprintf(g_out, "ok\n")); }
        else if (cmd == "analog") { int k = (int)tk.i64(); std::string n = tk.str(); GUARD(O(k).analog(n); fprintf(g_out, "ok\n")); }
        else if (cmd == "pointcol" || cmd == "analogcol") {
            int k = (int)tk.i64(); size_t n = tk.u64(); std::vector<Frame> fs;
            for (size_t i = 0; i < n; ++i) { Frame f; readFrameLit(tk, f); fs.push_back(f); }
            if (cmd == "pointcol") { GUARD(O(k).point(fs); fprintf(g_out, "ok\n")); } else { GUARD(O(k).analog(fs); fprintf(g_out, "ok\n")); }
        }
        // ---- caller-side frame registers (aliasing histories, C08) ----
        else if (cmd == "F.new") { int j = (int)tk.i64(); reg[j] = Frame(); fprintf(g_out, "ok\n"); }
        else if (cmd == "F.set") { int j = (int)tk.i64(); GUARD(readFrameLit(tk, reg[j]); fprintf(g_out, "ok\n")); }
        else if (cmd == "F.fromdata") {   // the caller copies a stored frame out of the object: Frame f = c.data().frame(i)
            int j = (int)tk.i64(); int k = (int)tk.i64(); size_t f = tk.u64();
            GUARD(reg[j] = O(k).data().frame(f); fprintf(g_out, "ok\n"));
        }
        else if (cmd == "F.copy") { int j = (int)tk.i64(); int i = (int)tk.i64(); reg[j] = reg[i]; fprintf(g_out, "ok\n"); }
        else if (cmd == "F.mutpt") { int j = (int)tk.i64(); size_t i = tk.u64(); float v = tk.flt(); GUARD(reg[j].points_nonConst().point_nonConst(i).x(v); fprintf(g_out, "ok\n")); }
        else if (cmd == "F.addpt") { int j = (int)tk.i64(); Point pt; pt.name(tk.str()); pt.x(tk.flt()); pt.y(tk.flt()); pt.z(tk.flt()); pt.residual(tk.flt()); GUARD(reg[j].points_nonConst().point(pt); fprintf(g_out, "ok\n")); }
        else if (cmd == "F.mutch") { int j = (int)tk.i64(); size_t s = tk.u64(); size_t i = tk.u64(); float v = tk.flt(); GUARD(reg[j].analogs_nonConst().subframe_nonConst(s).channel_nonConst(i).data(v); fprintf(g_out, "ok\n")); }
        else if (cmd == "F.addch") { int j = (int)tk.i64(); size_t s = tk.u64(); Channel ch; ch.name(tk.str()); ch.data(tk.flt()); GUARD(reg[j].analogs_nonConst().subframe_nonConst(s).channel(ch); fprintf(g_out, "ok\n")); }
        else if (cmd == "F.show") { int j = (int)tk.i64(); GUARD(dumpFrame(reg[j], 0); fprintf(g_out, "E\n")); }
        else if (cmd == "frameR") { int k = (int)tk.i64(); size_t idx = tk.idx(); int j = (int)tk.i64(); GUARD(O(k).frame(reg[j], idx); fprintf(g_out, "ok\n")); }
        else if (cmd == "frameD") {   // hand a stored frame back to the object: c.frame(c.data().frame(f), idx)
            int k = (int)tk.i64(); size_t idx = tk.idx(); size_t f = tk.u64();
            GUARD(O(k).frame(O(k).data().frame(f), idx); fprintf(g_out, "ok\n"));
        }
        else if (cmd == "pointcolR" || cmd == "analogcolR") {
            int k = (int)tk.i64(); size_t n = tk.u64(); std::vector<Frame> fs;
            for (size_t i = 0; i < n; ++i) fs.push_back(reg[(int)tk.i64()]);
            if (cmd == "pointcolR") { GUARD(O(k).point(fs); fprintf(g_out, "ok\n")); } else { GUARD(O(k).analog(fs); fprintf(g_out, "ok\n")); }
        }
        else if (cmd == "D.mutpt") { int k = (int)tk.i64(); size_t f = tk.u64(); size_t i = tk.u64(); float v = tk.flt(); GUARD(O(k).data().frame(f).points_nonConst().point_nonConst(i).x(v); fprintf(g_out, "ok\n")); }
        else if (cmd == "D.mutch") { int k = (int)tk.i64(); size_t f = tk.u64(); size_t s = tk.u64(); size_t i = tk.u64(); float v = tk.flt(); GUARD(O(k).data().frame(f).analogs_nonConst().subframe_nonConst(s).channel_nonConst(i).data(v); fprintf(g_out, "ok\n")); }
        // ---- look-ups (C11) ----
        else if (cmd == "D.mutptn") { int k = (int)tk.i64(); size_t f = tk.u64(); std::string n = tk.str(); float v = tk.flt(); GUARD(O(k).data().frame(f).points_nonConst().point_nonConst(n).x(v); fprintf(g_out, "ok\n")); }
        else if (cmd == "D.mutchn") { int k = (int)tk.i64(); size_t f = tk.u64(); size_t s = tk.u64(); std::string n = tk.str(); float v = tk.flt(); GUARD(O(k).data().frame(f).analogs_nonConst().subframe_nonConst(s).channel_nonConst(n).data(v); fprintf(g_out, "ok\n")); }
        // the containers as vectors (frames(), groups(), parameters(), points(), subframes(), channels()) and a point as its four floats
        else if (cmd == "get.vec") { int k = (int)tk.i64();
            GUARD(const auto& fr = O(k).data().frames(); const auto& gs = O(k).parameters().groups();
                  std::string out = "ok " + u(fr.size()) + " " + u(gs.size());
                  for (const auto& g : gs) out += " " + u(g.parameters().size());
                  out += " |";
                  size_t nf = 0;
                  for (const auto& f : fr) { if (nf++ >= 3) break;
                      out += " " + u(f.points().points().size()) + ":" + u(f.analogs().subframes().size());
                      for (const auto& sf : f.analogs().subframes()) out += "," + u(sf.channels().size());
                      size_t np = 0;
                      for (const auto& p : f.points().points()) { if (np++ >= 2) break;
                          std::vector<float> d = p.data(); ezc3d::DataNS::Points3dNS::Point q(p); std::vector<float> e = q.data_nonConst();
                          for (float x : d) out += " " + hexf(x);
                          out += (d == e || (d.size() == e.size() && memcmp(d.data(), e.data(), d.size() * sizeof(float)) == 0)) ? " =" : " !"; } }
                  fprintf(g_out, "%s\n", out.c_str())); }
        else if (cmd == "get.frame") { int k = (int)tk.i64(); size_t i = tk.u64(); GUARD(const Frame& f = O(k).data().frame(i); fprintf(g_out, "ok %s %s\n", u(f.points().nbPoints()).c_str(), u(f.analogs().nbSubframes()).c_str())); }
        else if (cmd == "get.point") { int k = (int)tk.i64(); size_t f = tk.u64(); size_t i = tk.u64(); GUARD(fprintf(g_out, "ok %s\n", pointBody(O(k).data().frame(f).points().point(i)).c_str())); }
        else if (cmd == "get.pointn") { int k = (int)tk.i64(); size_t f = tk.u64(); std::string n = tk.str(); GUARD(size_t i = O(k).data().frame(f).points().pointIdx(n); fprintf(g_out, "ok %s %s\n", u(i).c_str(), pointBody(O(k).data().frame(f).points().point(n)).c_str())); }
        else if (cmd == "get.sub") { int k = (int)tk.i64(); size_t f = tk.u64(); size_t s = tk.u64(); GUARD(fprintf(g_out, "ok %s\n", u(O(k).data().frame(f).analogs().subframe(s).nbChannels()).c_str())); }
        else if (cmd == "get.chan") { int k = (int)tk.i64(); size_t f = tk.u64(); size_t s = tk.u64(); size_t i = tk.u64(); GUARD(fprintf(g_out, "ok %s\n", chanBody(O(k).data().frame(f).analogs().subframe(s).channel(i)).c_str())); }
        else if (cmd == "get.chann") { int k = (int)tk.i64(); size_t f = tk.u64(); size_t s = tk.u64(); std::string n = tk.str(); GUARD(size_t i = O(k).data().frame(f).analogs().subframe(s).channelIdx(n); fprintf(g_out, "ok %s %s\n", u(i).c_str(), chanBody(O(k).data().frame(f).analogs().subframe(s).channel(n)).c_str())); }
        else if (cmd == "get.group") { int k = (int)tk.i64(); size_t i = tk.u64(); GUARD(fprintf(g_out, "ok %s\n", groupBody(O(k).parameters().group(i)).c_str())); }
        else if (cmd == "get.groupn") { int k = (int)tk.i64(); std::string n = tk.str(); GUARD(size_t i = O(k).parameters().groupIdx(n); fprintf(g_out, "ok %s %s\n", u(i).c_str(), groupBody(O(k).parameters().group(n)).c_str())); }
        else if (cmd == "get.param") { int k = (int)tk.i64(); size_t g = tk.u64(); size_t j = tk.u64(); GUARD(fprintf(g_out, "ok %s\n", paramBody(O(k).parameters().group(g).parameter(j)).c_str())); }
        else if (cmd == "get.paramn") { int k = (int)tk.i64(); std::string g = tk.str(); std::string n = tk.str(); GUARD(size_t j = O(k).parameters().group(g).parameterIdx(n); fprintf(g_out, "ok %s %s\n", u(j).c_str(), paramBody(O(k).parameters().group(g).parameter(n)).c_str())); }
        else if (cmd == "get.as") {
            int k = (int)tk.i64(); size_t g = tk.u64(); size_t j = tk.u64(); std::string ty = tk.next();
            GUARD(const Param& p = O(k).parameters().group(g).parameter(j); std::string s = "ok";
                  if (ty == "C") { for (auto& e : p.valuesAsString()) s += " " + hexs(e); }
                  else if (ty == "B") { for (int e : p.valuesAsByte()) s += " " + z(e); }
                  else if (ty == "I") { for (int e : p.valuesAsInt()) s += " " + z(e); }
                  else { for (float e : p.valuesAsFloat()) s += " " + hexf(e); }
                  fprintf(g_out, "%s\n", s.c_str()));
        }
        else if (cmd == "get.evt") { int k = (int)tk.i64(); size_t i = tk.u64(); GUARD(fprintf(g_out, "ok %s\n", hexf(O(k).header().eventsTime(i)).c_str())); }
        else if (cmd == "get.evd") { int k = (int)tk.i64(); size_t i = tk.u64(); GUARD(fprintf(g_out, "ok %s\n", u(O(k).header().eventsDisplay(i)).c_str())); }
        else if (cmd == "get.evl") { int k = (int)tk.i64(); size_t i = tk.u64(); GUARD(fprintf(g_out, "ok %s\n", hexs(O(k).header().eventsLabel(i)).c_str())); }
        // ---- names through constructor vs setter (C11) ----
        else if (cmd == "mk.point") { std::string how = tk.next(); std::string n = tk.str(); Points pts; if (how == "ctor") { Point p(n); pts.point(p); } else { Point p; p.name(n); pts.point(p); }
            std::string q = tk.str(); GUARD(size_t i = pts.pointIdx(q); fprintf(g_out, "ok %s %s\n", u(i).c_str(), hexs(pts.point(0).name()).c_str())); }
        else if (cmd == "mk.chan") { std::string how = tk.next(); std::string n = tk.str(); SubFrame sf; if (how == "ctor") { Channel c(n); c.data(0); sf.channel(c); } else { Channel c; c.name(n); c.data(0); sf.channel(c); }
            std::string q = tk.str(); GUARD(size_t i = sf.channelIdx(q); fprintf(g_out, "ok %s %s\n", u(i).c_str(), hexs(sf.channel(0).name()).c_str())); }
        // ---- several containers with repeated names, a sequence of name look-ups across them (C11) ----
        else if (cmd == "mk.pts" || cmd == "mk.chs") {
            size_t nc = tk.u64(); std::vector<Points> P_; std::vector<SubFrame> S_;
            for (size_t c = 0; c < nc; ++c) {
                size_t k = tk.u64(); Points pts; SubFrame sf;
                for (size_t i = 0; i < k; ++i) { std::string n = tk.str(); Point p; p.name(n); p.x((float)i); pts.point(p); Channel ch; ch.name(n); ch.data((float)i); sf.channel(ch); }
                P_.push_back(pts); S_.push_back(sf);
            }
            size_t nq = tk.u64(); std::string out = "ok";
            for (size_t q = 0; q < nq; ++q) {
                size_t c = tk.u64(); std::string n = tk.str();
                try { size_t i = (cmd == "mk.pts") ? P_.at(c).pointIdx(n) : S_.at(c).channelIdx(n);
                      float v = (cmd == "mk.pts") ? P_.at(c).point(n).x() : S_.at(c).channel(n).data();
                      out += " " + u(i) + ":" + u((size_t)v); }
                catch (std::invalid_argument&) { out += " x"; }
            }
            fprintf(g_out, "%s\n", out.c_str());
        }
        // ---- the same containers, with elements renamed IN PLACE between the look-ups (point_nonConst(j).name(...)) (C11) ----
        else if (cmd == "mk.ptsr" || cmd == "mk.chsr") {
            size_t nc = tk.u64(); std::vector<Points> P_; std::vector<SubFrame> S_;
            for (size_t c = 0; c < nc; ++c) {
                size_t k = tk.u64(); Points pts; SubFrame sf;
                for (size_t i = 0; i < k; ++i) { std::string n = tk.str(); Point p; p.name(n); p.x((float)i); pts.point(p); Channel ch; ch.name(n); ch.data((float)i); sf.channel(ch); }
                P_.push_back(pts); S_.push_back(sf);
            }
            size_t nq = tk.u64(); std::string out = "ok";
            Point* keptP = nullptr; Channel* keptC = nullptr;      // a reference the caller took earlier and still holds
            for (size_t q = 0; q < nq; ++q) {
                std::string what = tk.next(); size_t c = tk.u64();
                if (what == "k") {        // keep a reference to element j (the containers do not grow any more: it stays valid)
                    size_t j = tk.u64();
                    try { if (cmd == "mk.ptsr") keptP = &P_.at(c).point_nonConst(j); else keptC = &S_.at(c).channel_nonConst(j); out += " k"; }
                    catch (std::out_of_range&) { out += " o"; }
                } else if (what == "w") { // rename through the reference kept earlier
                    std::string n = tk.str();
                    if (cmd == "mk.ptsr" ? keptP != nullptr : keptC != nullptr) { if (cmd == "mk.ptsr") keptP->name(n); else keptC->name(n); out += " w"; } else out += " -";
                } else if (what == "r") {
                    size_t j = tk.u64(); std::string n = tk.str();
                    try { if (cmd == "mk.ptsr") P_.at(c).point_nonConst(j).name(n); else S_.at(c).channel_nonConst(j).name(n); out += " r"; }
                    catch (std::out_of_range&) { out += " o"; }
                } else {
                    std::string n = tk.str();
                    try { size_t i = (cmd == "mk.ptsr") ? P_.at(c).pointIdx(n) : S_.at(c).channelIdx(n);
                          float v = (cmd == "mk.ptsr") ? P_.at(c).point(n).x() : S_.at(c).channel(n).data();
                          out += " " + u(i) + ":" + u((size_t)v); }
                    catch (std::invalid_argument&) { out += " x"; }
                }
            }
            fprintf(g_out, "%s\n", out.c_str());
        }
        // ---- element j of a container stored AT AN INDEX of that same container (beyond the size: the vector grows first) (C13) ----
        else if (cmd == "mk.selfat") {
            size_t k = tk.u64(); size_t j = tk.u64(); size_t at = tk.u64();
            Points pts; SubFrame sf; Analogs an;
            for (size_t i = 0; i < k; ++i) {
                Point p; p.name("e" + std::to_string(i)); p.x((float)(i + 1)); pts.point(p);
                Channel ch; ch.name("e" + std::to_string(i)); ch.data((float)(i + 1)); sf.channel(ch);
                SubFrame one; one.channel(ch); an.subframe(one);
            }
            GUARD(
                pts.point(pts.point(j), at); sf.channel(sf.channel(j), at); an.subframe(an.subframe(j), at);
                std::string out = "ok";
                for (size_t i = 0; i < pts.nbPoints(); ++i) out += " " + u((size_t)pts.point(i).x());
                out += " |";
                for (size_t i = 0; i < sf.nbChannels(); ++i) out += " " + u((size_t)sf.channel(i).data());
                out += " |";
                for (size_t i = 0; i < an.nbSubframes(); ++i) out += " " + (an.subframe(i).nbChannels() ? u((size_t)an.subframe(i).channel(0).data()) : std::string("-"));
                fprintf(g_out, "%s\n", out.c_str()));
        }
        else if (cmd == "mk.self") {   // containers of k elements built one by one, then element j appended to its own container (C13: the argument aliases the container)
            size_t k = tk.u64(); size_t j = tk.u64(); std::string how = tk.str();
            Points pts = how == "sized" ? Points(k) : Points(); SubFrame sf; Analogs an;
            for (size_t i = 0; i < k; ++i) {
                Point p; p.name("e" + std::to_string(i)); p.x((float)i);
                if (how == "sized") pts.point(p, i); else pts.point(p);
                Channel ch; ch.name("e" + std::to_string(i)); ch.data((float)i); sf.channel(ch);
                SubFrame one; one.channel(ch); an.subframe(one);
            }
            if (how == "copied") { Points q(pts); pts = q; SubFrame t(sf); sf = t; Analogs b(an); an = b; }
            GUARD(
                pts.point(pts.point(j)); sf.channel(sf.channel(j)); an.subframe(an.subframe(j));
                std::string out = "ok";
                for (size_t i = 0; i < pts.nbPoints(); ++i) out += " " + u((size_t)pts.point(i).x());
                out += " |";
                for (size_t i = 0; i < sf.nbChannels(); ++i) out += " " + u((size_t)sf.channel(i).data());
                out += " |";
                for (size_t i = 0; i < an.nbSubframes(); ++i) out += " " + u((size_t)an.subframe(i).channel(0).data());
                fprintf(g_out, "%s\n", out.c_str()));
        }
        // ---- byte assembly (C12) ----
        else if (cmd == "h2u" || cmd == "h2i") {
            std::string b = tk.str(); Probe pr;
            if (cmd == "h2u") fprintf(g_out, "ok %u\n", pr.h2u(b.data(), (unsigned)b.size()));
            else fprintf(g_out, "ok %d\n", pr.h2i(b.data(), (unsigned)b.size()));
        }
        else if (cmd == "h2sweep") {   // exhaustive sweep: all 1-byte and 2-byte patterns, digest printed as full table
            Probe pr; int w = (int)tk.i64(); uint64_t lim = w == 1 ? 256 : 65536; std::string su, si;
            for (uint64_t v = 0; v < lim; ++v) { char b[2] = {(char)(v & 255), (char)(v >> 8)}; su += " " + std::to_string(pr.h2u(b, w)); si += " " + std::to_string(pr.h2i(b, w)); }
            fprintf(g_out, "ok U%s\nok I%s\n", su.c_str(), si.c_str());
        }
        else { fprintf(g_out, "script-error unknown-command %s\n", cmd.c_str()); fflush(g_out); _exit(3); }
        fflush(g_out);
    }
    for (auto& kv : obj) delete kv.second;   // destruction is part of every history (C13)
    fflush(g_out);
}

int main(int argc, char** argv) {
    if (argc < 4) { fprintf(stderr, "usage: driver cases own-dir shared-dir [--timeout s] [--aslimit MB] [--nofork]\n"); return 2; }
    g_own = argv[2]; g_shared = argv[3];
    int tmo = 20; long aslimit = 0; bool nofork = false; int nthreads = 0; unsigned jitter = 0;
    for (int i = 4; i < argc; ++i) {
        if (!strcmp(argv[i], "--timeout") && i + 1 < argc) tmo = atoi(argv[++i]);
        else if (!strcmp(argv[i], "--aslimit") && i + 1 < argc) aslimit = atol(argv[++i]);
        else if (!strcmp(argv[i], "--nofork")) nofork = true;
        else if (!strcmp(argv[i], "--threads") && i + 1 < argc) nthreads = atoi(argv[++i]);
        else if (!strcmp(argv[i], "--jitter") && i + 1 < argc) jitter = (unsigned)atoi(argv[++i]);
    }
    if (nthreads > 0) {
        // C18: every case runs in its own thread, nthreads at a time, each with its own objects and output buffer
        std::ifstream in2(argv[1]); std::string ln, cid; std::vector<std::string> cur; bool inc = false;
        std::vector<std::pair<std::string, std::vector<std::string>>> all;
        while (std::getline(in2, ln)) {
            if (ln.compare(0, 5, "case ") == 0) { cid = ln.substr(5); cur.clear(); inc = true; }
            else if (ln == "end" && inc) { all.push_back({cid, cur}); inc = false; }
            else if (inc) cur.push_back(ln);
        }
        for (size_t base = 0; base < all.size(); base += nthreads) {
            size_t n = std::min((size_t)nthreads, all.size() - base);
            std::vector<char*> bufs(n, nullptr); std::vector<size_t> lens(n, 0); std::vector<std::thread> ths;
            for (size_t t = 0; t < n; ++t)
                ths.emplace_back([&, t]() {
                    FILE* f = open_memstream(&bufs[t], &lens[t]); g_out = f;
                    if (jitter) { std::mt19937 g(jitter * 7919u + (unsigned)(base + t)); std::this_thread::sleep_for(std::chrono::microseconds(g() % 2000)); }
                    runCase(all[base + t].second);
                    fflush(f); fclose(f);
                });
            for (auto& th : ths) th.join();
            for (size_t t = 0; t < n; ++t) {
                printf("case %s\n", all[base + t].first.c_str());
                if (bufs[t]) { fwrite(bufs[t], 1, lens[t], stdout); free(bufs[t]); }
                printf("end %s exit:0\n", all[base + t].first.c_str());
            }
            fflush(stdout);
        }
        return 0;
    }
    std::ifstream in(argv[1]);
    std::string line, id; std::vector<std::string> lines; bool incase = false;
    while (std::getline(in, line)) {
        if (line.compare(0, 5, "case ") == 0) { id = line.substr(5); lines.clear(); incase = true; continue; }
        if (line == "end" && incase) {
            incase = false;
            printf("case %s\n", id.c_str()); fflush(stdout);
            if (nofork) { runCase(lines); printf("end %s exit:0\n", id.c_str()); fflush(stdout); continue; }
            pid_t pid = fork();
            if (pid == 0) {
                if (aslimit > 0) { struct rlimit rl; rl.rlim_cur = rl.rlim_max = (rlim_t)aslimit << 20; setrlimit(RLIMIT_AS, &rl); }
                struct rlimit core = {0, 0}; setrlimit(RLIMIT_CORE, &core);
                alarm(tmo);
                runCase(lines);
                fflush(stdout);
#ifdef EZ_COV
                __gcov_dump();      // bin/tie-coverage: the child leaves through _exit, which would drop its counters
#endif
                _exit(0);
            }
            int st = 0; waitpid(pid, &st, 0);
            if (WIFEXITED(st)) printf("end %s exit:%d\n", id.c_str(), WEXITSTATUS(st));
            else if (WIFSIGNALED(st)) printf("end %s signal:%d\n", id.c_str(), WTERMSIG(st));
            else printf("end %s unknown\n", id.c_str());
            fflush(stdout);
            continue;
        }
        if (incase) lines.push_back(line);
    }
    return 0;
}
