(* model_main.ml — runs the extracted Coq model on the same scripts as harness/driver.cpp
   and prints the same canonical lines.  Only glue: parsing, number conversion, printing. *)
module M = Model

(* ---------- number conversion (zarith only for decimal printing/parsing) ---------- *)
let rec pos_of_z (v : Z.t) : M.positive =
  if Z.equal v Z.one then M.XH
  else if Z.testbit v 0 then M.XI (pos_of_z (Z.shift_right v 1))
  else M.XO (pos_of_z (Z.shift_right v 1))
let n_of_z (v : Z.t) : M.n = if Z.sign v <= 0 then M.N0 else M.Npos (pos_of_z v)
let zz_of_z (v : Z.t) : M.z =
  if Z.sign v = 0 then M.Z0 else if Z.sign v > 0 then M.Zpos (pos_of_z v) else M.Zneg (pos_of_z (Z.neg v))
let rec z_of_pos (p : M.positive) : Z.t =
  match p with
  | M.XH -> Z.one
  | M.XO q -> Z.shift_left (z_of_pos q) 1
  | M.XI q -> Z.succ (Z.shift_left (z_of_pos q) 1)
let z_of_n = function M.N0 -> Z.zero | M.Npos p -> z_of_pos p
let z_of_zz = function M.Z0 -> Z.zero | M.Zpos p -> z_of_pos p | M.Zneg p -> Z.neg (z_of_pos p)
let n_of_int i = n_of_z (Z.of_int i)
let int_of_n v = Z.to_int (z_of_n v)
let su v = Z.to_string (z_of_n v)
let sz v = Z.to_string (z_of_zz v)

(* ---------- tokens ---------- *)
let out = Buffer.create 65536
let pr fmt = Printf.bprintf out fmt

exception Script_error of string
exception No_object

type toks = { t : string array; mutable i : int }
let toks line =
  { t = Array.of_list (List.filter (fun s -> s <> "") (String.split_on_char ' ' line)); i = 0 }
let more tk = tk.i < Array.length tk.t
let next tk =
  if tk.i >= Array.length tk.t then raise (Script_error "missing-token");
  let s = tk.t.(tk.i) in tk.i <- tk.i + 1; s
let tk_u tk = n_of_z (Z.of_string (next tk))
let tk_int tk = int_of_string (next tk)
let tk_z tk = zz_of_z (Z.of_string (next tk))
let tk_idx tk = let s = next tk in if s = "-" then None else Some (n_of_z (Z.of_string s))
let tk_str tk : M.bstr =
  let s = next tk in
  let n = (String.length s - 1) / 2 in
  List.init n (fun k -> n_of_int (int_of_string ("0x" ^ String.sub s (1 + 2 * k) 2)))
let tk_flt tk : M.f32 = let s = next tk in if s = "u" then M.N0 else n_of_z (Z.of_string ("0x" ^ s))

let hexs (s : M.bstr) = "x" ^ String.concat "" (List.map (fun b -> Printf.sprintf "%02x" (int_of_n b)) s)
let hexf (f : M.f32) = Printf.sprintf "%08x" (int_of_n f)

let exn_name = function
  | M.IosFailure -> "ios_failure" | M.RangeError -> "range_error" | M.OutOfRange -> "out_of_range"
  | M.InvalidArgument -> "invalid_argument" | M.LengthError -> "length_error"
  | M.RuntimeError -> "runtime_error" | M.BadAlloc -> "bad_alloc" | M.OtherStd -> "exception"
let rec int_of_nat = function M.O -> 0 | M.S n -> 1 + int_of_nat n
let ub_name = function
  | M.IdxOOB s -> Printf.sprintf "idx-oob@%d" (int_of_nat s)
  | M.EmptyVec s -> Printf.sprintf "empty-vec@%d" (int_of_nat s)
  | M.CastRange s -> Printf.sprintf "cast-range@%d" (int_of_nat s)
  | M.SignedOverflow s -> Printf.sprintf "signed-overflow@%d" (int_of_nat s)
  | M.Fuel -> "fuel"
  | M.Blowup s -> Printf.sprintf "blowup@%d" (int_of_nat s)

exception Model_ub of string   (* the model says the C++ has undefined behaviour here: stop the case *)

(* ---------- dumps (same text as driver.cpp) ---------- *)
let tchar = function M.TChar -> "C" | M.TByte -> "B" | M.TInt -> "I" | M.TFloat -> "F" | M.TNone -> "N"
let param_body (p : M.param) =
  let b = Buffer.create 128 in
  Buffer.add_string b (hexs p.M.p_name ^ " " ^ hexs p.M.p_desc ^ " " ^ (if p.M.p_lock then "1" else "0") ^ " " ^ tchar p.M.p_type);
  Buffer.add_string b (" " ^ string_of_int (List.length p.M.p_dims));
  List.iter (fun d -> Buffer.add_string b (" " ^ su d)) p.M.p_dims;
  (match p.M.p_type with
   | M.TChar -> Buffer.add_string b (" " ^ string_of_int (List.length p.M.p_strs)); List.iter (fun e -> Buffer.add_string b (" " ^ hexs e)) p.M.p_strs
   | M.TByte | M.TInt -> Buffer.add_string b (" " ^ string_of_int (List.length p.M.p_ints)); List.iter (fun e -> Buffer.add_string b (" " ^ sz e)) p.M.p_ints
   | M.TFloat -> Buffer.add_string b (" " ^ string_of_int (List.length p.M.p_floats)); List.iter (fun e -> Buffer.add_string b (" " ^ hexf e)) p.M.p_floats
   | M.TNone -> Buffer.add_string b " 0");
  Buffer.contents b
let group_body (g : M.group) =
  hexs g.M.g_name ^ " " ^ hexs g.M.g_desc ^ " " ^ (if g.M.g_lock then "1" else "0") ^ " " ^ string_of_int (List.length g.M.g_params)
let point_body (p : M.point) = hexs p.M.pt_name ^ " " ^ hexf p.M.pt_x ^ " " ^ hexf p.M.pt_y ^ " " ^ hexf p.M.pt_z ^ " " ^ hexf p.M.pt_r
let chan_body (c : M.channel) = hexs c.M.ch_name ^ " " ^ hexf c.M.ch_v

let dump_frame (f : M.frame) i =
  pr "F %d %d %d\n" i (List.length f.M.fr_pts) (List.length f.M.fr_subs);
  List.iter (fun p -> pr "p %s\n" (point_body p)) f.M.fr_pts;
  List.iteri (fun s sf -> pr "s %d %d\n" s (List.length sf); List.iter (fun c -> pr "c %s\n" (chan_body c)) sf) f.M.fr_subs

let dump_header (h : M.header) =
  pr "H %s %s %s %s %s %s %s %s %s %s %s %s %s %s %s %s %s %s %s %s | %s %s\n"
    (su h.M.h_zeros) (su h.M.h_paddr) (su h.M.h_check) (su h.M.h_points) (su h.M.h_meas) (su h.M.h_first) (su h.M.h_last)
    (su h.M.h_gap) (sz h.M.h_scale) (su h.M.h_dstart) (su h.M.h_byframe) (hexf h.M.h_rate)
    (sz h.M.h_e1) (sz h.M.h_e2) (sz h.M.h_e3) (sz h.M.h_e4) (su h.M.h_keylab) (su h.M.h_keyblk) (su h.M.h_four) (su h.M.h_nev)
    (su (M.h_nb_analogs h)) (su (M.h_nb_frames h));
  pr "HT%s\n" (String.concat "" (List.map (fun e -> " " ^ hexf e) h.M.h_evtime));
  pr "HD%s\n" (String.concat "" (List.map (fun e -> " " ^ su e) h.M.h_evdisp));
  pr "HL%s\n" (String.concat "" (List.map (fun e -> " " ^ hexs e) h.M.h_evlab))

let with_inv = ref (try Sys.getenv "EZ_INV" = "1" with Not_found -> false)
(* the decision predicates of Proofs_Decide.v: present only in the build made from ExtractX.v (lib/build.py swaps this line) *)
let ls_hook : (M.state -> bool * bool * bool list * bool) option = None
let cert_hook : (M.n list -> bool * bool list) option = None
let with_ls = ref (try Sys.getenv "EZ_LS" = "1" with Not_found -> false)
let dump_all (s : M.state) =
  dump_header s.M.hdr;
  let p = s.M.pro in
  pr "PS %s %s %s %s %d\n" (su p.M.ps_start) (su p.M.ps_check) (su p.M.ps_blocks) (su p.M.ps_proc) (List.length s.M.groups);
  List.iteri (fun i g ->
    pr "G %d %s\n" i (group_body g);
    List.iteri (fun j q -> pr "P %d %d %s\n" i j (param_body q)) g.M.g_params) s.M.groups;
  pr "D %d\n" (List.length s.M.frames);
  List.iteri (fun i f -> dump_frame f i) s.M.frames;
  if !with_inv then begin
    let r = M.inv_report_of s in
    let b x = if x then "1" else "0" in
    pr "I %s %s %s %s %s %s %s %s %s %s\n" (b r.M.r_points_hdr) (b r.M.r_points_frames) (b r.M.r_frames_hdr) (b r.M.r_frames_stored)
      (b r.M.r_subframes) (b r.M.r_analogs_hdr) (b r.M.r_analogs_meas) (b r.M.r_analogs_frames) (b r.M.r_label_counts) (b r.M.r_label_order);
    pr "T %s\n" (b (M.mt_b s.M.groups))
  end;
  (if !with_ls then match ls_hook with
    | Some f -> let (a, c, fl, plain) = f s in let b x = if x then "1" else "0" in
      pr "L %s %s %s %s\n" (b a) (b c) (String.concat "" (List.map b fl)) (b plain)
    | None -> ());
  pr "E\n"

(* ---------- frame literals ---------- *)
let read_frame_lit tk : M.frame =
  let np = tk_int tk in
  let pts = List.init np (fun _ ->
    let n = tk_str tk in let x = tk_flt tk in let y = tk_flt tk in let z = tk_flt tk in let r = tk_flt tk in
    M.lit_point n x y z r) in
  let ns = tk_int tk in
  let subs = List.init ns (fun _ ->
    let nc = tk_int tk in
    List.init nc (fun _ -> let n = tk_str tk in let v = tk_flt tk in M.lit_chan n v)) in
  { M.fr_pts = pts; M.fr_subs = subs }

(* ---------- outcome helpers ---------- *)
let on_outcome (o : 'a M.outcome) (k : 'a -> unit) =
  match o with
  | M.Ok a -> k a
  | M.Throw e -> pr "throw %s\n" (exn_name e)
  | M.UB t -> raise (Model_ub (ub_name t))

let own_dir = ref "." and shared_dir = ref "."

let read_file path : M.n list option =
  try
    let ic = open_in_bin path in
    let n = in_channel_length ic in
    let s = really_input_string ic n in
    close_in ic;
    Some (List.init n (fun i -> n_of_int (Char.code s.[i])))
  with Sys_error _ -> None

let write_file path (bs : M.n list) =
  let oc = open_out_bin path in
  List.iter (fun b -> output_char oc (Char.chr (int_of_n b))) bs;
  close_out oc

(* ---------- one case ---------- *)
let run_case (lines : string list) =
  let obj : (int, M.state) Hashtbl.t = Hashtbl.create 4 in
  let reg : (int, M.cframe) Hashtbl.t = Hashtbl.create 4 in
  let heap = ref M.heap0 in
  let rg j = try Hashtbl.find reg j with Not_found -> (let (h, r) = M.h_new !heap in heap := h; Hashtbl.replace reg j r; r) in
  let pp = ref (M.new_param [] []) in
  let o k = try Hashtbl.find obj k with Not_found -> raise No_object in
  let apply k (op : M.op) =
    match M.step_x (o k) op with
    | M.ROk ((), s') -> Hashtbl.replace obj k s'; pr "ok\n"
    | M.RThrow (e, s') -> Hashtbl.replace obj k s'; pr "throw %s\n" (exn_name e)
    | M.RUB t -> raise (Model_ub (ub_name t)) in
  let setp (r : M.param M.outcome) = on_outcome r (fun p -> pp := p; pr "ok\n") in
  List.iter (fun line ->
    let tk = toks line in
    if more tk then begin
      let cmd = next tk in
      (try (match cmd with
       | "new" -> let k = tk_int tk in Hashtbl.replace obj k M.init; pr "ok\n"
       | "load" | "loadx" ->
         let k = tk_int tk in let name = next tk in
         let path = (if cmd = "load" then !own_dir else !shared_dir) ^ "/" ^ name in
         (match read_file path with
          | None -> pr "throw ios_failure\n"
          | Some bs -> on_outcome (M.load_x bs) (fun s -> Hashtbl.replace obj k s; pr "ok\n"))
       | "cert" | "certx" ->   (* does the layout theorem (Proofs_LayoutCert.layout_cert) apply to this file? *)
         let name = next tk in
         let path = (if cmd = "cert" then !own_dir else !shared_dir) ^ "/" ^ name in
         (match read_file path, cert_hook with
          | Some bs, Some f -> let (a, fl) = f bs in let b x = if x then "1" else "0" in pr "C %s %s\n" (b a) (String.concat "" (List.map b fl))
          | _, _ -> pr "C - -\n")
       | "save" ->
         let k = tk_int tk in let name = next tk in
         on_outcome (M.save_x (o k)) (fun bs -> write_file (!own_dir ^ "/" ^ name) bs; pr "ok\n")
       | "fsum" ->
         let name = next tk in
         (try
            let ic = open_in_bin (!own_dir ^ "/" ^ name) in
            let n = in_channel_length ic in
            let s = really_input_string ic n in close_in ic;
            let h = ref (Z.of_string "1469598103934665603") and prime = Z.of_string "1099511628211" and mask = Z.pred (Z.shift_left Z.one 64) in
            String.iter (fun ch -> h := Z.logand (Z.mul (Z.logxor !h (Z.of_int (Char.code ch))) prime) mask) s;
            pr "ok %d %s\n" n (Z.format "%016x" !h)
          with Sys_error _ -> pr "nofile\n")
       | "savefault" ->
         let k = tk_int tk in let mode = next tk in let arg = next tk in
         let name = if mode = "limit" then next tk else arg in
         on_outcome (M.save_x (o k)) (fun bs ->
           let open_ok = (mode = "limit") || (mode = "path" && arg = "/dev/full") in
           let limit = if mode = "limit" then Some (n_of_z (Z.of_string arg)) else if arg = "/dev/full" then Some M.N0 else None in
           match M.save_io bs open_ok limit with
           | M.Normal disk -> write_file (!own_dir ^ "/" ^ name) disk; pr "ok\ndisk %d\n" (List.length disk)
           | M.IoFailure _ -> pr "throw ios_failure\ndisk ?\n")
       | "snap" -> let k = tk_int tk in dump_all (o k)
       | "print" -> let _ = tk_int tk in pr "ok\n"
       | "drop" -> let k = tk_int tk in Hashtbl.remove obj k; pr "ok\n"
       | "P.new" -> let n = tk_str tk in let d = tk_str tk in pp := M.new_param n d; pr "ok\n"
       | "P.name" -> let n = tk_str tk in pp := M.p_set_name !pp n; pr "ok\n"
       | "P.desc" -> let n = tk_str tk in pp := M.p_set_desc !pp n; pr "ok\n"
       | "P.lock" -> pp := M.p_set_lock !pp true; pr "ok\n"
       | "P.unlock" -> pp := M.p_set_lock !pp false; pr "ok\n"
       | "P.set" ->
         let ty = next tk in
         let nd = tk_int tk in let dims = List.init nd (fun _ -> tk_u tk) in
         let nv = tk_int tk in
         (match ty with
          | "I" -> let v = List.init nv (fun _ -> tk_z tk) in setp (M.set_ints !pp v dims)
          | "F" -> let v = List.init nv (fun _ -> tk_flt tk) in setp (M.set_floats !pp v dims)
          | _ -> let v = List.init nv (fun _ -> tk_str tk) in setp (M.set_strs !pp v dims))
       | "P.seti" -> let v = tk_z tk in setp (M.set_int1 !pp v)
       | "P.setu" -> let v = tk_u tk in setp (M.set_usize1 !pp v)
       | "P.setf" -> let v = tk_flt tk in setp (M.set_floats !pp [v] [])
       | "P.sets" -> let v = tk_str tk in setp (M.set_strs !pp [v] [])
       | "P.as" -> let ty = next tk in let p = !pp in
           (match ty with
           | "C" -> on_outcome (M.values_as_string p) (fun v -> pr "ok%s\n" (String.concat "" (List.map (fun e -> " " ^ hexs e) v)))
           | "B" -> on_outcome (M.values_as_byte p) (fun v -> pr "ok%s\n" (String.concat "" (List.map (fun e -> " " ^ sz e) v)))
           | "I" -> on_outcome (M.values_as_int p) (fun v -> pr "ok%s\n" (String.concat "" (List.map (fun e -> " " ^ sz e) v)))
           | _ -> on_outcome (M.values_as_float p) (fun v -> pr "ok%s\n" (String.concat "" (List.map (fun e -> " " ^ hexf e) v))))
       | "P.get" -> let k = tk_int tk in let g = tk_str tk in let n = tk_str tk in
         on_outcome (M.group_named (o k).M.groups g) (fun gr -> on_outcome (M.param_named gr n) (fun p -> pp := p; pr "ok\n"))
       | "P.show" -> pr "ok %s\n" (param_body !pp)
       | "param" -> let k = tk_int tk in let g = tk_str tk in apply k (M.OParam (g, !pp))
       | "lock" -> let k = tk_int tk in let g = tk_str tk in apply k (M.OLock g)
       | "unlock" -> let k = tk_int tk in let g = tk_str tk in apply k (M.OUnlock g)
       | "frame" -> let k = tk_int tk in let idx = tk_idx tk in let f = read_frame_lit tk in apply k (M.OFrame (f, idx))
       | "point" -> let k = tk_int tk in let n = tk_str tk in apply k (M.OPoint n)
       | "analog" -> let k = tk_int tk in let n = tk_str tk in apply k (M.OAnalog n)
       | "pointcol" | "analogcol" ->
         let k = tk_int tk in let n = tk_int tk in
         let fs = List.init n (fun _ -> read_frame_lit tk) in
         apply k (if cmd = "pointcol" then M.OPointCol fs else M.OAnalogCol fs)
       (* ---- caller-side frames: handles into a heap (Heap.v) ---- *)
       | "F.new" -> let j = tk_int tk in let (h, r) = M.h_new !heap in heap := h; Hashtbl.replace reg j r; pr "ok\n"
       | "F.set" -> let j = tk_int tk in let f = read_frame_lit tk in ignore (rg j);
         let (h, r) = M.h_set !heap f in heap := h; Hashtbl.replace reg j r; pr "ok\n"
       | "F.fromdata" -> let j = tk_int tk in let k = tk_int tk in let f = tk_u tk in
         (* exact as long as the copy is rebound (F.set) before either side is edited in place: the generator guarantees it *)
         on_outcome (M.at_ (o k).M.frames f) (fun fr -> let (h, r) = M.h_set !heap fr in heap := h; Hashtbl.replace reg j r; pr "ok\n")
       | "F.copy" -> let j = tk_int tk in let i = tk_int tk in Hashtbl.replace reg j (rg i); pr "ok\n"
       | "F.mutpt" -> let j = tk_int tk in let i = tk_u tk in let v = tk_flt tk in
         on_outcome (M.h_mut_pt !heap (rg j) i v) (fun h -> heap := h; pr "ok\n")
       | "F.addpt" -> let j = tk_int tk in let n = tk_str tk in let x = tk_flt tk in let y = tk_flt tk in let z = tk_flt tk in let r = tk_flt tk in
         heap := M.h_add_pt !heap (rg j) (M.lit_point n x y z r); pr "ok\n"
       | "F.mutch" -> let j = tk_int tk in let s = tk_u tk in let i = tk_u tk in let v = tk_flt tk in
         on_outcome (M.h_mut_ch !heap (rg j) s i v) (fun h -> heap := h; pr "ok\n")
       | "F.addch" -> let j = tk_int tk in let s = tk_u tk in let n = tk_str tk in let v = tk_flt tk in
         on_outcome (M.h_add_ch !heap (rg j) s (M.lit_chan n v)) (fun h -> heap := h; pr "ok\n")
       | "F.show" -> let j = tk_int tk in dump_frame (M.h_view !heap (rg j)) 0; pr "E\n"
       | "frameR" -> let k = tk_int tk in let idx = tk_idx tk in let j = tk_int tk in apply k (M.OFrame (M.h_view !heap (rg j), idx))
       | "frameD" -> let k = tk_int tk in let idx = tk_idx tk in let f = tk_u tk in
         on_outcome (M.at_ (o k).M.frames f) (fun fr -> apply k (M.OFrame (fr, idx)))
       | "pointcolR" | "analogcolR" ->
         let k = tk_int tk in let n = tk_int tk in
         let fs = List.init n (fun _ -> M.h_view !heap (rg (tk_int tk))) in
         apply k (if cmd = "pointcolR" then M.OPointCol fs else M.OAnalogCol fs)
       | "D.mutpt" -> let k = tk_int tk in let f = tk_u tk in let i = tk_u tk in let v = tk_flt tk in
         on_outcome (M.d_mut_pt (o k) f i v) (fun s -> Hashtbl.replace obj k s; pr "ok\n")
       | "D.mutch" -> let k = tk_int tk in let f = tk_u tk in let s = tk_u tk in let i = tk_u tk in let v = tk_flt tk in
         on_outcome (M.d_mut_ch (o k) f s i v) (fun st -> Hashtbl.replace obj k st; pr "ok\n")
       | "D.mutptn" -> let k = tk_int tk in let f = tk_u tk in let n = tk_str tk in let v = tk_flt tk in
         on_outcome (M.at_ (o k).M.frames f) (fun fr -> on_outcome (M.point_idx fr.M.fr_pts n) (fun i ->
           on_outcome (M.d_mut_pt (o k) f i v) (fun s -> Hashtbl.replace obj k s; pr "ok\n")))
       | "D.mutchn" -> let k = tk_int tk in let f = tk_u tk in let sfi = tk_u tk in let n = tk_str tk in let v = tk_flt tk in
         on_outcome (M.at_ (o k).M.frames f) (fun fr -> on_outcome (M.at_ fr.M.fr_subs sfi) (fun sf -> on_outcome (M.channel_idx sf n) (fun i ->
           on_outcome (M.d_mut_ch (o k) f sfi i v) (fun st -> Hashtbl.replace obj k st; pr "ok\n"))))
       | "get.vec" -> let k = tk_int tk in
         let st = o k in
         let b = Buffer.create 128 in
         Buffer.add_string b (Printf.sprintf "ok %d %d" (List.length st.M.frames) (List.length st.M.groups));
         List.iter (fun g -> Buffer.add_string b (Printf.sprintf " %d" (List.length g.M.g_params))) st.M.groups;
         Buffer.add_string b " |";
         List.iteri (fun fi f -> if fi < 3 then begin
           Buffer.add_string b (Printf.sprintf " %d:%d" (List.length f.M.fr_pts) (List.length f.M.fr_subs));
           List.iter (fun sf -> Buffer.add_string b (Printf.sprintf ",%d" (List.length sf))) f.M.fr_subs;
           List.iteri (fun pi p -> if pi < 2 then
             Buffer.add_string b (Printf.sprintf " %s %s %s %s =" (hexf p.M.pt_x) (hexf p.M.pt_y) (hexf p.M.pt_z) (hexf p.M.pt_r))) f.M.fr_pts end) st.M.frames;
         pr "%s\n" (Buffer.contents b)
       (* ---- look-ups ---- *)
       | "get.frame" -> let k = tk_int tk in let i = tk_u tk in
         on_outcome (M.at_ (o k).M.frames i) (fun f -> pr "ok %d %d\n" (List.length f.M.fr_pts) (List.length f.M.fr_subs))
       | "get.point" -> let k = tk_int tk in let f = tk_u tk in let i = tk_u tk in
         on_outcome (M.at_ (o k).M.frames f) (fun fr -> on_outcome (M.at_ fr.M.fr_pts i) (fun p -> pr "ok %s\n" (point_body p)))
       | "get.pointn" -> let k = tk_int tk in let f = tk_u tk in let n = tk_str tk in
         on_outcome (M.at_ (o k).M.frames f) (fun fr -> on_outcome (M.point_idx fr.M.fr_pts n) (fun i ->
           on_outcome (M.at_ fr.M.fr_pts i) (fun p -> pr "ok %s %s\n" (su i) (point_body p))))
       | "get.sub" -> let k = tk_int tk in let f = tk_u tk in let s = tk_u tk in
         on_outcome (M.at_ (o k).M.frames f) (fun fr -> on_outcome (M.at_ fr.M.fr_subs s) (fun sf -> pr "ok %d\n" (List.length sf)))
       | "get.chan" -> let k = tk_int tk in let f = tk_u tk in let s = tk_u tk in let i = tk_u tk in
         on_outcome (M.at_ (o k).M.frames f) (fun fr -> on_outcome (M.at_ fr.M.fr_subs s) (fun sf ->
           on_outcome (M.at_ sf i) (fun c -> pr "ok %s\n" (chan_body c))))
       | "get.chann" -> let k = tk_int tk in let f = tk_u tk in let s = tk_u tk in let n = tk_str tk in
         on_outcome (M.at_ (o k).M.frames f) (fun fr -> on_outcome (M.at_ fr.M.fr_subs s) (fun sf ->
           on_outcome (M.channel_idx sf n) (fun i -> on_outcome (M.at_ sf i) (fun c -> pr "ok %s %s\n" (su i) (chan_body c)))))
       | "get.group" -> let k = tk_int tk in let i = tk_u tk in
         on_outcome (M.group_at (o k).M.groups i) (fun g -> pr "ok %s\n" (group_body g))
       | "get.groupn" -> let k = tk_int tk in let n = tk_str tk in
         on_outcome (M.group_idx (o k).M.groups n) (fun i -> on_outcome (M.group_at (o k).M.groups i) (fun g -> pr "ok %s %s\n" (su i) (group_body g)))
       | "get.param" -> let k = tk_int tk in let g = tk_u tk in let j = tk_u tk in
         on_outcome (M.group_at (o k).M.groups g) (fun gr -> on_outcome (M.param_at gr j) (fun p -> pr "ok %s\n" (param_body p)))
       | "get.paramn" -> let k = tk_int tk in let g = tk_str tk in let n = tk_str tk in
         on_outcome (M.group_idx (o k).M.groups g) (fun gi -> on_outcome (M.group_at (o k).M.groups gi) (fun gr ->
           on_outcome (M.param_idx gr n) (fun j -> on_outcome (M.param_at gr j) (fun p -> pr "ok %s %s\n" (su j) (param_body p)))))
       | "get.as" -> let k = tk_int tk in let g = tk_u tk in let j = tk_u tk in let ty = next tk in
         on_outcome (M.group_at (o k).M.groups g) (fun gr -> on_outcome (M.param_at gr j) (fun p ->
           match ty with
           | "C" -> on_outcome (M.values_as_string p) (fun v -> pr "ok%s\n" (String.concat "" (List.map (fun e -> " " ^ hexs e) v)))
           | "B" -> on_outcome (M.values_as_byte p) (fun v -> pr "ok%s\n" (String.concat "" (List.map (fun e -> " " ^ sz e) v)))
           | "I" -> on_outcome (M.values_as_int p) (fun v -> pr "ok%s\n" (String.concat "" (List.map (fun e -> " " ^ sz e) v)))
           | _ -> on_outcome (M.values_as_float p) (fun v -> pr "ok%s\n" (String.concat "" (List.map (fun e -> " " ^ hexf e) v)))))
       | "get.evt" -> let k = tk_int tk in let i = tk_u tk in on_outcome (M.at_ (o k).M.hdr.M.h_evtime i) (fun v -> pr "ok %s\n" (hexf v))
       | "get.evd" -> let k = tk_int tk in let i = tk_u tk in on_outcome (M.at_ (o k).M.hdr.M.h_evdisp i) (fun v -> pr "ok %s\n" (su v))
       | "get.evl" -> let k = tk_int tk in let i = tk_u tk in on_outcome (M.at_ (o k).M.hdr.M.h_evlab i) (fun v -> pr "ok %s\n" (hexs v))
       | "mk.point" -> let _how = next tk in let n = tk_str tk in let q = tk_str tk in
         let pts = [M.lit_point n M.N0 M.N0 M.N0 M.N0] in
         on_outcome (M.point_idx pts q) (fun i -> pr "ok %s %s\n" (su i) (hexs (List.hd pts).M.pt_name))
       | "mk.chan" -> let _how = next tk in let n = tk_str tk in let q = tk_str tk in
         let sf = [M.lit_chan n M.N0] in
         on_outcome (M.channel_idx sf q) (fun i -> pr "ok %s %s\n" (su i) (hexs (List.hd sf).M.ch_name))
       | "mk.pts" | "mk.chs" ->
         let nc = tk_int tk in
         let conts = List.init nc (fun _ -> let k = tk_int tk in List.init k (fun _ -> tk_str tk)) in
         let nq = tk_int tk in
         let b = Buffer.create 64 in Buffer.add_string b "ok";
         for _ = 1 to nq do
           let c = tk_int tk in let n = tk_str tk in
           let names = List.nth conts c in
           let pts = List.map (fun nm -> M.lit_point nm M.N0 M.N0 M.N0 M.N0) names in
           (match M.point_idx pts n with
            | M.Ok i -> Buffer.add_string b (" " ^ su i ^ ":" ^ su i)
            | _ -> Buffer.add_string b " x")
         done;
         pr "%s\n" (Buffer.contents b)
       | "mk.ptsr" | "mk.chsr" ->
         let nc = tk_int tk in
         let conts = Array.init nc (fun _ -> let k = tk_int tk in Array.init k (fun _ -> M.rtrim (tk_str tk))) in
         let nq = tk_int tk in
         let b = Buffer.create 64 in Buffer.add_string b "ok";
         let kept = ref None in
         for _ = 1 to nq do
           let what = next tk in let c = tk_int tk in
           if what = "k" then begin
             let j = tk_int tk in
             if j < Array.length conts.(c) then (kept := Some (c, j); Buffer.add_string b " k") else Buffer.add_string b " o"
           end else if what = "w" then begin
             let n = tk_str tk in
             (match !kept with Some (kc, kj) -> conts.(kc).(kj) <- M.rtrim n; Buffer.add_string b " w" | None -> Buffer.add_string b " -")
           end else if what = "r" then begin
             let j = tk_int tk in let n = tk_str tk in
             if j < Array.length conts.(c) then (conts.(c).(j) <- M.rtrim n; Buffer.add_string b " r") else Buffer.add_string b " o"
           end else begin
             let n = tk_str tk in
             let pts = List.map (fun nm -> M.lit_point nm M.N0 M.N0 M.N0 M.N0) (Array.to_list conts.(c)) in
             (match M.point_idx pts n with
              | M.Ok i -> Buffer.add_string b (" " ^ su i ^ ":" ^ su i)
              | _ -> Buffer.add_string b " x")
           end
         done;
         pr "%s\n" (Buffer.contents b)
       | "mk.selfat" ->
         let k = tk_int tk in let j = tk_int tk in let at = tk_int tk in
         if j >= k then pr "throw out_of_range\n" else begin
           let n = max k (at + 1) in
           let cell dflt i = if i = at then string_of_int (j + 1) else if i < k then string_of_int (i + 1) else dflt in
           let l dflt = String.concat "" (List.init n (fun i -> " " ^ cell dflt i)) in
           pr "ok%s |%s |%s\n" (l "0") (l "0") (l "-") end
       | "mk.self" ->
         let k = tk_int tk in let j = tk_int tk in let _how = next tk in
         if j >= k then pr "throw out_of_range\n" else begin
           let l = String.concat "" (List.init k (fun i -> " " ^ string_of_int i)) ^ " " ^ string_of_int j in
           pr "ok%s |%s |%s\n" l l l end
       | "h2u" -> let b = tk_str tk in pr "ok %s\n" (sz (M.hex2uint b))
       | "h2i" -> let b = tk_str tk in pr "ok %s\n" (sz (M.hex2int b))
       | "h2sweep" ->
         let w = tk_int tk in let lim = if w = 1 then 256 else 65536 in
         let bu = Buffer.create 400000 and bi = Buffer.create 400000 in
         for v = 0 to lim - 1 do
           let bs = if w = 1 then [n_of_int v] else [n_of_int (v land 255); n_of_int (v lsr 8)] in
           Buffer.add_string bu (" " ^ sz (M.hex2uint bs)); Buffer.add_string bi (" " ^ sz (M.hex2int bs))
         done;
         pr "ok U%s\nok I%s\n" (Buffer.contents bu) (Buffer.contents bi)
       | _ -> raise (Script_error ("unknown-command " ^ cmd)))
       with No_object -> pr "noobj\n")
    end) lines;
  ()

let () =
  let cases = Sys.argv.(1) in
  own_dir := Sys.argv.(2); shared_dir := Sys.argv.(3);
  let ic = open_in cases in
  let cur = ref [] and id = ref "" and incase = ref false in
  (try
     while true do
       let line = input_line ic in
       if String.length line >= 5 && String.sub line 0 5 = "case " then begin
         id := String.sub line 5 (String.length line - 5); cur := []; incase := true
       end else if line = "end" && !incase then begin
         incase := false;
         Buffer.clear out;
         pr "case %s\n" !id;
         let status =
           (try run_case (List.rev !cur); "exit:0" with
            | Model_ub t -> "ub:" ^ t
            | Script_error m -> pr "script-error %s\n" m; "exit:3"
            | Stack_overflow -> "model-stack-overflow") in
         pr "end %s %s\n" !id status;
         print_string (Buffer.contents out)
       end else if !incase then cur := line :: !cur
     done
   with End_of_file -> ());
  close_in ic
