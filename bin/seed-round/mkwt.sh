#!/bin/bash
# mkwt.sh <dir> : scratch worktree of /repo HEAD, configured and built with tests
wt=$1
git -C /repo worktree remove --force $wt >/dev/null 2>&1
git -C /repo worktree add --detach $wt HEAD >/dev/null 2>&1 || exit 2
rmdir $wt/external/gtest 2>/dev/null; cp -r /repo/external/gtest $wt/external/gtest
cmake -S $wt -B $wt/_build -G Ninja -DBUILD_TESTS=ON -DCMAKE_BUILD_TYPE=RelWithDebInfo -DCMAKE_CXX_FLAGS=-Wno-error >/dev/null 2>&1
cmake --build $wt/_build >/dev/null 2>&1 && (cd $wt/_build && ctest 2>&1 | tail -3)
