#!/bin/bash
# batch.sh P1 P2 ... : confirm both seeds of each property, then run the matrix
cd /verif
for p in "$@"; do for k in 1 2; do n=$p-r9$( [ $k = 1 ] && echo a || echo b ); ( bin/confirm-seed $p $n /tmp/r9-$p/out/$k > /tmp/cf-$n.log 2>&1 ) & done; done; wait
for p in "$@"; do for k in a b; do n=$p-r9$k; grep -h -E "suite_with|CONFIRMED" /tmp/cf-$n.log | tr '\n' ' '; echo; done; done
for p in "$@"; do for k in a b; do n=$p-r9$k; [ -d seeded/$n ] && (bin/seed-matrix $n > /tmp/sm-$n.txt 2>&1) & done; done; wait
for p in "$@"; do for k in a b; do cat /tmp/sm-$p-r9$k.txt 2>/dev/null | grep -v WARNING; done; done
