# setup: build the Coq development (full .vo build), extract and compile the model, warm the driver cache
.PHONY: setup coq clean
setup:
	python3 -c "import sys; sys.path.insert(0,'/verif'); from lib import build; ok,log=build.build_coq(); print(log[-2000:]); sys.exit(0 if ok else 1)"
	python3 -c "import sys; sys.path.insert(0,'/verif'); from lib import build; print(build.build_model()); print(build.build_driver('plain')); print(build.build_driver('asan'))"
clean:
	rm -rf build work coq/*.vo coq/*.glob coq/*.vok coq/*.vos coq/.*.aux coq/Makefile.coq*
