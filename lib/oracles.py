"""Python mirrors of the specification predicates, evaluated directly on dumps of the real
library (used to look for a concrete failing input; the Coq predicates are the reference
and the two are cross-checked on every model snapshot)."""
import struct

def fbits(h): return int(h, 16)
def fval(h): return struct.unpack('<f', struct.pack('<I', int(h, 16)))[0]
def rate_key(h):
    v = fval(h)
    p = struct.unpack('<f', struct.pack('<f', v * 10000.0))[0] if abs(v) < 1e30 else float('inf')
    if p != p or abs(p) >= 2**31: return None
    return int(p)

def inv_components(s):
    """C05: list of components on which header, POINT/ANALOG parameters and stored data disagree."""
    bad = []
    h = s.h
    def pint(g, n):
        p = s.param(g, n)
        if p is None or p['type'] != 'I' or not p['vals']: return None
        return p['vals'][0] % (1 << 64)
    used = pint(b'POINT', b'USED'); frames = pint(b'POINT', b'FRAMES'); aused = pint(b'ANALOG', b'USED')
    nfr = len(s.frames)
    filled = [f for f in s.frames if f['pts'] or f['subs']]
    if used is None or frames is None or aused is None: return ['mandatory-parameter-missing']
    if h['npts'] != used: bad.append('hdr.points!=POINT:USED')
    for i, f in enumerate(s.frames):
        if (f['pts'] or f['subs']) and len(f['pts']) != used: bad.append('frame.points!=POINT:USED'); break
    if h['nframes'] != frames: bad.append('hdr.frames!=POINT:FRAMES')
    if frames != nfr: bad.append('POINT:FRAMES!=stored')
    for f in filled:
        if len(f['subs']) != h['byframe']: bad.append('frame.subframes!=hdr.byframe'); break
    if h['byframe'] >= 1:
        if h['nanalogs'] != aused: bad.append('hdr.analogs!=ANALOG:USED')
        if h['nmeas'] != h['nanalogs'] * h['byframe']: bad.append('hdr.meas!=analogs*byframe')
        for f in filled:
            if any(len(sf) != aused for sf in f['subs']): bad.append('subframe.channels!=ANALOG:USED'); break
    pr = s.param(b'POINT', b'RATE')
    if pr is None or pr['type'] != 'F' or not pr['vals']: bad.append('POINT:RATE missing')
    else:
        k1, k2 = rate_key(pr['vals'][0]), rate_key(h['rate'])
        if k1 is not None and k2 is not None and k1 != k2: bad.append('hdr.rate!=POINT:RATE')
    # label-like lists, one entry per point / channel in data order
    for g, n, cnt in ((b'POINT', b'LABELS', used), (b'POINT', b'DESCRIPTIONS', used), (b'POINT', b'UNITS', used),
                      (b'ANALOG', b'LABELS', aused), (b'ANALOG', b'DESCRIPTIONS', aused), (b'ANALOG', b'SCALE', aused),
                      (b'ANALOG', b'OFFSET', aused), (b'ANALOG', b'UNITS', aused)):
        p = s.param(g, n)
        if p is None: bad.append('%s:%s missing' % (g.decode(), n.decode())); continue
        if len(p['vals']) != cnt: bad.append('%s:%s entries!=count' % (g.decode(), n.decode()))
    pl = s.param(b'POINT', b'LABELS')
    if pl and pl['type'] == 'C':
        for f in filled:
            if [p[0] for p in f['pts']] != pl['vals'][:len(f['pts'])] and sorted(p[0] for p in f['pts']) != sorted(pl['vals']):
                bad.append('POINT:LABELS!=frame names'); break
        if filled and s.frames[0]['pts'] and [p[0] for p in s.frames[0]['pts']] != pl['vals']:
            bad.append('POINT:LABELS order!=frame0 order')
    al = s.param(b'ANALOG', b'LABELS')
    if al and al['type'] == 'C' and filled and s.frames[0]['subs']:
        if [c[0] for c in s.frames[0]['subs'][0]] != al['vals']: bad.append('ANALOG:LABELS!=frame0 channels')
    return bad
