"""Generators of API histories (scripts). One PRNG; sizes are put on the model's case splits.
The generator tracks an approximate shape of the object so that most operations are valid;
deviations are injected deliberately and labelled."""
from .harness import hx, fhex, f2bits

FLOAT_POOL = [0x00000000, 0x80000000, 0x3f800000, 0xbf800000, 0x7f800000, 0xff800000, 0x7fc00000, 0xffc00001,
              0x7fa00001, 0x00000001, 0x807fffff, 0x00800000, 0x7f7fffff, 0x42c80000, 0x3dcccccd, 0xc2f6e979]
def rfloat(rng):
    r = rng.random()
    if r < 0.35: return rng.choice(FLOAT_POOL)
    if r < 0.6: return f2bits(rng.uniform(-1000, 1000))
    return rng.getrandbits(32)

NAME_CHARS = 'abcdefghijklmnopqrstuvwxyzABCDEFGHIJKLMNOPQRSTUVWXYZ0123456789_:-. '
def rname(rng, maxlen=8, allow_space_tail=True):
    n = rng.choice([1, 1, 2, 3, 5, maxlen])
    s = ''.join(rng.choice(NAME_CHARS[:-1]) for _ in range(n))
    # a control white-space at the end now and then (only the blank is trimmed by the name setters), possibly before blanks
    if allow_space_tail and rng.random() < 0.04: s += rng.choice('\t\n\r\x0b\x0c')
    if allow_space_tail and rng.random() < 0.15: s += ' ' * rng.choice([1, 2])
    return s.encode()

POINT_RATES = [50.0, 100.0, 60.0, 0.5, 1000.0, 29.97, 1.0, 200.0]

class Hist:
    """Builds one history on object slot 0 and mirrors an approximate shape."""
    def __init__(self, rng, snap_every=True):
        self.rng = rng; self.lines = ['new 0']; self.snap_every = snap_every
        self.pts = []; self.chans = []; self.prate = None; self.arate = None
        self.nframes = 0; self.nsub = None; self.kinds = []
        self.f0_pts = None; self.f0_chans = None
        if snap_every: self.lines.append('snap 0')

    def emit(self, line, kind):
        self.lines.append(line); self.kinds.append(kind)
        if self.snap_every: self.lines.append('snap 0')

    # ---- shape helpers ----
    def cur_nsub(self):
        if self.nframes > 0 and self.nsub is not None: return self.nsub
        if self.arate is None: return 0 if not self.chans else (1 if not self.prate else 0)
        if not self.prate: return 1
        import struct
        q = struct.unpack('<f', struct.pack('<f', self.arate / self.prate))[0]
        return int(q)

    def frame_lit(self, pts=None, chans=None, nsub=None, permute=False):
        rng = self.rng
        pts = self.pts if pts is None else pts
        chans = self.chans if chans is None else chans
        nsub = self.cur_nsub() if nsub is None else nsub
        if not chans: nsub_eff = 0
        else: nsub_eff = nsub
        order = list(pts)
        if permute: rng.shuffle(order)
        t = [str(len(order))]
        for n in order:
            t += [hx(n), fhex(rfloat(rng)), fhex(rfloat(rng)), fhex(rfloat(rng)), fhex(rfloat(rng))]
        t.append(str(nsub_eff))
        for _ in range(nsub_eff):
            t.append(str(len(chans)))
            for c in chans: t += [hx(c), fhex(rfloat(rng))]
        return ' '.join(t)

    # ---- operations ----
    def declare_point(self, name=None):
        name = name if name is not None else rname(self.rng)
        self.emit('point 0 ' + hx(name), 'point')
        tn = name.rstrip(b' ')
        if self.nframes == 0 or tn not in self.pts:
            if self.nframes == 0 or self.prate_ok_for_col(): self.pts.append(tn)
    def prate_ok_for_col(self): return True
    def declare_analog(self, name=None):
        name = name if name is not None else rname(self.rng)
        self.emit('analog 0 ' + hx(name), 'analog')
        tn = name.rstrip(b' ')
        if self.nframes == 0 or (tn not in self.chans and self.cur_nsub() > 0): self.chans.append(tn)
    def set_rate(self, group, value, lock=None):
        self.lines.append('P.new ' + hx(b'RATE') + ' x')
        self.lines.append('P.set F 0 1 ' + fhex(f2bits(value)))
        if lock if lock is not None else self.rng.random() < 0.5: self.lines.append('P.lock')
        self.emit('param 0 ' + hx(group), 'rate')
        if group == b'POINT': self.prate = value
        else: self.arate = value
    def rand_param(self, group=None, name=None):
        rng = self.rng
        group = group or rng.choice([b'POINT', b'ANALOG', b'FORCE_PLATFORM', b'EXTRA', b'extra', rname(rng, 6, False),
                                     # names of 16 characters and more (heap-allocated std::string) up to the format's 127
                                     b'FORCE_PLATFORM_CALIBRATION', b'A_GROUP_NAME_OF_32_CHARACTERS_XX', b'G' * rng.choice([15, 16, 17, 64, 127])])
        name = name or rng.choice([b'CUSTOM', b'custom', b'X', rname(rng, 6, False), b'ZERO', b'GEN_SCALE', b'DESCRIPTIONS', b'A_PARAMETER_NAME_OF_28_CHARS', b'N' * rng.choice([16, 31, 127])])
        desc = b'' if rng.random() < 0.5 else bytes(rng.randrange(32, 127) for _ in range(rng.choice([1, 5, 40])))
        self.lines.append('P.new %s %s' % (hx(name), hx(desc)))
        ty = rng.choice('IFS')
        nd = rng.choice([0, 0, 1, 1, 2, 3])
        dims = [rng.choice([0, 1, 2, 3]) for _ in range(nd)]
        n = 1
        for d in dims: n *= d
        if nd == 0: n = rng.choice([0, 1, 2, 5])
        if rng.random() < 0.1: n += rng.choice([1, -1]) if n > 0 else 1     # inconsistent on purpose
        if ty == 'I': vals = [str(rng.choice([0, 1, -1, 32767, -32768, rng.randrange(-40000, 40000)])) for _ in range(n)]
        elif ty == 'F': vals = [fhex(rfloat(rng)) for _ in range(n)]
        else: vals = [hx(rname(rng, 10)) for _ in range(n)]
        self.lines.append('P.set %s %d %s %d %s' % (ty, nd, ' '.join(map(str, dims)), n, ' '.join(vals)))
        if rng.random() < 0.3: self.lines.append('P.lock')
        self.emit('param 0 ' + hx(group), 'param')
    def lock(self, group=None):
        g = group or self.rng.choice([b'POINT', b'ANALOG', b'FORCE_PLATFORM', b'EXTRA', b'NOPE'])
        self.emit('%s 0 %s' % (self.rng.choice(['lock', 'unlock']), hx(g)), 'lock')
    def ensure_rates(self):
        if self.pts and not self.prate: self.set_rate(b'POINT', self.rng.choice(POINT_RATES))
        if self.chans and not self.arate:
            base = self.prate or 100.0
            self.set_rate(b'ANALOG', base * self.rng.choice([1, 1, 2, 3, 4, 10]))
    def add_frame(self, idx='-', **kw):
        self.ensure_rates()
        if self.nframes == 0:
            self.nsub = self.cur_nsub() if self.chans else 0
        self.emit('frame 0 %s %s' % (idx, self.frame_lit(**kw)), 'frame')
        if idx == '-': self.nframes += 1
        else:
            i = int(idx)
            if i >= self.nframes: self.nframes = i + 1

def history(rng, nops=None, snap_every=True):
    """A mostly valid random history."""
    h = Hist(rng, snap_every)
    nops = nops or rng.choice([3, 6, 10, 14])
    plan = rng.choice(['decl-first', 'frames-early', 'analog-only', 'points-only', 'mixed'])
    npts = 0 if plan == 'analog-only' else rng.choice([0, 1, 2, 3, 5])
    nch = 0 if plan == 'points-only' else rng.choice([0, 1, 2, 4])
    if plan in ('decl-first', 'analog-only', 'points-only'):
        for _ in range(npts): h.declare_point()
        for _ in range(nch): h.declare_analog()
    for _ in range(nops):
        r = rng.random()
        if r < 0.30:
            if h.nframes > 0 and rng.random() < 0.35:
                tgt = rng.choice([0, h.nframes - 1, h.nframes, h.nframes + rng.choice([1, 2])])
                h.add_frame(idx=str(tgt), permute=rng.random() < 0.2)
            else:
                h.add_frame(permute=rng.random() < 0.2)
        elif r < 0.42: h.declare_point()
        elif r < 0.52: h.declare_analog()
        elif r < 0.62: h.set_rate(rng.choice([b'POINT', b'ANALOG']), rng.choice(POINT_RATES + [0.0, 150.0, 2000.0]))
        elif r < 0.80: h.rand_param()
        elif r < 0.88: h.lock()
        else:
            # a deviating frame
            dev = rng.choice(['extra-point', 'missing-point', 'renamed', 'extra-chan', 'no-subs', 'extra-sub', 'empty'])
            pts = list(h.pts); chans = list(h.chans); nsub = h.cur_nsub()
            if dev == 'extra-point': pts.append(b'zzz')
            elif dev == 'missing-point' and pts: pts.pop()
            elif dev == 'renamed' and pts: pts[rng.randrange(len(pts))] = b'other'
            elif dev == 'extra-chan': chans.append(b'cz')
            elif dev == 'no-subs': nsub = 0
            elif dev == 'extra-sub': nsub += 1
            elif dev == 'empty': pts = []; chans = []
            h.lines.append('frame 0 - ' + h.frame_lit(pts=pts, chans=chans, nsub=nsub)); h.kinds.append('frame-dev:' + dev)
            if snap_every: h.lines.append('snap 0')
    if not snap_every: h.lines.append('snap 0')
    return h
