"""Running scripts on the real library and on the extracted model, comparing, reporting."""
import json, os, random, shutil, subprocess, sys, time, hashlib, re
from concurrent.futures import ThreadPoolExecutor
from . import build

VERIF = build.VERIF

def hx(s):
    if isinstance(s, str): s = s.encode('latin-1')
    return 'x' + s.hex()
def unhx(t):
    return bytes.fromhex(t[1:])
def fhex(bits):
    return '%08x' % (bits & 0xffffffff)
def f2bits(x):
    import struct
    return struct.unpack('<I', struct.pack('<f', x))[0]

class Work:
    """scratch directory under /verif/work, removed on exit"""
    def __init__(self, name):
        self.root = os.path.join(os.environ.get('VERIF_OUT', VERIF), 'work', '%s-%d' % (name, os.getpid()))
        shutil.rmtree(self.root, ignore_errors=True)
        os.makedirs(self.root)
        self.n = 0
    def sub(self, name):
        p = os.path.join(self.root, name); os.makedirs(p, exist_ok=True); return p
    def fresh(self, prefix='d'):
        self.n += 1
        return self.sub('%s%d' % (prefix, self.n))
    def close(self):
        if os.environ.get('VERIF_KEEP_WORK'): return      # dev: keep the generated files of a run
        shutil.rmtree(self.root, ignore_errors=True)

def parse_output(text):
    """-> dict id -> (lines, status)"""
    res = {}; cur = None; lines = []
    for ln in text.split('\n'):
        if ln.startswith('case '):
            cur = ln[5:]; lines = []
        elif ln.startswith('end ') and cur is not None:
            parts = ln.split(' ')
            if parts[1] == cur:
                res[cur] = (lines, parts[2] if len(parts) > 2 else '?'); cur = None
            else:
                lines.append(ln)
        elif cur is not None:
            lines.append(ln)
    if cur is not None:
        res[cur] = (lines, 'driver-died')
    return res

def _big_stack():
    import resource
    try: resource.setrlimit(resource.RLIMIT_STACK, (resource.RLIM_INFINITY, resource.RLIM_INFINITY))
    except Exception: pass

def _run_shard(args):
    exe, casefile, own, shared, extra, env, timeout = args
    try:
        # the extracted model recurses on lists (not tail-recursive): give it the whole stack
        r = subprocess.run([exe, casefile, own, shared] + extra, stdout=subprocess.PIPE, stderr=subprocess.PIPE,
                           env=env, timeout=timeout, preexec_fn=_big_stack if 'model_main' in exe else None)
        return r.stdout.decode('latin-1'), r.stderr.decode('latin-1', 'replace')
    except subprocess.TimeoutExpired as e:
        return (e.stdout or b'').decode('latin-1'), 'TIMEOUT'

def run_side(exe, cases, work, tag, shared, extra=(), env=None, shards=16, timeout=1800):
    """cases: list of (id, [lines]). Returns (dict id -> (lines,status), own_dirs dict id->dir, stderr text)"""
    if not cases: return {}, {}, ''
    shards = max(1, min(shards, len(cases)))
    parts = [cases[i::shards] for i in range(shards)]
    jobs = []; owns = {}
    for k, part in enumerate(parts):
        d = work.sub('%s-%d' % (tag, k))
        own = os.path.join(d, 'own'); os.makedirs(own, exist_ok=True)
        cf = os.path.join(d, 'cases.txt')
        with open(cf, 'w') as f:
            for cid, lines in part:
                f.write('case %s\n' % cid)
                for l in lines: f.write(l + '\n')
                f.write('end\n')
                owns[cid] = own
        jobs.append((exe, cf, own, shared, list(extra), env, timeout))
    out = {}; errs = []
    with ThreadPoolExecutor(shards) as ex:
        for so, se in ex.map(_run_shard, jobs):
            out.update(parse_output(so))
            if se.strip(): errs.append(se)
    return out, owns, '\n'.join(errs)

def run_both(cases, work, shared=None, flavor='plain', cxx_extra=(), cxx_env=None, repo=None, shards=16, model_env=None):
    shared = shared or work.sub('shared')
    drv = build.build_driver(flavor, repo=repo)
    mdl = build.build_model()
    env = dict(os.environ)
    if flavor == 'asan':
        env['ASAN_OPTIONS'] = 'detect_leaks=1:abort_on_error=1:allocator_may_return_null=1:new_delete_type_mismatch=1'
        env['UBSAN_OPTIONS'] = 'halt_on_error=1:abort_on_error=1:print_stacktrace=0'
    if cxx_env: env.update(cxx_env)
    with ThreadPoolExecutor(2) as ex:
        fc = ex.submit(run_side, drv, cases, work, 'cxx', shared, cxx_extra, env, shards)
        menv = None
        if model_env: menv = dict(os.environ); menv.update(model_env)
        fm = ex.submit(run_side, mdl, cases, work, 'mdl', shared, (), menv, shards)
        c = fc.result(); m = fm.result()
    return c, m

def compare_case(clines, cstatus, mlines, mstatus):
    """Returns None when the two sides agree, else a dict describing the first difference.
    A model verdict 'ub:...' means the C++ behaviour is undefined from that point: only the
    common prefix is compared."""
    if mstatus.startswith('ub:'):
        n = len(mlines)
        for i in range(min(n, len(clines))):
            if clines[i] != mlines[i]:
                return {'line': i, 'cxx': clines[i], 'model': mlines[i]}
        if len(clines) < n:
            return {'line': len(clines), 'cxx': '<end:%s>' % cstatus, 'model': mlines[len(clines)]}
        return None
    n = max(len(clines), len(mlines))
    for i in range(n):
        a = clines[i] if i < len(clines) else '<end:%s>' % cstatus
        b = mlines[i] if i < len(mlines) else '<end:%s>' % mstatus
        if a != b:
            return {'line': i, 'cxx': a[:400], 'model': b[:400]}
    if cstatus != mstatus:
        return {'line': n, 'cxx': '<end:%s>' % cstatus, 'model': '<end:%s>' % mstatus}
    return None

def split_ops(script, outlines):
    """Associate each script line with its output lines. Dumps (snap / F.show) end with 'E';
    h2sweep prints two lines; every other command prints exactly one line."""
    res = []; i = 0
    for ln in script:
        cmd = ln.split(' ', 1)[0]
        if i >= len(outlines):
            res.append((ln, None)); continue
        if cmd in ('snap', 'F.show'):
            if outlines[i].startswith('throw') or outlines[i].startswith('script-error') or outlines[i] == 'noobj':
                res.append((ln, [outlines[i]])); i += 1; continue
            j = i
            while j < len(outlines) and outlines[j] != 'E': j += 1
            res.append((ln, outlines[i:j + 1])); i = j + 1
        elif cmd in ('h2sweep', 'savefault'):
            res.append((ln, outlines[i:i + 2])); i += 2
        else:
            res.append((ln, [outlines[i]])); i += 1
    return res

# ---------- parsed snapshots ----------
class Snap:
    """A parsed dump: header dict, groups list, frames list."""
    HK = ['zeros', 'paddr', 'chk', 'npts', 'nmeas', 'first', 'last', 'gap', 'scale', 'dstart', 'byframe', 'rate',
          'e1', 'e2', 'e3', 'e4', 'keylab', 'keyblk', 'four', 'nev']
    def __init__(self, lines):
        self.raw = lines
        self.h = {}; self.groups = []; self.frames = []; self.pro = {}
        for ln in lines:
            t = ln.split(' ')
            if t[0] == 'H':
                for k, v in zip(self.HK, t[1:21]): self.h[k] = v if k == 'rate' else int(v)
                self.h['nanalogs'] = int(t[22]); self.h['nframes'] = int(t[23])
            elif t[0] == 'HT': self.h['evtime'] = t[1:]
            elif t[0] == 'HD': self.h['evdisp'] = [int(x) for x in t[1:]]
            elif t[0] == 'HL': self.h['evlab'] = [unhx(x) for x in t[1:]]
            elif t[0] == 'PS': self.pro = dict(start=int(t[1]), chk=int(t[2]), blocks=int(t[3]), proc=int(t[4]), ngroups=int(t[5]))
            elif t[0] == 'G':
                self.groups.append(dict(name=unhx(t[2]), desc=unhx(t[3]), lock=int(t[4]), params=[]))
            elif t[0] == 'P':
                self.groups[int(t[1])]['params'].append(parse_param(t[3:]))
            elif t[0] == 'F': self.frames.append(dict(pts=[], subs=[]))
            elif t[0] == 'p': self.frames[-1]['pts'].append((unhx(t[1]), t[2], t[3], t[4], t[5]))
            elif t[0] == 's': self.frames[-1]['subs'].append([])
            elif t[0] == 'c': self.frames[-1]['subs'][-1].append((unhx(t[1]), t[2]))
    def group(self, name):
        for g in self.groups:
            if g['name'] == name: return g
        return None
    def param(self, gname, pname):
        g = self.group(gname)
        if not g: return None
        for p in g['params']:
            if p['name'] == pname: return p
        return None

def parse_param(t):
    p = dict(name=unhx(t[0]), desc=unhx(t[1]), lock=int(t[2]), type=t[3])
    nd = int(t[4]); p['dims'] = [int(x) for x in t[5:5 + nd]]
    nv = int(t[5 + nd]); vals = t[6 + nd:6 + nd + nv]
    if p['type'] == 'C': p['vals'] = [unhx(x) for x in vals]
    elif p['type'] in 'BI': p['vals'] = [int(x) for x in vals]
    else: p['vals'] = list(vals)
    return p

# ---------- reporting ----------
class Report:
    def __init__(self, prop, tier, seed, level, t0):
        self.prop = prop; self.tier = tier; self.seed = seed; self.level = level; self.t0 = t0
        self.violations = []       # (signature, replay dict)
        self.known = []
        self.coverage = {}
        self.assumptions = []
        with open(os.path.join(VERIF, 'known_findings.json')) as f:
            self.kf = [k for k in json.load(f)['findings'] if k.get('status') == 'known' and k['property'] == prop]

    def violation(self, kind, detail, script=None, theorem=None, found_input=True, signature=None, extra=None):
        """Record a violation unless it matches a committed known finding (by signature)."""
        for k in self.kf:
            if signature is not None and signature == k['signature']:
                if k['signature'] not in [x['signature'] for x in self.known]:
                    self.known.append(k)
                return False
        rp = dict(property=self.prop, kind=kind, detail=detail, script=script, seed=self.seed, theorem=theorem,
                  found_failing_input=found_input, signature=signature)
        if extra: rp.update(extra)
        self.violations.append(rp)
        return True

    def finish(self):
        OUT = os.environ.get('VERIF_OUT', VERIF)      # seed-matrix runs write their evidence and replays elsewhere
        os.makedirs(os.path.join(OUT, 'evidence'), exist_ok=True)
        os.makedirs(os.path.join(OUT, 'replays'), exist_ok=True)
        for k in self.known:
            print('KNOWN-FINDING: property=%s %s' % (self.prop, k['what']))
        rc = 0
        seen = set()
        for v in self.violations:
            body = json.dumps(v, sort_keys=True)
            hid = hashlib.sha256(body.encode()).hexdigest()[:12]
            if hid in seen: continue
            seen.add(hid)
            path = os.path.join(OUT, 'replays', '%s-%s.json' % (self.prop, hid))
            with open(path, 'w') as f: json.dump(v, f, indent=1)
            tail = '' if v.get('found_failing_input', True) else ' no-failing-input-found'
            print('VIOLATION property=%s replay=%s%s' % (self.prop, path, tail))
            rc = 1
            if len(seen) >= 5: break
        ev = dict(property_id=self.prop, tier=self.tier, seed=self.seed, level=self.level,
                  coverage=self.coverage, assumptions=self.assumptions,
                  wall_s=round(time.time() - self.t0, 2), violations=len(self.violations))
        with open(os.path.join(OUT, 'evidence', self.prop + '.json'), 'w') as f:
            json.dump(ev, f, indent=1)
        return rc
