"""Build steps shared by all checks: the C++ driver (from /repo's working tree, keyed by a
content hash so an edited tree is always rebuilt), the Coq development, the extracted model."""
import hashlib, os, subprocess, sys, glob, shutil, time
from concurrent.futures import ThreadPoolExecutor

VERIF = os.path.dirname(os.path.dirname(os.path.abspath(__file__)))
REPO = os.environ.get('EZC3D_REPO', '/repo')
BUILD = os.path.join(VERIF, 'build')
COQ = os.path.join(VERIF, 'coq')

FLAVORS = {
    'plain': ['-O1', '-pthread'],
    # memory errors only (C13/C16): address + bounds; signed overflow and float casts are C19's subject (flavor 'ubsan')
    'asan': ['-O1', '-g', '-fsanitize=address,bounds', '-fno-sanitize-recover=all', '-D_GLIBCXX_ASSERTIONS', '-fno-omit-frame-pointer'],
    'ubsan': ['-O1', '-g', '-fsanitize=undefined', '-fno-sanitize-recover=all'],
    'tsan': ['-O1', '-g', '-fsanitize=thread', '-pthread'],
    'O0': ['-O0'],
    'O3': ['-O3'],
}

def sh(cmd, **kw):
    return subprocess.run(cmd, stdout=subprocess.PIPE, stderr=subprocess.STDOUT, text=True, **kw)

def _hash_files(paths, extra=''):
    h = hashlib.sha256(extra.encode())
    for p in sorted(paths):
        h.update(p.encode()); h.update(b'\0')
        with open(p, 'rb') as f: h.update(f.read())
    return h.hexdigest()[:16]

def repo_sources(repo=None):
    repo = repo or REPO
    return sorted(glob.glob(os.path.join(repo, 'src', '*.cpp'))), sorted(glob.glob(os.path.join(repo, 'include', '*.h')))

def build_driver(flavor='plain', repo=None, main='driver.cpp', extra_flags=(), libs=()):
    """Compile harness/<main> together with /repo/src/*.cpp. Returns path of the binary."""
    repo = repo or REPO
    # bin/tie-coverage: every flavor of the script driver is replaced by the gcov-instrumented one (dev tool, never set by a check)
    if os.environ.get('EZ_COV_DRIVER') and main == 'driver.cpp' and flavor != 'tsan': return os.environ['EZ_COV_DRIVER']
    srcs, hdrs = repo_sources(repo)
    mainp = os.path.join(VERIF, 'harness', main)
    flags = ['-std=c++11', '-w', '-I' + os.path.join(repo, 'include')] + FLAVORS[flavor] + list(extra_flags)
    key = _hash_files(srcs + hdrs + [mainp], ' '.join(flags) + ' '.join(libs))
    outdir = os.path.join(BUILD, 'cxx', '%s-%s-%s' % (os.path.splitext(main)[0], flavor, key))
    exe = os.path.join(outdir, 'driver')
    if os.path.exists(exe):
        os.utime(outdir, None)
        return exe
    final_dir, final_exe = outdir, exe
    outdir = outdir + '.tmp%d' % os.getpid(); exe = os.path.join(outdir, 'driver')     # built aside, published by one rename
    shutil.rmtree(outdir, ignore_errors=True); os.makedirs(outdir)
    def cc(src):
        obj = os.path.join(outdir, os.path.basename(src) + '.o')
        r = sh(['g++'] + flags + ['-c', src, '-o', obj])
        return (src, obj, r)
    with ThreadPoolExecutor(16) as ex:
        res = list(ex.map(cc, srcs + [mainp]))
    for src, obj, r in res:
        if r.returncode != 0:
            shutil.rmtree(outdir, ignore_errors=True)
            raise RuntimeError('compile failed: %s\n%s' % (src, r.stdout[-3000:]))
    link_flags = [f for f in flags if f.startswith('-fsanitize') or f in ('-g', '-pthread')] + list(libs)
    r = sh(['g++'] + link_flags + ['-o', exe + '.tmp'] + [o for _, o, _ in res] + list(libs))
    if r.returncode != 0:
        shutil.rmtree(outdir, ignore_errors=True)
        raise RuntimeError('link failed\n' + r.stdout[-3000:])
    os.rename(exe + '.tmp', exe)
    _publish(outdir, final_dir)
    _prune(os.path.join(BUILD, 'cxx'), keep=10)
    return final_exe

def _publish(tmp, outdir):
    """move a finished build directory into place; if another process got there first, keep its build"""
    try:
        os.rename(tmp, outdir)
    except OSError:
        shutil.rmtree(tmp, ignore_errors=True)

def _prune(d, keep):
    ents = [os.path.join(d, e) for e in os.listdir(d) if '.tmp' not in e]
    ents.sort(key=lambda p: os.path.getmtime(p), reverse=True)
    for p in ents[keep:]:
        shutil.rmtree(p, ignore_errors=True)

def coq_files():
    with open(os.path.join(COQ, '_CoqProject')) as f:
        return [l.strip() for l in f if l.strip().endswith('.v')]

def build_coq(targets=None, timeout=3000):
    """make the Coq development (full .vo build). Returns (ok, log)."""
    mk = os.path.join(COQ, 'Makefile.coq')
    proj = os.path.join(COQ, '_CoqProject')
    stamp = mk + '.project'
    cur = open(proj).read()
    if not os.path.exists(mk) or not os.path.exists(stamp) or open(stamp).read() != cur:
        r = sh(['coq_makefile', '-f', '_CoqProject', '-o', 'Makefile.coq'], cwd=COQ)
        if r.returncode != 0: return False, r.stdout
        open(stamp, 'w').write(cur)
    cmd = ['timeout', str(timeout), 'make', '-f', 'Makefile.coq', '-j16', '-k'] + (targets or [])
    r = sh(cmd, cwd=COQ)
    return r.returncode == 0, r.stdout

def build_model():
    """Extract the model and compile the OCaml driver. Returns path of the binary."""
    vs = [os.path.join(COQ, f) for f in coq_files() if not f.startswith('Properties_')]
    glue = os.path.join(VERIF, 'harness', 'model_main.ml')
    key = _hash_files(vs + [glue, os.path.join(COQ, 'Extract.v')])
    outdir = os.path.join(BUILD, 'model', key)
    exe = os.path.join(outdir, 'model_main')
    if os.path.exists(exe):
        os.utime(outdir, None)
        return exe
    ok, log = build_coq(['Extract.vo'])
    # Extract.vo's side effect (model.ml) lands in coq/: re-run extraction in the out dir
    final_dir, final_exe = outdir, exe
    outdir = outdir + '.tmp%d' % os.getpid(); exe = os.path.join(outdir, 'model_main')
    shutil.rmtree(outdir, ignore_errors=True); os.makedirs(outdir)
    r = sh(['timeout', '600', 'coqc', '-Q', COQ, 'EZ', os.path.join(COQ, 'Extract.v'), '-o', os.path.join(outdir, 'Extract.vo')], cwd=outdir)
    if r.returncode != 0 or not os.path.exists(os.path.join(outdir, 'model.ml')):
        shutil.rmtree(outdir, ignore_errors=True)
        raise RuntimeError('extraction failed\n' + log[-2000:] + r.stdout[-3000:])
    shutil.copy(glue, os.path.join(outdir, 'model_main.ml'))
    r = sh(['ocamlfind', 'ocamlopt', '-package', 'zarith', '-linkpkg', '-w', '-a', '-O3', 'model.mli', 'model.ml', 'model_main.ml', '-o', 'model_main'], cwd=outdir)
    if r.returncode != 0:
        shutil.rmtree(outdir, ignore_errors=True)
        raise RuntimeError('ocaml build failed\n' + r.stdout[-3000:])
    _publish(outdir, final_dir)
    _prune(os.path.join(BUILD, 'model'), keep=3)
    return final_exe

def build_modelx():
    """The model plus the decision predicates of Proofs_Decide.v (ExtractX.v: needs the whole proof chain of C01).
    Same glue as build_model(), with the module name swapped and the L-line hook switched on."""
    vs = [os.path.join(COQ, f) for f in coq_files() if not f.startswith('Properties_')]
    glue = os.path.join(VERIF, 'harness', 'model_main.ml')
    key = _hash_files(vs + [glue, os.path.join(COQ, 'ExtractX.v')])
    outdir = os.path.join(BUILD, 'modelx', key)
    exe = os.path.join(outdir, 'model_main')
    if os.path.exists(exe):
        os.utime(outdir, None)
        return exe
    ok, log = build_coq(['ExtractX.vo'])
    final_dir, final_exe = outdir, exe
    outdir = outdir + '.tmp%d' % os.getpid(); exe = os.path.join(outdir, 'model_main')
    shutil.rmtree(outdir, ignore_errors=True); os.makedirs(outdir)
    r = sh(['timeout', '600', 'coqc', '-Q', COQ, 'EZ', os.path.join(COQ, 'ExtractX.v'), '-o', os.path.join(outdir, 'ExtractX.vo')], cwd=outdir)
    if r.returncode != 0 or not os.path.exists(os.path.join(outdir, 'modelx.ml')):
        shutil.rmtree(outdir, ignore_errors=True)
        raise RuntimeError('extraction (with decision predicates) failed\n' + log[-2000:] + r.stdout[-3000:])
    src = open(glue).read()
    assert 'module M = Model\n' in src and 'let ls_hook : (M.state -> bool * bool * bool list * bool) option = None' in src
    src = src.replace('module M = Model\n', 'module M = Modelx\n').replace(
        'let ls_hook : (M.state -> bool * bool * bool list * bool) option = None', 'let ls_hook : (M.state -> bool * bool * bool list * bool) option = Some (fun s -> (M.lsn_ok_x s, M.ls4n_ok_x s, M.lsn_flags_x s, M.ls_ok_x s))')
    assert 'let cert_hook : (M.n list -> bool * bool list) option = None' in src
    src = src.replace('let cert_hook : (M.n list -> bool * bool list) option = None', 'let cert_hook : (M.n list -> bool * bool list) option = Some (fun f -> (M.cert_ok_x f, M.cert_flags_x f))')
    open(os.path.join(outdir, 'model_main.ml'), 'w').write(src)
    r = sh(['ocamlfind', 'ocamlopt', '-package', 'zarith', '-linkpkg', '-w', '-a', '-O3', 'modelx.mli', 'modelx.ml', 'model_main.ml', '-o', 'model_main'], cwd=outdir)
    if r.returncode != 0:
        shutil.rmtree(outdir, ignore_errors=True)
        raise RuntimeError('ocaml build failed\n' + r.stdout[-3000:])
    _publish(outdir, final_dir)
    _prune(os.path.join(BUILD, 'modelx'), keep=3)
    return final_exe

if __name__ == '__main__':
    t = time.time()
    ok, log = build_coq()
    print(log[-1500:])
    print('coq', ok, time.time() - t)
    print(build_model())
    print(build_driver('plain'))


CMAKE_CONFIGS = [('Debug', False), ('Debug', True), ('RelWithDebInfo', False), ('RelWithDebInfo', True), ('Release', False), ('Release', True)]

def build_cmake_driver(build_type, shared, scratch, repo=None):
    """Configure and build the library with the repository's own CMakeLists.txt in a scratch directory (outside /repo
    and /verif), then link harness/driver.cpp against it.  Returns (driver path, env)."""
    repo = repo or REPO
    tag = '%s-%s' % (build_type, 'shared' if shared else 'static')
    bdir = os.path.join(scratch, tag)
    os.makedirs(bdir, exist_ok=True)
    r = sh(['cmake', '-S', repo, '-B', bdir, '-G', 'Ninja', '-DCMAKE_BUILD_TYPE=' + build_type, '-DBUILD_SHARED_LIBS=' + ('ON' if shared else 'OFF'),
            '-DBUILD_EXAMPLE=OFF', '-DBUILD_TESTS=OFF', '-DBUILD_DOC=OFF', '-DCMAKE_CXX_FLAGS=-w'])
    if r.returncode != 0: raise RuntimeError('cmake configure failed (%s)\n%s' % (tag, r.stdout[-2000:]))
    r = sh(['cmake', '--build', bdir, '--target', 'ezc3d'])
    if r.returncode != 0: raise RuntimeError('cmake build failed (%s)\n%s' % (tag, r.stdout[-2000:]))
    libs = [f for f in os.listdir(bdir) if f.startswith('libezc3d')]
    if not libs: raise RuntimeError('no library produced (%s): %s' % (tag, os.listdir(bdir)))
    lib = os.path.join(bdir, sorted(libs)[0])
    exe = os.path.join(bdir, 'driver')
    r = sh(['g++', '-std=c++11', '-w', '-O1', '-pthread', '-I' + os.path.join(repo, 'include'), os.path.join(VERIF, 'harness', 'driver.cpp'), lib, '-o', exe])
    if r.returncode != 0: raise RuntimeError('driver link failed (%s)\n%s' % (tag, r.stdout[-2000:]))
    env = dict(os.environ); env['LD_LIBRARY_PATH'] = bdir + ':' + env.get('LD_LIBRARY_PATH', '')
    return tag, exe, env
