"""Generator of well-formed C3D files (layout x content) for C02/C04/C12/C16/C17, written with
the independent spec-level encoder, and the content ezc3d must expose after loading them."""
import struct
from . import c3dspec, gen
from .harness import fhex, f2bits

def f32(x): return struct.unpack('<f', struct.pack('<f', x))[0]

PRINT = b'abcdefghijklmnopqrstuvwxyzABCDEFGHIJKLMNOPQRSTUVWXYZ0123456789_-.:'
def rstr(rng, n): return bytes(rng.choice(PRINT) for _ in range(n))

def rand_float_hex(rng): return fhex(gen.rfloat(rng))

def make_content(rng, opts=None):
    """a consistent content; opts may pin npoints, nchan, nsub, nframes, first, ..."""
    o = dict(opts or {})
    npoints = o.get('npoints', rng.choice([0, 1, 2, 3, 5, 12]))
    nchan = o.get('nchan', rng.choice([0, 0, 1, 2, 4, 9]))
    nsub = o.get('nsub', rng.choice([1, 2, 3, 10, 5, 6, 7, 9]) if nchan else 1)
    nframes = o.get('nframes', rng.choice([0, 1, 2, 3, 7]))
    if npoints == 0 and nchan == 0: nframes = 0
    first = o.get('first', rng.choice([1, 1, 2, 100, 40000]))
    prate = o.get('prate', rng.choice([50.0, 100.0, 120.0, 200.0, 30.0, f32(29.97), f32(59.94), f32(119.88)]))   # NTSC rates: n x rate is rounded
    arate = f32(prate * (nsub if nsub else 1))
    ids = rng.sample(range(1, 128), 8)
    if o.get('dense_ids'): ids = list(range(1, 9))
    gp, ga = ids[0], ids[1]
    extra_groups = [(ids[2 + k], b'EXTRA%d' % k) for k in range(rng.choice([0, 1, 2, 3]))]
    nlabels = o.get('nlabels', rng.choice([npoints, npoints, max(0, npoints - 1), max(0, npoints - 2), max(0, npoints - 3), 0, npoints + 2]))
    nalabels = o.get('nalabels', rng.choice([nchan, nchan, max(0, nchan - 1), max(0, nchan - 2), max(0, nchan - 3), 0, nchan + 1]))
    def labels(n, prefix, w=None):
        names = []
        while len(names) < n:
            s = prefix + rstr(rng, rng.choice([1, 2, 5]))
            if s not in names: names.append(s)
        w = w or (max([len(x) for x in names] + [0]) + rng.choice([0, 0, 3]))
        return names, w
    plab, pw = labels(nlabels, b'p')
    alab, aw = labels(nalabels, b'a')
    # a label that is present but blank (all spaces): the point / channel is then called "", not given a generic name
    if plab and rng.random() < 0.12: plab[rng.randrange(len(plab))] = b''
    if alab and rng.random() < 0.12: alab[rng.randrange(len(alab))] = b''
    recs = []
    G = lambda gid, name, desc=b'', lock=0: ('G', gid, name, desc, lock)
    P = lambda gid, name, ty, dims, vals, desc=b'', lock=0: ('P', gid, name, desc, lock, ty, dims, vals)
    desc = lambda: b'' if rng.random() < 0.6 else rstr(rng, rng.choice([1, 10, 127, 128, 200, 255]))
    point = [G(gp, b'POINT', desc(), rng.choice([0, 1])),
             P(gp, b'USED', 'I', [], [npoints], desc(), rng.choice([0, 1])),
             # any float pattern: the library decides the data format from the header word, never from this parameter
             P(gp, b'SCALE', 'F', [], [o.get('point_scale', rng.choice(['bf800000', 'bf800000', 'bc23d70a', '3c23d70a', '3f800000', '00000001', '7f800000', '80000000', 'ffc00000']))]),
             P(gp, b'RATE', 'F', [], [fhex(f2bits(prate))]),
             P(gp, b'DATA_START', 'I', [], [0]),
             P(gp, b'FRAMES', 'I', [], [nframes]),
             P(gp, b'LABELS', 'C', [pw, nlabels], plab),
             P(gp, b'DESCRIPTIONS', 'C', [rng.choice([0, 4]), nlabels], [b''] * nlabels),
             P(gp, b'UNITS', 'C', [2], [b'mm'])]
    empty_analog = o.get('empty_analog', nchan == 0 and rng.random() < 0.5)
    analog = [G(ga, b'ANALOG', desc())]
    if not empty_analog:
        analog += [P(ga, b'USED', 'I', [], [nchan]),
                   P(ga, b'LABELS', 'C', [aw, nalabels], alab),
                   P(ga, b'GEN_SCALE', 'F', [], ['3f800000']),
                   P(ga, b'SCALE', 'F', [nchan], ['3f800000'] * nchan),
                   P(ga, b'OFFSET', 'I', [nchan], [rng.choice([0, -32768, 32767, 5, -1, -2048, 2048]) for _ in range(nchan)]),
                   P(ga, b'UNITS', 'C', [1, nchan], [b'V'] * nchan),
                   P(ga, b'RATE', 'F', [], [fhex(f2bits(arate))])]
        # the conventional companions of OFFSET (how another program reads the samples); for this library they are ordinary parameters
        fm = o.get('analog_format', rng.choice([None, None, b'SIGNED', b'UNSIGNED', b'UNSIGNED']))
        if fm is not None:
            analog.append(P(ga, b'FORMAT', 'C', [len(fm) + rng.choice([0, 2])], [fm]))
            analog.append(P(ga, b'BITS', 'I', [], [rng.choice([12, 16])]))
    else: nchan = 0; nsub = 0
    extras = []
    for gid, name in extra_groups:
        extras.append(G(gid, name, desc(), rng.choice([0, 1])))
        for _ in range(rng.choice([0, 1, 3])):
            extras.append(rand_param_rec(rng, gid))
    # one parameter record beyond 32 KiB (its next-record offset does not fit a SIGNED 16-bit word), with records after it
    if o.get('big_record', rng.random() < 0.08):
        gb, gl = ids[6], ids[7]
        kind = rng.choice(['F', 'B', 'C', 'I'])
        if kind == 'F': big = P(gb, b'TABLE', 'F', [100, 100], [rand_float_hex(rng)] * 3 + ['3f800000'] * 9997)
        elif kind == 'B': big = P(gb, b'TABLE', 'B', [200, 200], [rng.choice([-128, -1, 0, 1, 127]) for _ in range(40000)])
        elif kind == 'I': big = P(gb, b'TABLE', 'I', [255, 65], [rng.choice([-32768, -1, 0, 1, 32767]) for _ in range(255 * 65)])
        else: big = P(gb, b'TABLE', 'C', [129, 255], [rstr(rng, rng.choice([0, 1, 128, 129])) for _ in range(255)])
        extras += [G(gb, b'BIG', desc()), big, P(gb, b'AFTER', 'I', [], [7]), G(gl, b'LATER', desc()), P(gl, b'LAST', 'F', [2], ['3f800000', 'bf800000'])]
    groups = [point, analog, extras]
    order = o.get('order', rng.choice(['canonical', 'shuffled', 'params-first']))
    flat = point + analog + extras
    if order == 'shuffled': rng.shuffle(flat)
    elif order == 'params-first': flat = [r for r in flat if r[0] == 'P'] + [r for r in flat if r[0] == 'G']
    frames = []
    for _ in range(nframes):
        pts = [tuple(rand_float_hex(rng) for _ in range(4)) for _ in range(npoints)]
        # points that mean something to OTHER programs (a missing marker stored as NaN,NaN,NaN or as 0,0,0 with residual -1):
        # for this library they are four floats like any others
        for k in range(npoints):
            if rng.random() < 0.08:
                pts[k] = rng.choice([('7fc00000', '7fc00000', '7fc00000', rand_float_hex(rng)), ('ffc00001', '7fa00001', '7fc00000', 'bf800000'),
                                     ('00000000', '00000000', '00000000', 'bf800000'), ('80000000', '80000000', '80000000', 'bf800000'),
                                     ('00000000', '80000000', '00000000', 'c2c80000'), ('00000000', '00000000', '00000000', '00000000'),
                                     ('7fc00000', '3f800000', '7fc00000', 'bf800000')])
        an = [[rand_float_hex(rng) for _ in range(nchan)] for _ in range(nsub)]
        frames.append((pts, an))
    nev = rng.choice([0, 0, 3, 18])
    hdr_rate_bits = f2bits(prate) + (rng.choice([1, -1, 2]) if rng.random() < 0.12 else 0)      # the header float may differ from POINT:RATE in its last bits
    c = dict(records=flat, first=first, rate=fhex(hdr_rate_bits), gap=rng.choice([0, 10, 65535]),
             scale_bits=rng.choice([0xbf800000, 0xbc23d70a, 0xc2c80000]), nev=nev,
             evtime=[rand_float_hex(rng) if i < nev else '00000000' for i in range(18)],
             evdisp=[rng.choice([0, 1, 257]) if i < nev else 0 for i in range(9)],
             evlab=[rstr(rng, rng.choice([1, 2, 4])) if i < nev else b'' for i in range(18)],
             npoints=npoints, nchan=nchan, nsub=nsub, frames=frames, prate=prate, arate=arate,
             empty_analog=empty_analog)
    # header words 148-150 (key labels present, their first block, four-character event labels): not derivable from anything
    c['keywords'] = o.get('keywords', rng.choice([(0, 0, 12345), (0, 0, 12345), (12345, 4, 0), (0, 0, 0), (1, 65535, 12345), (12345, 2, 12345)]))
    return c

def rand_param_rec(rng, gid, name=None):
    name = name or (b'X' + rstr(rng, rng.choice([1, 3, 8])).upper())
    ty = rng.choice('CBIF')
    nd = rng.choice([0, 1, 1, 2, 2, 3, 4, 7])
    dims = [rng.choice([0, 1, 2, 3]) if rng.random() < 0.9 else rng.choice([5, 16]) for _ in range(nd)]
    n = c3dspec.prod(dims)
    if n > 400: dims = [2] * min(nd, 3); n = c3dspec.prod(dims)
    desc = b'' if rng.random() < 0.5 else rstr(rng, rng.choice([1, 9, 130, 255]))
    lock = rng.choice([0, 1])
    if ty == 'C':
        if nd == 0: vals = [rstr(rng, 1)]
        else:
            w = dims[0]; cells = c3dspec.prod(dims[1:]) if nd > 1 else 1
            vals = [rstr(rng, rng.randrange(w + 1)) if w else b'' for _ in range(cells)]
    elif ty == 'B': vals = [rng.choice([-128, -1, 0, 1, 127, rng.randrange(-128, 128)]) for _ in range(n)]
    elif ty == 'I': vals = [rng.choice([-32768, -1, 0, 1, 32767, rng.randrange(-32768, 32768)]) for _ in range(n)]
    else: vals = [rand_float_hex(rng) for _ in range(n)]
    return ('P', gid, name, desc, lock, ty, dims, vals)

def make_layout(rng):
    return dict(zeros=rng.choice([0, 0, 1, 3, 512]), paddr=rng.choice([2, 2, 3, 5]),
                prologue_zeroed=rng.random() < 0.3, end_by_zero_offset=rng.random() < 0.3,
                strpad=rng.choice([b' ', b' ', b'\x00']), extra_pad_blocks=rng.choice([0, 0, 1]),
                # processor-type byte of the section: 84 = Intel (the only encoding generated); 85 / 86 = the same Intel numbers under a
                # DEC / MIPS tag, which the library ignores when it loads (what it SAVES must be tagged 84 again: C03)
                proc=rng.choice([84, 84, 84, 84, 85, 86]))

# ---------------------------------------------------------------- what the loader must expose
def expected_dump(layout, c):
    """(header dict, groups list, frames list) a correct loader exposes for this file"""
    L = dict(zeros=0, paddr=2); L.update(layout)
    g = c3dspec.groups_of(normalise_records(c['records']))
    maxid = max(g) if g else 0
    groups = []
    for gid in range(1, maxid + 1):
        e = g.get(gid)
        if e is None: groups.append(dict(name=b'', desc=b'', lock=0, params=[]))
        else: groups.append(dict(name=e['name'], desc=e['desc'], lock=e['lock'], params=e['params']))
    nfr = len(c['frames'])
    h = dict(zeros=L['zeros'], paddr=L['paddr'], chk=80, npts=c['npoints'], nmeas=c['nchan'] * c['nsub'],
             first=(c['first'] - 1) % 2**64, last=((c['first'] + nfr - 1) & 0xFFFF) - 1 if ((c['first'] + nfr - 1) & 0xFFFF) else 2**64 - 1,
             gap=c['gap'], byframe=c['nsub'], rate=c['rate'], nev=c['nev'], evtime=c['evtime'], evdisp=c['evdisp'],
             evlab=[x.split(b'\x00')[0] for x in c['evlab']], keylab=c.get('keywords', (0, 0, 12345))[0], keyblk=c.get('keywords', (0, 0, 12345))[1], four=c.get('keywords', (0, 0, 12345))[2])
    sb = c['scale_bits']; h['scale'] = sb - 2**32 if sb >= 2**31 else sb
    # the loader keeps the header's rate when it equals POINT:RATE to 1e-4 Hz the way the code compares them — int(r * 10000.0f) —
    # and takes the parameter's otherwise
    def key(bits):
        x = struct.unpack('<f', struct.pack('<I', bits))[0]
        return int(struct.unpack('<f', struct.pack('<f', x * 10000.0))[0])
    pb = f2bits(c['prate'])
    if key(int(c['rate'], 16)) != key(pb): h['rate'] = fhex(pb)
    plab = None; alab = None
    for e in g.values():
        if e['name'] == b'POINT':
            for p in e['params']:
                if p['name'] == b'LABELS': plab = p['vals']
        if e['name'] == b'ANALOG':
            for p in e['params']:
                if p['name'] == b'LABELS': alab = p['vals']
    frames = []
    for pts, an in c['frames']:
        fp = []
        for i, p in enumerate(pts):
            nm = plab[i].rstrip(b' ') if plab is not None and i < len(plab) else b'unlabeled_point_%d' % i
            fp.append((nm,) + tuple(p))
        fs = []
        for sf in an:
            fs.append([((alab[i].rstrip(b' ') if alab is not None and i < len(alab) else b'unlabeled_analog_%d' % i), v) for i, v in enumerate(sf)])
        frames.append(dict(pts=fp, subs=fs))
    return h, groups, frames

def normalise_records(recs):
    """records as a decoder sees them: scalar dims [] -> [1], strings NUL-stripped and right-trimmed"""
    out = []
    for r in recs:
        if r[0] == 'G': out.append(r)
        else:
            _, gid, name, desc, lock, ty, dims, vals = r
            d = list(dims) if dims else [1]
            v = [x.replace(b'\x00', b'').rstrip(b' ') for x in vals] if ty == 'C' else list(vals)
            if ty == 'C' and len(dims) == 1 and dims[0] == 0: v = []
            out.append(('P', gid, name, desc, lock, ty, d, v))
    return out

def diff_dump(snap, exp):
    """components on which a loaded object (parsed dump) differs from the expected content"""
    h, groups, frames = exp
    bad = []
    for k in ('zeros', 'paddr', 'chk', 'npts', 'nmeas', 'first', 'last', 'gap', 'scale', 'byframe', 'rate', 'nev', 'keylab', 'keyblk', 'four'):
        if snap.h[k] != h[k]: bad.append('hdr.%s loaded=%r file=%r' % (k, snap.h[k], h[k]))
    if snap.h['evtime'] != h['evtime']: bad.append('hdr.event_times')
    if snap.h['evdisp'] != h['evdisp']: bad.append('hdr.event_display')
    if snap.h['evlab'] != h['evlab']: bad.append('hdr.event_labels')
    if len(snap.groups) != len(groups): bad.append('groups.count loaded=%d file=%d' % (len(snap.groups), len(groups)))
    else:
        for i, (a, b) in enumerate(zip(snap.groups, groups)):
            for k in ('name', 'desc', 'lock'):
                if a[k] != b[k]: bad.append('group[%d].%s loaded=%r file=%r' % (i + 1, k, a[k], b[k]))
            if [p['name'] for p in a['params']] != [p['name'] for p in b['params']]:
                bad.append('group[%d].parameters loaded=%r file=%r' % (i + 1, [p['name'] for p in a['params']], [p['name'] for p in b['params']])); continue
            for p, q in zip(a['params'], b['params']):
                for k in ('desc', 'lock', 'type', 'dims', 'vals'):
                    if (b['name'], q['name'], k) == (b'POINT', b'DATA_START', 'vals'): continue
                    if p[k] != q[k]:
                        bad.append('param[%s:%s].%s loaded=%r file=%r' % (b['name'].decode('latin-1'), q['name'].decode('latin-1'), k, p[k] if k != 'vals' else p[k][:5], q[k] if k != 'vals' else q[k][:5])); break
    fs = [dict(pts=[tuple(p) for p in f['pts']], subs=[[tuple(c) for c in sf] for sf in f['subs']]) for f in snap.frames]
    fe = [dict(pts=[tuple(p) for p in f['pts']], subs=[[tuple(c) for c in sf] for sf in f['subs']]) for f in frames]
    if len(fs) != len(fe): bad.append('frames.count loaded=%d file=%d' % (len(fs), len(fe)))
    else:
        for k, (a, b) in enumerate(zip(fs, fe)):
            if a != b:
                what = 'frame[%d]' % k
                for i, (p, q) in enumerate(zip(a['pts'], b['pts'])):
                    if p != q:
                        what += '.point[%d].%s loaded=%r file=%r' % (i, 'name' if p[0] != q[0] else ('residual' if p[:4] == q[:4] else 'xyz'), p, q); break
                bad.append(what); break
    return bad
