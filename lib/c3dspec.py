"""An independent implementation of the C3D file format at the level of the specification:
encode(layout, content) -> bytes and decode(bytes) -> content, following only the file's own
pointers.  Nothing here is shaped like ezc3d's code; it is the reference the loader (C02) and
the writer (C03) are judged against, and the generator of well-formed input files."""
import struct

class SpecError(Exception):
    def __init__(self, component, msg):
        Exception.__init__(self, '%s: %s' % (component, msg)); self.component = component

TYPE_CODE = {'C': 0xFF, 'B': 1, 'I': 2, 'F': 4}
CODE_TYPE = {-1: 'C', 1: 'B', 2: 'I', 4: 'F'}

def prod(d):
    r = 1
    for x in d: r *= x
    return r

# ---------------------------------------------------------------- encoder
def enc_values(ty, dims, vals, strpad=b' '):
    if ty == 'C':
        if not dims: return bytes([vals[0][0]]) if vals and vals[0] else b' '
        w = dims[0]; out = b''
        for s in vals: out += s + strpad * (w - len(s))
        return out
    if ty == 'B': return b''.join(struct.pack('<b', v) for v in vals)
    if ty == 'I': return b''.join(struct.pack('<h', v) for v in vals)
    return b''.join(struct.pack('<I', int(v, 16) if isinstance(v, str) else v) for v in vals)

def enc_record(rec, last, end_by_zero_offset, strpad):
    if rec[0] == 'G':
        _, gid, name, desc, lock = rec
        body = bytes([len(desc)]) + desc
        head = struct.pack('<bb', -len(name) if lock else len(name), -gid) + name
    else:
        _, gid, name, desc, lock, ty, dims, vals = rec
        body = bytes([TYPE_CODE[ty], len(dims)]) + bytes(dims) + enc_values(ty, dims, vals, strpad) + bytes([len(desc)]) + desc
        head = struct.pack('<bb', -len(name) if lock else len(name), gid) + name
    off = 2 + len(body)
    if last and end_by_zero_offset: off = 0
    return head + struct.pack('<H', off) + body

def encode(layout, c):
    """layout: zeros, paddr (>=2), prologue_zeroed, end_by_zero_offset, strpad, extra_pad_blocks
    content c: records, first (1-based first frame number), rate (hex bits), gap, scale_bits, nev, evtime[18], evdisp[9],
    evlab[18], npoints, nchan, nsub, frames [(pts [(x,y,z,r) hex], an [[v hex]*nchan]*nsub)], arate"""
    L = dict(zeros=0, paddr=2, prologue_zeroed=False, end_by_zero_offset=False, strpad=b' ', extra_pad_blocks=0, proc=84)
    L.update(layout)
    recs = c['records']
    body = b''
    ds_pos = None
    for k, r in enumerate(recs):
        b = enc_record(r, k == len(recs) - 1, L['end_by_zero_offset'], L['strpad'])
        if r[0] == 'P' and r[2] == b'DATA_START' and r[5] == 'I':
            # position of the value inside the record: head(2+name) + off(2) + type,ndims(2) + dims
            ds_pos = len(body) + 2 + len(r[2]) + 2 + 2 + len(r[6])
        body += b
    sec = bytearray((b'\x00\x00\x00' if L['prologue_zeroed'] else b'\x01P\x00') + bytes([L['proc']])) + body
    if not L['end_by_zero_offset']: sec += b'\x00'          # zero name length ends the chain
    while len(sec) % 512: sec += b'\x00'
    sec += b'\x00' * (512 * L['extra_pad_blocks'])
    nblocks = len(sec) // 512
    sec[2] = nblocks
    data_block = L['paddr'] + nblocks
    if ds_pos is not None: struct.pack_into('<H', sec, 4 + ds_pos, data_block)
    nfr = len(c['frames'])
    hdr = bytearray(512)
    hdr[0] = L['paddr']; hdr[1] = 0x50
    struct.pack_into('<HHHHH', hdr, 2, c['npoints'], c['nchan'] * c['nsub'], c['first'], (c['first'] + nfr - 1) & 0xFFFF, c['gap'])
    struct.pack_into('<I', hdr, 12, c['scale_bits'])
    struct.pack_into('<HHI', hdr, 16, data_block, c['nsub'], int(c['rate'], 16))
    kw = c.get('keywords', (0, 0, 0x3039))
    struct.pack_into('<HHHH', hdr, 294, kw[0], kw[1], kw[2], c['nev'])
    for i in range(18): struct.pack_into('<I', hdr, 304 + 4 * i, int(c['evtime'][i], 16))
    for i in range(9): struct.pack_into('<H', hdr, 376 + 2 * i, c['evdisp'][i])
    for i in range(18): hdr[396 + 4 * i:396 + 4 * i + len(c['evlab'][i])] = c['evlab'][i]
    data = bytearray()
    for pts, an in c['frames']:
        for p in pts:
            for v in p: data += struct.pack('<I', int(v, 16))
        for sf in an:
            for v in sf: data += struct.pack('<I', int(v, 16))
    gap = b'\x00' * (512 * (L['paddr'] - 2))
    return b'\x00' * L['zeros'] + bytes(hdr) + gap + bytes(sec) + bytes(data)

# ---------------------------------------------------------------- decoder
def dec_values(ty, dims, buf, pos, comp):
    n = prod(dims)
    if ty == 'C':
        raw = buf[pos:pos + n]
        if len(raw) != n: raise SpecError(comp, 'values run past the end of the file')
        if len(dims) == 0: cells = [raw]
        elif len(dims) == 1: cells = [raw] if dims[0] else []
        else:
            w = dims[0]; cells = [raw[i * w:(i + 1) * w] for i in range(prod(dims[1:]))]
        vals = [c.replace(b'\x00', b'').rstrip(b' ') for c in cells]
        return vals, pos + n
    size = {'B': 1, 'I': 2, 'F': 4}[ty]
    raw = buf[pos:pos + n * size]
    if len(raw) != n * size: raise SpecError(comp, 'values run past the end of the file')
    if ty == 'B': vals = list(struct.unpack('<%db' % n, raw))
    elif ty == 'I': vals = list(struct.unpack('<%dh' % n, raw))
    else: vals = ['%08x' % v for v in struct.unpack('<%dI' % n, raw)]
    return vals, pos + n * size

def decode_section(buf, base):
    """records of the parameter section that starts at file offset base; returns (records, nblocks, end_of_records,
    positions {('P',gid,name): value offset})"""
    if len(buf) < base + 4: raise SpecError('section.prologue', 'missing')
    start, chk, nblocks, proc = buf[base], buf[base + 1], buf[base + 2], buf[base + 3]
    if (start, chk) == (0, 0): start, chk = 1, 0x50
    if chk != 0x50: raise SpecError('section.prologue', 'key byte is %#x' % chk)
    pos = base + 4 + (start - 1)
    recs = []; valpos = {}
    limit = base + 512 * nblocks
    while True:
        if pos >= len(buf): raise SpecError('section.terminator', 'record chain runs past the end of the file')
        if pos >= limit: raise SpecError('section.terminator', 'record chain runs out of the %d declared blocks without an end marker' % nblocks)
        n = struct.unpack('<b', buf[pos:pos + 1])[0]
        if n == 0: break
        gid = struct.unpack('<b', buf[pos + 1:pos + 2])[0]
        name = buf[pos + 2:pos + 2 + abs(n)]
        p = pos + 2 + abs(n)
        off = struct.unpack('<H', buf[p:p + 2])[0]
        nxt = p + off if off else None
        q = p + 2
        if gid < 0:
            dl = buf[q]; desc = buf[q + 1:q + 1 + dl]; q += 1 + dl
            recs.append(('G', -gid, bytes(name), bytes(desc), 1 if n < 0 else 0))
        elif gid > 0:
            t = struct.unpack('<b', buf[q:q + 1])[0]
            if t not in CODE_TYPE: raise SpecError('record.type', 'type byte %d' % t)
            ty = CODE_TYPE[t]; nd = buf[q + 1]; dims = list(buf[q + 2:q + 2 + nd]); q += 2 + nd
            valpos[(gid, bytes(name))] = q
            vals, q = dec_values(ty, dims, buf, q, 'record.values')
            dl = buf[q]; desc = buf[q + 1:q + 1 + dl]; q += 1 + dl
            recs.append(('P', gid, bytes(name), bytes(desc), 1 if n < 0 else 0, ty, dims if nd else [1], vals))
        else: raise SpecError('record.id', 'group id 0')
        if nxt is None: pos = q; break
        if nxt != q: raise SpecError('record.next_offset', 'record %r: next-offset points at %d, the record ends at %d' % (bytes(name), nxt, q))
        pos = nxt
    return recs, nblocks, pos, valpos

def groups_of(recs):
    """group table by id (parameters in record order, a later parameter of the same name replaces the earlier)"""
    g = {}
    for r in recs:
        if r[0] == 'G':
            e = g.setdefault(r[1], dict(name=b'', desc=b'', lock=0, params=[]))
            e['name'] = r[2]; e['lock'] = r[4]
            if r[3]: e['desc'] = r[3]
        else:
            e = g.setdefault(r[1], dict(name=b'', desc=b'', lock=0, params=[]))
            p = dict(name=r[2], desc=r[3], lock=r[4], type=r[5], dims=list(r[6]), vals=list(r[7]))
            for k, q in enumerate(e['params']):
                if q['name'] == p['name']: e['params'][k] = p; break
            else: e['params'].append(p)
    return g

def find_param(g, gname, pname):
    for gid, e in g.items():
        if e['name'] == gname:
            for p in e['params']:
                if p['name'] == pname: return gid, p
    return None, None

def decode(buf, strict=True):
    """Decode a file following only its own pointers.  strict: also require everything a reader other than
    ezc3d relies on (data-start pointers, block count, padding, counts, float marker, data length)."""
    z = 0
    while z < len(buf) and buf[z] == 0: z += 1
    if len(buf) < z + 512: raise SpecError('header', 'shorter than 512 bytes')
    h = buf[z:z + 512]
    if h[1] != 0x50: raise SpecError('header.key', 'byte 1 is %#x' % h[1])
    paddr = h[0]
    npoints, nmeas, first, last, gap = struct.unpack('<HHHHH', h[2:12])
    scale_bits = struct.unpack('<I', h[12:16])[0]
    dstart, nsub, rate = struct.unpack('<HHI', h[16:24])
    keylab, keyblk, four, nev = struct.unpack('<HHHH', h[294:302])
    evtime = ['%08x' % v for v in struct.unpack('<18I', h[304:376])]
    evdisp = list(struct.unpack('<9H', h[376:394]))
    evlab = [h[396 + 4 * i:400 + 4 * i].split(b'\x00')[0] for i in range(18)]
    base = z + 512 * (paddr - 1)
    recs, nblocks, endrec, valpos = decode_section(buf, base)
    g = groups_of(recs)
    out = dict(zeros=z, paddr=paddr, records=recs, groups=g, npoints=npoints, nmeas=nmeas, first=first, last=last, gap=gap,
               scale_bits=scale_bits, dstart=dstart, nsub=nsub, rate='%08x' % rate, nev=nev, evtime=evtime, evdisp=evdisp, evlab=evlab,
               nblocks=nblocks, four=four, keylab=keylab, keyblk=keyblk, proc=buf[base + 3])
    data_off = base + 512 * nblocks
    issues = []
    def issue(comp, msg): issues.append((comp, msg))
    if strict:
        if any(b != 0 for b in buf[endrec:data_off]): issue('section.padding', 'non-zero bytes between the end marker and the data')
        if endrec >= data_off: issue('section.terminator', 'no end marker inside the declared blocks')
        if dstart != paddr + nblocks: issue('hdr.data_start', 'header word 9 = %d, data really start in block %d' % (dstart, paddr + nblocks))
        _, ds = find_param(g, b'POINT', b'DATA_START')
        if ds is None or not ds['vals'] or (ds['vals'][0] & 0xFFFF) != paddr + nblocks:
            issue('POINT:DATA_START', 'is %r, data really start in block %d' % (ds['vals'] if ds else None, paddr + nblocks))
        f = struct.unpack('<f', struct.pack('<I', scale_bits))[0]
        if not (f < 0): issue('hdr.scale', 'scale word %08x is not a negative float (float-format marker)' % scale_bits)
    nfr = (last - first + 1) if (npoints or nmeas) else 0
    nchan = nmeas // nsub if nsub else 0
    if strict:
        def pv(gname, pname):
            _, p = find_param(g, gname, pname)
            return p['vals'][0] if p and p['vals'] and p['type'] in 'IB' else None
        if pv(b'POINT', b'USED') is not None and pv(b'POINT', b'USED') & 0xFFFF != npoints: issue('hdr.points', 'header %d, POINT:USED %r' % (npoints, pv(b'POINT', b'USED')))
        if pv(b'POINT', b'FRAMES') is not None and pv(b'POINT', b'FRAMES') & 0xFFFF != nfr & 0xFFFF:
            issue('hdr.frames', 'header range gives %d frames, POINT:FRAMES %r' % (nfr, pv(b'POINT', b'FRAMES')))
        if pv(b'ANALOG', b'USED') is not None and nsub and pv(b'ANALOG', b'USED') & 0xFFFF != nchan: issue('hdr.analogs', 'header %d, ANALOG:USED %r' % (nchan, pv(b'ANALOG', b'USED')))
        if nsub and nmeas != nchan * nsub: issue('hdr.meas', 'samples per frame %d is not channels x sub-frames' % nmeas)
        _, pr = find_param(g, b'POINT', b'RATE')
        # "agree" for the rate is agreement to 1e-4 Hz (C05), the way the format's users compare the two floats: a file whose header
        # float differs from POINT:RATE in its last bits is consistent (the library keeps such a header value when it loads one)
        def _k(bits):
            x = struct.unpack('<f', struct.pack('<I', bits))[0]
            try: return int(struct.unpack('<f', struct.pack('<f', x * 10000.0))[0])
            except (OverflowError, ValueError): return ('bits', bits)
        if pr is not None and pr['type'] == 'F' and pr['vals'] and _k(int(pr['vals'][0], 16)) != _k(rate): issue('hdr.rate', 'header %08x, POINT:RATE %s' % (rate, pr['vals'][0]))
    per = 4 * npoints + nchan * nsub
    frames = []
    pos = data_off
    short = False
    for _ in range(nfr):
        raw = buf[pos:pos + 4 * per]
        if len(raw) != 4 * per:
            short = True
            raw = raw + b'\x00' * (4 * per - len(raw))
        v = ['%08x' % x for x in struct.unpack('<%dI' % per, raw)]
        pts = [tuple(v[4 * i:4 * i + 4]) for i in range(npoints)]
        an = [v[4 * npoints + s * nchan:4 * npoints + (s + 1) * nchan] for s in range(nsub)]
        frames.append((pts, an)); pos += 4 * per
    if strict and (short or pos != len(buf)): issue('data.length', 'data section is %d bytes, frames x (4 x points + channels x sub-frames) floats is %d' % (len(buf) - data_off, 4 * per * nfr))
    out['issues'] = issues
    out['frames'] = frames; out['nchan'] = nchan; out['nframes'] = nfr
    return out
