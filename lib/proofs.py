"""The proof side of every check: build the Coq development, re-check the property file,
compare its Print Assumptions output with the committed expectation, run the gates."""
import os, re, subprocess, time
from . import build

COQ = build.COQ
BANNED = re.compile(r'\b(Admitted|admit|Axiom|Parameter|Conjecture|Admit Obligations)\b|Unset Guard|bypass_check|type-in-type|impredicative-set|Unset Positivity|Unset Universe')

def strip_comments(src):
    out = []; depth = 0; i = 0
    while i < len(src):
        if src.startswith('(*', i): depth += 1; i += 2; continue
        if src.startswith('*)', i) and depth > 0: depth -= 1; i += 2; continue
        if depth == 0: out.append(src[i])
        i += 1
    return ''.join(out)

def gate():
    """no Admitted / Axiom / ... anywhere in the development (comments ignored)"""
    bad = []
    for f in sorted(os.listdir(COQ)):
        if not f.endswith('.v'): continue
        src = strip_comments(open(os.path.join(COQ, f)).read())
        for m in BANNED.finditer(src):
            # "Variable" inside sections is fine; Parameter/Axiom are not.  'admit' as part of another word is excluded by \b
            bad.append('%s: %s' % (f, m.group(0)))
    return bad

def check_property(prop, timeout=600):
    """Returns dict(ok, obligations, discharged, theorems, assumptions, log, checker_cmd)."""
    pf = 'Properties_%s.v' % prop
    res = dict(ok=False, obligations=0, discharged=0, theorems=[], assumptions={}, log='', checker_cmd='')
    path = os.path.join(COQ, pf)
    if not os.path.exists(path):
        res['log'] = 'no property file ' + pf; return res
    src = strip_comments(open(path).read())
    thms = re.findall(r'\b(?:Theorem|Lemma|Corollary|Example)\s+([A-Za-z0-9_\']+)', src)
    res['theorems'] = thms; res['obligations'] = len(thms)
    bad = gate()
    if bad:
        res['log'] = 'gate: ' + '; '.join(bad); return res
    ok, log = build.build_coq([pf + 'o'], timeout=timeout)
    if not ok:
        res['log'] = 'make failed:\n' + log[-3000:]; return res
    cmd = ['timeout', str(timeout), 'coqc', '-Q', '.', 'EZ', pf]
    res['checker_cmd'] = 'cd /verif/coq && make -f Makefile.coq %so && coqc -Q . EZ %s' % (pf, pf)
    r = subprocess.run(cmd, cwd=COQ, stdout=subprocess.PIPE, stderr=subprocess.STDOUT, text=True)
    res['log'] = r.stdout[-4000:]
    if r.returncode != 0: return res
    # parse Print Assumptions output: blocks "Closed under the global context" or "Axioms:\n name : type"
    assum = {}
    out = r.stdout
    blocks = re.split(r'(?=Closed under the global context|Axioms:)', out)
    k = 0
    pa = re.findall(r'Print Assumptions\s+([A-Za-z0-9_\']+)', src)
    for b in blocks:
        if b.startswith('Closed under the global context'):
            if k < len(pa): assum[pa[k]] = []; k += 1
        elif b.startswith('Axioms:'):
            names = [ln.split()[0] for ln in b[len('Axioms:'):].split('\n') if ln and not ln[0].isspace()]
            if k < len(pa): assum[pa[k]] = sorted(set(names)); k += 1
    res['assumptions'] = assum
    exp_path = os.path.join(COQ, 'expected_assumptions', prop + '.txt')
    got = '\n'.join('%s: %s' % (t, ' '.join(assum.get(t, ['<missing>'])) or 'closed') for t in pa) + '\n'
    res['assumption_text'] = got
    if not os.path.exists(exp_path):
        res['log'] += '\nno expected assumptions file ' + exp_path; return res
    if open(exp_path).read() != got:
        res['log'] += '\nassumptions differ from %s:\n%s' % (exp_path, got); return res
    if set(pa) != set(thms):
        res['log'] += '\nnot every theorem is followed by Print Assumptions'; return res
    res['discharged'] = len(thms); res['ok'] = True
    return res

if __name__ == '__main__':
    import sys
    # development helper: python3 -m lib.proofs accept C12  -> records the current Print Assumptions output
    if len(sys.argv) >= 3 and sys.argv[1] == 'accept':
        for prop in sys.argv[2:]:
            r = check_property(prop)
            os.makedirs(os.path.join(COQ, 'expected_assumptions'), exist_ok=True)
            if 'assumption_text' in r:
                open(os.path.join(COQ, 'expected_assumptions', prop + '.txt'), 'w').write(r['assumption_text'])
                print(prop, 'recorded'); print(r['assumption_text'])
            else:
                print(prop, 'FAILED', r['log'][-2000:])
