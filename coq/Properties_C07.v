(* Properties_C07.v — C07: frame-adding calls enforce their documented preconditions.
   doc_frame / doc_pointcol are the documented guards as functions of what the object
   declares (POINT:USED, POINT:LABELS, the two rates, ANALOG:USED, sub-frames per frame). *)
From EZ Require Import Base Types Api Proofs_Store Proofs_Guards Proofs_Updaters Proofs_AnalogCol Float32 Run.
Local Open Scope N_scope.

(* frame(f, idx) is refused exactly when a documented precondition fails, with the documented class,
   in the documented order — and then the object is returned as it was; otherwise it proceeds to store *)
Theorem C07_frame_guard : forall f_key f_tosize f_div f_is_zero f idx s e,
  read_env (groups s) (hdr s) = Ok e ->
  api_frame f_key f_tosize f_div f_is_zero f idx s =
    match doc_frame f_is_zero e f with
    | Some x => RThrow x s
    | None => store_and_update f_key f_tosize f_div f idx s
    end.
Proof. exact api_frame_doc. Qed.
Print Assumptions C07_frame_guard.

(* conversely a frame that matches the declared names, counts and rates passes every guard *)
Theorem C07_matching_frame_accepted : forall f_is_zero e f, matches_decl f_is_zero e f -> doc_frame f_is_zero e f = None.
Proof. exact matching_frame_passes. Qed.
Print Assumptions C07_matching_frame_accepted.

(* the guards of frame() are a function of the parameter tree and the header only (no hidden state) *)
Theorem C07_frame_guard_is_pure : forall f_key f_tosize f_div f_is_zero f idx s,
  api_frame f_key f_tosize f_div f_is_zero f idx s =
    match frame_guard f_is_zero (groups s) (hdr s) f with
    | Ok _ => store_and_update f_key f_tosize f_div f idx s
    | Throw e => RThrow e s
    | UB t => RUB t
    end.
Proof. exact api_frame_factor. Qed.
Print Assumptions C07_frame_guard_is_pure.

(* point(frames): invalid_argument when the number of frames differs or nothing is supplied or a name
   already exists; otherwise the columns are added (frames supplying at least the points of the first) *)
Theorem C07_point_column_guard : forall f_key f_tosize f_div news s labels,
  r_strs (groups s) nm_POINT nm_LABELS = Ok labels ->
  (forall n n0, nth_error news 0 = Some n0 -> In n news -> nlen (fr_pts n0) <= nlen (fr_pts n)) ->
  api_point_col f_key f_tosize f_div news s =
    match doc_pointcol (nlen (frames s)) labels news with
    | Some x => RThrow x s
    | None => cols_and_update f_key f_tosize f_div news (match news with n0 :: _ => length (fr_pts n0) | [] => 0 end) s
    end.
Proof. exact api_point_col_doc. Qed.
Print Assumptions C07_point_column_guard.

(* analog(frames): refused exactly as documented (number of frames, sub-frame count of the first supplied frame, nothing
   supplied, a channel name that already exists), in that order, the object returned as it was; otherwise the columns are
   added and the updaters run.  For supplied and stored frames of uniform shape (every one has the header's sub-frames, each
   as wide as the first). *)
Theorem C07_channel_column_guard : forall f_key f_tosize f_div news s labels,
  r_strs (groups s) nm_ANALOG nm_LABELS = Ok labels ->
  uniform_chancol (N.to_nat (h_byframe (hdr s))) (width0 news) (frames s) news ->
  api_analog_col f_key f_tosize f_div news s =
    match doc_chancol (nlen (frames s)) (h_byframe (hdr s)) labels news with
    | Some x => RThrow x s
    | None => chancols_and_update f_key f_tosize f_div news (N.to_nat (width0 news)) s
    end.
Proof. exact api_analog_col_doc. Qed.
Print Assumptions C07_channel_column_guard.

(* non-vacuity: a refusal and an acceptance on concrete objects of the executable instance *)
Example C07_nonvacuous :
  let rate := mkParam nm_RATE [] false TFloat [1] [] [1120403456] [] in
  let f1 := mkFrame [mkPoint [97] 0 0 0 0] [] in
  exists s1 s2 s3,
    step_x init (OPoint [97]) = ROk tt s1 /\
    step_x s1 (OFrame f1 None) = RThrow RuntimeError s1 /\        (* POINT:RATE is 0 *)
    step_x s1 (OParam nm_POINT rate) = ROk tt s2 /\
    step_x s2 (OFrame f1 None) = ROk tt s3 /\
    step_x s3 (OFrame (mkFrame [] []) None) = RThrow RuntimeError s3.   (* point count differs *)
Proof.
  do 3 eexists.
  split; [vm_compute; reflexivity|].
  split; [vm_compute; reflexivity|].
  split; [vm_compute; reflexivity|].
  split; [vm_compute; reflexivity|].
  vm_compute; reflexivity.
Qed.
Print Assumptions C07_nonvacuous.
