(* Float32.v — executable instance of the four float operations of Api.v, on IEEE-754
   binary32 bit patterns, through Flocq.  Used only to *run* the model; the theorems are
   proved for arbitrary operations (Section variables). *)
From Flocq Require Import Core BinarySingleNaN Binary Bits.
From EZ Require Import Base.
Local Open Scope Z_scope.

Definition b32 (bits : N) : binary32 := b32_of_bits (Z.of_N bits mod 4294967296).
Definition bits32 (f : binary32) : N := Z.to_N (bits_of_b32 f).

Definition f32_10000 : N := 1176256512%N. (* 0x461c4000 = 10000.0f *)

(* static_cast<int>(r * 10000.0f): float product rounded to nearest-even, then truncated;
   outside the range of int (or NaN) the conversion is undefined *)
Definition f_key_impl (r : N) : outcome Z :=
  let p := b32_mult BinarySingleNaN.mode_NE (b32 r) (b32 f32_10000) in
  if Binary.is_finite _ _ p then
    let t := Binary.Btrunc _ _ p in
    if (-2147483648 <=? t) && (t <=? 2147483647) then Ok t else UB (CastRange 1)
  else UB (CastRange 1).

(* static_cast<size_t>(r) *)
Definition f_tosize_impl (r : N) : outcome N :=
  let x := b32 r in
  if Binary.is_finite _ _ x then
    let t := Binary.Btrunc _ _ x in
    if (0 <=? t) && (t <=? 18446744073709551615) then Ok (Z.to_N t) else UB (CastRange 2)
  else UB (CastRange 2).

Definition f_div_impl (a b : N) : N := bits32 (b32_div BinarySingleNaN.mode_NE (b32 a) (b32 b)).

(* static_cast<double>(r) == 0.0 : plus or minus zero *)
Definition f_is_zero_impl (r : N) : bool := (N.land r 2147483647 =? 0)%N.

(* the two conversions are undefined outside their range: they never throw *)
Lemma f_key_impl_nothrow : forall x e, f_key_impl x <> Throw e.
Proof. intros x e. unfold f_key_impl. destruct (Binary.is_finite _ _ _); [destruct (_ && _)|]; discriminate. Qed.
Lemma f_tosize_impl_nothrow : forall x e, f_tosize_impl x <> Throw e.
Proof. intros x e. unfold f_tosize_impl. destruct (Binary.is_finite _ _ _); [destruct (_ && _)|]; discriminate. Qed.
