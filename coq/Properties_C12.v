(* Properties_C12.v — C12: every integer and float bit pattern is decoded and encoded
   exactly.  Nothing but the statements; proofs are in Proofs_Bytes.v. *)
From EZ Require Import Base Bytes Proofs_Bytes Proofs_Bytes4.
Local Open Scope Z_scope.

(* reading what the writer emitted gives the number back: 8-bit, 16-bit signed, 16-bit counts *)
Theorem C12_byte_decode : forall v, -128 <= v < 128 -> hex2int (le_bytes 1 v) = v.
Proof. exact hex2int_le1. Qed.
Print Assumptions C12_byte_decode.

Theorem C12_int_decode : forall v, -32768 <= v < 32768 -> hex2int (le_bytes 2 v) = v.
Proof. exact hex2int_le2. Qed.
Print Assumptions C12_int_decode.

Theorem C12_word_decode : forall u, 0 <= u < 65536 -> hex2uint (le_bytes 2 u) = u.
Proof. exact hex2uint_le2. Qed.
Print Assumptions C12_word_decode.

Theorem C12_ubyte_decode : forall u, 0 <= u < 256 -> hex2uint (le_bytes 1 u) = u.
Proof. exact hex2uint_le1. Qed.
Print Assumptions C12_ubyte_decode.

(* writing what was read re-emits the same bytes: all 2^8 and 2^16 patterns *)
Theorem C12_byte_reencode : forall b0 : N, (b0 < 256)%N -> le_bytes 1 (hex2int [b0]) = [b0].
Proof. exact le_hex2int_1. Qed.
Print Assumptions C12_byte_reencode.

Theorem C12_int_reencode : forall b0 b1 : N, (b0 < 256)%N -> (b1 < 256)%N ->
  le_bytes 2 (hex2int [b0; b1]) = [b0; b1].
Proof. exact le_hex2int_2. Qed.
Print Assumptions C12_int_reencode.

Theorem C12_word_reencode : forall b0 b1 : N, (b0 < 256)%N -> (b1 < 256)%N ->
  le_bytes 2 (hex2uint [b0; b1]) = [b0; b1].
Proof. exact le_hex2uint_2. Qed.
Print Assumptions C12_word_reencode.

(* a float is the number its four bytes spell, in both directions, for all 2^32 patterns *)
(* the 32-bit integer of the header (scale word): every value of the int range, by arithmetic (no sweep possible):
   the bitwise-or of byte-aligned parts is their sum *)
Theorem C12_int32_decode : forall v, -2147483648 <= v < 2147483648 -> hex2int (le_bytes 4 v) = v.
Proof. exact hex2int_le4. Qed.
Print Assumptions C12_int32_decode.

Theorem C12_uint32_assembly : forall b0 b1 b2 b3 : N, (b0 < 256)%N -> (b1 < 256)%N -> (b2 < 256)%N -> (b3 < 256)%N ->
  hex2uint [b0; b1; b2; b3] = Z.of_N b0 + 256 * Z.of_N b1 + 65536 * Z.of_N b2 + 16777216 * Z.of_N b3.
Proof. exact hex2uint_4. Qed.
Print Assumptions C12_uint32_assembly.

Theorem C12_float_pattern : forall v : N, (v < 4294967296)%N -> f32_of_bytes (le_bytesN 4 v) = v.
Proof. exact f32_roundtrip. Qed.
Print Assumptions C12_float_pattern.

Theorem C12_float_bytes : forall a b c d : N,
  (a < 256)%N -> (b < 256)%N -> (c < 256)%N -> (d < 256)%N ->
  le_bytesN 4 (f32_of_bytes [a; b; c; d]) = [a; b; c; d].
Proof. exact f32_bytes_roundtrip. Qed.
Print Assumptions C12_float_bytes.

(* one- and two-byte decodes evaluate nothing the C++ standard leaves undefined *)
Theorem C12_no_undefined_12 : forall bs, (length bs <= 2)%nat -> hex2uint_flag bs = false.
Proof. exact hex2uint_noflag_12. Qed.
Print Assumptions C12_no_undefined_12.
