(* Proofs_Updaters.v — the two updaters on objects whose mandatory POINT/ANALOG parameters are well
   typed: they never throw, they keep the parameters well typed, and afterwards POINT:FRAMES,
   POINT:USED and ANALOG:USED are the number of stored frames, the points of frame 0 and the channels
   of its first sub-frame.  This is the parameter half of C05 and what closes C10 for the frame-adding
   calls (a throw after the store can only come from the updaters). *)
From Coq Require Import Lia.
From EZ Require Import Base Types Api Proofs_Lookup Proofs_Monad Proofs_Param Proofs_Store Proofs_Guards Proofs_Refuse Proofs_Tree Proofs_Hoare Spec_Typed.
Local Open Scope N_scope.

Lemma MT_lookup : forall gs g n k, MT gs -> In (g, n, k) MAND ->
  exists p, lookup gs g n = Ok p /\ kind_ok k p = true.
Proof.
  intros gs g n k H I. unfold MT, mt_b in H. rewrite forallb_forall in H. specialize (H _ I).
  unfold mt_entry in H. destruct (lookup gs g n) as [p| |]; try discriminate. eauto.
Qed.

(* one kind per (group, name) *)
Definition key_eqb (x y : bstr * bstr * kind) : bool :=
  bstr_eqb (fst (fst x)) (fst (fst y)) && bstr_eqb (snd (fst x)) (snd (fst y)).
Definition kind_eqb (a b : kind) : bool :=
  match a, b with KInt1, KInt1 | KFlt1, KFlt1 | KInts, KInts | KFlts, KFlts | KStrs, KStrs | KAny, KAny => true | _, _ => false end.
Lemma kind_eqb_eq : forall a b, kind_eqb a b = true -> a = b.
Proof. intros [] []; cbn; congruence. Qed.
Lemma MAND_fun : forall g n k k', In (g, n, k) MAND -> In (g, n, k') MAND -> k = k'.
Proof.
  assert (H : forallb (fun x => forallb (fun y => implb (key_eqb x y) (kind_eqb (snd x) (snd y))) MAND) MAND = true) by (vm_compute; reflexivity).
  intros g n k k' I1 I2. rewrite forallb_forall in H. specialize (H _ I1). rewrite forallb_forall in H. specialize (H _ I2).
  unfold key_eqb in H. cbn [fst snd] in H.
  assert (E1 : bstr_eqb g g = true) by (apply bstr_eqb_eq; reflexivity).
  assert (E2 : bstr_eqb n n = true) by (apply bstr_eqb_eq; reflexivity).
  rewrite E1, E2 in H. cbn in H. apply kind_eqb_eq. exact H.
Qed.

Lemma bstr_dec : forall a b : bstr, {a = b} + {a <> b}.
Proof. apply list_eq_dec. apply N.eq_dec. Qed.

(* replacing a mandatory parameter by one of the same name and kind keeps the tree well typed *)
Lemma MT_upd : forall gs g n k f p p',
  MT gs -> In (g, n, k) MAND -> lookup gs g n = Ok p -> f p = Ok p' -> p_name p' = p_name p -> kind_ok k p' = true ->
  exists gs', t_upd gs g n f = Ok gs' /\ MT gs' /\ lookup gs' g n = Ok p' /\
    (forall g2 n2, (g2 <> g \/ n2 <> n) -> lookup gs' g2 n2 = lookup gs g2 n2).
Proof.
  intros gs g n k f p p' M I L F Nm K.
  destruct (t_upd_lookup gs g n f p p' L F Nm) as [gs' [E [L' [Fr _]]]].
  exists gs'. split; [exact E|]. split; [|split; [exact L'|exact Fr]].
  unfold MT, mt_b. apply forallb_forall. intros [[g2 n2] k2] I2. unfold mt_entry.
  destruct (bstr_dec g2 g) as [Eg|Ng]; [destruct (bstr_dec n2 n) as [En|Nn]|].
  - subst g2 n2. rewrite L'. rewrite (MAND_fun g n k2 k I2 I). exact K.
  - rewrite (Fr g2 n2 (or_intror Nn)). destruct (MT_lookup gs g2 n2 k2 M I2) as [q [Lq Kq]]. rewrite Lq. exact Kq.
  - rewrite (Fr g2 n2 (or_introl Ng)). destruct (MT_lookup gs g2 n2 k2 M I2) as [q [Lq Kq]]. rewrite Lq. exact Kq.
Qed.

(* ---------- reads under MT ---------- *)
Lemma lookup_inv : forall gs g n p, lookup gs g n = Ok p ->
  exists gi gr pi, group_idx gs g = Ok gi /\ group_at gs gi = Ok gr /\ group_named gs g = Ok gr /\
                   param_idx gr n = Ok pi /\ param_at gr pi = Ok p /\ param_named gr n = Ok p.
Proof.
  intros gs g n p H. unfold lookup in H. destruct (group_named gs g) as [gr| |] eqn:G; cbn [obind] in H; try discriminate.
  pose proof G as G0. unfold group_named in G. destruct (group_idx gs g) as [gi| |] eqn:Gi; cbn [obind] in G; try discriminate.
  pose proof H as H0. unfold param_named in H. destruct (param_idx gr n) as [pi| |] eqn:Pi; cbn [obind] in H; try discriminate.
  exists gi, gr, pi. repeat split; assumption.
Qed.

Lemma kind_int1 : forall p, kind_ok KInt1 p = true -> exists v t, values_as_int p = Ok (v :: t) /\ p_type p = TInt.
Proof.
  intros p H. unfold kind_ok, type_ok in H. apply andb_prop in H. destruct H as [H _].
  unfold values_as_int. destruct (p_type p); try discriminate. destruct (p_ints p) as [|v t]; [discriminate|]. eauto.
Qed.
Lemma kind_flt1 : forall p, kind_ok KFlt1 p = true -> exists v t, values_as_float p = Ok (v :: t) /\ p_type p = TFloat.
Proof.
  intros p H. unfold kind_ok, type_ok in H. apply andb_prop in H. destruct H as [H _].
  unfold values_as_float. destruct (p_type p); try discriminate. destruct (p_floats p) as [|v t]; [discriminate|]. eauto.
Qed.
Lemma kind_size : forall k p, kind_ok k p = true -> nlen (p_ints p) < LIM /\ nlen (p_floats p) < LIM /\ nlen (p_strs p) < LIM.
Proof.
  intros k p H. unfold kind_ok, size_ok in H. apply andb_prop in H. destruct H as [_ H].
  apply andb_prop in H. destruct H as [H H3]. apply andb_prop in H. destruct H as [H1 H2].
  apply N.ltb_lt in H1, H2, H3. auto.
Qed.

Lemma at0_cons : forall A (v : A) t, at_ (v :: t) 0 = Ok v.
Proof. intros A v t. apply at_ok. split; [unfold nlen; cbn [length]; lia|reflexivity]. Qed.

Lemma r_int0_MT : forall k gs g n, MT gs -> In (g, n, KInt1) MAND -> exists v, r_int0 k gs g n = Ok v.
Proof.
  intros k gs g n M I. destruct (MT_lookup gs g n KInt1 M I) as [p [L K]].
  destruct (kind_int1 p K) as [v [t [V _]]]. exists v. unfold r_int0. rewrite L. cbn [obind]. rewrite V. cbn [obind]. apply at0_cons.
Qed.
Lemma r_float0_MT : forall k gs g n, MT gs -> In (g, n, KFlt1) MAND -> exists v, r_float0 k gs g n = Ok v.
Proof.
  intros k gs g n M I. destruct (MT_lookup gs g n KFlt1 M I) as [p [L K]].
  destruct (kind_flt1 p K) as [v [t [V _]]]. exists v. unfold r_float0. rewrite L. cbn [obind]. rewrite V. cbn [obind]. apply at0_cons.
Qed.

Ltac in_mand := unfold MAND; cbn [In]; tauto.

(* triples for the reads *)
Lemma h_int0 : forall k g n (P : state -> Prop) (Q : Z -> state -> Prop),
  In (g, n, KInt1) MAND -> (forall s, P s -> MT (groups s)) ->
  (forall s v, P s -> r_int0 0 (groups s) g n = Ok v -> Q v s) -> hoare P (int0 k g n) Q.
Proof.
  intros k g n P Q I M H. apply (h_lift_st _ (fun s => r_int0 k (groups s) g n)); [intros s; apply int0_pure|].
  intros s Hs. destruct (r_int0_MT k (groups s) g n (M s Hs) I) as [v E]. rewrite E. split; [discriminate|].
  intros a Ea. injection Ea as <-. apply (H s v Hs). exact E.
Qed.
Lemma h_float0 : forall k g n (P : state -> Prop) (Q : f32 -> state -> Prop),
  In (g, n, KFlt1) MAND -> (forall s, P s -> MT (groups s)) ->
  (forall s v, P s -> r_float0 0 (groups s) g n = Ok v -> Q v s) -> hoare P (float0 k g n) Q.
Proof.
  intros k g n P Q I M H. apply (h_lift_st _ (fun s => r_float0 k (groups s) g n)); [intros s; apply float0_pure|].
  intros s Hs. destruct (r_float0_MT k (groups s) g n (M s Hs) I) as [v E]. rewrite E. split; [discriminate|].
  intros a Ea. injection Ea as <-. apply (H s v Hs). exact E.
Qed.
Lemma h_get_group : forall g n k (P : state -> Prop) (Q : group -> state -> Prop),
  In (g, n, k) MAND -> (forall s, P s -> MT (groups s)) ->
  (forall s gr, P s -> group_named (groups s) g = Ok gr -> Q gr s) -> hoare P (get_group g) Q.
Proof.
  intros g n k P Q I M H. apply (h_lift_st _ (fun s => group_named (groups s) g)).
  - intros s. unfold get_group. cbv [bind getS]. reflexivity.
  - intros s Hs. destruct (MT_lookup _ g n k (M s Hs) I) as [p [L _]]. destruct (lookup_inv _ _ _ _ L) as [gi [gr [pi [_ [_ [G _]]]]]].
    rewrite G. split; [discriminate|]. intros a Ea. injection Ea as <-. exact (H s gr Hs G).
Qed.

(* the write: continuation-style postcondition *)
Lemma h_upd : forall g n k f (P : state -> Prop) (Q : unit -> state -> Prop),
  In (g, n, k) MAND -> (forall s, P s -> MT (groups s)) ->
  (forall s p, P s -> lookup (groups s) g n = Ok p -> kind_ok k p = true ->
     exists p', f p = Ok p' /\ p_name p' = p_name p /\ kind_ok k p' = true /\
       forall gs', MT gs' -> lookup gs' g n = Ok p' ->
         (forall g2 n2, (g2 <> g \/ n2 <> n) -> lookup gs' g2 n2 = lookup (groups s) g2 n2) -> Q tt (set_groups s gs')) ->
  hoare P (upd_param g n f) Q.
Proof.
  intros g n k f P Q I M H s Hs. rewrite upd_param_pure.
  destruct (MT_lookup _ g n k (M s Hs) I) as [p [L K]].
  destruct (H s p Hs L K) as [p' [F [Nm [K' Cont]]]].
  destruct (MT_upd _ g n k f p p' (M s Hs) I L F Nm K') as [gs' [E [M' [L' Fr]]]].
  rewrite E. exact (Cont gs' M' L' Fr).
Qed.

(* ---------- computations that keep an invariant K and never throw ---------- *)
Definition stable {A} (K : state -> Prop) (m : Mst A) : Prop := hoare K m (fun _ => K).

Section Stable.
Variable K : state -> Prop.
Hypothesis K_MT : forall s, K s -> MT (groups s).
Hypothesis K_hdr : forall s h, K s -> K (set_hdr s h).

Lemma st_ret : forall A (a : A), stable K (ret a).
Proof. intros A a. apply h_ret. auto. Qed.
Lemma st_bind : forall A B (m : Mst A) (k : A -> Mst B), stable K m -> (forall a, stable K (k a)) -> stable K (bind m k).
Proof. intros A B m k Hm Hk. eapply h_bind; [exact Hm|exact Hk]. Qed.
Lemma st_getS : stable K getS.
Proof. apply h_getS. auto. Qed.
Lemma st_lift : forall A (o : outcome A), (forall e, o <> Throw e) -> stable K (lift o).
Proof. intros A o NT. apply h_lift; auto. Qed.
Lemma st_when : forall (b : bool) m, stable K m -> stable K (when b m).
Proof. intros b m H. apply h_when; auto. Qed.
Lemma st_if : forall A (b : bool) (m1 m2 : Mst A), stable K m1 -> stable K m2 -> stable K (if b then m1 else m2).
Proof. intros A b m1 m2 H1 H2. destruct b; assumption. Qed.
Lemma st_mod_hdr : forall f, stable K (mod_hdr f).
Proof. intros f. apply h_mod_hdr. intros s Hs. apply K_hdr, Hs. Qed.
Lemma st_int0 : forall k g n, In (g, n, KInt1) MAND -> stable K (int0 k g n).
Proof. intros k g n I. apply h_int0; auto. Qed.
Lemma st_float0 : forall k g n, In (g, n, KFlt1) MAND -> stable K (float0 k g n).
Proof. intros k g n I. apply h_float0; auto. Qed.
Lemma st_get_group : forall g n k, In (g, n, k) MAND -> stable K (get_group g).
Proof. intros g n k I. eapply h_get_group; eauto. Qed.
End Stable.

Section WithOps.
Variable f_key : f32 -> outcome Z.
Variable f_tosize : f32 -> outcome N.
Variable f_div : f32 -> f32 -> f32.
(* the two conversions are undefined outside their range; they do not throw *)
Hypothesis f_key_nt : forall x e, f_key x <> Throw e.
Hypothesis f_tosize_nt : forall x e, f_tosize x <> Throw e.

Section UH.
Variable K : state -> Prop.
Hypothesis K_MT : forall s, K s -> MT (groups s).
Hypothesis K_hdr : forall s h, K s -> K (set_hdr s h).

Ltac st :=
  repeat first
    [ apply (st_int0 K K_MT); in_mand
    | apply (st_float0 K K_MT); in_mand
    | apply (st_get_group K K_MT nm_ANALOG nm_USED KInt1); in_mand
    | apply (st_get_group K K_MT nm_POINT nm_USED KInt1); in_mand
    | apply (st_mod_hdr K K_hdr)
    | apply (st_when K)
    | apply (st_lift K); first [apply f_key_nt | apply f_tosize_nt]
    | apply (st_getS K)
    | apply (st_ret K)
    | apply (st_bind K); [|intro]
    | apply (st_if K) ].

Lemma st_analog_rate_step : forall rate, stable K (analog_rate_step f_tosize f_div rate).
Proof. intros rate. unfold analog_rate_step. st. Qed.

Lemma st_byframe_step : forall b rate, stable K (byframe_step f_tosize f_div b rate).
Proof.
  intros b rate. unfold byframe_step. apply (st_bind K); [apply (st_getS K)|]. intros s.
  destruct (if b then frames s else []) as [|f0 t]; [apply st_analog_rate_step|].
  apply (st_if K); [st|apply st_analog_rate_step].
Qed.

Lemma st_uh_rate_points : stable K (uh_rate_points f_key).
Proof. unfold uh_rate_points. st. Qed.
Lemma st_uh_analogs : stable K uh_analogs.
Proof. unfold uh_analogs. st. Qed.
Lemma st_uh_frames : stable K uh_frames.
Proof. unfold uh_frames. st. Qed.

(* updateHeader never throws on well-typed mandatory parameters, and keeps any invariant that does not mention the header *)
Theorem st_update_header : forall b, stable K (update_header f_key f_tosize f_div b).
Proof.
  intros b. unfold update_header.
  apply (st_bind K); [apply st_uh_rate_points|]. intros rate.
  apply (st_bind K); [apply st_byframe_step|]. intros _.
  apply (st_bind K); [apply st_uh_analogs|]. intros _. apply st_uh_frames.
Qed.
End UH.

(* ---------- setters on well-sized data ---------- *)
Local Opaque N.mul N.modulo.
Lemma dim_consistent_self : forall n, n < two64 -> dim_consistent n (dims_or_len [] n) = true.
Proof.
  intros n H. unfold dims_or_len, dim_consistent. destruct (n =? 0) eqn:E.
  - apply N.eqb_eq in E. subst n. reflexivity.
  - apply N.eqb_eq. unfold wrap64. cbn [prodN]. rewrite N.mul_1_r. symmetry. apply N.mod_small. exact H.
Qed.
Local Transparent N.mul N.modulo.

Lemma LIM_two64 : forall n, n < LIM -> n < two64.
Proof. intros n H. unfold LIM, two64 in *. lia. Qed.

Lemma size_ok_intro : forall p, nlen (p_ints p) < LIM -> nlen (p_floats p) < LIM -> nlen (p_strs p) < LIM -> size_ok p = true.
Proof. intros p A B C. unfold size_ok. apply N.ltb_lt in A, B, C. rewrite A, B, C. reflexivity. Qed.

Lemma set_ints_ok : forall k p data, kind_ok k p = true -> nlen data < LIM ->
  exists p', set_ints p data [] = Ok p' /\ p_name p' = p_name p /\ p_type p' = TInt /\ p_ints p' = data /\ size_ok p' = true.
Proof.
  intros k p data K H. destruct (kind_size k p K) as [_ [B C]]. unfold set_ints. rewrite dim_consistent_self by (apply LIM_two64; exact H).
  eexists. split; [reflexivity|]. cbn. repeat split. apply size_ok_intro; cbn; assumption.
Qed.
Lemma set_floats_ok : forall k p data, kind_ok k p = true -> nlen data < LIM ->
  exists p', set_floats p data [] = Ok p' /\ p_name p' = p_name p /\ p_type p' = TFloat /\ p_floats p' = data /\ size_ok p' = true.
Proof.
  intros k p data K H. destruct (kind_size k p K) as [A [_ C]]. unfold set_floats. rewrite dim_consistent_self by (apply LIM_two64; exact H).
  eexists. split; [reflexivity|]. cbn. repeat split. apply size_ok_intro; cbn; assumption.
Qed.
Lemma set_strs_ok : forall k p data, kind_ok k p = true -> nlen data < LIM ->
  exists p', set_strs p data [] = Ok p' /\ p_name p' = p_name p /\ p_type p' = TChar /\ p_strs p' = data /\ size_ok p' = true.
Proof.
  intros k p data K H. destruct (kind_size k p K) as [A [B _]]. unfold set_strs. rewrite dim_consistent_self by (apply LIM_two64; exact H).
  eexists. split; [reflexivity|]. cbn. repeat split. apply size_ok_intro; cbn; assumption.
Qed.

Lemma z_to_usize_wrap32s : forall n, n < 2147483648 -> z_to_usize (wrap32s (Z.of_N n)) = n.
Proof.
  intros n H. unfold z_to_usize, wrap32s.
  rewrite (Z.mod_small (Z.of_N n) 4294967296) by lia.
  destruct (Z.of_N n <? 2147483648)%Z eqn:E; [|apply Z.ltb_ge in E; lia].
  rewrite Z.mod_small by lia. apply N2Z.id.
Qed.

Definition Vint (X : N) (p : param) : Prop := exists v t, values_as_int p = Ok (v :: t) /\ z_to_usize v = X.

Lemma set_usize1_ok : forall k p n, kind_ok k p = true -> n < 2147483648 ->
  exists p', set_usize1 p n = Ok p' /\ p_name p' = p_name p /\ kind_ok KInt1 p' = true /\ Vint n p'.
Proof.
  intros k p n K H. unfold set_usize1, set_int1.
  destruct (set_ints_ok k p [wrap32s (Z.of_N n)] K) as [p' [E [Nm [Ty [Iv Sz]]]]]; [unfold nlen, LIM; cbn; lia|].
  exists p'. split; [exact E|]. split; [exact Nm|]. split.
  - unfold kind_ok, type_ok. rewrite Ty, Iv, Sz. reflexivity.
  - unfold Vint, values_as_int. rewrite Ty, Iv. do 2 eexists. split; [reflexivity|]. apply z_to_usize_wrap32s. exact H.
Qed.

Lemma r_int0_Vint : forall k gs g n v X, r_int0 k gs g n = Ok v -> z_to_usize v = X -> exists p, lookup gs g n = Ok p /\ Vint X p.
Proof.
  intros k gs g n v X H E. unfold r_int0 in H. destruct (lookup gs g n) as [p| |]; cbn [obind] in H; try discriminate.
  exists p. split; [reflexivity|]. destruct (values_as_int p) as [l| |] eqn:V; cbn [obind] in H; try discriminate.
  destruct l as [|a t]; [unfold at_, nlen in H; cbn in H; discriminate|]. rewrite at0_cons in H. injection H as ->.
  exists v, t. auto.
Qed.
Lemma Vint_r_int0 : forall k gs g n X p, lookup gs g n = Ok p -> Vint X p -> exists v, r_int0 k gs g n = Ok v /\ z_to_usize v = X.
Proof.
  intros k gs g n X p L [v [t [V E]]]. exists v. split; [|exact E]. unfold r_int0. rewrite L. cbn [obind]. rewrite V. cbn [obind]. apply at0_cons.
Qed.

(* ---------- invariants of the form "well typed, same frames, and these parameters hold these values" ---------- *)
Section UP.
Variable fs : list frame.
Variable pr : prologue.

Definition fact := (bstr * bstr * (param -> Prop))%type.
Definition holds (gs : list group) (x : fact) : Prop := exists p, lookup gs (fst (fst x)) (snd (fst x)) = Ok p /\ snd x p.
Definition KF (L : list fact) (s : state) : Prop := MT (groups s) /\ frames s = fs /\ pro s = pr /\ Forall (holds (groups s)) L.
Definition apart (g n : bstr) (L : list fact) : Prop := Forall (fun x => fst (fst x) <> g \/ snd (fst x) <> n) L.

Lemma KF_MT : forall L s, KF L s -> MT (groups s). Proof. intros L s H. apply H. Qed.
Lemma KF_hdr : forall L s h, KF L s -> KF L (set_hdr s h). Proof. intros L s h H. exact H. Qed.
Lemma KF_tail : forall x L s, KF (x :: L) s -> KF L s.
Proof. intros x L s [A [B [C D]]]. inversion D; subst. repeat split; assumption. Qed.

Lemma holds_frame : forall gs gs' g n L,
  (forall g2 n2, (g2 <> g \/ n2 <> n) -> lookup gs' g2 n2 = lookup gs g2 n2) -> apart g n L ->
  Forall (holds gs) L -> Forall (holds gs') L.
Proof.
  intros gs gs' g n L Fr Ap H. induction L as [|x L IH]; [constructor|].
  apply Forall_cons_iff in Ap. destruct Ap as [Ax Ap']. apply Forall_cons_iff in H. destruct H as [Hx H'].
  constructor; [|apply IH; assumption].
  destruct Hx as [p [Lp Vp]]. exists p. split; [|exact Vp]. rewrite (Fr _ _ Ax). exact Lp.
Qed.

Lemma h_upd_add : forall L g n k f (V : param -> Prop), In (g, n, k) MAND -> apart g n L ->
  (forall p, kind_ok k p = true -> exists p', f p = Ok p' /\ p_name p' = p_name p /\ kind_ok k p' = true /\ V p') ->
  hoare (KF L) (upd_param g n f) (fun _ => KF ((g, n, V) :: L)).
Proof.
  intros L g n k f V I Ap H. apply (h_upd g n k f _ _ I (KF_MT L)).
  intros s p Hs Lp Kp. destruct (H p Kp) as [p' [F [Nm [K' Vp]]]]. exists p'. split; [exact F|]. split; [exact Nm|]. split; [exact K'|].
  intros gs' M' L' Fr. destruct Hs as [_ [B [C D]]]. split; [exact M'|]. split; [exact B|]. split; [exact C|]. cbn [groups set_groups].
  constructor; [exists p'; cbn [fst snd]; auto|]. eapply holds_frame; eauto.
Qed.
Lemma st_upd : forall L g n k f, In (g, n, k) MAND -> apart g n L ->
  (forall p, kind_ok k p = true -> exists p', f p = Ok p' /\ p_name p' = p_name p /\ kind_ok k p' = true) ->
  stable (KF L) (upd_param g n f).
Proof.
  intros L g n k f I Ap H. eapply h_conseq; [apply (h_upd_add L g n k f (fun _ => True) I Ap)| auto | intros a s; apply KF_tail].
  intros p Kp. destruct (H p Kp) as [p' [A [B C]]]. exists p'. auto.
Qed.

Lemma h_lift_P : forall A (o : outcome A) (P : state -> Prop) (Q : A -> state -> Prop),
  (forall s, P s -> (forall e, o <> Throw e) /\ (forall a, o = Ok a -> Q a s)) -> hoare P (lift o) Q.
Proof. intros A o P Q H. apply (h_lift_st _ (fun _ => o)); [reflexivity|exact H]. Qed.

Lemma param_of_group : forall gs G N k g, MT gs -> In (G, N, k) MAND -> group_named gs G = Ok g ->
  exists pi p, param_idx g N = Ok pi /\ param_named g N = Ok p /\ lookup gs G N = Ok p /\ kind_ok k p = true.
Proof.
  intros gs G N k g M I Hg. destruct (MT_lookup gs G N k M I) as [p [L K]].
  destruct (lookup_inv _ _ _ _ L) as [gi [gr [pi [_ [_ [G2 [Pi [_ Pn]]]]]]]].
  rewrite Hg in G2. injection G2 as <-. exists pi, p. auto.
Qed.

Definition linked (L : list fact) (G : bstr) (g : group) (s : state) : Prop := KF L s /\ group_named (groups s) G = Ok g.

Lemma h_group_link : forall G N k L, In (G, N, k) MAND -> hoare (KF L) (get_group G) (fun g => linked L G g).
Proof.
  intros G N k L I. apply (h_get_group G N k _ _ I (KF_MT L)). intros s gr Hs E. split; assumption.
Qed.
Lemma h_param_idx_link : forall G N k L g, In (G, N, k) MAND ->
  hoare (linked L G g) (lift (param_idx g N)) (fun _ => linked L G g).
Proof.
  intros G N k L g I. apply h_lift_P. intros s [HK Hg].
  destruct (param_of_group _ G N k g (KF_MT L s HK) I Hg) as [pi [p [Pi _]]]. rewrite Pi. split; [discriminate|].
  intros a _. split; assumption.
Qed.
Lemma h_param_named_link : forall G N k L g, In (G, N, k) MAND ->
  hoare (linked L G g) (lift (param_named g N)) (fun p s => KF L s /\ kind_ok k p = true).
Proof.
  intros G N k L g I. apply h_lift_P. intros s [HK Hg].
  destruct (param_of_group _ G N k g (KF_MT L s HK) I Hg) as [pi [p [_ [Pn [_ Kp]]]]]. rewrite Pn. split; [discriminate|].
  intros a Ea. injection Ea as <-. split; assumption.
Qed.

Lemma h_strs_of : forall G N L, In (G, N, KStrs) MAND ->
  hoare (KF L) (strs_of G N) (fun l s => KF L s /\ r_strs (groups s) G N = Ok l /\ nlen l < LIM).
Proof.
  intros G N L I. apply (h_lift_st _ (fun s => r_strs (groups s) G N)); [intros s; apply strs_of_pure|].
  intros s Hs. destruct (MT_lookup _ G N KStrs (KF_MT L s Hs) I) as [p [Lp Kp]].
  unfold r_strs. rewrite Lp. cbn [obind]. pose proof Kp as Kp0. unfold kind_ok, type_ok in Kp. apply andb_prop in Kp. destruct Kp as [T _].
  unfold values_as_string. destruct (p_type p); try discriminate. split; [discriminate|].
  intros a Ea. injection Ea as <-. split; [exact Hs|]. split; [reflexivity|]. apply (kind_size KStrs p Kp0).
Qed.

(* build_names: as many names as asked, when each read is harmless on its range *)
Lemma h_build_names : forall (K : state -> Prop) (F : N -> Mst bstr) n i,
  (forall j, i <= j < i + N.of_nat n -> stable K (F j)) ->
  hoare K (build_names n i F) (fun l s => K s /\ length l = n).
Proof.
  intros K F n. induction n as [|n IH]; intros i H; cbn [build_names].
  - apply h_ret. auto.
  - eapply h_bind; [apply H; lia|]. intros x.
    eapply h_bind; [apply IH; intros j Hj; apply H; lia|]. intros t.
    apply h_ret. intros s [Hs Ht]. split; [exact Hs|]. cbn [length]. rewrite Ht. reflexivity.
Qed.

Lemma idx_nothrow : forall A site (l : list A) i e, idx_ site l i <> Throw e.
Proof. intros A site l i e. unfold idx_. destruct (i <? nlen l); [destruct (nth_error l (N.to_nat i))|]; discriminate. Qed.

(* ---------- the body of updateParameters, cut into its three blocks ---------- *)
Definition frames_block (s : state) : Mst unit :=
  (fz <- int0 20 nm_POINT nm_FRAMES ;;
   when (negb (nlen (frames s) =? z_to_usize fz))
        (_ <- lift (obind (group_named (groups s) nm_POINT) (fun g => param_idx g nm_FRAMES)) ;;
         upd_param nm_POINT nm_FRAMES (fun p => set_usize1 p (nlen (frames s)))))%M.

Definition npts_read (s : state) (newP : list bstr) : Mst N :=
  (match frames s with
   | f0 :: _ => ret (nlen (fr_pts f0))
   | [] => l <- strs_of nm_POINT nm_LABELS ;; ret (wrap64 (nlen l + nlen newP))
   end)%M.
Definition point_name (s : state) (newP : list bstr) (i : N) : Mst bstr :=
  (match frames s with
   | [] => l <- strs_of nm_POINT nm_LABELS ;;
           if i <? nlen l then lift (idx_ 22 l i)
           else lift (idx_ 23 newP (i - nlen l))
   | f0 :: _ => pt <- lift (at_ (fr_pts f0) i) ;; ret (pt_name pt)
   end)%M.
Definition points_block (s : state) (newP : list bstr) (npts : N) : Mst unit :=
  (u <- int0 21 nm_POINT nm_USED ;;
   when (negb (npts =? z_to_usize u))
       (upd_param nm_POINT nm_USED (fun p => set_usize1 p npts) ;;;
        g <- get_group nm_POINT ;;
        _ <- lift (param_idx g nm_LABELS) ;;
        _ <- lift (param_idx g nm_DESCRIPTIONS) ;;
        _ <- lift (param_idx g nm_UNITS) ;;
        labels <- build_names (N.to_nat npts) 0 (point_name s newP) ;;
        upd_param nm_POINT nm_LABELS (fun p => set_strs p labels []) ;;;
        upd_param nm_POINT nm_DESCRIPTIONS (fun p => set_strs p (repeat [] (N.to_nat npts)) []) ;;;
        upd_param nm_POINT nm_UNITS (fun p => set_strs p (repeat str_mm (N.to_nat npts)) [])))%M.

Definition nan_read (s : state) (newA : list bstr) : Mst N :=
  (match frames s with
   | f0 :: _ => match fr_subs f0 with
                | sf0 :: _ => ret (nlen sf0)
                | [] => ret 0
                end
   | [] => l <- strs_of nm_ANALOG nm_LABELS ;; ret (wrap64 (nlen l + nlen newA))
   end)%M.
Definition chan_name (s : state) (newA : list bstr) (i : N) : Mst bstr :=
  (match frames s with
   | [] => l <- strs_of nm_ANALOG nm_LABELS ;;
           if i <? nlen l then lift (idx_ 25 l i)
           else lift (idx_ 26 newA (i - nlen l))
   | f0 :: _ => sf0 <- lift (at_ (fr_subs f0) 0) ;;
                c <- lift (at_ sf0 i) ;; ret (ch_name c)
   end)%M.
Definition analogs_block (s : state) (newA : list bstr) (nan : N) : Mst unit :=
  (au <- int0 24 nm_ANALOG nm_USED ;;
   when (negb (nan =? z_to_usize au))
       (upd_param nm_ANALOG nm_USED (fun p => set_usize1 p nan) ;;;
        g <- get_group nm_ANALOG ;;
        _ <- lift (param_idx g nm_LABELS) ;;
        _ <- lift (param_idx g nm_DESCRIPTIONS) ;;
        labels <- build_names (N.to_nat nan) 0 (chan_name s newA) ;;
        upd_param nm_ANALOG nm_LABELS (fun p => set_strs p labels []) ;;;
        upd_param nm_ANALOG nm_DESCRIPTIONS (fun p => set_strs p (repeat [] (N.to_nat nan)) []) ;;;
        g2 <- get_group nm_ANALOG ;;
        _ <- lift (param_idx g2 nm_SCALE) ;;
        psc <- lift (param_named g2 nm_SCALE) ;;
        sc <- lift (values_as_float psc) ;;
        upd_param nm_ANALOG nm_SCALE (fun p => set_floats p (extend sc nan f32_one) []) ;;;
        g3 <- get_group nm_ANALOG ;;
        pof <- lift (param_named g3 nm_OFFSET) ;;
        ofs <- lift (values_as_int pof) ;;
        upd_param nm_ANALOG nm_OFFSET (fun p => set_ints p (extend ofs nan 0%Z) []) ;;;
        g4 <- get_group nm_ANALOG ;;
        pun <- lift (param_named g4 nm_UNITS) ;;
        un <- lift (values_as_string pun) ;;
        upd_param nm_ANALOG nm_UNITS (fun p => set_strs p (extend un nan str_V) [])))%M.

Lemma h_unassoc : forall A B C (m : Mst A) (k : A -> Mst B) (h : B -> Mst C) P Q,
  hoare P (bind (bind m k) h) Q -> hoare P (bind m (fun a => bind (k a) h)) Q.
Proof.
  intros A B C m k h P Q H s Hs. specialize (H s Hs). unfold bind in *. destruct (m s) as [a s1|e s1|t]; exact H.
Qed.

Ltac apart_tac := unfold apart; repeat (apply Forall_cons || apply Forall_nil); cbn [fst snd]; first [left; discriminate | right; discriminate].

(* block 1: POINT:FRAMES becomes the number of stored frames *)
Lemma block_frames : forall s L, MT (groups s) -> frames s = fs -> nlen fs < 2147483648 -> apart nm_POINT nm_FRAMES L ->
  hoare (KF L) (frames_block s) (fun _ => KF ((nm_POINT, nm_FRAMES, Vint (nlen fs)) :: L)).
Proof.
  intros s L M Fs Sm Ap. unfold frames_block. rewrite Fs.
  eapply h_bind.
  - apply (h_int0 20 nm_POINT nm_FRAMES (KF L) (fun v s1 => KF L s1 /\ r_int0 0 (groups s1) nm_POINT nm_FRAMES = Ok v)); [in_mand|apply KF_MT|auto].
  - intros fz. apply h_when.
    + intros _. eapply h_bind.
      * apply (h_lift_P _ _ _ (fun _ s1 => KF L s1)). intros s1 [HK _].
        destruct (MT_lookup _ nm_POINT nm_FRAMES KInt1 M) as [p [Lp _]]; [in_mand|].
        destruct (lookup_inv _ _ _ _ Lp) as [gi [gr [pi [_ [_ [G [Pi _]]]]]]]. rewrite G. cbn [obind]. rewrite Pi.
        split; [discriminate|]. intros a _. exact HK.
      * intros u0. apply (h_upd_add L nm_POINT nm_FRAMES KInt1); [in_mand|exact Ap|].
        intros p Kp. apply (set_usize1_ok KInt1 p (nlen fs) Kp Sm).
    + intros E s1 [HK R]. apply Bool.negb_false_iff in E. apply N.eqb_eq in E.
      destruct HK as [A [B [C D]]]. repeat split; try assumption. constructor; [|exact D].
      unfold holds. cbn [fst snd]. apply (r_int0_Vint 0 _ _ _ fz); [exact R|symmetry; exact E].
Qed.

Lemma h_pre_pure : forall A (phi : Prop) (P : state -> Prop) (m : Mst A) Q,
  (phi -> hoare P m Q) -> hoare (fun s => P s /\ phi) m Q.
Proof. intros A phi P m Q H s [Hs Hp]. exact (H Hp s Hs). Qed.

Lemma st_strs_of : forall G N L, In (G, N, KStrs) MAND -> stable (KF L) (strs_of G N).
Proof. intros G N L I. eapply h_conseq; [apply (h_strs_of G N L I)|auto|intros a s H; apply H]. Qed.

Lemma nlen_repeat : forall A (x : A) n, nlen (repeat x (N.to_nat n)) = n.
Proof. intros A x n. unfold nlen. rewrite repeat_length. apply N2Nat.id. Qed.

Lemma set_strs_kind : forall k p data, (k = KStrs \/ k = KAny) -> kind_ok k p = true -> nlen data < LIM ->
  exists p', set_strs p data [] = Ok p' /\ p_name p' = p_name p /\ kind_ok k p' = true.
Proof.
  intros k p data Hk K H. destruct (set_strs_ok k p data K H) as [p' [E [Nm [Ty [_ Sz]]]]].
  exists p'. split; [exact E|]. split; [exact Nm|]. unfold kind_ok, type_ok. rewrite Ty, Sz. destruct Hk; subst k; reflexivity.
Qed.

Lemma point_name_stable : forall s nP npts L j, frames s = fs ->
  (forall f0 t, fs = f0 :: t -> npts = nlen (fr_pts f0)) -> j < npts -> stable (KF L) (point_name s nP j).
Proof.
  intros s nP npts L j Fs Hn Hj. unfold point_name. rewrite Fs. destruct fs as [|f0 t].
  - apply (st_bind (KF L)); [apply st_strs_of; in_mand|]. intros l.
    apply (st_if (KF L)); apply (st_lift (KF L)); apply idx_nothrow.
  - rewrite (Hn f0 t eq_refl) in Hj. destruct (at_in _ (fr_pts f0) j Hj) as [x E]. rewrite E.
    apply (st_bind (KF L)); [apply (st_lift (KF L)); discriminate|]. intros pt. apply (st_ret (KF L)).
Qed.

(* block 2: POINT:USED becomes the number of points (of frame 0, or of the declared names) *)
Lemma block_points : forall s nP npts L, frames s = fs -> npts < 2147483648 ->
  (forall f0 t, fs = f0 :: t -> npts = nlen (fr_pts f0)) ->
  apart nm_POINT nm_USED L -> apart nm_POINT nm_LABELS L -> apart nm_POINT nm_DESCRIPTIONS L -> apart nm_POINT nm_UNITS L ->
  hoare (KF L) (points_block s nP npts) (fun _ => KF ((nm_POINT, nm_USED, Vint npts) :: L)).
Proof.
  intros s nP npts L Fs Sm Hn A1 A2 A3 A4. unfold points_block.
  set (L' := (nm_POINT, nm_USED, Vint npts) :: L).
  assert (B2 : apart nm_POINT nm_LABELS L') by (constructor; [cbn [fst snd]; right; discriminate|exact A2]).
  assert (B3 : apart nm_POINT nm_DESCRIPTIONS L') by (constructor; [cbn [fst snd]; right; discriminate|exact A3]).
  assert (B4 : apart nm_POINT nm_UNITS L') by (constructor; [cbn [fst snd]; right; discriminate|exact A4]).
  eapply h_bind.
  - apply (h_int0 21 nm_POINT nm_USED (KF L) (fun v s1 => KF L s1 /\ r_int0 0 (groups s1) nm_POINT nm_USED = Ok v)); [in_mand|apply KF_MT|auto].
  - intros u. apply h_when.
    + intros _.
      eapply h_bind; [eapply h_conseq; [apply (h_upd_add L nm_POINT nm_USED KInt1 _ (Vint npts)); [in_mand|exact A1|]|intros s1 H; apply H|intros a s1 H; exact H]|].
      { intros p Kp. apply (set_usize1_ok KInt1 p npts Kp Sm). }
      intros u0. fold L'.
      eapply h_bind; [apply (h_group_link nm_POINT nm_USED KInt1 L'); in_mand|]. intros g.
      eapply h_bind; [apply (h_param_idx_link nm_POINT nm_LABELS KStrs L' g); in_mand|]. intros i1.
      eapply h_bind; [apply (h_param_idx_link nm_POINT nm_DESCRIPTIONS KAny L' g); in_mand|]. intros i2.
      eapply h_bind; [apply (h_param_idx_link nm_POINT nm_UNITS KAny L' g); in_mand|]. intros i3.
      eapply h_bind.
      { eapply h_conseq; [apply (h_build_names (KF L') (point_name s nP) (N.to_nat npts) 0)|intros s1 H; apply H|intros a s1 H; exact H].
        intros j Hj. apply (point_name_stable s nP npts L' j Fs Hn). lia. }
      intros labels. apply h_pre_pure. intros Hl.
      assert (Sl : nlen labels < LIM) by (unfold nlen, LIM; rewrite Hl, N2Nat.id; lia).
      assert (Sr : npts < LIM) by (unfold LIM; lia).
      apply (st_bind (KF L')); [apply st_upd with (k := KStrs); [in_mand|exact B2|]|].
      { intros p Kp. apply set_strs_kind; auto. }
      intros u1. apply (st_bind (KF L')); [apply st_upd with (k := KAny); [in_mand|exact B3|]|].
      { intros p Kp. apply set_strs_kind; auto. rewrite nlen_repeat. exact Sr. }
      intros u2. apply st_upd with (k := KAny); [in_mand|exact B4|].
      intros p Kp. apply set_strs_kind; auto. rewrite nlen_repeat. exact Sr.
    + intros E s1 [HK R]. apply Bool.negb_false_iff in E. apply N.eqb_eq in E.
      destruct HK as [A [B [C D]]]. repeat split; try assumption. constructor; [|exact D].
      unfold holds. cbn [fst snd]. apply (r_int0_Vint 0 _ _ _ u); [exact R|symmetry; exact E].
Qed.

Lemma nlen_extend : forall A (l : list A) n x, nlen l < LIM -> n < LIM -> nlen (extend l n x) < LIM.
Proof.
  intros A l n x Hl Hn. unfold extend, nlen in *. rewrite app_length, repeat_length, Nat2N.inj_add, N2Nat.id. lia.
Qed.

Definition nan_of (f0 : frame) : N := match fr_subs f0 with sf0 :: _ => nlen sf0 | [] => 0 end.

Lemma h_bind_ok : forall A B (a : A) (k : A -> Mst B) P Q, hoare P (k a) Q -> hoare P (bind (lift (Ok a)) k) Q.
Proof. intros A B a k P Q H s Hs. exact (H s Hs). Qed.

Lemma chan_name_stable : forall s nA nan L j, frames s = fs ->
  (forall f0 t, fs = f0 :: t -> nan = nan_of f0) -> j < nan -> stable (KF L) (chan_name s nA j).
Proof.
  intros s nA nan L j Fs Hn Hj. unfold chan_name. rewrite Fs. destruct fs as [|f0 t].
  - apply (st_bind (KF L)); [apply st_strs_of; in_mand|]. intros l.
    apply (st_if (KF L)); apply (st_lift (KF L)); apply idx_nothrow.
  - rewrite (Hn f0 t eq_refl) in Hj. unfold nan_of in Hj. destruct (fr_subs f0) as [|sf0 r]; [lia|].
    rewrite at0_cons. apply h_bind_ok. destruct (at_in _ sf0 j Hj) as [c E]. rewrite E. apply h_bind_ok. apply (st_ret (KF L)).
Qed.

(* block 3: ANALOG:USED becomes the number of channels *)
Lemma block_analogs : forall s nA nan L, frames s = fs -> nan < 2147483648 ->
  (forall f0 t, fs = f0 :: t -> nan = nan_of f0) ->
  apart nm_ANALOG nm_USED L -> apart nm_ANALOG nm_LABELS L -> apart nm_ANALOG nm_DESCRIPTIONS L ->
  apart nm_ANALOG nm_SCALE L -> apart nm_ANALOG nm_OFFSET L -> apart nm_ANALOG nm_UNITS L ->
  hoare (KF L) (analogs_block s nA nan) (fun _ => KF ((nm_ANALOG, nm_USED, Vint nan) :: L)).
Proof.
  intros s nA nan L Fs Sm Hn A1 A2 A3 A4 A5 A6. unfold analogs_block.
  set (L' := (nm_ANALOG, nm_USED, Vint nan) :: L).
  assert (B2 : apart nm_ANALOG nm_LABELS L') by (constructor; [cbn [fst snd]; right; discriminate|exact A2]).
  assert (B3 : apart nm_ANALOG nm_DESCRIPTIONS L') by (constructor; [cbn [fst snd]; right; discriminate|exact A3]).
  assert (B4 : apart nm_ANALOG nm_SCALE L') by (constructor; [cbn [fst snd]; right; discriminate|exact A4]).
  assert (B5 : apart nm_ANALOG nm_OFFSET L') by (constructor; [cbn [fst snd]; right; discriminate|exact A5]).
  assert (B6 : apart nm_ANALOG nm_UNITS L') by (constructor; [cbn [fst snd]; right; discriminate|exact A6]).
  assert (Sr : nan < LIM) by (unfold LIM; lia).
  eapply h_bind.
  - apply (h_int0 24 nm_ANALOG nm_USED (KF L) (fun v s1 => KF L s1 /\ r_int0 0 (groups s1) nm_ANALOG nm_USED = Ok v)); [in_mand|apply KF_MT|auto].
  - intros au. apply h_when.
    + intros _.
      eapply h_bind; [eapply h_conseq; [apply (h_upd_add L nm_ANALOG nm_USED KInt1 _ (Vint nan)); [in_mand|exact A1|]|intros s1 H; apply H|intros a s1 H; exact H]|].
      { intros p Kp. apply (set_usize1_ok KInt1 p nan Kp Sm). }
      intros u0. fold L'.
      eapply h_bind; [apply (h_group_link nm_ANALOG nm_USED KInt1 L'); in_mand|]. intros g.
      eapply h_bind; [apply (h_param_idx_link nm_ANALOG nm_LABELS KStrs L' g); in_mand|]. intros i1.
      eapply h_bind; [apply (h_param_idx_link nm_ANALOG nm_DESCRIPTIONS KAny L' g); in_mand|]. intros i2.
      eapply h_bind.
      { eapply h_conseq; [apply (h_build_names (KF L') (chan_name s nA) (N.to_nat nan) 0)|intros s1 H; apply H|intros a s1 H; exact H].
        intros j Hj. apply (chan_name_stable s nA nan L' j Fs Hn). lia. }
      intros labels. apply h_pre_pure. intros Hl.
      assert (Sl : nlen labels < LIM) by (unfold nlen, LIM; rewrite Hl, N2Nat.id; lia).
      apply (st_bind (KF L')); [apply st_upd with (k := KStrs); [in_mand|exact B2|]|].
      { intros p Kp. apply set_strs_kind; auto. }
      intros u1. apply (st_bind (KF L')); [apply st_upd with (k := KAny); [in_mand|exact B3|]|].
      { intros p Kp. apply set_strs_kind; auto. rewrite nlen_repeat. exact Sr. }
      intros u2.
      (* SCALE *)
      eapply h_bind; [apply (h_group_link nm_ANALOG nm_USED KInt1 L'); in_mand|]. intros g2.
      eapply h_bind; [apply (h_param_idx_link nm_ANALOG nm_SCALE KFlts L' g2); in_mand|]. intros i3.
      eapply h_bind; [apply (h_param_named_link nm_ANALOG nm_SCALE KFlts L' g2); in_mand|]. intros psc.
      eapply h_bind.
      { apply (h_lift_P _ (values_as_float psc) _ (fun sc s1 => KF L' s1 /\ nlen sc < LIM)). intros s1 [HK Kp].
        pose proof (kind_size _ _ Kp) as [_ [Sz _]]. unfold kind_ok, type_ok in Kp. apply andb_prop in Kp. destruct Kp as [T _].
        unfold values_as_float. destruct (p_type psc); try discriminate. split; [discriminate|]. intros a Ea. injection Ea as <-. auto. }
      intros sc. apply h_pre_pure. intros Hsc.
      apply (st_bind (KF L')); [apply st_upd with (k := KFlts); [in_mand|exact B4|]|].
      { intros p Kp. destruct (set_floats_ok KFlts p (extend sc nan f32_one) Kp (nlen_extend _ _ _ _ Hsc Sr)) as [p' [E [Nm [Ty [_ Sz]]]]].
        exists p'. split; [exact E|]. split; [exact Nm|]. unfold kind_ok, type_ok. rewrite Ty, Sz. reflexivity. }
      intros u3.
      (* OFFSET *)
      eapply h_bind; [apply (h_group_link nm_ANALOG nm_USED KInt1 L'); in_mand|]. intros g3.
      eapply h_bind; [apply (h_param_named_link nm_ANALOG nm_OFFSET KInts L' g3); in_mand|]. intros pof.
      eapply h_bind.
      { apply (h_lift_P _ (values_as_int pof) _ (fun ofs s1 => KF L' s1 /\ nlen ofs < LIM)). intros s1 [HK Kp].
        pose proof (kind_size _ _ Kp) as [Sz _]. unfold kind_ok, type_ok in Kp. apply andb_prop in Kp. destruct Kp as [T _].
        unfold values_as_int. destruct (p_type pof); try discriminate. split; [discriminate|]. intros a Ea. injection Ea as <-. auto. }
      intros ofs. apply h_pre_pure. intros Hofs.
      apply (st_bind (KF L')); [apply st_upd with (k := KInts); [in_mand|exact B5|]|].
      { intros p Kp. destruct (set_ints_ok KInts p (extend ofs nan 0%Z) Kp (nlen_extend _ _ _ _ Hofs Sr)) as [p' [E [Nm [Ty [_ Sz]]]]].
        exists p'. split; [exact E|]. split; [exact Nm|]. unfold kind_ok, type_ok. rewrite Ty, Sz. reflexivity. }
      intros u4.
      (* UNITS *)
      eapply h_bind; [apply (h_group_link nm_ANALOG nm_USED KInt1 L'); in_mand|]. intros g4.
      eapply h_bind; [apply (h_param_named_link nm_ANALOG nm_UNITS KStrs L' g4); in_mand|]. intros pun.
      eapply h_bind.
      { apply (h_lift_P _ (values_as_string pun) _ (fun un s1 => KF L' s1 /\ nlen un < LIM)). intros s1 [HK Kp].
        pose proof (kind_size _ _ Kp) as [_ [_ Sz]]. unfold kind_ok, type_ok in Kp. apply andb_prop in Kp. destruct Kp as [T _].
        unfold values_as_string. destruct (p_type pun); try discriminate. split; [discriminate|]. intros a Ea. injection Ea as <-. auto. }
      intros un. apply h_pre_pure. intros Hun.
      apply st_upd with (k := KStrs); [in_mand|exact B6|].
      intros p Kp. apply set_strs_kind; auto. apply nlen_extend; assumption.
    + intros E s1 [HK R]. apply Bool.negb_false_iff in E. apply N.eqb_eq in E.
      destruct HK as [A [B [C D]]]. repeat split; try assumption. constructor; [|exact D].
      unfold holds. cbn [fst snd]. apply (r_int0_Vint 0 _ _ _ au); [exact R|symmetry; exact E].
Qed.

Lemma h_eq_subst : forall A (F : state -> Mst A) Q s0,
  hoare (fun s => s = s0) (F s0) Q -> forall a, hoare (fun s => a = s0 /\ s = s0) (F a) Q.
Proof. intros A F Q s0 H a s [-> ->]. apply H. reflexivity. Qed.

Lemma KF_incl : forall L L' s, KF L s -> incl L' L -> KF L' s.
Proof.
  intros L L' s [A [B [C D]]] I. repeat split; try assumption. rewrite Forall_forall in *. intros x Hx. apply D, I, Hx.
Qed.

Definition Vstr (l : list bstr) (p : param) : Prop := values_as_string p = Ok l.
Lemma Vstr_read : forall gs G N l, holds gs (G, N, Vstr l) -> r_strs gs G N = Ok l.
Proof. intros gs G N l [p [Lp Vp]]. cbn [fst snd] in *. unfold r_strs. rewrite Lp. exact Vp. Qed.
End UP.

Ltac apart_tac := unfold apart; repeat (apply Forall_cons || apply Forall_nil); cbn [fst snd]; first [left; discriminate | right; discriminate].

Definition npts0 (s0 : state) (nP : list bstr) : N :=
  match frames s0 with
  | f0 :: _ => nlen (fr_pts f0)
  | [] => match r_strs (groups s0) nm_POINT nm_LABELS with Ok l => wrap64 (nlen l + nlen nP) | _ => 0 end
  end.
Definition nan0 (s0 : state) (nA : list bstr) : N :=
  match frames s0 with
  | f0 :: _ => nan_of f0
  | [] => match r_strs (groups s0) nm_ANALOG nm_LABELS with Ok l => wrap64 (nlen l + nlen nA) | _ => 0 end
  end.

Definition after_up (s0 : state) (nP nA : list bstr) : list fact :=
  [ (nm_ANALOG, nm_USED, Vint (nan0 s0 nA)); (nm_POINT, nm_USED, Vint (npts0 s0 nP)); (nm_POINT, nm_FRAMES, Vint (nlen (frames s0))) ].

(* updateParameters on an object whose mandatory parameters are well typed: no throw; afterwards the three counts are those
   of the stored data, the parameters are still well typed, frames and prologue are untouched *)
Theorem update_parameters_total : forall nP nA s0,
  MT (groups s0) -> (frames s0 = [] \/ (nP = [] /\ nA = [])) ->
  nlen (frames s0) < 2147483648 -> npts0 s0 nP < 2147483648 -> nan0 s0 nA < 2147483648 ->
  hoare (fun s => s = s0) (update_parameters f_key f_tosize f_div nP nA)
        (fun _ => KF (frames s0) (pro s0) (after_up s0 nP nA)).
Proof.
  intros nP nA s0 M Hg S1 S2 S3. unfold after_up.
  destruct (MT_lookup _ nm_POINT nm_LABELS KStrs M) as [pP [LP KP]]; [in_mand|].
  destruct (MT_lookup _ nm_ANALOG nm_LABELS KStrs M) as [pA [LA KA]]; [in_mand|].
  assert (VP : exists lP, values_as_string pP = Ok lP).
  { unfold kind_ok, type_ok in KP. apply andb_prop in KP. destruct KP as [T _]. unfold values_as_string. destruct (p_type pP); try discriminate. eauto. }
  assert (VA : exists lA, values_as_string pA = Ok lA).
  { unfold kind_ok, type_ok in KA. apply andb_prop in KA. destruct KA as [T _]. unfold values_as_string. destruct (p_type pA); try discriminate. eauto. }
  destruct VP as [lP VP]. destruct VA as [lA VA].
  assert (RP : r_strs (groups s0) nm_POINT nm_LABELS = Ok lP) by (unfold r_strs; rewrite LP; exact VP).
  assert (RA : r_strs (groups s0) nm_ANALOG nm_LABELS = Ok lA) by (unfold r_strs; rewrite LA; exact VA).
  remember (frames s0) as fs eqn:Efs0. assert (Fs0 : frames s0 = fs) by (symmetry; exact Efs0). clear Efs0. set (pr := pro s0).
  set (PL := (nm_POINT, nm_LABELS, Vstr lP)). set (AL := (nm_ANALOG, nm_LABELS, Vstr lA)).
  set (FR := (nm_POINT, nm_FRAMES, Vint (nlen fs))). set (PU := (nm_POINT, nm_USED, Vint (npts0 s0 nP))). set (AU := (nm_ANALOG, nm_USED, Vint (nan0 s0 nA))).
  assert (K0 : KF fs pr [PL; AL] s0).
  { repeat split; try assumption; try reflexivity. constructor; [exists pP; auto|]. constructor; [exists pA; auto|constructor]. }
  unfold update_parameters.
  eapply h_bind; [apply (h_getS _ (fun a s => a = s0 /\ s = s0)); intros s E; auto|]. apply h_eq_subst. cbv beta.
  assert (G1 : negb (nlen (frames s0) =? 0) && negb (nlen nP =? 0) = false).
  { destruct Hg as [E|[E _]]; [rewrite Fs0, E; reflexivity|rewrite E; apply Bool.andb_false_r]. }
  assert (G2 : negb (nlen (frames s0) =? 0) && negb (nlen nA =? 0) = false).
  { destruct Hg as [E|[_ E]]; [rewrite Fs0, E; reflexivity|rewrite E; apply Bool.andb_false_r]. }
  rewrite G1, G2.
  eapply h_bind; [apply (h_ret _ tt _ (fun _ s => KF fs pr [PL; AL] s)); intros s E; subst s; exact K0|]. intros u1.
  eapply h_bind; [apply (st_ret (KF fs pr [PL; AL]))|]. intros u2.
  eapply h_bind.
  { apply (st_lift (KF fs pr [PL; AL])). destruct (lookup_inv _ _ _ _ LP) as [gi [gr [pi [Gi _]]]]. rewrite Gi. discriminate. }
  intros gi.
  (* block 1 *)
  apply h_unassoc. eapply h_bind; [apply (block_frames fs pr s0 [PL; AL] M Fs0 S1); apart_tac|]. intros u3.
  (* npts *)
  eapply h_bind.
  { unfold npts_read. rewrite Fs0. instantiate (1 := fun npts s => KF fs pr [FR; AL] s /\ npts = npts0 s0 nP). unfold npts0. rewrite Fs0. destruct fs as [|f0 t].
    - eapply h_bind; [apply (h_strs_of [] pr nm_POINT nm_LABELS); in_mand|]. intros l.
      apply h_ret. intros s [HK [R _]]. split; [eapply KF_incl; [exact HK|intros x [<-|[<-|[]]]; cbn; auto]|].
      destruct HK as [_ [_ [_ D]]]. apply Forall_cons_iff in D. destruct D as [_ D]. apply Forall_cons_iff in D. destruct D as [D _].
      rewrite (Vstr_read _ _ _ _ D) in R. injection R as <-. rewrite RP. reflexivity.
    - apply h_ret. intros s HK. split; [eapply KF_incl; [exact HK|intros x [<-|[<-|[]]]; cbn; auto]|reflexivity]. }
  intros npts. apply h_pre_pure. intros ->.
  (* block 2 *)
  apply h_unassoc. eapply h_bind.
  { apply (block_points fs pr s0 nP (npts0 s0 nP) [FR; AL] Fs0 S2); try apart_tac.
    intros f0 t E. unfold npts0. rewrite Fs0, E. reflexivity. }
  intros u4.
  eapply h_bind; [apply (h_getS _ (fun a s => a = s /\ KF fs pr [PU; FR; AL] s)); auto|]. intros s1.
  eapply h_bind.
  { apply (h_lift_P _ _ _ (fun _ s => KF fs pr [PU; FR; AL] s)). intros s [-> HK].
    destruct (MT_lookup _ nm_ANALOG nm_USED KInt1 (KF_MT _ _ _ _ HK)) as [p [Lp _]]; [in_mand|].
    destruct (lookup_inv _ _ _ _ Lp) as [gi2 [gr [pi [Gi _]]]]. rewrite Gi. split; [discriminate|]. intros a _. exact HK. }
  intros gi2.
  (* the ANALOG group of a well-typed object holds parameters: the "nothing analog anywhere" shortcut is not taken *)
  eapply h_bind; [apply (h_group_link fs pr nm_ANALOG nm_USED KInt1 [PU; FR; AL]); in_mand|]. intros ga0.
  eapply h_bind.
  { instantiate (1 := fun _ => KF fs pr [AU; PU; FR]). apply h_when.
    - intros _. eapply h_conseq with (P' := KF fs pr [PU; FR; AL]) (Q' := fun _ => KF fs pr [AU; PU; FR]); [|intros s [HK _]; exact HK|auto].
      (* nan *)
      eapply h_bind.
      { unfold nan_read. rewrite Fs0. instantiate (1 := fun nan s => KF fs pr [PU; FR] s /\ nan = nan0 s0 nA). unfold nan0. rewrite Fs0. destruct fs as [|f0 t].
        - eapply h_bind; [apply (h_strs_of [] pr nm_ANALOG nm_LABELS); in_mand|]. intros l.
          apply h_ret. intros s [HK [R _]]. split; [eapply KF_incl; [exact HK|intros x [<-|[<-|[]]]; cbn; auto]|].
          destruct HK as [_ [_ [_ D]]]. apply Forall_cons_iff in D. destruct D as [_ D]. apply Forall_cons_iff in D. destruct D as [_ D]. apply Forall_cons_iff in D. destruct D as [D _].
          rewrite (Vstr_read _ _ _ _ D) in R. injection R as <-. rewrite RA. reflexivity.
        - unfold nan_of. destruct (fr_subs f0) as [|sf0 r]; apply h_ret; intros s HK; (split; [eapply KF_incl; [exact HK|intros x [<-|[<-|[]]]; cbn; auto]|reflexivity]). }
      intros nan. apply h_pre_pure. intros ->.
      (* block 3 *)
      apply (block_analogs fs pr s0 nA (nan0 s0 nA) [PU; FR] Fs0 S3); try apart_tac.
      intros f0 t E. unfold nan0. rewrite Fs0, E. reflexivity.
    - intros E s [HK Hga0]. exfalso. apply Bool.negb_false_iff in E. unfold no_analog_anywhere in E.
      apply andb_prop in E. destruct E as [E _]. apply andb_prop in E. destruct E as [E _].
      destruct (param_of_group _ nm_ANALOG nm_USED KInt1 ga0 (KF_MT _ _ _ _ HK)) as [pi [p [Pi _]]]; [in_mand|exact Hga0|].
      unfold param_idx in Pi. destruct (g_params ga0); [cbn in Pi; discriminate|unfold nlen in E; cbn in E; discriminate]. }
  intros u5.
  apply (st_update_header (KF fs pr [AU; PU; FR])); [apply KF_MT|apply KF_hdr].
Qed.
End WithOps.

(* ---------- consequences for the public calls ---------- *)
Section Calls.
Variable f_key : f32 -> outcome Z.
Variable f_tosize : f32 -> outcome N.
Variable f_div : f32 -> f32 -> f32.
Variable f_is_zero : f32 -> bool.
Hypothesis f_key_nt : forall x e, f_key x <> Throw e.
Hypothesis f_tosize_nt : forall x e, f_tosize x <> Throw e.

(* sizes that fit the 32-bit int the setters narrow to *)
Definition small_frames (fs : list frame) : Prop :=
  nlen fs < 2147483648 /\
  match fs with f0 :: _ => nlen (fr_pts f0) < 2147483648 /\ nan_of f0 < 2147483648 | [] => True end.

Lemma small_counts : forall s fs, fs <> [] -> small_frames fs ->
  npts0 (set_frames s fs) [] < 2147483648 /\ nan0 (set_frames s fs) [] < 2147483648.
Proof.
  intros s fs Ne [_ H]. unfold npts0, nan0. cbn [frames set_frames]. destruct fs as [|f0 t]; [contradiction|]. exact H.
Qed.

(* the counts after a normal return, read the way the library reads them *)
Definition counts_follow (s' : state) : Prop :=
  (exists v, r_int0 0 (groups s') nm_POINT nm_FRAMES = Ok v /\ z_to_usize v = nlen (frames s')) /\
  match frames s' with
  | f0 :: _ => (exists v, r_int0 0 (groups s') nm_POINT nm_USED = Ok v /\ z_to_usize v = nlen (fr_pts f0)) /\
               (exists v, r_int0 0 (groups s') nm_ANALOG nm_USED = Ok v /\ z_to_usize v = nan_of f0)
  | [] => True
  end.

Lemma after_up_counts : forall s0 s', frames s0 <> [] -> KF (frames s0) (pro s0) (after_up s0 [] []) s' -> counts_follow s'.
Proof.
  intros s0 s' Ne [_ [Fs [_ D]]]. unfold after_up in D.
  apply Forall_cons_iff in D. destruct D as [[pa [La Va]] D]. apply Forall_cons_iff in D. destruct D as [[pu [Lu Vu]] D].
  apply Forall_cons_iff in D. destruct D as [[pf [Lf Vf]] _]. cbn [fst snd] in *.
  unfold counts_follow. rewrite Fs. split; [apply (Vint_r_int0 0 _ _ _ _ pf Lf Vf)|].
  unfold npts0, nan0 in *. destruct (frames s0) as [|f0 t]; [contradiction|].
  split; [apply (Vint_r_int0 0 _ _ _ _ pu Lu Vu)|apply (Vint_r_int0 0 _ _ _ _ pa La Va)].
Qed.

Lemma put_nonempty : forall fs f idx fs', put empty_frame fs f idx = Ok fs' -> fs' <> [].
Proof.
  intros fs f idx fs' H E. subst fs'. unfold put in H. destruct idx as [i|].
  - destruct (i <? nlen fs) eqn:L.
    + injection H as H. apply (f_equal (@length _)) in H. rewrite replace_nth_length in H. apply N.ltb_lt in L. unfold nlen in L. cbn in H. lia.
    + destruct (i =? size_max); [injection H as H; apply (f_equal (@length _)) in H; rewrite app_length in H; cbn in H; lia|].
      destruct (2305843009213693951 <? i); [discriminate|].
      injection H as H. apply (f_equal (@length _)) in H. rewrite !app_length in H. cbn in H. lia.
  - injection H as H. apply (f_equal (@length _)) in H. rewrite app_length in H. cbn in H. lia.
Qed.

(* C10 for frame(): on an object whose mandatory parameters are well typed, a throw leaves the object as it was.
   (The only other way to throw was from the updaters after the store: they do not throw.) *)
Theorem api_frame_throw_unchanged : forall f idx s e s',
  MT (groups s) -> (forall fs', put empty_frame (frames s) f idx = Ok fs' -> small_frames fs') ->
  api_frame f_key f_tosize f_div f_is_zero f idx s = RThrow e s' -> s' = s.
Proof.
  intros f idx s e s' M Sm H. destruct (api_frame_throw_cases _ _ _ _ f idx s e s' H) as [E|[_ [fs' [P U]]]]; [exact E|].
  exfalso. pose proof (put_nonempty _ _ _ _ P) as Ne. specialize (Sm fs' P).
  destruct (small_counts s fs' Ne Sm) as [S2 S3].
  pose proof (update_parameters_total f_key f_tosize f_div f_key_nt f_tosize_nt [] [] (set_frames s fs') M (or_intror (conj eq_refl eq_refl)) (proj1 Sm) S2 S3 (set_frames s fs') eq_refl) as T.
  rewrite U in T. exact T.
Qed.

(* C05, parameter half, for frame(): after a normal return the three counts are those of the stored data and the
   mandatory parameters are still well typed *)
Theorem api_frame_counts : forall f idx s s',
  MT (groups s) -> (forall fs', put empty_frame (frames s) f idx = Ok fs' -> small_frames fs') ->
  api_frame f_key f_tosize f_div f_is_zero f idx s = ROk tt s' ->
  MT (groups s') /\ counts_follow s'.
Proof.
  intros f idx s s' M Sm H. rewrite api_frame_factor in H.
  destruct (frame_guard f_is_zero (groups s) (hdr s) f) as [[]|x|t]; try discriminate.
  unfold store_and_update in H. cbv [bind getS] in H.
  destruct (put empty_frame (frames s) f idx) as [fs'|x|t] eqn:P; cbn [lift] in H; try discriminate.
  cbv [putS] in H. pose proof (put_nonempty _ _ _ _ P) as Ne. specialize (Sm fs' eq_refl).
  destruct (small_counts s fs' Ne Sm) as [S2 S3].
  pose proof (update_parameters_total f_key f_tosize f_div f_key_nt f_tosize_nt [] [] (set_frames s fs') M (or_intror (conj eq_refl eq_refl)) (proj1 Sm) S2 S3 (set_frames s fs') eq_refl) as T.
  rewrite H in T. split; [apply T|]. apply (after_up_counts (set_frames s fs') s'); [exact Ne|exact T].
Qed.

(* parameter(): guards, then the tree edit (pure), then updateHeader *)
Lemma api_parameter_factor : forall gname p s, p_name p <> [] -> p_type p <> TNone ->
  api_parameter f_key f_tosize f_div gname p s =
  update_header f_key f_tosize f_div true (set_groups s (tree_after (groups s) gname p)).
Proof.
  intros gname p s Nn Ht. unfold api_parameter.
  assert (En : bstr_eqb (p_name p) [] = false).
  { destruct (bstr_eqb (p_name p) []) eqn:E; [apply bstr_eqb_eq in E; contradiction|reflexivity]. }
  rewrite En. unfold bind at 1. unfold ret at 1. unfold bind at 1.
  replace ((match p_type p with TNone => throw RuntimeError | _ => ret tt end) s) with (@ROk state unit tt s)
    by (destruct (p_type p); try reflexivity; contradiction).
  unfold bind at 1. cbv [getS]. unfold bind at 1. unfold catch. unfold group_idx at 1. unfold tree_after.
  destruct (find_idx (fun g0 => bstr_eqb (g_name g0) gname) (groups s) 0) as [i|] eqn:F.
  - cbv [lift]. unfold bind at 1. cbv [getS]. unfold bind at 1.
    pose proof (find_idx_bound _ _ _ _ _ F) as B. rewrite N.add_0_l in B.
    destruct (at_in _ (groups s) i B) as [g Hg]. unfold group_at. rewrite Hg. cbv [lift]. unfold bind at 1.
    rewrite (group_set_param_is_upsert g p Ht). cbv [lift]. unfold bind at 1. cbv [putS].
    apply at_ok in Hg. destruct Hg as [_ Hg]. rewrite Hg. reflexivity.
  - cbv [lift]. unfold groups_add. cbn [new_group g_name]. rewrite (find_last_none _ _ _ _ F).
    cbv [bind lift putS]. unfold group_idx.
    rewrite (find_after_append group g_name (groups s) (new_group gname []) gname) by exact F.
    rewrite F. cbn [new_group g_name].
    assert (E : bstr_eqb gname gname = true) by (apply bstr_eqb_eq; reflexivity). rewrite E.
    cbv [getS]. cbn [set_groups groups]. unfold group_at.
    assert (A : at_ (groups s ++ [new_group gname []]) (nlen (groups s)) = Ok (new_group gname [])).
    { apply at_ok. unfold nlen. rewrite app_length. cbn [length]. split; [lia|]. rewrite Nat2N.id, nth_error_app2 by lia. rewrite Nat.sub_diag. reflexivity. }
    rewrite A. rewrite (group_set_param_is_upsert _ p Ht). unfold nlen. rewrite Nat2N.id, replace_last.
    cbn [new_group g_params g_set_params upsert find_idx app g_name g_desc g_lock set_groups hdr pro frames]. reflexivity.
Qed.

(* C10 for parameter(): a throw leaves the object as it was whenever the tree the call produces still has well-typed
   mandatory parameters (i.e. the call does not retype one of them: the known finding is exactly the other case) *)
Theorem api_parameter_throw_unchanged : forall gname p s e s',
  (p_name p <> [] -> p_type p <> TNone -> MT (tree_after (groups s) gname p)) ->
  api_parameter f_key f_tosize f_div gname p s = RThrow e s' -> s' = s.
Proof.
  intros gname p s e s' M H.
  destruct (list_eq_dec N.eq_dec (p_name p) []) as [En|Nn].
  - rewrite (api_parameter_unnamed _ _ _ gname p s En) in H. injection H as _ <-. reflexivity.
  - assert (D : p_type p = TNone \/ p_type p <> TNone) by (destruct (p_type p); [right; discriminate..|left; reflexivity]).
    destruct D as [Ty|Ht].
    + rewrite (api_parameter_untyped _ _ _ gname p s Nn Ty) in H. injection H as _ <-. reflexivity.
    + exfalso. rewrite (api_parameter_factor gname p s Nn Ht) in H.
      set (s1 := set_groups s (tree_after (groups s) gname p)) in *.
      assert (M1 : MT (groups s1)) by (exact (M Nn Ht)).
      clearbody s1.
      pose proof (st_update_header f_key f_tosize f_div f_key_nt f_tosize_nt (fun x => MT (groups x)) (fun x Hx => Hx) (fun x h Hx => Hx) true s1 M1) as T.
      rewrite H in T. exact T.
Qed.

(* ---- point(frames) ---- *)
Lemma add_partial_total : forall idx news olds, (length olds <= length news)%nat ->
  (forall n, In n news -> idx < nlen (fr_pts n)) ->
  snd (add_point_col_partial idx news olds) = None /\ length (fst (add_point_col_partial idx news olds)) = length olds.
Proof.
  intros idx news olds. revert news. induction olds as [|o ot IH]; intros news L H; [destruct news; cbn; auto|].
  destruct news as [|n nt]; [cbn in L; lia|]. cbn [add_point_col_partial].
  destruct (at_in _ (fr_pts n) idx (H n (or_introl eq_refl))) as [p E]. rewrite E.
  destruct (IH nt) as [A B]; [cbn in L; lia|intros m Hm; apply H; right; exact Hm|].
  destruct (add_point_col_partial idx nt ot) as [rest e]. cbn [fst snd] in *. split; [exact A|]. cbn [length]. rewrite B. reflexivity.
Qed.

Lemma point_cols_total : forall k idx news s, (length (frames s) <= length news)%nat ->
  (forall n, In n news -> idx + N.of_nat k <= nlen (fr_pts n)) ->
  exists s', point_cols k idx news s = ROk tt s' /\ groups s' = groups s /\ hdr s' = hdr s /\ pro s' = pro s /\
             length (frames s') = length (frames s).
Proof.
  induction k as [|k IH]; intros idx news s L H; cbn [point_cols].
  - exists s. cbv [ret]. auto.
  - unfold bind at 1. cbv [getS].
    destruct (add_partial_total idx news (frames s) L) as [A B]; [intros n Hn; specialize (H n Hn); lia|].
    destruct (add_point_col_partial idx news (frames s)) as [fs e]. cbn [fst snd] in A, B. subst e.
    unfold bind at 1. cbv [putS]. unfold bind at 1. cbv [ret].
    destruct (IH (idx + 1) news (set_frames s fs)) as [s' [E [G [Hh [P Len]]]]].
    + cbn [frames set_frames]. rewrite B. exact L.
    + intros n Hn. specialize (H n Hn). lia.
    + exists s'. split; [exact E|]. cbn [groups hdr pro frames set_frames] in *. rewrite Len, B. auto.
Qed.

(* C10 for point(frames): any throw leaves the object as it was *)
Theorem api_point_col_throw_unchanged : forall news s e s',
  MT (groups s) ->
  (forall n n0, nth_error news 0 = Some n0 -> In n news -> nlen (fr_pts n0) <= nlen (fr_pts n)) ->
  (forall k s1, point_cols k 0 news s = ROk tt s1 -> small_frames (frames s1)) ->
  api_point_col f_key f_tosize f_div news s = RThrow e s' -> s' = s.
Proof.
  intros news s e s' M Hu Sm H.
  destruct (MT_lookup _ nm_POINT nm_LABELS KStrs M) as [pL [LL KL]]; [in_mand|].
  assert (RL : exists labels, r_strs (groups s) nm_POINT nm_LABELS = Ok labels).
  { unfold r_strs. rewrite LL. cbn [obind]. unfold kind_ok, type_ok in KL. apply andb_prop in KL. destruct KL as [T _].
    unfold values_as_string. destruct (p_type pL); try discriminate. eauto. }
  destruct RL as [labels RL].
  rewrite (api_point_col_doc _ _ _ news s labels RL Hu) in H.
  destruct (doc_pointcol (nlen (frames s)) labels news) as [x|] eqn:D; [injection H as _ <-; reflexivity|].
  exfalso. unfold doc_pointcol in D.
  destruct ((nlen news =? 0) || negb (nlen news =? nlen (frames s))) eqn:C; [discriminate|].
  apply Bool.orb_false_iff in C. destruct C as [C0 C1]. apply Bool.negb_false_iff in C1. apply N.eqb_eq in C1. apply N.eqb_neq in C0.
  destruct news as [|n0 nt]; [discriminate|].
  unfold cols_and_update in H.
  destruct (point_cols_total (length (fr_pts n0)) 0 (n0 :: nt) s) as [s1 [E [G [Hh [P Len]]]]].
  - unfold nlen in C1. lia.
  - intros n Hn. specialize (Hu n n0 eq_refl Hn). unfold nlen in *. lia.
  - unfold bind in H. rewrite E in H. specialize (Sm _ s1 E).
    assert (Ne : frames s1 <> []) by (intros Z; rewrite Z in Len; unfold nlen in *; cbn [length] in *; lia).
    assert (B : npts0 s1 [] < 2147483648 /\ nan0 s1 [] < 2147483648).
    { destruct Sm as [_ Sm]. unfold npts0, nan0. destruct (frames s1) as [|f0 t]; [contradiction|exact Sm]. }
    assert (M1 : MT (groups s1)) by (rewrite G; exact M).
    pose proof (update_parameters_total f_key f_tosize f_div f_key_nt f_tosize_nt [] [] s1 M1 (or_intror (conj eq_refl eq_refl)) (proj1 Sm) (proj1 B) (proj2 B) s1 eq_refl) as T.
    rewrite H in T. exact T.
Qed.

(* C10 for point(name) / analog(name) on an object without frames: the declaration goes through the updater alone *)
Theorem declare_without_frames_never_throws : forall nP nA s e s',
  MT (groups s) -> frames s = [] -> npts0 s nP < 2147483648 -> nan0 s nA < 2147483648 ->
  update_parameters f_key f_tosize f_div nP nA s <> RThrow e s'.
Proof.
  intros nP nA s e s' M F S2 S3 E.
  assert (S1 : nlen (frames s) < 2147483648) by (rewrite F; unfold nlen; cbn; lia).
  pose proof (update_parameters_total f_key f_tosize f_div f_key_nt f_tosize_nt nP nA s M (or_introl F) S1 S2 S3 s eq_refl) as T.
  rewrite E in T. exact T.
Qed.
End Calls.
