(* Properties_C04.v — C04: load -> save -> load preserves a file's content; further saves are byte-identical.
   FULL STATEMENT (visible): for every well-formed file b1 with load b1 = Ok s1, save s1 = Ok b2:
       load b2 = Ok s2 /\ named_content s2 = named_content s1,  and  save s2 = Ok b2  (hence all later
   generations are byte-identical).  Decided today by the C04 check on the C02 corpus and the vendor
   files.  Proved in Coq: the second half follows from the first by determinism of save; the first
   half's stages proved so far are those of C01/C02 (data section, scalars, layout). *)
From EZ Require Import Base Bytes Types Api Enc Dec Float32 Run Proofs_Codec.
Local Open Scope N_scope.

(* once a generation reloads to a state that saves to the same bytes, every later generation is byte-identical *)
Theorem C04_generations_fixpoint : forall (ld : list N -> outcome state) b s,
  ld b = Ok s -> save s = Ok b ->
  forall n, Nat.iter n (fun o => obind o (fun b' => obind (ld b') save)) (Ok b) = Ok b.
Proof.
  intros ld b s Hl Hs n. induction n as [|n IH]; [reflexivity|].
  simpl Nat.iter. rewrite IH. cbn [obind]. rewrite Hl. cbn [obind]. exact Hs.
Qed.
Print Assumptions C04_generations_fixpoint.

(* frames of generation 2 = frames of generation 1 (data-section stage), for any sizes *)
Theorem C04_partial_frames : forall fs np ns nc pn an st r,
  Forall (uniform np ns nc) fs -> st_fail st = false -> st_rest st = data_section fs ++ r ->
  rd_many (length fs) (frame_reader np ns nc pn an) st =
    Ok (map (rename_frame pn an) fs, adv st (length fs * (16 * np + 4 * nc * ns)) r).
Proof. exact data_section_roundtrip. Qed.
Print Assumptions C04_partial_frames.

(* non-vacuity: the executable instance reaches the fixpoint on the initial object's file *)
Example C04_nonvacuous : exists b1 s1 b2 s2, save_x init = Ok b1 /\ load_x b1 = Ok s1 /\ save_x s1 = Ok b2 /\
  load_x b2 = Ok s2 /\ save_x s2 = Ok b2.
Proof.
  do 4 eexists.
  split; [vm_compute; reflexivity|]. split; [vm_compute; reflexivity|]. split; [vm_compute; reflexivity|].
  split; [vm_compute; reflexivity|]. vm_compute. reflexivity.
Qed.
Print Assumptions C04_nonvacuous.
