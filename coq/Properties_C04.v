(* Properties_C04.v — C04: load -> save -> load preserves a file's content; further saves are byte-identical.
   FULL STATEMENT (visible): for every well-formed file b1 with load b1 = Ok s1, save s1 = Ok b2:
       load b2 = Ok s2 /\ named_content s2 = named_content s1,  and  save s2 = Ok b2  (hence all later
   generations are byte-identical).  PROVED for every well-formed object (the hypotheses of C01_load_save):
   the object reloaded from its own file saves to the SAME BYTES (C04_save_of_reloaded: names are written upper-cased
   anyway, the DATA_START value and the header data-start word are patched anyway, point and channel names are not
   written), hence load (save s) = s1 and save s1 = save s, and every later generation is byte-identical and reloads to
   s1 (C04_generations_fixpoint).  Outside those hypotheses (placeholder groups of sparse group ids, non-zero reserved
   header words) the property is decided by the C04 check on the spec-encoded corpus and the vendor files. *)
From EZ Require Import Base Bytes Types Api Enc Dec Float32 Run Proofs_Codec Proofs_Section Proofs_Record Proofs_Chain Proofs_ChainW Proofs_HeaderCodec Proofs_RoundTrip.
Local Open Scope N_scope.

(* once a generation reloads to a state that saves to the same bytes, every later generation is byte-identical *)
Theorem C04_generations_fixpoint : forall (ld : list N -> outcome state) b s,
  ld b = Ok s -> save s = Ok b ->
  forall n, Nat.iter n (fun o => obind o (fun b' => obind (ld b') save)) (Ok b) = Ok b.
Proof.
  intros ld b s Hl Hs n. induction n as [|n IH]; [reflexivity|].
  simpl Nat.iter. rewrite IH. cbn [obind]. rewrite Hl. cbn [obind]. exact Hs.
Qed.
Print Assumptions C04_generations_fixpoint.

(* the reloaded object saves to the same file *)
Theorem C04_save_of_reloaded : forall s blocks pn an,
  ps_start (pro s) = 1 ->
  (forall g, In g (groups s) -> forall p, In p (g_params g) -> ds_name_stable p) ->
  save (reloaded s blocks pn an) = save s.
Proof. exact save_reloaded. Qed.
Print Assumptions C04_save_of_reloaded.

(* generation 1 -> generation 2: same content, same bytes, for every well-formed object *)
Theorem C04_second_generation : forall f_key f_tosize f_div s bytes sec blocks pn an,
  save s = Ok bytes -> section_bytes (pro s) (groups s) = Ok (sec, blocks) ->
  wf_hdr (hdr s) -> wf_header (hdr s) ->
  ok_tree (groups s) -> (nds (recs_of (groups s) 1) <= 1)%nat ->
  (forall g, In g (groups s) -> is_placeholder g = false /\ group_ok g) ->
  blocks + 1 < 256 -> ps_start (pro s) = 1 ->
  Forall wf_item (items_v (groups s) 1 (blocks + 1)) ->
  (let s1 := mkState (with_dstart (hdr s) (blocks + 1)) (mkPro 1 80 (blocks - 1) 84) (map (canon_g (blocks + 1)) (groups s)) [] in
   update_header f_key f_tosize f_div false s1 = ROk tt s1) ->
  (let h := with_dstart (hdr s) (blocks + 1) in let gs := map (canon_g (blocks + 1)) (groups s) in
   h_nb_frames h = nlen (frames s) /\ nlen (frames s) <= max_frames_vec /\
   nlen (frames s) * (1 + 4 * h_points h + h_byframe h * (1 + h_nb_analogs h)) <= 1048576 /\
   (if 0 <? h_points h then obind (group_named gs nm_POINT) (fun g => obind (param_named g nm_LABELS) values_as_string) = Ok pn else pn = []) /\
   (if 0 <? h_nb_analogs h then obind (group_named gs nm_ANALOG) (fun g => obind (param_named g nm_LABELS) values_as_string) = Ok an else an = []) /\
   (frames s <> [] -> (h_scale h < 0)%Z) /\
   Forall (uniform (N.to_nat (h_points h)) (N.to_nat (h_byframe h)) (N.to_nat (h_nb_analogs h))) (frames s)) ->
  (forall g, In g (groups s) -> forall p, In p (g_params g) -> ds_name_stable p) ->
  exists s1, load f_key f_tosize f_div bytes = Ok s1 /\ save s1 = Ok bytes.
Proof.
  intros f_key f_tosize f_div s bytes sec blocks pn an Sv Hs Wh Wl Hok Hn Hg Hb Hst Wf Hu Hd Hds.
  exists (reloaded s blocks pn an). split.
  - exact (load_save f_key f_tosize f_div s bytes sec blocks pn an Sv Hs Wh Wl Hok Hn Hg Hb Hst Wf Hu Hd).
  - rewrite (save_reloaded s blocks pn an Hst Hds). exact Sv.
Qed.
Print Assumptions C04_second_generation.

(* frames of generation 2 = frames of generation 1 (data-section stage), for any sizes *)
Theorem C04_partial_frames : forall fs np ns nc pn an st r,
  Forall (uniform np ns nc) fs -> st_fail st = false -> st_rest st = data_section fs ++ r ->
  rd_many (length fs) (frame_reader np ns nc pn an) st =
    Ok (map (rename_frame pn an) fs, adv st (length fs * (16 * np + 4 * nc * ns)) r).
Proof. exact data_section_roundtrip. Qed.
Print Assumptions C04_partial_frames.

(* non-vacuity: the executable instance reaches the fixpoint on the initial object's file *)
Example C04_nonvacuous : exists b1 s1 b2 s2, save_x init = Ok b1 /\ load_x b1 = Ok s1 /\ save_x s1 = Ok b2 /\
  load_x b2 = Ok s2 /\ save_x s2 = Ok b2.
Proof.
  do 4 eexists.
  split; [vm_compute; reflexivity|]. split; [vm_compute; reflexivity|]. split; [vm_compute; reflexivity|].
  split; [vm_compute; reflexivity|]. vm_compute. reflexivity.
Qed.
Print Assumptions C04_nonvacuous.
