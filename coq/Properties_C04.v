(* Properties_C04.v — C04: load -> save -> load preserves a file's content; further saves are byte-identical.
   FULL STATEMENT (visible): for every well-formed file b1 with load b1 = Ok s1, save s1 = Ok b2:
       load b2 = Ok s2 /\ named_content s2 = named_content s1,  and  save s2 = Ok b2  (hence all later
   generations are byte-identical).  PROVED for every well-formed object (the hypotheses of C01_load_save):
   the object reloaded from its own file saves to the SAME BYTES (C04_save_of_reloaded: names are written upper-cased
   anyway, the DATA_START value and the header data-start word are patched anyway, point and channel names are not
   written), hence load (save s) = s1 and save s1 = save s, and every later generation is byte-identical and reloads to
   s1 (C04_generations_fixpoint); also for trees with placeholder groups, i.e. objects loaded from files with sparse group
   ids (C04_second_generation_sparse_ids).  Outside those hypotheses (non-zero reserved header words, content outside wf_param) the property is decided by the C04 check on the spec-encoded corpus and the vendor files. *)
From Coq Require Import Lia ZifyNat ZifyN ZifyBool.
From EZ Require Import Base Bytes Types Api Enc Dec Float32 Run Proofs_Bytes Proofs_Lookup Proofs_Param Proofs_Codec Proofs_Section Proofs_Record Proofs_Chain Proofs_ChainW Proofs_HeaderCodec Proofs_RoundTrip Proofs_Decide Run_Decide Proofs_PointsOnly.
Local Open Scope N_scope.

(* once a generation reloads to a state that saves to the same bytes, every later generation is byte-identical *)
Theorem C04_generations_fixpoint : forall (ld : list N -> outcome state) b s,
  ld b = Ok s -> save s = Ok b ->
  forall n, Nat.iter n (fun o => obind o (fun b' => obind (ld b') save)) (Ok b) = Ok b.
Proof.
  intros ld b s Hl Hs n. induction n as [|n IH]; [reflexivity|].
  simpl Nat.iter. rewrite IH. cbn [obind]. rewrite Hl. cbn [obind]. exact Hs.
Qed.
Print Assumptions C04_generations_fixpoint.

(* the reloaded object saves to the same file *)
Theorem C04_save_of_reloaded : forall s blocks pn an,
  ps_start (pro s) = 1 ->
  (forall g, In g (groups s) -> forall p, In p (g_params g) -> ds_name_stable p) ->
  save (reloaded s blocks pn an) = save s.
Proof. exact save_reloaded. Qed.
Print Assumptions C04_save_of_reloaded.

(* generation 1 -> generation 2: same content, same bytes, for every well-formed object *)
Theorem C04_second_generation : forall f_key f_tosize f_div s bytes sec blocks pn an,
  save s = Ok bytes -> section_bytes (pro s) (groups s) = Ok (sec, blocks) ->
  wf_hdr (hdr s) -> wf_header (hdr s) ->
  ok_tree (groups s) -> (nds (recs_of (groups s) 1) <= 1)%nat ->
  (forall g, In g (groups s) -> is_placeholder g = false /\ group_ok g) ->
  blocks + 1 < 256 -> ps_start (pro s) = 1 ->
  Forall wf_item (items_v (groups s) 1 (blocks + 1)) ->
  (let s1 := mkState (with_dstart (hdr s) (blocks + 1)) (mkPro 1 80 (blocks - 1) 84) (map (canon_g (blocks + 1)) (groups s)) [] in
   update_header f_key f_tosize f_div false s1 = ROk tt s1) ->
  (let h := with_dstart (hdr s) (blocks + 1) in let gs := map (canon_g (blocks + 1)) (groups s) in
   h_nb_frames h = nlen (frames s) /\ nlen (frames s) <= max_frames_vec /\
   nlen (frames s) * (1 + 4 * h_points h + h_byframe h * (1 + h_nb_analogs h)) <= 1048576 /\
   (if 0 <? h_points h then obind (group_named gs nm_POINT) (fun g => obind (param_named g nm_LABELS) values_as_string) = Ok pn else pn = []) /\
   (if 0 <? h_nb_analogs h then obind (group_named gs nm_ANALOG) (fun g => obind (param_named g nm_LABELS) values_as_string) = Ok an else an = []) /\
   (frames s <> [] -> (h_scale h < 0)%Z) /\
   Forall (uniform (N.to_nat (h_points h)) (N.to_nat (h_byframe h)) (N.to_nat (h_nb_analogs h))) (frames s)) ->
  (forall g, In g (groups s) -> forall p, In p (g_params g) -> ds_name_stable p) ->
  exists s1, load f_key f_tosize f_div bytes = Ok s1 /\ save s1 = Ok bytes.
Proof.
  intros f_key f_tosize f_div s bytes sec blocks pn an Sv Hs Wh Wl Hok Hn Hg Hb Hst Wf Hu Hd Hds.
  exists (reloaded s blocks pn an). split.
  - exact (load_save f_key f_tosize f_div s bytes sec blocks pn an Sv Hs Wh Wl Hok Hn Hg Hb Hst Wf Hu Hd).
  - rewrite (save_reloaded s blocks pn an Hst Hds). exact Sv.
Qed.
Print Assumptions C04_second_generation.

(* the same for a tree with PLACEHOLDER groups — an object loaded from a file whose group ids are sparse keeps nameless empty
   groups at the unused ids; they are not written, and the walker re-creates them when it meets a later group *)
Theorem C04_second_generation_sparse_ids : forall f_key f_tosize f_div s bytes sec blocks pn an,
  save s = Ok bytes -> section_bytes (pro s) (groups s) = Ok (sec, blocks) ->
  wf_hdr (hdr s) -> wf_header (hdr s) ->
  ok_tree (groups s) -> (nds (recs_of (groups s) 1) <= 1)%nat ->
  (forall g, In g (groups s) -> (is_placeholder g = true -> g = ph) /\ (is_placeholder g = false -> group_ok g)) ->
  (groups s <> [] -> is_placeholder (last (groups s) ph) = false) ->
  blocks + 1 < 256 -> ps_start (pro s) = 1 ->
  Forall wf_item (items_v (groups s) 1 (blocks + 1)) ->
  (let s1 := mkState (with_dstart (hdr s) (blocks + 1)) (mkPro 1 80 (blocks - 1) 84) (map (canon_g (blocks + 1)) (groups s)) [] in
   update_header f_key f_tosize f_div false s1 = ROk tt s1) ->
  (let h := with_dstart (hdr s) (blocks + 1) in let gs := map (canon_g (blocks + 1)) (groups s) in
   h_nb_frames h = nlen (frames s) /\ nlen (frames s) <= max_frames_vec /\
   nlen (frames s) * (1 + 4 * h_points h + h_byframe h * (1 + h_nb_analogs h)) <= 1048576 /\
   (if 0 <? h_points h then obind (group_named gs nm_POINT) (fun g => obind (param_named g nm_LABELS) values_as_string) = Ok pn else pn = []) /\
   (if 0 <? h_nb_analogs h then obind (group_named gs nm_ANALOG) (fun g => obind (param_named g nm_LABELS) values_as_string) = Ok an else an = []) /\
   (frames s <> [] -> (h_scale h < 0)%Z) /\
   Forall (uniform (N.to_nat (h_points h)) (N.to_nat (h_byframe h)) (N.to_nat (h_nb_analogs h))) (frames s)) ->
  (forall g, In g (groups s) -> forall p, In p (g_params g) -> ds_name_stable p) ->
  exists s1, load f_key f_tosize f_div bytes = Ok s1 /\ save s1 = Ok bytes.
Proof.
  intros f_key f_tosize f_div s bytes sec blocks pn an Sv Hs Wh Wl Hok Hn Hg Hl Hb Hst Wf Hu Hd Hds.
  exists (reloaded s blocks pn an). split.
  - exact (load_save_sparse f_key f_tosize f_div s bytes sec blocks pn an Sv Hs Wh Wl Hok Hn Hg Hl Hb Hst Wf Hu Hd).
  - rewrite (save_reloaded s blocks pn an Hst Hds). exact Sv.
Qed.
Print Assumptions C04_second_generation_sparse_ids.

(* non-vacuity: an object whose tree has two placeholder groups before its last group: generation 2 has the same bytes,
   and the placeholders are back after the reload (obtained from the theorems) *)
Ltac wfp := unfold wf_param, name_ok, desc_ok, dims_ok, typed_ok, str_ok, no_nul, int16, int8, wf32, byte_ok, LIMC; cbn;
  repeat split; try lia; try discriminate; repeat constructor; try lia; try discriminate.

Definition sparse_run : option state :=
  let rate := mkParam nm_RATE [] false TFloat [1] [] [1120403456] [] in
  let f := mkFrame [mkPoint [97] 1065353216 1073741824 1077936128 1082130432] [] in
  match step_x init (OPoint [97]) with ROk _ s1 =>
  match step_x s1 (OParam nm_POINT rate) with ROk _ s2 =>
  match step_x s2 (OFrame f None) with ROk _ s3 => Some s3 | _ => None end | _ => None end | _ => None end.
Definition sparse_state : state := Eval vm_compute in
  match sparse_run with
  | Some s => mkState (hdr s) (pro s) (groups s ++ [ph; ph; mkGroup [88;89] [100] true [mkParam [75] [] false TInt [2] [7; -7]%Z [] []]]) (frames s)
  | None => init end.

Lemma sparse_section : exists sec, section_bytes (pro sparse_state) (groups sparse_state) = Ok (sec, 2).
Proof. eexists. vm_compute. reflexivity. Qed.
Print Assumptions sparse_section.
Lemma sparse_hdr : wf_hdr (hdr sparse_state) /\ wf_header (hdr sparse_state).
Proof.
  unfold wf_hdr, wf_header, u16, int32, frame_no_ok, wf32, lab_ok, no_nul. cbn.
  repeat split; try lia; try reflexivity; repeat constructor; cbn; try lia.
Qed.
Print Assumptions sparse_hdr.
Lemma sparse_tree :
  ok_tree (groups sparse_state) /\ (nds (recs_of (groups sparse_state) 1) <= 1)%nat /\
  (forall g, In g (groups sparse_state) -> (is_placeholder g = true -> g = ph) /\ (is_placeholder g = false -> group_ok g)) /\
  (groups sparse_state <> [] -> is_placeholder (last (groups sparse_state) ph) = false) /\
  Forall wf_item (items_v (groups sparse_state) 1 3).
Proof.
  split.
  { intros g Hg Pl. cbn in Hg.
    repeat (destruct Hg as [<-|Hg]; [first [discriminate Pl | split; [unfold wf_group_hdr, name_ok, desc_ok, no_nul; cbn; repeat split; try lia; repeat constructor; discriminate|
       intros p Hp; cbn in Hp; repeat (destruct Hp as [<-|Hp]; [unfold ok_param; cbn; first [split; reflexivity | wfp]|]); destruct Hp]]|]).
    destruct Hg. }
  split; [vm_compute; lia|]. split.
  - intros g Hg. cbn in Hg.
    repeat (destruct Hg as [<-|Hg]; [split; [intros Pl; first [reflexivity|discriminate Pl]|intros Pl; first [discriminate Pl|split; [cbn; repeat constructor; cbn; intuition discriminate|intros p Hp; cbn in Hp; repeat (destruct Hp as [<-|Hp]; [discriminate|]); destruct Hp]]]|]).
    destruct Hg.
  - split; [intros _; reflexivity|].
    cbn [items_v sparse_state groups is_placeholder g_name g_params nlen length N.of_nat N.eqb andb map app item_of_param is_ds ph new_group].
    repeat (apply Forall_cons); try apply Forall_nil;
      (cbn; first [ split; [lia|unfold wf_group_hdr, name_ok, desc_ok, no_nul; cbn; repeat split; try lia; repeat constructor; discriminate]
                  | split; [lia|split; [wfp|cbn; lia]] ]).
Qed.
Print Assumptions sparse_tree.
Lemma sparse_update_noop :
  let s1 := mkState (with_dstart (hdr sparse_state) 3) (mkPro 1 80 1 84) (map (canon_g 3) (groups sparse_state)) [] in
  update_header_x false s1 = ROk tt s1.
Proof. vm_compute. reflexivity. Qed.
Print Assumptions sparse_update_noop.
Lemma sparse_data :
  let h := with_dstart (hdr sparse_state) 3 in let gs := map (canon_g 3) (groups sparse_state) in
  h_nb_frames h = nlen (frames sparse_state) /\ nlen (frames sparse_state) <= max_frames_vec /\
  nlen (frames sparse_state) * (1 + 4 * h_points h + h_byframe h * (1 + h_nb_analogs h)) <= 1048576 /\
  (if 0 <? h_points h then obind (group_named gs nm_POINT) (fun g => obind (param_named g nm_LABELS) values_as_string) = Ok [[97]] else [[97]] = []) /\
  (if 0 <? h_nb_analogs h then obind (group_named gs nm_ANALOG) (fun g => obind (param_named g nm_LABELS) values_as_string) = Ok [] else @nil bstr = []) /\
  (frames sparse_state <> [] -> (h_scale h < 0)%Z) /\
  Forall (uniform (N.to_nat (h_points h)) (N.to_nat (h_byframe h)) (N.to_nat (h_nb_analogs h))) (frames sparse_state).
Proof.
  cbv zeta. split; [vm_compute; reflexivity|]. split; [vm_compute; discriminate|]. split; [vm_compute; discriminate|].
  split; [vm_compute; reflexivity|]. split; [vm_compute; reflexivity|]. split; [intros _; vm_compute; reflexivity|].
  unfold uniform, wf_point, wf_chan, wf32. cbn. repeat constructor; cbn; lia.
Qed.
Print Assumptions sparse_data.
Example C04_sparse_ids_nonvacuous : exists bytes s1, save_x sparse_state = Ok bytes /\ load_x bytes = Ok s1 /\ save_x s1 = Ok bytes /\
  nlen (groups s1) = 6 /\ nth_error (groups s1) 3 = Some ph.
Proof.
  destruct sparse_section as [sec Hs]. destruct sparse_hdr as [Wh Wl]. destruct sparse_tree as (Hok & Hn & Hg & Hl & Wf).
  assert (Sv : exists bytes, save_x sparse_state = Ok bytes) by (unfold save_x, save; rewrite Hs; eexists; reflexivity).
  destruct Sv as [bytes Sv]. exists bytes, (reloaded sparse_state 2 [[97]] []). split; [exact Sv|]. split.
  - exact (load_save_sparse f_key_impl f_tosize_impl f_div_impl sparse_state bytes sec 2 [[97]] [] Sv Hs Wh Wl Hok Hn Hg Hl eq_refl eq_refl Wf sparse_update_noop sparse_data).
  - split; [|split; reflexivity]. unfold save_x. rewrite save_reloaded; [exact Sv|reflexivity|].
    apply ds_stable_of_b. vm_compute. reflexivity.
Qed.
Print Assumptions C04_sparse_ids_nonvacuous.

(* frames of generation 2 = frames of generation 1 (data-section stage), for any sizes *)
Theorem C04_partial_frames : forall fs np ns nc pn an st r,
  Forall (uniform np ns nc) fs -> st_fail st = false -> st_rest st = data_section fs ++ r ->
  rd_many (length fs) (frame_reader np ns nc pn an) st =
    Ok (map (rename_frame pn an) fs, adv st (length fs * (16 * np + 4 * nc * ns)) r).
Proof. exact data_section_roundtrip. Qed.
Print Assumptions C04_partial_frames.

(* non-vacuity: the executable instance reaches the fixpoint on the initial object's file *)
Example C04_nonvacuous : exists b1 s1 b2 s2, save_x init = Ok b1 /\ load_x b1 = Ok s1 /\ save_x s1 = Ok b2 /\
  load_x b2 = Ok s2 /\ save_x s2 = Ok b2.
Proof.
  do 4 eexists.
  split; [vm_compute; reflexivity|]. split; [vm_compute; reflexivity|]. split; [vm_compute; reflexivity|].
  split; [vm_compute; reflexivity|]. vm_compute. reflexivity.
Qed.
Print Assumptions C04_nonvacuous.

(* the hypotheses of C04_second_generation_sparse_ids as one computable predicate: where it answers true, the object saves
   to a file that loads to an object saving to the SAME bytes (evaluated by the check on every generation-1 object) *)
Theorem C04_decided : forall s, ls4_ok_x s = true ->
  exists bytes s1, save_x s = Ok bytes /\ load_x bytes = Ok s1 /\ save_x s1 = Ok bytes.
Proof. intros s H. exact (ls4_ok_second_generation f_key_impl f_tosize_impl f_div_impl s H). Qed.
Print Assumptions C04_decided.

Theorem C04_decided_points_only : forall s, ls4n_ok_x s = true ->
  exists bytes s1, save_x s = Ok bytes /\ load_x bytes = Ok s1 /\ save_x s1 = Ok bytes.
Proof. intros s H. exact (ls4n_ok_second_generation f_key_impl f_tosize_impl f_div_impl s H). Qed.
Print Assumptions C04_decided_points_only.
