(* Proofs_ApiSafe.v — C13 for the API: no public mutator of the model reaches an unchecked access out of range, an
   empty dimension vector or a signed-overflow site, from ANY state.  The only undefined-behaviour verdicts a call can
   return are the benign ones (out-of-range float conversion of a rate: C19's subject). *)
From Coq Require Import Lia ZifyNat ZifyN ZifyBool.
From EZ Require Import Base Types Api Proofs_Lookup Proofs_Monad Proofs_Param Proofs_Store Proofs_Guards Proofs_Tree Proofs_Robust.
Local Open Scope N_scope.

Lemma bind_ub : forall S A B (m : M S A) (k : A -> M S B) s t,
  bind m k s = RUB t -> m s = RUB t \/ exists a s1, m s = ROk a s1 /\ k a s1 = RUB t.
Proof. intros S A B m k s t H. unfold bind in H. destruct (m s) as [a s1|e s1|t1]; try discriminate; [right; eauto|left; injection H as ->; reflexivity]. Qed.

Lemma msafe_when : forall (b : bool) m, msafe m -> msafe (when b m).
Proof. intros b m H. unfold when. destruct b; [exact H|apply msafe_ret]. Qed.
Lemma msafe_if : forall A (b : bool) (m1 m2 : Mst A), msafe m1 -> msafe m2 -> msafe (if b then m1 else m2).
Proof. intros A b m1 m2 H1 H2. destruct b; assumption. Qed.
Lemma msafe_putS : forall s0, msafe (@putS state s0).
Proof. intros s0 s t H. discriminate. Qed.
Lemma msafe_catch : forall A (m : Mst A) h, msafe m -> (forall e, msafe (h e)) -> msafe (catch m h).
Proof.
  intros A m h Hm Hh s t H. unfold catch in H. destruct (m s) as [a s1|e s1|t1] eqn:E; try discriminate.
  - eapply Hh; eauto.
  - injection H as <-. eapply Hm; eauto.
Qed.
Lemma msafe_lift_ok : forall A (o : outcome A), (forall t, o <> UB t) -> msafe (@lift state A o).
Proof. intros A o H. apply msafe_lift. intros t E. exfalso. exact (H t E). Qed.

Lemma group_idx_no_ub : forall gs g t, group_idx gs g <> UB t.
Proof. intros gs g t. unfold group_idx. destruct (find_idx _ gs 0); discriminate. Qed.
Lemma param_idx_no_ub : forall g n t, param_idx g n <> UB t.
Proof. intros g n t. unfold param_idx. destruct (find_idx _ _ 0); discriminate. Qed.
Lemma set_ints_no_ub : forall p d dims t, set_ints p d dims <> UB t.
Proof. intros. unfold set_ints. destruct (dim_consistent _ _); discriminate. Qed.
Lemma set_floats_no_ub : forall p d dims t, set_floats p d dims <> UB t.
Proof. intros. unfold set_floats. destruct (dim_consistent _ _); discriminate. Qed.
Lemma set_strs_no_ub : forall p d dims t, set_strs p d dims <> UB t.
Proof. intros. unfold set_strs. destruct (dim_consistent _ _); discriminate. Qed.
Lemma values_no_ub : forall p t, values_as_int p <> UB t /\ values_as_float p <> UB t /\ values_as_string p <> UB t.
Proof. intros p t. unfold values_as_int, values_as_float, values_as_string. destruct (p_type p); repeat split; discriminate. Qed.

Lemma msafe_upd_param : forall g n f, (forall p t, f p <> UB t) -> msafe (upd_param g n f).
Proof.
  intros g n f Hf. unfold upd_param.
  repeat first [ apply msafe_bind; [|intros ?] | apply msafe_getS | apply msafe_putS
               | apply msafe_lift_ok; first [apply group_idx_no_ub | apply at_no_ub | apply param_idx_no_ub | intros t; apply Hf] ].
Qed.

Lemma msafe_strs_of : forall g n, msafe (strs_of g n).
Proof.
  intros g n. unfold strs_of. apply msafe_bind; [apply msafe_get_param|]. intros p. apply msafe_lift_ok. intros t. apply values_no_ub.
Qed.

(* the last group of a name, when there is one, is a valid position *)
Lemma find_last_idx_bound : forall A (p : A -> bool) l k acc i,
  find_last_idx p l k acc = Some i -> (match acc with Some a => a < k | None => True end) -> i < k + nlen l.
Proof.
  intros A p l. induction l as [|x t IH]; intros k acc i H Ha; cbn [find_last_idx] in H.
  - subst acc. unfold nlen. cbn. lia.
  - apply IH in H; [unfold nlen in *; cbn [length]; lia|]. destruct (p x); [lia|destruct acc; [lia|exact I]].
Qed.
Lemma groups_add_no_memory_error : forall gs g t, groups_add gs g = UB t -> benign t.
Proof.
  intros gs g t H. unfold groups_add in H.
  destruct (find_last_idx _ gs 0 None) as [i|] eqn:F; [|discriminate].
  apply find_last_idx_bound in F; [|exact I]. rewrite N.add_0_l in F.
  unfold idx_ in H. apply N.ltb_lt in F. rewrite F in H.
  destruct (nth_error gs (N.to_nat i)) as [old|] eqn:E; [|apply nth_error_None in E; apply N.ltb_lt in F; unfold nlen in F; lia].
  cbn [obind] in H. exfalso. clear E F. revert H. generalize (g_params g). intros ps. revert old.
  induction ps as [|q qs IH]; intros old H; cbn [fold_set_params obind] in H; [discriminate|].
  unfold group_set_param in H at 1.
  destruct (p_type q); cbn [obind] in H; try discriminate;
    (destruct (find_idx _ (g_params old) 0); cbn [obind] in H; eapply IH; exact H).
Qed.

(* ---------- the name-building loops of updateParameters ---------- *)
Definition names_from (G : bstr) (a b : nat) (news : list bstr) (i : N) : Mst bstr :=
  bind (strs_of G nm_LABELS) (fun l => if i <? nlen l then lift (idx_ a l i) else lift (idx_ b news (i - nlen l))).

Lemma names_loop_safe : forall G a b news n i0 s l0,
  r_strs (groups s) G nm_LABELS = Ok l0 -> i0 + N.of_nat n <= nlen l0 + nlen news ->
  exists names, build_names n i0 (names_from G a b news) s = ROk names s.
Proof.
  intros G a b news n. induction n as [|n IH]; intros i0 s l0 Hl Hb; cbn [build_names].
  - eexists. reflexivity.
  - unfold bind at 1. unfold names_from at 1. unfold bind at 1. rewrite strs_of_pure, Hl. cbn [lift].
    assert (E : exists x, (if i0 <? nlen l0 then lift (idx_ a l0 i0) else lift (idx_ b news (i0 - nlen l0))) s = ROk x s).
    { destruct (i0 <? nlen l0) eqn:L.
      - apply N.ltb_lt in L. destruct (nlen_lt_nth _ l0 i0 L) as [x Ex]. exists x. unfold idx_. apply N.ltb_lt in L. rewrite L, Ex. reflexivity.
      - apply N.ltb_ge in L. assert (L2 : i0 - nlen l0 < nlen news) by lia.
        destruct (nlen_lt_nth _ news _ L2) as [x Ex]. exists x. unfold idx_. apply N.ltb_lt in L2. rewrite L2, Ex. reflexivity. }
    destruct E as [x Ex]. rewrite Ex.
    destruct (IH (i0 + 1) s l0 Hl) as [t Et]; [lia|]. unfold bind at 1. rewrite Et. eexists. reflexivity.
Qed.

Lemma frame_names_safe : forall A (name_of : A -> bstr) (l : list A) n i0 s,
  (forall t, build_names n i0 (fun i => bind (lift (at_ l i)) (fun x => ret (name_of x))) s <> RUB t).
Proof.
  intros A name_of l n. induction n as [|n IH]; intros i0 s t; cbn [build_names]; [discriminate|].
  unfold bind at 1. unfold bind at 1. unfold lift at 1. destruct (at_ l i0) as [x| |] eqn:E; [|discriminate|exfalso; eapply at_no_ub; eauto].
  cbv [ret]. unfold bind at 1.
  destruct (build_names n (i0 + 1) _ s) as [tl s'|e s'|t'] eqn:R; [discriminate|discriminate|]. intros H. eapply IH. exact R.
Qed.

(* an update of one parameter does not move the others, whatever the state *)
Lemma upd_param_other : forall g n f s s', upd_param g n f s = ROk tt s' ->
  (forall p p', f p = Ok p' -> p_name p' = p_name p) ->
  forall g2 n2, (g2 <> g \/ n2 <> n) -> lookup (groups s') g2 n2 = lookup (groups s) g2 n2.
Proof.
  intros g n f s s' H Hn g2 n2 Hne. rewrite upd_param_pure in H.
  destruct (t_upd (groups s) g n f) as [gs'| |] eqn:T; try discriminate. injection H as <-. cbn [groups set_groups].
  pose proof T as T0. unfold t_upd in T.
  destruct (group_idx (groups s) g) as [gi| |] eqn:Gi; cbn [obind] in T; try discriminate.
  destruct (group_at (groups s) gi) as [gr| |] eqn:Gr; cbn [obind] in T; try discriminate.
  destruct (param_idx gr n) as [pi| |] eqn:Pi; cbn [obind] in T; try discriminate.
  destruct (param_at gr pi) as [p| |] eqn:Pa; cbn [obind] in T; try discriminate.
  destruct (f p) as [p'| |] eqn:Fp; cbn [obind] in T; try discriminate.
  assert (L : lookup (groups s) g n = Ok p).
  { unfold lookup, group_named. rewrite Gi. cbn [obind]. rewrite Gr. cbn [obind]. unfold param_named. rewrite Pi. cbn [obind]. exact Pa. }
  destruct (t_upd_lookup (groups s) g n f p p' L Fp (Hn p p' Fp)) as [gs2 [E2 [_ [Fr _]]]].
  rewrite T0 in E2. injection E2 as <-. apply Fr. exact Hne.
Qed.

Lemma set_usize1_name : forall v p p', set_usize1 p v = Ok p' -> p_name p' = p_name p.
Proof. intros v p p' H. unfold set_usize1, set_int1, set_ints in H. destruct (dim_consistent _ _); [|discriminate]. injection H as <-. reflexivity. Qed.

Lemma r_strs_lookup : forall gs gs' g n, lookup gs' g n = lookup gs g n -> r_strs gs' g n = r_strs gs g n.
Proof. intros gs gs' g n H. unfold r_strs. rewrite H. reflexivity. Qed.

From EZ Require Import Proofs_Hoare Spec_Typed Proofs_Updaters.

Lemma get_group_is_read : forall n s, get_group n s = lift (group_named (groups s) n) s.
Proof. intros n s. unfold get_group. cbv [bind getS]. reflexivity. Qed.

Lemma msafe_assoc : forall A B C (m : Mst A) (k : A -> Mst B) (h : B -> Mst C),
  msafe (bind (bind m k) h) -> msafe (bind m (fun a => bind (k a) h)).
Proof.
  intros A B C m k h H s t E. apply (H s t). unfold bind in *. destruct (m s) as [a s1|e s1|t1]; exact E.
Qed.

Lemma read_state : forall A (o : state -> outcome A) (m : Mst A) s a s1,
  (forall s, m s = lift (o s) s) -> m s = ROk a s1 -> s1 = s /\ o s = Ok a.
Proof. intros A o m s a s1 E H. rewrite E in H. unfold lift in H. destruct (o s); inversion H; auto. Qed.

Lemma wrap64_le : forall n, wrap64 n <= n.
Proof. intros n. unfold wrap64. apply N.mod_le. unfold two64. lia. Qed.

(* the points block, run from the state in which the number of points was just computed *)
Lemma points_unit_safe : forall s nP C (REST : unit -> Mst C), (forall u, msafe (REST u)) ->
  msafe (bind (npts_read s nP) (fun npts => bind (points_block s nP npts) REST)).
Proof.
  intros s nP C REST HR s1 t H.
  apply bind_ub in H. destruct H as [H|[npts [s2 [Hn H]]]].
  { unfold npts_read in H. destruct (frames s); [|discriminate].
    apply bind_ub in H. destruct H as [H|[l [s3 [_ H]]]]; [eapply msafe_strs_of; exact H|discriminate]. }
  (* what the read established *)
  assert (F : s2 = s1 /\ (frames s = [] -> exists l0, r_strs (groups s1) nm_POINT nm_LABELS = Ok l0 /\ npts <= nlen l0 + nlen nP)).
  { unfold npts_read in Hn. destruct (frames s) as [|f0 ft].
    - apply bind_ok in Hn. destruct Hn as [l [s3 [Hl Hr]]].
      destruct (read_state _ (fun st => r_strs (groups st) nm_POINT nm_LABELS) _ _ _ _ (strs_of_pure nm_POINT nm_LABELS) Hl) as [-> Rl].
      cbv [ret] in Hr. injection Hr as <- <-. split; [reflexivity|]. intros _. exists l. split; [exact Rl|apply wrap64_le].
    - cbv [ret] in Hn. injection Hn as _ <-. split; [reflexivity|discriminate]. }
  destruct F as [-> F].
  apply bind_ub in H. destruct H as [H|[u [s3 [_ H]]]]; [|eapply HR; exact H].
  unfold points_block in H.
  apply bind_ub in H. destruct H as [H|[u [s3 [Hu H]]]]; [eapply msafe_int0; exact H|].
  destruct (read_state _ (fun st => r_int0 21 (groups st) nm_POINT nm_USED) _ _ _ _ (int0_pure 21 nm_POINT nm_USED) Hu) as [-> _].
  unfold when in H. destruct (negb (npts =? z_to_usize u)); [|discriminate].
  apply bind_ub in H. destruct H as [H|[u1 [s4 [Hup H]]]].
  { eapply (msafe_upd_param nm_POINT nm_USED); [|exact H]. intros p t'. apply set_ints_no_ub. }
  destruct u1.
  assert (Fl : forall n2, n2 <> nm_USED -> lookup (groups s4) nm_POINT n2 = lookup (groups s1) nm_POINT n2).
  { intros n2 Hne. apply (upd_param_other _ _ _ _ _ Hup (set_usize1_name npts)). right. exact Hne. }
  apply bind_ub in H. destruct H as [H|[g [s5 [Hg H]]]]; [eapply msafe_get_group; exact H|].
  destruct (read_state _ (fun st => group_named (groups st) nm_POINT) _ _ _ _ (get_group_is_read nm_POINT) Hg) as [-> _].
  apply bind_ub in H. destruct H as [H|[i1 [s5 [H1 H]]]]; [exfalso; unfold lift in H; destruct (param_idx g nm_LABELS) eqn:E; try discriminate; eapply param_idx_no_ub; eauto|].
  apply lift_ok in H1. destruct H1 as [_ ->].
  apply bind_ub in H. destruct H as [H|[i2 [s5 [H1 H]]]]; [exfalso; unfold lift in H; destruct (param_idx g nm_DESCRIPTIONS) eqn:E; try discriminate; eapply param_idx_no_ub; eauto|].
  apply lift_ok in H1. destruct H1 as [_ ->].
  apply bind_ub in H. destruct H as [H|[i3 [s5 [H1 H]]]]; [exfalso; unfold lift in H; destruct (param_idx g nm_UNITS) eqn:E; try discriminate; eapply param_idx_no_ub; eauto|].
  apply lift_ok in H1. destruct H1 as [_ ->].
  apply bind_ub in H. destruct H as [H|[labels [s5 [Hb H]]]].
  { exfalso. unfold point_name in H. destruct (frames s) as [|f0 ft] eqn:Ef.
    - destruct (F eq_refl) as [l0 [Rl Hle]].
      assert (Rl4 : r_strs (groups s4) nm_POINT nm_LABELS = Ok l0) by (rewrite (r_strs_lookup _ _ _ _ (Fl nm_LABELS ltac:(discriminate))); exact Rl).
      destruct (names_loop_safe nm_POINT 22 23 nP (N.to_nat npts) 0 s4 l0 Rl4) as [names En]; [lia|].
      unfold names_from in En. rewrite En in H. discriminate.
    - eapply (frame_names_safe point pt_name (fr_pts f0)); exact H. }
  (* the three list updates *)
  repeat (apply bind_ub in H; destruct H as [H|[? [? [_ H]]]]; [eapply msafe_upd_param; [|exact H]; intros ? ?; apply set_strs_no_ub|]).
  eapply msafe_upd_param; [|exact H]. intros ? ?. apply set_strs_no_ub.
Qed.

Lemma obind_no_ub : forall A B (o : outcome A) (k : A -> outcome B),
  (forall t, o <> UB t) -> (forall a t, k a <> UB t) -> forall t, obind o k <> UB t.
Proof. intros A B o k Ho Hk t. destruct o as [a|e|t1]; cbn [obind]; [apply Hk|discriminate|exfalso; exact (Ho t1 eq_refl)]. Qed.

Ltac ms :=
  repeat first
    [ apply msafe_int0 | apply msafe_float0 | apply msafe_get_group | apply msafe_get_param | apply msafe_strs_of
    | apply msafe_upd_param; intros ? ?; first [apply set_ints_no_ub | apply set_floats_no_ub | apply set_strs_no_ub]
    | apply msafe_lift_ok; first [apply group_idx_no_ub | apply param_idx_no_ub | apply param_named_no_ub | apply group_named_no_ub | apply at_no_ub
                                 | intros ?; apply values_no_ub
                                 | apply obind_no_ub; [apply group_named_no_ub | intros ? ?; apply param_idx_no_ub] ]
    | apply msafe_getS | apply msafe_putS | apply msafe_ret | apply msafe_throw
    | apply msafe_when | apply msafe_if
    | apply msafe_bind; [|intros ?] ].

Lemma analogs_tail_safe : forall nan labels,
  msafe (bind (upd_param nm_ANALOG nm_LABELS (fun p => set_strs p labels [])) (fun _ =>
         bind (upd_param nm_ANALOG nm_DESCRIPTIONS (fun p => set_strs p (repeat [] (N.to_nat nan)) [])) (fun _ =>
         bind (get_group nm_ANALOG) (fun g2 =>
         bind (lift (param_idx g2 nm_SCALE)) (fun _ =>
         bind (lift (param_named g2 nm_SCALE)) (fun psc =>
         bind (lift (values_as_float psc)) (fun sc =>
         bind (upd_param nm_ANALOG nm_SCALE (fun p => set_floats p (extend sc nan f32_one) [])) (fun _ =>
         bind (get_group nm_ANALOG) (fun g3 =>
         bind (lift (param_named g3 nm_OFFSET)) (fun pof =>
         bind (lift (values_as_int pof)) (fun ofs =>
         bind (upd_param nm_ANALOG nm_OFFSET (fun p => set_ints p (extend ofs nan 0%Z) [])) (fun _ =>
         bind (get_group nm_ANALOG) (fun g4 =>
         bind (lift (param_named g4 nm_UNITS)) (fun pun =>
         bind (lift (values_as_string pun)) (fun un =>
         upd_param nm_ANALOG nm_UNITS (fun p => set_strs p (extend un nan str_V) [])))))))))))))))).
Proof. intros nan labels. ms. Qed.

Lemma chan_names_safe : forall (subs : list subframe) n i0 s t,
  build_names n i0 (fun i => bind (lift (at_ subs 0)) (fun sf0 => bind (lift (at_ sf0 i)) (fun c => ret (ch_name c)))) s <> RUB t.
Proof.
  intros subs n. induction n as [|n IH]; intros i0 s t; cbn [build_names]; [discriminate|].
  unfold bind at 1. unfold bind at 1. unfold lift at 1. destruct (at_ subs 0) as [sf0| |] eqn:E; [|discriminate|exfalso; eapply at_no_ub; eauto].
  unfold bind at 1. unfold lift at 1. destruct (at_ sf0 i0) as [c| |] eqn:E2; [|discriminate|exfalso; eapply at_no_ub; eauto].
  cbv [ret]. unfold bind at 1.
  destruct (build_names n (i0 + 1) _ s) as [tl s'|e s'|t'] eqn:R; [discriminate|discriminate|]. intros H. eapply IH. exact R.
Qed.

Lemma analogs_unit_safe : forall s nA C (REST : unit -> Mst C), (forall u, msafe (REST u)) ->
  msafe (bind (nan_read s nA) (fun nan => bind (analogs_block s nA nan) REST)).
Proof.
  intros s nA C REST HR s1 t H.
  apply bind_ub in H. destruct H as [H|[nan [s2 [Hn H]]]].
  { unfold nan_read in H. destruct (frames s) as [|f0 ft]; [|destruct (fr_subs f0); discriminate].
    apply bind_ub in H. destruct H as [H|[l [s3 [_ H]]]]; [eapply msafe_strs_of; exact H|discriminate]. }
  assert (F : s2 = s1 /\ (frames s = [] -> exists l0, r_strs (groups s1) nm_ANALOG nm_LABELS = Ok l0 /\ nan <= nlen l0 + nlen nA)).
  { unfold nan_read in Hn. destruct (frames s) as [|f0 ft].
    - apply bind_ok in Hn. destruct Hn as [l [s3 [Hl Hr]]].
      destruct (read_state _ (fun st => r_strs (groups st) nm_ANALOG nm_LABELS) _ _ _ _ (strs_of_pure nm_ANALOG nm_LABELS) Hl) as [-> Rl].
      cbv [ret] in Hr. injection Hr as <- <-. split; [reflexivity|]. intros _. exists l. split; [exact Rl|apply wrap64_le].
    - split; [|discriminate]. destruct (fr_subs f0); cbv [ret] in Hn; injection Hn as _ <-; reflexivity. }
  destruct F as [-> F].
  apply bind_ub in H. destruct H as [H|[u [s3 [_ H]]]]; [|eapply HR; exact H].
  unfold analogs_block in H.
  apply bind_ub in H. destruct H as [H|[u [s3 [Hu H]]]]; [eapply msafe_int0; exact H|].
  destruct (read_state _ (fun st => r_int0 24 (groups st) nm_ANALOG nm_USED) _ _ _ _ (int0_pure 24 nm_ANALOG nm_USED) Hu) as [-> _].
  unfold when in H. destruct (negb (nan =? z_to_usize u)); [|discriminate].
  apply bind_ub in H. destruct H as [H|[u1 [s4 [Hup H]]]].
  { eapply (msafe_upd_param nm_ANALOG nm_USED); [|exact H]. intros p t'. apply set_ints_no_ub. }
  destruct u1.
  assert (Fl : forall n2, n2 <> nm_USED -> lookup (groups s4) nm_ANALOG n2 = lookup (groups s1) nm_ANALOG n2).
  { intros n2 Hne. apply (upd_param_other _ _ _ _ _ Hup (set_usize1_name nan)). right. exact Hne. }
  apply bind_ub in H. destruct H as [H|[g [s5 [Hg H]]]]; [eapply msafe_get_group; exact H|].
  destruct (read_state _ (fun st => group_named (groups st) nm_ANALOG) _ _ _ _ (get_group_is_read nm_ANALOG) Hg) as [-> _].
  apply bind_ub in H. destruct H as [H|[i1 [s5 [H1 H]]]]; [exfalso; unfold lift in H; destruct (param_idx g nm_LABELS) eqn:E; try discriminate; eapply param_idx_no_ub; eauto|].
  apply lift_ok in H1. destruct H1 as [_ ->].
  apply bind_ub in H. destruct H as [H|[i2 [s5 [H1 H]]]]; [exfalso; unfold lift in H; destruct (param_idx g nm_DESCRIPTIONS) eqn:E; try discriminate; eapply param_idx_no_ub; eauto|].
  apply lift_ok in H1. destruct H1 as [_ ->].
  apply bind_ub in H. destruct H as [H|[labels [s5 [Hb H]]]].
  { exfalso. unfold chan_name in H. destruct (frames s) as [|f0 ft] eqn:Ef.
    - destruct (F eq_refl) as [l0 [Rl Hle]].
      assert (Rl4 : r_strs (groups s4) nm_ANALOG nm_LABELS = Ok l0) by (rewrite (r_strs_lookup _ _ _ _ (Fl nm_LABELS ltac:(discriminate))); exact Rl).
      destruct (names_loop_safe nm_ANALOG 25 26 nA (N.to_nat nan) 0 s4 l0 Rl4) as [names En]; [lia|].
      unfold names_from in En. rewrite En in H. discriminate.
    - eapply (chan_names_safe (fr_subs f0)); exact H. }
  eapply analogs_tail_safe. exact H.
Qed.

Lemma msafe_regroup : forall A B C D (m : Mst A) (m2 : A -> Mst B) (w : A -> B -> Mst C) (rest : C -> Mst D),
  msafe (bind m (fun a => bind (bind (m2 a) (fun b => w a b)) rest)) ->
  msafe (bind m (fun a => bind (m2 a) (fun b => bind (w a b) rest))).
Proof.
  intros A B C D m m2 w rest H0 s t H. apply (H0 s t). unfold bind in H. unfold bind.
  destruct (m s) as [a s2|e s2|t1]; [|exact H|exact H]. destruct (m2 a s2) as [b s3|e s3|t1]; exact H.
Qed.

Lemma msafe_unret : forall A B (m : Mst A) (k : A -> Mst B),
  msafe (bind m (fun a => bind (k a) (fun u => ret u))) -> msafe (bind m k).
Proof.
  intros A B m k H0 s t H. apply (H0 s t). unfold bind in *. destruct (m s) as [a s2|e s2|t1]; [|exact H|exact H].
  destruct (k a s2) as [b s3|e s3|t1]; [discriminate|discriminate|exact H].
Qed.

Section WithOps.
Variable f_key : f32 -> outcome Z.
Variable f_tosize : f32 -> outcome N.
Variable f_div : f32 -> f32 -> f32.
Variable f_is_zero : f32 -> bool.
Hypothesis f_key_benign : forall r t, f_key r = UB t -> benign t.
Hypothesis f_tosize_benign : forall r t, f_tosize r = UB t -> benign t.

Lemma msafe_uh : forall b, msafe (update_header f_key f_tosize f_div b).
Proof. exact (msafe_update_header f_key f_tosize f_div f_key_benign f_tosize_benign). Qed.

Theorem msafe_update_parameters : forall nP nA, msafe (update_parameters f_key f_tosize f_div nP nA).
Proof.
  intros nP nA. unfold update_parameters.
  apply msafe_bind; [apply msafe_getS|]. intros s.
  apply msafe_bind; [ms|]. intros u1.
  apply msafe_bind; [ms|]. intros u2.
  apply msafe_bind; [ms|]. intros gi.
  apply msafe_bind; [ms|]. intros fz.
  apply msafe_bind; [ms|]. intros u3.
  (* points *)
  apply msafe_regroup. fold (points_block s nP). apply points_unit_safe. intros u4.
  apply msafe_bind; [apply msafe_getS|]. intros s1.
  apply msafe_bind; [ms|]. intros gi2.
  apply msafe_bind; [apply msafe_get_group|]. intros ga0.
  apply msafe_bind; [|intros u5; apply msafe_uh].
  apply msafe_when. apply msafe_unret. fold (analogs_block s nA). apply analogs_unit_safe. intros u. apply msafe_ret.
Qed.

(* ---------- the column validators: their unchecked accesses are in range under the guards that precede them ---------- *)
Lemma idx_in_range : forall A site (l : list A) i t, i < nlen l -> idx_ site l i <> UB t.
Proof.
  intros A site l i t H. unfold idx_. destruct (nlen_lt_nth _ l i H) as [x E]. apply N.ltb_lt in H. rewrite H, E. discriminate.
Qed.

Lemma all_have_point_no_ub : forall idx nfr k news t, (N.to_nat k + nfr <= length news)%nat -> all_have_point idx nfr k news <> UB t.
Proof.
  intros idx nfr. induction nfr as [|m IH]; intros k news t H; cbn [all_have_point]; [discriminate|].
  assert (L : k < nlen news) by (unfold nlen; lia).
  destruct (idx_ 45 news k) as [fr| |] eqn:E; cbn [obind]; [|discriminate|exfalso; eapply idx_in_range; eauto].
  destruct (at_ (fr_pts fr) idx) as [p| |] eqn:E2; cbn [obind]; [|discriminate|exfalso; eapply at_no_ub; eauto].
  apply IH. lia.
Qed.
Lemma validate_point_cols_no_ub : forall k idx labels news nfr t, news <> [] -> (nfr <= length news)%nat ->
  validate_point_cols k idx labels news nfr <> UB t.
Proof.
  induction k as [|k IH]; intros idx labels news nfr t Ne L; cbn [validate_point_cols]; [discriminate|].
  assert (L0 : 0 < nlen news) by (destruct news; [contradiction|unfold nlen; cbn; lia]).
  destruct (idx_ 41 news 0) as [n0| |] eqn:E; cbn [obind]; [|discriminate|exfalso; eapply idx_in_range; eauto].
  destruct (at_ (fr_pts n0) idx) as [p| |] eqn:E2; cbn [obind]; [|discriminate|exfalso; eapply at_no_ub; eauto].
  destruct (existsb _ labels); [discriminate|].
  destruct (all_have_point idx nfr 0 news) as [u| |] eqn:E3; cbn [obind]; [|discriminate|exfalso; eapply all_have_point_no_ub; [|exact E3]; cbn; lia].
  apply IH; assumption.
Qed.

Lemma all_subs_have_no_ub : forall idx nsf k osubs nsubs t, all_subs_have idx nsf k osubs nsubs <> UB t.
Proof.
  intros idx nsf. induction nsf as [|m IH]; intros k osubs nsubs t; cbn [all_subs_have]; [discriminate|].
  destruct (at_ osubs k) as [o| |] eqn:E1; cbn [obind]; [|discriminate|exfalso; eapply at_no_ub; eauto].
  destruct (at_ nsubs k) as [sf| |] eqn:E2; cbn [obind]; [|discriminate|exfalso; eapply at_no_ub; eauto].
  destruct (at_ sf idx) as [c| |] eqn:E3; cbn [obind]; [|discriminate|exfalso; eapply at_no_ub; eauto].
  apply IH.
Qed.
Lemma all_have_chan_no_ub : forall idx nsf olds news k t, (N.to_nat k + length olds <= length news)%nat ->
  all_have_chan idx nsf olds news k <> UB t.
Proof.
  intros idx nsf olds. induction olds as [|o ot IH]; intros news k t H; cbn [all_have_chan]; [discriminate|].
  assert (L : k < nlen news) by (unfold nlen; cbn [length] in H; lia).
  destruct (idx_ 46 news k) as [n| |] eqn:E; cbn [obind]; [|discriminate|exfalso; eapply idx_in_range; eauto].
  destruct (all_subs_have idx nsf 0 (fr_subs o) (fr_subs n)) as [u| |] eqn:E2; cbn [obind]; [|discriminate|exfalso; eapply all_subs_have_no_ub; eauto].
  apply IH. cbn [length] in H. lia.
Qed.
Lemma validate_chan_cols_no_ub : forall k idx labels news olds nsf t, news <> [] -> (length olds <= length news)%nat ->
  validate_chan_cols k idx labels news olds nsf <> UB t.
Proof.
  induction k as [|k IH]; intros idx labels news olds nsf t Ne L; cbn [validate_chan_cols]; [discriminate|].
  assert (L0 : 0 < nlen news) by (destruct news; [contradiction|unfold nlen; cbn; lia]).
  destruct (idx_ 43 news 0) as [n0| |] eqn:E; cbn [obind]; [|discriminate|exfalso; eapply idx_in_range; eauto].
  destruct (at_ (fr_subs n0) 0) as [sf0| |] eqn:E2; cbn [obind]; [|discriminate|exfalso; eapply at_no_ub; eauto].
  destruct (at_ sf0 idx) as [c| |] eqn:E3; cbn [obind]; [|discriminate|exfalso; eapply at_no_ub; eauto].
  destruct (existsb _ labels); [discriminate|].
  destruct (all_have_chan idx nsf olds news 0) as [u| |] eqn:E4; cbn [obind]; [|discriminate|exfalso; eapply all_have_chan_no_ub; [|exact E4]; cbn; lia].
  apply IH; assumption.
Qed.

Lemma msafe_point_cols : forall k idx news, msafe (point_cols k idx news).
Proof.
  induction k as [|k IH]; intros idx news; cbn [point_cols]; [apply msafe_ret|].
  apply msafe_bind; [apply msafe_getS|]. intros s. destruct (add_point_col_partial idx news (frames s)) as [fs e].
  apply msafe_bind; [apply msafe_putS|]. intros _. apply msafe_bind; [destruct e; [apply msafe_throw|apply msafe_ret]|]. intros _. apply IH.
Qed.
Lemma msafe_chan_cols : forall k idx news, msafe (chan_cols k idx news).
Proof.
  induction k as [|k IH]; intros idx news; cbn [chan_cols]; [apply msafe_ret|].
  apply msafe_bind; [apply msafe_getS|]. intros s. destruct (add_chan_col_partial _ idx news (frames s)) as [fs e].
  apply msafe_bind; [apply msafe_putS|]. intros _. apply msafe_bind; [destruct e; [apply msafe_throw|apply msafe_ret]|]. intros _. apply IH.
Qed.

Theorem msafe_api_point_col : forall news, msafe (api_point_col f_key f_tosize f_div news).
Proof.
  intros news s0 t H. unfold api_point_col in H.
  apply bind_ub in H. destruct H as [H|[s [s1 [Hg H]]]]; [discriminate|]. cbv [getS] in Hg. injection Hg as <- <-.
  destruct ((nlen news =? 0) || negb (nlen news =? nlen (frames s0))) eqn:C.
  { apply bind_ub in H. destruct H as [H|[? [? [H1 _]]]]; discriminate. }
  apply Bool.orb_false_iff in C. destruct C as [C0 C1]. apply Bool.negb_false_iff in C1. apply N.eqb_eq in C1. apply N.eqb_neq in C0.
  assert (Ne : news <> []) by (intros ->; apply C0; reflexivity).
  apply bind_ub in H. destruct H as [H|[u [s1 [H1 H]]]]; [discriminate|]. cbv [ret] in H1. injection H1 as _ <-.
  apply bind_ub in H. destruct H as [H|[n0 [s1 [H1 H]]]].
  { exfalso. unfold lift in H. destruct (idx_ 42 news 0) eqn:E; try discriminate. eapply idx_in_range; [|exact E]. lia. }
  apply lift_ok in H1. destruct H1 as [_ ->].
  apply bind_ub in H. destruct H as [H|[u2 [s1 [H1 H]]]]; [destruct (nlen (fr_pts n0) =? 0); discriminate|].
  assert (Es : s1 = s0) by (destruct (nlen (fr_pts n0) =? 0); cbv [throw ret] in H1; [discriminate|injection H1 as _ <-; reflexivity]). subst s1. clear H1.
  apply bind_ub in H. destruct H as [H|[labels [s1 [H1 H]]]]; [eapply msafe_strs_of; exact H|].
  destruct (read_state _ (fun st => r_strs (groups st) nm_POINT nm_LABELS) _ _ _ _ (strs_of_pure nm_POINT nm_LABELS) H1) as [-> _].
  apply bind_ub in H. destruct H as [H|[u3 [s1 [H2 H]]]].
  { exfalso. unfold lift in H. destruct (validate_point_cols _ 0 labels news _) eqn:E; try discriminate.
    eapply validate_point_cols_no_ub; [exact Ne| |exact E]. unfold nlen in C1. lia. }
  apply lift_ok in H2. destruct H2 as [_ ->].
  apply bind_ub in H. destruct H as [H|[u4 [s1 [_ H]]]]; [eapply msafe_point_cols; exact H|].
  eapply msafe_update_parameters. exact H.
Qed.

Theorem msafe_api_analog_col : forall news, msafe (api_analog_col f_key f_tosize f_div news).
Proof.
  intros news s0 t H. unfold api_analog_col in H.
  apply bind_ub in H. destruct H as [H|[s [s1 [Hg H]]]]; [discriminate|]. cbv [getS] in Hg. injection Hg as <- <-.
  destruct ((nlen news =? 0) || negb (nlen news =? nlen (frames s0))) eqn:C.
  { apply bind_ub in H. destruct H as [H|[? [? [H1 _]]]]; discriminate. }
  apply Bool.orb_false_iff in C. destruct C as [C0 C1]. apply Bool.negb_false_iff in C1. apply N.eqb_eq in C1. apply N.eqb_neq in C0.
  assert (Ne : news <> []) by (intros ->; apply C0; reflexivity).
  apply bind_ub in H. destruct H as [H|[u [s1 [H1 H]]]]; [discriminate|]. cbv [ret] in H1. injection H1 as _ <-.
  apply bind_ub in H. destruct H as [H|[n0 [s1 [H1 H]]]].
  { exfalso. unfold lift in H. destruct (idx_ 44 news 0) eqn:E; try discriminate. eapply idx_in_range; [|exact E]. lia. }
  apply lift_ok in H1. destruct H1 as [_ ->].
  apply bind_ub in H. destruct H as [H|[u2 [s1 [H1 H]]]]; [destruct (negb _); discriminate|].
  assert (Es : s1 = s0) by (destruct (negb _); cbv [throw ret] in H1; [discriminate|injection H1 as _ <-; reflexivity]). subst s1. clear H1.
  apply bind_ub in H. destruct H as [H|[sf0 [s1 [H1 H]]]].
  { exfalso. unfold lift in H. destruct (at_ (fr_subs n0) 0) eqn:E; try discriminate. eapply at_no_ub; eauto. }
  apply lift_ok in H1. destruct H1 as [_ ->].
  apply bind_ub in H. destruct H as [H|[u3 [s1 [H1 H]]]]; [destruct (nlen sf0 =? 0); discriminate|].
  assert (Es : s1 = s0) by (destruct (nlen sf0 =? 0); cbv [throw ret] in H1; [discriminate|injection H1 as _ <-; reflexivity]). subst s1. clear H1.
  apply bind_ub in H. destruct H as [H|[labels [s1 [H1 H]]]]; [eapply msafe_strs_of; exact H|].
  destruct (read_state _ (fun st => r_strs (groups st) nm_ANALOG nm_LABELS) _ _ _ _ (strs_of_pure nm_ANALOG nm_LABELS) H1) as [-> _].
  apply bind_ub in H. destruct H as [H|[u4 [s1 [H2 H]]]].
  { exfalso. unfold lift in H. destruct (validate_chan_cols _ 0 labels news _ _) eqn:E; try discriminate.
    eapply validate_chan_cols_no_ub; [exact Ne| |exact E]. unfold nlen in C1. lia. }
  apply lift_ok in H2. destruct H2 as [_ ->].
  apply bind_ub in H. destruct H as [H|[u5 [s1 [_ H]]]]; [eapply msafe_chan_cols; exact H|].
  eapply msafe_update_parameters. exact H.
Qed.

Lemma put_no_ub : forall A (d : A) l x idx t, put d l x idx <> UB t.
Proof.
  intros A d l x idx t. unfold put. destruct idx as [i|]; [|discriminate].
  destruct (i <? nlen l); [discriminate|]. destruct (i =? size_max); [discriminate|]. destruct (_ <? i); discriminate.
Qed.
Lemma group_set_param_no_ub : forall g p t, group_set_param g p <> UB t.
Proof. intros g p t. unfold group_set_param. destruct (p_type p); try discriminate; destruct (find_idx _ _ _); discriminate. Qed.

Theorem msafe_api_frame : forall f idx, msafe (api_frame f_key f_tosize f_div f_is_zero f idx).
Proof.
  intros f idx. unfold api_frame.
  do 8 (apply msafe_bind; [ms|intros ?]).
  apply msafe_bind; [destruct (fr_subs f); ms|intros ?].
  apply msafe_bind; [apply msafe_lift_ok; apply put_no_ub|intros ?].
  apply msafe_bind; [apply msafe_putS|intros ?]. apply msafe_update_parameters.
Qed.

Theorem msafe_api_parameter : forall g p, msafe (api_parameter f_key f_tosize f_div g p).
Proof.
  intros g p. unfold api_parameter.
  apply msafe_bind; [ms|]. intros _. apply msafe_bind; [destruct (p_type p); ms|]. intros _.
  apply msafe_bind; [apply msafe_getS|]. intros s.
  apply msafe_bind.
  - apply msafe_catch; [ms|]. intros e. destruct e; try apply msafe_throw.
    apply msafe_bind; [apply msafe_lift; intros t H; eapply groups_add_no_memory_error; exact H|]. intros gs. ms.
  - intros gi. apply msafe_bind; [apply msafe_getS|]. intros s1.
    apply msafe_bind; [unfold group_at; ms|]. intros g0.
    apply msafe_bind; [apply msafe_lift_ok; apply group_set_param_no_ub|]. intros g'.
    apply msafe_bind; [apply msafe_putS|]. intros _. apply msafe_uh.
Qed.

Theorem msafe_api_lock : forall g b, msafe (api_lock g b).
Proof. intros g b. unfold api_lock. repeat first [ unfold group_at; ms | apply msafe_modS ]. Qed.

Theorem msafe_api_point : forall n, msafe (api_point f_key f_tosize f_div n).
Proof.
  intros n. unfold api_point. apply msafe_bind; [apply msafe_getS|]. intros s.
  destruct (negb (nlen (frames s) =? 0)); [apply msafe_api_point_col|apply msafe_update_parameters].
Qed.
Theorem msafe_api_analog : forall n, msafe (api_analog f_key f_tosize f_div n).
Proof.
  intros n. unfold api_analog. apply msafe_bind; [apply msafe_getS|]. intros s.
  destruct (negb (nlen (frames s) =? 0)); [apply msafe_api_analog_col|apply msafe_update_parameters].
Qed.

(* C13 for the API: from ANY state, no public mutator returns a memory-error verdict *)
Theorem step_no_memory_error : forall s o t, step f_key f_tosize f_div f_is_zero s o = RUB t -> benign t.
Proof.
  intros s o t H. unfold step in H. destruct o.
  - eapply msafe_api_parameter; exact H.
  - eapply msafe_api_lock; exact H.
  - eapply msafe_api_lock; exact H.
  - eapply msafe_api_frame; exact H.
  - eapply msafe_api_point; exact H.
  - eapply msafe_api_point_col; exact H.
  - eapply msafe_api_analog; exact H.
  - eapply msafe_api_analog_col; exact H.
Qed.
End WithOps.

(* ---------- a frame of the shape the object already has changes no parameter except POINT:FRAMES ---------- *)
Section FrameKeepsParameters.
Variable f_key : f32 -> outcome Z.
Variable f_tosize : f32 -> outcome N.
Variable f_div : f32 -> f32 -> f32.

Definition counts_agree (s : state) : Prop :=
  match frames s with
  | f0 :: _ => (exists u, r_int0 0 (groups s) nm_POINT nm_USED = Ok u /\ z_to_usize u = nlen (fr_pts f0)) /\
               (exists a, r_int0 0 (groups s) nm_ANALOG nm_USED = Ok a /\ z_to_usize a = nan_of f0)
  | [] => False
  end.

Theorem update_parameters_keeps_others : forall s r,
  counts_agree s -> update_parameters f_key f_tosize f_div [] [] s = r ->
  (exists s1, r = update_header f_key f_tosize f_div true s1 /\ frames s1 = frames s /\ hdr s1 = hdr s /\ pro s1 = pro s /\
    (forall g n, (g <> nm_POINT \/ n <> nm_FRAMES) -> lookup (groups s1) g n = lookup (groups s) g n))
  \/ (exists e s2, r = RThrow e s2) \/ (exists t, r = RUB t).
Proof.
  intros s r Hc Hr. unfold counts_agree in Hc. destruct (frames s) as [|f0 ft] eqn:Ef; [contradiction|].
  destruct Hc as [[u [Hu Eu]] [a [Ha Ea]]].
  unfold update_parameters in Hr. unfold bind at 1 in Hr. cbv [getS] in Hr. rewrite Ef in Hr.
  change (nlen (@nil bstr) =? 0) with true in Hr. cbn [negb andb] in Hr. rewrite !Bool.andb_false_r in Hr.
  unfold bind at 1 in Hr. unfold ret at 1 in Hr. unfold bind at 1 in Hr. unfold ret at 1 in Hr. unfold bind at 1 in Hr.
  destruct (group_idx (groups s) nm_POINT) as [gi|e|t] eqn:Gi; cbn [lift] in Hr; [|right; left; eauto|right; right; eauto].
  unfold bind at 1 in Hr. rewrite int0_pure in Hr.
  destruct (r_int0 20 (groups s) nm_POINT nm_FRAMES) as [fz|e|t] eqn:Fz; cbn [lift] in Hr; [|right; left; eauto|right; right; eauto].
  unfold bind at 1 in Hr.
  match type of Hr with context [when (negb (nlen (f0 :: ft) =? z_to_usize fz)) ?body] =>
    set (step1 := when (negb (nlen (f0 :: ft) =? z_to_usize fz)) body) in * end.
  destruct (step1 s) as [u1 s1|e s1|t] eqn:S1; [|right; left; eauto|right; right; eauto].
  assert (K1 : frames s1 = frames s /\ hdr s1 = hdr s /\ pro s1 = pro s /\
               forall g n, (g <> nm_POINT \/ n <> nm_FRAMES) -> lookup (groups s1) g n = lookup (groups s) g n).
  { unfold step1, when in S1. destruct (negb (nlen (f0 :: ft) =? z_to_usize fz)).
    - apply bind_ok in S1. destruct S1 as [i0 [s0 [L1 S1]]]. apply lift_ok in L1. destruct L1 as [_ ->]. destruct u1.
      pose proof (upd_param_other _ _ _ _ _ S1 (set_usize1_name _)) as Fr.
      rewrite upd_param_pure in S1. destruct (t_upd (groups s) nm_POINT nm_FRAMES _) as [gs'| |]; try discriminate.
      injection S1 as <-. cbn [frames hdr pro set_groups groups] in *. repeat split; auto.
    - cbv [ret] in S1. injection S1 as _ <-. repeat split; auto. }
  destruct K1 as [Kf [Kh [Kp Kl]]]. clear S1 step1.
  unfold bind at 1 in Hr. unfold ret at 1 in Hr. unfold bind at 1 in Hr. rewrite int0_pure in Hr.
  assert (Hu1 : r_int0 21 (groups s1) nm_POINT nm_USED = Ok u).
  { unfold r_int0. rewrite (Kl nm_POINT nm_USED) by (right; discriminate). exact Hu. }
  rewrite Hu1 in Hr. cbn [lift] in Hr. unfold bind at 1 in Hr. rewrite Eu, N.eqb_refl in Hr. cbn [negb when] in Hr. unfold ret at 1 in Hr.
  unfold bind at 1 in Hr. cbv [getS] in Hr. unfold bind at 1 in Hr.
  destruct (group_idx (groups s1) nm_ANALOG) as [gi2|e|t] eqn:Gi2; cbn [lift] in Hr; [|right; left; eauto|right; right; eauto].
  unfold nan_of in Ea.
  assert (Ha1 : r_int0 24 (groups s1) nm_ANALOG nm_USED = Ok a).
  { unfold r_int0. rewrite (Kl nm_ANALOG nm_USED) by (left; discriminate). exact Ha. }
  (* the ANALOG group holds a parameter (USED was just read): the "nothing analog anywhere" shortcut is not taken *)
  assert (Gn : exists ga0, group_named (groups s1) nm_ANALOG = Ok ga0 /\ g_params ga0 <> []).
  { unfold r_int0, lookup in Ha1. destruct (group_named (groups s1) nm_ANALOG) as [ga0| |]; cbn [obind] in Ha1; try discriminate.
    exists ga0. split; [reflexivity|]. intros E0. unfold param_named, param_idx in Ha1. rewrite E0 in Ha1. cbn in Ha1. discriminate. }
  destruct Gn as [ga0 [Gn Pne]].
  unfold bind at 1 in Hr.
  assert (GG : get_group nm_ANALOG s1 = ROk ga0 s1) by (unfold get_group; cbv [bind getS]; rewrite Gn; reflexivity).
  rewrite GG in Hr.
  assert (NA : no_analog_anywhere ga0 [] (f0 :: ft) = false) by (unfold no_analog_anywhere; destruct (g_params ga0); [congruence|reflexivity]).
  rewrite NA in Hr. cbn [negb when] in Hr.
  unfold bind at 1 in Hr.
  match type of Hr with context [match ?B s1 with ROk _ _ => _ | RThrow _ _ => _ | RUB _ => _ end] => assert (EB : B s1 = ROk tt s1) end.
  { unfold bind at 1.
    destruct (fr_subs f0) as [|sf0 st0]; unfold ret at 1; unfold bind at 1; rewrite int0_pure, Ha1; cbn [lift];
      rewrite Ea, N.eqb_refl; cbn [negb when]; reflexivity. }
  rewrite EB in Hr. left. exists s1. split; [symmetry; exact Hr|]. rewrite Ef in Kf. auto.
Qed.
End FrameKeepsParameters.

Section FrameKeeps2.
Variable f_key : f32 -> outcome Z.
Variable f_tosize : f32 -> outcome N.
Variable f_div : f32 -> f32 -> f32.
Variable f_is_zero : f32 -> bool.

(* frame(): when the stored data (with the new frame) have the point and channel counts the parameters already announce,
   the call changes NO parameter except POINT:FRAMES — labels, descriptions, units, scales, offsets, rates, every other
   group are exactly as before *)
Theorem api_frame_keeps_parameters : forall f idx s s',
  api_frame f_key f_tosize f_div f_is_zero f idx s = ROk tt s' ->
  (forall fs', put empty_frame (frames s) f idx = Ok fs' -> counts_agree (set_frames s fs')) ->
  forall g n, (g <> nm_POINT \/ n <> nm_FRAMES) -> lookup (groups s') g n = lookup (groups s) g n.
Proof.
  intros f idx s s' H Hc g n Hne. rewrite api_frame_factor in H.
  destruct (frame_guard f_is_zero (groups s) (hdr s) f) as [[]|x|t]; try discriminate.
  unfold store_and_update in H. cbv [bind getS] in H.
  destruct (put empty_frame (frames s) f idx) as [fs'|x|t] eqn:P; cbn [lift] in H; try discriminate.
  cbv [putS] in H. specialize (Hc fs' eq_refl).
  destruct (update_parameters_keeps_others f_key f_tosize f_div (set_frames s fs') _ Hc H) as [[s1 [E [_ [_ [_ Kl]]]]]|[[e [s2 E]]|[t E]]]; try discriminate.
  pose proof (keeps_update_header f_key f_tosize f_div true s1) as K. rewrite <- E in K. destruct K as [K _].
  rewrite K. rewrite (Kl g n Hne). reflexivity.
Qed.
End FrameKeeps2.
