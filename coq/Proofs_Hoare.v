(* Proofs_Hoare.v — total-correctness triples for the state/exception monad: "from a state that
   satisfies P the computation does NOT throw, and if it returns, Q holds of the result".  An
   undefined-behaviour verdict is left aside (it is C13's subject).  Used to show that the two
   updaters never throw on objects whose mandatory parameters are well typed (C10, C05). *)
From EZ Require Import Base Types Api Proofs_Monad.

Definition hoare {A} (P : state -> Prop) (m : Mst A) (Q : A -> state -> Prop) : Prop :=
  forall s, P s -> match m s with ROk a s' => Q a s' | RThrow _ _ => False | RUB _ => True end.

Lemma h_ret : forall A (a : A) (P : state -> Prop) (Q : A -> state -> Prop),
  (forall s, P s -> Q a s) -> hoare P (ret a) Q.
Proof. intros A a P Q H s Hs. cbn. apply H, Hs. Qed.

Lemma h_bind : forall A B (m : Mst A) (k : A -> Mst B) P R Q,
  hoare P m R -> (forall a, hoare (R a) (k a) Q) -> hoare P (bind m k) Q.
Proof.
  intros A B m k P R Q Hm Hk s Hs. unfold bind. specialize (Hm s Hs).
  destruct (m s) as [a s1|e s1|t]; [|contradiction|exact I].
  exact (Hk a s1 Hm).
Qed.

Lemma h_conseq : forall A (m : Mst A) (P P' : state -> Prop) (Q Q' : A -> state -> Prop),
  hoare P' m Q' -> (forall s, P s -> P' s) -> (forall a s, Q' a s -> Q a s) -> hoare P m Q.
Proof.
  intros A m P P' Q Q' H HP HQ s Hs. specialize (H s (HP s Hs)).
  destruct (m s) as [a s1|e s1|t]; [apply HQ, H|contradiction|exact I].
Qed.

Lemma h_getS : forall (P : state -> Prop) (Q : state -> state -> Prop),
  (forall s, P s -> Q s s) -> hoare P getS Q.
Proof. intros P Q H s Hs. cbn. apply H, Hs. Qed.

(* a computation that only reads: it is lift o for an o that depends on the state *)
Lemma h_read : forall A (m : Mst A) (P : state -> Prop) (Q : A -> state -> Prop),
  (forall s, P s -> exists o, m s = lift o s /\ (forall e, o <> Throw e) /\ (forall a, o = Ok a -> Q a s)) ->
  hoare P m Q.
Proof.
  intros A m P Q H s Hs. destruct (H s Hs) as [o [E [NT HQ]]]. rewrite E. unfold lift.
  destruct o as [a|e|t]; [apply HQ; reflexivity|exact (NT e eq_refl)|exact I].
Qed.

Lemma h_lift : forall A (o : outcome A) (P : state -> Prop) (Q : A -> state -> Prop),
  (forall e, o <> Throw e) -> (forall a s, o = Ok a -> P s -> Q a s) -> hoare P (lift o) Q.
Proof.
  intros A o P Q NT H. apply h_read. intros s Hs. exists o. split; [reflexivity|]. split; [exact NT|].
  intros a E. exact (H a s E Hs).
Qed.

(* a read whose outcome depends on the state *)
Lemma h_lift_st : forall A (o : state -> outcome A) (m : Mst A) (P : state -> Prop) (Q : A -> state -> Prop),
  (forall s, m s = lift (o s) s) ->
  (forall s, P s -> (forall e, o s <> Throw e) /\ (forall a, o s = Ok a -> Q a s)) -> hoare P m Q.
Proof.
  intros A o m P Q E H. apply h_read. intros s Hs. exists (o s). split; [apply E|]. exact (H s Hs).
Qed.

Lemma h_when : forall (b : bool) m (P : state -> Prop) (Q : unit -> state -> Prop),
  (b = true -> hoare P m Q) -> (b = false -> forall s, P s -> Q tt s) -> hoare P (when b m) Q.
Proof.
  intros b m P Q Ht Hf. destruct b; cbn [when]; [apply Ht; reflexivity|].
  apply h_ret. apply Hf. reflexivity.
Qed.

Lemma h_if : forall A (b : bool) (m1 m2 : Mst A) P Q,
  (b = true -> hoare P m1 Q) -> (b = false -> hoare P m2 Q) -> hoare P (if b then m1 else m2) Q.
Proof. intros A b m1 m2 P Q H1 H2. destruct b; [apply H1|apply H2]; reflexivity. Qed.

Lemma h_mod_hdr : forall f (P : state -> Prop) (Q : unit -> state -> Prop),
  (forall s, P s -> Q tt (set_hdr s (f (hdr s)))) -> hoare P (mod_hdr f) Q.
Proof. intros f P Q H s Hs. cbn. apply H, Hs. Qed.

(* a precondition that does not hold makes any triple true: used to discharge impossible branches *)
Lemma h_false : forall A (m : Mst A) (P : state -> Prop) Q, (forall s, P s -> False) -> hoare P m Q.
Proof. intros A m P Q H s Hs. destruct (H s Hs). Qed.

(* the triple read as a statement about a run *)
Lemma hoare_run : forall A (m : Mst A) P Q s, hoare P m Q -> P s ->
  (forall e s', m s <> RThrow e s') /\ (forall a s', m s = ROk a s' -> Q a s').
Proof.
  intros A m P Q s H Hs. specialize (H s Hs). split.
  - intros e s' E. rewrite E in H. exact H.
  - intros a s' E. rewrite E in H. exact H.
Qed.
