(* Proofs_AnalogCol.v — c3d::analog(frames): the documented guards (C07), the validation pass that makes the mutation
   pass total (C10), and what the call stores (C06), for supplied frames and stored frames of uniform shape. *)
From Coq Require Import Lia ZifyNat ZifyN ZifyBool.
From EZ Require Import Base Types Api Proofs_Lookup Proofs_Monad Proofs_Param Proofs_Store Proofs_Guards Proofs_Refuse
  Proofs_Tree Proofs_Hoare Spec_Typed Proofs_Updaters Proofs_Codec Proofs_Record.
Local Open Scope N_scope.

Definition known_chan (labels : list bstr) (c : channel) : bool := existsb (fun l => bstr_eqb (ch_name c) l) labels.

(* every one of the first nsf sub-frames of a frame holds at least w channels *)
Definition subs_wide (nsf : nat) (w : N) (subs : list subframe) : Prop :=
  (nsf <= length subs)%nat /\ forall j sf, (j < nsf)%nat -> nth_error subs j = Some sf -> w <= nlen sf.

Lemma all_subs_have_ok : forall idx nsf k osubs nsubs,
  (N.to_nat k + nsf <= length osubs)%nat ->
  (N.to_nat k + nsf <= length nsubs)%nat ->
  (forall j sf, (j < N.to_nat k + nsf)%nat -> nth_error nsubs j = Some sf -> idx < nlen sf) ->
  all_subs_have idx nsf k osubs nsubs = Ok tt.
Proof.
  intros idx nsf. induction nsf as [|m IH]; intros k osubs nsubs Ho Hn Hw; cbn [all_subs_have]; [reflexivity|].
  assert (Lo : k < nlen osubs) by (unfold nlen; lia). assert (Ln : k < nlen nsubs) by (unfold nlen; lia).
  destruct (at_in subframe osubs k Lo) as [osf Eo]. rewrite Eo. cbn [obind].
  destruct (at_in subframe nsubs k Ln) as [sf Es]. rewrite Es. cbn [obind].
  apply at_ok in Es. destruct Es as [_ Es].
  assert (Li : idx < nlen sf) by (apply (Hw (N.to_nat k) sf); [lia|exact Es]).
  destruct (at_in _ sf idx Li) as [c Ec]. rewrite Ec. cbn [obind].
  apply IH; [lia|lia|]. intros j sf' Hj Hs. apply (Hw j sf'); [lia|exact Hs].
Qed.

Lemma all_have_chan_ok : forall idx nsf olds news k,
  (N.to_nat k + length olds <= length news)%nat ->
  (forall o, In o olds -> (nsf <= length (fr_subs o))%nat) ->
  (forall n, In n news -> (nsf <= length (fr_subs n))%nat /\ forall j sf, (j < nsf)%nat -> nth_error (fr_subs n) j = Some sf -> idx < nlen sf) ->
  all_have_chan idx nsf olds news k = Ok tt.
Proof.
  intros idx nsf olds. induction olds as [|o ot IH]; intros news k Hk Ho Hn; cbn [all_have_chan]; [reflexivity|].
  assert (Lk : k < nlen news) by (unfold nlen; cbn [length] in Hk; lia).
  destruct (at_in _ news k Lk) as [n En]. apply at_ok in En. destruct En as [_ En].
  unfold idx_. apply N.ltb_lt in Lk. rewrite Lk, En. cbn [obind].
  destruct (Hn n (nth_error_In _ _ En)) as [Ln Hw].
  rewrite (all_subs_have_ok idx nsf 0 (fr_subs o) (fr_subs n)); cbn [N.to_nat Nat.add obind].
  - apply IH; [cbn [length] in Hk; lia|intros o' Ho'; apply Ho; right; exact Ho'|exact Hn].
  - apply Ho. left. reflexivity.
  - exact Ln.
  - exact Hw.
Qed.

(* the uniformity under which the call is characterised: every stored frame has the header's sub-frames, every supplied
   frame has them too and each of them holds at least as many channels as the first sub-frame of the first supplied frame *)
Definition uniform_chancol (nsf : nat) (w : N) (olds news : list frame) : Prop :=
  (forall o, In o olds -> (nsf <= length (fr_subs o))%nat) /\
  (forall n, In n news -> (nsf <= length (fr_subs n))%nat /\ forall j sf, (j < nsf)%nat -> nth_error (fr_subs n) j = Some sf -> w <= nlen sf).

Lemma validate_chan_cols_uniform : forall k idx labels news olds nsf n0 sf0,
  nth_error news 0 = Some n0 -> nth_error (fr_subs n0) 0 = Some sf0 -> (length olds <= length news)%nat ->
  uniform_chancol nsf (N.of_nat (N.to_nat idx + k)) olds news -> N.of_nat (N.to_nat idx + k) <= nlen sf0 ->
  validate_chan_cols k idx labels news olds nsf =
    if existsb (known_chan labels) (firstn k (skipn (N.to_nat idx) sf0)) then Throw InvalidArgument else Ok tt.
Proof.
  induction k as [|k IH]; intros idx labels news olds nsf n0 sf0 H0 Hs0 Hl [Uo Un] Hw; cbn [validate_chan_cols]; [reflexivity|].
  assert (L0 : 0 < nlen news) by (destruct news; [discriminate|unfold nlen; cbn; lia]).
  unfold idx_ at 1. apply N.ltb_lt in L0. rewrite L0. cbn [N.to_nat]. rewrite H0. cbn [obind].
  assert (A0 : at_ (fr_subs n0) 0 = Ok sf0).
  { apply at_ok. split; [destruct (fr_subs n0); [discriminate|unfold nlen; cbn; lia]|exact Hs0]. }
  rewrite A0. cbn [obind].
  assert (Li : idx < nlen sf0) by lia.
  destruct (at_in _ sf0 idx Li) as [c Ec]. rewrite Ec. cbn [obind].
  rewrite (at_skipn _ _ _ _ Ec). cbn [firstn existsb].
  change (known_chan labels c) with (existsb (fun l => bstr_eqb (ch_name c) l) labels).
  destruct (existsb (fun l => bstr_eqb (ch_name c) l) labels); cbn [orb]; [reflexivity|].
  rewrite all_have_chan_ok; cbn [N.to_nat Nat.add obind].
  - rewrite (IH (idx + 1) labels news olds nsf n0 sf0 H0 Hs0 Hl).
    + replace (N.to_nat (idx + 1)) with (N.to_nat idx + 1)%nat by lia. reflexivity.
    + split; [exact Uo|]. intros n Hn. destruct (Un n Hn) as [A B]. split; [exact A|]. intros j sf Hj Hs. specialize (B j sf Hj Hs). lia.
    + lia.
  - exact Hl.
  - exact Uo.
  - intros n Hn. destruct (Un n Hn) as [A B]. split; [exact A|]. intros j sf Hj Hs. specialize (B j sf Hj Hs). lia.
Qed.

(* ---------- the mutation pass is total on what the validation pass accepted ---------- *)
Lemma add_chan_subs_total : forall nsf k idx nsubs osubs,
  (N.to_nat k + nsf <= length osubs)%nat -> (N.to_nat k + nsf <= length nsubs)%nat ->
  (forall j sf, (j < N.to_nat k + nsf)%nat -> nth_error nsubs j = Some sf -> idx < nlen sf) ->
  snd (add_chan_subs nsf k idx nsubs osubs) = None /\ length (fst (add_chan_subs nsf k idx nsubs osubs)) = length osubs.
Proof.
  intros nsf. induction nsf as [|m IH]; intros k idx nsubs osubs Ho Hn Hw; cbn [add_chan_subs]; [auto|].
  assert (Lo : k < nlen osubs) by (unfold nlen; lia). assert (Ln : k < nlen nsubs) by (unfold nlen; lia).
  destruct (at_in subframe osubs k Lo) as [osf Eo]. rewrite Eo.
  destruct (at_in subframe nsubs k Ln) as [sf Es]. rewrite Es.
  apply at_ok in Es. destruct Es as [_ Es].
  assert (Li : idx < nlen sf) by (apply (Hw (N.to_nat k) sf); [lia|exact Es]).
  destruct (at_in channel sf idx Li) as [c Ec]. rewrite Ec.
  destruct (IH (k + 1) idx nsubs (replace_nth (N.to_nat k) (add_chan_to_sub osf c) osubs)) as [A B].
  - rewrite replace_nth_length. lia.
  - lia.
  - intros j sf' Hj Hs. apply (Hw j sf'); [lia|exact Hs].
  - split; [exact A|]. rewrite B. apply replace_nth_length.
Qed.

Lemma add_chan_col_total : forall nsf idx news olds, (length olds <= length news)%nat ->
  (forall o, In o olds -> (nsf <= length (fr_subs o))%nat) ->
  (forall n, In n news -> (nsf <= length (fr_subs n))%nat /\ forall j sf, (j < nsf)%nat -> nth_error (fr_subs n) j = Some sf -> idx < nlen sf) ->
  snd (add_chan_col_partial nsf idx news olds) = None /\
  length (fst (add_chan_col_partial nsf idx news olds)) = length olds /\
  (forall o', In o' (fst (add_chan_col_partial nsf idx news olds)) -> (nsf <= length (fr_subs o'))%nat).
Proof.
  intros nsf idx news olds. revert news. induction olds as [|o ot IH]; intros news L Ho Hn.
  - destruct news; cbn; repeat split; auto; intros o' [].
  - destruct news as [|n nt]; [cbn in L; lia|]. cbn [add_chan_col_partial].
    destruct (Hn n (or_introl eq_refl)) as [Ln Hw].
    destruct (add_chan_subs_total nsf 0 idx (fr_subs n) (fr_subs o)) as [A B]; cbn [N.to_nat Nat.add]; try assumption.
    { apply Ho. left. reflexivity. }
    destruct (add_chan_subs nsf 0 idx (fr_subs n) (fr_subs o)) as [subs e]. cbn [fst snd] in A, B. subst e.
    destruct (IH nt) as [A2 [B2 C2]]; [cbn in L; lia|intros o' Ho'; apply Ho; right; exact Ho'|intros n' Hn'; apply Hn; right; exact Hn'|].
    destruct (add_chan_col_partial nsf idx nt ot) as [rest e]. cbn [fst snd] in *. subst e.
    split; [reflexivity|]. split; [cbn [length]; rewrite B2; reflexivity|].
    intros o' [<-|Ho']; [cbn [fr_subs]; rewrite B; apply Ho; left; reflexivity|apply C2; exact Ho'].
Qed.

Lemma chan_cols_total : forall k idx news s,
  (length (frames s) <= length news)%nat ->
  uniform_chancol (N.to_nat (h_byframe (hdr s))) (idx + N.of_nat k) (frames s) news ->
  exists s', chan_cols k idx news s = ROk tt s' /\ groups s' = groups s /\ hdr s' = hdr s /\ pro s' = pro s /\
             length (frames s') = length (frames s).
Proof.
  induction k as [|k IH]; intros idx news s L [Uo Un]; cbn [chan_cols].
  - exists s. cbv [ret]. auto.
  - unfold bind at 1. cbv [getS].
    destruct (add_chan_col_total (N.to_nat (h_byframe (hdr s))) idx news (frames s) L Uo) as [A [B C]].
    { intros n Hn. destruct (Un n Hn) as [X Y]. split; [exact X|]. intros j sf Hj Hs. specialize (Y j sf Hj Hs). lia. }
    destruct (add_chan_col_partial (N.to_nat (h_byframe (hdr s))) idx news (frames s)) as [fs e]. cbn [fst snd] in A, B, C. subst e.
    unfold bind at 1. cbv [putS]. unfold bind at 1. cbv [ret].
    destruct (IH (idx + 1) news (set_frames s fs)) as [s' [E [G [Hh [P Len]]]]].
    + cbn [frames set_frames]. rewrite B. exact L.
    + cbn [frames set_frames hdr]. split; [exact C|].
      intros n Hn. destruct (Un n Hn) as [X Y]. split; [exact X|]. intros j sf Hj Hs. specialize (Y j sf Hj Hs). lia.
    + exists s'. split; [exact E|]. cbn [groups hdr pro frames set_frames] in *. rewrite Len, B. auto.
Qed.

(* ---------- the documented guards (C07) ---------- *)
Definition doc_chancol (nframes byframe : N) (labels : list bstr) (news : list frame) : option exn :=
  if (nlen news =? 0) || negb (nlen news =? nframes) then Some InvalidArgument
  else match news with
       | n0 :: _ =>
           if negb (nlen (fr_subs n0) =? byframe) then Some InvalidArgument
           else match fr_subs n0 with
                | [] => Some OutOfRange      (* no sub-frame to take the new channels from *)
                | sf0 :: _ => if nlen sf0 =? 0 then Some InvalidArgument
                              else if existsb (known_chan labels) sf0 then Some InvalidArgument else None
                end
       | [] => Some InvalidArgument
       end.

Section WithOps.
Variable f_key : f32 -> outcome Z.
Variable f_tosize : f32 -> outcome N.
Variable f_div : f32 -> f32 -> f32.
Hypothesis f_key_nt : forall x e, f_key x <> Throw e.
Hypothesis f_tosize_nt : forall x e, f_tosize x <> Throw e.

Definition chancols_and_update (news : list frame) (k : nat) : Mst unit :=
  bind (chan_cols k 0 news) (fun _ => update_parameters f_key f_tosize f_div [] []).

Definition width0 (news : list frame) : N :=
  match news with n0 :: _ => match fr_subs n0 with sf0 :: _ => nlen sf0 | [] => 0 end | [] => 0 end.

(* analog(frames): refused exactly as documented, and a refusal returns the object as it was *)
Lemma api_analog_col_doc : forall news s labels,
  r_strs (groups s) nm_ANALOG nm_LABELS = Ok labels ->
  uniform_chancol (N.to_nat (h_byframe (hdr s))) (width0 news) (frames s) news ->
  api_analog_col f_key f_tosize f_div news s =
    match doc_chancol (nlen (frames s)) (h_byframe (hdr s)) labels news with
    | Some x => RThrow x s
    | None => chancols_and_update news (N.to_nat (width0 news)) s
    end.
Proof.
  intros news s labels Hl U. unfold api_analog_col, doc_chancol, chancols_and_update.
  unfold bind at 1. cbv [getS]. unfold bind at 1.
  destruct ((nlen news =? 0) || negb (nlen news =? nlen (frames s))) eqn:C; cbn [throw ret]; [reflexivity|].
  apply Bool.orb_false_iff in C. destruct C as [C0 C1]. apply Bool.negb_false_iff in C1. apply N.eqb_eq in C1.
  destruct news as [|n0 nt]; [cbn in C0; discriminate|].
  unfold bind at 1. unfold idx_ at 1.
  assert (L0 : 0 <? nlen (n0 :: nt) = true) by (apply N.ltb_lt; unfold nlen; cbn [length]; lia).
  rewrite L0. cbn [N.to_nat nth_error lift].
  unfold bind at 1. destruct (negb (nlen (fr_subs n0) =? h_byframe (hdr s))) eqn:B; cbn [throw ret]; [reflexivity|].
  unfold bind at 1. destruct (fr_subs n0) as [|sf0 st0] eqn:Es.
  - unfold at_. cbn. reflexivity.
  - rewrite at0_cons. cbn [lift].
    unfold bind at 1. destruct (nlen sf0 =? 0) eqn:Z; cbn [throw ret]; [reflexivity|].
    unfold bind at 1. rewrite strs_of_pure, Hl. cbn [lift].
    unfold bind at 1.
    assert (W : width0 (n0 :: nt) = nlen sf0) by (unfold width0; rewrite Es; reflexivity). rewrite W in *.
    assert (V1 : nth_error (fr_subs n0) 0 = Some sf0) by (rewrite Es; reflexivity).
    assert (V2 : (length (frames s) <= length (n0 :: nt))%nat) by (unfold nlen in C1; apply Nat2N.inj in C1; rewrite <- C1; lia).
    assert (V3 : uniform_chancol (N.to_nat (h_byframe (hdr s))) (N.of_nat (N.to_nat 0 + length sf0)) (frames s) (n0 :: nt)) by (cbn [N.to_nat Nat.add]; exact U).
    assert (V4 : N.of_nat (N.to_nat 0 + length sf0) <= nlen sf0) by (cbn [N.to_nat Nat.add]; unfold nlen; lia).
    rewrite (validate_chan_cols_uniform (length sf0) 0 labels (n0 :: nt) (frames s) _ n0 sf0 eq_refl V1 V2 V3 V4).
    cbn [N.to_nat skipn]. rewrite firstn_all. unfold nlen. rewrite Nat2N.id.
    destruct (existsb (known_chan labels) sf0); cbn [lift]; reflexivity.
Qed.

(* C10 for analog(frames): any throw leaves the object as it was (uniform shapes, well-typed mandatory parameters) *)
Theorem api_analog_col_throw_unchanged : forall news s e s',
  MT (groups s) ->
  uniform_chancol (N.to_nat (h_byframe (hdr s))) (width0 news) (frames s) news ->
  (forall k s1, chan_cols k 0 news s = ROk tt s1 -> small_frames (frames s1)) ->
  api_analog_col f_key f_tosize f_div news s = RThrow e s' -> s' = s.
Proof.
  intros news s e s' M U Sm H.
  destruct (MT_lookup _ nm_ANALOG nm_LABELS KStrs M) as [pL [LL KL]]; [in_mand|].
  assert (RL : exists labels, r_strs (groups s) nm_ANALOG nm_LABELS = Ok labels).
  { unfold r_strs. rewrite LL. cbn [obind]. unfold kind_ok, type_ok in KL. apply andb_prop in KL. destruct KL as [T _].
    unfold values_as_string. destruct (p_type pL); try discriminate. eauto. }
  destruct RL as [labels RL].
  rewrite (api_analog_col_doc news s labels RL U) in H.
  destruct (doc_chancol (nlen (frames s)) (h_byframe (hdr s)) labels news) as [x|] eqn:D; [injection H as _ <-; reflexivity|].
  exfalso. unfold doc_chancol in D.
  destruct ((nlen news =? 0) || negb (nlen news =? nlen (frames s))) eqn:C; [discriminate|].
  apply Bool.orb_false_iff in C. destruct C as [C0 C1]. apply Bool.negb_false_iff in C1. apply N.eqb_eq in C1. apply N.eqb_neq in C0.
  unfold chancols_and_update in H.
  destruct (chan_cols_total (N.to_nat (width0 news)) 0 news s) as [s1 [E [G [Hh [P Len]]]]].
  - unfold nlen in C1. lia.
  - rewrite N.add_0_l, N2Nat.id. exact U.
  - unfold bind in H. rewrite E in H. specialize (Sm _ s1 E).
    assert (Ne : frames s1 <> []) by (intros Z; rewrite Z in Len; unfold nlen in *; cbn [length] in *; lia).
    assert (B : npts0 s1 [] < 2147483648 /\ nan0 s1 [] < 2147483648).
    { destruct Sm as [_ Sm]. unfold npts0, nan0. destruct (frames s1) as [|f0 t]; [contradiction|exact Sm]. }
    assert (M1 : MT (groups s1)) by (rewrite G; exact M).
    pose proof (update_parameters_total f_key f_tosize f_div f_key_nt f_tosize_nt [] [] s1 M1 (or_intror (conj eq_refl eq_refl)) (proj1 Sm) (proj1 B) (proj2 B) s1 eq_refl) as T.
    rewrite H in T. exact T.
Qed.
End WithOps.

(* ---------- what the call stores (C06) ---------- *)
(* the first nsf sub-frames gain the channels idx .. idx+k-1 of the corresponding supplied sub-frames; the rest is untouched *)
Fixpoint appk (nsf : nat) (idx k : nat) (osubs nsubs : list subframe) : list subframe :=
  match nsf, osubs, nsubs with
  | S m, o :: ot, n :: nt => (o ++ firstn k (skipn idx n)) :: appk m idx k ot nt
  | _, _, _ => osubs
  end.

Lemma firstn_succ_snoc : forall A (l : list A) k x, nth_error l k = Some x -> firstn (S k) l = firstn k l ++ [x].
Proof.
  intros A l. induction l as [|a l IH]; intros [|k] x H; cbn in *; try discriminate.
  - injection H as <-. reflexivity.
  - f_equal. apply IH. exact H.
Qed.

Lemma add_chan_subs_spec : forall nsf k idx nsubs osubs,
  (N.to_nat k + nsf <= length osubs)%nat -> (N.to_nat k + nsf <= length nsubs)%nat ->
  (forall j sf, (j < N.to_nat k + nsf)%nat -> nth_error nsubs j = Some sf -> idx < nlen sf) ->
  fst (add_chan_subs nsf k idx nsubs osubs) =
    firstn (N.to_nat k) osubs ++ appk nsf (N.to_nat idx) 1 (skipn (N.to_nat k) osubs) (skipn (N.to_nat k) nsubs).
Proof.
  intros nsf. induction nsf as [|m IH]; intros k idx nsubs osubs Ho Hn Hw; cbn [add_chan_subs].
  - cbn [fst appk]. symmetry. apply firstn_skipn.
  - assert (Lo : k < nlen osubs) by (unfold nlen; lia). assert (Ln : k < nlen nsubs) by (unfold nlen; lia).
    destruct (at_in subframe osubs k Lo) as [osf Eo]. rewrite Eo.
    destruct (at_in subframe nsubs k Ln) as [sf Es]. rewrite Es.
    pose proof (at_skipn _ _ _ _ Eo) as So. pose proof (at_skipn _ _ _ _ Es) as Sn.
    apply at_ok in Es. destruct Es as [_ Es]. apply at_ok in Eo. destruct Eo as [_ Eo].
    assert (Li : idx < nlen sf) by (apply (Hw (N.to_nat k) sf); [lia|exact Es]).
    destruct (at_in channel sf idx Li) as [c Ec]. rewrite Ec.
    rewrite IH; [|rewrite replace_nth_length; lia|lia|intros j sf' Hj Hs; apply (Hw j sf'); [lia|exact Hs]].
    replace (N.to_nat (k + 1)) with (S (N.to_nat k)) by lia.
    match goal with |- context [appk (S m) _ 1 ?a ?b] =>
      replace a with (osf :: skipn (N.to_nat k + 1) osubs) by (symmetry; exact So);
      replace b with (sf :: skipn (N.to_nat k + 1) nsubs) by (symmetry; exact Sn) end.
    cbn [appk].
    rewrite (at_skipn _ _ _ _ Ec). change (firstn 1 (c :: skipn (N.to_nat idx + 1) sf)) with [c].
    assert (Lk : (N.to_nat k < length osubs)%nat) by lia.
    rewrite (replace_nth_firstn_skipn _ osubs (N.to_nat k) (add_chan_to_sub osf c) Lk).
    replace (N.to_nat k + 1)%nat with (S (N.to_nat k)) by lia.
    assert (L1 : length (firstn (N.to_nat k) osubs ++ [add_chan_to_sub osf c]) = S (N.to_nat k)).
    { rewrite app_length, firstn_length. cbn [length]. lia. }
    rewrite app_assoc.
    rewrite (firstn_app_len _ _ _ _ L1), (skipn_app_len _ _ _ _ L1).
    rewrite <- app_assoc. reflexivity.
Qed.

Definition add_chs_frame (nsf idx k : nat) (o n : frame) : frame :=
  mkFrame (fr_pts o) (appk nsf idx k (fr_subs o) (fr_subs n)).

Lemma appk_0 : forall nsf idx os ns, appk nsf idx 0 os ns = os.
Proof.
  intros nsf. induction nsf as [|m IH]; intros idx os ns; cbn [appk]; [reflexivity|].
  destruct os as [|o ot]; [reflexivity|]. destruct ns as [|n nt]; [reflexivity|].
  cbn [firstn]. rewrite app_nil_r, IH. reflexivity.
Qed.
Lemma appk_length : forall nsf idx k os ns, length (appk nsf idx k os ns) = length os.
Proof.
  intros nsf. induction nsf as [|m IH]; intros idx k os ns; cbn [appk]; [reflexivity|].
  destruct os as [|o ot]; [reflexivity|]. destruct ns as [|n nt]; [reflexivity|]. cbn [length]. rewrite IH. reflexivity.
Qed.
Lemma skipn_cons_nth : forall A (l : list A) i, (i < length l)%nat -> exists x, skipn i l = x :: skipn (i + 1) l.
Proof.
  intros A l. induction l as [|a l IH]; intros [|i] H; cbn in *; try lia; [eexists; reflexivity|]. apply IH. lia.
Qed.
Lemma appk_compose : forall nsf idx k os ns, (nsf <= length ns)%nat ->
  (forall j sf, (j < nsf)%nat -> nth_error ns j = Some sf -> (idx < length sf)%nat) ->
  appk nsf (idx + 1) k (appk nsf idx 1 os ns) ns = appk nsf idx (S k) os ns.
Proof.
  intros nsf. induction nsf as [|m IH]; intros idx k os ns Ln Hw; cbn [appk]; [reflexivity|].
  destruct os as [|o ot]; [reflexivity|]. destruct ns as [|n nt]; [cbn in Ln; lia|]. cbn [appk]. f_equal.
  - assert (Li : (idx < length n)%nat) by (apply (Hw 0%nat n); [lia|reflexivity]).
    destruct (skipn_cons_nth _ n idx Li) as [x Ex]. rewrite Ex. cbn [firstn]. rewrite <- app_assoc. reflexivity.
  - apply IH; [cbn in Ln; lia|]. intros j sf Hj Hs. apply (Hw (S j) sf); [lia|exact Hs].
Qed.

Lemma zipw_id : forall nsf idx olds news, (length olds <= length news)%nat -> zipw (add_chs_frame nsf idx 0) olds news = olds.
Proof.
  intros nsf idx olds. induction olds as [|o ot IH]; intros news L; [reflexivity|].
  destruct news as [|n nt]; [cbn in L; lia|]. cbn [zipw]. f_equal; [|apply IH; cbn in L; lia].
  unfold add_chs_frame. rewrite appk_0. destruct o; reflexivity.
Qed.

Lemma add_chan_col_spec : forall nsf idx news olds, (length olds <= length news)%nat ->
  (forall o, In o olds -> (nsf <= length (fr_subs o))%nat) ->
  (forall n, In n news -> (nsf <= length (fr_subs n))%nat /\ forall j sf, (j < nsf)%nat -> nth_error (fr_subs n) j = Some sf -> idx < nlen sf) ->
  fst (add_chan_col_partial nsf idx news olds) = zipw (add_chs_frame nsf (N.to_nat idx) 1) olds news.
Proof.
  intros nsf idx news olds. revert news. induction olds as [|o ot IH]; intros news L Ho Hn.
  - destruct news; reflexivity.
  - destruct news as [|n nt]; [cbn in L; lia|]. cbn [add_chan_col_partial zipw].
    destruct (Hn n (or_introl eq_refl)) as [Ln Hw].
    assert (Lo : (nsf <= length (fr_subs o))%nat) by (apply Ho; left; reflexivity).
    pose proof (add_chan_subs_spec nsf 0 idx (fr_subs n) (fr_subs o) Lo Ln Hw) as Sp. cbn [N.to_nat firstn skipn app] in Sp.
    destruct (add_chan_subs_total nsf 0 idx (fr_subs n) (fr_subs o) Lo Ln Hw) as [A _].
    destruct (add_chan_subs nsf 0 idx (fr_subs n) (fr_subs o)) as [subs e]. cbn [fst snd] in *. subst e subs.
    pose proof (IH nt) as IH'.
    destruct (add_chan_col_total nsf idx nt ot) as [A2 _]; [cbn in L; lia|intros o' Ho'; apply Ho; right; exact Ho'|intros n' Hn'; apply Hn; right; exact Hn'|].
    rewrite <- IH'; [|cbn in L; lia|intros o' Ho'; apply Ho; right; exact Ho'|intros n' Hn'; apply Hn; right; exact Hn'].
    destruct (add_chan_col_partial nsf idx nt ot) as [rest e]. cbn [fst snd] in *. subst e. reflexivity.
Qed.

Lemma zipw_chs_compose : forall nsf idx k olds news, (length olds <= length news)%nat ->
  (forall n, In n news -> (nsf <= length (fr_subs n))%nat /\ forall j sf, (j < nsf)%nat -> nth_error (fr_subs n) j = Some sf -> (idx < length sf)%nat) ->
  zipw (add_chs_frame nsf (idx + 1) k) (zipw (add_chs_frame nsf idx 1) olds news) news = zipw (add_chs_frame nsf idx (S k)) olds news.
Proof.
  intros nsf idx k olds. induction olds as [|o ot IH]; intros news L Hn; [reflexivity|].
  destruct news as [|n nt]; [cbn in L; lia|]. cbn [zipw]. f_equal.
  - unfold add_chs_frame. cbn [fr_pts fr_subs]. destruct (Hn n (or_introl eq_refl)) as [Ln Hw]. rewrite appk_compose by assumption. reflexivity.
  - apply IH; [cbn in L; lia|intros n' Hn'; apply Hn; right; exact Hn'].
Qed.

(* THE STORE after k new channel columns: every frame keeps its points, each of its first nsf sub-frames gains exactly the
   channels idx .. idx+k-1 of the corresponding supplied sub-frame, in order; nothing else changes *)
Theorem chan_cols_spec : forall k idx news s,
  (length (frames s) <= length news)%nat ->
  uniform_chancol (N.to_nat (h_byframe (hdr s))) (idx + N.of_nat k) (frames s) news ->
  exists s', chan_cols k idx news s = ROk tt s' /\ groups s' = groups s /\ hdr s' = hdr s /\ pro s' = pro s /\
             frames s' = zipw (add_chs_frame (N.to_nat (h_byframe (hdr s))) (N.to_nat idx) k) (frames s) news.
Proof.
  induction k as [|k IH]; intros idx news s L [Uo Un]; cbn [chan_cols].
  - exists s. cbv [ret]. rewrite zipw_id by exact L. auto.
  - unfold bind at 1. cbv [getS].
    set (nsf := N.to_nat (h_byframe (hdr s))) in *.
    assert (Un1 : forall n, In n news -> (nsf <= length (fr_subs n))%nat /\ forall j sf, (j < nsf)%nat -> nth_error (fr_subs n) j = Some sf -> idx < nlen sf).
    { intros n Hn. destruct (Un n Hn) as [X Y]. split; [exact X|]. intros j sf Hj Hs. specialize (Y j sf Hj Hs). lia. }
    destruct (add_chan_col_total nsf idx news (frames s) L Uo Un1) as [A [B C]].
    pose proof (add_chan_col_spec nsf idx news (frames s) L Uo Un1) as Sp.
    destruct (add_chan_col_partial nsf idx news (frames s)) as [fs e]. cbn [fst snd] in A, B, C, Sp. subst e.
    unfold bind at 1. cbv [putS]. unfold bind at 1. cbv [ret].
    destruct (IH (idx + 1) news (set_frames s fs)) as [s' [E [G [Hh [P Fr]]]]].
    + cbn [frames set_frames]. rewrite B. exact L.
    + cbn [frames set_frames hdr]. fold nsf. split; [exact C|].
      intros n Hn. destruct (Un n Hn) as [X Y]. split; [exact X|]. intros j sf Hj Hs. specialize (Y j sf Hj Hs). lia.
    + exists s'. split; [exact E|]. cbn [groups hdr pro frames set_frames] in *. fold nsf in Fr.
      split; [exact G|]. split; [exact Hh|]. split; [exact P|].
      rewrite Fr, Sp. replace (N.to_nat (idx + 1)) with (N.to_nat idx + 1)%nat by lia.
      apply zipw_chs_compose; [exact L|].
      intros n Hn. destruct (Un n Hn) as [X Y]. split; [exact X|]. intros j sf Hj Hs. specialize (Y j sf Hj Hs). unfold nlen in Y. lia.
Qed.

Section WithOps2.
Variable f_key : f32 -> outcome Z.
Variable f_tosize : f32 -> outcome N.
Variable f_div : f32 -> f32 -> f32.

(* C06 for analog(frames): when accepted, every frame gains exactly the supplied channel columns *)
Theorem api_analog_col_store : forall news s s' labels,
  r_strs (groups s) nm_ANALOG nm_LABELS = Ok labels ->
  uniform_chancol (N.to_nat (h_byframe (hdr s))) (width0 news) (frames s) news ->
  api_analog_col f_key f_tosize f_div news s = ROk tt s' ->
  frames s' = zipw (add_chs_frame (N.to_nat (h_byframe (hdr s))) 0 (N.to_nat (width0 news))) (frames s) news.
Proof.
  intros news s s' labels Hl U H. rewrite (api_analog_col_doc f_key f_tosize f_div news s labels Hl U) in H.
  destruct (doc_chancol (nlen (frames s)) (h_byframe (hdr s)) labels news) as [x|] eqn:D; [discriminate|].
  unfold doc_chancol in D. destruct ((nlen news =? 0) || negb (nlen news =? nlen (frames s))) eqn:C; [discriminate|].
  apply Bool.orb_false_iff in C. destruct C as [_ C1]. apply Bool.negb_false_iff in C1. apply N.eqb_eq in C1.
  assert (L : (length (frames s) <= length news)%nat) by (unfold nlen in C1; lia).
  unfold chancols_and_update in H.
  destruct (chan_cols_spec (N.to_nat (width0 news)) 0 news s L) as [s1 [E [G [Hh [P Fr]]]]].
  { rewrite N.add_0_l, N2Nat.id. exact U. }
  unfold bind in H. rewrite E in H.
  pose proof (keeps_update_parameters f_key f_tosize f_div [] [] s1) as K. rewrite H in K. destruct K as [K _].
  rewrite K, Fr. reflexivity.
Qed.
End WithOps2.
