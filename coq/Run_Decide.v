(* Run_Decide.v — the decision predicates of Proofs_Decide.v on the executable instance of the float operations *)
From EZ Require Import Base Types Float32 Run Proofs_Decide.
Definition ls_ok_x (s : state) : bool := ls_ok_b f_key_impl f_tosize_impl f_div_impl s.
Definition ls4_ok_x (s : state) : bool := ls4_ok_b f_key_impl f_tosize_impl f_div_impl s.
Definition ls_flags_x (s : state) : list bool := ls_flags f_key_impl f_tosize_impl f_div_impl s.
From EZ Require Import Proofs_LayoutCert Proofs_PointsOnly.
Definition cert_ok_x (file : list N) : bool := cert_ok_b f_key_impl f_tosize_impl f_div_impl file.
Definition cert_flags_x (file : list N) : list bool := cert_flags f_key_impl f_tosize_impl f_div_impl file.
(* the same for objects without channels whose frames hold another number of (empty) sub-frames than the header announces *)
Definition lsn_ok_x (s : state) : bool := lsn_ok_b f_key_impl f_tosize_impl f_div_impl s.
Definition ls4n_ok_x (s : state) : bool := ls4n_ok_b f_key_impl f_tosize_impl f_div_impl s.
Definition lsn_flags_x (s : state) : list bool := ls_flags f_key_impl f_tosize_impl f_div_impl (normalised s).
