(* Proofs_Bytes4.v — the 32-bit case of the byte assembly: hex2int on the four bytes of any 32-bit signed value returns
   the value (bitwise-or of byte-aligned parts is their sum), used for the header scale word. *)
From Coq Require Import Lia ZArith List.
From EZ Require Import Base Bytes Proofs_Bytes.
Local Open Scope Z_scope.

Lemma land_disjoint : forall a b k, 0 <= k -> 0 <= b < 2 ^ k -> Z.land (a * 2 ^ k) b = 0.
Proof.
  intros a b k Hk Hb. apply Z.bits_inj'. intros n Hn. rewrite Z.land_spec, Z.bits_0.
  destruct (Z.lt_ge_cases n k) as [L|G].
  - rewrite Z.mul_pow2_bits_low by lia. reflexivity.
  - destruct (Z.eq_dec b 0) as [->|Nb]; [rewrite Z.bits_0; apply Bool.andb_false_r|].
    rewrite (Z.bits_above_log2 b n); [apply Bool.andb_false_r|lia|].
    apply Z.lt_le_trans with k; [|exact G]. apply Z.log2_lt_pow2; lia.
Qed.
Lemma lor_add : forall a b k, 0 <= k -> 0 <= b < 2 ^ k -> Z.lor (a * 2 ^ k) b = a * 2 ^ k + b.
Proof.
  intros a b k Hk Hb. pose proof (land_disjoint a b k Hk Hb) as L.
  rewrite <- Z.lxor_lor by exact L. symmetry. apply Z.add_nocarry_lxor. exact L.
Qed.

Ltac Zify.zify_post_hook ::= Z.div_mod_to_equations.
Lemma wrap32s_small : forall z, 0 <= z < 2147483648 -> wrap32s z = z.
Proof. intros z H. unfold wrap32s. rewrite Z.mod_small by lia. destruct (z <? 2147483648) eqn:E; [reflexivity|apply Z.ltb_ge in E; lia]. Qed.
Lemma wrap32s_hi : forall b, 0 <= b < 256 -> exists c, wrap32s (b * 16777216) = c * 2 ^ 24 /\ (c = b \/ c = b - 256) /\ (b < 128 -> c = b) /\ (128 <= b -> c = b - 256).
Proof.
  intros b H. unfold wrap32s. rewrite Z.mod_small by lia. destruct (b * 16777216 <? 2147483648) eqn:E.
  - apply Z.ltb_lt in E. exists b. repeat split; try lia.
  - apply Z.ltb_ge in E. exists (b - 256). repeat split; try lia.
Qed.

Lemma hex2uint_4 : forall b0 b1 b2 b3 : N, (b0 < 256)%N -> (b1 < 256)%N -> (b2 < 256)%N -> (b3 < 256)%N ->
  hex2uint [b0; b1; b2; b3] = Z.of_N b0 + 256 * Z.of_N b1 + 65536 * Z.of_N b2 + 16777216 * Z.of_N b3.
Proof.
  intros b0 b1 b2 b3 H0 H1 H2 H3. unfold hex2uint. cbn [hex2uint_go pow256_int].
  set (z0 := Z.of_N b0). set (z1 := Z.of_N b1). set (z2 := Z.of_N b2). set (z3 := Z.of_N b3).
  assert (R0 : 0 <= z0 < 256) by (unfold z0; lia). assert (R1 : 0 <= z1 < 256) by (unfold z1; lia).
  assert (R2 : 0 <= z2 < 256) by (unfold z2; lia). assert (R3 : 0 <= z3 < 256) by (unfold z3; lia).
  rewrite Z.mul_1_r. rewrite (wrap32s_small z0) by lia. rewrite (wrap32s_small (z1 * 256)) by lia. rewrite (wrap32s_small (z2 * 65536)) by lia.
  rewrite Z.lor_0_l.
  rewrite (Z.lor_comm z0 (z1 * 256)). change 256 with (2 ^ 8) at 1. rewrite (lor_add z1 z0 8) by lia.
  rewrite (Z.lor_comm _ (z2 * 65536)). change 65536 with (2 ^ 16) at 1. rewrite (lor_add z2 (z1 * 2 ^ 8 + z0) 16) by lia.
  destruct (wrap32s_hi z3 R3) as [c [Ec [Cc [Cl Ch]]]]. rewrite Ec.
  rewrite (Z.lor_comm _ (c * 2 ^ 24)). rewrite (lor_add c (z2 * 2 ^ 16 + (z1 * 2 ^ 8 + z0)) 24) by lia.
  destruct Cc as [->| ->]; [rewrite Z.mod_small by lia; lia|].
  replace ((z3 - 256) * 2 ^ 24 + (z2 * 2 ^ 16 + (z1 * 2 ^ 8 + z0))) with ((z3 * 2 ^ 24 + (z2 * 2 ^ 16 + (z1 * 2 ^ 8 + z0))) + (-1) * 4294967296) by lia.
  rewrite Z.mod_add by lia. rewrite Z.mod_small by lia. lia.
Qed.

Lemma hex2int_le4 : forall v, -2147483648 <= v < 2147483648 -> hex2int (le_bytes 4 v) = v.
Proof.
  intros v Hv. cbn [le_bytes].
  set (b0 := Z.to_N (v mod 256)). set (b1 := Z.to_N (v / 256 mod 256)). set (b2 := Z.to_N (v / 256 / 256 mod 256)). set (b3 := Z.to_N (v / 256 / 256 / 256 mod 256)).
  assert (H0 : (b0 < 256)%N) by (unfold b0; lia). assert (H1 : (b1 < 256)%N) by (unfold b1; lia).
  assert (H2 : (b2 < 256)%N) by (unfold b2; lia). assert (H3 : (b3 < 256)%N) by (unfold b3; lia).
  unfold hex2int. rewrite (hex2uint_4 b0 b1 b2 b3 H0 H1 H2 H3). cbn [length hex_max].
  assert (U : Z.of_N b0 + 256 * Z.of_N b1 + 65536 * Z.of_N b2 + 16777216 * Z.of_N b3 = v mod 4294967296).
  { unfold b0, b1, b2, b3. rewrite !Z2N.id by lia. lia. }
  rewrite U. clear U. set (u := v mod 4294967296). assert (Ru : 0 <= u < 4294967296) by (unfold u; lia).
  destruct (4294967295 / 2 <? u) eqn:E.
  - apply Z.ltb_lt in E. replace ((u - 4294967295 - 1) mod 4294967296) with u by lia.
    unfold wrap32s. rewrite Z.mod_small by lia. destruct (u <? 2147483648) eqn:E2; [apply Z.ltb_lt in E2; lia|]. unfold u. lia.
  - apply Z.ltb_ge in E. rewrite wrap32s_small by lia. unfold u. lia.
Qed.
