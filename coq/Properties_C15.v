(* Properties_C15.v — C15: a save that did not reach the disk is reported.
   save_io is the behaviour of c3d::write against a destination that may be unopenable or refuse
   bytes beyond a size limit; write() inspects the stream once, after close().
   Runtime part the model cannot exhibit: WHEN the stream buffer issues the failing write(2) (the C15
   check injects the fault at every byte offset on the real library and compares the verdicts). *)
From EZ Require Import Base Types Api Enc IO Proofs_IO Float32 Run.
Local Open Scope N_scope.

Theorem C15_normal_return_means_complete : forall bytes open_ok limit disk,
  save_io bytes open_ok limit = Normal disk -> disk = bytes /\ open_ok = true /\ (forall k, limit = Some k -> nlen bytes <= k).
Proof. exact save_io_normal_complete. Qed.
Print Assumptions C15_normal_return_means_complete.

Theorem C15_every_fault_reported : forall bytes open_ok limit,
  (open_ok = false \/ exists k, limit = Some k /\ k < nlen bytes) ->
  exists disk, save_io bytes open_ok limit = IoFailure disk /\ nlen disk < nlen bytes + 1.
Proof. exact save_io_fault_reported. Qed.
Print Assumptions C15_every_fault_reported.

Example C15_nonvacuous : exists bytes, save_x init = Ok bytes /\
  save_io bytes true (Some 1023) = IoFailure (firstn 1023 bytes) /\ save_io bytes true (Some 1024) = Normal bytes /\
  save_io bytes false None = IoFailure [].
Proof. eexists. split; [vm_compute; reflexivity|]. repeat split; vm_compute; reflexivity. Qed.
Print Assumptions C15_nonvacuous.
