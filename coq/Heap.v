(* Heap.v — caller-side frames as the C++ has them: a Frame is two shared handles (points object,
   analogs object); copying a Frame copies the handles.  Used to run histories in which the caller
   reuses, copies and mutates its own frames around calls into the object (C08). *)
From EZ Require Import Base Types Api.
Local Open Scope N_scope.

Record cframe := mkCF { cf_p : nat; cf_a : nat }.
Record heap := mkHeap { hp_pts : list (list point); hp_ans : list (list subframe) }.
Definition heap0 : heap := mkHeap [] [].

(* Frame(): two fresh empty objects *)
Definition h_new (h : heap) : heap * cframe :=
  (mkHeap (hp_pts h ++ [[]]) (hp_ans h ++ [[]]), mkCF (length (hp_pts h)) (length (hp_ans h))).
(* frame.add(points, analogs): both handles are replaced by fresh copies of the arguments *)
Definition h_set (h : heap) (f : frame) : heap * cframe :=
  (mkHeap (hp_pts h ++ [fr_pts f]) (hp_ans h ++ [fr_subs f]), mkCF (length (hp_pts h)) (length (hp_ans h))).
Definition h_view (h : heap) (r : cframe) : frame :=
  mkFrame (nth (cf_p r) (hp_pts h) []) (nth (cf_a r) (hp_ans h) []).

Definition set_x (p : point) (v : f32) : point := mkPoint (pt_name p) v (pt_y p) (pt_z p) (pt_r p).
Definition set_v (c : channel) (v : f32) : channel := mkChan (ch_name c) v.

(* points_nonConst().point_nonConst(i).x(v) through a handle *)
Definition h_mut_pt (h : heap) (r : cframe) (i : N) (v : f32) : outcome heap :=
  let pts := nth (cf_p r) (hp_pts h) [] in
  obind (at_ pts i) (fun p =>
  Ok (mkHeap (replace_nth (cf_p r) (replace_nth (N.to_nat i) (set_x p v) pts) (hp_pts h)) (hp_ans h))).
Definition h_add_pt (h : heap) (r : cframe) (p : point) : heap :=
  let pts := nth (cf_p r) (hp_pts h) [] in
  mkHeap (replace_nth (cf_p r) (pts ++ [p]) (hp_pts h)) (hp_ans h).
Definition h_mut_ch (h : heap) (r : cframe) (s i : N) (v : f32) : outcome heap :=
  let subs := nth (cf_a r) (hp_ans h) [] in
  obind (at_ subs s) (fun sf => obind (at_ sf i) (fun c =>
  Ok (mkHeap (hp_pts h) (replace_nth (cf_a r) (replace_nth (N.to_nat s) (replace_nth (N.to_nat i) (set_v c v) sf) subs) (hp_ans h))))).
Definition h_add_ch (h : heap) (r : cframe) (s : N) (c : channel) : outcome heap :=
  let subs := nth (cf_a r) (hp_ans h) [] in
  obind (at_ subs s) (fun sf =>
  Ok (mkHeap (hp_pts h) (replace_nth (cf_a r) (replace_nth (N.to_nat s) (sf ++ [c]) subs) (hp_ans h)))).

(* in-place edits of STORED frames through data().frame(f).points_nonConst() / analogs_nonConst() *)
Definition d_mut_pt (s : state) (f i : N) (v : f32) : outcome state :=
  obind (at_ (frames s) f) (fun fr => obind (at_ (fr_pts fr) i) (fun p =>
  Ok (set_frames s (replace_nth (N.to_nat f) (mkFrame (replace_nth (N.to_nat i) (set_x p v) (fr_pts fr)) (fr_subs fr)) (frames s))))).
Definition d_mut_ch (s : state) (f sf i : N) (v : f32) : outcome state :=
  obind (at_ (frames s) f) (fun fr => obind (at_ (fr_subs fr) sf) (fun sub => obind (at_ sub i) (fun c =>
  Ok (set_frames s (replace_nth (N.to_nat f) (mkFrame (fr_pts fr) (replace_nth (N.to_nat sf) (replace_nth (N.to_nat i) (set_v c v) sub) (fr_subs fr))) (frames s)))))).
