(* Properties_C13.v — C13: no memory error on any valid use.   (partial)
   What a Gallina model can carry: the unchecked accesses of the code (operator[] on vectors, the
   dimension vector of the readers, the value vectors of the writer) are explicit UB verdicts of the
   model.  Proved: loading ANY byte sequence reaches none of them; saving reaches none of them when
   every parameter holds as many values as its dimensions announce, which Parameter::set guarantees.
   And every public mutator, from ANY state, returns none of them either (C13_api: the unchecked accesses of the name-
   building loops and of the column validators are in range under the guards that precede them); the sanitizer build
   (ASan + bounds + _GLIBCXX_ASSERTIONS + LeakSanitizer) decides the same on generated histories of the real library.
   What the model cannot exhibit at all: heap lifetime, deallocator pairing, leaks, libstdc++ internals. *)
From Coq Require Import Lia.
From EZ Require Import Base Bytes Types Api Enc Dec Float32 Run Proofs_Robust Proofs_SaveSafe Proofs_ApiSafe Properties_C16.
Local Open Scope N_scope.

Theorem C13_partial_load : forall file t, load_x file = UB t -> benign t.
Proof. exact C16_partial_instance. Qed.
Print Assumptions C13_partial_load.

Theorem C13_partial_save : forall s, Forall (fun g => Forall covered (g_params g)) (groups s) -> exists bytes, save s = Ok bytes.
Proof. exact save_defined. Qed.
Print Assumptions C13_partial_save.

Theorem C13_set_establishes_cover : forall p data dims q, set_ints p data dims = Ok q ->
  prodN (dims_or_len dims (nlen data)) < 2147483648 -> covered q.
Proof. exact set_ints_covered. Qed.
Print Assumptions C13_set_establishes_cover.

(* checked accesses never reach an unchecked one *)
Theorem C13_checked_access : forall A (l : list A) i t, at_ l i <> UB t.
Proof. exact at_no_ub. Qed.
Print Assumptions C13_checked_access.

Theorem C13_api : forall f_key f_tosize f_div f_is_zero,
  (forall r t, f_key r = UB t -> benign t) -> (forall r t, f_tosize r = UB t -> benign t) ->
  forall s o t, step f_key f_tosize f_div f_is_zero s o = RUB t -> benign t.
Proof. exact step_no_memory_error. Qed.
Print Assumptions C13_api.

Theorem C13_api_instance : forall s o t, step_x s o = RUB t -> benign t.
Proof. exact (step_no_memory_error f_key_impl f_tosize_impl f_div_impl f_is_zero_impl f_key_impl_benign f_tosize_impl_benign). Qed.
Print Assumptions C13_api_instance.

Example C13_nonvacuous : Forall (fun g => Forall covered (g_params g)) (groups init) /\ exists b, save_x init = Ok b.
Proof.
  split; [|eexists; vm_compute; reflexivity].
  repeat constructor; unfold covered; cbn; intros; try lia; try discriminate.
Qed.
Print Assumptions C13_nonvacuous.
