(* Properties_C13.v — C13: no memory error on any valid use.   (partial)
   What a Gallina model can carry: the unchecked accesses of the code (operator[] on vectors, the
   dimension vector of the readers, the value vectors of the writer) are explicit UB verdicts of the
   model.  Proved: loading ANY byte sequence reaches none of them; saving reaches none of them when
   every parameter holds as many values as its dimensions announce, which Parameter::set guarantees.
   Stated, not yet proved: the same for every API history (C13_api_statement); decided on generated
   histories by the sanitizer build (ASan + bounds + _GLIBCXX_ASSERTIONS + LeakSanitizer).
   What the model cannot exhibit at all: heap lifetime, deallocator pairing, leaks, libstdc++ internals. *)
From Coq Require Import Lia.
From EZ Require Import Base Bytes Types Api Enc Dec Float32 Run Proofs_Robust Proofs_SaveSafe Properties_C16.
Local Open Scope N_scope.

Theorem C13_partial_load : forall file t, load_x file = UB t -> benign t.
Proof. exact C16_partial_instance. Qed.
Print Assumptions C13_partial_load.

Theorem C13_partial_save : forall s, Forall (fun g => Forall covered (g_params g)) (groups s) -> exists bytes, save s = Ok bytes.
Proof. exact save_defined. Qed.
Print Assumptions C13_partial_save.

Theorem C13_set_establishes_cover : forall p data dims q, set_ints p data dims = Ok q ->
  prodN (dims_or_len dims (nlen data)) < 2147483648 -> covered q.
Proof. exact set_ints_covered. Qed.
Print Assumptions C13_set_establishes_cover.

(* checked accesses never reach an unchecked one *)
Theorem C13_checked_access : forall A (l : list A) i t, at_ l i <> UB t.
Proof. exact at_no_ub. Qed.
Print Assumptions C13_checked_access.

Definition C13_api_statement : Prop := forall s o t, step_x s o = RUB t -> benign t.

Example C13_nonvacuous : Forall (fun g => Forall covered (g_params g)) (groups init) /\ exists b, save_x init = Ok b.
Proof.
  split; [|eexists; vm_compute; reflexivity].
  repeat constructor; unfold covered; cbn; intros; try lia; try discriminate.
Qed.
Print Assumptions C13_nonvacuous.
