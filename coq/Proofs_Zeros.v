(* Proofs_Zeros.v — C16: a file that holds nothing but zero bytes, of ANY length (the empty file included), is refused with
   ios_base::failure: the scan for the first non-zero byte of Header::read ends with the file. *)
From Coq Require Import Lia ZifyNat ZifyN ZifyBool Bool.
From EZ Require Import Base Bytes Types Api Dec.
Local Open Scope N_scope.

Lemma skip_zeros_failed : forall f z st, st_fail st = true -> skip_zeros (S f) z st = Throw IosFailure.
Proof.
  intros f z st H. cbn [skip_zeros]. unfold rbind at 1. unfold rd_uint, rbind, rd_bytes, rret, rd_failed. unfold read. rewrite H. cbv beta iota.
  rewrite H. reflexivity.
Qed.

Lemma skip_zeros_all_zero : forall k fuel z st, st_fail st = false -> st_rest st = repeat 0 k -> (k < fuel)%nat ->
  skip_zeros fuel z st = Throw IosFailure.
Proof.
  induction k as [|k IH]; intros fuel z st Hf Hr Hk; (destruct fuel as [|f]; [lia|]); cbn [skip_zeros].
  - unfold rbind at 1. unfold rd_uint, rbind, rd_bytes, rret, rd_failed. unfold read. rewrite Hf, Hr. cbn [repeat firstn length Nat.ltb Nat.leb]. cbv beta iota.
    cbn [st_fail]. reflexivity.
  - unfold rbind at 1. unfold rd_uint, rbind, rd_bytes, rret, rd_failed. unfold read. rewrite Hf, Hr. cbn [repeat firstn length Nat.ltb Nat.leb skipn]. cbv beta iota.
    cbn [st_fail]. change (read_uint [0] =? 0) with true. cbv iota. apply IH; [reflexivity|reflexivity|lia].
Qed.

Section WithOps.
Variable f_key : f32 -> outcome Z.
Variable f_tosize : f32 -> outcome N.
Variable f_div : f32 -> f32 -> f32.

Lemma read_header_all_zero : forall n, read_header (open_stream (repeat 0 n)) = Throw IosFailure.
Proof.
  intros n. unfold read_header. unfold rbind at 1. unfold rd_seek, open_stream, seek. cbn [st_fail Z.ltb Z.compare Z.to_N Z.to_nat skipn st_file].
  unfold rbind at 1. unfold rd_uint at 1. unfold rbind at 1. unfold rd_bytes, read. cbn [st_fail st_rest].
  destruct n as [|n].
  - cbn [repeat firstn length Nat.ltb Nat.leb]. cbv beta iota. unfold rret at 1. unfold rbind at 1. unfold rd_len. cbv beta iota.
    unfold rbind at 1. change (read_uint ([] ++ repeat 0 (1 - 0)) =? 0) with true. cbv iota.
    rewrite skip_zeros_failed by reflexivity. reflexivity.
  - cbn [repeat firstn length Nat.ltb Nat.leb skipn]. cbv beta iota. unfold rret at 1. unfold rbind at 1. unfold rd_len. cbv beta iota.
    unfold rbind at 1. change (read_uint [0] =? 0) with true. cbv iota.
    rewrite (skip_zeros_all_zero n) ; [reflexivity|reflexivity|reflexivity|].
    cbn [st_file]. unfold nlen. cbn [length]. rewrite repeat_length. lia.
Qed.

Theorem load_all_zero : forall n, load f_key f_tosize f_div (repeat 0 n) = Throw IosFailure.
Proof. intros n. unfold load. rewrite read_header_all_zero. reflexivity. Qed.
End WithOps.
