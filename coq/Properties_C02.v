(* Properties_C02.v — C02: loading a well-formed C3D yields exactly what the file encodes.
   FULL STATEMENT (visible): T2 — for every well-formed layout L and content c within capacity,
       load (spec_encode L c) = Ok s  with  content_of s = c.
   The spec-level encoder/decoder exist as lib/c3dspec.py (independent of the model's shape); the C02
   check encodes files over all layout variants, loads them with the real library and compares the dump
   with the content and with the model's load.   Proved in Coq so far (stages of T2, for all inputs):
   scalars (C12), the whole data section (every frame, point, residual, analog sample, any sizes), name
   binding by position, the stream discipline, and that the loader reaches no unchecked access;
   and T2 itself for the layouts of Proofs_Layout.file_of (C02_any_layout): any number of leading zero bytes, the parameter
   section at any block, anything in between, records in any order and under any group ids, prologue (1,80) or zeroed, anything
   after the end of the chain, any data-start word, and both ways the chain may end (a zero name length after the last record,
   or a zero next-record offset in the last record).  Not covered by file_of: strings padded with NUL bytes, a single dimension
   1 written explicitly, names in lower case (decided by the check). *)
From Coq Require Import List.
From EZ Require Import Base Bytes Types Api Enc Dec Float32 Run Proofs_Bytes Proofs_Codec Proofs_Section Proofs_Record Proofs_Chain Proofs_ChainZ Proofs_ChainW Proofs_HeaderCodec Proofs_Robust
  Proofs_RoundTrip Proofs_Decide Proofs_Layout Proofs_LayoutCert Run_Decide Properties_C01.
Local Open Scope N_scope.

(* stage: a float is read back as the pattern its four bytes spell *)
Theorem C02_float_read : forall st v r, wf32 v -> st_fail st = false -> st_rest st = w4 v ++ r ->
  rd_float st = Ok (v, adv st 4 r).
Proof. exact rd_float_written. Qed.
Print Assumptions C02_float_read.

(* stage: the data section. For ANY number of frames of a uniform shape (np points, ns sub-frames of nc
   channels), the frame reader returns every x, y, z, residual and every analog sample at its
   (frame, sub-frame, channel), bit for bit, and stops exactly at the end of the data *)
Theorem C02_data_section : forall fs np ns nc pn an st r,
  Forall (uniform np ns nc) fs -> st_fail st = false -> st_rest st = data_section fs ++ r ->
  rd_many (length fs) (frame_reader np ns nc pn an) st =
    Ok (map (rename_frame pn an) fs, adv st (length fs * (16 * np + 4 * nc * ns)) r).
Proof. exact data_section_roundtrip. Qed.
Print Assumptions C02_data_section.

(* stage: points are named by the label at their position (trimmed), else unlabeled_point_<i> *)
Theorem C02_names_by_position : forall pts k names,
  (forall j p, nth_error pts j = Some p -> nth_error names (k + j) = Some (pt_name p) /\ rtrim (pt_name p) = pt_name p) ->
  rename_points (N.of_nat k) names pts = pts.
Proof. exact rename_points_id. Qed.
Print Assumptions C02_names_by_position.

Example C02_unlabeled_fallback : name_at [[97]] str_unlabeled_point 12 = [117;110;108;97;98;101;108;101;100;95;112;111;105;110;116;95;49;50].
Proof. vm_compute. reflexivity. Qed.
Print Assumptions C02_unlabeled_fallback.

(* 16- and 8-bit values of parameters and header words: decoded as the two's complement / unsigned numbers *)
Theorem C02_integers : (forall v, (-32768 <= v < 32768)%Z -> hex2int (le_bytes 2 v) = v) /\
                       (forall v, (-128 <= v < 128)%Z -> hex2int (le_bytes 1 v) = v) /\
                       (forall u, (0 <= u < 65536)%Z -> hex2uint (le_bytes 2 u) = u).
Proof. exact (conj hex2int_le2 (conj hex2int_le1 hex2uint_le2)). Qed.
Print Assumptions C02_integers.

(* non-vacuity: the model loads the file the model writes for a small object, residual included *)
(* Parameter::read on a well-formed record: exactly the parameter the bytes encode, and the position of the next record *)
Theorem C02_parameter_record : forall p st r,
  wf_param p -> st_fail st = false ->
  let off := (2 + zlen (param_body p) + zlen (param_tail p))%Z in
  st_rest st = upper (p_name p) ++ le_bytes 2 off ++ param_body p ++ param_tail p ++ r ->
  let o16 := (off mod 65536)%Z in
  let nxt := if (o16 =? 0)%Z then 0%Z
             else wrap32s (Z.of_N (st_pos st + N.of_nat (length (p_name p)) + 2) + o16 - 2) in
  read_param (hex2int [name_len_byte (p_name p) (p_lock p)]) st =
    Ok ((mkParam (upper (p_name p)) (p_desc p) (p_lock p) (p_type p) (p_dims p) (p_ints p) (p_floats p) (p_strs p), nxt),
        adv st (length (p_name p) + 2 + length (param_body p ++ param_tail p)) r).
Proof. exact read_param_written. Qed.
Print Assumptions C02_parameter_record.

(* the record walker on any sequence of well-formed group and parameter records closed by the end marker: the tree is
   rebuilt record by record (apply_items is the walker's effect written without the stream), every next-record pointer
   lands on the next record, and the stream ends just after the end marker *)
Theorem C02_record_chain : forall its fuel gs st r,
  Forall wf_item its -> (length its < fuel)%nat -> st_fail st = false -> 0 < st_pos st ->
  (Z.of_N (st_pos st) + Z.of_nat (items_len its) < 2147483648)%Z ->
  st_rest st = concat (map item_bytes its) ++ 0 :: r ->
  walk fuel (Z.of_N (st_pos st)) gs st =
    match apply_items its gs with
    | Ok gs' => Ok (gs', adv st (items_len its + 1) r)
    | Throw e => Throw e
    | UB t => UB t
    end.
Proof. exact walk_items. Qed.
Print Assumptions C02_record_chain.

(* Header::read on a well-formed header block: every field, and the stream left at the first parameter block *)
Theorem C02_header_block : forall h d st rest, wf_hdr h -> wf_header h -> u16 d ->
  st_fail st = false -> st_file st = header_bytes h d ++ rest ->
  read_header st = Ok (with_dstart h d, mkStream (st_file st) 512 rest false).
Proof. exact read_header_written. Qed.
Print Assumptions C02_header_block.

Example C02_nonvacuous :
  let rate := mkParam nm_RATE [] false TFloat [1] [] [1120403456] [] in
  let f := mkFrame [mkPoint [97] 1065353216 1073741824 1077936128 1082130432] [] in
  exists s1 s2 s3 bytes s4, step_x init (OPoint [97]) = ROk tt s1 /\ step_x s1 (OParam nm_POINT rate) = ROk tt s2 /\
    step_x s2 (OFrame f None) = ROk tt s3 /\ save_x s3 = Ok bytes /\ load_x bytes = Ok s4 /\ frames s4 = [f].
Proof.
  do 5 eexists.
  split; [vm_compute; reflexivity|]. split; [vm_compute; reflexivity|]. split; [vm_compute; reflexivity|].
  split; [vm_compute; reflexivity|]. split; [vm_compute; reflexivity|]. vm_compute. reflexivity.
Qed.
Print Assumptions C02_nonvacuous.

(* THE WHOLE FILE, ANY LAYOUT: the loader returns the header fields, the tree the records build in file order, and the frames *)
Theorem C02_any_layout : forall f_key f_tosize f_div z p h d gap b0 b1 blocks proc ez its tail fs gs pn an,
  wf_hdr h -> wf_header h -> u16 d -> 2 <= p < 256 -> nlen gap = 512 * (p - 2) ->
  4 + nlen (chain_of ez its) + nlen tail = 512 * blocks -> blocks < 256 -> proc < 256 ->
  ((b0 = 1 /\ b1 = 80) \/ (b0 = 0 /\ b1 = 0)) ->
  Forall wf_item its -> apply_items its [] = Ok gs ->
  (Z.of_nat z + 512 * Z.of_N (p - 1) + 512 * Z.of_N blocks < 2147483648)%Z ->
  (let h1 := with_pz (with_dstart h d) p (N.of_nat z) in let pr := mkPro 1 80 blocks proc in
   update_header f_key f_tosize f_div false (mkState h1 pr gs []) = ROk tt (mkState h1 pr gs [])) ->
  (let h1 := with_pz (with_dstart h d) p (N.of_nat z) in
   h_nb_frames h1 = nlen fs /\ nlen fs <= max_frames_vec /\
   nlen fs * (1 + 4 * h_points h1 + h_byframe h1 * (1 + h_nb_analogs h1)) <= 1048576 /\
   (if 0 <? h_points h1 then obind (group_named gs nm_POINT) (fun g => obind (param_named g nm_LABELS) values_as_string) = Ok pn else pn = []) /\
   (if 0 <? h_nb_analogs h1 then obind (group_named gs nm_ANALOG) (fun g => obind (param_named g nm_LABELS) values_as_string) = Ok an else an = []) /\
   (fs <> [] -> (h_scale h1 < 0)%Z) /\
   Forall (uniform (N.to_nat (h_points h1)) (N.to_nat (h_byframe h1)) (N.to_nat (h_nb_analogs h1))) fs) ->
  load f_key f_tosize f_div (file_of z p h d gap b0 b1 blocks proc ez its tail fs) =
    Ok (mkState (with_pz (with_dstart h d) p (N.of_nat z)) (mkPro 1 80 blocks proc) gs (map (rename_frame pn an) fs)).
Proof. exact load_layout. Qed.
Print Assumptions C02_any_layout.

(* decided for a concrete file: the file is cut into parts by an untrusted function, the parts are re-encoded with the encoder
   specification and compared with the file byte by byte, the hypotheses are evaluated (Proofs_LayoutCert.cert_ok_b); the
   check does this for every file it loads (evidence: theorem_C02_any_layout) *)
Theorem C02_layout_decided : forall file, cert_ok_x file = true ->
  exists q gs pn an,
    file = file_of (lp_z q) (lp_p q) (lp_h q) (lp_d q) (lp_gap q) (lp_b0 q) (lp_b1 q) (lp_blocks q) (lp_proc q) (lp_ez q) (lp_its q) (lp_tail q) (lp_fs q) /\
    apply_items (lp_its q) [] = Ok gs /\ load_x file = Ok (cert_state q gs pn an).
Proof.
  intros file H. destruct (layout_cert f_key_impl f_tosize_impl f_div_impl file H) as (q & gs & pn & an & _ & E & G & L).
  exists q, gs, pn, an. split; [exact E|]. split; [exact G|exact L].
Qed.
Print Assumptions C02_layout_decided.

(* non-vacuity: the demo object's content under another layout — three leading zero bytes, section at block 3 after a block
   of sevens, zeroed prologue, the records in REVERSE order (parameters before their groups, groups by descending id),
   data-start word 77 *)
Definition demo_items : list item := rev (items_v (groups demo_state) 1 3).
Definition demo_file : list N :=
  file_of 3 3 (with_pz (hdr demo_state) 2 0) 77 (repeat 7 512) 0 0 2 84 false demo_items
          (repeat 0 (2 * 512 - 4 - items_len demo_items - 1)) (frames demo_state).
Example C02_any_layout_nonvacuous : cert_ok_x demo_file = true.
Proof. vm_compute. reflexivity. Qed.
Print Assumptions C02_any_layout_nonvacuous.

(* the same content, the chain ended by a zero offset in its last record, garbage (nines) up to the block boundary *)
Definition demo_file_z : list N :=
  file_of 0 2 (with_pz (hdr demo_state) 2 0) 3 [] 1 80 2 84 true demo_items
          (repeat 9 (2 * 512 - 4 - items_len demo_items)) (frames demo_state).
Example C02_zero_offset_end_nonvacuous : cert_ok_x demo_file_z = true.
Proof. vm_compute. reflexivity. Qed.
Print Assumptions C02_zero_offset_end_nonvacuous.
