(* Proofs_Layout.v — C02: loading a well-formed file of ANY layout the format allows (leading zero bytes, any parameter-block
   address, records in any order and with any group ids, zeroed prologue, any amount of padding after the end marker), not
   only the files c3d::write produces.  The file is described by its parts; the loader is shown to return the header, the
   tree the records build (apply_items) and the frames. *)
From Coq Require Import Lia ZifyNat ZifyN ZifyBool.
From EZ Require Import Base Bytes Types Api Enc Dec Proofs_Bytes Proofs_Lookup Proofs_Param Proofs_Codec Proofs_Section
  Proofs_Record Proofs_Chain Proofs_ChainZ Proofs_ChainW Proofs_HeaderCodec Proofs_Guards Proofs_RoundTrip.
Local Open Scope N_scope.

(* ---------- leading zeros ---------- *)
Lemma skip_zeros_spec : forall k fuel zc st p r, (k < fuel)%nat -> st_fail st = false ->
  st_rest st = repeat 0 k ++ p :: r -> p <> 0 -> p < 256 ->
  skip_zeros fuel zc st = Ok ((p, zc + N.of_nat k + 1), adv st (k + 1) r).
Proof.
  induction k as [|k IH]; intros fuel zc st p r Fu Hf Hr Hp Hb; (destruct fuel as [|f]; [lia|]); cbn [skip_zeros].
  - cbn [repeat app] in Hr. unfold rbind at 1. rewrite (uint1_cons p st r Hb Hf Hr).
    unfold rbind at 1. unfold rd_failed. cbn [adv st_fail].
    assert (E : (p =? 0) = false) by lia. rewrite E. unfold rret. replace (zc + N.of_nat 0 + 1) with (zc + 1) by lia. reflexivity.
  - cbn [repeat app] in Hr. unfold rbind at 1. rewrite (uint1_cons 0 st _ ltac:(lia) Hf Hr).
    unfold rbind at 1. unfold rd_failed. cbn [adv st_fail]. change (0 =? 0) with true. cbv iota.
    rewrite (IH f (zc + 1) (adv st 1 (repeat 0 k ++ p :: r)) p r ltac:(lia) (adv_fail _ _ _) (adv_rest _ _ _) Hp Hb).
    rewrite adv_adv. replace (zc + 1 + N.of_nat k + 1) with (zc + N.of_nat (S k) + 1) by lia.
    replace (1 + (k + 1))%nat with (S k + 1)%nat by lia. reflexivity.
Qed.

(* the header as found in a file whose parameter section is at block p, after z zero bytes *)
Definition with_pz (h : header) (p z : N) : header :=
  mkHeader z p (h_check h) (h_points h) (h_meas h) (h_first h) (h_last h) (h_gap h) (h_scale h) (h_dstart h)
           (h_byframe h) (h_rate h) (h_e1 h) (h_e2 h) (h_e3 h) (h_e4 h) (h_keylab h) (h_keyblk h) (h_four h) (h_nev h)
           (h_evtime h) (h_evdisp h) (h_evlab h).

Lemma header_rest_any : forall p z h d, wf_hdr h -> u16 d ->
  reads (header_rest p z) (skipn 1 (header_bytes h d)) (with_pz (with_dstart h d) p z).
Proof.
  intros p z h d W Hd.
  destruct W as (Z0 & Pa & Ck & Hp & Hm & Hf & Hl & Hg & Hs & Hb & Hr & E1 & E2 & E3 & E4 & Hk1 & Hk2 & Hk3 & Hn & (Ht & Lt) & (Hv & Lv) & (Hlb & Ll)).
  destruct (frame_no_roundtrip _ Hf) as [Uf Rf]. destruct (frame_no_roundtrip _ Hl) as [Ul Rl].
  unfold header_bytes. cbn [app skipn]. unfold header_rest.
  change (80 :: ?x) with ([80] ++ x).
  eapply reads_bind; [apply reads_uint1; lia|]. change (negb (80 =? 80)) with false. cbv iota.
  eapply reads_bind; [apply (reads_w2 _ Hp)|].
  eapply reads_bind; [apply (reads_w2 _ Hm)|].
  eapply reads_bind; [apply (reads_w2 _ Uf)|].
  eapply reads_bind; [apply (reads_w2 _ Ul)|].
  eapply reads_bind; [apply (reads_w2 _ Hg)|].
  eapply reads_bind; [apply (reads_int4 _ Hs)|].
  eapply reads_bind; [apply (reads_w2 _ Hd)|].
  eapply reads_bind; [apply (reads_w2 _ Hb)|].
  eapply reads_bind; [apply (reads_float _ Hr)|].
  rewrite E1. eapply reads_bind; [apply (reads_zero_words 135); left; reflexivity|].
  eapply reads_bind; [apply (reads_w2 _ Hk1)|].
  eapply reads_bind; [apply (reads_w2 _ Hk2)|].
  eapply reads_bind; [apply (reads_w2 _ Hk3)|].
  eapply reads_bind; [apply (reads_w2 _ Hn)|].
  rewrite E2. eapply reads_bind; [apply reads_int2; lia|].
  eapply reads_bind; [rewrite <- Lt; apply (reads_floats _ Ht)|].
  eapply reads_bind; [rewrite <- Lv; apply (reads_array N (rd_uint 2) w2 u16 _ reads_w2 Hv)|].
  rewrite E3. eapply reads_bind; [apply reads_int2; lia|].
  eapply reads_bind; [rewrite <- Ll; apply (reads_array bstr (rd_string 4) label4 lab_ok _ reads_label Hlb)|].
  rewrite E4. rewrite <- (app_nil_r (concat (repeat (le_bytes 2 0) 22))).
  eapply reads_bind; [apply (reads_zero_words 22); right; reflexivity|].
  rewrite Rf, Rl. unfold with_pz, with_dstart. cbn. rewrite Ck, E1, E2, E3, E4. apply reads_ret.
Qed.

(* the header block of a file: the block c3d::write produces with another first byte *)
Definition header_block (p : N) (h : header) (d : N) : list N := p :: skipn 1 (header_bytes h d).
Lemma header_block_length : forall p h d, wf_header h -> length (header_block p h d) = 512%nat.
Proof.
  intros p h d W. unfold header_block. cbn [length]. rewrite skipn_length, (header_bytes_length h d W). reflexivity.
Qed.

Theorem read_header_layout : forall z p h d st rest, wf_hdr h -> wf_header h -> u16 d -> p <> 0 -> p < 256 ->
  st_fail st = false -> st_file st = repeat 0 z ++ header_block p h d ++ rest ->
  read_header st = Ok (with_pz (with_dstart h d) p (N.of_nat z), mkStream (st_file st) (N.of_nat z + 512) rest false).
Proof.
  intros z p h d st rest W Wl Hd Hp0 Hpb Hf Hfile. rewrite read_header_split.
  unfold rbind at 1. unfold rd_seek. unfold seek. rewrite Hf. change (0 <? 0)%Z with false. cbv iota.
  change (Z.to_N 0) with 0. change (Z.to_nat 0) with 0%nat. cbn [skipn].
  set (st0 := mkStream (st_file st) 0 (st_file st) false).
  assert (L1 : length (skipn 1 (header_bytes h d)) = 511%nat) by (rewrite skipn_length, (header_bytes_length h d Wl); reflexivity).
  destruct z as [|z].
  - (* no leading zero: the first byte is the address *)
    assert (R0 : st_rest st0 = p :: (skipn 1 (header_bytes h d) ++ rest)) by (unfold st0; cbn [st_rest]; rewrite Hfile; reflexivity).
    unfold rbind at 1. rewrite (uint1_cons p st0 _ Hpb eq_refl R0).
    unfold rbind at 1. unfold rd_len at 1. assert (E : (p =? 0) = false) by lia. rewrite E.
    unfold rbind at 1. unfold rret at 1.
    rewrite (header_rest_any p 0 h d W Hd (adv st0 1 _) rest (adv_fail _ _ _) (adv_rest _ _ _)).
    rewrite adv_adv. f_equal. f_equal. unfold adv, st0. cbn [st_file st_pos]. rewrite L1. reflexivity.
  - assert (R0 : st_rest st0 = 0 :: (repeat 0 z ++ p :: (skipn 1 (header_bytes h d) ++ rest))).
    { unfold st0. cbn [st_rest]. rewrite Hfile. unfold header_block. cbn [repeat app]. reflexivity. }
    unfold rbind at 1. rewrite (uint1_cons 0 st0 _ ltac:(lia) eq_refl R0).
    unfold rbind at 1. unfold rd_len at 1. change (0 =? 0) with true. cbv iota.
    unfold rbind at 1.
    assert (Fu : (z < S (N.to_nat (nlen (st_file st))))%nat).
    { rewrite Hfile. unfold nlen. rewrite Nat2N.id, app_length, repeat_length. lia. }
    rewrite (skip_zeros_spec z _ 0 (adv st0 1 _) p _ Fu (adv_fail _ _ _) (adv_rest _ _ _) Hp0 Hpb).
    rewrite adv_adv.
    rewrite (header_rest_any p (0 + N.of_nat z + 1) h d W Hd (adv st0 (1 + (z + 1)) _) rest (adv_fail _ _ _) (adv_rest _ _ _)).
    rewrite adv_adv. f_equal. f_equal; [f_equal; lia|]. unfold adv, st0. cbn [st_file st_pos]. rewrite L1. f_equal. lia.
Qed.

(* ---------- the parameter section at any block, records in any order ---------- *)
Lemma sub64_small : forall a, 1 <= a -> a < two64 -> sub64 a 1 = a - 1.
Proof. intros a H1 H2. unfold sub64, wrap64, two64 in *. Ltac Zify.zify_post_hook ::= Z.div_mod_to_equations. lia. Qed.

(* the two ways a chain of records may end: a zero name length after the last record (ez = false), or a zero next-record
   offset IN the last record (ez = true) *)
Definition chain_of (ez : bool) (its : list item) : list N :=
  if ez then match rev its with
             | last :: ri => concat (map item_bytes (rev ri)) ++ item_bytes0 last
             | [] => [0]
             end
  else concat (map item_bytes its) ++ [0].

Lemma chain_of_length : forall ez its, length (chain_of ez its) = (if ez then match its with [] => 1 | _ => items_len its end else items_len its + 1)%nat.
Proof.
  intros ez its. unfold chain_of. destruct ez; [|rewrite app_length; reflexivity].
  destruct (rev its) as [|last ri] eqn:E.
  - apply (f_equal (@rev item)) in E. rewrite rev_involutive in E. subst its. reflexivity.
  - apply (f_equal (@rev item)) in E. rewrite rev_involutive in E. cbn [rev] in E. subst its.
    destruct (rev ri ++ [last]) eqn:E2; [destruct (rev ri); discriminate|]. rewrite <- E2.
    unfold items_len. rewrite map_app, concat_app, !app_length. cbn [map concat]. rewrite app_nil_r, item_bytes0_length. reflexivity.
Qed.

Lemma walk_chain : forall ez its fuel gs st R,
  Forall wf_item its -> (length its + 2 <= fuel)%nat -> st_fail st = false -> 0 < st_pos st ->
  (Z.of_N (st_pos st) + Z.of_nat (items_len its) < 2147483648)%Z ->
  st_rest st = chain_of ez its ++ R ->
  walk fuel (Z.of_N (st_pos st)) gs st =
    match apply_items its gs with
    | Ok gs' => Ok (gs', adv st (length (chain_of ez its)) R)
    | Throw e => Throw e
    | UB t => UB t
    end.
Proof.
  intros ez its fuel gs st R W Fu Hf Hp Hb Hr. unfold chain_of in *. destruct ez.
  - destruct (rev its) as [|last ri] eqn:E.
    + apply (f_equal (@rev item)) in E. rewrite rev_involutive in E. subst its. cbn [rev] in *.
      rewrite (walk_items [] fuel gs st R W ltac:(cbn; lia) Hf Hp Hb Hr). reflexivity.
    + apply (f_equal (@rev item)) in E. rewrite rev_involutive in E. cbn [rev] in E. subst its.
      apply Forall_app in W. destruct W as [W1 W2]. apply Forall_cons_iff in W2. destruct W2 as [Wl _].
      assert (Hb1 : (Z.of_N (st_pos st) + Z.of_nat (items_len (rev ri)) < 2147483648)%Z).
      { unfold items_len in *. rewrite map_app, concat_app, app_length in Hb. lia. }
      rewrite <- app_assoc in Hr. rewrite app_length in Fu. cbn [length] in Fu.
      rewrite (walk_items_zero (rev ri) last fuel gs st R W1 Wl ltac:(lia) Hf Hp Hb1 Hr).
      destruct (apply_items (rev ri ++ [last]) gs) as [gs'| |]; try reflexivity.
      rewrite app_length. reflexivity.
  - rewrite <- app_assoc in Hr. cbn [app] in Hr.
    rewrite (walk_items its fuel gs st R W ltac:(lia) Hf Hp Hb Hr).
    destruct (apply_items its gs) as [gs'| |]; try reflexivity. rewrite app_length. reflexivity.
Qed.

Theorem read_parameters_layout : forall h ez its gs b0 b1 blocks proc pre tail st,
  Forall wf_item its -> apply_items its [] = Ok gs -> st_fail st = false ->
  st_file st = pre ++ [b0; b1; blocks; proc] ++ chain_of ez its ++ tail ->
  1 <= h_paddr h < 256 -> nlen pre = 512 * (h_paddr h - 1) + h_zeros h ->
  ((b0 = 1 /\ b1 = 80) \/ (b0 = 0 /\ b1 = 0)) -> blocks < 256 -> proc < 256 ->
  (Z.of_N (nlen pre) + 4 + Z.of_nat (items_len its) < 2147483648)%Z ->
  exists st', read_parameters h st = Ok ((mkPro 1 80 blocks proc, gs), st') /\ st_fail st' = false /\ st_file st' = st_file st.
Proof.
  intros h ez its gs b0 b1 blocks proc pre tail st Wf Hg Hf Hfile Hp Lpre Hb Hbl Hpr Hsz.
  unfold read_parameters. rewrite (sub64_small (h_paddr h)) by (unfold two64; lia). rewrite <- Lpre.
  assert (Ew : wrap32s (Z.of_N (wrap64 (nlen pre))) = Z.of_N (nlen pre)).
  { unfold wrap64, two64. rewrite N.mod_small by lia. apply wrap32s_id. lia. }
  rewrite Ew. unfold rbind at 1. unfold rd_seek, seek. rewrite Hf.
  assert (E0 : (Z.of_N (nlen pre) <? 0)%Z = false) by lia. rewrite E0. rewrite N2Z.id.
  assert (Sk : skipn (Z.to_nat (Z.of_N (nlen pre))) (st_file st) = [b0; b1; blocks; proc] ++ chain_of ez its ++ tail).
  { rewrite Hfile. apply skipn_app_len. unfold nlen. lia. }
  rewrite Sk. cbn [app].
  set (st1 := mkStream (st_file st) (nlen pre) (b0 :: b1 :: blocks :: proc :: chain_of ez its ++ tail) false).
  assert (B0 : b0 < 256 /\ b1 < 256) by (destruct Hb as [[-> ->]|[-> ->]]; lia).
  unfold rbind at 1. rewrite (uint1_cons b0 st1 _ (proj1 B0) eq_refl eq_refl).
  unfold rbind at 1. rewrite (uint1_cons b1 _ _ (proj2 B0) (adv_fail _ _ _) (adv_rest _ _ _)). rewrite adv_adv.
  unfold rbind at 1. rewrite (uint1_cons blocks _ _ Hbl (adv_fail _ _ _) (adv_rest _ _ _)). rewrite adv_adv.
  unfold rbind at 1. rewrite (uint1_cons proc _ _ Hpr (adv_fail _ _ _) (adv_rest _ _ _)). rewrite adv_adv.
  cbn [Nat.add].
  assert (Epro : (if (b1 =? 0) && (b0 =? 0) then (1, 80) else (b0, b1)) = (1, 80)) by (destruct Hb as [[-> ->]|[-> ->]]; reflexivity).
  rewrite Epro. change (negb (80 =? 80)) with false. cbv iota.
  unfold rbind at 1. unfold rd_tell at 1. unfold tell. cbn [adv st_fail st_pos].
  unfold rbind at 1. unfold rd_len at 1. cbn [adv st_file].
  set (st4 := adv st1 4 (chain_of ez its ++ tail)).
  assert (Pos4 : st_pos st4 = nlen pre + 4) by reflexivity.
  assert (Enx : wrap32s (Z.of_N (st_pos st1 + N.of_nat 4) + Z.of_N 1 - 1) = Z.of_N (st_pos st4)).
  { rewrite Pos4. unfold st1. cbn [st_pos]. rewrite wrap32s_id by lia. lia. }
  rewrite Enx. unfold rbind at 1.
  assert (Fu : (length its + 2 <= S (N.to_nat (nlen (st_file st))))%nat).
  { pose proof (items_len_ge its) as G. pose proof (chain_of_length ez its) as CL. rewrite Hfile. unfold nlen. rewrite Nat2N.id, !app_length. cbn [length].
    destruct ez; [destruct its; cbn [length] in *; lia|lia]. }
  rewrite (walk_chain ez its _ [] st4 tail Wf).
  - rewrite Hg. unfold rret. eexists. split; [reflexivity|]. split; reflexivity.
  - exact Fu.
  - reflexivity.
  - rewrite Pos4. lia.
  - rewrite Pos4. lia.
  - reflexivity.
Qed.

(* ---------- the data section after the parameter blocks, wherever they are ---------- *)
Theorem read_data_layout : forall h pr gs st pre fs pn an,
  st_fail st = false -> st_file st = pre ++ data_section fs ->
  1 <= h_paddr h < 256 -> nlen pre = 512 * (h_paddr h - 1) + h_zeros h + 512 * ps_blocks pr ->
  1 <= ps_blocks pr -> (Z.of_N (nlen pre) < 2147483648)%Z ->
  h_nb_frames h = nlen fs -> nlen fs <= max_frames_vec ->
  nlen fs * (1 + 4 * h_points h + h_byframe h * (1 + h_nb_analogs h)) <= 1048576 ->
  (if 0 <? h_points h then obind (group_named gs nm_POINT) (fun g => obind (param_named g nm_LABELS) values_as_string) = Ok pn else pn = []) ->
  (if 0 <? h_nb_analogs h then obind (group_named gs nm_ANALOG) (fun g => obind (param_named g nm_LABELS) values_as_string) = Ok an else an = []) ->
  (fs <> [] -> (h_scale h < 0)%Z) ->
  Forall (uniform (N.to_nat (h_points h)) (N.to_nat (h_byframe h)) (N.to_nat (h_nb_analogs h))) fs ->
  exists st', read_data h pr gs st = Ok (map (rename_frame pn an) fs, st').
Proof.
  intros h pr gs st pre fs pn an Hf Hfile Hp Lpre Hb Hsz Hn Hmax Hcost Hpn Han Hsc Hu.
  unfold read_data. rewrite (sub64_small (h_paddr h)) by (unfold two64; lia). rewrite <- Lpre.
  assert (Esk : wrap32s (Z.of_N (wrap64 (nlen pre)) - 1) = (Z.of_N (nlen pre) - 1)%Z).
  { unfold wrap64, two64. rewrite N.mod_small by lia. apply wrap32s_id. lia. }
  rewrite Esk. unfold rbind at 1. unfold rd_seek, seek. rewrite Hf.
  assert (E0 : (Z.of_N (nlen pre) - 1 <? 0)%Z = false) by lia. rewrite E0.
  assert (Ne : pre <> []) by (intros E; rewrite E in Lpre; unfold nlen in Lpre; cbn [length N.of_nat] in Lpre; lia).
  destruct (last_split _ pre Ne) as [pre0 [x Epre]].
  set (k := Z.to_nat (Z.of_N (nlen pre) - 1)).
  assert (Lk : length pre0 = k).
  { unfold k, nlen. rewrite Epre, app_length. cbn [length]. lia. }
  assert (Sk : skipn k (st_file st) = x :: data_section fs).
  { rewrite Hfile, Epre. rewrite <- app_assoc. cbn [app]. apply skipn_app_len. exact Lk. }
  fold k. rewrite Sk.
  set (st1 := mkStream (st_file st) (Z.to_N (Z.of_N (nlen pre) - 1)) (x :: data_section fs) false).
  unfold rbind at 1. rewrite (reads_int1 x st1 (data_section fs) eq_refl eq_refl).
  rewrite Hn. assert (Em : (max_frames_vec <? nlen fs) = false) by lia. rewrite Em.
  unfold rbind at 1. rewrite blowup_ok by (unfold LIMC; exact Hcost).
  unfold rbind at 1.
  assert (Rp : (if 0 <? h_points h
                then rlift (obind (group_named gs nm_POINT) (fun g => obind (param_named g nm_LABELS) values_as_string))
                else rret []) (adv st1 (length [x]) (data_section fs)) = Ok (pn, adv st1 (length [x]) (data_section fs))).
  { destruct (0 <? h_points h); [rewrite Hpn; reflexivity|rewrite Hpn; reflexivity]. }
  rewrite Rp. unfold rbind at 1.
  assert (Ra : (if 0 <? h_nb_analogs h
                then rlift (obind (group_named gs nm_ANALOG) (fun g => obind (param_named g nm_LABELS) values_as_string))
                else rret []) (adv st1 (length [x]) (data_section fs)) = Ok (an, adv st1 (length [x]) (data_section fs))).
  { destruct (0 <? h_nb_analogs h); [rewrite Han; reflexivity|rewrite Han; reflexivity]. }
  rewrite Ra.
  destruct (nlen fs =? 0) eqn:E.
  - apply N.eqb_eq in E. apply nlen_0_nil in E. subst fs. eexists. reflexivity.
  - assert (Nf : fs <> []) by (intros ->; cbn in E; discriminate). specialize (Hsc Nf).
    assert (Es : (0 <=? h_scale h)%Z = false) by lia. rewrite Es.
    unfold nlen. rewrite Nat2N.id.
    pose proof (data_section_roundtrip fs _ _ _ pn an (adv st1 (length [x]) (data_section fs)) [] Hu (adv_fail _ _ _)) as R.
    rewrite app_nil_r in R. specialize (R (adv_rest _ _ _)). unfold frame_reader in R. rewrite R. eexists. reflexivity.
Qed.

(* ---------- the whole file ---------- *)
(* z zero bytes, the header block with the section's block number p in its first byte, p-2 blocks of anything, the parameter
   section (prologue, records, end marker, anything up to the block boundary and beyond: `blocks` blocks), the data *)
Definition file_of (z : nat) (p : N) (h : header) (d : N) (gap : list N) (b0 b1 blocks proc : N) (ez : bool) (its : list item)
                   (tail : list N) (fs : list frame) : list N :=
  repeat 0 z ++ header_block p h d ++ gap ++ [b0; b1; blocks; proc] ++ chain_of ez its ++ tail ++ data_section fs.

Section WithOps.
Variable f_key : f32 -> outcome Z.
Variable f_tosize : f32 -> outcome N.
Variable f_div : f32 -> f32 -> f32.

Theorem load_layout : forall z p h d gap b0 b1 blocks proc ez its tail fs gs pn an,
  wf_hdr h -> wf_header h -> u16 d -> 2 <= p < 256 -> nlen gap = 512 * (p - 2) ->
  4 + nlen (chain_of ez its) + nlen tail = 512 * blocks -> blocks < 256 -> proc < 256 ->
  ((b0 = 1 /\ b1 = 80) \/ (b0 = 0 /\ b1 = 0)) ->
  Forall wf_item its -> apply_items its [] = Ok gs ->
  (Z.of_nat z + 512 * Z.of_N (p - 1) + 512 * Z.of_N blocks < 2147483648)%Z ->
  (let h1 := with_pz (with_dstart h d) p (N.of_nat z) in let pr := mkPro 1 80 blocks proc in
   update_header f_key f_tosize f_div false (mkState h1 pr gs []) = ROk tt (mkState h1 pr gs [])) ->
  (let h1 := with_pz (with_dstart h d) p (N.of_nat z) in
   h_nb_frames h1 = nlen fs /\ nlen fs <= max_frames_vec /\
   nlen fs * (1 + 4 * h_points h1 + h_byframe h1 * (1 + h_nb_analogs h1)) <= 1048576 /\
   (if 0 <? h_points h1 then obind (group_named gs nm_POINT) (fun g => obind (param_named g nm_LABELS) values_as_string) = Ok pn else pn = []) /\
   (if 0 <? h_nb_analogs h1 then obind (group_named gs nm_ANALOG) (fun g => obind (param_named g nm_LABELS) values_as_string) = Ok an else an = []) /\
   (fs <> [] -> (h_scale h1 < 0)%Z) /\
   Forall (uniform (N.to_nat (h_points h1)) (N.to_nat (h_byframe h1)) (N.to_nat (h_nb_analogs h1))) fs) ->
  load f_key f_tosize f_div (file_of z p h d gap b0 b1 blocks proc ez its tail fs) =
    Ok (mkState (with_pz (with_dstart h d) p (N.of_nat z)) (mkPro 1 80 blocks proc) gs (map (rename_frame pn an) fs)).
Proof.
  intros z p h d gap b0 b1 blocks proc ez its tail fs gs pn an Wh Wl Hd Hp Lgap Lsec Hbl Hpr Hb Wf Hg Hsz Huh Hdata.
  assert (CL : (items_len its <= length (chain_of ez its))%nat) by (rewrite chain_of_length; destruct ez; [destruct its; [cbn; lia|lia]|lia]).
  set (h1 := with_pz (with_dstart h d) p (N.of_nat z)) in *. set (pr := mkPro 1 80 blocks proc) in *.
  set (file := file_of z p h d gap b0 b1 blocks proc ez its tail fs).
  assert (Lhb : length (header_block p h d) = 512%nat) by (apply header_block_length; exact Wl).
  unfold load.
  rewrite (read_header_layout z p h d (open_stream file) _ Wh Wl Hd ltac:(lia) ltac:(lia) eq_refl eq_refl).
  fold h1. cbn [open_stream st_file].
  set (st1 := mkStream file (N.of_nat z + 512) _ false).
  assert (P1 : h_paddr h1 = p) by reflexivity. assert (Z1 : h_zeros h1 = N.of_nat z) by reflexivity.
  set (pre := repeat 0 z ++ header_block p h d ++ gap).
  assert (Lpre : nlen pre = 512 * (p - 1) + N.of_nat z).
  { unfold pre, nlen in *. rewrite !app_length, repeat_length, Lhb. lia. }
  assert (Ef : file = pre ++ [b0; b1; blocks; proc] ++ chain_of ez its ++ (tail ++ data_section fs)).
  { unfold file, file_of, pre. rewrite <- !app_assoc. reflexivity. }
  destruct (read_parameters_layout h1 ez its gs b0 b1 blocks proc pre (tail ++ data_section fs) st1 Wf Hg eq_refl Ef
              ltac:(rewrite P1; lia) ltac:(rewrite P1, Z1; exact Lpre) Hb Hbl Hpr ltac:(rewrite Lpre; unfold nlen in *; lia)) as [st2 [R2 [F2 Fl2]]].
  rewrite R2. fold pr. cbv zeta in Huh. rewrite Huh. cbn [hdr].
  cbv zeta in Hdata. destruct Hdata as (D1 & D2 & D3 & D4 & D5 & D6 & D7).
  set (pre2 := pre ++ [b0; b1; blocks; proc] ++ chain_of ez its ++ tail).
  assert (Ef2 : st_file st2 = pre2 ++ data_section fs).
  { rewrite Fl2. unfold st1. cbn [st_file]. rewrite Ef. unfold pre2. rewrite <- ?app_assoc. cbn [app]. rewrite <- ?app_assoc. cbn [app]. reflexivity. }
  assert (Lpre2 : nlen pre2 = 512 * (h_paddr h1 - 1) + h_zeros h1 + 512 * ps_blocks pr).
  { rewrite P1, Z1. unfold pr. cbn [ps_blocks]. unfold pre2, nlen in *. rewrite app_length. cbn [app length]. rewrite app_length. lia. }
  assert (B1 : 1 <= ps_blocks pr) by (unfold pr; cbn [ps_blocks]; lia).
  destruct (read_data_layout h1 pr gs st2 pre2 fs pn an F2 Ef2 ltac:(rewrite P1; lia) Lpre2 B1
              ltac:(rewrite Lpre2, P1, Z1; unfold pr; cbn [ps_blocks]; lia) D1 D2 D3 D4 D5 D6 D7) as [st3 R3].
  rewrite R3. reflexivity.
Qed.
End WithOps.
