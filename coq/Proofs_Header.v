(* Proofs_Header.v — what c3d::updateHeader establishes (C05, header half): whenever it returns normally,
   the header's point count, rate, channel count, samples per frame and frame count agree with
   POINT:USED / RATE / FRAMES and ANALOG:USED.  Every mutator ends with this updater, so this holds
   after every successful public call, from every state.  The updater is first factored into a pure
   function of (parameter tree, first stored frame, header). *)
From Coq Require Import Lia ZifyN.
From EZ Require Import Base Types Api Proofs_Lookup Proofs_Monad Proofs_Param Proofs_Store Proofs_Guards Proofs_Inv.
Local Open Scope N_scope.

Section WithOps.
Variable f_key : f32 -> outcome Z.
Variable f_tosize : f32 -> outcome N.
Variable f_div : f32 -> f32 -> f32.

(* sub-frames per frame: the data win when present, else the rate ratio (1 when the point rate truncates to 0) *)
Definition byframe_pure (gs : list group) (f0 : option frame) (rate : f32) (h : header) : outcome header :=
  let from_rates :=
    obind (group_named gs nm_ANALOG) (fun ga =>
    if negb (nlen (g_params ga) =? 0) then
      if f32_is_zero rate then Ok (if negb (h_byframe h =? 1) then h_set_byframe h 1 else h)
      else obind (r_float0 15 gs nm_ANALOG nm_RATE) (fun ar =>
           obind (f_tosize (f_div ar rate)) (fun q =>
           if negb (q =? h_byframe h)
           then obind (r_float0 16 gs nm_ANALOG nm_RATE) (fun ar2 => obind (f_tosize (f_div ar2 rate)) (fun q2 => Ok (h_set_byframe h q2)))
           else Ok h))
    else Ok h) in
  match f0 with
  | Some fr => if negb (nlen (fr_subs fr) =? 0)
               then Ok (if negb (nlen (fr_subs fr) =? h_byframe h) then h_set_byframe h (nlen (fr_subs fr)) else h)
               else from_rates
  | None => from_rates
  end.

Definition rate_points_pure (gs : list group) (h : header) : outcome (f32 * header) :=
  obind (r_float0 12 gs nm_POINT nm_RATE) (fun rate =>
  obind (f_key rate) (fun k1 => obind (f_key (h_rate h)) (fun k2 =>
  let h1 := if negb (k1 =? k2)%Z then h_set_rate h rate else h in
  obind (r_int0 13 gs nm_POINT nm_USED) (fun u =>
  if negb (z_to_usize u =? h_points h1)
  then obind (r_int0 14 gs nm_POINT nm_USED) (fun u2 => Ok (rate, h_set_points h1 (z_to_usize u2)))
  else Ok (rate, h1))))).

Definition analogs_pure (gs : list group) (h : header) : outcome header :=
  obind (group_named gs nm_ANALOG) (fun ga =>
  if negb (nlen (g_params ga) =? 0)
  then obind (r_int0 17 gs nm_ANALOG nm_USED) (fun au =>
       if negb (z_to_usize au =? h_nb_analogs h)
       then obind (r_int0 18 gs nm_ANALOG nm_USED) (fun au2 => Ok (h_set_nb_analogs h (z_to_usize au2)))
       else Ok h)
  else Ok (h_set_nb_analogs h 0)).

Definition frames_pure (gs : list group) (h : header) : outcome header :=
  obind (r_int0 10 gs nm_POINT nm_FRAMES) (fun fz =>
  if negb (z_to_usize fz =? h_nb_frames h)
  then obind (r_int0 11 gs nm_POINT nm_FRAMES) (fun fz2 => Ok (h_set_first_last h 0 (sub64 (z_to_usize fz2) 1)))
  else Ok h).

Definition uh_pure (gs : list group) (f0 : option frame) (h : header) : outcome header :=
  obind (rate_points_pure gs h) (fun '(rate, h2) =>
  obind (byframe_pure gs f0 rate h2) (fun h3 =>
  obind (analogs_pure gs h3) (fun h4 => frames_pure gs h4))).

Definition first_frame (b : bool) (s : state) : option frame :=
  match (if b then frames s else []) with f0 :: _ => Some f0 | [] => None end.

Lemma get_group_pure : forall n s, get_group n s = lift (group_named (groups s) n) s.
Proof. intros n s. unfold get_group. cbv [bind getS]. reflexivity. Qed.

Lemma mod_hdr_run : forall f s, mod_hdr f s = ROk tt (set_hdr s (f (hdr s))).
Proof. reflexivity. Qed.

Ltac sint H := unfold bind at 1 in H; rewrite int0_pure in H; cbn [groups set_hdr] in H.
Ltac sflt H := unfold bind at 1 in H; rewrite float0_pure in H; cbn [groups set_hdr] in H.
Ltac sgrp H := unfold bind at 1 in H; rewrite get_group_pure in H; cbn [groups set_hdr] in H.
Ltac sget H := unfold bind at 1 in H; cbv [getS] in H.
Ltac slift H := unfold bind at 1 in H.
(* case on the pure reader that both sides inspect *)
Ltac cs H X := destruct X; cbn [lift obind] in *; try discriminate.

(* the sub-frame steps *)
Lemma analog_rate_factor : forall s rate h u s',
  analog_rate_step f_tosize f_div rate (set_hdr s h) = ROk u s' ->
  exists h', obind (group_named (groups s) nm_ANALOG) (fun ga =>
      if negb (nlen (g_params ga) =? 0) then
        if f32_is_zero rate then Ok (if negb (h_byframe h =? 1) then h_set_byframe h 1 else h)
        else obind (r_float0 15 (groups s) nm_ANALOG nm_RATE) (fun ar =>
             obind (f_tosize (f_div ar rate)) (fun q =>
             if negb (q =? h_byframe h)
             then obind (r_float0 16 (groups s) nm_ANALOG nm_RATE) (fun ar2 => obind (f_tosize (f_div ar2 rate)) (fun q2 => Ok (h_set_byframe h q2)))
             else Ok h))
      else Ok h) = Ok h' /\ s' = set_hdr s h'.
Proof.
  intros s rate h u s' R. unfold analog_rate_step in R.
  sget R. cbn [hdr set_hdr] in R. sgrp R. cs R (group_named (groups s) nm_ANALOG). unfold when in R.
  destruct (negb (nlen (g_params a) =? 0)).
  - destruct (f32_is_zero rate).
    + destruct (negb (h_byframe h =? 1)); [rewrite mod_hdr_run in R|cbv [ret] in R]; injection R as _ <-; eexists; split; reflexivity.
    + sflt R. cs R (r_float0 15 (groups s) nm_ANALOG nm_RATE). slift R. cs R (f_tosize (f_div a0 rate)).
      destruct (negb (a1 =? h_byframe h)).
      * sflt R. cs R (r_float0 16 (groups s) nm_ANALOG nm_RATE). slift R. cs R (f_tosize (f_div a2 rate)).
        rewrite mod_hdr_run in R. injection R as _ <-. eexists; split; reflexivity.
      * cbv [ret] in R. injection R as _ <-. eexists; split; reflexivity.
  - cbv [ret] in R. injection R as _ <-. eexists; split; reflexivity.
Qed.

Lemma byframe_factor : forall (b : bool) s rate h u s',
  byframe_step f_tosize f_div b rate (set_hdr s h) = ROk u s' ->
  exists h', byframe_pure (groups s) (first_frame b s) rate h = Ok h' /\ s' = set_hdr s h'.
Proof.
  intros b s rate h u s' H. unfold byframe_step in H. sget H. cbn [frames hdr set_hdr] in H.
  unfold byframe_pure, first_frame.
  destruct (if b then frames s else []) as [|f0 t].
  - apply analog_rate_factor in H. exact H.
  - destruct (negb (nlen (fr_subs f0) =? 0)).
    + unfold when in H. destruct (negb (nlen (fr_subs f0) =? h_byframe h)); [rewrite mod_hdr_run in H|cbv [ret] in H]; injection H as _ <-; eexists; split; reflexivity.
    + apply analog_rate_factor in H. exact H.
Qed.

Lemma rate_points_factor : forall s h rate s',
  uh_rate_points f_key (set_hdr s h) = ROk rate s' ->
  exists h', rate_points_pure (groups s) h = Ok (rate, h') /\ s' = set_hdr s h'.
Proof.
  intros s h rate0 s' H. unfold uh_rate_points in H. unfold rate_points_pure.
  sflt H. cs H (r_float0 12 (groups s) nm_POINT nm_RATE). rename a into rate.
  sget H. cbn [hdr set_hdr] in H. slift H. cs H (f_key rate). rename a into k1.
  slift H. cs H (f_key (h_rate h)). rename a into k2.
  unfold bind at 1 in H. unfold when at 1 in H.
  set (h1 := if negb (k1 =? k2)%Z then h_set_rate h rate else h) in *.
  assert (E1 : (if negb (k1 =? k2)%Z then mod_hdr (fun h => h_set_rate h rate) else ret tt) (set_hdr s h) = ROk tt (set_hdr s h1)).
  { unfold h1. destruct (negb (k1 =? k2)%Z); reflexivity. }
  rewrite E1 in H. clear E1. clearbody h1.
  sint H. cs H (r_int0 13 (groups s) nm_POINT nm_USED). rename a into u.
  sget H. cbn [hdr set_hdr] in H. unfold bind at 1 in H. unfold when in H.
  destruct (negb (z_to_usize u =? h_points h1)).
  - sint H. cs H (r_int0 14 (groups s) nm_POINT nm_USED). rewrite mod_hdr_run in H. cbv [ret] in H. injection H as <- <-.
    eexists. split; reflexivity.
  - cbv [ret] in H. injection H as <- <-. eexists. split; reflexivity.
Qed.

Lemma analogs_factor : forall s h u s',
  uh_analogs (set_hdr s h) = ROk u s' -> exists h', analogs_pure (groups s) h = Ok h' /\ s' = set_hdr s h'.
Proof.
  intros s h u s' H. unfold uh_analogs in H. unfold analogs_pure.
  sgrp H. cs H (group_named (groups s) nm_ANALOG). destruct (negb (nlen (g_params a) =? 0)).
  - sint H. cs H (r_int0 17 (groups s) nm_ANALOG nm_USED). sget H. cbn [hdr set_hdr] in H. unfold when in H.
    destruct (negb (z_to_usize a0 =? h_nb_analogs h)).
    + sint H. cs H (r_int0 18 (groups s) nm_ANALOG nm_USED). rewrite mod_hdr_run in H. injection H as _ <-. eexists. split; reflexivity.
    + cbv [ret] in H. injection H as _ <-. eexists. split; reflexivity.
  - rewrite mod_hdr_run in H. injection H as _ <-. eexists. split; reflexivity.
Qed.

Lemma frames_factor : forall s h u s',
  uh_frames (set_hdr s h) = ROk u s' -> exists h', frames_pure (groups s) h = Ok h' /\ s' = set_hdr s h'.
Proof.
  intros s h u s' H. unfold uh_frames in H. unfold frames_pure.
  sint H. cs H (r_int0 10 (groups s) nm_POINT nm_FRAMES). sget H. cbn [hdr set_hdr] in H. unfold when in H.
  destruct (negb (z_to_usize a =? h_nb_frames h)).
  - sint H. cs H (r_int0 11 (groups s) nm_POINT nm_FRAMES). rewrite mod_hdr_run in H. injection H as _ <-. eexists. split; reflexivity.
  - cbv [ret] in H. injection H as _ <-. eexists. split; reflexivity.
Qed.

(* normal return of the updater = the pure function on the header, everything else untouched *)
Theorem update_header_factor : forall b s s',
  update_header f_key f_tosize f_div b s = ROk tt s' ->
  uh_pure (groups s) (first_frame b s) (hdr s) = Ok (hdr s') /\ s' = set_hdr s (hdr s').
Proof.
  intros b s s' H.
  assert (S0 : set_hdr s (hdr s) = s) by (destruct s; reflexivity).
  unfold update_header in H. unfold uh_pure. rewrite <- S0 in H at 1.
  unfold bind at 1 in H. destruct (uh_rate_points f_key (set_hdr s (hdr s))) as [rate s1|e s1|t] eqn:R1; try discriminate.
  apply rate_points_factor in R1. destruct R1 as [h2 [P2 ->]]. rewrite P2. cbn [obind].
  unfold bind at 1 in H. destruct (byframe_step f_tosize f_div b rate (set_hdr s h2)) as [u3 s3|e s3|t] eqn:R3; try discriminate.
  apply byframe_factor in R3. destruct R3 as [h3 [P3 ->]]. rewrite P3. cbn [obind].
  unfold bind at 1 in H. destruct (uh_analogs (set_hdr s h3)) as [u4 s4|e s4|t] eqn:R4; try discriminate.
  apply analogs_factor in R4. destruct R4 as [h4 [P4 ->]]. rewrite P4. cbn [obind].
  apply frames_factor in H. destruct H as [h5 [P5 ->]]. rewrite P5. cbn [hdr set_hdr]. split; reflexivity.
Qed.

(* ---------- what the pure updater establishes ---------- *)
Definition exact (h : header) : Prop := h_meas h = h_nb_analogs h * h_byframe h.

Lemma exact_set_nb_analogs : forall h a, a * h_byframe h < two64 -> exact (h_set_nb_analogs h a).
Proof.
  intros h a W. unfold exact. destruct (N.eq_dec (h_byframe h) 0) as [Z0|NZ].
  - unfold h_set_nb_analogs, h_nb_analogs, h_set_meas. cbn [h_meas h_byframe]. rewrite Z0. cbn. rewrite N.mul_0_r. reflexivity.
  - destruct (set_nb_analogs_spec h a NZ W) as [H1 [H2 H3]]. rewrite H2, H1, H3. reflexivity.
Qed.
Lemma exact_set_byframe : forall h n, h_nb_analogs h * n < two64 -> exact (h_set_byframe h n).
Proof.
  intros h n W. unfold h_set_byframe. apply exact_set_nb_analogs. exact W.
Qed.
Lemma nb_analogs_set : forall h a, h_byframe h <> 0 -> a * h_byframe h < two64 -> h_nb_analogs (h_set_nb_analogs h a) = a.
Proof. intros h a NZ W. destruct (set_nb_analogs_spec h a NZ W) as [H1 _]. exact H1. Qed.

(* setters of other fields leave the analog counts alone *)
Lemma analog_fields_set_rate : forall h r, h_meas (h_set_rate h r) = h_meas h /\ h_byframe (h_set_rate h r) = h_byframe h /\ h_points (h_set_rate h r) = h_points h.
Proof. intros; repeat split. Qed.
Lemma analog_fields_set_points : forall h v, h_meas (h_set_points h v) = h_meas h /\ h_byframe (h_set_points h v) = h_byframe h /\ h_rate (h_set_points h v) = h_rate h.
Proof. intros; repeat split. Qed.

Lemma rate_points_spec : forall gs h rate h2, rate_points_pure gs h = Ok (rate, h2) ->
  r_float0 12 gs nm_POINT nm_RATE = Ok rate /\
  (exists u, r_int0 13 gs nm_POINT nm_USED = Ok u /\ (r_int0 14 gs nm_POINT nm_USED = r_int0 13 gs nm_POINT nm_USED -> h_points h2 = z_to_usize u)) /\
  (exists k, f_key rate = Ok k /\ f_key (h_rate h2) = Ok k) /\
  h_meas h2 = h_meas h /\ h_byframe h2 = h_byframe h /\ h_first h2 = h_first h /\ h_last h2 = h_last h.
Proof.
  intros gs h rate0 h2 H. unfold rate_points_pure in H.
  destruct (r_float0 12 gs nm_POINT nm_RATE) as [rate| |]; cbn [obind] in H; try discriminate.
  destruct (f_key rate) as [k1| |] eqn:K1; cbn [obind] in H; try discriminate.
  destruct (f_key (h_rate h)) as [k2| |] eqn:K2; cbn [obind] in H; try discriminate.
  set (h1 := if negb (k1 =? k2)%Z then h_set_rate h rate else h) in *.
  assert (R1 : f_key (h_rate h1) = Ok k1 /\ h_meas h1 = h_meas h /\ h_byframe h1 = h_byframe h /\ h_first h1 = h_first h /\ h_last h1 = h_last h /\ True).
  { unfold h1. destruct (k1 =? k2)%Z eqn:E; cbn [negb].
    - apply Z.eqb_eq in E. subst k2. repeat split. exact K2.
    - repeat split. exact K1. }
  destruct R1 as [Rk [Rm [Rb [Rf [Rl _]]]]]. clearbody h1.
  destruct (r_int0 13 gs nm_POINT nm_USED) as [u| |] eqn:U13; cbn [obind] in H; try discriminate.
  destruct (negb (z_to_usize u =? h_points h1)) eqn:C.
  - destruct (r_int0 14 gs nm_POINT nm_USED) as [u2| |] eqn:U14; cbn [obind] in H; try discriminate.
    injection H as <- <-. split; [reflexivity|]. split.
    + exists u. split; [reflexivity|]. intros E. injection E as ->. reflexivity.
    + split; [exists k1; split; [exact K1|exact Rk]|]. cbn. auto.
  - injection H as <- <-. apply Bool.negb_false_iff in C. apply N.eqb_eq in C. split; [reflexivity|]. split.
    + exists u. split; [reflexivity|]. intros _. symmetry. exact C.
    + split; [exists k1; split; [exact K1|exact Rk]|]. auto.
Qed.

Lemma r_int0_site : forall k1 k2 gs g n, r_int0 k1 gs g n = r_int0 k2 gs g n.
Proof. reflexivity. Qed.

Lemma byframe_spec : forall gs f0 rate h h3, byframe_pure gs f0 rate h = Ok h3 ->
  h_points h3 = h_points h /\ h_rate h3 = h_rate h /\ h_first h3 = h_first h /\ h_last h3 = h_last h /\
  (h3 = h \/ exists n, h3 = h_set_byframe h n) /\
  (forall fr, f0 = Some fr -> fr_subs fr <> [] -> h_byframe h3 = nlen (fr_subs fr)).
Proof.
  intros gs f0 rate h h3 H. unfold byframe_pure in H.
  assert (SB : forall n, h_points (h_set_byframe h n) = h_points h /\ h_rate (h_set_byframe h n) = h_rate h /\
                         h_first (h_set_byframe h n) = h_first h /\ h_last (h_set_byframe h n) = h_last h /\ h_byframe (h_set_byframe h n) = n) by (intros; repeat split).
  assert (RATES : forall hx,
    obind (group_named gs nm_ANALOG) (fun ga =>
      if negb (nlen (g_params ga) =? 0) then
        if f32_is_zero rate then Ok (if negb (h_byframe h =? 1) then h_set_byframe h 1 else h)
        else obind (r_float0 15 gs nm_ANALOG nm_RATE) (fun ar =>
             obind (f_tosize (f_div ar rate)) (fun q =>
             if negb (q =? h_byframe h)
             then obind (r_float0 16 gs nm_ANALOG nm_RATE) (fun ar2 => obind (f_tosize (f_div ar2 rate)) (fun q2 => Ok (h_set_byframe h q2)))
             else Ok h))
      else Ok h) = Ok hx -> hx = h \/ exists n, hx = h_set_byframe h n).
  { intros hx R. destruct (group_named gs nm_ANALOG) as [ga| |]; cbn [obind] in R; try discriminate.
    destruct (negb (nlen (g_params ga) =? 0)); [|injection R as <-; left; reflexivity].
    destruct (f32_is_zero rate).
    - destruct (negb (h_byframe h =? 1)); injection R as <-; [right; eexists; reflexivity|left; reflexivity].
    - destruct (r_float0 15 gs nm_ANALOG nm_RATE) as [ar| |]; cbn [obind] in R; try discriminate.
      destruct (f_tosize (f_div ar rate)) as [q| |]; cbn [obind] in R; try discriminate.
      destruct (negb (q =? h_byframe h)); [|injection R as <-; left; reflexivity].
      destruct (r_float0 16 gs nm_ANALOG nm_RATE) as [ar2| |]; cbn [obind] in R; try discriminate.
      destruct (f_tosize (f_div ar2 rate)) as [q2| |]; cbn [obind] in R; try discriminate.
      injection R as <-. right. eexists; reflexivity. }
  assert (FROM : (h3 = h \/ exists n, h3 = h_set_byframe h n) ->
     h_points h3 = h_points h /\ h_rate h3 = h_rate h /\ h_first h3 = h_first h /\ h_last h3 = h_last h /\ (h3 = h \/ exists n, h3 = h_set_byframe h n)).
  { intros [->|[n ->]]; [repeat split; left; reflexivity|]. destruct (SB n) as [A [B [C [D _]]]]. repeat split; auto. right. eexists; reflexivity. }
  destruct f0 as [fr|].
  - destruct (negb (nlen (fr_subs fr) =? 0)) eqn:NE.
    + assert (X : h3 = h \/ exists n, h3 = h_set_byframe h n).
      { destruct (negb (nlen (fr_subs fr) =? h_byframe h)); injection H as <-; [right; eexists; reflexivity|left; reflexivity]. }
      destruct (FROM X) as [A [B [C [D E]]]]. repeat split; auto.
      intros fr' Ef _. injection Ef as <-.
      destruct (negb (nlen (fr_subs fr) =? h_byframe h)) eqn:Q; injection H as <-; [reflexivity|].
      apply Bool.negb_false_iff in Q. apply N.eqb_eq in Q. symmetry. exact Q.
    + apply RATES in H. destruct (FROM H) as [A [B [C [D E]]]]. repeat split; auto.
      intros fr' Ef Hne. injection Ef as <-. apply Bool.negb_false_iff in NE. apply N.eqb_eq in NE.
      destruct (fr_subs fr); [congruence|]. unfold nlen in NE. cbn in NE. lia.
  - apply RATES in H. destruct (FROM H) as [A [B [C [D E]]]]. repeat split; auto. intros fr Ef. discriminate.
Qed.

Lemma analogs_spec : forall gs h h4, analogs_pure gs h = Ok h4 ->
  h_points h4 = h_points h /\ h_rate h4 = h_rate h /\ h_byframe h4 = h_byframe h /\ h_first h4 = h_first h /\ h_last h4 = h_last h /\
  (h4 = h \/ exists a, h4 = h_set_nb_analogs h a) /\
  exists ga, group_named gs nm_ANALOG = Ok ga /\
    (g_params ga = [] -> h4 = h_set_nb_analogs h 0) /\
    (g_params ga <> [] -> exists au, r_int0 17 gs nm_ANALOG nm_USED = Ok au /\
        (h4 = h /\ h_nb_analogs h = z_to_usize au \/ h4 = h_set_nb_analogs h (z_to_usize au))).
Proof.
  intros gs h h4 H. unfold analogs_pure in H.
  assert (SA : forall a, h_points (h_set_nb_analogs h a) = h_points h /\ h_rate (h_set_nb_analogs h a) = h_rate h /\
                         h_byframe (h_set_nb_analogs h a) = h_byframe h /\ h_first (h_set_nb_analogs h a) = h_first h /\ h_last (h_set_nb_analogs h a) = h_last h) by (intros; repeat split).
  destruct (group_named gs nm_ANALOG) as [ga| |]; cbn [obind] in H; try discriminate.
  destruct (negb (nlen (g_params ga) =? 0)) eqn:NE.
  - destruct (r_int0 17 gs nm_ANALOG nm_USED) as [au| |] eqn:A17; cbn [obind] in H; try discriminate.
    destruct (negb (z_to_usize au =? h_nb_analogs h)) eqn:C.
    + rewrite (r_int0_site 18 17), A17 in H. cbn [obind] in H. injection H as <-.
      destruct (SA (z_to_usize au)) as [A [B [C1 [D E]]]]. repeat split; auto; [right; eexists; reflexivity|].
      exists ga. split; [reflexivity|]. split.
      * intros Z. rewrite Z in NE. discriminate.
      * intros _. exists au. split; [reflexivity|]. right. reflexivity.
    + injection H as <-. apply Bool.negb_false_iff in C. apply N.eqb_eq in C.
      repeat split; auto. exists ga. split; [reflexivity|]. split.
      * intros Z. rewrite Z in NE. discriminate.
      * intros _. exists au. split; [reflexivity|]. left. split; [reflexivity|]. symmetry. exact C.
  - injection H as <-. destruct (SA 0) as [A [B [C1 [D E]]]]. repeat split; auto; [right; eexists; reflexivity|].
    exists ga. split; [reflexivity|]. split; [intros _; reflexivity|].
    intros Hne. apply Bool.negb_false_iff in NE. apply N.eqb_eq in NE. destruct (g_params ga); [congruence|]. unfold nlen in NE. cbn in NE. lia.
Qed.

Lemma frames_spec : forall gs h h5, frames_pure gs h = Ok h5 ->
  h_points h5 = h_points h /\ h_rate h5 = h_rate h /\ h_byframe h5 = h_byframe h /\ h_meas h5 = h_meas h /\
  exists fz, r_int0 10 gs nm_POINT nm_FRAMES = Ok fz /\
    ((h_points h5 <> 0 \/ h_nb_analogs h5 <> 0) -> h_nb_frames h5 = z_to_usize fz).
Proof.
  intros gs h h5 H. unfold frames_pure in H.
  destruct (r_int0 10 gs nm_POINT nm_FRAMES) as [fz| |] eqn:F10; cbn [obind] in H; try discriminate.
  destruct (negb (z_to_usize fz =? h_nb_frames h)) eqn:C.
  - rewrite (r_int0_site 11 10), F10 in H. cbn [obind] in H. injection H as <-.
    repeat split. exists fz. split; [reflexivity|]. intros Hs.
    apply nb_frames_after_range.
    + unfold z_to_usize, two64. assert (0 <= fz mod 18446744073709551616 < 18446744073709551616)%Z by (apply Z.mod_pos_bound; lia). lia.
    + exact Hs.
  - injection H as <-. apply Bool.negb_false_iff in C. apply N.eqb_eq in C.
    repeat split. exists fz. split; [reflexivity|]. intros _. symmetry. exact C.
Qed.

Lemma nb_analogs_ext : forall h h', h_meas h' = h_meas h -> h_byframe h' = h_byframe h -> h_nb_analogs h' = h_nb_analogs h.
Proof. intros h h' H1 H2. unfold h_nb_analogs. rewrite H1, H2. reflexivity. Qed.

(* THE HEADER FOLLOWS THE PARAMETERS: after any normal return of updateHeader *)
Theorem update_header_agrees : forall b s s',
  update_header f_key f_tosize f_div b s = ROk tt s' ->
  groups s' = groups s /\ frames s' = frames s /\ pro s' = pro s /\
  (* point count and rate *)
  (exists u, r_int0 13 (groups s) nm_POINT nm_USED = Ok u /\ h_points (hdr s') = z_to_usize u) /\
  (exists rate k, r_float0 12 (groups s) nm_POINT nm_RATE = Ok rate /\ f_key rate = Ok k /\ f_key (h_rate (hdr s')) = Ok k) /\
  (* frame count *)
  (exists fz, r_int0 10 (groups s) nm_POINT nm_FRAMES = Ok fz /\
     ((h_points (hdr s') <> 0 \/ h_nb_analogs (hdr s') <> 0) -> h_nb_frames (hdr s') = z_to_usize fz)) /\
  (* channel count *)
  (exists ga, group_named (groups s) nm_ANALOG = Ok ga /\
     (g_params ga = [] -> h_meas (hdr s') = 0) /\
     (g_params ga <> [] -> exists au, r_int0 17 (groups s) nm_ANALOG nm_USED = Ok au /\
        (h_byframe (hdr s') <> 0 -> z_to_usize au * h_byframe (hdr s') < two64 -> h_nb_analogs (hdr s') = z_to_usize au))) /\
  (* sub-frames: the data win *)
  (forall fr, first_frame b s = Some fr -> fr_subs fr <> [] -> h_byframe (hdr s') = nlen (fr_subs fr)).
Proof.
  intros b s s' H. pose proof (keeps_update_header f_key f_tosize f_div b s) as K. rewrite H in K. destruct K as [K1 [K2 K3]].
  apply update_header_factor in H. destruct H as [P _]. unfold uh_pure in P.
  destruct (rate_points_pure (groups s) (hdr s)) as [[rate h2]| |] eqn:E2; cbn [obind] in P; try discriminate.
  destruct (byframe_pure (groups s) (first_frame b s) rate h2) as [h3| |] eqn:E3; cbn [obind] in P; try discriminate.
  destruct (analogs_pure (groups s) h3) as [h4| |] eqn:E4; cbn [obind] in P; try discriminate.
  destruct (rate_points_spec _ _ _ _ E2) as [R1 [[u [U1 U2]] [[k [Kr Kh]] [M2 [B2 [F2 L2]]]]]].
  destruct (byframe_spec _ _ _ _ _ E3) as [P3 [Rt3 [F3 [L3 [_ D3]]]]].
  destruct (analogs_spec _ _ _ E4) as [P4 [Rt4 [B4 [F4 [L4 [_ [ga [G4 [GE GN]]]]]]]]].
  destruct (frames_spec _ _ _ P) as [P5 [Rt5 [B5 [M5 [fz [FZ FR]]]]]].
  split; [exact K1|]. split; [exact K2|]. split; [exact K3|].
  split; [exists u; split; [exact U1|]; rewrite P5, P4, P3; apply U2; reflexivity|].
  split; [exists rate, k; split; [exact R1|]; split; [exact Kr|]; rewrite Rt5, Rt4, Rt3; exact Kh|].
  split; [exists fz; split; [exact FZ|exact FR]|].
  split.
  - exists ga. split; [exact G4|]. split.
    + intros Z. rewrite M5. rewrite (GE Z). unfold h_set_nb_analogs, h_set_meas. cbn [h_meas]. unfold wrap64. cbn. reflexivity.
    + intros NZ. destruct (GN NZ) as [au [A17 Hcase]]. exists au. split; [exact A17|]. intros Hb W.
      rewrite (nb_analogs_ext h4 (hdr s') M5 B5). rewrite B5, B4 in Hb, W.
      destruct Hcase as [[E0 E]|E0]; rewrite E0; [exact E|]. apply nb_analogs_set; assumption.
  - intros fr Ef Hne. rewrite B5, B4. apply (D3 fr Ef Hne).
Qed.

(* samples per frame = channels x sub-frames is kept, and is established whenever one of the two setters runs *)
Theorem update_header_exact : forall b s s',
  update_header f_key f_tosize f_div b s = ROk tt s' ->
  exact (hdr s) ->
  h_nb_analogs (hdr s) * h_byframe (hdr s') < two64 ->
  (forall au, r_int0 17 (groups s) nm_ANALOG nm_USED = Ok au -> z_to_usize au * h_byframe (hdr s') < two64) ->
  exact (hdr s').
Proof.
  intros b s s' H Ex W1 W2.
  apply update_header_factor in H. destruct H as [P _]. unfold uh_pure in P.
  destruct (rate_points_pure (groups s) (hdr s)) as [[rate h2]| |] eqn:E2; cbn [obind] in P; try discriminate.
  destruct (byframe_pure (groups s) (first_frame b s) rate h2) as [h3| |] eqn:E3; cbn [obind] in P; try discriminate.
  destruct (analogs_pure (groups s) h3) as [h4| |] eqn:E4; cbn [obind] in P; try discriminate.
  destruct (rate_points_spec _ _ _ _ E2) as [_ [_ [_ [M2 [B2 _]]]]].
  destruct (byframe_spec _ _ _ _ _ E3) as [_ [_ [_ [_ [C3 _]]]]].
  destruct (analogs_spec _ _ _ E4) as [_ [_ [B4 [_ [_ [_ [ga [G4 [GE GN]]]]]]]]].
  destruct (frames_spec _ _ _ P) as [_ [_ [B5 [M5 _]]]].
  assert (Ex2 : exact h2) by (unfold exact, h_nb_analogs in *; rewrite M2, B2; exact Ex).
  assert (N2 : h_nb_analogs h2 = h_nb_analogs (hdr s)) by (apply nb_analogs_ext; assumption).
  assert (Ex3 : exact h3).
  { destruct C3 as [->|[n ->]]; [exact Ex2|]. apply exact_set_byframe. rewrite N2.
    assert (Bn : h_byframe (hdr s') = n) by (rewrite B5, B4; reflexivity). rewrite <- Bn. exact W1. }
  assert (Ex4 : exact h4).
  { destruct (g_params ga) as [|p0 pt] eqn:GP.
    - rewrite (GE eq_refl). apply exact_set_nb_analogs. unfold two64. lia.
    - destruct (GN ltac:(discriminate)) as [au [A17 [[E0 _]|E0]]]; rewrite E0; [exact Ex3|].
      apply exact_set_nb_analogs. specialize (W2 au A17). rewrite B5, B4 in W2. exact W2. }
  unfold exact, h_nb_analogs in *. rewrite M5, B5. exact Ex4.
Qed.
End WithOps.

(* ---------- every mutator that returns normally ends with the header updater ---------- *)
Section Ends.
Variable f_key : f32 -> outcome Z.
Variable f_tosize : f32 -> outcome N.
Variable f_div : f32 -> f32 -> f32.
Variable f_is_zero : f32 -> bool.

Definition ends_with_uh (s' : state) : Prop := exists s0, update_header f_key f_tosize f_div true s0 = ROk tt s'.

Lemma bind_last : forall A B (m : Mst A) (k : A -> Mst B) s b s',
  bind m k s = ROk b s' -> exists a s1, k a s1 = ROk b s'.
Proof. intros A B m k s b s' H. apply bind_ok in H. destruct H as [a [s1 [_ H]]]. eauto. Qed.

Ltac to_last H :=
  repeat (match type of H with
          | update_header _ _ _ _ _ = _ => fail 1
          | update_parameters _ _ _ _ _ _ = _ => fail 1
          | api_point_col _ _ _ _ _ = _ => fail 1
          | api_analog_col _ _ _ _ _ = _ => fail 1
          | _ => apply bind_last in H; let a := fresh "a" in let s1 := fresh "s" in destruct H as [a [s1 H]]
          end).

Lemma update_parameters_ends : forall nP nA s s', update_parameters f_key f_tosize f_div nP nA s = ROk tt s' -> ends_with_uh s'.
Proof. intros nP nA s s' H. unfold update_parameters in H. to_last H. eexists. exact H. Qed.

Lemma api_parameter_ends : forall g p s s', api_parameter f_key f_tosize f_div g p s = ROk tt s' -> ends_with_uh s'.
Proof. intros g p s s' H. unfold api_parameter in H. to_last H. eexists. exact H. Qed.

Lemma api_frame_ends : forall f idx s s', api_frame f_key f_tosize f_div f_is_zero f idx s = ROk tt s' -> ends_with_uh s'.
Proof.
  intros f idx s s' H. unfold api_frame in H. to_last H.
  eapply update_parameters_ends; exact H.
Qed.

Lemma api_point_col_ends : forall news s s', api_point_col f_key f_tosize f_div news s = ROk tt s' -> ends_with_uh s'.
Proof.
  intros news s s' H. unfold api_point_col in H. to_last H.
  eapply update_parameters_ends; exact H.
Qed.
Lemma api_analog_col_ends : forall news s s', api_analog_col f_key f_tosize f_div news s = ROk tt s' -> ends_with_uh s'.
Proof.
  intros news s s' H. unfold api_analog_col in H. to_last H.
  eapply update_parameters_ends; exact H.
Qed.
Lemma api_point_ends : forall n s s', api_point f_key f_tosize f_div n s = ROk tt s' -> ends_with_uh s'.
Proof.
  intros n s s' H. unfold api_point in H. apply bind_last in H. destruct H as [a [s1 H]].
  destruct (negb (nlen (frames a) =? 0)); [eapply api_point_col_ends|eapply update_parameters_ends]; exact H.
Qed.
Lemma api_analog_ends : forall n s s', api_analog f_key f_tosize f_div n s = ROk tt s' -> ends_with_uh s'.
Proof.
  intros n s s' H. unfold api_analog in H. apply bind_last in H. destruct H as [a [s1 H]].
  destruct (negb (nlen (frames a) =? 0)); [eapply api_analog_col_ends|eapply update_parameters_ends]; exact H.
Qed.

(* every public mutator except the two lock toggles (which touch one flag) *)
Theorem step_ends_with_updater : forall s o s',
  step f_key f_tosize f_div f_is_zero s o = ROk tt s' ->
  match o with OLock _ | OUnlock _ => True | _ => ends_with_uh s' end.
Proof.
  intros s o s' H. destruct o; cbn [step] in H; try exact I.
  - eapply api_parameter_ends; exact H.
  - eapply api_frame_ends; exact H.
  - eapply api_point_ends; exact H.
  - eapply api_point_col_ends; exact H.
  - eapply api_analog_ends; exact H.
  - eapply api_analog_col_ends; exact H.
Qed.
End Ends.
