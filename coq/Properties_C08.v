(* Properties_C08.v — C08: stored data is independent of the caller's objects and of other frames.
   world = heap of points/analogs objects + stored frames and caller frames as pairs of handles
   (Proofs_Heap.v).  The value model used everywhere else is justified by these theorems; the tie to
   the C++ is the C08 check: histories where one caller frame is handed over several times, copied,
   mutated between and after, stored frames edited in place, columns added — compared with the value
   model and with the direct comparison of snapshots. *)
From Coq Require Import Lia.
From EZ Require Import Base Types Api Heap Proofs_Heap.

Theorem C08_separation_is_invariant :
  Sep (mkWorld heap0 [] []) /\
  (forall w f, Sep w -> Sep (w_store_append w f)) /\
  (forall w j pts, Sep w -> Sep (w_caller_write_p w j pts)) /\
  (forall w j subs, Sep w -> Sep (w_caller_write_a w j subs)) /\
  (forall w i, Sep w -> Sep (w_copy w i)).
Proof. exact (conj sep_empty (conj sep_store_append (conj sep_caller_write_p (conj sep_caller_write_a sep_copy)))). Qed.
Print Assumptions C08_separation_is_invariant.

(* later changes to the caller's own points or analogs do not change what the object stores *)
Theorem C08_caller_cannot_change_store :
  (forall w j pts, Sep w -> store_view (w_caller_write_p w j pts) = store_view w) /\
  (forall w j subs, Sep w -> store_view (w_caller_write_a w j subs) = store_view w).
Proof. exact (conj caller_write_p_keeps_store caller_write_a_keeps_store). Qed.
Print Assumptions C08_caller_cannot_change_store.

(* handing a frame over stores exactly its value, as a new independent frame; the others are untouched *)
Theorem C08_store_is_a_copy : forall w f, Sep w -> store_view (w_store_append w f) = store_view w ++ [f].
Proof. exact store_append_view. Qed.
Print Assumptions C08_store_is_a_copy.

(* the statement is false of a store that copies the handles (the defect repaired in Data::frame) *)
Theorem C08_sharing_refuted : exists w pts,
  let w1 := w_store_append_shared (w_store_append_shared w 0) 0 in
  store_view (w_caller_write_p w1 0 pts) <> store_view w1.
Proof. exact sharing_refuted. Qed.
Print Assumptions C08_sharing_refuted.

Example C08_nonvacuous : exists w, Sep w /\ length (w_store w) = 2%nat /\ length (w_regs w) = 1%nat.
Proof.
  exists (w_store_append (w_store_append (w_new (mkWorld heap0 [] [])) empty_frame) empty_frame).
  split; [apply sep_store_append, sep_store_append|split; reflexivity].
  unfold w_new, h_new, Sep. cbn. repeat split.
  all: try (apply NoDup_nil); try (intros x [H|[]]; rewrite <- H; apply Nat.lt_0_1); try (intros x []).
Qed.
Print Assumptions C08_nonvacuous.
