(* Spec_Structure.v — the structure of a C3D file as ANOTHER reader sees it, following only the file's own pointers
   (C03): the parameter block address in byte 1, the data-start word of the header, the block count of the parameter
   section, and for every record the offset to the next record.  Written from the format description, positionally on the
   byte list; it shares nothing with the model of the library's loader (Dec.v). *)
From EZ Require Import Base.
Local Open Scope N_scope.

Definition u8 (file : list N) (q : nat) : N := nth q file 0.
Definition u16 (file : list N) (q : nat) : N := u8 file q + 256 * u8 file (q + 1).
Definition s8 (b : N) : Z := if b <? 128 then Z.of_N b else (Z.of_N b - 256)%Z.

(* one record as found in the file: group id (negative: a group record), lock flag (negative name length), name, and
   everything between the offset word and the next record *)
Record srec := mkS { sr_gid : Z; sr_lock : bool; sr_name : list N; sr_body : list N }.

Fixpoint chain (fuel : nat) (file : list N) (q : nat) : option (list srec) :=
  match fuel with
  | O => None
  | S f =>
      let n := s8 (u8 file q) in
      if (n =? 0)%Z then Some []                                   (* the end marker *)
      else
        let gid := s8 (u8 file (q + 1)) in
        let len := Z.to_nat (Z.abs n) in
        let name := firstn len (skipn (q + 2) file) in
        let off := N.to_nat (u16 file (q + 2 + len)) in
        if Nat.ltb off 2 then None                                 (* a record must point past its own offset word *)
        else
          let body := firstn (off - 2) (skipn (q + 2 + len + 2) file) in
          match chain f file (q + 2 + len + off) with
          | Some rest => Some (mkS gid (n <? 0)%Z name body :: rest)
          | None => None
          end
  end.

(* records, the block the data start at, and the data *)
Definition spec_structure (file : list N) : option (list srec * N * list N) :=
  if Nat.ltb (length file) 512 then None else
  let P := u8 file 0 in
  if negb (u8 file 1 =? 80) then None else
  let D := u16 file 16 in
  let sec := (512 * (N.to_nat P - 1))%nat in
  if negb (u8 file (sec + 1) =? 80) then None else
  let NB := u8 file (sec + 2) in
  if negb (512 * (P - 1) + 512 * NB =? 512 * (D - 1)) then None else   (* parameter blocks end where the data start *)
  match chain (length file) file (sec + 4) with
  | Some recs => Some (recs, D, skipn (N.to_nat (512 * (D - 1))) file)
  | None => None
  end.
