(* Properties_C19.v — C19: results do not depend on optimisation level or library kind.   (partial)
   What a model can carry: every operation whose result the C++ standard leaves open is explicit in the
   model — the byte assembly (signed overflow of the product, out-of-range pow conversion), the float
   conversions of the updater (CastRange verdicts), unchecked accesses (IdxOOB).  Proved: where the
   assembly is inside the defined domain (1-, 2-, 3-byte reads and 4-byte reads with a top byte below
   0x80) nothing is flagged, so every conforming build must compute the model's value; and the flagged
   sites are exactly the others.  Every load of a real file evaluates flagged operations (the 4-byte scale
   word of float data has its top bit set; the 270- and 44-byte reserved blocks go through pow(256, i>=4)):
   on those the agreement of the builds is VALIDATED by the C19 check on six CMake builds, never proved. *)
From Coq Require Import Lia.
From EZ Require Import Base Bytes Proofs_Bytes.
Local Open Scope Z_scope.

Theorem C19_defined_domain : forall bs, (length bs <= 3)%nat -> hex2uint_flag bs = false.
Proof.
  intros bs H. destruct bs as [|a [|b [|c [|d t]]]]; cbn in *; try reflexivity; lia.
Qed.
Print Assumptions C19_defined_domain.

Theorem C19_four_bytes : forall a b c d : N, hex2uint_flag [a; b; c; d] = (128 <=? Z.of_N d).
Proof. intros a b c d. cbn. rewrite Bool.orb_false_r. reflexivity. Qed.
Print Assumptions C19_four_bytes.

(* longer reads always leave the defined domain *)
Theorem C19_long_reads_flagged : forall bs, (5 <= length bs)%nat -> hex2uint_flag bs = true.
Proof.
  intros bs H. destruct bs as [|a [|b [|c [|d [|e t]]]]]; cbn in H; try lia.
  unfold hex2uint_flag. cbn. rewrite !Bool.orb_true_r. reflexivity.
Qed.
Print Assumptions C19_long_reads_flagged.

(* inside the domain the value is the plain little-endian number: nothing for a compiler to choose *)
Theorem C19_value_in_domain : forall u, 0 <= u < 65536 -> hex2uint (le_bytes 2 u) = u.
Proof. exact hex2uint_le2. Qed.
Print Assumptions C19_value_in_domain.

(* outside it the model records what x86-64 computes: the scale word FF FF FF FF of a new object *)
Example C19_flagged_exists : hex2uint_flag [255; 255; 255; 255]%N = true /\ hex2int [255; 255; 255; 255]%N = -1.
Proof. split; vm_compute; reflexivity. Qed.
Print Assumptions C19_flagged_exists.
