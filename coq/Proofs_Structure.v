(* Proofs_Structure.v — C03, end to end at the level of structure: the pointer-following reader of Spec_Structure.v, run on
   the file c3d::write produced for a tree of well-formed groups and parameters, finds exactly the records of the tree (every
   next-record offset lands on the next record, the chain ends on the end marker), the data-start word and the block count
   agree, and what follows the parameter blocks is the data section. *)
From Coq Require Import Lia ZifyNat ZifyN ZifyBool.
From EZ Require Import Base Bytes Types Api Enc Dec Proofs_Bytes Proofs_Lookup Proofs_Param Proofs_Codec Proofs_Section
  Proofs_Record Proofs_Chain Proofs_ChainW Spec_Structure.
Local Open Scope N_scope.

Definition item_srec (it : item) : srec :=
  match it with
  | IG gid g => mkS (- gid) (g_lock g) (upper (g_name g)) ([low8 (zlen (g_desc g))] ++ g_desc g)
  | IP gid p => mkS gid (p_lock p) (upper (p_name p)) (param_body p ++ param_tail p)
  end.

Lemma u8_app : forall (A X : list N) k, u8 (A ++ X) (length A + k) = u8 X k.
Proof. intros A X k. unfold u8. rewrite app_nth2 by lia. f_equal. lia. Qed.
Lemma skipn_app_plus : forall (A X : list N) k, skipn (length A + k) (A ++ X) = skipn k X.
Proof. intros A X k. induction A as [|a A IH]; cbn [length app skipn Nat.add]; [reflexivity|exact IH]. Qed.

Lemma s8_low8 : forall z, (-128 <= z < 128)%Z -> s8 (low8 z) = z.
Proof.
  intros z H. unfold s8, low8. destruct (Z.to_N (z mod 256) <? 128) eqn:E.
  - Ltac Zify.zify_post_hook ::= Z.div_mod_to_equations. lia.
  - lia.
Qed.

Lemma u16_le_bytes : forall z X, (0 <= z < 65536)%Z -> u16 (le_bytes 2 z ++ X) 0 = Z.to_N z.
Proof.
  intros z X H. unfold u16, u8. cbn [le_bytes app nth Nat.add]. lia.
Qed.

(* the three byte-level facts about a record head: [name length; group id] ++ NAME ++ offset word ++ BODY *)
Lemma chain_step : forall f file pre nl gb name off body rest (n gid : Z),
  file = pre ++ (nl :: gb :: name ++ le_bytes 2 off ++ body) ++ rest ->
  s8 nl = n -> n <> 0%Z -> Z.to_nat (Z.abs n) = length name -> s8 gb = gid ->
  (2 <= off < 65536)%Z -> length body = Z.to_nat (off - 2) ->
  chain (S f) file (length pre) =
    match chain f file (length (pre ++ (nl :: gb :: name ++ le_bytes 2 off ++ body))) with
    | Some r => Some (mkS gid (n <? 0)%Z name body :: r)
    | None => None
    end.
Proof.
  intros f file pre nl gb name off body rest n gid Ef Hn Hn0 Hl Hg Ho Hb. cbn [chain].
  set (X := (nl :: gb :: name ++ le_bytes 2 off ++ body) ++ rest) in *.
  assert (E0 : u8 file (length pre) = nl) by (rewrite Ef, <- (Nat.add_0_r (length pre)), u8_app; reflexivity).
  assert (E1 : u8 file (length pre + 1) = gb) by (rewrite Ef, u8_app; reflexivity).
  rewrite E0, E1, Hn, Hg. destruct (n =? 0)%Z eqn:Z0; [lia|]. rewrite Hl.
  assert (Sk : skipn (length pre + 2) file = name ++ le_bytes 2 off ++ body ++ rest).
  { rewrite Ef, skipn_app_plus. unfold X. cbn [app skipn]. rewrite <- !app_assoc. reflexivity. }
  rewrite Sk, firstn_app_exact.
  assert (Eo : u16 file (length pre + 2 + length name) = Z.to_N off).
  { unfold u16. replace (length pre + 2 + length name)%nat with (length (pre ++ nl :: gb :: name) + 0)%nat by (rewrite app_length; cbn [length]; lia).
    replace (length (pre ++ nl :: gb :: name) + 0 + 1)%nat with (length (pre ++ nl :: gb :: name) + 1)%nat by lia.
    assert (Ef2 : file = (pre ++ nl :: gb :: name) ++ (le_bytes 2 off ++ body ++ rest)).
    { rewrite Ef. unfold X. rewrite <- !app_assoc. cbn [app]. rewrite <- !app_assoc. reflexivity. }
    rewrite Ef2, !u8_app. exact (u16_le_bytes off (body ++ rest) ltac:(lia)). }
  rewrite Eo. replace (N.to_nat (Z.to_N off)) with (Z.to_nat off) by lia.
  assert (L2 : (Z.to_nat off <? 2)%nat = false) by (apply Nat.ltb_ge; lia). rewrite L2.
  assert (Sb : skipn (length pre + 2 + length name + 2) file = body ++ rest).
  { assert (Ef3 : file = (pre ++ nl :: gb :: name ++ le_bytes 2 off) ++ (body ++ rest)).
    { rewrite Ef. unfold X. rewrite <- !app_assoc. cbn [app]. rewrite <- !app_assoc. reflexivity. }
    rewrite Ef3. replace (length pre + 2 + length name + 2)%nat with (length (pre ++ nl :: gb :: name ++ le_bytes 2 off) + 0)%nat
      by (rewrite !app_length; cbn [length]; rewrite app_length, le_bytes_length; lia).
    rewrite skipn_app_plus. reflexivity. }
  rewrite Sb. replace (Z.to_nat off - 2)%nat with (length body) by lia. rewrite firstn_app_exact.
  replace (length pre + 2 + length name + Z.to_nat off)%nat with (length (pre ++ nl :: gb :: name ++ le_bytes 2 off ++ body)).
  - reflexivity.
  - rewrite !app_length. cbn [length]. rewrite !app_length, le_bytes_length. lia.
Qed.

Lemma s8_name_len : forall n lock, (1 <= length n <= 127)%nat ->
  let c := s8 (name_len_byte n lock) in c <> 0%Z /\ Z.to_nat (Z.abs c) = length n /\ (c <? 0)%Z = lock.
Proof.
  intros n lock H. unfold name_len_byte, zlen. destruct lock; cbv zeta; rewrite s8_low8 by lia; repeat split; lia.
Qed.

Theorem chain_items : forall its fuel file pre rest,
  Forall wf_item its -> (length its < fuel)%nat ->
  file = pre ++ concat (map item_bytes its) ++ 0 :: rest ->
  chain fuel file (length pre) = Some (map item_srec its).
Proof.
  induction its as [|it its IH]; intros fuel file pre rest W Fu Ef.
  - destruct fuel as [|f]; [cbn in Fu; lia|]. cbn [chain map concat app] in *.
    assert (E0 : u8 file (length pre) = 0) by (rewrite Ef, <- (Nat.add_0_r (length pre)), u8_app; reflexivity).
    rewrite E0. reflexivity.
  - destruct fuel as [|f]; [cbn in Fu; lia|].
    apply Forall_cons_iff in W. destruct W as [Wi W]. cbn [map concat] in Ef. rewrite <- app_assoc in Ef.
    destruct it as [gid g|gid p].
    + destruct Wi as [Hg [[Hn _] [Hd _]]]. destruct (s8_name_len (g_name g) (g_lock g) Hn) as [C0 [C1 C2]].
      cbn [item_bytes] in Ef. unfold group_record in Ef.
      assert (Lu : length (upper (g_name g)) = length (g_name g)) by (unfold upper; apply map_length).
      rewrite (chain_step f file pre (name_len_byte (g_name g) (g_lock g)) (low8 (- gid)) (upper (g_name g)) (3 + zlen (g_desc g))%Z
                 ([low8 (zlen (g_desc g))] ++ g_desc g) (concat (map item_bytes its) ++ 0 :: rest)
                 (s8 (name_len_byte (g_name g) (g_lock g))) (- gid)%Z).
      * rewrite (IH f file _ rest W); [|cbn in Fu; lia|].
        -- cbn [map item_srec]. rewrite C2. reflexivity.
        -- rewrite Ef. rewrite <- !app_assoc. cbn [app]. rewrite <- !app_assoc. reflexivity.
      * rewrite Ef. rewrite <- !app_assoc. cbn [app]. rewrite <- !app_assoc. reflexivity.
      * reflexivity.
      * exact C0.
      * unfold upper. rewrite map_length. exact C1.
      * apply s8_low8. lia.
      * unfold zlen. blia.
      * rewrite app_length. cbn [length]. unfold zlen. blia.
    + destruct Wi as [Hg [Wp Ho]]. pose proof Wp as [[Hn _] _]. destruct (s8_name_len (p_name p) (p_lock p) Hn) as [C0 [C1 C2]].
      cbn [item_bytes] in Ef. unfold param_bytes in Ef.
      assert (Lu : length (upper (p_name p)) = length (p_name p)) by (unfold upper; apply map_length).
      rewrite (chain_step f file pre (name_len_byte (p_name p) (p_lock p)) (low8 gid) (upper (p_name p))
                 (2 + zlen (param_body p) + zlen (param_tail p))%Z (param_body p ++ param_tail p)
                 (concat (map item_bytes its) ++ 0 :: rest) (s8 (name_len_byte (p_name p) (p_lock p))) gid).
      * rewrite (IH f file _ rest W); [|cbn in Fu; lia|].
        -- cbn [map item_srec]. rewrite C2. reflexivity.
        -- rewrite Ef. rewrite <- !app_assoc. cbn [app]. rewrite <- !app_assoc. reflexivity.
      * rewrite Ef. rewrite <- !app_assoc. cbn [app]. rewrite <- !app_assoc. reflexivity.
      * reflexivity.
      * exact C0.
      * unfold upper. rewrite map_length. exact C1.
      * apply s8_low8. lia.
      * unfold zlen in *. blia.
      * rewrite app_length. unfold zlen. blia.
Qed.

Lemma u8_nth_error : forall file q b, nth_error file q = Some b -> u8 file q = b.
Proof. intros file q b H. unfold u8. apply nth_error_nth. exact H. Qed.
Lemma u8_prefix : forall (A X : list N) q, (q < length A)%nat -> u8 (A ++ X) q = u8 A q.
Proof. intros A X q H. unfold u8. apply app_nth1. exact H. Qed.

Lemma header_word9 : forall h d, wf_header h -> d < 65536 -> u16 (header_bytes h d) 16 = d.
Proof.
  intros h d Wl Hd. destruct (header_bytes_fixed h d) as [_ [_ F]].
  assert (L : length (header_bytes h d) = 512%nat) by (apply header_bytes_length; exact Wl).
  destruct (skipn 16 (header_bytes h d)) as [|b0 [|b1 t]] eqn:S.
  - apply (f_equal (@length N)) in S. rewrite skipn_length, L in S. cbn in S. lia.
  - apply (f_equal (@length N)) in S. rewrite skipn_length, L in S. cbn in S. lia.
  - cbn [firstn] in F. unfold le_bytesN in F. cbn [le_bytes] in F. injection F as F0 F1.
    assert (N0 : nth 16 (header_bytes h d) 0 = b0).
    { rewrite <- (firstn_skipn 16 (header_bytes h d)), S. rewrite app_nth2; rewrite firstn_length, L; [reflexivity|lia]. }
    assert (N1 : nth 17 (header_bytes h d) 0 = b1).
    { rewrite <- (firstn_skipn 16 (header_bytes h d)), S. rewrite app_nth2; rewrite firstn_length, L; [reflexivity|lia]. }
    unfold u16, u8. cbn [Nat.add]. rewrite N0, N1, F0, F1.
    Ltac Zify.zify_post_hook ::= Z.div_mod_to_equations. lia.
Qed.

(* C03, structure: the file save wrote, read by following its own pointers *)
Theorem spec_structure_save : forall s bytes sec blocks,
  wf_header (hdr s) -> ok_tree (groups s) -> (nds (recs_of (groups s) 1) <= 1)%nat ->
  save s = Ok bytes -> section_bytes (pro s) (groups s) = Ok (sec, blocks) -> blocks + 1 < 256 ->
  Forall wf_item (items_v (groups s) 1 (blocks + 1)) ->
  spec_structure bytes = Some (map item_srec (items_v (groups s) 1 (blocks + 1)), blocks + 1, data_section (frames s)).
Proof.
  intros s bytes sec blocks Wl Hok Hn Sv Hs Hb Wf.
  assert (Eb : bytes = header_bytes (hdr s) (blocks + 1) ++ sec ++ data_section (frames s)).
  { unfold save in Sv. rewrite Hs in Sv. cbn [obind] in Sv. congruence. }
  destruct (section_canonical (pro s) (groups s) sec blocks Hok Hn Hs Hb) as [pad [Hp Es]].
  assert (Sh : nlen sec = 512 * (blocks - 1) /\ 2 <= blocks).
  { unfold section_bytes in Hs. destruct (groups_records (groups s) 1 512 _ None) as [[recs dsp]| |]; cbn [obind] in Hs; try discriminate.
    assert (F : finish_section recs dsp = (sec, blocks)) by congruence. destruct (finish_section_shape _ _ _ _ F) as [A [B _]]. auto. }
  destruct Sh as [Ls B2].
  set (H := header_bytes (hdr s) (blocks + 1)) in *.
  assert (Lh : length H = 512%nat) by (apply header_bytes_length; exact Wl).
  set (its := items_v (groups s) 1 (blocks + 1)) in *.
  set (s0 := low8 (Z.of_N (ps_start (pro s)))) in *. set (nb := low8 (Z.of_N (blocks - 1))) in *.
  assert (Enb : nb = blocks - 1) by (unfold nb; rewrite low8_small by lia; apply N2Z.id).
  unfold spec_structure.
  assert (L0 : (length bytes <? 512)%nat = false) by (apply Nat.ltb_ge; rewrite Eb, app_length; lia). rewrite L0.
  destruct (header_bytes_fixed (hdr s) (blocks + 1)) as [F0 [F1 _]]. fold H in F0, F1.
  assert (U0 : u8 bytes 0 = 2) by (rewrite Eb, u8_prefix by lia; apply u8_nth_error; exact F0).
  assert (U1 : u8 bytes 1 = 80) by (rewrite Eb, u8_prefix by lia; apply u8_nth_error; exact F1).
  assert (U16 : u16 bytes 16 = blocks + 1).
  { unfold u16. rewrite Eb, !u8_prefix by lia. apply (header_word9 (hdr s) (blocks + 1) Wl). lia. }
  rewrite U0, U1, U16. change (negb (80 =? 80)) with false. cbv iota.
  change (512 * (N.to_nat 2 - 1))%nat with 512%nat.
  assert (Esec : bytes = H ++ (s0 :: 80 :: nb :: 84 :: concat (map item_bytes its) ++ repeat 0 (N.to_nat pad)) ++ data_section (frames s)).
  { rewrite Eb, Es. reflexivity. }
  assert (S1 : u8 bytes (512 + 1) = 80) by (rewrite Esec, <- Lh, u8_app; reflexivity).
  assert (S2 : u8 bytes (512 + 2) = nb) by (rewrite Esec, <- Lh, u8_app; reflexivity).
  rewrite S1, S2, Enb. change (negb (80 =? 80)) with false. cbv iota.
  assert (Cn : negb (512 * (2 - 1) + 512 * (blocks - 1) =? 512 * (blocks + 1 - 1)) = false) by lia. rewrite Cn.
  assert (Pz : exists z, repeat 0 (N.to_nat pad) = 0 :: z) by (destruct (N.to_nat pad) eqn:E; [lia|eexists; reflexivity]).
  destruct Pz as [z Ez].
  replace (512 + 4)%nat with (length (H ++ [s0; 80; nb; 84])) by (rewrite app_length, Lh; reflexivity).
  rewrite (chain_items its (length bytes) bytes (H ++ [s0; 80; nb; 84]) (z ++ data_section (frames s)) Wf).
  - assert (Sk : skipn (N.to_nat (512 * (blocks + 1 - 1))) bytes = data_section (frames s)).
    { rewrite Eb, app_assoc. apply skipn_app_len. rewrite app_length, Lh. unfold nlen in Ls. lia. }
    rewrite Sk. reflexivity.
  - pose proof (items_len_ge its) as G. unfold items_len in G. rewrite Esec, !app_length. cbn [length]. rewrite !app_length. lia.
  - rewrite Esec, Ez. rewrite <- !app_assoc. cbn [app]. rewrite <- !app_assoc. reflexivity.
Qed.
