(* Bytes.v — what f.write(reinterpret_cast<const char *>(&x), n) emits on little-endian x86-64 and the byte
   assembly of c3d::hex2uint / c3d::hex2int, quirks included (DESIGN A.2). *)
From EZ Require Import Base.
Local Open Scope Z_scope.

(* the n low bytes of the two's complement representation of v, least significant first *)
Fixpoint le_bytes (n : nat) (v : Z) : list N :=
  match n with
  | O => []
  | S n' => Z.to_N (v mod 256) :: le_bytes n' (v / 256)
  end.
Definition le_bytesN (n : nat) (v : N) : list N := le_bytes n (Z.of_N v).

(* static_cast<int>(pow(0x100, i)): exact below 2^31; beyond, the x86-64 conversion
   yields INT_MIN (the "integer indefinite" value) — out of range is UB in C++ *)
Definition pow256_int (i : nat) : Z :=
  match i with
  | 0%nat => 1 | 1%nat => 256 | 2%nat => 65536 | 3%nat => 16777216
  | _ => -2147483648
  end.

Fixpoint hex2uint_go (bs : list N) (i : nat) (ret : Z) : Z :=
  match bs with
  | [] => ret
  | b :: t => hex2uint_go t (S i) (Z.lor ret (wrap32s (Z.of_N b * pow256_int i)))
  end.
(* unsigned int hex2uint(const char ptr, len) *)
Definition hex2uint (bs : list N) : Z := (hex2uint_go bs 0 0) mod 4294967296.

(* true iff evaluating hex2uint on bs performs an operation the C++ standard leaves
   undefined (signed overflow of the product, or the out-of-range pow conversion) *)
Fixpoint hex2uint_flag_go (bs : list N) (i : nat) : bool :=
  match bs with
  | [] => false
  | b :: t => (Nat.leb 4 i) || ((Nat.eqb i 3) && (128 <=? Z.of_N b)) || hex2uint_flag_go t (S i)
  end.
Definition hex2uint_flag (bs : list N) : bool := hex2uint_flag_go bs 0.

(* max = all-ones of min(len,4) bytes: the unsigned casts of pow(256, i>=4) contribute 0 *)
Definition hex_max (len : nat) : Z :=
  match len with
  | 0%nat => 0 | 1%nat => 255 | 2%nat => 65535 | 3%nat => 16777215 | _ => 4294967295
  end.
(* int hex2int(const char ptr, len) *)
Definition hex2int (bs : list N) : Z :=
  let tp := hex2uint bs in
  let mx := hex_max (length bs) in
  if mx / 2 <? tp then wrap32s ((tp - mx - 1) mod 4294967296) else wrap32s tp.

(* readUint returns size_t(hex2uint(...)) *)
Definition read_uint (bs : list N) : N := Z.to_N (hex2uint bs).

(* std::string(const char ptr): stops at the first NUL *)
Fixpoint cstr (bs : list N) : list N :=
  match bs with
  | [] => []
  | b :: t => if (b =? 0)%N then [] else b :: cstr t
  end.
