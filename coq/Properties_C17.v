(* Properties_C17.v — C17: content at the format's limits survives; beyond them saving refuses.
   cap_ok is the conjunction of the capacities, each at its exact limit.  FULL STATEMENT (visible):
     cap_ok s = true  ->  C01's conclusion;   cap_ok s = false -> save s = Throw _ \/ C01's conclusion.
   The second half is FALSE of the code (known finding: the writer emits the low byte / word and
   carries on): witnesses below.  The first half is decided by the C17 check at L-1, L, L+1 for each
   limit; proved in Coq: the byte-level facts that make each limit exact (a length or value within the
   limit is emitted unchanged by the low-byte / low-word writers and read back by the unsigned / signed
   readers), for ALL values within the limits; AND the first half at record level: a parameter AT the limits
   (127-character name, 255-character description, 255 entries, 16-bit extremes, 255 strings of 255 characters...)
   is well formed (wf_param IS the list of the limits), so it is written and read back unchanged by
   C17_at_the_limits_roundtrip (= the record theorem of C01), and with C01_load_save the whole object is. *)
From Coq Require Import Lia ZifyN.
From EZ Require Import Base Bytes Types Api Enc Dec Float32 Run Proofs_Bytes Proofs_Codec Proofs_Record Proofs_RoundTrip Proofs_Decide Run_Decide.
Local Open Scope N_scope.

Definition param_cap_ok (p : param) : bool :=
  (nlen (p_name p) <=? 127) && (nlen (p_desc p) <=? 255) && (nlen (p_dims p) <=? 255) &&
  forallb (fun d => d <=? 255) (p_dims p) &&
  match p_type p with
  | TInt => forallb (fun v => (-32768 <=? v) && (v <=? 32767))%Z (p_ints p)
  | TByte => forallb (fun v => (-128 <=? v) && (v <=? 127))%Z (p_ints p)
  | _ => true
  end.
Definition cap_ok (s : state) : bool :=
  (nlen (groups s) <=? 127) &&
  forallb (fun g => (nlen (g_name g) <=? 127) && (nlen (g_desc g) <=? 255) && forallb param_cap_ok (g_params g)) (groups s) &&
  (h_points (hdr s) <=? 255) && (h_nb_analogs (hdr s) <=? 255) && (nlen (frames s) <=? 32767).

(* lengths up to 255 (descriptions, dimension entries, dimension counts): the low byte IS the length, and
   the unsigned reader returns it *)
Theorem C17_length_byte_exact : forall n, (0 <= n <= 255)%Z -> low8 n = Z.to_N n /\ read_uint [low8 n] = Z.to_N n.
Proof.
  intros n H. unfold low8. rewrite Z.mod_small by lia. split; [reflexivity|].
  unfold read_uint. replace [Z.to_N n] with (le_bytes 1 n) by (cbn; rewrite Z.mod_small by lia; reflexivity).
  rewrite hex2uint_le1 by lia. reflexivity.
Qed.
Print Assumptions C17_length_byte_exact.

(* name lengths up to 127 with the lock flag as sign: the signed reader returns length and flag *)
Theorem C17_name_length_exact : forall n, (0 < n <= 127)%Z ->
  hex2int [low8 n] = n /\ hex2int [low8 (- n)] = (- n)%Z.
Proof.
  intros n H. split.
  - replace [low8 n] with (le_bytes 1 n) by reflexivity. apply hex2int_le1. lia.
  - replace [low8 (- n)] with (le_bytes 1 (- n)) by reflexivity. apply hex2int_le1. lia.
Qed.
Print Assumptions C17_name_length_exact.

(* 16-bit integer extremes, 8-bit extremes: inside *)
Theorem C17_int_extremes : hex2int (le_bytes 2 32767) = 32767%Z /\ hex2int (le_bytes 2 (-32768)) = (-32768)%Z /\
  hex2int (le_bytes 1 127) = 127%Z /\ hex2int (le_bytes 1 (-128)) = (-128)%Z.
Proof. repeat split; vm_compute; reflexivity. Qed.
Print Assumptions C17_int_extremes.

(* counts up to 65535 in header words (last frame number 65535, 255 points ...) *)
Theorem C17_word_exact : forall u, (0 <= u < 65536)%Z -> hex2uint (le_bytes 2 u) = u.
Proof. exact hex2uint_le2. Qed.
Print Assumptions C17_word_exact.

(* 255 parameter blocks: the block-count byte is exact up to 255 and wraps at 256 *)
Theorem C17_block_count : low8 255 = 255 /\ low8 256 = 0.
Proof. split; vm_compute; reflexivity. Qed.
Print Assumptions C17_block_count.

(* beyond the limits the statement is false of the code: L+1 is written as something else, silently *)
Theorem C17_beyond_refuted :
  hex2int (le_bytes 2 32768) = (-32768)%Z /\ hex2int (le_bytes 2 40000) = (-25536)%Z /\
  read_uint [low8 256] = 0 /\ hex2int [low8 128] = (-128)%Z.
Proof. repeat split; vm_compute; reflexivity. Qed.
Print Assumptions C17_beyond_refuted.

(* a parameter at the limits is written and read back unchanged *)
Theorem C17_at_the_limits_roundtrip : forall p gid, wf_param p -> bstr_eqb (p_name p) nm_DATA_START = false ->
  exists b0 b1 bytes, param_record p gid = Ok (b0 :: b1 :: bytes, None) /\ b1 = low8 gid /\
    forall st r, st_fail st = false -> st_rest st = bytes ++ r ->
      exists nxt, read_param (hex2int [b0]) st = Ok ((upper_name p, nxt), adv st (length bytes) r).
Proof. exact param_record_roundtrip. Qed.
Print Assumptions C17_at_the_limits_roundtrip.

(* whatever Parameter::set accepts within the capacity limits IS such a parameter: a fresh parameter given 16-bit integers
   (or floats) over at most 255 dimensions of at most 255 entries is well formed, hence written and read back unchanged *)
Theorem C17_set_within_limits_is_well_formed : forall p data dims q,
  set_ints p data dims = Ok q -> p_floats p = [] -> p_strs p = [] ->
  name_ok (p_name p) -> desc_ok (p_desc p) -> Forall int16 data ->
  (let d := dims_or_len dims (nlen data) in (length d <= 255)%nat /\ Forall byte_ok d /\ prodN d < 2147483648 /\ loop_cost d 1 <= LIMC) ->
  wf_param q.
Proof. exact set_ints_wf. Qed.
Print Assumptions C17_set_within_limits_is_well_formed.

Theorem C17_set_floats_within_limits_is_well_formed : forall p data dims q,
  set_floats p data dims = Ok q -> p_ints p = [] -> p_strs p = [] ->
  name_ok (p_name p) -> desc_ok (p_desc p) -> Forall wf32 data ->
  (let d := dims_or_len dims (nlen data) in (length d <= 255)%nat /\ Forall byte_ok d /\ prodN d < 2147483648 /\ loop_cost d 1 <= LIMC) ->
  wf_param q.
Proof. exact set_floats_wf. Qed.
Print Assumptions C17_set_floats_within_limits_is_well_formed.

Theorem C17_set_strings_within_limits_is_well_formed : forall p data dims q,
  set_strs p data dims = Ok q -> p_ints p = [] -> p_floats p = [] ->
  name_ok (p_name p) -> desc_ok (p_desc p) ->
  Forall (fun s => no_nul s /\ rtrim s = s) data ->
  (let d := maxlen data :: dims_or_len dims (nlen data) in
   (length d <= 255)%nat /\ Forall byte_ok d /\ prodN d < 2147483648 /\ loop_cost d 1 <= LIMC /\ prodN (dims_or_len dims (nlen data)) < 2147483648 /\
   loop_cost (dims_or_len dims (nlen data)) 1 <= LIMC) ->
  wf_param q.
Proof. exact set_strs_wf. Qed.
Print Assumptions C17_set_strings_within_limits_is_well_formed.

(* ... and these ARE at the limits: name of 127 characters, description of 255, 255 entries holding both 16-bit extremes *)
Example C17_limits_are_well_formed :
  wf_param (mkParam (repeat 78 127) (repeat 100 255) true TInt [255] (repeat 32767%Z 127 ++ repeat (-32768)%Z 128) [] []) /\
  wf_param (mkParam [83] [] false TChar [255; 2] [] [] [repeat 65 255; [66]]) /\
  wf_param (mkParam [66] [] false TByte [2] [127; -128]%Z [] []).
Proof.
  assert (F : forall (A : Type) (P : A -> Prop) x n, P x -> Forall P (repeat x n)) by (intros A P x n H; induction n; cbn; constructor; auto).
  unfold wf_param, name_ok, desc_ok, dims_ok, typed_ok, no_nul. repeat split;
    try (cbn [p_name p_desc p_dims p_type p_ints p_floats p_strs length]; rewrite ?repeat_length; lia);
    try (cbn [p_name p_desc]; try (unfold upper; rewrite <- (map_repeat)); apply F; discriminate);
    try reflexivity; try discriminate; try (vm_compute; discriminate).
  all: try (cbn [p_dims p_ints p_strs]; repeat constructor; unfold byte_ok, int16, int8, str_ok, no_nul; try lia).
  all: try (apply Forall_app; split; apply F; unfold int16; lia).
  all: try (vm_compute; reflexivity).
  all: try (unfold LIMC; vm_compute; discriminate).
  all: try (cbn; unfold nlen; rewrite ?repeat_length; cbn; lia).
  all: try (apply F; discriminate).
Qed.
Print Assumptions C17_limits_are_well_formed.

Example C17_nonvacuous : cap_ok init = true.
Proof. vm_compute. reflexivity. Qed.
Print Assumptions C17_nonvacuous.

(* end to end: an object whose every component is within the limits (ls_ok_x checks each of them: names 1..127, descriptions
   up to 255, dimensions up to 255 entries of up to 255, 16-bit integers, up to 65535 points / samples / frames, a parameter
   section of up to 254 blocks, records below 65536 bytes) and whose header agrees with its parameters is saved and loaded
   back unchanged *)
Theorem C17_within_limits_end_to_end : forall s, ls_ok_x s = true ->
  exists bytes blocks pn an, save_x s = Ok bytes /\ load_x bytes = Ok (reloaded s blocks pn an).
Proof.
  intros s H. destruct (ls_ok_load_save f_key_impl f_tosize_impl f_div_impl s H) as (bytes & blocks & pn & an & _ & Sv & Ld).
  exists bytes, blocks, pn, an. split; [exact Sv|exact Ld].
Qed.
Print Assumptions C17_within_limits_end_to_end.
