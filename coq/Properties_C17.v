(* Properties_C17.v — C17: content at the format's limits survives; beyond them saving refuses.
   cap_ok is the conjunction of the capacities, each at its exact limit.  FULL STATEMENT (visible):
     cap_ok s = true  ->  C01's conclusion;   cap_ok s = false -> save s = Throw _ \/ C01's conclusion.
   The second half is FALSE of the code (known finding: the writer emits the low byte / word and
   carries on): witnesses below.  The first half is decided by the C17 check at L-1, L, L+1 for each
   limit; proved in Coq: the byte-level facts that make each limit exact (a length or value within the
   limit is emitted unchanged by the low-byte / low-word writers and read back by the unsigned / signed
   readers), for ALL values within the limits. *)
From Coq Require Import Lia.
From EZ Require Import Base Bytes Types Api Enc Dec Float32 Run Proofs_Bytes.
Local Open Scope N_scope.

Definition param_cap_ok (p : param) : bool :=
  (nlen (p_name p) <=? 127) && (nlen (p_desc p) <=? 255) && (nlen (p_dims p) <=? 255) &&
  forallb (fun d => d <=? 255) (p_dims p) &&
  match p_type p with
  | TInt => forallb (fun v => (-32768 <=? v) && (v <=? 32767))%Z (p_ints p)
  | TByte => forallb (fun v => (-128 <=? v) && (v <=? 127))%Z (p_ints p)
  | _ => true
  end.
Definition cap_ok (s : state) : bool :=
  (nlen (groups s) <=? 127) &&
  forallb (fun g => (nlen (g_name g) <=? 127) && (nlen (g_desc g) <=? 255) && forallb param_cap_ok (g_params g)) (groups s) &&
  (h_points (hdr s) <=? 255) && (h_nb_analogs (hdr s) <=? 255) && (nlen (frames s) <=? 32767).

(* lengths up to 255 (descriptions, dimension entries, dimension counts): the low byte IS the length, and
   the unsigned reader returns it *)
Theorem C17_length_byte_exact : forall n, (0 <= n <= 255)%Z -> low8 n = Z.to_N n /\ read_uint [low8 n] = Z.to_N n.
Proof.
  intros n H. unfold low8. rewrite Z.mod_small by lia. split; [reflexivity|].
  unfold read_uint. replace [Z.to_N n] with (le_bytes 1 n) by (cbn; rewrite Z.mod_small by lia; reflexivity).
  rewrite hex2uint_le1 by lia. reflexivity.
Qed.
Print Assumptions C17_length_byte_exact.

(* name lengths up to 127 with the lock flag as sign: the signed reader returns length and flag *)
Theorem C17_name_length_exact : forall n, (0 < n <= 127)%Z ->
  hex2int [low8 n] = n /\ hex2int [low8 (- n)] = (- n)%Z.
Proof.
  intros n H. split.
  - replace [low8 n] with (le_bytes 1 n) by reflexivity. apply hex2int_le1. lia.
  - replace [low8 (- n)] with (le_bytes 1 (- n)) by reflexivity. apply hex2int_le1. lia.
Qed.
Print Assumptions C17_name_length_exact.

(* 16-bit integer extremes, 8-bit extremes: inside *)
Theorem C17_int_extremes : hex2int (le_bytes 2 32767) = 32767%Z /\ hex2int (le_bytes 2 (-32768)) = (-32768)%Z /\
  hex2int (le_bytes 1 127) = 127%Z /\ hex2int (le_bytes 1 (-128)) = (-128)%Z.
Proof. repeat split; vm_compute; reflexivity. Qed.
Print Assumptions C17_int_extremes.

(* counts up to 65535 in header words (last frame number 65535, 255 points ...) *)
Theorem C17_word_exact : forall u, (0 <= u < 65536)%Z -> hex2uint (le_bytes 2 u) = u.
Proof. exact hex2uint_le2. Qed.
Print Assumptions C17_word_exact.

(* 255 parameter blocks: the block-count byte is exact up to 255 and wraps at 256 *)
Theorem C17_block_count : low8 255 = 255 /\ low8 256 = 0.
Proof. split; vm_compute; reflexivity. Qed.
Print Assumptions C17_block_count.

(* beyond the limits the statement is false of the code: L+1 is written as something else, silently *)
Theorem C17_beyond_refuted :
  hex2int (le_bytes 2 32768) = (-32768)%Z /\ hex2int (le_bytes 2 40000) = (-25536)%Z /\
  read_uint [low8 256] = 0 /\ hex2int [low8 128] = (-128)%Z.
Proof. repeat split; vm_compute; reflexivity. Qed.
Print Assumptions C17_beyond_refuted.

Example C17_nonvacuous : cap_ok init = true.
Proof. vm_compute. reflexivity. Qed.
Print Assumptions C17_nonvacuous.
