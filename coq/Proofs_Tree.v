(* Proofs_Tree.v — read-after-write laws of the parameter tree: updating the parameter found under
   (group g, name n) by one of the same name changes what (g, n) looks up to and nothing else. *)
From Coq Require Import Lia.
From EZ Require Import Base Types Api Proofs_Lookup Proofs_Monad Proofs_Param Proofs_Store Proofs_Guards.
Local Open Scope N_scope.

(* the pure content of upd_param *)
Definition t_upd (gs : list group) (g n : bstr) (f : param -> outcome param) : outcome (list group) :=
  obind (group_idx gs g) (fun gi => obind (group_at gs gi) (fun gr =>
  obind (param_idx gr n) (fun pi => obind (param_at gr pi) (fun p => obind (f p) (fun p' =>
  Ok (replace_nth (N.to_nat gi) (g_set_params gr (replace_nth (N.to_nat pi) p' (g_params gr))) gs)))))).

Lemma upd_param_pure : forall g n f s,
  upd_param g n f s = match t_upd (groups s) g n f with
                      | Ok gs' => ROk tt (set_groups s gs') | Throw e => RThrow e s | UB t => RUB t end.
Proof.
  intros g n f s. unfold upd_param, t_upd. cbv [bind getS lift putS].
  destruct (group_idx (groups s) g) as [gi| |]; cbn [obind]; try reflexivity.
  destruct (group_at (groups s) gi) as [gr| |]; cbn [obind]; try reflexivity.
  destruct (param_idx gr n) as [pi| |]; cbn [obind]; try reflexivity.
  destruct (param_at gr pi) as [p| |]; cbn [obind]; try reflexivity.
  destruct (f p) as [p'| |]; cbn [obind]; reflexivity.
Qed.

(* replacing the first element of key k by another element of key k does not move any first match *)
Lemma find_same_key_replace : forall A (key : A -> bstr) l x i n,
  find_idx (fun y => bstr_eqb (key y) (key x)) l 0 = Some i ->
  find_idx (fun y => bstr_eqb (key y) n) (replace_nth (N.to_nat i) x l) 0 = find_idx (fun y => bstr_eqb (key y) n) l 0.
Proof.
  intros A key l x i n F. rewrite (find_after_replace A key l x i n F).
  destruct (bstr_eqb (key x) n) eqn:E; [|reflexivity].
  apply bstr_eqb_eq in E. rewrite <- E. symmetry. exact F.
Qed.

Lemma at_replace_same : forall A (l : list A) i x, i < nlen l -> at_ (replace_nth (N.to_nat i) x l) i = Ok x.
Proof.
  intros A l i x H. apply at_ok. unfold nlen in *. rewrite replace_nth_length. split; [exact H|].
  apply replace_nth_same. lia.
Qed.
Lemma at_replace_other : forall A (l : list A) i j x, i <> j -> at_ (replace_nth (N.to_nat i) x l) j = at_ l j.
Proof.
  intros A l i j x H. unfold at_, nlen. rewrite replace_nth_length.
  destruct (j <? N.of_nat (length l)); [|reflexivity]. rewrite replace_nth_other by lia. reflexivity.
Qed.

(* the law *)
Theorem t_upd_lookup : forall gs g n f p p',
  lookup gs g n = Ok p -> f p = Ok p' -> p_name p' = p_name p ->
  exists gs', t_upd gs g n f = Ok gs' /\
    lookup gs' g n = Ok p' /\
    (forall g2 n2, (g2 <> g \/ n2 <> n) -> lookup gs' g2 n2 = lookup gs g2 n2) /\
    map g_name gs' = map g_name gs.
Proof.
  intros gs g n f p p' Hl Hf Hn. unfold lookup, group_named in Hl.
  destruct (group_idx gs g) as [gi| |] eqn:Gi; cbn [obind] in Hl; try discriminate.
  destruct (group_at gs gi) as [gr| |] eqn:Gr; cbn [obind] in Hl; try discriminate.
  unfold param_named in Hl.
  destruct (param_idx gr n) as [pi| |] eqn:Pi; cbn [obind] in Hl; try discriminate.
  unfold t_upd. rewrite Gi. cbn [obind]. rewrite Gr. cbn [obind]. rewrite Pi. cbn [obind]. rewrite Hl. cbn [obind]. rewrite Hf. cbn [obind].
  eexists. split; [reflexivity|].
  set (gr' := g_set_params gr (replace_nth (N.to_nat pi) p' (g_params gr))).
  (* facts about the indices *)
  unfold group_idx in Gi. destruct (find_idx (fun g0 => bstr_eqb (g_name g0) g) gs 0) as [gi0|] eqn:FG; [|discriminate]. injection Gi as <-.
  unfold param_idx in Pi. destruct (find_idx (fun q => bstr_eqb (p_name q) n) (g_params gr) 0) as [pi0|] eqn:FP; [|discriminate]. injection Pi as <-.
  pose proof (find_idx_bound _ _ _ _ _ FG) as BG. pose proof (find_idx_bound _ _ _ _ _ FP) as BP. rewrite N.add_0_l in BG, BP.
  pose proof (find_idx_some _ _ _ _ _ FG) as [_ [g0 [Hg0 [Pg0 _]]]]. rewrite N.sub_0_r in Hg0.
  unfold group_at in Gr. apply at_ok in Gr. destruct Gr as [_ Gr]. rewrite Gr in Hg0. injection Hg0 as <-.
  apply bstr_eqb_eq in Pg0.
  unfold param_at in Hl. pose proof Hl as Hl0. apply at_ok in Hl0. destruct Hl0 as [_ Hl0].
  pose proof (find_idx_some _ _ _ _ _ FP) as [_ [q0 [Hq0 [Pq0 _]]]]. rewrite N.sub_0_r in Hq0. rewrite Hl0 in Hq0. injection Hq0 as <-.
  apply bstr_eqb_eq in Pq0.
  assert (Kg : g_name gr' = g_name gr) by reflexivity.
  assert (FG' : forall m, find_idx (fun y => bstr_eqb (g_name y) m) (replace_nth (N.to_nat gi0) gr' gs) 0 = find_idx (fun y => bstr_eqb (g_name y) m) gs 0).
  { intros m. apply (find_same_key_replace group g_name gs gr' gi0 m). rewrite Kg, Pg0. exact FG. }
  assert (FP' : forall m, find_idx (fun y => bstr_eqb (p_name y) m) (replace_nth (N.to_nat pi0) p' (g_params gr)) 0 = find_idx (fun y => bstr_eqb (p_name y) m) (g_params gr) 0).
  { intros m. apply (find_same_key_replace param p_name (g_params gr) p' pi0 m). rewrite Hn, Pq0. exact FP. }
  split; [|split].
  - unfold lookup, group_named, group_idx. rewrite FG', FG. cbn [obind]. unfold group_at. rewrite at_replace_same by exact BG. cbn [obind].
    unfold param_named, param_idx. cbn [gr' g_set_params g_params]. rewrite FP', FP. cbn [obind]. unfold param_at. cbn [g_set_params g_params].
    apply at_replace_same. exact BP.
  - intros g2 n2 Hne. unfold lookup, group_named, group_idx. rewrite FG'.
    destruct (find_idx (fun y => bstr_eqb (g_name y) g2) gs 0) as [j|] eqn:Fj; [|reflexivity]. cbn [obind]. unfold group_at.
    destruct (N.eq_dec gi0 j) as [<-|Hj].
    + rewrite at_replace_same by exact BG. assert (A0 : at_ gs gi0 = Ok gr) by (apply at_ok; split; [exact BG|exact Gr]). rewrite A0. cbn [obind].
      (* same group: then g2 = g, so n2 <> n *)
      assert (Eg : g2 = g).
      { pose proof (find_idx_some _ _ _ _ _ Fj) as [_ [y [Hy [Py _]]]]. rewrite N.sub_0_r in Hy. rewrite Gr in Hy. injection Hy as <-.
        apply bstr_eqb_eq in Py. congruence. }
      destruct Hne as [Hne|Hne]; [contradiction|].
      unfold param_named, param_idx. cbn [gr' g_set_params g_params]. rewrite FP'.
      destruct (find_idx (fun y => bstr_eqb (p_name y) n2) (g_params gr) 0) as [k|] eqn:Fk; [|reflexivity]. cbn [obind]. unfold param_at. cbn [g_set_params g_params].
      apply at_replace_other. intros Ek. subst k.
      pose proof (find_idx_some _ _ _ _ _ Fk) as [_ [y [Hy [Py _]]]]. rewrite N.sub_0_r in Hy. rewrite Hl0 in Hy. injection Hy as <-.
      apply bstr_eqb_eq in Py. congruence.
    + rewrite at_replace_other by exact Hj. reflexivity.
  - clear -Gr Kg. revert Gr. generalize (N.to_nat gi0). intros k. revert k. induction gs as [|a l IH]; intros [|k] H; cbn in *; try discriminate.
    + injection H as ->. reflexivity.
    + f_equal. apply IH. exact H.
Qed.
