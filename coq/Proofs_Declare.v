(* Proofs_Declare.v — C05: declaring points and channels on an object that holds no frame yet.
   updateParameters(newPoints, newAnalogs) on a frame-less object whose label-like lists agree with the counts:
   every parameter the agreement predicate reads is characterised after the call (counts, label lists with the
   new names appended IN ORDER, one entry per name in the description / unit / scale / offset lists), by
   total-correctness triples over the code-shaped updater (Proofs_Hoare, Proofs_Updaters).  Proofs_InvDeclare
   assembles the agreement predicate from these facts. *)
From Coq Require Import Lia ZifyNat ZifyN ZifyBool Bool.
From EZ Require Import Base Types Api Proofs_Monad Proofs_Hoare Proofs_Lookup Proofs_Param Proofs_Guards Spec_Inv Proofs_Inv
  Proofs_Header Spec_Typed Proofs_Store Proofs_Updaters Proofs_ApiSafe Proofs_InvFrame.
Local Open Scope N_scope.

(* number of entries of a parameter, the way Spec_Inv.lk_count reads it *)
Definition pcount (p : param) : N :=
  match p_type p with TChar => nlen (p_strs p) | TFloat => nlen (p_floats p) | TInt | TByte => nlen (p_ints p) | TNone => 0 end.
Definition Vcount (c : N) (p : param) : Prop := pcount p = c.

Lemma holds_count : forall gs g n c, holds gs (g, n, Vcount c) -> lk_count gs g n = Some c.
Proof. intros gs g n c [p [L V]]. cbn [fst snd] in *. unfold lk_count. rewrite L. unfold Vcount, pcount in V. rewrite V. reflexivity. Qed.
Lemma holds_vstr : forall gs g n l, holds gs (g, n, Vstr l) -> lk_strs gs g n = Some l.
Proof.
  intros gs g n l [p [L V]]. cbn [fst snd] in *. unfold lk_strs. rewrite L. unfold Vstr, values_as_string in V.
  destruct (p_type p); try discriminate. injection V as ->. reflexivity.
Qed.
Lemma holds_vint : forall gs g n X, holds gs (g, n, Vint X) -> lk_int0 gs g n = Some X.
Proof.
  intros gs g n X [p [L V]]. cbn [fst snd] in *. destruct (Vint_r_int0 0 gs g n X p L V) as [v [R E]].
  rewrite (r_int0_lk 0 gs g n v R). rewrite E. reflexivity.
Qed.
Lemma lk_count_holds : forall gs g n c, lk_count gs g n = Some c -> holds gs (g, n, Vcount c).
Proof.
  intros gs g n c H. unfold lk_count in H. destruct (lookup gs g n) as [p| |] eqn:L; try discriminate.
  exists p. cbn [fst snd]. split; [exact L|]. unfold Vcount, pcount. injection H as <-. reflexivity.
Qed.
Lemma lk_strs_holds : forall gs g n l, lk_strs gs g n = Some l -> holds gs (g, n, Vstr l).
Proof.
  intros gs g n l H. unfold lk_strs in H. destruct (lookup gs g n) as [p| |] eqn:L; try discriminate.
  exists p. cbn [fst snd]. split; [exact L|]. unfold Vstr, values_as_string. destruct (p_type p); try discriminate. injection H as <-. reflexivity.
Qed.
Lemma lk_int0_holds : forall gs g n X, lk_int0 gs g n = Some X -> holds gs (g, n, Vint X).
Proof.
  intros gs g n X H. destruct (lk_int0_r 0 gs g n X H) as [v [R E]]. destruct (r_int0_Vint 0 gs g n v X R E) as [p [L V]].
  exists p. cbn [fst snd]. auto.
Qed.

Lemma holds_det : forall gs g n (V : param -> Prop) p, holds gs (g, n, V) -> lookup gs g n = Ok p -> V p.
Proof. intros gs g n V p [q [L Vq]] Lp. cbn [fst snd] in *. rewrite Lp in L. injection L as <-. exact Vq. Qed.

Lemma KF_holds : forall fs pr L s x, KF fs pr L s -> In x L -> holds (groups s) x.
Proof. intros fs pr L s x [_ [_ [_ D]]] I. rewrite Forall_forall in D. exact (D x I). Qed.

(* ---------- a table of values, and build_names returning it ---------- *)
Fixpoint tab {A} (G : N -> A) (i : N) (n : nat) : list A :=
  match n with O => [] | S n' => G i :: tab G (i + 1) n' end.

Lemma h_build_names_val : forall (K : state -> Prop) (F : N -> Mst bstr) (G : N -> bstr) n i,
  (forall j, i <= j < i + N.of_nat n -> hoare K (F j) (fun x s => K s /\ x = G j)) ->
  hoare K (build_names n i F) (fun l s => K s /\ l = tab G i n).
Proof.
  intros K F G n. induction n as [|n IH]; intros i H; cbn [build_names tab].
  - apply h_ret. auto.
  - eapply h_bind; [apply H; lia|]. intros x. apply h_pre_pure. intros ->.
    eapply h_bind; [apply IH; intros j Hj; apply H; lia|]. intros t. apply h_pre_pure. intros ->.
    apply h_ret. auto.
Qed.

Lemma tab_nth : forall A (d : A) l pre, tab (fun j => nth (N.to_nat j) (pre ++ l) d) (nlen pre) (length l) = l.
Proof.
  intros A d l. induction l as [|x t IH]; intros pre; cbn [tab length]; [reflexivity|]. f_equal.
  - unfold nlen. rewrite Nat2N.id, app_nth2 by lia. rewrite PeanoNat.Nat.sub_diag. reflexivity.
  - replace (nlen pre + 1) with (nlen (pre ++ [x])) by (unfold nlen; rewrite app_length; cbn [length]; lia).
    replace (pre ++ x :: t) with ((pre ++ [x]) ++ t) by (rewrite <- app_assoc; reflexivity). apply IH.
Qed.
Lemma tab_nth0 : forall A (d : A) l, tab (fun j => nth (N.to_nat j) l d) 0 (length l) = l.
Proof. intros A d l. exact (tab_nth A d l []). Qed.

Lemma idx_nth : forall A site (l : list A) i d, i < nlen l -> idx_ site l i = Ok (nth (N.to_nat i) l d).
Proof.
  intros A site l i d H. unfold idx_. apply N.ltb_lt in H. rewrite H. apply N.ltb_lt in H.
  rewrite nth_error_nth' with (d := d) by (unfold nlen in H; lia). reflexivity.
Qed.

Ltac incl_tac := let x := fresh in let H := fresh in intros x H; cbn [In] in H |- *; tauto.

Section Blocks.
Variable pr : prologue.
Notation KF0 := (KF [] pr).

(* the i-th name of the declared list followed by the new names: what Point/Analog label rebuilding reads *)
Lemma point_name_val : forall s nP lP L j, frames s = [] -> In (nm_POINT, nm_LABELS, Vstr lP) L -> j < nlen lP + nlen nP ->
  hoare (KF0 L) (point_name s nP j) (fun x s1 => KF0 L s1 /\ x = nth (N.to_nat j) (lP ++ nP) []).
Proof.
  intros s nP lP L j Fs I Hj. unfold point_name. rewrite Fs.
  eapply h_bind; [apply (h_strs_of [] pr nm_POINT nm_LABELS L); in_mand|]. intros l.
  intros s1 [HK [R _]]. rewrite (Vstr_read _ _ _ _ (KF_holds _ _ _ _ _ HK I)) in R. injection R as <-.
  destruct (j <? nlen lP) eqn:E.
  - apply N.ltb_lt in E. rewrite (idx_nth _ 22 lP j [] E). cbn [lift]. split; [exact HK|].
    rewrite app_nth1 by (unfold nlen in E; lia). reflexivity.
  - apply N.ltb_ge in E. rewrite (idx_nth _ 23 nP (j - nlen lP) []) by lia. cbn [lift]. split; [exact HK|].
    rewrite app_nth2 by (unfold nlen in E; lia). f_equal. unfold nlen in *. lia.
Qed.
Lemma chan_name_val : forall s nA lA L j, frames s = [] -> In (nm_ANALOG, nm_LABELS, Vstr lA) L -> j < nlen lA + nlen nA ->
  hoare (KF0 L) (chan_name s nA j) (fun x s1 => KF0 L s1 /\ x = nth (N.to_nat j) (lA ++ nA) []).
Proof.
  intros s nA lA L j Fs I Hj. unfold chan_name. rewrite Fs.
  eapply h_bind; [apply (h_strs_of [] pr nm_ANALOG nm_LABELS L); in_mand|]. intros l.
  intros s1 [HK [R _]]. rewrite (Vstr_read _ _ _ _ (KF_holds _ _ _ _ _ HK I)) in R. injection R as <-.
  destruct (j <? nlen lA) eqn:E.
  - apply N.ltb_lt in E. rewrite (idx_nth _ 25 lA j [] E). cbn [lift]. split; [exact HK|].
    rewrite app_nth1 by (unfold nlen in E; lia). reflexivity.
  - apply N.ltb_ge in E. rewrite (idx_nth _ 26 nA (j - nlen lA) []) by lia. cbn [lift]. split; [exact HK|].
    rewrite app_nth2 by (unfold nlen in E; lia). f_equal. unfold nlen in *. lia.
Qed.

Lemma set_strs_val : forall k p data, (k = KStrs \/ k = KAny) -> kind_ok k p = true -> nlen data < LIM ->
  exists p', set_strs p data [] = Ok p' /\ p_name p' = p_name p /\ kind_ok k p' = true /\ (Vstr data p' /\ Vcount (nlen data) p').
Proof.
  intros k p data Hk K H. destruct (set_strs_ok k p data K H) as [p' [E [Nm [Ty [Dv Sz]]]]].
  exists p'. split; [exact E|]. split; [exact Nm|]. split.
  - unfold kind_ok, type_ok. rewrite Ty, Sz. destruct Hk; subst k; reflexivity.
  - split; [unfold Vstr, values_as_string; rewrite Ty, Dv; reflexivity|unfold Vcount, pcount; rewrite Ty, Dv; reflexivity].
Qed.

Lemma holds_r_int0 : forall gs g n X v, holds gs (g, n, Vint X) -> r_int0 0 gs g n = Ok v -> z_to_usize v = X.
Proof.
  intros gs g n X v [p [L V]] R. cbn [fst snd] in *. destruct (Vint_r_int0 0 gs g n X p L V) as [v' [R' E]].
  rewrite R in R'. injection R' as <-. exact E.
Qed.

(* ----- POINT block ----- *)
Lemma block_points_noop : forall s nP npts L, In (nm_POINT, nm_USED, Vint npts) L ->
  hoare (KF0 L) (points_block s nP npts) (fun _ => KF0 L).
Proof.
  intros s nP npts L I. unfold points_block.
  eapply h_bind.
  - apply (h_int0 21 nm_POINT nm_USED (KF0 L) (fun v s1 => KF0 L s1 /\ r_int0 0 (groups s1) nm_POINT nm_USED = Ok v)); [in_mand|apply KF_MT|auto].
  - intros u. apply h_when.
    + intros E. apply h_false. intros s1 [HK R]. rewrite (holds_r_int0 _ _ _ _ _ (KF_holds _ _ _ _ _ HK I) R) in E.
      rewrite N.eqb_refl in E. discriminate.
    + intros _ s1 [HK _]. exact HK.
Qed.

Definition PU (n : N) : fact := (nm_POINT, nm_USED, Vint n).
Definition PL (l : list bstr) : fact := (nm_POINT, nm_LABELS, Vstr l).
Definition PD (n : N) : fact := (nm_POINT, nm_DESCRIPTIONS, Vcount n).
Definition PN (n : N) : fact := (nm_POINT, nm_UNITS, Vcount n).
Definition AU (n : N) : fact := (nm_ANALOG, nm_USED, Vint n).
Definition AL (l : list bstr) : fact := (nm_ANALOG, nm_LABELS, Vstr l).
Definition AD (n : N) : fact := (nm_ANALOG, nm_DESCRIPTIONS, Vcount n).
Definition AS (n : N) : fact := (nm_ANALOG, nm_SCALE, Vcount n).
Definition AO (n : N) : fact := (nm_ANALOG, nm_OFFSET, Vcount n).
Definition AN (n : N) : fact := (nm_ANALOG, nm_UNITS, Vcount n).

Lemma block_points_decl : forall s nP lP u R, frames s = [] ->
  nlen lP + nlen nP < 2147483648 -> u <> nlen lP + nlen nP ->
  apart nm_POINT nm_USED R -> apart nm_POINT nm_LABELS R -> apart nm_POINT nm_DESCRIPTIONS R -> apart nm_POINT nm_UNITS R ->
  hoare (KF0 (PU u :: PL lP :: R)) (points_block s nP (nlen lP + nlen nP))
        (fun _ => KF0 (PN (nlen lP + nlen nP) :: PD (nlen lP + nlen nP) :: PL (lP ++ nP) :: PU (nlen lP + nlen nP) :: R)).
Proof.
  intros s nP lP u R Fs Sm Hu A1 A2 A3 A4. set (npts := nlen lP + nlen nP) in *. unfold points_block.
  eapply h_bind.
  - apply (h_int0 21 nm_POINT nm_USED (KF0 (PU u :: PL lP :: R))
             (fun v s1 => KF0 (PU u :: PL lP :: R) s1 /\ r_int0 0 (groups s1) nm_POINT nm_USED = Ok v)); [in_mand|apply KF_MT|auto].
  - intros v. apply h_when.
    + intros _.
      set (L1 := PU npts :: PL lP :: R).
      eapply h_bind.
      { eapply h_conseq; [apply (h_upd_add [] pr (PL lP :: R) nm_POINT nm_USED KInt1 _ (Vint npts)); [in_mand| |]|
                          intros s1 [HK _]; apply (KF_incl _ _ _ _ _ HK); incl_tac|intros a s1 HK; exact HK].
        - constructor; [cbn [fst snd PL]; right; discriminate|exact A1].
        - intros p Kp. apply (set_usize1_ok KInt1 p npts Kp Sm). }
      intros u0. fold (PU npts). fold L1.
      eapply h_bind; [apply (h_group_link [] pr nm_POINT nm_USED KInt1 L1); in_mand|]. intros g.
      eapply h_bind; [apply (h_param_idx_link [] pr nm_POINT nm_LABELS KStrs L1 g); in_mand|]. intros i1.
      eapply h_bind; [apply (h_param_idx_link [] pr nm_POINT nm_DESCRIPTIONS KAny L1 g); in_mand|]. intros i2.
      eapply h_bind; [apply (h_param_idx_link [] pr nm_POINT nm_UNITS KAny L1 g); in_mand|]. intros i3.
      eapply h_bind.
      { eapply h_conseq; [apply (h_build_names_val (KF0 L1) (point_name s nP) (fun j => nth (N.to_nat j) (lP ++ nP) []) (N.to_nat npts) 0)|
                          intros s1 HK; apply HK|intros a s1 HK; exact HK].
        intros j Hj. apply (point_name_val s nP lP L1 j Fs); [unfold L1; cbn [In]; auto|unfold npts in *; lia]. }
      intros labels. apply h_pre_pure. intros ->.
      assert (EL : tab (fun j => nth (N.to_nat j) (lP ++ nP) []) 0 (N.to_nat npts) = lP ++ nP).
      { replace (N.to_nat npts) with (length (lP ++ nP)) by (unfold npts, nlen; rewrite app_length; lia). apply tab_nth0. }
      rewrite EL.
      assert (Sl : nlen (lP ++ nP) < LIM) by (unfold nlen, LIM in *; rewrite app_length; unfold npts, nlen in Sm; lia).
      assert (Sr : npts < LIM) by (unfold LIM; lia).
      set (L2 := PU npts :: R).
      eapply h_bind.
      { eapply h_conseq; [apply (h_upd_add [] pr L2 nm_POINT nm_LABELS KStrs _ (Vstr (lP ++ nP))); [in_mand| |]|
                          intros s1 HK; apply (KF_incl _ _ _ _ _ HK); unfold L1, L2; incl_tac|intros a s1 HK; exact HK].
        - constructor; [cbn [fst snd PU]; right; discriminate|exact A2].
        - intros p Kp. destruct (set_strs_val KStrs p (lP ++ nP) (or_introl eq_refl) Kp Sl) as [p' [E [Nm [K' [V _]]]]]. exists p'. auto. }
      intros u1. fold (PL (lP ++ nP)). set (L3 := PL (lP ++ nP) :: L2).
      eapply h_bind.
      { apply (h_upd_add [] pr L3 nm_POINT nm_DESCRIPTIONS KAny _ (Vcount npts)); [in_mand| |].
        - constructor; [cbn [fst snd PL]; right; discriminate|]. constructor; [cbn [fst snd PU]; right; discriminate|exact A3].
        - intros p Kp. destruct (set_strs_val KAny p (repeat [] (N.to_nat npts)) (or_intror eq_refl) Kp) as [p' [E [Nm [K' [_ V]]]]]; [rewrite nlen_repeat; exact Sr|].
          exists p'. rewrite nlen_repeat in V. auto. }
      intros u2. fold (PD npts). set (L4 := PD npts :: L3).
      apply (h_upd_add [] pr L4 nm_POINT nm_UNITS KAny _ (Vcount npts)); [in_mand| |].
      * constructor; [cbn [fst snd PD]; right; discriminate|]. constructor; [cbn [fst snd PL]; right; discriminate|].
        constructor; [cbn [fst snd PU]; right; discriminate|exact A4].
      * intros p Kp. destruct (set_strs_val KAny p (repeat str_mm (N.to_nat npts)) (or_intror eq_refl) Kp) as [p' [E [Nm [K' [_ V]]]]]; [rewrite nlen_repeat; exact Sr|].
        exists p'. rewrite nlen_repeat in V. auto.
    + intros E. apply h_ret. intros s1 [HK Rv]. exfalso. apply Bool.negb_false_iff in E. apply N.eqb_eq in E.
      apply Hu. rewrite E. symmetry. apply (holds_r_int0 (groups s1) nm_POINT nm_USED u v); [|exact Rv].
      apply (KF_holds _ _ _ _ _ HK). cbn [In]. auto.
Qed.

(* ----- ANALOG block ----- *)
Lemma block_analogs_noop : forall s nA nan L, In (nm_ANALOG, nm_USED, Vint nan) L ->
  hoare (KF0 L) (analogs_block s nA nan) (fun _ => KF0 L).
Proof.
  intros s nA nan L I. unfold analogs_block.
  eapply h_bind.
  - apply (h_int0 24 nm_ANALOG nm_USED (KF0 L) (fun v s1 => KF0 L s1 /\ r_int0 0 (groups s1) nm_ANALOG nm_USED = Ok v)); [in_mand|apply KF_MT|auto].
  - intros u. apply h_when.
    + intros E. apply h_false. intros s1 [HK R]. rewrite (holds_r_int0 _ _ _ _ _ (KF_holds _ _ _ _ _ HK I) R) in E.
      rewrite N.eqb_refl in E. discriminate.
    + intros _ s1 [HK _]. exact HK.
Qed.

Lemma h_param_named_link2 : forall G N k L g, In (G, N, k) MAND ->
  hoare (linked [] pr L G g) (lift (param_named g N)) (fun p s => KF0 L s /\ kind_ok k p = true /\ lookup (groups s) G N = Ok p).
Proof.
  intros G N k L g I. apply h_lift_P. intros s [HK Hg].
  destruct (param_of_group _ G N k g (KF_MT [] pr L s HK) I Hg) as [pi [p [_ [Pn [Lp Kp]]]]]. rewrite Pn. split; [discriminate|].
  intros a Ea. injection Ea as <-. auto.
Qed.

Lemma nlen_extend_eq : forall A (l : list A) n x, nlen l <= n -> nlen (extend l n x) = n.
Proof. intros A l n x H. unfold extend, nlen in *. rewrite app_length, repeat_length. lia. Qed.

Lemma block_analogs_decl : forall s nA lA u c1 c2 c3 R, frames s = [] ->
  nlen lA + nlen nA < 2147483648 -> u <> nlen lA + nlen nA ->
  c1 <= nlen lA + nlen nA -> c2 <= nlen lA + nlen nA -> c3 <= nlen lA + nlen nA ->
  apart nm_ANALOG nm_USED R -> apart nm_ANALOG nm_LABELS R -> apart nm_ANALOG nm_DESCRIPTIONS R ->
  apart nm_ANALOG nm_SCALE R -> apart nm_ANALOG nm_OFFSET R -> apart nm_ANALOG nm_UNITS R ->
  hoare (KF0 (AU u :: AL lA :: AS c1 :: AO c2 :: AN c3 :: R)) (analogs_block s nA (nlen lA + nlen nA))
        (fun _ => KF0 (AN (nlen lA + nlen nA) :: AO (nlen lA + nlen nA) :: AS (nlen lA + nlen nA) :: AD (nlen lA + nlen nA) ::
                       AL (lA ++ nA) :: AU (nlen lA + nlen nA) :: R)).
Proof.
  intros s nA lA u c1 c2 c3 R Fs Sm Hu C1 C2 C3 A1 A2 A3 A4 A5 A6. set (nan := nlen lA + nlen nA) in *. unfold analogs_block.
  set (L0 := AU u :: AL lA :: AS c1 :: AO c2 :: AN c3 :: R).
  assert (Sr : nan < LIM) by (unfold LIM; lia).
  eapply h_bind.
  - apply (h_int0 24 nm_ANALOG nm_USED (KF0 L0) (fun v s1 => KF0 L0 s1 /\ r_int0 0 (groups s1) nm_ANALOG nm_USED = Ok v)); [in_mand|apply KF_MT|auto].
  - intros v. apply h_when.
    + intros _.
      set (L1 := AU nan :: AL lA :: AS c1 :: AO c2 :: AN c3 :: R).
      eapply h_bind.
      { eapply h_conseq; [apply (h_upd_add [] pr (AL lA :: AS c1 :: AO c2 :: AN c3 :: R) nm_ANALOG nm_USED KInt1 _ (Vint nan)); [in_mand| |]|
                          intros s1 [HK _]; apply (KF_incl _ _ _ _ _ HK); unfold L0; incl_tac|intros a s1 HK; exact HK].
        - repeat (constructor; [cbn [fst snd AL AS AO AN]; right; discriminate|]). exact A1.
        - intros p Kp. apply (set_usize1_ok KInt1 p nan Kp Sm). }
      intros u0. fold (AU nan). fold L1.
      eapply h_bind; [apply (h_group_link [] pr nm_ANALOG nm_USED KInt1 L1); in_mand|]. intros g.
      eapply h_bind; [apply (h_param_idx_link [] pr nm_ANALOG nm_LABELS KStrs L1 g); in_mand|]. intros i1.
      eapply h_bind; [apply (h_param_idx_link [] pr nm_ANALOG nm_DESCRIPTIONS KAny L1 g); in_mand|]. intros i2.
      eapply h_bind.
      { eapply h_conseq; [apply (h_build_names_val (KF0 L1) (chan_name s nA) (fun j => nth (N.to_nat j) (lA ++ nA) []) (N.to_nat nan) 0)|
                          intros s1 HK; apply HK|intros a s1 HK; exact HK].
        intros j Hj. apply (chan_name_val s nA lA L1 j Fs); [unfold L1; cbn [In]; auto|unfold nan in *; lia]. }
      intros labels. apply h_pre_pure. intros ->.
      assert (EL : tab (fun j => nth (N.to_nat j) (lA ++ nA) []) 0 (N.to_nat nan) = lA ++ nA).
      { replace (N.to_nat nan) with (length (lA ++ nA)) by (unfold nan, nlen; rewrite app_length; lia). apply tab_nth0. }
      rewrite EL.
      assert (Sl : nlen (lA ++ nA) < LIM) by (unfold nlen, LIM in *; rewrite app_length; unfold nan, nlen in Sm; lia).
      (* LABELS *)
      set (L2 := AU nan :: AS c1 :: AO c2 :: AN c3 :: R).
      eapply h_bind.
      { eapply h_conseq; [apply (h_upd_add [] pr L2 nm_ANALOG nm_LABELS KStrs _ (Vstr (lA ++ nA))); [in_mand| |]|
                          intros s1 HK; apply (KF_incl _ _ _ _ _ HK); unfold L1, L2; incl_tac|intros a s1 HK; exact HK].
        - repeat (constructor; [cbn [fst snd AU AS AO AN]; right; discriminate|]). exact A2.
        - intros p Kp. destruct (set_strs_val KStrs p (lA ++ nA) (or_introl eq_refl) Kp Sl) as [p' [E [Nm [K' [V _]]]]]. exists p'. auto. }
      intros u1. fold (AL (lA ++ nA)). set (L3 := AL (lA ++ nA) :: L2).
      (* DESCRIPTIONS *)
      eapply h_bind.
      { apply (h_upd_add [] pr L3 nm_ANALOG nm_DESCRIPTIONS KAny _ (Vcount nan)); [in_mand| |].
        - repeat (constructor; [cbn [fst snd AL AU AS AO AN]; right; discriminate|]). exact A3.
        - intros p Kp. destruct (set_strs_val KAny p (repeat [] (N.to_nat nan)) (or_intror eq_refl) Kp) as [p' [E [Nm [K' [_ V]]]]]; [rewrite nlen_repeat; exact Sr|].
          exists p'. rewrite nlen_repeat in V. auto. }
      intros u2. fold (AD nan). set (L4 := AD nan :: L3).
      (* SCALE *)
      eapply h_bind; [apply (h_group_link [] pr nm_ANALOG nm_USED KInt1 L4); in_mand|]. intros g2.
      eapply h_bind; [apply (h_param_idx_link [] pr nm_ANALOG nm_SCALE KFlts L4 g2); in_mand|]. intros i3.
      eapply h_bind; [apply (h_param_named_link2 nm_ANALOG nm_SCALE KFlts L4 g2); in_mand|]. intros psc.
      eapply h_bind.
      { apply (h_lift_P _ (values_as_float psc) _ (fun sc s1 => KF0 L4 s1 /\ nlen sc = c1)). intros s1 [HK [Kp Lp]].
        assert (Hc : Vcount c1 psc) by (apply (holds_det (groups s1) nm_ANALOG nm_SCALE _ psc); [apply (KF_holds _ _ _ _ _ HK); unfold L4, L3, L2; cbn [In]; auto 10|exact Lp]).
        unfold kind_ok, type_ok in Kp. apply andb_prop in Kp. destruct Kp as [T _].
        unfold Vcount, pcount in Hc. unfold values_as_float. destruct (p_type psc); try discriminate. split; [discriminate|]. intros a Ea. injection Ea as <-. auto. }
      intros sc. apply h_pre_pure. intros Hsc.
      set (L5 := AD nan :: AL (lA ++ nA) :: AU nan :: AO c2 :: AN c3 :: R).
      eapply h_bind.
      { eapply h_conseq; [apply (h_upd_add [] pr L5 nm_ANALOG nm_SCALE KFlts _ (Vcount nan)); [in_mand| |]|
                          intros s1 HK; apply (KF_incl _ _ _ _ _ HK); unfold L5, L4, L3, L2; incl_tac|intros a s1 HK; exact HK].
        - repeat (constructor; [cbn [fst snd AL AU AD AO AN]; right; discriminate|]). exact A4.
        - intros p Kp. destruct (set_floats_ok KFlts p (extend sc nan f32_one) Kp) as [p' [E [Nm [Ty [Dv Sz]]]]].
          { rewrite nlen_extend_eq by lia. exact Sr. }
          exists p'. split; [exact E|]. split; [exact Nm|]. split; [unfold kind_ok, type_ok; rewrite Ty, Sz; reflexivity|].
          unfold Vcount, pcount. rewrite Ty, Dv. apply nlen_extend_eq. lia. }
      intros u3. fold (AS nan). set (L6 := AS nan :: L5).
      (* OFFSET *)
      eapply h_bind; [apply (h_group_link [] pr nm_ANALOG nm_USED KInt1 L6); in_mand|]. intros g3.
      eapply h_bind; [apply (h_param_named_link2 nm_ANALOG nm_OFFSET KInts L6 g3); in_mand|]. intros pof.
      eapply h_bind.
      { apply (h_lift_P _ (values_as_int pof) _ (fun ofs s1 => KF0 L6 s1 /\ nlen ofs = c2)). intros s1 [HK [Kp Lp]].
        assert (Hc : Vcount c2 pof) by (apply (holds_det (groups s1) nm_ANALOG nm_OFFSET _ pof); [apply (KF_holds _ _ _ _ _ HK); unfold L6, L5; cbn [In]; auto 10|exact Lp]).
        unfold kind_ok, type_ok in Kp. apply andb_prop in Kp. destruct Kp as [T _].
        unfold Vcount, pcount in Hc. unfold values_as_int. destruct (p_type pof); try discriminate. split; [discriminate|]. intros a Ea. injection Ea as <-. auto. }
      intros ofs. apply h_pre_pure. intros Hofs.
      set (L7 := AS nan :: AD nan :: AL (lA ++ nA) :: AU nan :: AN c3 :: R).
      eapply h_bind.
      { eapply h_conseq; [apply (h_upd_add [] pr L7 nm_ANALOG nm_OFFSET KInts _ (Vcount nan)); [in_mand| |]|
                          intros s1 HK; apply (KF_incl _ _ _ _ _ HK); unfold L7, L6, L5; incl_tac|intros a s1 HK; exact HK].
        - repeat (constructor; [cbn [fst snd AL AU AD AS AN]; right; discriminate|]). exact A5.
        - intros p Kp. destruct (set_ints_ok KInts p (extend ofs nan 0%Z) Kp) as [p' [E [Nm [Ty [Dv Sz]]]]].
          { rewrite nlen_extend_eq by lia. exact Sr. }
          exists p'. split; [exact E|]. split; [exact Nm|]. split; [unfold kind_ok, type_ok; rewrite Ty, Sz; reflexivity|].
          unfold Vcount, pcount. rewrite Ty, Dv. apply nlen_extend_eq. lia. }
      intros u4. fold (AO nan). set (L8 := AO nan :: L7).
      (* UNITS *)
      eapply h_bind; [apply (h_group_link [] pr nm_ANALOG nm_USED KInt1 L8); in_mand|]. intros g4.
      eapply h_bind; [apply (h_param_named_link2 nm_ANALOG nm_UNITS KStrs L8 g4); in_mand|]. intros pun.
      eapply h_bind.
      { apply (h_lift_P _ (values_as_string pun) _ (fun un s1 => KF0 L8 s1 /\ nlen un = c3)). intros s1 [HK [Kp Lp]].
        assert (Hc : Vcount c3 pun) by (apply (holds_det (groups s1) nm_ANALOG nm_UNITS _ pun); [apply (KF_holds _ _ _ _ _ HK); unfold L8, L7; cbn [In]; auto 10|exact Lp]).
        unfold kind_ok, type_ok in Kp. apply andb_prop in Kp. destruct Kp as [T _].
        unfold Vcount, pcount in Hc. unfold values_as_string. destruct (p_type pun); try discriminate. split; [discriminate|]. intros a Ea. injection Ea as <-. auto. }
      intros un. apply h_pre_pure. intros Hun.
      set (L9 := AO nan :: AS nan :: AD nan :: AL (lA ++ nA) :: AU nan :: R).
      eapply h_conseq; [apply (h_upd_add [] pr L9 nm_ANALOG nm_UNITS KStrs _ (Vcount nan)); [in_mand| |]|
                        intros s1 HK; apply (KF_incl _ _ _ _ _ HK); unfold L9, L8, L7; incl_tac|intros a s1 HK; exact HK].
      * repeat (constructor; [cbn [fst snd AL AU AD AS AO]; right; discriminate|]). exact A6.
      * intros p Kp. destruct (set_strs_val KStrs p (extend un nan str_V) (or_introl eq_refl) Kp) as [p' [E [Nm [K' [_ V]]]]].
        { rewrite nlen_extend_eq by lia. exact Sr. }
        exists p'. rewrite nlen_extend_eq in V by lia. auto.
    + intros E. apply h_ret. intros s1 [HK Rv]. exfalso. apply Bool.negb_false_iff in E. apply N.eqb_eq in E.
      apply Hu. rewrite E. symmetry. apply (holds_r_int0 (groups s1) nm_ANALOG nm_USED u v); [|exact Rv].
      apply (KF_holds _ _ _ _ _ HK). unfold L0. cbn [In]. auto.
Qed.
End Blocks.

(* ---------- updateParameters on a frame-less object: every parameter the agreement reads, afterwards ---------- *)
Section Assemble.
Variable f_key : f32 -> outcome Z.
Variable f_tosize : f32 -> outcome N.
Variable f_div : f32 -> f32 -> f32.
Hypothesis f_key_nt : forall x e, f_key x <> Throw e.
Hypothesis f_tosize_nt : forall x e, f_tosize x <> Throw e.

Definition FR0 : fact := (nm_POINT, nm_FRAMES, Vint 0).
(* X: any further facts about parameters the updater does not write (the rates, other groups): they are carried along *)
Definition decl_pre (lP lA : list bstr) (X : list fact) : list fact :=
  PU (nlen lP) :: PL lP :: PD (nlen lP) :: PN (nlen lP) :: AU (nlen lA) :: AL lA :: AD (nlen lA) :: AS (nlen lA) :: AO (nlen lA) :: AN (nlen lA) :: X.
Definition decl_post (lP lA nP nA : list bstr) (X : list fact) : list fact :=
  let np := nlen lP + nlen nP in let na := nlen lA + nlen nA in
  FR0 :: PU np :: PL (lP ++ nP) :: PD np :: PN np :: AU na :: AL (lA ++ nA) :: AD na :: AS na :: AO na :: AN na :: X.
Definition untouched (X : list fact) : Prop :=
  apart nm_POINT nm_FRAMES X /\ apart nm_POINT nm_USED X /\ apart nm_POINT nm_LABELS X /\ apart nm_POINT nm_DESCRIPTIONS X /\
  apart nm_POINT nm_UNITS X /\ apart nm_ANALOG nm_USED X /\ apart nm_ANALOG nm_LABELS X /\ apart nm_ANALOG nm_DESCRIPTIONS X /\
  apart nm_ANALOG nm_SCALE X /\ apart nm_ANALOG nm_OFFSET X /\ apart nm_ANALOG nm_UNITS X.

Ltac apart_tac2 := unfold apart; repeat (apply Forall_cons || apply Forall_nil); try assumption;
  cbn [fst snd PU PL PD PN AU AL AD AS AO AN FR0]; first [left; discriminate | right; discriminate].

Theorem update_parameters_declare : forall nP nA s0 lP lA X,
  MT (groups s0) -> frames s0 = [] -> untouched X -> Forall (holds (groups s0)) (decl_pre lP lA X) ->
  nlen lP + nlen nP < 2147483648 -> nlen lA + nlen nA < 2147483648 ->
  hoare (fun s => s = s0) (update_parameters f_key f_tosize f_div nP nA)
        (fun _ => KF [] (pro s0) (decl_post lP lA nP nA X)).
Proof.
  intros nP nA s0 lP lA X M Fs0 (X1 & X2 & X3 & X4 & X5 & X6 & X7 & X8 & X9 & X10 & X11) H0 SP SA. set (pr := pro s0).
  unfold apart in X1, X2, X3, X4, X5, X6, X7, X8, X9, X10, X11.
  set (np := nlen lP + nlen nP). set (na := nlen lA + nlen nA).
  assert (K0 : KF [] pr (decl_pre lP lA X) s0) by (repeat split; try assumption; reflexivity).
  unfold update_parameters.
  eapply h_bind; [apply (h_getS _ (fun a s => a = s0 /\ s = s0)); intros s E; auto|]. apply h_eq_subst. cbv beta.
  assert (G1 : forall b, negb (nlen (frames s0) =? 0) && b = false) by (intros b; rewrite Fs0; reflexivity).
  rewrite !G1.
  eapply h_bind; [apply (h_ret _ tt _ (fun _ s => KF [] pr (decl_pre lP lA X) s)); intros s E; subst s; exact K0|]. intros u1.
  eapply h_bind; [apply (st_ret (KF [] pr (decl_pre lP lA X)))|]. intros u2.
  eapply h_bind.
  { apply (st_lift (KF [] pr (decl_pre lP lA X))). destruct (MT_lookup _ nm_POINT nm_LABELS KStrs M) as [pP [LP _]]; [in_mand|].
    destruct (lookup_inv _ _ _ _ LP) as [gi [gr [pi [Gi _]]]]. rewrite Gi. discriminate. }
  intros gi.
  (* block 1: POINT:FRAMES *)
  apply h_unassoc. eapply h_bind.
  { pose proof (block_frames f_div [] pr s0 (decl_pre lP lA X) M Fs0) as B. apply B; [unfold nlen; cbn; lia|unfold decl_pre; apart_tac2]. }
  intros u3. change (nm_POINT, nm_FRAMES, Vint (nlen (@nil frame))) with FR0.
  set (L1 := FR0 :: decl_pre lP lA X).
  (* number of points *)
  eapply h_bind.
  { instantiate (1 := fun npts s => KF [] pr L1 s /\ npts = np). rewrite Fs0.
    eapply h_bind; [apply (h_strs_of [] pr nm_POINT nm_LABELS L1); in_mand|]. intros l.
    apply h_ret. intros s [HK [R _]]. split; [exact HK|].
    rewrite (Vstr_read _ _ _ _ (KF_holds _ _ _ _ _ HK (or_intror (or_intror (or_introl eq_refl))))) in R. injection R as <-.
    apply wrap64_small. unfold two64. fold np. lia. }
  intros npts. apply h_pre_pure. intros ->.
  (* block 2: POINT *)
  set (RA := FR0 :: AU (nlen lA) :: AL lA :: AD (nlen lA) :: AS (nlen lA) :: AO (nlen lA) :: AN (nlen lA) :: X).
  set (L2 := PN np :: PD np :: PL (lP ++ nP) :: PU np :: RA).
  apply h_unassoc. eapply h_bind.
  { instantiate (1 := fun _ => KF [] pr L2). fold (points_block s0 nP np). destruct nP as [|n1 nP'].
    - assert (E : np = nlen lP) by (unfold np, nlen; cbn [length]; lia).
      eapply h_conseq; [apply (block_points_noop pr s0 [] np L1); unfold L1, decl_pre; rewrite E; cbn [In]; auto|intros s HK; exact HK|].
      intros a s HK. apply (KF_incl _ _ _ _ _ HK). unfold L2, L1, RA, decl_pre. rewrite app_nil_r, E. incl_tac.
    - eapply h_conseq; [apply (block_points_decl pr s0 (n1 :: nP') lP (nlen lP) RA Fs0 SP); try (unfold RA; apart_tac2)| |].
      + unfold nlen. cbn [length]. lia.
      + intros s HK. apply (KF_incl _ _ _ _ _ HK). unfold L1, RA, decl_pre. incl_tac.
      + intros a s HK. exact HK. }
  intros u4.
  eapply h_bind; [apply (h_getS _ (fun a s => a = s /\ KF [] pr L2 s)); auto|]. intros s1.
  eapply h_bind.
  { apply (h_lift_P _ _ _ (fun _ s => KF [] pr L2 s)). intros s [-> HK].
    destruct (MT_lookup _ nm_ANALOG nm_USED KInt1 (KF_MT _ _ _ _ HK)) as [p [Lp _]]; [in_mand|].
    destruct (lookup_inv _ _ _ _ Lp) as [gi2 [gr [pi [Gi _]]]]. rewrite Gi. split; [discriminate|]. intros a _. exact HK. }
  intros gi2.
  set (RP := PN np :: PD np :: PL (lP ++ nP) :: PU np :: FR0 :: X).
  set (L3 := AN na :: AO na :: AS na :: AD na :: AL (lA ++ nA) :: AU na :: RP).
  (* the ANALOG group of a well-typed object holds parameters: the "nothing analog anywhere" shortcut is not taken *)
  eapply h_bind; [apply (h_group_link [] pr nm_ANALOG nm_USED KInt1 L2); in_mand|]. intros ga0.
  eapply h_bind.
  { instantiate (1 := fun _ => KF [] pr L3). apply h_when.
    - intros _. eapply h_conseq with (P' := KF [] pr L2) (Q' := fun _ => KF [] pr L3); [|intros s [HK _]; exact HK|auto].
      (* number of channels *)
      eapply h_bind.
      { instantiate (1 := fun nan s => KF [] pr L2 s /\ nan = na). rewrite Fs0.
        eapply h_bind; [apply (h_strs_of [] pr nm_ANALOG nm_LABELS L2); in_mand|]. intros l.
        apply h_ret. intros s [HK [R _]]. split; [exact HK|].
        assert (I : In (AL lA) L2) by (unfold L2, RA; cbn [In]; auto 10).
        rewrite (Vstr_read _ _ _ _ (KF_holds _ _ _ _ _ HK I)) in R. injection R as <-.
        apply wrap64_small. unfold two64. fold na. lia. }
      intros nan. apply h_pre_pure. intros ->.
      (* block 3: ANALOG *)
      fold (analogs_block s0 nA na). destruct nA as [|n1 nA'].
      + assert (E : na = nlen lA) by (unfold na, nlen; cbn [length]; lia).
        eapply h_conseq; [apply (block_analogs_noop pr s0 [] na L2); unfold L2, RA; rewrite E; cbn [In]; auto 10|intros s HK; exact HK|].
        intros a s HK. apply (KF_incl _ _ _ _ _ HK). unfold L3, L2, RA, RP. rewrite app_nil_r, E. incl_tac.
      + eapply h_conseq; [apply (block_analogs_decl pr s0 (n1 :: nA') lA (nlen lA) (nlen lA) (nlen lA) (nlen lA) RP Fs0 SA); try (unfold RP; apart_tac2); try lia| |].
        * unfold nlen. cbn [length]. lia.
        * intros s HK. apply (KF_incl _ _ _ _ _ HK). unfold L2, RA, RP. incl_tac.
        * intros a s HK. exact HK.
    - intros E s [HK Hga0]. exfalso. apply Bool.negb_false_iff in E. unfold no_analog_anywhere in E.
      apply andb_prop in E. destruct E as [E _]. apply andb_prop in E. destruct E as [E _].
      destruct (param_of_group _ nm_ANALOG nm_USED KInt1 ga0 (KF_MT _ _ _ _ HK)) as [pi [p [Pi _]]]; [in_mand|exact Hga0|].
      unfold param_idx in Pi. destruct (g_params ga0); [cbn in Pi; discriminate|unfold nlen in E; cbn in E; discriminate]. }
  intros u5.
  eapply h_conseq; [apply (st_update_header f_key f_tosize f_div f_key_nt f_tosize_nt (KF [] pr L3)); [apply KF_MT|apply KF_hdr]|intros s HK; exact HK|].
  intros a s HK. apply (KF_incl _ _ _ _ _ HK). unfold decl_post, L3, RP. fold np. fold na. incl_tac.
Qed.
End Assemble.
