(* Run.v — the executable instance: Api.v's operations with the Flocq float oracle. *)
From EZ Require Import Base Bytes Types Api Float32 Enc Dec.

Definition step_x : state -> op -> res state unit :=
  step f_key_impl f_tosize_impl f_div_impl f_is_zero_impl.
Definition update_header_x (have_data : bool) : state -> res state unit :=
  update_header f_key_impl f_tosize_impl f_div_impl have_data.
Definition load_x (file : list N) : outcome state := load f_key_impl f_tosize_impl f_div_impl file.
Definition save_x (s : state) : outcome (list N) := save s.
