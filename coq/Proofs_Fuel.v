(* Proofs_Fuel.v — C16: the two fuelled loops of the loader model (the zero-skipping of Header::read and the
   record walker of Parameters::Parameters) never run out of fuel: the verdict UB Fuel is unreachable for every
   byte sequence.  The fuel is the file length + 1; every iteration that does not stop consumes at least one
   byte of a stream that is still good, and no reader inside the loops moves the stream backwards. *)
From Coq Require Import Lia ZifyNat ZifyN ZifyBool.
From EZ Require Import Base Bytes Types Api Dec Proofs_Robust.
Local Open Scope N_scope.

Definition remaining (st : stream) : nat := if st_fail st then 0%nat else length (st_rest st).

(* never the fuel verdict, and never more bytes ahead than before *)
Definition good {A} (m : RD A) : Prop :=
  forall st, m st <> UB Fuel /\ forall a st', m st = Ok (a, st') -> (remaining st' <= remaining st)%nat.

Lemma good_rret : forall A (a : A), good (rret a).
Proof. intros A a st. split; [discriminate|]. intros a' st' H. injection H as _ <-. lia. Qed.
Lemma good_rthrow : forall A e, good (@rthrow A e).
Proof. intros A e st. split; discriminate. Qed.
Lemma good_rub : forall A t, t <> Fuel -> good (@rub A t).
Proof. intros A t H st. split; [unfold rub; congruence|discriminate]. Qed.
Lemma good_rbind : forall A B (m : RD A) (k : A -> RD B), good m -> (forall a, good (k a)) -> good (rbind m k).
Proof.
  intros A B m k Hm Hk st. unfold rbind. destruct (Hm st) as [F1 M1].
  destruct (m st) as [[a s1]|e|t] eqn:E.
  - destruct (Hk a s1) as [F2 M2]. split; [exact F2|]. intros b st' H. specialize (M1 a s1 eq_refl). specialize (M2 b st' H). lia.
  - split; discriminate.
  - split; [intros H; apply F1; injection H as ->; reflexivity|discriminate].
Qed.
Lemma good_rlift : forall A (o : outcome A), o <> UB Fuel -> good (rlift o).
Proof.
  intros A o H st. unfold rlift. destruct o as [a|e|t]; split; try discriminate; try congruence.
  intros a' st' E. injection E as _ <-. lia.
Qed.
Lemma good_state_read : forall A (f : stream -> A), good (fun st => Ok (f st, st)).
Proof. intros A f st. split; [discriminate|]. intros a st' H. injection H as _ <-. lia. Qed.

Lemma read_remaining : forall st n, (remaining (snd (read st n)) <= remaining st)%nat.
Proof.
  intros st n. unfold read, remaining. destruct (st_fail st) eqn:F; cbn [snd]; [rewrite F; lia|].
  destruct (length (firstn n (st_rest st)) <? n)%nat; cbn [snd st_fail st_rest]; [lia|]. rewrite skipn_length. lia.
Qed.
Lemma good_rd_bytes : forall n, good (rd_bytes n).
Proof.
  intros n st. unfold rd_bytes. split; [discriminate|]. intros a st' H. injection H as H. 
  pose proof (read_remaining st n) as R. rewrite H in R. exact R.
Qed.

Ltac gstep :=
  match goal with
  | |- good (rbind _ _) => apply good_rbind; [|intros ?]
  | |- good (rret _) => apply good_rret
  | |- good (rthrow _) => apply good_rthrow
  | |- good (rub _) => apply good_rub; discriminate
  | |- good (rd_bytes _) => apply good_rd_bytes
  | |- good rd_tell => apply (good_state_read _ tell)
  | |- good rd_failed => apply (good_state_read _ st_fail)
  | |- good rd_len => apply (good_state_read _ (fun st => nlen (st_file st)))
  | |- good (if ?b then _ else _) => destruct b
  | |- good (match ?x with _ => _ end) => destruct x
  | |- good (let '(_, _) := ?p in _) => destruct p
  end.

Lemma good_rd_int : forall n, good (rd_int n). Proof. intros n. unfold rd_int. repeat gstep. Qed.
Lemma good_rd_uint : forall n, good (rd_uint n). Proof. intros n. unfold rd_uint. repeat gstep. Qed.
Lemma good_rd_float : good rd_float. Proof. unfold rd_float. repeat gstep. Qed.
Lemma good_rd_string : forall n, good (rd_string n). Proof. intros n. unfold rd_string. repeat gstep. Qed.
Lemma good_rd_many : forall A (m : RD A) n, good m -> good (rd_many n m).
Proof. intros A m n Hm. induction n as [|n IH]; cbn [rd_many]; [apply good_rret|]. gstep; [exact Hm|]. gstep; [exact IH|]. gstep. Qed.

Ltac gstep2 :=
  first [ apply good_rd_int | apply good_rd_uint | apply good_rd_float | apply good_rd_string
        | apply good_rd_many | gstep ].

Lemma good_blowup_guard : forall s c, good (blowup_guard s c).
Proof. intros s c. unfold blowup_guard. repeat gstep2. Qed.
Lemma good_read_values : forall ty dims, good (read_values ty dims).
Proof.
  intros ty dims. destruct ty; unfold read_values, read_strings, read_ints, read_floats;
    repeat first [apply good_blowup_guard | gstep2].
Qed.
Lemma good_next_pos : forall off, good (next_pos off).
Proof. intros off. unfold next_pos. repeat gstep2. Qed.
Lemma good_read_param : forall n, good (read_param n).
Proof. intros n. unfold read_param. repeat first [apply good_next_pos | apply good_read_values | gstep2]. Qed.
Lemma good_read_group : forall g n, good (read_group g n).
Proof. intros g n. unfold read_group. repeat first [apply good_next_pos | gstep2]. Qed.

(* one byte read from a stream with nothing ahead is the zero byte *)
Lemma rd_int1_nothing : forall st, remaining st = 0%nat -> exists st', rd_int 1 st = Ok (0%Z, st').
Proof.
  intros st H. unfold rd_int, rbind, rd_bytes, rret, read, remaining in *. destruct (st_fail st) eqn:F.
  - eexists. reflexivity.
  - apply length_zero_iff_nil in H. rewrite H. cbn. eexists. reflexivity.
Qed.
Lemma rd_int1_consumes : forall st v st', rd_int 1 st = Ok (v, st') -> v <> 0%Z -> (remaining st' < remaining st)%nat.
Proof.
  intros st v st' H Hv. destruct (Nat.eq_dec (remaining st) 0) as [Z0|NZ].
  - destruct (rd_int1_nothing st Z0) as [s2 E]. rewrite E in H. injection H as <- _. contradiction.
  - unfold rd_int, rbind, rd_bytes, rret, read in H. unfold remaining in *. destruct (st_fail st) eqn:F; [lia|].
    destruct (st_rest st) as [|b r] eqn:R; [cbn in NZ; lia|]. cbn in H. injection H as _ <-. cbn. lia.
Qed.

Lemma group_set_param_no_fuel : forall g p, group_set_param g p <> UB Fuel.
Proof. intros g p. unfold group_set_param. destruct (p_type p); try discriminate; destruct (find_idx _ _ _); discriminate. Qed.

(* THE WALKER never runs out of fuel when the fuel exceeds the bytes ahead *)
Ltac nf H := let X := fresh in intros X; apply H; injection X as ->; reflexivity.

Theorem walk_fuel : forall fuel nxt gs st, (remaining st < fuel)%nat -> walk fuel nxt gs st <> UB Fuel.
Proof.
  induction fuel as [|f IH]; intros nxt gs st Hr; [lia|]. cbn [walk].
  destruct (nxt =? 0)%Z; [discriminate|].
  unfold rbind at 1. unfold rd_tell at 1. destruct (negb (tell st =? nxt)%Z); [discriminate|].
  unfold rbind at 1. destruct (good_rd_int 1 st) as [F1 M1].
  destruct (rd_int 1 st) as [[nchars s1]|e|t] eqn:E1; [|discriminate|nf F1].
  destruct (nchars =? 0)%Z eqn:Z0; [discriminate|]. apply Z.eqb_neq in Z0.
  pose proof (rd_int1_consumes st nchars s1 E1 Z0) as C1.
  unfold rbind at 1. destruct (good_rd_int 1 s1) as [F2 M2].
  destruct (rd_int 1 s1) as [[id s2]|e|t] eqn:E2; [|discriminate|nf F2].
  specialize (M2 id s2 eq_refl).
  destruct (id <? 0)%Z.
  - destruct (nth_error _ _) as [g0|]; [|discriminate].
    unfold rbind at 1. destruct (good_read_group g0 nchars s2) as [F3 M3].
    destruct (read_group g0 nchars s2) as [[[g1 nx] s3]|e|t] eqn:E3; [|discriminate|nf F3].
    specialize (M3 _ s3 eq_refl). apply IH. lia.
  - destruct (id =? 0)%Z; [discriminate|].
    destruct (nth_error _ _) as [g0|]; [|discriminate].
    unfold rbind at 1. destruct (good_read_param nchars s2) as [F3 M3].
    destruct (read_param nchars s2) as [[[p nx] s3]|e|t] eqn:E3; [|discriminate|nf F3].
    specialize (M3 _ s3 eq_refl).
    unfold rbind at 1. unfold rlift. pose proof (group_set_param_no_fuel g0 p) as G.
    destruct (group_set_param g0 p) as [g1|e|t]; [|discriminate|congruence].
    apply IH. lia.
Qed.

(* the zero-skipping loop of Header::read *)
Theorem skip_zeros_fuel : forall fuel z st, (remaining st < fuel)%nat -> skip_zeros fuel z st <> UB Fuel.
Proof.
  induction fuel as [|f IH]; intros z st Hr; [lia|]. cbn [skip_zeros].
  unfold rbind at 1. unfold rd_uint, rbind, rd_bytes, rret, rd_failed. 
  destruct (read st 1) as [a st'] eqn:R. cbv beta iota.
  destruct (st_fail st') eqn:Ff; [discriminate|]. destruct (read_uint a =? 0); [|discriminate].
  apply IH.
  (* a read that leaves the stream good consumed its byte *)
  assert (Es : st' = snd (read st 1)) by (rewrite R; reflexivity). subst st'. clear R.
  unfold read, remaining in *. destruct (st_fail st) eqn:F; cbn [snd] in Ff |- *; [rewrite F in Ff; discriminate|].
  destruct (length (firstn 1 (st_rest st)) <? 1)%nat eqn:L; cbn [snd st_fail st_rest] in Ff |- *; [discriminate|].
  rewrite skipn_length. apply Nat.ltb_ge in L. rewrite firstn_length in L. lia.
Qed.

(* ---------- the whole loader ---------- *)
Definition nf {A} (m : RD A) : Prop := forall st, m st <> UB Fuel.
Lemma good_nf : forall A (m : RD A), good m -> nf m.
Proof. intros A m H st. apply H. Qed.
Lemma nf_rbind : forall A B (m : RD A) (k : A -> RD B), nf m -> (forall a, nf (k a)) -> nf (rbind m k).
Proof.
  intros A B m k Hm Hk st. unfold rbind. specialize (Hm st). destruct (m st) as [[a s1]|e|t]; [apply Hk|discriminate|].
  intros H. apply Hm. injection H as ->. reflexivity.
Qed.

Lemma seek_file : forall st off, st_file (seek st off) = st_file st.
Proof. intros st off. unfold seek. destruct (st_fail st); [reflexivity|]. destruct (off <? 0)%Z; reflexivity. Qed.
Lemma seek_bounded : forall st off, (remaining (seek st off) <= length (st_file st))%nat.
Proof.
  intros st off. unfold seek, remaining. destruct (st_fail st) eqn:F; [rewrite F; lia|].
  destruct (off <? 0)%Z; cbn [st_fail st_rest]; [lia|]. rewrite skipn_length. lia.
Qed.
Lemma read_file : forall st n, st_file (snd (read st n)) = st_file st.
Proof. intros st n. unfold read. destruct (st_fail st); [reflexivity|]. destruct (_ <? _)%nat; reflexivity. Qed.

(* rd_uint/rd_int keep the file and never look further ahead *)
Lemma rd_uint_step : forall n st v st', rd_uint n st = Ok (v, st') ->
  st_file st' = st_file st /\ (remaining st' <= remaining st)%nat.
Proof.
  intros n st v st' H. unfold rd_uint, rbind, rd_bytes, rret in H.
  destruct (read st n) as [a s1] eqn:R. injection H as _ <-.
  assert (E : s1 = snd (read st n)) by (rewrite R; reflexivity). subst s1. split; [apply read_file|apply read_remaining].
Qed.

Ltac nfs :=
  repeat first [ apply good_nf; first [apply good_rd_uint | apply good_rd_int | apply good_rd_float | apply good_rd_string | apply good_blowup_guard
                                      | apply good_rd_many; first [apply good_rd_float | apply good_rd_uint | apply good_rd_string] | apply good_rret | apply good_rthrow ]
               | match goal with |- nf (if ?b then _ else _) => destruct b end
               | match goal with |- nf (let '(_, _) := ?p in _) => destruct p end
               | apply nf_rbind; [|intros ?]
               | intros ?s; discriminate ].

Theorem read_header_fuel : forall st, read_header st <> UB Fuel.
Proof.
  intros st. unfold read_header. unfold rbind at 1. unfold rd_seek at 1.
  unfold rbind at 1. destruct (rd_uint 1 (seek st 0)) as [[a0 s1]|e|t] eqn:E1; [|discriminate|].
  2:{ unfold rd_uint, rbind, rd_bytes, rret in E1. destruct (read (seek st 0) 1); discriminate. }
  destruct (rd_uint_step _ _ _ _ E1) as [Fl Rm].
  unfold rbind at 1. unfold rd_len at 1.
  set (REST := fun az : N * N => _).
  assert (NR : forall az, nf (REST az)).
  { intros [paddr zeros]. unfold REST. nfs. }
  unfold rbind at 1. destruct (a0 =? 0).
  - pose proof (skip_zeros_fuel (S (N.to_nat (nlen (st_file s1)))) 0 s1) as SK.
    destruct (skip_zeros _ 0 s1) as [[az s2]|e|t]; [apply NR|discriminate|].
    intros H. apply SK; [|injection H as ->; reflexivity].
    pose proof (seek_bounded st 0). rewrite Fl, seek_file. unfold nlen. rewrite Nat2N.id. lia.
  - unfold rret. apply NR.
Qed.

Theorem read_parameters_fuel : forall h st, read_parameters h st <> UB Fuel.
Proof.
  intros h st. unfold read_parameters. unfold rbind at 1. unfold rd_seek at 1.
  set (s0 := seek st _).
  assert (B0 : (remaining s0 <= length (st_file st))%nat) by apply seek_bounded.
  assert (F0 : st_file s0 = st_file st) by apply seek_file.
  unfold rbind at 1. destruct (rd_uint 1 s0) as [[v1 s1]|e|t] eqn:E1; [|discriminate|unfold rd_uint, rbind, rd_bytes, rret in E1; destruct (read s0 1); discriminate].
  destruct (rd_uint_step _ _ _ _ E1) as [F1 R1].
  unfold rbind at 1. destruct (rd_uint 1 s1) as [[v2 s2]|e|t] eqn:E2; [|discriminate|unfold rd_uint, rbind, rd_bytes, rret in E2; destruct (read s1 1); discriminate].
  destruct (rd_uint_step _ _ _ _ E2) as [F2 R2].
  unfold rbind at 1. destruct (rd_uint 1 s2) as [[v3 s3]|e|t] eqn:E3; [|discriminate|unfold rd_uint, rbind, rd_bytes, rret in E3; destruct (read s2 1); discriminate].
  destruct (rd_uint_step _ _ _ _ E3) as [F3 R3].
  unfold rbind at 1. destruct (rd_uint 1 s3) as [[v4 s4]|e|t] eqn:E4; [|discriminate|unfold rd_uint, rbind, rd_bytes, rret in E4; destruct (read s3 1); discriminate].
  destruct (rd_uint_step _ _ _ _ E4) as [F4 R4].
  destruct (if (v2 =? 0) && (v1 =? 0) then (1, 80) else (v1, v2)) as [start chk].
  destruct (negb (chk =? 80)); [discriminate|].
  unfold rbind at 1. unfold rd_tell at 1. unfold rbind at 1. unfold rd_len at 1. unfold rbind at 1.
  pose proof (walk_fuel (S (N.to_nat (nlen (st_file s4)))) (wrap32s (tell s4 + Z.of_N start - 1)) [] s4) as W.
  destruct (walk _ _ [] s4) as [[gs s5]|e|t]; [discriminate|discriminate|].
  intros H. apply W; [|injection H as ->; reflexivity].
  rewrite F4, F3, F2, F1, F0. unfold nlen. rewrite Nat2N.id. lia.
Qed.

Lemma lookup_strs_never_ub : forall gs g n t,
  obind (group_named gs g) (fun gr => obind (param_named gr n) values_as_string) <> UB t.
Proof.
  intros gs g n t H. unfold group_named, group_idx, group_at, param_named, param_idx, param_at, at_, values_as_string in H.
  repeat match type of H with context [match ?x with _ => _ end] => destruct x; cbn [obind] in H end; discriminate.
Qed.
Lemma good_read_points : forall n i names, good (read_points n i names).
Proof. induction n as [|n IH]; intros i names; cbn [read_points]; repeat first [apply IH | gstep2]. Qed.
Lemma good_read_channels : forall n i names, good (read_channels n i names).
Proof. induction n as [|n IH]; intros i names; cbn [read_channels]; repeat first [apply IH | gstep2]. Qed.

Theorem read_data_fuel : forall h pr gs, nf (read_data h pr gs).
Proof.
  intros h pr gs. unfold read_data.
  apply nf_rbind; [intros s; discriminate|]. intros _.
  repeat first [ apply good_nf; first [apply good_rd_int | apply good_blowup_guard | apply good_rret | apply good_rthrow
                                      | apply good_rlift; apply lookup_strs_never_ub
                                      | apply good_rd_many; repeat first [apply good_read_points | apply good_read_channels | apply good_rd_many | gstep2] ]
               | match goal with |- nf (if ?b then _ else _) => destruct b end
               | apply nf_rbind; [|intros ?] ].
Qed.

(* the header updater has no fuelled loop *)
Definition mnf {A} (m : Mst A) : Prop := forall s, m s <> RUB Fuel.
Lemma mnf_bind : forall A B (m : Mst A) (k : A -> Mst B), mnf m -> (forall a, mnf (k a)) -> mnf (bind m k).
Proof.
  intros A B m k Hm Hk s. unfold bind. specialize (Hm s). destruct (m s) as [a s1|e s1|t]; [apply Hk|discriminate|].
  intros H. apply Hm. injection H as ->. reflexivity.
Qed.
Lemma mnf_lift : forall A (o : outcome A), o <> UB Fuel -> mnf (@lift state A o).
Proof. intros A o H s. unfold lift. destruct o; try discriminate. intros E. apply H. injection E as ->. reflexivity. Qed.

Section WithOps.
Variable f_key : f32 -> outcome Z.
Variable f_tosize : f32 -> outcome N.
Variable f_div : f32 -> f32 -> f32.
Hypothesis f_key_nofuel : forall r, f_key r <> UB Fuel.
Hypothesis f_tosize_nofuel : forall r, f_tosize r <> UB Fuel.

Ltac mnfs :=
  repeat first
    [ apply mnf_bind; [|intros ?]
    | apply mnf_lift; first [apply f_key_nofuel | apply f_tosize_nofuel | apply group_named_no_ub | apply param_named_no_ub | apply at_no_ub
                            | unfold values_as_int; match goal with |- context [p_type ?a] => destruct (p_type a) end; discriminate
                            | unfold values_as_float; match goal with |- context [p_type ?a] => destruct (p_type a) end; discriminate ]
    | match goal with |- mnf (when ?b _) => unfold when; destruct b end
    | match goal with |- mnf (if ?b then _ else _) => destruct b end
    | match goal with |- mnf (match ?x with _ => _ end) => destruct x end
    | intros ?s; discriminate ].

Lemma mnf_update_header : forall b, mnf (update_header f_key f_tosize f_div b).
Proof.
  intros b. unfold update_header, uh_rate_points, uh_analogs, uh_frames, byframe_step, analog_rate_step,
    int0, float0, get_param, get_group, mod_hdr, getS, modS, ret.
  mnfs.
Qed.

(* C16: loading ANY byte sequence never ends with the fuel verdict: both loops of the model terminate on their own *)
Theorem load_never_out_of_fuel : forall file, load f_key f_tosize f_div file <> UB Fuel.
Proof.
  intros file. unfold load.
  pose proof (read_header_fuel (open_stream file)) as H1.
  destruct (read_header (open_stream file)) as [[h st1]|e|t]; [|discriminate|intros E; apply H1; injection E as ->; reflexivity].
  pose proof (read_parameters_fuel h st1) as H2.
  destruct (read_parameters h st1) as [[[pr gs] st2]|e|t]; [|discriminate|intros E; apply H2; injection E as ->; reflexivity].
  pose proof (mnf_update_header false (mkState h pr gs [])) as H3.
  destruct (update_header f_key f_tosize f_div false (mkState h pr gs [])) as [u s1|e s1|t]; [|discriminate|intros E; apply H3; injection E as ->; reflexivity].
  pose proof (read_data_fuel (hdr s1) pr gs st2) as H4.
  destruct (read_data (hdr s1) pr gs st2) as [[fs st3]|e|t]; [discriminate|discriminate|intros E; apply H4; injection E as ->; reflexivity].
Qed.
End WithOps.
