(* Api.v — the public mutators of ezc3d::c3d and the two updaters, line by line
   (ezc3d.cpp, Parameters.cpp, Group.cpp, Parameter.cpp, Data.cpp as of /repo HEAD).
   Sites of unchecked accesses carry a number so that a UB verdict names the line. *)
From EZ Require Import Base Types.
Local Open Scope N_scope.
Local Open Scope m_scope.

Section WithFloatOps.
(* the four float computations the code performs; everything else copies bit patterns *)
Variable f_key : f32 -> outcome Z.          (* static_cast<int>(r * 10000.0f) *)
Variable f_tosize : f32 -> outcome N.       (* static_cast<size_t>(r) *)
Variable f_div : f32 -> f32 -> f32.         (* a / b in float *)
Variable f_is_zero : f32 -> bool.           (* static_cast<double>(r) == 0.0 *)

(* ---------- Parameter ---------- *)
Definition new_param (name desc : bstr) : param := mkParam name desc false TNone [] [] [] [].

(* Parameter::isDimensionConsistent: the empty-data test multiplies in int (wraps mod 2^32),
   the other one in size_t (wraps mod 2^64) *)
Definition dim_consistent (n : N) (dims : list N) : bool :=
  if n =? 0 then
    match dims with
    | [] => true
    | _ => (wrap32s (Z.of_N (prodN dims)) =? 0)%Z
    end
  else n =? wrap64 (prodN dims).

Definition dims_or_len (dims : list N) (n : N) : list N :=
  match dims with [] => [n] | _ => dims end.

Definition set_ints (p : param) (data : list Z) (dims : list N) : outcome param :=
  let d := dims_or_len dims (nlen data) in
  if dim_consistent (nlen data) d
  then Ok (mkParam (p_name p) (p_desc p) (p_lock p) TInt d data (p_floats p) (p_strs p))
  else Throw RangeError.
Definition set_floats (p : param) (data : list f32) (dims : list N) : outcome param :=
  let d := dims_or_len dims (nlen data) in
  if dim_consistent (nlen data) d
  then Ok (mkParam (p_name p) (p_desc p) (p_lock p) TFloat d (p_ints p) data (p_strs p))
  else Throw RangeError.
Definition set_strs (p : param) (data : list bstr) (dims : list N) : outcome param :=
  let d := dims_or_len dims (nlen data) in
  if dim_consistent (nlen data) d
  then Ok (mkParam (p_name p) (p_desc p) (p_lock p) TChar (maxlen data :: d) (p_ints p) (p_floats p) data)
  else Throw RangeError.
(* set(int) and set(size_t): the latter narrows to int first *)
Definition set_int1 (p : param) (v : Z) : outcome param := set_ints p [v] [].
Definition set_usize1 (p : param) (v : N) : outcome param := set_int1 p (wrap32s (Z.of_N v)).

Definition values_as_int (p : param) : outcome (list Z) :=
  match p_type p with TInt => Ok (p_ints p) | _ => Throw InvalidArgument end.
Definition values_as_byte (p : param) : outcome (list Z) :=
  match p_type p with TByte => Ok (p_ints p) | _ => Throw InvalidArgument end.
Definition values_as_float (p : param) : outcome (list f32) :=
  match p_type p with TFloat => Ok (p_floats p) | _ => Throw InvalidArgument end.
Definition values_as_string (p : param) : outcome (list bstr) :=
  match p_type p with TChar => Ok (p_strs p) | _ => Throw InvalidArgument end.

(* ---------- Group ---------- *)
Definition new_group (name desc : bstr) : group := mkGroup name desc false [].
Definition param_idx (g : group) (name : bstr) : outcome N :=
  match find_idx (fun p => bstr_eqb (p_name p) name) (g_params g) 0 with
  | Some i => Ok i | None => Throw InvalidArgument end.
Definition param_at (g : group) (i : N) : outcome param := at_ (g_params g) i.
Definition param_named (g : group) (name : bstr) : outcome param :=
  obind (param_idx g name) (param_at g).
(* Group::parameter(p): refuse an untyped parameter, replace the first of that name or append *)
Definition group_set_param (g : group) (p : param) : outcome group :=
  match p_type p with
  | TNone => Throw RuntimeError
  | _ => match find_idx (fun q => bstr_eqb (p_name q) (p_name p)) (g_params g) 0 with
         | Some i => Ok (g_set_params g (replace_nth (N.to_nat i) p (g_params g)))
         | None => Ok (g_set_params g (g_params g ++ [p]))
         end
  end.

(* ---------- Parameters ---------- *)
Definition group_idx (gs : list group) (name : bstr) : outcome N :=
  match find_idx (fun g => bstr_eqb (g_name g) name) gs 0 with
  | Some i => Ok i | None => Throw InvalidArgument end.
Definition group_at (gs : list group) (i : N) : outcome group := at_ gs i.
Definition group_named (gs : list group) (name : bstr) : outcome group :=
  obind (group_idx gs name) (group_at gs).
(* Parameters::group(g): merge into the LAST group of that name, or append *)
Fixpoint fold_set_params (g : group) (ps : list param) : outcome group :=
  match ps with
  | [] => Ok g
  | p :: t => obind (group_set_param g p) (fun g' => fold_set_params g' t)
  end.
Definition groups_add (gs : list group) (g : group) : outcome (list group) :=
  match find_last_idx (fun h => bstr_eqb (g_name h) (g_name g)) gs 0 None with
  | None => Ok (gs ++ [g])
  | Some i => obind (idx_ 1 gs i) (fun old =>
              obind (fold_set_params old (g_params g)) (fun merged =>
              Ok (replace_nth (N.to_nat i) merged gs)))
  end.

(* ---------- initial object: c3d::c3d() ---------- *)
Definition s_ (l : list N) : bstr := l.
Definition nm_POINT : bstr := [80;79;73;78;84].
Definition nm_ANALOG : bstr := [65;78;65;76;79;71].
Definition nm_FORCE_PLATFORM : bstr := [70;79;82;67;69;95;80;76;65;84;70;79;82;77].
Definition nm_USED : bstr := [85;83;69;68].
Definition nm_SCALE : bstr := [83;67;65;76;69].
Definition nm_RATE : bstr := [82;65;84;69].
Definition nm_DATA_START : bstr := [68;65;84;65;95;83;84;65;82;84].
Definition nm_FRAMES : bstr := [70;82;65;77;69;83].
Definition nm_LABELS : bstr := [76;65;66;69;76;83].
Definition nm_DESCRIPTIONS : bstr := [68;69;83;67;82;73;80;84;73;79;78;83].
Definition nm_UNITS : bstr := [85;78;73;84;83].
Definition nm_GEN_SCALE : bstr := [71;69;78;95;83;67;65;76;69].
Definition nm_OFFSET : bstr := [79;70;70;83;69;84].
Definition nm_FORMAT : bstr := [70;79;82;77;65;84].
Definition nm_BITS : bstr := [66;73;84;83].
Definition nm_TYPE : bstr := [84;89;80;69].
Definition nm_ZERO : bstr := [90;69;82;79].
Definition nm_CORNERS : bstr := [67;79;82;78;69;82;83].
Definition nm_ORIGIN : bstr := [79;82;73;71;73;78].
Definition nm_CHANNEL : bstr := [67;72;65;78;78;69;76].
Definition nm_CAL_MATRIX : bstr := [67;65;76;95;77;65;84;82;73;88].
Definition str_mm : bstr := [109;109].
Definition str_V : bstr := [86].
Definition f32_one : f32 := 1065353216.       (* 0x3f800000 *)
Definition f32_minus_one : f32 := 3212836864. (* 0xbf800000 *)

Definition pI (n : bstr) (lock : bool) (v : list Z) : param := mkParam n [] lock TInt [nlen v] v [] [].
Definition pF (n : bstr) (lock : bool) (v : list f32) : param := mkParam n [] lock TFloat [nlen v] [] v [].
Definition pS0 (n : bstr) : param := mkParam n [] false TChar [0; 0] [] [] [].

Definition init_groups : list group :=
  [ mkGroup nm_POINT [] false
      [ pI nm_USED true [0%Z]; pF nm_SCALE true [f32_minus_one]; pF nm_RATE true [0];
        pI nm_DATA_START true [0%Z]; pI nm_FRAMES true [0%Z];
        pS0 nm_LABELS; pS0 nm_DESCRIPTIONS; pS0 nm_UNITS ];
    mkGroup nm_ANALOG [] false
      [ pI nm_USED true [0%Z]; pS0 nm_LABELS; pS0 nm_DESCRIPTIONS; pI nm_GEN_SCALE false [1%Z];
        pF nm_SCALE false []; pI nm_OFFSET false []; pS0 nm_UNITS; pF nm_RATE true [0];
        pS0 nm_FORMAT; pI nm_BITS false [] ];
    mkGroup nm_FORCE_PLATFORM [] false
      [ pI nm_USED false [0%Z]; pI nm_TYPE false []; pI nm_ZERO false [1%Z; 0%Z];
        pF nm_CORNERS false []; pF nm_ORIGIN false []; pI nm_CHANNEL false []; pF nm_CAL_MATRIX false [] ] ].

Definition init_header : header :=
  mkHeader 0 2 80 0 0 0 0 10 (-1)%Z 1 0 0 0%Z 0%Z 0%Z 0%Z 0 0 12345 0
           (repeat 0 18) (repeat 0 9) (repeat [] 18).
Definition init_pro : prologue := mkPro 1 80 0 84.
Definition init : state := mkState init_header init_pro init_groups [].

(* ---------- state accessors used by the updaters ---------- *)
Definition Mst := M state.

Definition get_group (name : bstr) : Mst group :=
  s <- getS ;; lift (group_named (groups s) name).
Definition get_param (gname pname : bstr) : Mst param :=
  g <- get_group gname ;; lift (param_named g pname).
(* parameters().group(g).parameter(p).valuesAsInt().at(0); site only documents the call site *)
Definition int0 (site : nat) (gname pname : bstr) : Mst Z :=
  p <- get_param gname pname ;; v <- lift (values_as_int p) ;; lift (at_ v 0).
Definition float0 (site : nat) (gname pname : bstr) : Mst f32 :=
  p <- get_param gname pname ;; v <- lift (values_as_float p) ;; lift (at_ v 0).
Definition strs_of (gname pname : bstr) : Mst (list bstr) :=
  p <- get_param gname pname ;; lift (values_as_string p).

(* _parameters->group_nonConst(gi).parameter_nonConst(pi) := f(old) *)
Definition upd_param (gname pname : bstr) (f : param -> outcome param) : Mst unit :=
  s <- getS ;;
  gi <- lift (group_idx (groups s) gname) ;;
  g <- lift (group_at (groups s) gi) ;;
  pi <- lift (param_idx g pname) ;;
  p <- lift (param_at g pi) ;;
  p' <- lift (f p) ;;
  putS (set_groups s (replace_nth (N.to_nat gi) (g_set_params g (replace_nth (N.to_nat pi) p' (g_params g))) (groups s))).

Definition mod_hdr (f : header -> header) : Mst unit := modS (fun s => set_hdr s (f (hdr s))).
Definition when (b : bool) (m : Mst unit) : Mst unit := if b then m else ret tt.

(* ---------- c3d::updateHeader ---------- *)
(* sub-frames per frame from the rate ratio (1 when the point rate IS 0); only when ANALOG has parameters *)
Definition analog_rate_step (rate : f32) : Mst unit :=
  s <- getS ;;
  ga <- get_group nm_ANALOG ;;
  when (negb (nlen (g_params ga) =? 0))
    (if f32_is_zero rate then
       when (negb (h_byframe (hdr s) =? 1)) (mod_hdr (fun h => h_set_byframe h 1))
     else
       ar <- float0 15 nm_ANALOG nm_RATE ;;
       q <- lift (f_tosize (f_div ar rate)) ;;
       when (negb (q =? h_byframe (hdr s)))
            (ar2 <- float0 16 nm_ANALOG nm_RATE ;;
             q2 <- lift (f_tosize (f_div ar2 rate)) ;;
             mod_hdr (fun h => h_set_byframe h q2))).

(* the data win when a first frame with sub-frames exists, otherwise the rates *)
Definition byframe_step (have_data : bool) (rate : f32) : Mst unit :=
  s <- getS ;;
  match (if have_data then frames s else []) with
  | f0 :: _ =>
      if negb (nlen (fr_subs f0) =? 0) then
        when (negb (nlen (fr_subs f0) =? h_byframe (hdr s)))
             (mod_hdr (fun h => h_set_byframe h (nlen (fr_subs f0))))
      else analog_rate_step rate
  | [] => analog_rate_step rate
  end.

(* rate and point count follow POINT:RATE and POINT:USED *)
Definition uh_rate_points : Mst f32 :=
  rate <- float0 12 nm_POINT nm_RATE ;;
  s <- getS ;;
  k1 <- lift (f_key rate) ;;
  k2 <- lift (f_key (h_rate (hdr s))) ;;
  when (negb (k1 =? k2)%Z) (mod_hdr (fun h => h_set_rate h rate)) ;;;
  u <- int0 13 nm_POINT nm_USED ;;
  s <- getS ;;
  when (negb (z_to_usize u =? h_points (hdr s)))
       (u2 <- int0 14 nm_POINT nm_USED ;; mod_hdr (fun h => h_set_points h (z_to_usize u2))) ;;;
  ret rate.

(* channel count follows ANALOG:USED (0 when the ANALOG group has no parameter) *)
Definition uh_analogs : Mst unit :=
  ga <- get_group nm_ANALOG ;;
  if negb (nlen (g_params ga) =? 0) then
    au <- int0 17 nm_ANALOG nm_USED ;;
    s <- getS ;;
    when (negb (z_to_usize au =? h_nb_analogs (hdr s)))
         (au2 <- int0 18 nm_ANALOG nm_USED ;; mod_hdr (fun h => h_set_nb_analogs h (z_to_usize au2)))
  else mod_hdr (fun h => h_set_nb_analogs h 0).

(* the frame count of the header depends on its point and analog counts: compared last *)
Definition uh_frames : Mst unit :=
  fz <- int0 10 nm_POINT nm_FRAMES ;;
  s <- getS ;;
  when (negb (z_to_usize fz =? h_nb_frames (hdr s)))
       (fz2 <- int0 11 nm_POINT nm_FRAMES ;;
        mod_hdr (fun h => h_set_first_last h 0 (sub64 (z_to_usize fz2) 1))).

(* have_data is false only while a file is being loaded (the data section is not built yet) *)
Definition update_header (have_data : bool) : Mst unit :=
  rate <- uh_rate_points ;;
  byframe_step have_data rate ;;;
  uh_analogs ;;;
  uh_frames.

(* ---------- c3d::updateParameters ---------- *)
Fixpoint build_names (n : nat) (i : N) (name_of : N -> Mst bstr) : Mst (list bstr) :=
  match n with
  | O => ret []
  | S n' => x <- name_of i ;; t <- build_names n' (i + 1) name_of ;; ret (x :: t)
  end.
Definition extend {A} (l : list A) (n : N) (x : A) : list A :=
  l ++ repeat x (N.to_nat (n - nlen l)).

Definition no_analog_anywhere (ga : group) (newA : list bstr) (fs : list frame) : bool :=
  (nlen (g_params ga) =? 0) && (nlen newA =? 0) &&
  match fs with f0 :: _ => match fr_subs f0 with sf0 :: _ => nlen sf0 =? 0 | [] => true end | [] => true end.

Definition update_parameters (newP newA : list bstr) : Mst unit :=
  s <- getS ;;
  let nfr := nlen (frames s) in
  (if negb (nfr =? 0) && negb (nlen newP =? 0) then throw RuntimeError else ret tt) ;;;
  (if negb (nfr =? 0) && negb (nlen newA =? 0) then throw RuntimeError else ret tt) ;;;
  _ <- lift (group_idx (groups s) nm_POINT) ;;
  fz <- int0 20 nm_POINT nm_FRAMES ;;
  when (negb (nfr =? z_to_usize fz))
       (_ <- lift (obind (group_named (groups s) nm_POINT) (fun g => param_idx g nm_FRAMES)) ;;
        upd_param nm_POINT nm_FRAMES (fun p => set_usize1 p nfr)) ;;;
  (* points *)
  npts <- (match frames s with
           | f0 :: _ => ret (nlen (fr_pts f0))
           | [] => l <- strs_of nm_POINT nm_LABELS ;; ret (wrap64 (nlen l + nlen newP))
           end) ;;
  u <- int0 21 nm_POINT nm_USED ;;
  when (negb (npts =? z_to_usize u))
       (upd_param nm_POINT nm_USED (fun p => set_usize1 p npts) ;;;
        g <- get_group nm_POINT ;;
        _ <- lift (param_idx g nm_LABELS) ;;
        _ <- lift (param_idx g nm_DESCRIPTIONS) ;;
        _ <- lift (param_idx g nm_UNITS) ;;
        labels <- build_names (N.to_nat npts) 0 (fun i =>
                    match frames s with
                    | [] => l <- strs_of nm_POINT nm_LABELS ;;
                            if i <? nlen l then lift (idx_ 22 l i)
                            else lift (idx_ 23 newP (i - nlen l))
                    | f0 :: _ => pt <- lift (at_ (fr_pts f0) i) ;; ret (pt_name pt)
                    end) ;;
        upd_param nm_POINT nm_LABELS (fun p => set_strs p labels []) ;;;
        upd_param nm_POINT nm_DESCRIPTIONS (fun p => set_strs p (repeat [] (N.to_nat npts)) []) ;;;
        upd_param nm_POINT nm_UNITS (fun p => set_strs p (repeat str_mm (N.to_nat npts)) [])) ;;;
  (* analogs: nothing to follow when the ANALOG group holds no parameter at all (a file may come so), no channel is being
     declared and the data hold no analog sample *)
  s1 <- getS ;;
  _ <- lift (group_idx (groups s1) nm_ANALOG) ;;
  ga0 <- get_group nm_ANALOG ;;
  when (negb (no_analog_anywhere ga0 newA (frames s)))
   (nan <- (match frames s with
          | f0 :: _ => match fr_subs f0 with
                       | sf0 :: _ => ret (nlen sf0)
                       | [] => ret 0
                       end
          | [] => l <- strs_of nm_ANALOG nm_LABELS ;; ret (wrap64 (nlen l + nlen newA))
          end) ;;
  au <- int0 24 nm_ANALOG nm_USED ;;
  when (negb (nan =? z_to_usize au))
       (upd_param nm_ANALOG nm_USED (fun p => set_usize1 p nan) ;;;
        g <- get_group nm_ANALOG ;;
        _ <- lift (param_idx g nm_LABELS) ;;
        _ <- lift (param_idx g nm_DESCRIPTIONS) ;;
        labels <- build_names (N.to_nat nan) 0 (fun i =>
                    match frames s with
                    | [] => l <- strs_of nm_ANALOG nm_LABELS ;;
                            if i <? nlen l then lift (idx_ 25 l i)
                            else lift (idx_ 26 newA (i - nlen l))
                    | f0 :: _ => sf0 <- lift (at_ (fr_subs f0) 0) ;;
                                 c <- lift (at_ sf0 i) ;; ret (ch_name c)
                    end) ;;
        upd_param nm_ANALOG nm_LABELS (fun p => set_strs p labels []) ;;;
        upd_param nm_ANALOG nm_DESCRIPTIONS (fun p => set_strs p (repeat [] (N.to_nat nan)) []) ;;;
        g2 <- get_group nm_ANALOG ;;
        _ <- lift (param_idx g2 nm_SCALE) ;;
        psc <- lift (param_named g2 nm_SCALE) ;;
        sc <- lift (values_as_float psc) ;;
        upd_param nm_ANALOG nm_SCALE (fun p => set_floats p (extend sc nan f32_one) []) ;;;
        g3 <- get_group nm_ANALOG ;;
        pof <- lift (param_named g3 nm_OFFSET) ;;
        ofs <- lift (values_as_int pof) ;;
        upd_param nm_ANALOG nm_OFFSET (fun p => set_ints p (extend ofs nan 0%Z) []) ;;;
        g4 <- get_group nm_ANALOG ;;
        pun <- lift (param_named g4 nm_UNITS) ;;
        un <- lift (values_as_string pun) ;;
        upd_param nm_ANALOG nm_UNITS (fun p => set_strs p (extend un nan str_V) []))) ;;;
  update_header true.

(* ---------- public mutators ---------- *)
(* c3d::parameter(groupName, p) *)
Definition api_parameter (gname : bstr) (p : param) : Mst unit :=
  (if bstr_eqb (p_name p) [] then throw InvalidArgument else ret tt) ;;;
  (match p_type p with TNone => throw RuntimeError | _ => ret tt end) ;;;
  s <- getS ;;
  gi <- catch (lift (group_idx (groups s) gname))
              (fun e => match e with
                        | InvalidArgument =>
                            gs <- lift (groups_add (groups s) (new_group gname [])) ;;
                            putS (set_groups s gs) ;;;
                            lift (group_idx gs gname)
                        | _ => throw e
                        end) ;;
  s <- getS ;;
  g <- lift (group_at (groups s) gi) ;;
  g' <- lift (group_set_param g p) ;;
  putS (set_groups s (replace_nth (N.to_nat gi) g' (groups s))) ;;;
  update_header true.

Definition api_lock (gname : bstr) (b : bool) : Mst unit :=
  s <- getS ;;
  gi <- lift (group_idx (groups s) gname) ;;
  g <- lift (group_at (groups s) gi) ;;
  putS (set_groups s (replace_nth (N.to_nat gi) (g_set_lock g b) (groups s))).

Definition point_idx (pts : list point) (name : bstr) : outcome N :=
  match find_idx (fun p => bstr_eqb (pt_name p) name) pts 0 with
  | Some i => Ok i | None => Throw InvalidArgument end.
Definition channel_idx (sf : subframe) (name : bstr) : outcome N :=
  match find_idx (fun c => bstr_eqb (ch_name c) name) sf 0 with
  | Some i => Ok i | None => Throw InvalidArgument end.

(* c3d::frame(f, idx) *)
Definition api_frame (f : frame) (idx : option N) : Mst unit :=
  u <- int0 30 nm_POINT nm_USED ;;
  let npts := z_to_usize u in
  (if negb (npts =? 0) && negb (nlen (fr_pts f) =? npts) then throw RuntimeError else ret tt) ;;;
  labels <- strs_of nm_POINT nm_LABELS ;;
  (if forallb (fun l => match point_idx (fr_pts f) l with Ok _ => true | _ => false end) labels
   then ret tt else throw InvalidArgument) ;;;
  (if negb (nlen (fr_pts f) =? 0) then
     r <- float0 31 nm_POINT nm_RATE ;; if f_is_zero r then throw RuntimeError else ret tt
   else ret tt) ;;;
  (if negb (nlen (fr_subs f) =? 0) then
     r <- float0 32 nm_ANALOG nm_RATE ;; if f_is_zero r then throw RuntimeError else ret tt
   else ret tt) ;;;
  au <- int0 33 nm_ANALOG nm_USED ;;
  let nan := z_to_usize au in
  s <- getS ;;
  (match fr_subs f with
   | sf0 :: _ =>
       if negb ((nan =? 0) && (h_byframe (hdr s) =? 0)) && negb (nlen sf0 =? nan)
       then throw RuntimeError else ret tt
   | [] => ret tt
   end) ;;;
  fs <- lift (put empty_frame (frames s) f idx) ;;
  putS (set_frames s fs) ;;;
  update_parameters [] [].

Definition add_point_to (fr : frame) (p : point) : frame := mkFrame (fr_pts fr ++ [p]) (fr_subs fr).

(* inner loop of c3d::point(frames) for one new column *)
Fixpoint add_point_col (idx : N) (news : list frame) (olds : list frame) : outcome (list frame) :=
  match olds, news with
  | [], _ => Ok []
  | o :: ot, n :: nt =>
      obind (at_ (fr_pts n) idx) (fun p =>
      obind (add_point_col idx nt ot) (fun rest => Ok (add_point_to o p :: rest)))
  | _ :: _, [] => UB (IdxOOB 40)
  end.

(* The C++ mutates frame after frame; when frames[f] is too short the exception leaves the
   earlier frames already extended.  add_point_col_partial returns that partial state. *)
Fixpoint add_point_col_partial (idx : N) (news : list frame) (olds : list frame) : list frame * option exn :=
  match olds, news with
  | [], _ => ([], None)
  | o :: ot, n :: nt =>
      match at_ (fr_pts n) idx with
      | Ok p => let '(rest, e) := add_point_col_partial idx nt ot in (add_point_to o p :: rest, e)
      | _ => (o :: ot, Some OutOfRange)
      end
  | o :: ot, [] => (o :: ot, Some OutOfRange)
  end.

(* validation pass of c3d::point(frames): for every new column, the name must be new and
   every supplied frame must hold that point *)
Fixpoint all_have_point (idx : N) (nfr : nat) (k : N) (news : list frame) : outcome unit :=
  match nfr with
  | O => Ok tt
  | S n' => obind (idx_ 45 news k) (fun fr =>
            obind (at_ (fr_pts fr) idx) (fun _ => all_have_point idx n' (k + 1) news))
  end.
Fixpoint validate_point_cols (k : nat) (idx : N) (labels : list bstr) (news : list frame) (nfr : nat) : outcome unit :=
  match k with
  | O => Ok tt
  | S k' =>
      obind (idx_ 41 news 0) (fun n0 =>
      obind (at_ (fr_pts n0) idx) (fun p =>
      if existsb (fun l => bstr_eqb (pt_name p) l) labels then Throw InvalidArgument
      else obind (all_have_point idx nfr 0 news) (fun _ =>
           validate_point_cols k' (idx + 1) labels news nfr)))
  end.
Fixpoint point_cols (k : nat) (idx : N) (news : list frame) : Mst unit :=
  match k with
  | O => ret tt
  | S k' =>
      s <- getS ;;
      let '(fs, e) := add_point_col_partial idx news (frames s) in
      putS (set_frames s fs) ;;;
      (match e with Some x => throw x | None => ret tt end) ;;;
      point_cols k' (idx + 1) news
  end.

(* c3d::point(frames) *)
Definition api_point_col (news : list frame) : Mst unit :=
  s <- getS ;;
  (if (nlen news =? 0) || negb (nlen news =? nlen (frames s)) then throw InvalidArgument else ret tt) ;;;
  n0 <- lift (idx_ 42 news 0) ;;
  (if nlen (fr_pts n0) =? 0 then throw InvalidArgument else ret tt) ;;;
  labels <- strs_of nm_POINT nm_LABELS ;;
  lift (validate_point_cols (length (fr_pts n0)) 0 labels news (length (frames s))) ;;;
  point_cols (length (fr_pts n0)) 0 news ;;;
  update_parameters [] [].

(* c3d::point(name) *)
Definition api_point (name : bstr) : Mst unit :=
  s <- getS ;;
  if negb (nlen (frames s) =? 0) then
    let fr := mkFrame [mkPoint (rtrim name) 0 0 0 0] [] in
    api_point_col (repeat fr (length (frames s)))
  else update_parameters [rtrim name] [].

Definition add_chan_to_sub (sf : subframe) (c : channel) : subframe := sf ++ [c].

(* inner loops of c3d::analog(frames) for one new column: for every stored frame f and every
   sub-frame sf < header.nbAnalogByFrame, append frames[f].subframe(sf).channel(idx) *)
Fixpoint add_chan_subs (nsf : nat) (k : N) (idx : N) (nsubs : list subframe) (osubs : list subframe)
  : list subframe * option exn :=
  match nsf with
  | O => (osubs, None)
  | S nsf' =>
      match at_ osubs k, at_ nsubs k with
      | Ok osf, Ok nsf0 =>
          match at_ nsf0 idx with
          | Ok c => add_chan_subs nsf' (k + 1) idx nsubs (replace_nth (N.to_nat k) (add_chan_to_sub osf c) osubs)
          | _ => (osubs, Some OutOfRange)
          end
      | _, _ => (osubs, Some OutOfRange)
      end
  end.
Fixpoint add_chan_col_partial (nsf : nat) (idx : N) (news : list frame) (olds : list frame) : list frame * option exn :=
  match olds, news with
  | [], _ => ([], None)
  | o :: ot, n :: nt =>
      match add_chan_subs nsf 0 idx (fr_subs n) (fr_subs o) with
      | (subs, None) => let '(rest, e) := add_chan_col_partial nsf idx nt ot in (mkFrame (fr_pts o) subs :: rest, e)
      | (subs, Some x) => (mkFrame (fr_pts o) subs :: ot, Some x)
      end
  | o :: ot, [] => (o :: ot, Some OutOfRange)
  end.

(* validation pass of c3d::analog(frames) *)
Fixpoint all_subs_have (idx : N) (nsf : nat) (k : N) (osubs nsubs : list subframe) : outcome unit :=
  match nsf with
  | O => Ok tt
  | S n' => obind (at_ osubs k) (fun _ =>
            obind (at_ nsubs k) (fun sf =>
            obind (at_ sf idx) (fun _ => all_subs_have idx n' (k + 1) osubs nsubs)))
  end.
Fixpoint all_have_chan (idx : N) (nsf : nat) (olds news : list frame) (k : N) : outcome unit :=
  match olds with
  | [] => Ok tt
  | o :: ot => obind (idx_ 46 news k) (fun n =>
               obind (all_subs_have idx nsf 0 (fr_subs o) (fr_subs n)) (fun _ =>
               all_have_chan idx nsf ot news (k + 1)))
  end.
Fixpoint validate_chan_cols (k : nat) (idx : N) (labels : list bstr) (news olds : list frame) (nsf : nat) : outcome unit :=
  match k with
  | O => Ok tt
  | S k' =>
      obind (idx_ 43 news 0) (fun n0 =>
      obind (at_ (fr_subs n0) 0) (fun sf0 =>
      obind (at_ sf0 idx) (fun c =>
      if existsb (fun l => bstr_eqb (ch_name c) l) labels then Throw InvalidArgument
      else obind (all_have_chan idx nsf olds news 0) (fun _ =>
           validate_chan_cols k' (idx + 1) labels news olds nsf))))
  end.
Fixpoint chan_cols (k : nat) (idx : N) (news : list frame) : Mst unit :=
  match k with
  | O => ret tt
  | S k' =>
      s <- getS ;;
      let '(fs, e) := add_chan_col_partial (N.to_nat (h_byframe (hdr s))) idx news (frames s) in
      putS (set_frames s fs) ;;;
      (match e with Some x => throw x | None => ret tt end) ;;;
      chan_cols k' (idx + 1) news
  end.

(* c3d::analog(frames) *)
Definition api_analog_col (news : list frame) : Mst unit :=
  s <- getS ;;
  (if (nlen news =? 0) || negb (nlen news =? nlen (frames s)) then throw InvalidArgument else ret tt) ;;;
  n0 <- lift (idx_ 44 news 0) ;;
  (if negb (nlen (fr_subs n0) =? h_byframe (hdr s)) then throw InvalidArgument else ret tt) ;;;
  sf0 <- lift (at_ (fr_subs n0) 0) ;;
  (if nlen sf0 =? 0 then throw InvalidArgument else ret tt) ;;;
  labels <- strs_of nm_ANALOG nm_LABELS ;;
  lift (validate_chan_cols (length sf0) 0 labels news (frames s) (N.to_nat (h_byframe (hdr s)))) ;;;
  chan_cols (length sf0) 0 news ;;;
  update_parameters [] [].

(* c3d::analog(name) *)
Definition api_analog (name : bstr) : Mst unit :=
  s <- getS ;;
  if negb (nlen (frames s) =? 0) then
    let sf := [mkChan (rtrim name) 0] in
    let fr := mkFrame [] (repeat sf (N.to_nat (h_byframe (hdr s)))) in
    api_analog_col (repeat fr (length (frames s)))
  else update_parameters [] [rtrim name].

Inductive op :=
| OParam (g : bstr) (p : param)
| OLock (g : bstr) | OUnlock (g : bstr)
| OFrame (f : frame) (idx : option N)
| OPoint (name : bstr) | OPointCol (fs : list frame)
| OAnalog (name : bstr) | OAnalogCol (fs : list frame).

Definition step (s : state) (o : op) : res state unit :=
  match o with
  | OParam g p => api_parameter g p s
  | OLock g => api_lock g true s
  | OUnlock g => api_lock g false s
  | OFrame f idx => api_frame f idx s
  | OPoint n => api_point n s
  | OPointCol fs => api_point_col fs s
  | OAnalog n => api_analog n s
  | OAnalogCol fs => api_analog_col fs s
  end.

End WithFloatOps.

(* caller-side literals: names go through the trimming setter (Point::name, Channel::name) *)
Definition lit_point (n : bstr) (x y z r : f32) : point := mkPoint (rtrim n) x y z r.
Definition lit_chan (n : bstr) (v : f32) : channel := mkChan (rtrim n) v.
