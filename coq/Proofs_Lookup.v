(* Proofs_Lookup.v — positional and by-name look-ups (C11). *)
From Coq Require Import Lia.
From EZ Require Import Base Types Api.
Local Open Scope N_scope.

Lemma nlen_lt_nth : forall A (l : list A) i, i < nlen l -> exists x, nth_error l (N.to_nat i) = Some x.
Proof.
  intros A l i H. unfold nlen in H.
  destruct (nth_error l (N.to_nat i)) eqn:E; [eauto|].
  apply nth_error_None in E. lia.
Qed.

(* checked access: the element at that position, or out_of_range at or beyond the size *)
Lemma at_ok : forall A (l : list A) i x, at_ l i = Ok x <-> (i < nlen l /\ nth_error l (N.to_nat i) = Some x).
Proof.
  intros A l i x. unfold at_. split.
  - destruct (i <? nlen l) eqn:L; [|discriminate].
    destruct (nth_error l (N.to_nat i)) eqn:E; [|discriminate]. intros H; inversion H; subst.
    apply N.ltb_lt in L. auto.
  - intros [L E]. rewrite E. apply N.ltb_lt in L. rewrite L. reflexivity.
Qed.

Lemma at_oob : forall A (l : list A) i, nlen l <= i -> at_ l i = Throw OutOfRange.
Proof.
  intros A l i H. unfold at_.
  destruct (i <? nlen l) eqn:L; [apply N.ltb_lt in L; lia|reflexivity].
Qed.

Lemma at_in : forall A (l : list A) i, i < nlen l -> exists x, at_ l i = Ok x.
Proof.
  intros A l i H. destruct (nlen_lt_nth A l i H) as [x E]. exists x. apply at_ok. auto.
Qed.

(* never an undefined behaviour, never another exception *)
Lemma at_total : forall A (l : list A) i, (exists x, at_ l i = Ok x) \/ at_ l i = Throw OutOfRange.
Proof.
  intros A l i. destruct (N.lt_ge_cases i (nlen l)) as [H|H]; [left; apply at_in; exact H|right; apply at_oob; exact H].
Qed.

(* ---- names ---- *)
Lemma bstr_eqb_eq : forall a b, bstr_eqb a b = true <-> a = b.
Proof.
  induction a as [|x a IH]; destruct b as [|y b]; simpl; split; intros H; try discriminate; auto.
  - apply andb_prop in H. destruct H as [H1 H2]. apply N.eqb_eq in H1. apply IH in H2. subst. reflexivity.
  - inversion H; subst. rewrite N.eqb_refl. simpl. apply IH. reflexivity.
Qed.

(* find_idx returns the FIRST position satisfying p *)
Lemma find_idx_some : forall A (p : A -> bool) l k i, find_idx p l k = Some i ->
  k <= i /\ exists x, nth_error l (N.to_nat (i - k)) = Some x /\ p x = true /\
  forall j y, (j < N.to_nat (i - k))%nat -> nth_error l j = Some y -> p y = false.
Proof.
  intros A p l. induction l as [|a l IH]; intros k i H; simpl in H; [discriminate|].
  destruct (p a) eqn:Pa.
  - inversion H; subst. split; [lia|]. exists a. rewrite N.sub_diag. simpl. repeat split; auto.
    intros j y Hj. inversion Hj.
  - apply IH in H. destruct H as [Hk [x [Hn [Px Hall]]]]. split; [lia|].
    exists x. assert (E : N.to_nat (i - k) = S (N.to_nat (i - (k + 1)))) by lia.
    rewrite E. simpl. repeat split; auto.
    intros j y Hj Hy. destruct j as [|j]; simpl in Hy.
    + inversion Hy; subst; exact Pa.
    + apply (Hall j y); [lia|exact Hy].
Qed.

Lemma find_idx_none : forall A (p : A -> bool) l k, find_idx p l k = None -> forall x, In x l -> p x = false.
Proof.
  intros A p l. induction l as [|a l IH]; intros k H x Hx; simpl in *; [contradiction|].
  destruct (p a) eqn:Pa; [discriminate|]. destruct Hx as [Hx|Hx]; [subst; exact Pa|eapply IH; eauto].
Qed.

Lemma find_idx_bound : forall A (p : A -> bool) l k i, find_idx p l k = Some i -> i < k + nlen l.
Proof.
  intros A p l. induction l as [|a l IH]; intros k i H; simpl in H; [discriminate|].
  unfold nlen in *. simpl length. destruct (p a); [inversion H; subst; lia|].
  apply IH in H. lia.
Qed.

Section ByName.
Variable A : Type.
Variable name_of : A -> bstr.
Definition by_name (l : list A) (n : bstr) : outcome N :=
  match find_idx (fun x => bstr_eqb (name_of x) n) l 0 with Some i => Ok i | None => Throw InvalidArgument end.

(* the first element with exactly that name; the positional look-up of the result returns it *)
Lemma by_name_ok : forall l n i, by_name l n = Ok i ->
  exists x, at_ l i = Ok x /\ name_of x = n /\
            forall j y, j < i -> at_ l j = Ok y -> name_of y <> n.
Proof.
  intros l n i H. unfold by_name in H.
  destruct (find_idx _ l 0) as [k|] eqn:F; [|discriminate]. inversion H; subst k.
  pose proof (find_idx_bound _ _ _ _ _ F) as B.
  apply find_idx_some in F. destruct F as [_ [x [Hn [Px Hall]]]].
  rewrite N.sub_0_r in *. exists x. split; [apply at_ok; split; [lia|exact Hn]|].
  split; [apply bstr_eqb_eq; exact Px|].
  intros j y Hj Hy. apply at_ok in Hy. destruct Hy as [_ Hy].
  intros E. assert (F : bstr_eqb (name_of y) n = false) by (apply (Hall (N.to_nat j) y); [lia|exact Hy]).
  apply bstr_eqb_eq in E. congruence.
Qed.

(* invalid_argument exactly when no element has that name *)
Lemma by_name_throw : forall l n, by_name l n = Throw InvalidArgument <-> (forall x, In x l -> name_of x <> n).
Proof.
  intros l n. unfold by_name. split.
  - destruct (find_idx _ l 0) eqn:F; [discriminate|]. intros _ x Hx E.
    pose proof (find_idx_none _ _ _ _ F x Hx) as Q. simpl in Q.
    apply bstr_eqb_eq in E. congruence.
  - intros H. destruct (find_idx _ l 0) as [i|] eqn:F; [|reflexivity].
    apply find_idx_some in F. destruct F as [_ [x [Hn [Px _]]]].
    exfalso. apply (H x); [eapply nth_error_In; exact Hn|apply bstr_eqb_eq; exact Px].
Qed.

Lemma by_name_total : forall l n, (exists i, by_name l n = Ok i) \/ by_name l n = Throw InvalidArgument.
Proof. intros l n. unfold by_name. destruct (find_idx _ l 0); eauto. Qed.
End ByName.

(* the five containers searched by name are instances of by_name *)
Lemma point_idx_is : forall pts n, point_idx pts n = by_name point pt_name pts n.
Proof. reflexivity. Qed.
Lemma channel_idx_is : forall sf n, channel_idx sf n = by_name channel ch_name sf n.
Proof. reflexivity. Qed.
Lemma group_idx_is : forall gs n, group_idx gs n = by_name group g_name gs n.
Proof. reflexivity. Qed.
Lemma param_idx_is : forall g n, param_idx g n = by_name param p_name (g_params g) n.
Proof. reflexivity. Qed.

(* ---- typed getters ---- *)
Lemma values_as_int_spec : forall p, (p_type p = TInt -> values_as_int p = Ok (p_ints p)) /\
                                     (p_type p <> TInt -> values_as_int p = Throw InvalidArgument).
Proof. intros p. unfold values_as_int. destruct (p_type p); split; intros H; try reflexivity; try congruence. Qed.
Lemma values_as_byte_spec : forall p, (p_type p = TByte -> values_as_byte p = Ok (p_ints p)) /\
                                      (p_type p <> TByte -> values_as_byte p = Throw InvalidArgument).
Proof. intros p. unfold values_as_byte. destruct (p_type p); split; intros H; try reflexivity; try congruence. Qed.
Lemma values_as_float_spec : forall p, (p_type p = TFloat -> values_as_float p = Ok (p_floats p)) /\
                                       (p_type p <> TFloat -> values_as_float p = Throw InvalidArgument).
Proof. intros p. unfold values_as_float. destruct (p_type p); split; intros H; try reflexivity; try congruence. Qed.
Lemma values_as_string_spec : forall p, (p_type p = TChar -> values_as_string p = Ok (p_strs p)) /\
                                        (p_type p <> TChar -> values_as_string p = Throw InvalidArgument).
Proof. intros p. unfold values_as_string. destruct (p_type p); split; intros H; try reflexivity; try congruence. Qed.

(* ---- trailing spaces ---- *)
Lemma rtrim_decomp : forall s, exists k, s = rtrim s ++ repeat 32 k.
Proof.
  induction s as [|c s [k IH]]; simpl; [exists O; reflexivity|].
  destruct (rtrim s) as [|t ts] eqn:R.
  - destruct (c =? 32) eqn:C.
    + apply N.eqb_eq in C. subst c. exists (S k). simpl in *. rewrite IH at 1. reflexivity.
    + exists k. simpl in *. rewrite IH at 1. reflexivity.
  - exists k. simpl in *. rewrite IH at 1. reflexivity.
Qed.

Lemma rtrim_last : forall s, last (rtrim s) 0 <> 32.
Proof.
  induction s as [|c s IH]; simpl; [discriminate|].
  destruct (rtrim s) as [|t ts] eqn:R.
  - destruct (c =? 32) eqn:C; simpl; [discriminate|]. apply N.eqb_neq in C. exact C.
  - simpl in *. exact IH.
Qed.

Lemma rtrim_fix : forall s, last s 0 <> 32 -> rtrim s = s.
Proof.
  induction s as [|c s IH]; intros H; simpl; [reflexivity|].
  destruct s as [|d s'].
  - simpl in *. destruct (c =? 32) eqn:C; [apply N.eqb_eq in C; congruence|reflexivity].
  - rewrite IH; [reflexivity|exact H].
Qed.

Lemma rtrim_idem : forall s, rtrim (rtrim s) = rtrim s.
Proof. intros s. apply rtrim_fix, rtrim_last. Qed.

Lemma rtrim_spaces : forall s k, rtrim (s ++ repeat 32 k) = rtrim s.
Proof.
  intros s k. induction s as [|c s IH]; simpl.
  - induction k as [|k IHk]; simpl; [reflexivity|]. rewrite IHk. reflexivity.
  - rewrite IH. reflexivity.
Qed.

(* a point or channel named with trailing spaces is stored and found under the trimmed name *)
Lemma lit_point_found : forall n k x y z r,
  point_idx [lit_point (n ++ repeat 32 k) x y z r] (rtrim n) = Ok 0 /\
  pt_name (lit_point (n ++ repeat 32 k) x y z r) = rtrim n.
Proof.
  intros. unfold point_idx, lit_point. simpl. rewrite rtrim_spaces.
  assert (E : bstr_eqb (rtrim n) (rtrim n) = true) by (apply bstr_eqb_eq; reflexivity).
  rewrite E. split; reflexivity.
Qed.
Lemma lit_chan_found : forall n k v,
  channel_idx [lit_chan (n ++ repeat 32 k) v] (rtrim n) = Ok 0 /\
  ch_name (lit_chan (n ++ repeat 32 k) v) = rtrim n.
Proof.
  intros. unfold channel_idx, lit_chan. simpl. rewrite rtrim_spaces.
  assert (E : bstr_eqb (rtrim n) (rtrim n) = true) by (apply bstr_eqb_eq; reflexivity).
  rewrite E. split; reflexivity.
Qed.
