(* Properties_C16.v — C16: damaged files are refused or loaded, never crash or hang.
   load is a total function on byte lists.  Proved for EVERY byte sequence: its result is an object, a
   standard exception, or a benign verdict — never an index out of range, never an empty dimension
   vector, never a signed overflow site.  The benign verdicts are (i) Blowup: the file declares more
   data than it holds (known finding: work proportional to the declared size), (ii) CastRange: an
   out-of-range float conversion in the header updater (C19's subject), (iii) Fuel.
   PROVED as well: Fuel is never returned (C16_fuel_never_exhausted) — the zero-skipping loop and the record walker
   consume at least one byte of a good stream per iteration and nothing inside them seeks, so the fuel (file length + 1)
   cannot run out: the model's loader terminates on its own for every byte sequence.  NOT proved: a step bound in terms of
   the FILE size (the known finding: work follows the declared sizes); the check measures wall time and outcome on every
   damaged file (partial). *)
From EZ Require Import Base Bytes Types Api Dec Float32 Run Proofs_Robust Proofs_Fuel Proofs_Zeros.
Local Open Scope N_scope.

Theorem C16_stream_never_short : forall st n, length (fst (read st n)) = n.
Proof. exact read_length. Qed.
Print Assumptions C16_stream_never_short.

Theorem C16_failed_stream_is_sticky : forall st n, st_fail st = true -> read st n = (repeat 0 n, st) /\ forall off, seek st off = st.
Proof. exact (fun st n H => conj (read_failed_sticky st n H) (fun off => seek_failed_ignored st off H)). Qed.
Print Assumptions C16_failed_stream_is_sticky.

Theorem C16_partial_no_memory_error : forall f_key f_tosize f_div,
  (forall r t, f_key r = UB t -> benign t) -> (forall r t, f_tosize r = UB t -> benign t) ->
  forall file t, load f_key f_tosize f_div file = UB t -> benign t.
Proof. exact load_no_memory_error. Qed.
Print Assumptions C16_partial_no_memory_error.

Theorem C16_partial_outcomes : forall f_key f_tosize f_div,
  (forall r t, f_key r = UB t -> benign t) -> (forall r t, f_tosize r = UB t -> benign t) ->
  forall file,
  (exists s, load f_key f_tosize f_div file = Ok s) \/
  (exists e, load f_key f_tosize f_div file = Throw e) \/
  (exists t, load f_key f_tosize f_div file = UB t /\ benign t).
Proof. exact load_outcomes. Qed.
Print Assumptions C16_partial_outcomes.

(* the executable instance satisfies the two hypotheses: its float conversions only ever answer CastRange *)
Lemma f_key_impl_benign : forall r t, f_key_impl r = UB t -> benign t.
Proof.
  intros r t H. unfold f_key_impl in H.
  repeat match type of H with context [if ?b then _ else _] => destruct b end; inversion H; exact I.
Qed.
Lemma f_tosize_impl_benign : forall r t, f_tosize_impl r = UB t -> benign t.
Proof.
  intros r t H. unfold f_tosize_impl in H.
  repeat match type of H with context [if ?b then _ else _] => destruct b end; inversion H; exact I.
Qed.
Print Assumptions f_key_impl_benign.
Print Assumptions f_tosize_impl_benign.
Theorem C16_partial_instance : forall file t, load_x file = UB t -> benign t.
Proof. exact (load_no_memory_error f_key_impl f_tosize_impl f_div_impl f_key_impl_benign f_tosize_impl_benign). Qed.
Print Assumptions C16_partial_instance.

(* the two fuelled loops never run out of fuel *)
Theorem C16_fuel_never_exhausted : forall f_key f_tosize f_div,
  (forall r, f_key r <> UB Fuel) -> (forall r, f_tosize r <> UB Fuel) ->
  forall file, load f_key f_tosize f_div file <> UB Fuel.
Proof. exact load_never_out_of_fuel. Qed.
Print Assumptions C16_fuel_never_exhausted.

Theorem C16_walker_terminates : forall fuel nxt gs st, (remaining st < fuel)%nat -> walk fuel nxt gs st <> UB Fuel.
Proof. exact walk_fuel. Qed.
Print Assumptions C16_walker_terminates.

Lemma f_key_impl_nofuel : forall r, f_key_impl r <> UB Fuel.
Proof. intros r. unfold f_key_impl. repeat match goal with |- context [if ?b then _ else _] => destruct b end; discriminate. Qed.
Lemma f_tosize_impl_nofuel : forall r, f_tosize_impl r <> UB Fuel.
Proof. intros r. unfold f_tosize_impl. repeat match goal with |- context [if ?b then _ else _] => destruct b end; discriminate. Qed.
Print Assumptions f_key_impl_nofuel.
Print Assumptions f_tosize_impl_nofuel.
Theorem C16_instance_never_out_of_fuel : forall file, load_x file <> UB Fuel.
Proof. exact (load_never_out_of_fuel f_key_impl f_tosize_impl f_div_impl f_key_impl_nofuel f_tosize_impl_nofuel). Qed.
Print Assumptions C16_instance_never_out_of_fuel.

(* non-vacuity, and the three kinds of outcome on concrete damaged inputs *)
Example C16_nonvacuous :
  load_x [] = Throw IosFailure /\ load_x [2; 81] = Throw IosFailure /\ load_x (repeat 0 700) = Throw IosFailure.
Proof. repeat split; vm_compute; reflexivity. Qed.
Print Assumptions C16_nonvacuous.

(* a file that holds nothing but zero bytes — of ANY length, the empty file included — is refused with ios_base::failure: the
   scan for the first non-zero byte ends with the file (a hoisted end-of-file test made it endless: seed C16-r12b) *)
Theorem C16_all_zero_files_are_refused : forall f_key f_tosize f_div n,
  load f_key f_tosize f_div (repeat 0%N n) = Throw IosFailure.
Proof. exact load_all_zero. Qed.
Print Assumptions C16_all_zero_files_are_refused.
