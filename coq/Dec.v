(* Dec.v — c3d::c3d(path): Header::read, Parameters::Parameters(file), Group::read,
   Parameter::read, the matrix readers, updateHeader, Data::Data(file), on a stream with the
   behaviour of std::fstream after a short read (sticky fail bit, ignored seeks, tellg = -1,
   zero-filled buffers). *)
From EZ Require Import Base Bytes Types Api.
Local Open Scope N_scope.

(* st_rest is the suffix of the file at the current position (invariant: skipn st_pos st_file):
   sequential reads never re-scan the file *)
Record stream := mkStream { st_file : list N; st_pos : N; st_rest : list N; st_fail : bool }.
Definition open_stream (file : list N) : stream := mkStream file 0 file false.

(* seekg(off, beg): ignored on a failed stream; a negative offset fails *)
Definition seek (st : stream) (off : Z) : stream :=
  if st_fail st then st
  else if (off <? 0)%Z then mkStream (st_file st) (st_pos st) (st_rest st) true
  else mkStream (st_file st) (Z.to_N off) (skipn (Z.to_nat off) (st_file st)) false.

(* read(c, n) after the buffer was cleared: the available bytes, then zeros; short read = eof + fail *)
Definition read (st : stream) (n : nat) : list N * stream :=
  if st_fail st then (repeat 0 n, st)
  else
    let avail := firstn n (st_rest st) in
    if (length avail <? n)%nat
    then (avail ++ repeat 0 (n - length avail), mkStream (st_file st) (st_pos st + N.of_nat (length avail)) [] true)
    else (avail, mkStream (st_file st) (st_pos st + N.of_nat n) (skipn n (st_rest st)) false).

(* tellg(): -1 on a failed stream *)
Definition tell (st : stream) : Z := if st_fail st then (-1)%Z else Z.of_N (st_pos st).

Definition RD (A : Type) := stream -> outcome (A * stream).
Definition rret {A} (a : A) : RD A := fun st => Ok (a, st).
Definition rbind {A B} (m : RD A) (k : A -> RD B) : RD B :=
  fun st => match m st with Ok (a, st') => k a st' | Throw e => Throw e | UB t => UB t end.
Definition rthrow {A} (e : exn) : RD A := fun _ => Throw e.
Definition rub {A} (t : ub_tag) : RD A := fun _ => UB t.
Definition rlift {A} (o : outcome A) : RD A := fun st => match o with Ok a => Ok (a, st) | Throw e => Throw e | UB t => UB t end.

Declare Scope r_scope.
Delimit Scope r_scope with R.
Notation "x <- m ;; k" := (rbind m (fun x => k)) (at level 61, m at next level, right associativity) : r_scope.
Notation "m ;;; k" := (rbind m (fun _ => k)) (at level 61, right associativity) : r_scope.
Local Open Scope r_scope.

Definition rd_bytes (n : nat) : RD (list N) := fun st => Ok (read st n).
Definition rd_int (n : nat) : RD Z := bs <- rd_bytes n ;; rret (hex2int bs).
Definition rd_uint (n : nat) : RD N := bs <- rd_bytes n ;; rret (read_uint bs).
Definition f32_of_bytes (bs : list N) : N :=
  match bs with [a; b; c; d] => a + 256 * (b + 256 * (c + 256 * d)) | _ => 0 end.
Definition rd_float : RD f32 := bs <- rd_bytes 4 ;; rret (f32_of_bytes bs).
Definition rd_string (n : nat) : RD bstr := bs <- rd_bytes n ;; rret (cstr bs).
Definition rd_tell : RD Z := fun st => Ok (tell st, st).
Definition rd_seek (off : Z) : RD unit := fun st => Ok (tt, seek st off).
Definition rd_failed : RD bool := fun st => Ok (st_fail st, st).
Definition rd_len : RD N := fun st => Ok (nlen (st_file st), st).

Fixpoint rd_many {A} (n : nat) (m : RD A) : RD (list A) :=
  match n with
  | O => rret []
  | S n' => x <- m ;; t <- rd_many n' m ;; rret (x :: t)
  end.

(* ---------- Header::read ---------- *)
Fixpoint skip_zeros (fuel : nat) (zeros : N) : RD (N * N) :=
  match fuel with
  | O => rub Fuel
  | S fuel' =>
      b <- rd_uint 1 ;;
      f <- rd_failed ;;
      if f then rthrow IosFailure
      else if b =? 0 then skip_zeros fuel' (zeros + 1) else rret (b, zeros + 1)
  end.

Definition read_header : RD header :=
  rd_seek 0 ;;;
  a0 <- rd_uint 1 ;;
  len <- rd_len ;;
  az <- (if a0 =? 0 then skip_zeros (Datatypes.S (N.to_nat len)) 0 else rret (a0, 0)) ;;
  let '(paddr, zeros) := az in
  chk <- rd_uint 1 ;;
  if negb (chk =? 80) then rthrow IosFailure else
  npts <- rd_uint 2 ;; nmeas <- rd_uint 2 ;;
  first <- rd_uint 2 ;; last <- rd_uint 2 ;;
  gap <- rd_uint 2 ;; scale <- rd_int 4 ;;
  dstart <- rd_uint 2 ;; byframe <- rd_uint 2 ;;
  rate <- rd_float ;; e1 <- rd_int 270 ;;
  keylab <- rd_uint 2 ;; keyblk <- rd_uint 2 ;; four <- rd_uint 2 ;;
  nev <- rd_uint 2 ;; e2 <- rd_int 2 ;;
  evt <- rd_many 18 rd_float ;;
  evd <- rd_many 9 (rd_uint 2) ;;
  e3 <- rd_int 2 ;;
  evl <- rd_many 18 (rd_string 4) ;;
  e4 <- rd_int 44 ;;
  rret (mkHeader zeros paddr chk npts nmeas (sub64 first 1) (sub64 last 1) gap scale dstart byframe rate
                 e1 e2 e3 e4 keylab keyblk four nev evt evd evl).

(* ---------- parameter values ---------- *)
(* work of the nested reading loops: the sum of the prefix products of the dimensions *)
Fixpoint loop_cost (dims : list N) (acc : N) : N :=
  match dims with [] => 0 | d :: t => acc * d + loop_cost t (acc * d) end.

Definition blowup_guard (site : nat) (cost : N) : RD unit :=
  len <- rd_len ;; if 64 * len + 1048576 <? cost then rub (Blowup site) else rret tt.

Fixpoint chunks (w : nat) (n : nat) (l : list bstr) : list bstr :=
  match n with
  | O => []
  | S n' => rtrim (concat (firstn w l)) :: chunks w n' (skipn w l)
  end.

(* c3d::readParam for strings: one byte at a time (a NUL byte yields the empty string), then
   re-assembled dims[0] at a time and right-trimmed.  Two nested-loop passes: _readMatrix over ALL the dimensions (no
   iteration at all when the first one is 0) and _dispatchMatrix over the dimensions AFTER the first, which therefore runs
   prod(rest) times even when the first dimension is 0 and not a byte is read *)
Definition read_strings (dims : list N) : RD (list bstr) :=
  match dims with
  | [] => rub (EmptyVec 60)
  | w :: rest =>
      blowup_guard 61 (loop_cost dims 1) ;;;
      blowup_guard 67 (loop_cost rest 1) ;;;
      cells <- rd_many (N.to_nat (prodN dims)) (rd_string 1) ;;
      match rest with
      | [] => if w =? 0 then rret [] else rret [rtrim (concat cells)]
      | _ => rret (chunks (N.to_nat w) (N.to_nat (prodN rest)) cells)
      end
  end.

Definition read_ints (nbytes : nat) (dims : list N) : RD (list Z) :=
  match dims with
  | [] => rub (EmptyVec 62)
  | _ => blowup_guard 63 (loop_cost dims 1) ;;; rd_many (N.to_nat (prodN dims)) (rd_int nbytes)
  end.
Definition read_floats (dims : list N) : RD (list f32) :=
  match dims with
  | [] => rub (EmptyVec 64)
  | _ => blowup_guard 65 (loop_cost dims 1) ;;; rd_many (N.to_nat (prodN dims)) rd_float
  end.

Definition read_values (ty : ptype) (dims : list N) : RD (list Z * list f32 * list bstr) :=
  match ty with
  | TChar => s <- read_strings dims ;; rret ([], [], s)
  | TByte => v <- read_ints 1 dims ;; rret (v, [], [])
  | TInt => v <- read_ints 2 dims ;; rret (v, [], [])
  | _ => v <- read_floats dims ;; rret ([], v, [])
  end.

(* next record position: 0 ends the chain *)
Definition next_pos (off : N) : RD Z :=
  if off =? 0 then rret 0%Z else t <- rd_tell ;; rret (wrap32s (t + Z.of_N off - 2)).

(* Parameter::read *)
Definition read_param (nchars : Z) : RD (param * Z) :=
  name <- rd_string (Z.to_nat (Z.abs nchars)) ;;
  off <- rd_uint 2 ;;
  nxt <- next_pos off ;;
  tb <- rd_int 1 ;;
  ty <- (if (tb =? -1)%Z then rret TChar else if (tb =? 1)%Z then rret TByte
         else if (tb =? 2)%Z then rret TInt else if (tb =? 4)%Z then rret TFloat else rthrow IosFailure) ;;
  nd <- rd_uint 1 ;;
  dims <- (if nd =? 0 then rret [1] else rd_many (N.to_nat nd) (rd_uint 1)) ;;
  vals <- read_values ty dims ;;
  let '(vi, vf, vs) := vals in
  dl <- rd_uint 1 ;;
  desc <- (if dl =? 0 then rret [] else rd_string (N.to_nat dl)) ;;
  rret (mkParam name desc (nchars <? 0)%Z ty dims vi vf vs, nxt).

(* Group::read: name and lock are overwritten, the description only when the record has one *)
Definition read_group (old : group) (nchars : Z) : RD (group * Z) :=
  name <- rd_string (Z.to_nat (Z.abs nchars)) ;;
  off <- rd_uint 2 ;;
  nxt <- next_pos off ;;
  dl <- rd_uint 1 ;;
  desc <- (if dl =? 0 then rret (g_desc old) else rd_string (N.to_nat dl)) ;;
  rret (mkGroup name desc (nchars <? 0)%Z (g_params old), nxt).

Definition grow_groups (gs : list group) (n : N) : list group :=
  gs ++ repeat (new_group [] []) (N.to_nat (n - nlen gs)).

(* the record walker of Parameters::Parameters(file) *)
Fixpoint walk (fuel : nat) (nxt : Z) (gs : list group) : RD (list group) :=
  match fuel with
  | O => rub Fuel
  | S fuel' =>
      if (nxt =? 0)%Z then rret gs else
      t <- rd_tell ;;
      if negb (t =? nxt)%Z then rthrow IosFailure else
      nchars <- rd_int 1 ;;
      if (nchars =? 0)%Z then rret gs else
      id <- rd_int 1 ;;
      let gs1 := grow_groups gs (Z.to_N (Z.abs id)) in
      if (id <? 0)%Z then
        match nth_error gs1 (Z.to_nat (Z.abs id - 1)) with
        | None => rthrow OutOfRange
        | Some g0 =>
            r <- read_group g0 nchars ;;
            let '(g1, nx) := r in
            walk fuel' nx (replace_nth (Z.to_nat (Z.abs id - 1)) g1 gs1)
        end
      else
        if (id =? 0)%Z then rthrow OutOfRange else
        match nth_error gs1 (Z.to_nat (id - 1)) with
        | None => rthrow OutOfRange
        | Some g0 =>
            r <- read_param nchars ;;
            let '(p, nx) := r in
            g1 <- rlift (group_set_param g0 p) ;;
            walk fuel' nx (replace_nth (Z.to_nat (id - 1)) g1 gs1)
        end
  end.

Definition read_parameters (h : header) : RD (prologue * list group) :=
  rd_seek (wrap32s (Z.of_N (wrap64 (512 * sub64 (h_paddr h) 1 + h_zeros h)))) ;;;
  start0 <- rd_uint 1 ;; chk0 <- rd_uint 1 ;; blocks <- rd_uint 1 ;; proc <- rd_uint 1 ;;
  let '(start, chk) := if (chk0 =? 0) && (start0 =? 0) then (1, 80) else (start0, chk0) in
  if negb (chk =? 80) then rthrow IosFailure else
  t <- rd_tell ;;
  len <- rd_len ;;
  gs <- walk (Datatypes.S (N.to_nat len)) (wrap32s (t + Z.of_N start - 1)) [] ;;
  rret (mkPro start chk blocks proc, gs).

(* ---------- Data::Data(file) ---------- *)
Fixpoint dec_digits (fuel : nat) (n : N) (acc : list N) : list N :=
  match fuel with
  | O => acc
  | S f => let acc' := (48 + n mod 10) :: acc in if n / 10 =? 0 then acc' else dec_digits f (n / 10) acc'
  end.
Definition decimal (n : N) : list N := dec_digits 25 n [].
Definition str_unlabeled_point : bstr := [117;110;108;97;98;101;108;101;100;95;112;111;105;110;116;95].
Definition str_unlabeled_analog : bstr := [117;110;108;97;98;101;108;101;100;95;97;110;97;108;111;103;95].

Definition name_at (names : list bstr) (dflt : bstr) (i : N) : bstr :=
  match nth_error names (N.to_nat i) with
  | Some n => rtrim n
  | None => rtrim (dflt ++ decimal i)
  end.

Fixpoint read_points (n : nat) (i : N) (names : list bstr) : RD (list point) :=
  match n with
  | O => rret []
  | S n' =>
      x <- rd_float ;; y <- rd_float ;; z <- rd_float ;; r <- rd_float ;;
      t <- read_points n' (i + 1) names ;;
      rret (mkPoint (name_at names str_unlabeled_point i) x y z r :: t)
  end.
Fixpoint read_channels (n : nat) (i : N) (names : list bstr) : RD (list channel) :=
  match n with
  | O => rret []
  | S n' => v <- rd_float ;; t <- read_channels n' (i + 1) names ;;
            rret (mkChan (name_at names str_unlabeled_analog i) v :: t)
  end.

Definition max_frames_vec : N := 288230376151711743.   (* vector<Frame>::max_size() = 2^58 - 1 *)

Definition read_data (h : header) (pr : prologue) (gs : list group) : RD (list frame) :=
  rd_seek (wrap32s (Z.of_N (wrap64 (512 * sub64 (h_paddr h) 1 + h_zeros h + 512 * ps_blocks pr)) - 1)) ;;;
  _ <- rd_int 1 ;;
  let nfr := h_nb_frames h in
  if max_frames_vec <? nfr then rthrow LengthError else
  blowup_guard 66 (nfr * (1 + 4 * h_points h + h_byframe h * (1 + h_nb_analogs h))) ;;;
  pnames <- (if 0 <? h_points h
             then rlift (obind (group_named gs nm_POINT) (fun g => obind (param_named g nm_LABELS) values_as_string))
             else rret []) ;;
  anames <- (if 0 <? h_nb_analogs h
             then rlift (obind (group_named gs nm_ANALOG) (fun g => obind (param_named g nm_LABELS) values_as_string))
             else rret []) ;;
  if nfr =? 0 then rret [] else
  if (0 <=? h_scale h)%Z then rthrow InvalidArgument else
  rd_many (N.to_nat nfr)
    (pts <- read_points (N.to_nat (h_points h)) 0 pnames ;;
     subs <- rd_many (N.to_nat (h_byframe h)) (read_channels (N.to_nat (h_nb_analogs h)) 0 anames) ;;
     rret (mkFrame pts subs)).

Section WithFloatOps.
Variable f_key : f32 -> outcome Z.
Variable f_tosize : f32 -> outcome N.
Variable f_div : f32 -> f32 -> f32.

(* c3d::c3d(filePath) on the bytes of the file *)
Definition load (file : list N) : outcome state :=
  let st0 := open_stream file in
  match read_header st0 with
  | Ok (h, st1) =>
      match read_parameters h st1 with
      | Ok ((pr, gs), st2) =>
          match update_header f_key f_tosize f_div false (mkState h pr gs []) with
          | ROk _ s1 =>
              match read_data (hdr s1) pr gs st2 with
              | Ok (fs, _) => Ok (set_frames s1 fs)
              | Throw e => Throw e
              | UB t => UB t
              end
          | RThrow e _ => Throw e
          | RUB t => UB t
          end
      | Throw e => Throw e
      | UB t => UB t
      end
  | Throw e => Throw e
  | UB t => UB t
  end.
End WithFloatOps.
