(* Proofs_Record.v — codec round trip, parameter-section stage (C01/C02/C04/C17): what Parameter::read and
   Group::read return on exactly the bytes Parameter::write and Group::write emit, for every well-formed
   parameter and group (the well-formedness predicate is the list of the format's capacity limits). *)
From Coq Require Import Lia ZifyNat ZifyN ZifyBool.
From EZ Require Import Base Bytes Types Api Enc Dec Proofs_Bytes Proofs_Lookup Proofs_Param Proofs_Codec.
Local Open Scope N_scope.

(* m consumes exactly the bytes x and returns v, whatever follows *)
Definition reads {A} (m : RD A) (x : list N) (v : A) : Prop :=
  forall st r, st_fail st = false -> st_rest st = x ++ r -> m st = Ok (v, adv st (length x) r).

Lemma adv_0 : forall st r, st_fail st = false -> st_rest st = r -> adv st 0 r = st.
Proof. intros [f p q b] r Hf Hr. cbn in *. subst. unfold adv. cbn. f_equal. lia. Qed.

Lemma reads_ret : forall A (a : A), reads (rret a) [] a.
Proof. intros A a st r Hf Hr. unfold rret. cbn [length]. rewrite adv_0; auto. Qed.

Lemma reads_bind : forall A B (m : RD A) (k : A -> RD B) x y a b,
  reads m x a -> reads (k a) y b -> reads (rbind m k) (x ++ y) b.
Proof.
  intros A B m k x y a b Hm Hk st r Hf Hr. unfold rbind. rewrite <- app_assoc in Hr.
  rewrite (Hm st (y ++ r) Hf Hr). rewrite (Hk _ r (adv_fail _ _ _) (adv_rest _ _ _)).
  rewrite adv_adv, app_length. reflexivity.
Qed.

Lemma reads_bytes : forall x, reads (rd_bytes (length x)) x x.
Proof. intros x st r Hf Hr. apply rd_bytes_exact; assumption. Qed.

Lemma reads_many : forall A (m : RD A) xs vs, Forall2 (reads m) xs vs -> reads (rd_many (length xs) m) (concat xs) vs.
Proof.
  intros A m xs vs H. induction H as [|x v xs vs Hx _ IH]; cbn [length rd_many concat].
  - apply reads_ret.
  - eapply reads_bind; [exact Hx|]. rewrite <- (app_nil_r (concat xs)). eapply reads_bind; [exact IH|]. apply reads_ret.
Qed.

(* a reader that consumes nothing and does not look at the position *)
Lemma reads_pure_bind : forall A B (m : RD A) (k : A -> RD B) a y b,
  (forall st, m st = Ok (a, st)) -> reads (k a) y b -> reads (rbind m k) y b.
Proof. intros A B m k a y b Hm Hk st r Hf Hr. unfold rbind. rewrite Hm. apply Hk; assumption. Qed.

(* ---------- scalars ---------- *)
Definition byte_ok (b : N) : Prop := b < 256.

Lemma read_uint_1 : forall b, b < 256 -> read_uint [b] = b.
Proof.
  intros b H. unfold read_uint. replace [b] with (le_bytes 1 (Z.of_N b)).
  - rewrite hex2uint_le1 by lia. apply N2Z.id.
  - cbn [le_bytes]. rewrite Z.mod_small by lia. rewrite N2Z.id. reflexivity.
Qed.

Lemma reads_uint1 : forall b, b < 256 -> reads (rd_uint 1) [b] b.
Proof.
  intros b H. unfold rd_uint. rewrite <- (app_nil_r [b]). eapply reads_bind; [apply (reads_bytes [b])|].
  rewrite (read_uint_1 b H). apply reads_ret.
Qed.
Lemma reads_int1 : forall b, reads (rd_int 1) [b] (hex2int [b]).
Proof. intros b. unfold rd_int. rewrite <- (app_nil_r [b]). eapply reads_bind; [apply (reads_bytes [b])|apply reads_ret]. Qed.

Lemma le_bytes_length : forall n v, length (le_bytes n v) = n.
Proof. induction n as [|n IH]; intros v; cbn [le_bytes length]; [reflexivity|]. rewrite IH. reflexivity. Qed.

Lemma reads_uint2 : forall z, (0 <= z < 65536)%Z -> reads (rd_uint 2) (le_bytes 2 z) (Z.to_N z).
Proof.
  intros z H. unfold rd_uint. rewrite <- (app_nil_r (le_bytes 2 z)). eapply reads_bind.
  - pose proof (reads_bytes (le_bytes 2 z)) as R. rewrite le_bytes_length in R. exact R.
  - unfold read_uint. rewrite hex2uint_le2 by exact H. apply reads_ret.
Qed.
Lemma reads_int2 : forall z, (-32768 <= z < 32768)%Z -> reads (rd_int 2) (le_bytes 2 z) z.
Proof.
  intros z H. unfold rd_int. rewrite <- (app_nil_r (le_bytes 2 z)). eapply reads_bind.
  - pose proof (reads_bytes (le_bytes 2 z)) as R. rewrite le_bytes_length in R. exact R.
  - rewrite hex2int_le2 by exact H. apply reads_ret.
Qed.
Lemma reads_int1_val : forall z, (-128 <= z < 128)%Z -> reads (rd_int 1) (le_bytes 1 z) z.
Proof.
  intros z H. unfold rd_int. rewrite <- (app_nil_r (le_bytes 1 z)). eapply reads_bind.
  - pose proof (reads_bytes (le_bytes 1 z)) as R. rewrite le_bytes_length in R. exact R.
  - rewrite hex2int_le1 by exact H. apply reads_ret.
Qed.
Lemma reads_float : forall v, wf32 v -> reads rd_float (w4 v) v.
Proof. intros v H st r Hf Hr. rewrite (rd_float_written st v r H Hf Hr). rewrite w4_length. reflexivity. Qed.

(* strings: the C string constructor stops at the first NUL *)
Definition no_nul (s : list N) : Prop := Forall (fun b => b <> 0) s.
Lemma cstr_no_nul : forall s, no_nul s -> cstr s = s.
Proof.
  induction s as [|b t IH]; intros H; cbn [cstr]; [reflexivity|]. inversion H as [|? ? Hb Ht]; subst.
  destruct (b =? 0) eqn:E; [apply N.eqb_eq in E; contradiction|]. rewrite IH by exact Ht. reflexivity.
Qed.
Lemma reads_string : forall s, no_nul s -> reads (rd_string (length s)) s s.
Proof.
  intros s H. unfold rd_string. rewrite <- (app_nil_r s) at 2. eapply reads_bind; [apply reads_bytes|].
  rewrite cstr_no_nul by exact H. apply reads_ret.
Qed.

(* ---------- arrays ---------- *)
Lemma Forall2_map_reads : forall A (m : RD A) (f : A -> list N) (P : A -> Prop) vs,
  (forall v, P v -> reads m (f v) v) -> Forall P vs -> Forall2 (reads m) (map f vs) vs.
Proof. intros A m f P vs H F. induction F as [|v vs Hv _ IH]; cbn [map]; constructor; auto. Qed.

Lemma reads_array : forall A (m : RD A) (f : A -> list N) (P : A -> Prop) vs,
  (forall v, P v -> reads m (f v) v) -> Forall P vs -> reads (rd_many (length vs) m) (concat (map f vs)) vs.
Proof.
  intros A m f P vs H F. pose proof (reads_many A m (map f vs) vs (Forall2_map_reads A m f P vs H F)) as R.
  rewrite map_length in R. exact R.
Qed.

Definition int16 (z : Z) : Prop := (-32768 <= z < 32768)%Z.
Definition int8 (z : Z) : Prop := (-128 <= z < 128)%Z.

Lemma reads_ints2 : forall vs, Forall int16 vs -> reads (rd_many (length vs) (rd_int 2)) (concat (map (le_bytes 2) vs)) vs.
Proof. intros vs. apply reads_array. exact reads_int2. Qed.
Lemma reads_ints1 : forall vs, Forall int8 vs -> reads (rd_many (length vs) (rd_int 1)) (concat (map (le_bytes 1) vs)) vs.
Proof. intros vs. apply reads_array. exact reads_int1_val. Qed.
Lemma reads_floats : forall vs, Forall wf32 vs -> reads (rd_many (length vs) rd_float) (concat (map w4 vs)) vs.
Proof. intros vs. apply reads_array. exact reads_float. Qed.

Lemma concat_singletons : forall A (l : list A), concat (map (fun b => [b]) l) = l.
Proof. induction l as [|a l IH]; cbn; [reflexivity|]. rewrite IH. reflexivity. Qed.

Lemma reads_dims : forall ds, Forall byte_ok ds -> reads (rd_many (length ds) (rd_uint 1)) ds ds.
Proof.
  intros ds H. pose proof (reads_array N (rd_uint 1) (fun b => [b]) byte_ok ds reads_uint1 H) as R.
  rewrite concat_singletons in R. exact R.
Qed.

(* one-byte strings: what c3d::readParam does for CHAR data *)
Lemma reads_cell : forall b, b <> 0 -> reads (rd_string 1) [b] [b].
Proof. intros b H. apply (reads_string [b]). constructor; [exact H|constructor]. Qed.
Lemma reads_cells : forall bs, no_nul bs -> reads (rd_many (length bs) (rd_string 1)) bs (map (fun b => [b]) bs).
Proof.
  intros bs H. pose proof (reads_many bstr (rd_string 1) (map (fun b => [b]) bs) (map (fun b => [b]) bs)) as R.
  rewrite concat_singletons, map_length in R. apply R. clear R.
  induction H as [|b t Hb _ IH]; cbn [map]; constructor; [apply reads_cell; exact Hb|exact IH].
Qed.

Lemma firstn_cells : forall n (bs : list N), concat (firstn n (map (fun b => [b]) bs)) = firstn n bs.
Proof. intros n bs. rewrite firstn_map. apply concat_singletons. Qed.

Definition str_ok (w : N) (s : bstr) : Prop := nlen s <= w /\ no_nul s /\ rtrim s = s.

Lemma pad_to_length : forall w s, nlen s <= w -> length (pad_to w s) = N.to_nat w.
Proof. intros w s H. unfold pad_to, nlen in *. rewrite app_length, repeat_length. lia. Qed.
Lemma pad_to_no_nul : forall w s, no_nul s -> no_nul (pad_to w s).
Proof.
  intros w s H. unfold pad_to, no_nul. apply Forall_app. split; [exact H|].
  apply Forall_forall. intros x Hx. apply repeat_spec in Hx. subst x. discriminate.
Qed.
Lemma rtrim_pad : forall w s, rtrim s = s -> rtrim (pad_to w s) = s.
Proof. intros w s H. unfold pad_to. rewrite rtrim_spaces. exact H. Qed.

Lemma firstn_app_len : forall A (a x : list A) n, length a = n -> firstn n (a ++ x) = a.
Proof. intros A a x n <-. apply firstn_app_exact. Qed.
Lemma skipn_app_len : forall A (a x : list A) n, length a = n -> skipn n (a ++ x) = x.
Proof. intros A a x n <-. apply skipn_app_exact. Qed.

Lemma chunks_written : forall w strs, Forall (str_ok w) strs ->
  chunks (N.to_nat w) (length strs) (map (fun b => [b]) (concat (map (pad_to w) strs))) = strs.
Proof.
  intros w strs H. induction H as [|s t [Hl [Hn Ht]] _ IH]; cbn [length chunks map concat]; [reflexivity|].
  rewrite map_app. pose proof (pad_to_length w s Hl) as L.
  assert (L' : length (map (fun b : N => [b]) (pad_to w s)) = N.to_nat w) by (rewrite map_length; exact L).
  rewrite firstn_app_len by exact L'. rewrite skipn_app_len by exact L'.
  rewrite concat_singletons, (rtrim_pad w s Ht), IH. reflexivity.
Qed.

Lemma concat_pad_no_nul : forall w strs, Forall (str_ok w) strs -> no_nul (concat (map (pad_to w) strs)).
Proof.
  intros w strs H. induction H as [|s t [_ [Hn _]] _ IH]; cbn [map concat]; [constructor|].
  apply Forall_app. split; [apply pad_to_no_nul; exact Hn|exact IH].
Qed.
Lemma concat_pad_length : forall w strs, Forall (str_ok w) strs ->
  length (concat (map (pad_to w) strs)) = (N.to_nat w * length strs)%nat.
Proof.
  intros w strs H. induction H as [|s t [Hl _] _ IH]; cbn [map concat length]; [lia|].
  rewrite app_length, IH, (pad_to_length w s Hl). lia.
Qed.

(* ---------- well-formed parameters: the capacity limits of the format ---------- *)
Definition LIMC : N := 1048576.
Definition dims_ok (dims : list N) : Prop :=
  dims <> [] /\ (length dims <= 255)%nat /\ Forall byte_ok dims /\ prodN dims < 2147483648 /\ loop_cost dims 1 <= LIMC.

Definition values_bytes (p : param) : list N :=
  match p_type p with
  | TChar => match p_dims p with w :: _ => concat (map (pad_to w) (p_strs p)) | [] => [] end
  | TByte => concat (map (le_bytes 1) (p_ints p))
  | TInt => concat (map (le_bytes 2) (p_ints p))
  | TFloat => concat (map w4 (p_floats p))
  | TNone => []
  end.

Definition typed_ok (p : param) : Prop :=
  match p_type p with
  | TInt => Forall int16 (p_ints p) /\ nlen (p_ints p) = prodN (p_dims p) /\ p_floats p = [] /\ p_strs p = []
  | TByte => Forall int8 (p_ints p) /\ nlen (p_ints p) = prodN (p_dims p) /\ p_floats p = [] /\ p_strs p = []
  | TFloat => Forall wf32 (p_floats p) /\ nlen (p_floats p) = prodN (p_dims p) /\ p_ints p = [] /\ p_strs p = []
  | TChar => p_ints p = [] /\ p_floats p = [] /\
      match p_dims p with
      | [] => False
      | [w] => (w = 0 /\ p_strs p = []) \/ (w <> 0 /\ exists s0, p_strs p = [s0] /\ str_ok w s0)
      | w :: rest => nlen (p_strs p) = prodN rest /\ Forall (str_ok w) (p_strs p) /\ loop_cost rest 1 <= LIMC
      end
  | TNone => False
  end.

Lemma take_cells_all : forall A site (l : list A), take_cells site (length l) l = Ok l.
Proof. intros A site l. induction l as [|x t IH]; cbn [length take_cells]; [reflexivity|]. rewrite IH. reflexivity. Qed.

Lemma has_size_ok : forall dims, dims <> [] -> prodN dims < 2147483648 -> has_size dims = Z.of_N (prodN dims).
Proof.
  intros dims Ne H. unfold has_size. destruct dims as [|d t]; [contradiction|].
  unfold wrap32s. rewrite Z.mod_small by lia. destruct (Z.of_N (prodN (d :: t)) <? 2147483648)%Z eqn:E; [reflexivity|apply Z.ltb_ge in E; lia].
Qed.

Lemma nlen_0_nil : forall A (l : list A), nlen l = 0 -> l = [].
Proof. intros A [|a t] H; [reflexivity|unfold nlen in H; cbn in H; lia]. Qed.

Lemma numeric_data : forall A site (vals : list A) (n : N) (f : A -> list N),
  nlen vals = n ->
  (if nlen vals <? n then UB (IdxOOB site)
   else obind (take_cells site (N.to_nat n) vals) (fun v => Ok (concat (map f v), false))) = Ok (concat (map f vals), false).
Proof.
  intros A site vals n f H. rewrite H, N.ltb_irrefl. rewrite <- H. unfold nlen. rewrite Nat2N.id, take_cells_all. reflexivity.
Qed.

Lemma data_bytes_wf : forall p, dims_ok (p_dims p) -> typed_ok p ->
  bstr_eqb (p_name p) nm_DATA_START = false -> data_bytes p = Ok (values_bytes p, false).
Proof.
  intros p [Ne [_ [Hb [Hp _]]]] T Nd. unfold data_bytes, values_bytes. rewrite (has_size_ok _ Ne Hp).
  unfold typed_ok in T. destruct (p_type p) eqn:Ty.
  - (* CHAR *)
    destruct T as [_ [_ T]]. destruct (p_dims p) as [|w rest] eqn:D; [contradiction|].
    destruct rest as [|r rest'].
    + cbn [prodN] in *. destruct T as [[-> Es]|[Nw [s0 [Es Hs]]]]; rewrite Es.
      * cbn. reflexivity.
      * assert (E : (Z.of_N (w * 1) <=? 0)%Z = false) by lia. rewrite E. cbn [map concat]. rewrite app_nil_r. reflexivity.
    + destruct T as [Hn [Hs _]]. destruct (Z.of_N (prodN (w :: r :: rest')) <=? 0)%Z eqn:E.
      * (* nothing to write: either no string or only empty ones *)
        assert (Z0 : w * prodN (r :: rest') = 0) by (cbn [prodN] in E |- *; lia).
        apply N.eq_mul_0 in Z0. destruct Z0 as [Zw|Zr].
        -- subst w. f_equal. f_equal. clear -Hs. induction Hs as [|s t [Hl _] _ IH]; cbn [map concat]; [reflexivity|].
           assert (s = []) by (apply nlen_0_nil; lia). subst s. cbn. exact IH.
        -- rewrite Zr in Hn. apply nlen_0_nil in Hn. rewrite Hn. reflexivity.
      * apply (numeric_data bstr 51 (p_strs p) (prodN (r :: rest')) (pad_to w) Hn).
  - destruct T as [_ [Hn _]]. rewrite Nd. destruct (Z.of_N (prodN (p_dims p)) <=? 0)%Z eqn:E.
    + assert (Z0 : nlen (p_ints p) = 0) by lia. apply nlen_0_nil in Z0. rewrite Z0. reflexivity.
    + apply (numeric_data Z 54 (p_ints p) (prodN (p_dims p)) (le_bytes 1) Hn).
  - destruct T as [_ [Hn _]]. rewrite Nd. destruct (Z.of_N (prodN (p_dims p)) <=? 0)%Z eqn:E.
    + assert (Z0 : nlen (p_ints p) = 0) by lia. apply nlen_0_nil in Z0. rewrite Z0. reflexivity.
    + apply (numeric_data Z 53 (p_ints p) (prodN (p_dims p)) (le_bytes 2) Hn).
  - destruct T as [_ [Hn _]]. rewrite Nd. destruct (Z.of_N (prodN (p_dims p)) <=? 0)%Z eqn:E.
    + assert (Z0 : nlen (p_floats p) = 0) by lia. apply nlen_0_nil in Z0. rewrite Z0. reflexivity.
    + apply (numeric_data f32 52 (p_floats p) (prodN (p_dims p)) w4 Hn).
  - contradiction.
Qed.

(* ---------- the reader on the written values ---------- *)
Lemma blowup_ok : forall site cost st, cost <= LIMC -> blowup_guard site cost st = Ok (tt, st).
Proof.
  intros site cost st H. unfold blowup_guard, rbind, rd_len, rret.
  assert (E : 64 * nlen (st_file st) + 1048576 <? cost = false) by (unfold LIMC in H; lia). rewrite E. reflexivity.
Qed.

Lemma to_nat_nlen : forall A (l : list A) n, nlen l = n -> N.to_nat n = length l.
Proof. intros A l n <-. unfold nlen. apply Nat2N.id. Qed.

Lemma read_values_wf : forall p, dims_ok (p_dims p) -> typed_ok p ->
  reads (read_values (p_type p) (p_dims p)) (values_bytes p) (p_ints p, p_floats p, p_strs p).
Proof.
  intros p [Ne [_ [Hb [Hp Hc]]]] T. unfold read_values, values_bytes, typed_ok in *. destruct (p_type p) eqn:Ty.
  - (* CHAR *)
    destruct T as [Ei [Ef T]]. rewrite Ei, Ef. destruct (p_dims p) as [|w rest] eqn:D; [contradiction|].
    unfold read_strings. rewrite <- (app_nil_r (concat _)). eapply reads_bind; [|apply reads_ret].
    eapply reads_pure_bind; [intros st; apply blowup_ok; exact Hc|].
    destruct rest as [|r rest'].
    + eapply reads_pure_bind; [intros st; apply blowup_ok; unfold LIMC; cbn; lia|].
      cbn [prodN]. rewrite N.mul_1_r. destruct T as [[-> Es]|[Nw [s0 [Es Hs]]]]; rewrite Es.
      * cbn [map concat N.to_nat rd_many]. eapply reads_pure_bind; [intros st; reflexivity|]. cbn. apply reads_ret.
      * cbn [map concat]. rewrite app_nil_r. rewrite <- (app_nil_r (pad_to w s0)).
        destruct Hs as [Hl [Hn Ht]].
        eapply reads_bind.
        { rewrite <- (pad_to_length w s0 Hl). apply reads_cells. apply pad_to_no_nul. exact Hn. }
        assert (E : (w =? 0) = false) by lia. rewrite E. rewrite concat_singletons, (rtrim_pad w s0 Ht). apply reads_ret.
    + destruct T as [Hn [Hs Hc2]]. eapply reads_pure_bind; [intros st; apply blowup_ok; exact Hc2|].
      rewrite <- (app_nil_r (concat _)). eapply reads_bind.
      { assert (L : N.to_nat (prodN (w :: r :: rest')) = length (concat (map (pad_to w) (p_strs p)))).
        { rewrite (concat_pad_length w _ Hs). cbn [prodN] in *. unfold nlen in Hn. lia. }
        rewrite L. apply reads_cells. apply concat_pad_no_nul. exact Hs. }
      rewrite (to_nat_nlen _ _ _ Hn). rewrite (chunks_written w _ Hs). apply reads_ret.
  - destruct T as [Hr [Hn [Ef Es]]]. rewrite Ef, Es. unfold read_ints. destruct (p_dims p) as [|d t] eqn:D; [contradiction|].
    rewrite <- (app_nil_r (concat _)). eapply reads_bind; [|apply reads_ret].
    eapply reads_pure_bind; [intros st; apply blowup_ok; exact Hc|].
    rewrite (to_nat_nlen _ _ _ Hn). apply reads_ints1. exact Hr.
  - destruct T as [Hr [Hn [Ef Es]]]. rewrite Ef, Es. unfold read_ints. destruct (p_dims p) as [|d t] eqn:D; [contradiction|].
    rewrite <- (app_nil_r (concat _)). eapply reads_bind; [|apply reads_ret].
    eapply reads_pure_bind; [intros st; apply blowup_ok; exact Hc|].
    rewrite (to_nat_nlen _ _ _ Hn). apply reads_ints2. exact Hr.
  - destruct T as [Hr [Hn [Ei Es]]]. rewrite Ei, Es. unfold read_floats. destruct (p_dims p) as [|d t] eqn:D; [contradiction|].
    rewrite <- (app_nil_r (concat _)). eapply reads_bind; [|apply reads_ret].
    eapply reads_pure_bind; [intros st; apply blowup_ok; exact Hc|].
    rewrite (to_nat_nlen _ _ _ Hn). apply reads_floats. exact Hr.
  - contradiction.
Qed.

(* ---------- one parameter record ---------- *)
Definition name_ok (n : bstr) : Prop := (1 <= length n <= 127)%nat /\ no_nul (upper n).
Definition desc_ok (d : bstr) : Prop := (length d <= 255)%nat /\ no_nul d.
Definition wf_param (p : param) : Prop :=
  name_ok (p_name p) /\ desc_ok (p_desc p) /\ dims_ok (p_dims p) /\ typed_ok p.

Lemma low8_small : forall z, (0 <= z < 256)%Z -> low8 z = Z.to_N z.
Proof. intros z H. unfold low8. rewrite Z.mod_small by lia. reflexivity. Qed.

Lemma hex2int_low8 : forall v, (-128 <= v < 128)%Z -> hex2int [low8 v] = v.
Proof. intros v H. rewrite <- (hex2int_le1 v H) at 2. reflexivity. Qed.

Lemma nchars_of_name : forall n lock, (1 <= length n <= 127)%nat ->
  let c := hex2int [name_len_byte n lock] in Z.to_nat (Z.abs c) = length n /\ (c <? 0)%Z = lock.
Proof.
  intros n lock H. unfold name_len_byte, zlen. destruct lock.
  - rewrite hex2int_low8 by lia. split; lia.
  - rewrite hex2int_low8 by lia. split; lia.
Qed.

Lemma to_N_of_nat : forall n, Z.to_N (Z.of_nat n) = N.of_nat n.
Proof. intros n. lia. Qed.

Definition type_of_byte (tb : Z) : RD ptype :=
  if (tb =? -1)%Z then rret TChar else if (tb =? 1)%Z then rret TByte
  else if (tb =? 2)%Z then rret TInt else if (tb =? 4)%Z then rret TFloat else rthrow IosFailure.
Lemma type_byte_read : forall ty, ty <> TNone -> type_of_byte (hex2int [type_byte ty]) = rret ty.
Proof. intros [] H; try reflexivity. contradiction. Qed.

Lemma map_low8_dims : forall ds, Forall byte_ok ds -> map (fun d => low8 (Z.of_N d)) ds = ds.
Proof.
  intros ds H. induction H as [|d t Hd _ IH]; cbn [map]; [reflexivity|]. rewrite IH. f_equal.
  unfold byte_ok in Hd. rewrite low8_small by lia. apply N2Z.id.
Qed.

Lemma dims_bytes_not1 : forall ds, ds <> [1] -> dims_bytes ds = low8 (zlen ds) :: map (fun d => low8 (Z.of_N d)) ds.
Proof.
  intros ds H. unfold dims_bytes. destruct ds as [|d t]; [reflexivity|].
  destruct d as [|q]; [reflexivity|]. destruct q; try reflexivity. destruct t; [contradiction|reflexivity].
Qed.

Definition dims_reader : RD (list N) :=
  (nd <- rd_uint 1 ;; if nd =? 0 then rret [1] else rd_many (N.to_nat nd) (rd_uint 1))%R.
Lemma reads_dims_bytes : forall ds, ds <> [] -> (length ds <= 255)%nat -> Forall byte_ok ds ->
  reads dims_reader (dims_bytes ds) ds.
Proof.
  intros ds Ne L H. unfold dims_reader.
  assert (G : reads (nd <- rd_uint 1 ;; if nd =? 0 then rret [1] else rd_many (N.to_nat nd) (rd_uint 1))%R
                    (low8 (zlen ds) :: map (fun d => low8 (Z.of_N d)) ds) ds).
  { rewrite (map_low8_dims ds H). unfold zlen. rewrite low8_small by lia.
    change (Z.to_N (Z.of_nat (length ds)) :: ds) with ([Z.to_N (Z.of_nat (length ds))] ++ ds).
    eapply reads_bind; [apply reads_uint1; lia|].
    assert (E : (Z.to_N (Z.of_nat (length ds)) =? 0) = false) by (destruct ds; [contradiction|cbn [length]; lia]).
    rewrite E. rewrite to_N_of_nat, Nat2N.id. apply reads_dims. exact H. }
  destruct (list_eq_dec N.eq_dec ds [1]) as [->|N1].
  - change (dims_bytes [1]) with ([0] ++ []). eapply reads_bind; [apply reads_uint1; lia|]. cbn. apply reads_ret.
  - rewrite (dims_bytes_not1 ds N1). exact G.
Qed.

Definition desc_reader : RD bstr := (dl <- rd_uint 1 ;; if dl =? 0 then rret [] else rd_string (N.to_nat dl))%R.
Lemma reads_desc : forall d, desc_ok d -> reads desc_reader ([low8 (zlen d)] ++ d) d.
Proof.
  intros d [L H]. unfold desc_reader, zlen. rewrite low8_small by lia.
  eapply reads_bind; [apply reads_uint1; lia|].
  destruct d as [|c t].
  - cbn. apply reads_ret.
  - assert (E : (Z.to_N (Z.of_nat (length (c :: t))) =? 0) = false) by (cbn [length]; lia). rewrite E.
    rewrite to_N_of_nat, Nat2N.id. apply reads_string. exact H.
Qed.

Lemma reads_assoc : forall A B C (m : RD A) (k : A -> RD B) (h : B -> RD C) x v,
  reads (rbind (rbind m k) h) x v -> reads (rbind m (fun a => rbind (k a) h)) x v.
Proof.
  intros A B C m k h x v H st r Hf Hr. rewrite <- (H st r Hf Hr). unfold rbind. destruct (m st) as [[a st']| |]; reflexivity.
Qed.

(* everything after the next-record offset *)
Definition param_rest (name : bstr) (lock : bool) (nxt : Z) : RD (param * Z) :=
  (tb <- rd_int 1 ;;
   ty <- (if (tb =? -1)%Z then rret TChar else if (tb =? 1)%Z then rret TByte
          else if (tb =? 2)%Z then rret TInt else if (tb =? 4)%Z then rret TFloat else rthrow IosFailure) ;;
   nd <- rd_uint 1 ;;
   dims <- (if nd =? 0 then rret [1] else rd_many (N.to_nat nd) (rd_uint 1)) ;;
   vals <- read_values ty dims ;;
   let '(vi, vf, vs) := vals in
   dl <- rd_uint 1 ;;
   desc <- (if dl =? 0 then rret [] else rd_string (N.to_nat dl)) ;;
   rret (mkParam name desc lock ty dims vi vf vs, nxt))%R.

Definition param_body (p : param) : list N := [type_byte (p_type p)] ++ dims_bytes (p_dims p).
Definition param_tail (p : param) : list N := values_bytes p ++ [low8 (zlen (p_desc p))] ++ p_desc p.

Lemma param_rest_written : forall p name lock nxt, wf_param p ->
  reads (param_rest name lock nxt) (param_body p ++ param_tail p)
        (mkParam name (p_desc p) lock (p_type p) (p_dims p) (p_ints p) (p_floats p) (p_strs p), nxt).
Proof.
  intros p name lock nxt [_ [Hd [Hdim Ht]]]. unfold param_rest, param_body, param_tail.
  assert (Ty : p_type p <> TNone) by (intros E; unfold typed_ok in Ht; rewrite E in Ht; exact Ht).
  rewrite <- app_assoc. eapply reads_bind; [apply reads_int1|].
  fold (type_of_byte (hex2int [type_byte (p_type p)])). rewrite (type_byte_read _ Ty).
  eapply reads_pure_bind; [intros st; reflexivity|].
  apply reads_assoc. eapply reads_bind.
  { destruct Hdim as [Ne [L [Hb _]]]. apply (reads_dims_bytes (p_dims p) Ne L Hb). }
  eapply reads_bind; [apply (read_values_wf p Hdim Ht)|].
  apply reads_assoc. rewrite <- (app_nil_r ([low8 (zlen (p_desc p))] ++ p_desc p)).
  eapply reads_bind; [apply (reads_desc (p_desc p) Hd)|]. apply reads_ret.
Qed.

Lemma read_param_split : forall nchars st,
  read_param nchars st =
  (name <- rd_string (Z.to_nat (Z.abs nchars)) ;; off <- rd_uint 2 ;; nxt <- next_pos off ;;
   param_rest name (nchars <? 0)%Z nxt)%R st.
Proof. reflexivity. Qed.

Lemma le_bytes2_mod : forall z, le_bytes 2 z = le_bytes 2 (z mod 65536).
Proof.
  intros z. cbn [le_bytes]. f_equal; [|f_equal].
  - f_equal. rewrite <- (Znumtheory.Zmod_div_mod 256 65536 z); [reflexivity|lia|lia|]. exists 256%Z. reflexivity.
  - f_equal. pose proof (Z.div_mod z 65536). pose proof (Z.mod_pos_bound z 65536).
    Ltac Zify.zify_post_hook ::= Z.div_mod_to_equations. lia.
Qed.

(* THE RECORD: Parameter::read on the bytes Parameter::write emitted (after the two bytes the walker consumes) *)
Theorem read_param_written : forall p st r,
  wf_param p -> st_fail st = false ->
  let off := (2 + zlen (param_body p) + zlen (param_tail p))%Z in
  st_rest st = upper (p_name p) ++ le_bytes 2 off ++ param_body p ++ param_tail p ++ r ->
  let o16 := (off mod 65536)%Z in
  let nxt := if (o16 =? 0)%Z then 0%Z
             else wrap32s (Z.of_N (st_pos st + N.of_nat (length (p_name p)) + 2) + o16 - 2) in
  read_param (hex2int [name_len_byte (p_name p) (p_lock p)]) st =
    Ok ((mkParam (upper (p_name p)) (p_desc p) (p_lock p) (p_type p) (p_dims p) (p_ints p) (p_floats p) (p_strs p), nxt),
        adv st (length (p_name p) + 2 + length (param_body p ++ param_tail p)) r).
Proof.
  intros p st r W Hf off Hr o16 nxt. pose proof W as [[Hn Hnn] _].
  destruct (nchars_of_name (p_name p) (p_lock p) Hn) as [Ea El].
  rewrite read_param_split. unfold rbind at 1. rewrite Ea.
  assert (Lu : length (upper (p_name p)) = length (p_name p)) by (unfold upper; apply map_length).
  pose proof (reads_string (upper (p_name p)) Hnn st _ Hf Hr) as R1. unfold upper in R1. rewrite !map_length in R1. fold (upper (p_name p)) in R1. rewrite R1. clear R1.
  unfold rbind at 1. rewrite le_bytes2_mod.
  assert (Ro : (0 <= o16 < 65536)%Z) by (apply Z.mod_pos_bound; lia).
  rewrite (reads_uint2 o16 Ro (adv st (length (p_name p)) _) _ (adv_fail _ _ _) (adv_rest _ _ _)). rewrite le_bytes_length, adv_adv.
  unfold rbind at 1. unfold next_pos.
  assert (Eo : (Z.to_N o16 =? 0) = (o16 =? 0)%Z) by lia. rewrite Eo.
  assert (Ev : (if (o16 =? 0)%Z then rret 0%Z else (t <- rd_tell ;; rret (wrap32s (t + Z.of_N (Z.to_N o16) - 2)))%R)
                 (adv st (length (p_name p) + 2) (param_body p ++ param_tail p ++ r))
               = Ok (nxt, adv st (length (p_name p) + 2) (param_body p ++ param_tail p ++ r))).
  { unfold nxt. destruct (o16 =? 0)%Z; [reflexivity|]. unfold rbind, rd_tell, tell, rret. cbn [adv st_fail st_pos].
    rewrite Z2N.id by lia. do 3 f_equal. lia. }
  rewrite Ev. rewrite El.
  rewrite app_assoc. rewrite (param_rest_written p (upper (p_name p)) (p_lock p) nxt W _ r (adv_fail _ _ _)); [|rewrite adv_rest; reflexivity].
  rewrite adv_adv. reflexivity.
Qed.

(* the writer's record, for a well-formed parameter other than POINT:DATA_START (whose two bytes are patched afterwards) *)
Lemma param_record_wf : forall p gid, wf_param p -> bstr_eqb (p_name p) nm_DATA_START = false ->
  param_record p gid =
    Ok ([name_len_byte (p_name p) (p_lock p); low8 gid] ++ upper (p_name p)
        ++ le_bytes 2 (2 + zlen (param_body p) + zlen (param_tail p))%Z ++ param_body p ++ param_tail p, None).
Proof.
  intros p gid [_ [_ [Hd Ht]]] Nd. unfold param_record. rewrite (data_bytes_wf p Hd Ht Nd). cbn [obind]. reflexivity.
Qed.

Definition upper_name (p : param) : param :=
  mkParam (upper (p_name p)) (p_desc p) (p_lock p) (p_type p) (p_dims p) (p_ints p) (p_floats p) (p_strs p).

(* write then read: one parameter *)
Theorem param_record_roundtrip : forall p gid, wf_param p -> bstr_eqb (p_name p) nm_DATA_START = false ->
  exists b0 b1 bytes, param_record p gid = Ok (b0 :: b1 :: bytes, None) /\ b1 = low8 gid /\
    forall st r, st_fail st = false -> st_rest st = bytes ++ r ->
      exists nxt, read_param (hex2int [b0]) st = Ok ((upper_name p, nxt), adv st (length bytes) r).
Proof.
  intros p gid W Nd. rewrite (param_record_wf p gid W Nd). do 3 eexists. split; [reflexivity|]. split; [reflexivity|].
  intros st r Hf Hr. rewrite <- !app_assoc in Hr. eexists.
  rewrite (read_param_written p st r W Hf Hr). unfold upper_name. do 2 f_equal.
  rewrite !app_length, le_bytes_length. unfold upper. rewrite map_length. f_equal. lia.
Qed.

(* ---------- one group record ---------- *)
Definition wf_group_hdr (g : group) : Prop := name_ok (g_name g) /\ desc_ok (g_desc g).

Definition desc_after (g old : group) : bstr := match g_desc g with [] => g_desc old | d => d end.

Theorem read_group_written : forall g old st r,
  wf_group_hdr g -> st_fail st = false ->
  st_rest st = upper (g_name g) ++ le_bytes 2 (3 + zlen (g_desc g))%Z ++ [low8 (zlen (g_desc g))] ++ g_desc g ++ r ->
  read_group old (hex2int [name_len_byte (g_name g) (g_lock g)]) st =
    Ok ((mkGroup (upper (g_name g)) (desc_after g old) (g_lock g) (g_params old),
         wrap32s (Z.of_N (st_pos st + N.of_nat (length (g_name g)) + 2) + (3 + zlen (g_desc g)) - 2)),
        adv st (length (g_name g) + 2 + (1 + length (g_desc g))) r).
Proof.
  intros g old st r [[Hn Hnn] [Hdl Hdn]] Hf Hr.
  destruct (nchars_of_name (g_name g) (g_lock g) Hn) as [Ea El].
  unfold read_group. unfold rbind at 1. rewrite Ea.
  pose proof (reads_string (upper (g_name g)) Hnn st _ Hf Hr) as R1. unfold upper in R1. rewrite !map_length in R1. fold (upper (g_name g)) in R1. rewrite R1. clear R1.
  unfold rbind at 1.
  assert (Ro : (0 <= 3 + zlen (g_desc g) < 65536)%Z) by (unfold zlen; lia).
  rewrite (reads_uint2 _ Ro (adv st (length (g_name g)) _) _ (adv_fail _ _ _) (adv_rest _ _ _)). rewrite le_bytes_length, adv_adv.
  unfold rbind at 1. unfold next_pos.
  assert (E0 : (Z.to_N (3 + zlen (g_desc g)) =? 0) = false) by (unfold zlen; lia). rewrite E0.
  unfold rbind at 1. unfold rd_tell at 1. unfold rret at 1.
  assert (Rd : reads (dl <- rd_uint 1 ;; if dl =? 0 then rret (g_desc old) else rd_string (N.to_nat dl))%R
                     ([low8 (zlen (g_desc g))] ++ g_desc g) (desc_after g old)).
  { unfold zlen, desc_after. rewrite low8_small by lia. eapply reads_bind; [apply reads_uint1; lia|].
    destruct (g_desc g) as [|c t] eqn:D.
    - cbn. apply reads_ret.
    - assert (E : (Z.to_N (Z.of_nat (length (c :: t))) =? 0) = false) by (cbn [length]; lia). rewrite E.
      rewrite to_N_of_nat, Nat2N.id. apply reads_string. exact Hdn. }
  assert (Rg : forall nxt : Z, reads (dl <- rd_uint 1 ;; desc <- (if dl =? 0 then rret (g_desc old) else rd_string (N.to_nat dl)) ;;
                         rret (mkGroup (upper (g_name g)) desc (hex2int [name_len_byte (g_name g) (g_lock g)] <? 0)%Z (g_params old), nxt))%R
                     ([low8 (zlen (g_desc g))] ++ g_desc g)
                     (mkGroup (upper (g_name g)) (desc_after g old) (g_lock g) (g_params old), nxt)).
  { intros nxt. apply reads_assoc. rewrite <- (app_nil_r ([low8 (zlen (g_desc g))] ++ g_desc g)).
    eapply reads_bind; [exact Rd|]. rewrite El. apply reads_ret. }
  rewrite app_assoc. rewrite (Rg _ _ r (adv_fail _ _ _)); [|rewrite adv_rest; reflexivity].
  rewrite adv_adv. rewrite app_length. cbn [length]. unfold tell. cbn [adv st_fail st_pos]. rewrite Z2N.id by (unfold zlen; lia). do 2 f_equal. f_equal. f_equal. lia.
Qed.

(* ---------- what Parameter::set accepts within the capacity limits IS a well-formed parameter ---------- *)
Lemma shape_covers : forall n dims, dims <> [] -> dim_consistent n dims = true -> prodN dims < 2147483648 -> n = prodN dims.
Proof.
  intros n dims Ne H Hp. apply (dim_consistent_spec n dims Hp) in H.
  destruct H as [[_ E]|[E [D|D]]]; [exact E|contradiction|lia].
Qed.

Lemma dims_or_len_ne : forall dims n, dims_or_len dims n <> [].
Proof. intros dims n. unfold dims_or_len. destruct dims; discriminate. Qed.

Theorem set_ints_wf : forall p data dims q,
  set_ints p data dims = Ok q -> p_floats p = [] -> p_strs p = [] ->
  name_ok (p_name p) -> desc_ok (p_desc p) -> Forall int16 data ->
  (let d := dims_or_len dims (nlen data) in (length d <= 255)%nat /\ Forall byte_ok d /\ prodN d < 2147483648 /\ loop_cost d 1 <= LIMC) ->
  wf_param q.
Proof.
  intros p data dims q H Ef Es Hn Hd Hi Hdims. cbv zeta in Hdims. destruct Hdims as (L & Hb & Hp & Hc).
  unfold set_ints in H. destruct (dim_consistent (nlen data) (dims_or_len dims (nlen data))) eqn:C; [|discriminate].
  injection H as <-. unfold wf_param. cbn [p_name p_desc p_dims p_type p_ints p_floats p_strs].
  split; [exact Hn|]. split; [exact Hd|]. split.
  - unfold dims_ok. split; [apply dims_or_len_ne|]. auto.
  - unfold typed_ok. cbn [p_type p_ints p_dims p_floats p_strs]. split; [exact Hi|]. split; [|auto].
    apply shape_covers; [apply dims_or_len_ne|exact C|exact Hp].
Qed.

Theorem set_floats_wf : forall p data dims q,
  set_floats p data dims = Ok q -> p_ints p = [] -> p_strs p = [] ->
  name_ok (p_name p) -> desc_ok (p_desc p) -> Forall wf32 data ->
  (let d := dims_or_len dims (nlen data) in (length d <= 255)%nat /\ Forall byte_ok d /\ prodN d < 2147483648 /\ loop_cost d 1 <= LIMC) ->
  wf_param q.
Proof.
  intros p data dims q H Ei Es Hn Hd Hf Hdims. cbv zeta in Hdims. destruct Hdims as (L & Hb & Hp & Hc).
  unfold set_floats in H. destruct (dim_consistent (nlen data) (dims_or_len dims (nlen data))) eqn:C; [|discriminate].
  injection H as <-. unfold wf_param. cbn [p_name p_desc p_dims p_type p_ints p_floats p_strs].
  split; [exact Hn|]. split; [exact Hd|]. split.
  - unfold dims_ok. split; [apply dims_or_len_ne|]. auto.
  - unfold typed_ok. cbn [p_type p_ints p_dims p_floats p_strs]. split; [exact Hf|]. split; [|auto].
    apply shape_covers; [apply dims_or_len_ne|exact C|exact Hp].
Qed.

(* the new parameter of the API meets the side conditions on the stale vectors *)
Lemma new_param_clean : forall n d, p_ints (new_param n d) = [] /\ p_floats (new_param n d) = [] /\ p_strs (new_param n d) = [].
Proof. intros n d. repeat split. Qed.

Theorem set_strs_wf : forall p data dims q,
  set_strs p data dims = Ok q -> p_ints p = [] -> p_floats p = [] ->
  name_ok (p_name p) -> desc_ok (p_desc p) ->
  Forall (fun s => no_nul s /\ rtrim s = s) data ->
  (let d := maxlen data :: dims_or_len dims (nlen data) in
   (length d <= 255)%nat /\ Forall byte_ok d /\ prodN d < 2147483648 /\ loop_cost d 1 <= LIMC /\ prodN (dims_or_len dims (nlen data)) < 2147483648 /\
   loop_cost (dims_or_len dims (nlen data)) 1 <= LIMC) ->
  wf_param q.
Proof.
  intros p data dims q H Ei Ef Hn Hd Hs Hdims. cbv zeta in Hdims. destruct Hdims as (L & Hb & Hp & Hc & Hp2 & Hc2).
  unfold set_strs in H. destruct (dim_consistent (nlen data) (dims_or_len dims (nlen data))) eqn:C; [|discriminate].
  injection H as <-. unfold wf_param. cbn [p_name p_desc p_dims p_type p_ints p_floats p_strs].
  split; [exact Hn|]. split; [exact Hd|]. split.
  - unfold dims_ok. split; [discriminate|]. auto.
  - unfold typed_ok. cbn [p_type p_ints p_dims p_floats p_strs]. split; [exact Ei|]. split; [exact Ef|].
    destruct (dims_or_len dims (nlen data)) as [|d0 dt] eqn:D; [exfalso; eapply dims_or_len_ne; exact D|].
    split; [|split].
    + apply shape_covers; [discriminate|exact C|exact Hp2].
    + apply Forall_forall. intros s Hin. rewrite Forall_forall in Hs. destruct (Hs s Hin) as [A B].
      unfold str_ok. split; [|split; assumption]. apply (proj1 (maxlen_spec data)). exact Hin.
    + exact Hc2.
Qed.
