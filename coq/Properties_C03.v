(* Properties_C03.v — C03: saved files are valid, self-consistent C3D for any other reader.
   FULL STATEMENT (visible; not yet proved end to end): for every complete state within capacity,
     spec_decode (save s) = Some (content_of s)
   where spec_decode follows only the file's own pointers.  The independent decoder exists today as
   lib/c3dspec.py and is applied by the C03 check to every file the real library writes (all 512
   alignment residues included).  What IS proved here, for every object and every length of the
   record area: the layout facts that decoder relies on, and for every tree of well-formed groups and parameters the exact
   content of the whole file (C03_file_structure): header block, prologue, the records in order with upper-cased names,
   lock flags as negative name lengths, next-record offsets equal to the record lengths, POINT:DATA_START and the header
   word both naming the first data block, padding with the end marker, data.  That the loader of C01 reads it back is
   C01_load_save.  And ANOTHER READER, written from the format description and following only the file's own pointers
   (Spec_Structure.v: parameter block address, data-start word, block count, next-record offsets), finds exactly the
   records of the tree, the data-start block and the data (C03_other_reader).  That reader returns the bodies of the
   records as bytes; their interpretation (type, dimensions, values) is the record theorem of C01. *)
From EZ Require Import Base Bytes Types Api Enc Dec Proofs_Section Proofs_Codec Proofs_Record Proofs_Chain Proofs_ChainW Spec_Structure Proofs_Structure Float32 Run Properties_C01.
Local Open Scope N_scope.

(* padding: 1..512 zero bytes — there is always an end marker — ending on a block boundary, for every length *)
Theorem C03_padding : forall p, 1 <= 512 - p mod 512 <= 512 /\ (p + (512 - p mod 512)) mod 512 = 0.
Proof. exact (fun p => conj (pad_range p) (pad_aligns p)). Qed.
Print Assumptions C03_padding.

Theorem C03_end_marker : forall (recs : list N) (pad : nat), (0 < pad)%nat ->
  nth_error (recs ++ repeat 0 pad) (length recs) = Some 0.
Proof. exact section_end_marker. Qed.
Print Assumptions C03_end_marker.

(* the section is a whole number (>= 1) of blocks; blocks = header block + section blocks *)
Theorem C03_section_blocks : forall recs dsp sec blocks, finish_section recs dsp = (sec, blocks) ->
  nlen sec = 512 * (blocks - 1) /\ 2 <= blocks /\
  blocks = (512 + nlen recs + (512 - (512 + nlen recs) mod 512)) / 512.
Proof. exact finish_section_shape. Qed.
Print Assumptions C03_section_blocks.

(* the header is one block; byte 0 = parameter block 2, byte 1 = 0x50, word 9 = the data-start block *)
Theorem C03_header_block : forall h d, wf_header h -> length (header_bytes h d) = 512%nat.
Proof. exact header_bytes_length. Qed.
Print Assumptions C03_header_block.

Theorem C03_header_pointers : forall h d,
  nth_error (header_bytes h d) 0 = Some 2 /\ nth_error (header_bytes h d) 1 = Some 80 /\
  firstn 2 (skipn 16 (header_bytes h d)) = le_bytesN 2 d.
Proof. exact header_bytes_fixed. Qed.
Print Assumptions C03_header_pointers.

(* the file: [header block][section blocks][data]; the data begin exactly at block (blocks + 1), the value
   written in header word 9, and the file length is 512 x blocks + the data *)
Theorem C03_file_layout : forall s bytes, wf_header (hdr s) -> save s = Ok bytes ->
  exists sec blocks, section_bytes (pro s) (groups s) = Ok (sec, blocks) /\
    bytes = header_bytes (hdr s) (blocks + 1) ++ sec ++ data_section (frames s) /\
    length (header_bytes (hdr s) (blocks + 1)) = 512%nat /\
    nlen sec = 512 * (blocks - 1) /\
    nlen bytes = 512 * blocks + nlen (data_section (frames s)).
Proof. exact save_layout. Qed.
Print Assumptions C03_file_layout.

(* data section: 16 bytes per point and 4 per analog sample of every frame, nothing else *)
Theorem C03_frame_size : forall f,
  length (frame_bytes f) = (16 * length (fr_pts f) + 4 * length (concat (fr_subs f)))%nat.
Proof. exact frame_bytes_length. Qed.
Print Assumptions C03_frame_size.

(* known finding: the scale word of an object that was never loaded is FF FF FF FF, a NaN *)
(* THE WHOLE FILE, for a tree of well-formed groups and parameters: one header block whose data-start word is the
   1-based number of the first data block; the parameter section = prologue (its third byte the number of parameter blocks),
   then exactly the records of the tree in order — each one a name-length byte (negative: locked), the group id (negative:
   a group), the UPPER-CASED name, the offset to the next record, type, dimensions, values, description — with
   POINT:DATA_START holding that same block number, then 1..512 zero bytes (the first is the end marker); then the data. *)
Theorem C03_file_structure : forall s bytes, wf_header (hdr s) -> ok_tree (groups s) ->
  (nds (recs_of (groups s) 1) <= 1)%nat -> save s = Ok bytes ->
  exists sec blocks pad, section_bytes (pro s) (groups s) = Ok (sec, blocks) /\
    (blocks + 1 < 256 ->
     1 <= pad <= 512 /\
     bytes = header_bytes (hdr s) (blocks + 1)
             ++ ([low8 (Z.of_N (ps_start (pro s))); 80; low8 (Z.of_N (blocks - 1)); 84]
                 ++ concat (map item_bytes (items_v (groups s) 1 (blocks + 1))) ++ repeat 0 (N.to_nat pad))
             ++ data_section (frames s) /\
     length (header_bytes (hdr s) (blocks + 1)) = 512%nat /\
     nlen bytes = 512 * blocks + nlen (data_section (frames s))).
Proof.
  intros s bytes Wl Hok Hn Sv. destruct (save_layout s bytes Wl Sv) as [sec [blocks [Hs [Eb [Lh [Ls Lb]]]]]].
  destruct (N.ltb_spec (blocks + 1) 256) as [Hb|Hb].
  - destruct (section_canonical (pro s) (groups s) sec blocks Hok Hn Hs Hb) as [pad [Hp Es]].
    exists sec, blocks, pad. split; [exact Hs|]. intros _. split; [exact Hp|]. split; [rewrite <- Es; exact Eb|]. split; assumption.
  - exists sec, blocks, 1. split; [exact Hs|]. intros C. exfalso. apply (N.lt_irrefl 256). eapply N.le_lt_trans; eassumption.
Qed.
Print Assumptions C03_file_structure.

(* the pointer-following reader on the saved file *)
Theorem C03_other_reader : forall s bytes sec blocks,
  wf_header (hdr s) -> ok_tree (groups s) -> (nds (recs_of (groups s) 1) <= 1)%nat ->
  save s = Ok bytes -> section_bytes (pro s) (groups s) = Ok (sec, blocks) -> blocks + 1 < 256 ->
  Forall wf_item (items_v (groups s) 1 (blocks + 1)) ->
  spec_structure bytes = Some (map item_srec (items_v (groups s) 1 (blocks + 1)), blocks + 1, data_section (frames s)).
Proof. exact spec_structure_save. Qed.
Print Assumptions C03_other_reader.

(* non-vacuity: the new object meets the hypotheses; the conclusion follows from the theorem *)
Example C03_other_reader_nonvacuous : exists bytes, save init = Ok bytes /\
  spec_structure bytes = Some (map item_srec (items_v (groups init) 1 3), 3, []).
Proof.
  destruct C01_parameter_section_nonvacuous as (Hok & [sec Hs] & Hn & _ & Wf & _).
  assert (Sv : exists bytes, save init = Ok bytes) by (unfold save; rewrite Hs; eexists; reflexivity).
  destruct Sv as [bytes Sv]. exists bytes. split; [exact Sv|].
  apply (spec_structure_save init bytes sec 2); try assumption; try reflexivity.
  unfold wf_header. cbn. repeat split; reflexivity.
Qed.
Print Assumptions C03_other_reader_nonvacuous.

Example C03_scale_refuted : firstn 4 (skipn 12 (header_bytes init_header 3)) = [255; 255; 255; 255].
Proof. vm_compute. reflexivity. Qed.
Print Assumptions C03_scale_refuted.

(* non-vacuity: the initial object saves to 1024 bytes: one header block, one section block, no data *)
Example C03_nonvacuous : exists bytes, save_x init = Ok bytes /\ nlen bytes = 1024 /\
  nth_error bytes 16 = Some 3 /\ nth_error bytes 514 = Some 1.
Proof. eexists. split; [vm_compute; reflexivity|]. repeat split; vm_compute; reflexivity. Qed.
Print Assumptions C03_nonvacuous.
