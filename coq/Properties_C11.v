(* Properties_C11.v — C11: look-ups return the right element or throw the documented error.
   One statement per kind of access; the containers (frames, points, sub-frames, channels,
   groups, parameters, the three event arrays) are all lists accessed through at_ and the
   by-name searches through by_name (Proofs_Lookup shows each search is an instance). *)
From EZ Require Import Base Types Api Proofs_Lookup.
Local Open Scope N_scope.

(* access by position: exactly the element at that position ... *)
Theorem C11_at_returns : forall A (l : list A) i x,
  at_ l i = Ok x <-> (i < nlen l /\ nth_error l (N.to_nat i) = Some x).
Proof. exact at_ok. Qed.
Print Assumptions C11_at_returns.

(* ... and out_of_range for EVERY position at or beyond the size (size, size+1, 2^32, 2^64-1 are instances) *)
Theorem C11_at_out_of_range : forall A (l : list A) i, nlen l <= i -> at_ l i = Throw OutOfRange.
Proof. exact at_oob. Qed.
Print Assumptions C11_at_out_of_range.

Theorem C11_at_total : forall A (l : list A) i, (exists x, at_ l i = Ok x) \/ at_ l i = Throw OutOfRange.
Proof. exact at_total. Qed.
Print Assumptions C11_at_total.

(* access by name: the first element with exactly that name, consistent with the positional access *)
Theorem C11_by_name_returns : forall A (name_of : A -> bstr) l n i, by_name A name_of l n = Ok i ->
  exists x, at_ l i = Ok x /\ name_of x = n /\ forall j y, j < i -> at_ l j = Ok y -> name_of y <> n.
Proof. exact by_name_ok. Qed.
Print Assumptions C11_by_name_returns.

Theorem C11_by_name_invalid_argument : forall A (name_of : A -> bstr) l n,
  by_name A name_of l n = Throw InvalidArgument <-> (forall x, In x l -> name_of x <> n).
Proof. exact by_name_throw. Qed.
Print Assumptions C11_by_name_invalid_argument.

Theorem C11_by_name_total : forall A (name_of : A -> bstr) l n,
  (exists i, by_name A name_of l n = Ok i) \/ by_name A name_of l n = Throw InvalidArgument.
Proof. exact by_name_total. Qed.
Print Assumptions C11_by_name_total.

Theorem C11_searches_are_by_name :
  (forall pts n, point_idx pts n = by_name point pt_name pts n) /\
  (forall sf n, channel_idx sf n = by_name channel ch_name sf n) /\
  (forall gs n, group_idx gs n = by_name group g_name gs n) /\
  (forall g n, param_idx g n = by_name param p_name (g_params g) n).
Proof. exact (conj point_idx_is (conj channel_idx_is (conj group_idx_is param_idx_is))). Qed.
Print Assumptions C11_searches_are_by_name.

(* reading values as another type: invalid_argument, exactly then *)
Theorem C11_typed_getters : forall p,
  ((p_type p = TInt -> values_as_int p = Ok (p_ints p)) /\ (p_type p <> TInt -> values_as_int p = Throw InvalidArgument)) /\
  ((p_type p = TByte -> values_as_byte p = Ok (p_ints p)) /\ (p_type p <> TByte -> values_as_byte p = Throw InvalidArgument)) /\
  ((p_type p = TFloat -> values_as_float p = Ok (p_floats p)) /\ (p_type p <> TFloat -> values_as_float p = Throw InvalidArgument)) /\
  ((p_type p = TChar -> values_as_string p = Ok (p_strs p)) /\ (p_type p <> TChar -> values_as_string p = Throw InvalidArgument)).
Proof.
  exact (fun p => conj (values_as_int_spec p) (conj (values_as_byte_spec p) (conj (values_as_float_spec p) (values_as_string_spec p)))).
Qed.
Print Assumptions C11_typed_getters.

(* trailing spaces: removed, all of them and nothing else; the element is found under the trimmed name *)
Theorem C11_trim_exact : forall s, (exists k, s = rtrim s ++ repeat 32 k) /\ last (rtrim s) 0 <> 32.
Proof. exact (fun s => conj (rtrim_decomp s) (rtrim_last s)). Qed.
Print Assumptions C11_trim_exact.

Theorem C11_point_found_trimmed : forall n k x y z r,
  point_idx [lit_point (n ++ repeat 32 k) x y z r] (rtrim n) = Ok 0 /\
  pt_name (lit_point (n ++ repeat 32 k) x y z r) = rtrim n.
Proof. exact lit_point_found. Qed.
Print Assumptions C11_point_found_trimmed.

Theorem C11_channel_found_trimmed : forall n k v,
  channel_idx [lit_chan (n ++ repeat 32 k) v] (rtrim n) = Ok 0 /\
  ch_name (lit_chan (n ++ repeat 32 k) v) = rtrim n.
Proof. exact lit_chan_found. Qed.
Print Assumptions C11_channel_found_trimmed.
