(* Proofs_Guards.v — the guard phase of the mutators is a pure function of what the object
   holds (C07); a call refused by its guards leaves the object untouched (first half of C10). *)
From Coq Require Import Lia.
From EZ Require Import Base Types Api Proofs_Lookup Proofs_Monad Proofs_Param Proofs_Store.
Local Open Scope N_scope.

Lemma bind_lift : forall S A B (o : outcome A) (k : A -> M S B) s,
  bind (lift o) k s = match o with Ok a => k a s | Throw e => RThrow e s | UB t => RUB t end.
Proof. intros. unfold bind, lift. destruct o; reflexivity. Qed.

(* ---- pure readers of the parameter tree ---- *)
Definition r_int0 (site : nat) (gs : list group) (g n : bstr) : outcome Z :=
  obind (lookup gs g n) (fun p => obind (values_as_int p) (fun v => at_ v 0)).
Definition r_float0 (site : nat) (gs : list group) (g n : bstr) : outcome f32 :=
  obind (lookup gs g n) (fun p => obind (values_as_float p) (fun v => at_ v 0)).
Definition r_strs (gs : list group) (g n : bstr) : outcome (list bstr) :=
  obind (lookup gs g n) values_as_string.

Lemma get_param_pure : forall g n s, get_param g n s = lift (lookup (groups s) g n) s.
Proof.
  intros g n s. unfold get_param, get_group, lookup. cbv [bind getS].
  destruct (group_named (groups s) g); cbn; reflexivity.
Qed.
Ltac pure_tac :=
  cbv [bind lift obind ret throw getS];
  repeat match goal with
         | |- context [match ?o with Ok _ => _ | Throw _ => _ | UB _ => _ end] => destruct o
         end;
  try reflexivity.

Lemma int0_pure : forall k g n s, int0 k g n s = lift (r_int0 k (groups s) g n) s.
Proof.
  intros k g n s. unfold int0, r_int0. unfold bind at 1. rewrite get_param_pure.
  destruct (lookup (groups s) g n) as [p| |]; pure_tac.
Qed.
Lemma float0_pure : forall k g n s, float0 k g n s = lift (r_float0 k (groups s) g n) s.
Proof.
  intros k g n s. unfold float0, r_float0. unfold bind at 1. rewrite get_param_pure.
  destruct (lookup (groups s) g n) as [p| |]; pure_tac.
Qed.
Lemma strs_of_pure : forall g n s, strs_of g n s = lift (r_strs (groups s) g n) s.
Proof.
  intros g n s. unfold strs_of, r_strs. unfold bind at 1. rewrite get_param_pure.
  destruct (lookup (groups s) g n) as [p| |]; pure_tac.
Qed.

Section WithOps.
Variable f_key : f32 -> outcome Z.
Variable f_tosize : f32 -> outcome N.
Variable f_div : f32 -> f32 -> f32.
Variable f_is_zero : f32 -> bool.

(* ---- c3d::frame: the guard sequence as a pure function (code order) ---- *)
Definition frame_guard (gs : list group) (h : header) (f : frame) : outcome unit :=
  obind (r_int0 30 gs nm_POINT nm_USED) (fun u =>
  let npts := z_to_usize u in
  if negb (npts =? 0) && negb (nlen (fr_pts f) =? npts) then Throw RuntimeError else
  obind (r_strs gs nm_POINT nm_LABELS) (fun labels =>
  if negb (forallb (fun l => match point_idx (fr_pts f) l with Ok _ => true | _ => false end) labels) then Throw InvalidArgument else
  obind (if negb (nlen (fr_pts f) =? 0)
         then obind (r_float0 31 gs nm_POINT nm_RATE) (fun r => if f_is_zero r then Throw RuntimeError else Ok tt)
         else Ok tt) (fun _ =>
  obind (if negb (nlen (fr_subs f) =? 0)
         then obind (r_float0 32 gs nm_ANALOG nm_RATE) (fun r => if f_is_zero r then Throw RuntimeError else Ok tt)
         else Ok tt) (fun _ =>
  obind (r_int0 33 gs nm_ANALOG nm_USED) (fun au =>
  let nan := z_to_usize au in
  match fr_subs f with
  | sf0 :: _ => if negb ((nan =? 0) && (h_byframe h =? 0)) && negb (nlen sf0 =? nan) then Throw RuntimeError else Ok tt
  | [] => Ok tt
  end))))).

Definition store_and_update (f : frame) (idx : option N) : Mst unit :=
  bind getS (fun s => bind (lift (put empty_frame (frames s) f idx)) (fun fs =>
  bind (putS (set_frames s fs)) (fun _ => update_parameters f_key f_tosize f_div [] []))).

(* frame() = guards, then store, then the updaters; a refusal by a guard returns the state as it was *)
Lemma api_frame_factor : forall f idx s,
  api_frame f_key f_tosize f_div f_is_zero f idx s =
    match frame_guard (groups s) (hdr s) f with
    | Ok _ => store_and_update f idx s
    | Throw e => RThrow e s
    | UB t => RUB t
    end.
Proof.
  intros f idx s. unfold api_frame, frame_guard, store_and_update.
  unfold bind at 1. rewrite int0_pure.
  destruct (r_int0 30 (groups s) nm_POINT nm_USED) as [u| |]; cbn [lift obind]; try reflexivity.
  unfold bind at 1.
  destruct (negb (z_to_usize u =? 0) && negb (nlen (fr_pts f) =? z_to_usize u)); cbn [throw ret]; [reflexivity|].
  unfold bind at 1. rewrite strs_of_pure.
  destruct (r_strs (groups s) nm_POINT nm_LABELS) as [labels| |]; cbn [lift obind]; try reflexivity.
  unfold bind at 1.
  destruct (forallb _ labels); cbn [negb throw ret]; [|reflexivity].
  unfold bind at 1.
  destruct (negb (nlen (fr_pts f) =? 0)).
  - unfold bind at 1. rewrite float0_pure.
    destruct (r_float0 31 (groups s) nm_POINT nm_RATE) as [r| |]; cbn [lift obind]; try reflexivity.
    destruct (f_is_zero r); cbn [throw ret obind]; [reflexivity|].
    unfold bind at 1.
    destruct (negb (nlen (fr_subs f) =? 0)).
    + unfold bind at 1. rewrite float0_pure.
      destruct (r_float0 32 (groups s) nm_ANALOG nm_RATE) as [r2| |]; cbn [lift obind]; try reflexivity.
      destruct (f_is_zero r2); cbn [throw ret obind]; [reflexivity|].
      unfold bind at 1. rewrite int0_pure.
      destruct (r_int0 33 (groups s) nm_ANALOG nm_USED) as [au| |]; cbn [lift obind]; try reflexivity.
      unfold bind at 1. cbv [getS]. unfold bind at 1.
      destruct (fr_subs f) as [|sf0 t]; cbn [ret]; [reflexivity|].
      destruct (negb ((z_to_usize au =? 0) && (h_byframe (hdr s) =? 0)) && negb (nlen sf0 =? z_to_usize au)); reflexivity.
    + cbn [ret obind]. unfold bind at 1. rewrite int0_pure.
      destruct (r_int0 33 (groups s) nm_ANALOG nm_USED) as [au| |]; cbn [lift obind]; try reflexivity.
      unfold bind at 1. cbv [getS]. unfold bind at 1.
      destruct (fr_subs f) as [|sf0 t]; cbn [ret]; [reflexivity|].
      destruct (negb ((z_to_usize au =? 0) && (h_byframe (hdr s) =? 0)) && negb (nlen sf0 =? z_to_usize au)); reflexivity.
  - cbn [ret obind]. unfold bind at 1.
    destruct (negb (nlen (fr_subs f) =? 0)).
    + unfold bind at 1. rewrite float0_pure.
      destruct (r_float0 32 (groups s) nm_ANALOG nm_RATE) as [r2| |]; cbn [lift obind]; try reflexivity.
      destruct (f_is_zero r2); cbn [throw ret obind]; [reflexivity|].
      unfold bind at 1. rewrite int0_pure.
      destruct (r_int0 33 (groups s) nm_ANALOG nm_USED) as [au| |]; cbn [lift obind]; try reflexivity.
      unfold bind at 1. cbv [getS]. unfold bind at 1.
      destruct (fr_subs f) as [|sf0 t]; cbn [ret]; [reflexivity|].
      destruct (negb ((z_to_usize au =? 0) && (h_byframe (hdr s) =? 0)) && negb (nlen sf0 =? z_to_usize au)); reflexivity.
    + cbn [ret obind]. unfold bind at 1. rewrite int0_pure.
      destruct (r_int0 33 (groups s) nm_ANALOG nm_USED) as [au| |]; cbn [lift obind]; try reflexivity.
      unfold bind at 1. cbv [getS]. unfold bind at 1.
      destruct (fr_subs f) as [|sf0 t]; cbn [ret]; [reflexivity|].
      destruct (negb ((z_to_usize au =? 0) && (h_byframe (hdr s) =? 0)) && negb (nlen sf0 =? z_to_usize au)); reflexivity.
Qed.

(* ---- the documented guard of frame(), as a function of what the object declares ---- *)
Record fenv := mkEnv { e_used : N; e_labels : list bstr; e_prate : f32; e_arate : f32; e_aused : N; e_byframe : N }.

Definition read_env (gs : list group) (h : header) : outcome fenv :=
  obind (r_int0 30 gs nm_POINT nm_USED) (fun u =>
  obind (r_strs gs nm_POINT nm_LABELS) (fun labels =>
  obind (r_float0 31 gs nm_POINT nm_RATE) (fun pr =>
  obind (r_float0 32 gs nm_ANALOG nm_RATE) (fun ar =>
  obind (r_int0 33 gs nm_ANALOG nm_USED) (fun au =>
  Ok (mkEnv (z_to_usize u) labels pr ar (z_to_usize au) (h_byframe h))))))).

Definition has_point (f : frame) (l : bstr) : bool := existsb (fun p => bstr_eqb (pt_name p) l) (fr_pts f).
Definition label_missing (e : fenv) (f : frame) : bool := existsb (fun l => negb (has_point f l)) (e_labels e).

(* None = every documented precondition is met; Some e = refused with that class, in the documented order *)
Definition doc_frame (e : fenv) (f : frame) : option exn :=
  if negb (e_used e =? 0) && negb (nlen (fr_pts f) =? e_used e) then Some RuntimeError
  else if label_missing e f then Some InvalidArgument
  else if negb (nlen (fr_pts f) =? 0) && f_is_zero (e_prate e) then Some RuntimeError
  else if negb (nlen (fr_subs f) =? 0) && f_is_zero (e_arate e) then Some RuntimeError
  else match fr_subs f with
       | sf0 :: _ => if negb ((e_aused e =? 0) && (e_byframe e =? 0)) && negb (nlen sf0 =? e_aused e)
                     then Some RuntimeError else None
       | [] => None
       end.

Lemma point_idx_has : forall f l, (match point_idx (fr_pts f) l with Ok _ => true | _ => false end) = has_point f l.
Proof.
  intros f l. unfold point_idx, has_point. generalize 0. induction (fr_pts f) as [|p t IH]; intros k; cbn [find_idx existsb]; [reflexivity|].
  destruct (bstr_eqb (pt_name p) l); [reflexivity|]. cbn [orb]. apply IH.
Qed.

Lemma forallb_negb_existsb : forall A (q : A -> bool) l, negb (forallb q l) = existsb (fun x => negb (q x)) l.
Proof. induction l as [|a l IH]; cbn; [reflexivity|]. destruct (q a); cbn; auto. Qed.

Lemma frame_guard_doc : forall gs h f e, read_env gs h = Ok e ->
  frame_guard gs h f = match doc_frame e f with Some x => Throw x | None => Ok tt end.
Proof.
  intros gs h f e He. unfold read_env in He. unfold frame_guard.
  destruct (r_int0 30 gs nm_POINT nm_USED) as [u| |]; cbn [obind] in *; try discriminate.
  destruct (r_strs gs nm_POINT nm_LABELS) as [labels| |]; cbn [obind] in *; try discriminate.
  destruct (r_float0 31 gs nm_POINT nm_RATE) as [pr| |]; cbn [obind] in *; try discriminate.
  destruct (r_float0 32 gs nm_ANALOG nm_RATE) as [ar| |]; cbn [obind] in *; try discriminate.
  destruct (r_int0 33 gs nm_ANALOG nm_USED) as [au| |]; cbn [obind] in *; try discriminate.
  injection He as <-. unfold doc_frame, label_missing. cbn [e_used e_labels e_prate e_arate e_aused e_byframe].
  destruct (negb (z_to_usize u =? 0) && negb (nlen (fr_pts f) =? z_to_usize u)); [reflexivity|].
  rewrite forallb_negb_existsb.
  assert (X : existsb (fun x => negb match point_idx (fr_pts f) x with Ok _ => true | _ => false end) labels
            = existsb (fun l => negb (has_point f l)) labels).
  { induction labels as [|l t IH]; cbn [existsb]; [reflexivity|]. rewrite point_idx_has, IH. reflexivity. }
  rewrite X. destruct (existsb (fun l => negb (has_point f l)) labels); [reflexivity|].
  destruct (negb (nlen (fr_pts f) =? 0)); cbn [andb obind].
  - destruct (f_is_zero pr); cbn [obind]; [reflexivity|].
    destruct (negb (nlen (fr_subs f) =? 0)); cbn [andb obind].
    + destruct (f_is_zero ar); cbn [obind]; [reflexivity|].
      destruct (fr_subs f) as [|sf0 t]; [reflexivity|]. destruct (_ && _); reflexivity.
    + destruct (fr_subs f) as [|sf0 t]; [reflexivity|]. destruct (_ && _); reflexivity.
  - destruct (negb (nlen (fr_subs f) =? 0)); cbn [andb obind].
    + destruct (f_is_zero ar); cbn [obind]; [reflexivity|].
      destruct (fr_subs f) as [|sf0 t]; [reflexivity|]. destruct (_ && _); reflexivity.
    + destruct (fr_subs f) as [|sf0 t]; [reflexivity|]. destruct (_ && _); reflexivity.
Qed.

(* frame(): refused exactly as documented, and a refusal returns the object as it was *)
Lemma api_frame_doc : forall f idx s e, read_env (groups s) (hdr s) = Ok e ->
  api_frame f_key f_tosize f_div f_is_zero f idx s =
    match doc_frame e f with Some x => RThrow x s | None => store_and_update f idx s end.
Proof.
  intros f idx s e He. rewrite api_frame_factor, (frame_guard_doc _ _ f e He).
  destruct (doc_frame e f); reflexivity.
Qed.

(* a frame that matches what is declared passes every guard *)
Definition matches_decl (e : fenv) (f : frame) : Prop :=
  map pt_name (fr_pts f) = e_labels e /\ nlen (fr_pts f) = e_used e /\
  (fr_pts f <> [] -> f_is_zero (e_prate e) = false) /\
  (fr_subs f <> [] -> f_is_zero (e_arate e) = false) /\
  (forall sf, In sf (fr_subs f) -> nlen sf = e_aused e).

Lemma has_point_in_names : forall f l, In l (map pt_name (fr_pts f)) -> has_point f l = true.
Proof.
  intros f l H. unfold has_point. apply existsb_exists. apply in_map_iff in H. destruct H as [p [E Hp]].
  exists p. split; [exact Hp|]. apply bstr_eqb_eq. exact E.
Qed.

Lemma matching_frame_passes : forall e f, matches_decl e f -> doc_frame e f = None.
Proof.
  intros e f [Hn [Hu [Hp [Ha Hs]]]]. unfold doc_frame.
  rewrite Hu, N.eqb_refl. cbn [negb andb]. rewrite Bool.andb_false_r.
  assert (L : label_missing e f = false).
  { unfold label_missing. rewrite <- Hn. clear. generalize (has_point_in_names f).
    induction (map pt_name (fr_pts f)) as [|l t IH]; intros H; cbn [existsb]; [reflexivity|].
    rewrite H by (left; reflexivity). cbn. apply IH. intros x Hx. apply H. right. exact Hx. }
  rewrite L.
  assert (P : negb (e_used e =? 0) && f_is_zero (e_prate e) = false).
  { destruct (fr_pts f) as [|p t] eqn:E.
    - cbn in Hu. rewrite <- Hu. reflexivity.
    - rewrite Hp by discriminate. apply Bool.andb_false_r. }
  rewrite <- Hu in P. rewrite Hu in *. rewrite <- Hu. rewrite Hu. rewrite P.
  destruct (fr_subs f) as [|sf0 t] eqn:E.
  - cbn. reflexivity.
  - rewrite Ha by discriminate. rewrite Bool.andb_false_r.
    rewrite (Hs sf0) by (left; reflexivity). rewrite N.eqb_refl. cbn [negb]. rewrite Bool.andb_false_r. reflexivity.
Qed.

(* ---- point(frames): guards ---- *)
Definition known_name (labels : list bstr) (p : point) : bool := existsb (fun l => bstr_eqb (pt_name p) l) labels.

Definition doc_pointcol (nframes : N) (labels : list bstr) (news : list frame) : option exn :=
  if (nlen news =? 0) || negb (nlen news =? nframes) then Some InvalidArgument
  else match news with
       | n0 :: _ => if nlen (fr_pts n0) =? 0 then Some InvalidArgument
                    else if existsb (known_name labels) (fr_pts n0) then Some InvalidArgument else None
       | [] => Some InvalidArgument
       end.

Lemma all_have_point_ok : forall idx news nfr k,
  (forall n, In n news -> idx < nlen (fr_pts n)) -> (N.to_nat k + nfr <= length news)%nat ->
  all_have_point idx nfr k news = Ok tt.
Proof.
  intros idx news nfr. induction nfr as [|m IH]; intros k Hall Hk; cbn [all_have_point]; [reflexivity|].
  assert (Lk : k < nlen news) by (unfold nlen; lia).
  destruct (at_in _ news k Lk) as [fr Hfr]. apply at_ok in Hfr. destruct Hfr as [_ Hfr].
  unfold idx_. apply N.ltb_lt in Lk. rewrite Lk, Hfr. cbn [obind].
  assert (Li : idx < nlen (fr_pts fr)) by (apply Hall; eapply nth_error_In; exact Hfr).
  destruct (at_in _ (fr_pts fr) idx Li) as [p Hp]. rewrite Hp. cbn [obind].
  apply IH; [exact Hall|lia].
Qed.

Lemma validate_point_cols_uniform : forall k idx labels news n0 nfr,
  nth_error news 0 = Some n0 -> (nfr <= length news)%nat ->
  (forall n, In n news -> N.of_nat (N.to_nat idx + k) <= nlen (fr_pts n)) ->
  validate_point_cols k idx labels news nfr =
    if existsb (known_name labels) (firstn k (skipn (N.to_nat idx) (fr_pts n0))) then Throw InvalidArgument else Ok tt.
Proof.
  induction k as [|k IH]; intros idx labels news n0 nfr H0 Hn Hall; cbn [validate_point_cols]; [reflexivity|].
  assert (L0 : 0 < nlen news) by (destruct news; [discriminate|unfold nlen; cbn; lia]).
  unfold idx_ at 1. apply N.ltb_lt in L0. rewrite L0. cbn [N.to_nat]. rewrite H0. cbn [obind].
  assert (Li : idx < nlen (fr_pts n0)).
  { assert (I0 : In n0 news) by (eapply nth_error_In; exact H0). specialize (Hall n0 I0). lia. }
  destruct (at_in _ (fr_pts n0) idx Li) as [p Hp]. rewrite Hp. cbn [obind].
  rewrite (at_skipn _ _ _ _ Hp). cbn [firstn existsb].
  change (known_name labels p) with (existsb (fun l => bstr_eqb (pt_name p) l) labels).
  destruct (existsb (fun l => bstr_eqb (pt_name p) l) labels); cbn [orb]; [reflexivity|].
  rewrite all_have_point_ok; [|intros n Hin; specialize (Hall n Hin); lia|cbn; lia]. cbn [obind].
  rewrite (IH (idx + 1) labels news n0 nfr H0 Hn).
  - replace (N.to_nat (idx + 1)) with (N.to_nat idx + 1)%nat by lia. reflexivity.
  - intros n Hin. specialize (Hall n Hin). lia.
Qed.

Definition cols_and_update (news : list frame) (k : nat) : Mst unit :=
  bind (point_cols k 0 news) (fun _ => update_parameters f_key f_tosize f_div [] []).

(* point(frames): refused exactly as documented (frames count, nothing supplied, a name that exists),
   and the refusal returns the object as it was; k is the number of new columns *)
Lemma api_point_col_doc : forall news s labels,
  r_strs (groups s) nm_POINT nm_LABELS = Ok labels ->
  (forall n n0, nth_error news 0 = Some n0 -> In n news -> nlen (fr_pts n0) <= nlen (fr_pts n)) ->
  api_point_col f_key f_tosize f_div news s =
    match doc_pointcol (nlen (frames s)) labels news with
    | Some x => RThrow x s
    | None => cols_and_update news (match news with n0 :: _ => length (fr_pts n0) | [] => 0 end) s
    end.
Proof.
  intros news s labels Hl Hu. unfold api_point_col, doc_pointcol, cols_and_update.
  unfold bind at 1. cbv [getS]. unfold bind at 1.
  destruct ((nlen news =? 0) || negb (nlen news =? nlen (frames s))) eqn:C; cbn [throw ret]; [reflexivity|].
  apply Bool.orb_false_iff in C. destruct C as [C0 C1]. apply Bool.negb_false_iff in C1. apply N.eqb_eq in C1.
  destruct news as [|n0 nt]; [cbn in C0; discriminate|].
  unfold bind at 1. unfold idx_ at 1.
  assert (L0 : 0 <? nlen (n0 :: nt) = true) by (apply N.ltb_lt; unfold nlen; cbn [length]; lia).
  rewrite L0. cbn [N.to_nat nth_error lift].
  unfold bind at 1. destruct (nlen (fr_pts n0) =? 0) eqn:Z; cbn [throw ret]; [reflexivity|].
  unfold bind at 1. rewrite strs_of_pure, Hl. cbn [lift].
  unfold bind at 1.
  rewrite (validate_point_cols_uniform (length (fr_pts n0)) 0 labels (n0 :: nt) n0 (length (frames s))); [|reflexivity| |].
  - cbn [N.to_nat skipn]. rewrite firstn_all.
    destruct (existsb (known_name labels) (fr_pts n0)); cbn [lift]; reflexivity.
  - unfold nlen in C1. apply Nat2N.inj in C1. rewrite <- C1. cbn. lia.
  - intros n Hin. cbn [N.to_nat Nat.add]. specialize (Hu n n0 eq_refl Hin). unfold nlen in *. lia.
Qed.

End WithOps.
