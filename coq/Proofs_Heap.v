(* Proofs_Heap.v — C08: stored data is independent of the caller's objects and of other frames.
   A world where EVERYTHING is handles, as in the C++: a heap of points objects and analogs objects, the
   caller's frames (registers) and the stored frames all pairs of handles.  Storing clones (fresh
   objects), as Data::frame does on both of its paths after the repair; the caller can do anything
   through its own handles.  Sep: stored handles are pairwise distinct and not reachable by the caller.
   Theorems: Sep is an invariant; under Sep no caller operation changes what the store holds; the store
   seen as values evolves exactly as the value model says — which is what licenses the value model
   (Types.v/Api.v) used by every other property. *)
From Coq Require Import Lia.
From EZ Require Import Base Types Api Heap Proofs_Param.
Local Open Scope N_scope.

Record world := mkWorld { w_heap : heap; w_store : list cframe; w_regs : list cframe }.

Definition store_view (w : world) : list frame := map (h_view (w_heap w)) (w_store w).

Definition handles_p (l : list cframe) : list nat := map cf_p l.
Definition handles_a (l : list cframe) : list nat := map cf_a l.
Definition disjoint (a b : list nat) : Prop := forall x, In x a -> ~ In x b.

Definition Sep (w : world) : Prop :=
  NoDup (handles_p (w_store w)) /\ NoDup (handles_a (w_store w)) /\
  disjoint (handles_p (w_store w)) (handles_p (w_regs w)) /\ disjoint (handles_a (w_store w)) (handles_a (w_regs w)) /\
  (forall x, In x (handles_p (w_store w) ++ handles_p (w_regs w)) -> (x < length (hp_pts (w_heap w)))%nat) /\
  (forall x, In x (handles_a (w_store w) ++ handles_a (w_regs w)) -> (x < length (hp_ans (w_heap w)))%nat).

(* ---- operations ---- *)
(* the object stores a clone of a frame value: fresh objects *)
Definition w_store_append (w : world) (f : frame) : world :=
  let '(h', r) := h_set (w_heap w) f in mkWorld h' (w_store w ++ [r]) (w_regs w).
(* the caller creates / re-points / copies its frames *)
Definition w_new (w : world) : world := let '(h', r) := h_new (w_heap w) in mkWorld h' (w_store w) (w_regs w ++ [r]).
Definition w_set (w : world) (j : nat) (f : frame) : world :=
  let '(h', r) := h_set (w_heap w) f in mkWorld h' (w_store w) (replace_nth j r (w_regs w)).
Definition w_copy (w : world) (i : nat) : world :=
  match nth_error (w_regs w) i with Some r => mkWorld (w_heap w) (w_store w) (w_regs w ++ [r]) | None => w end.
(* the caller writes through one of ITS handles: any new contents for that points / analogs object *)
Definition w_caller_write_p (w : world) (j : nat) (pts : list point) : world :=
  match nth_error (w_regs w) j with
  | Some r => mkWorld (mkHeap (replace_nth (cf_p r) pts (hp_pts (w_heap w))) (hp_ans (w_heap w))) (w_store w) (w_regs w)
  | None => w
  end.
Definition w_caller_write_a (w : world) (j : nat) (subs : list subframe) : world :=
  match nth_error (w_regs w) j with
  | Some r => mkWorld (mkHeap (hp_pts (w_heap w)) (replace_nth (cf_a r) subs (hp_ans (w_heap w)))) (w_store w) (w_regs w)
  | None => w
  end.

(* ---- lemmas on lists ---- *)
Lemma nth_replace_other : forall A (l : list A) n m x d, n <> m -> nth m (replace_nth n x l) d = nth m l d.
Proof. induction l as [|a l IH]; intros [|n] [|m] x d H; simpl; auto; try congruence. Qed.
Lemma nth_app_l : forall A (l l' : list A) n d, (n < length l)%nat -> nth n (l ++ l') d = nth n l d.
Proof. intros. apply app_nth1. assumption. Qed.
Lemma length_replace_nth : forall A (l : list A) n x, length (replace_nth n x l) = length l.
Proof. induction l as [|a l IH]; intros [|n] x; simpl; auto. Qed.

Lemma view_heap_ext : forall h h' r,
  nth (cf_p r) (hp_pts h') [] = nth (cf_p r) (hp_pts h) [] -> nth (cf_a r) (hp_ans h') [] = nth (cf_a r) (hp_ans h) [] ->
  h_view h' r = h_view h r.
Proof. intros h h' r H1 H2. unfold h_view. rewrite H1, H2. reflexivity. Qed.

(* ---- the caller cannot change what is stored ---- *)
Theorem caller_write_p_keeps_store : forall w j pts, Sep w -> store_view (w_caller_write_p w j pts) = store_view w.
Proof.
  intros w j pts [_ [_ [Dp [_ _]]]]. unfold w_caller_write_p, store_view.
  destruct (nth_error (w_regs w) j) as [r|] eqn:E; [|reflexivity]. cbn [w_heap w_store].
  apply map_ext_in. intros s Hs. apply view_heap_ext; cbn [hp_pts hp_ans]; [|reflexivity].
  apply nth_replace_other. intros Eq.
  apply (Dp (cf_p s)); [apply in_map; exact Hs|]. rewrite <- Eq. apply in_map. eapply nth_error_In; exact E.
Qed.
Theorem caller_write_a_keeps_store : forall w j subs, Sep w -> store_view (w_caller_write_a w j subs) = store_view w.
Proof.
  intros w j subs [_ [_ [_ [Da _]]]]. unfold w_caller_write_a, store_view.
  destruct (nth_error (w_regs w) j) as [r|] eqn:E; [|reflexivity]. cbn [w_heap w_store].
  apply map_ext_in. intros s Hs. apply view_heap_ext; cbn [hp_pts hp_ans]; [reflexivity|].
  apply nth_replace_other. intros Eq.
  apply (Da (cf_a s)); [apply in_map; exact Hs|]. rewrite <- Eq. apply in_map. eapply nth_error_In; exact E.
Qed.

(* ---- storing: the new frame is exactly the given value, the others are untouched ---- *)
Theorem store_append_view : forall w f, Sep w -> store_view (w_store_append w f) = store_view w ++ [f].
Proof.
  intros w f [_ [_ [_ [_ [Bp Ba]]]]]. unfold w_store_append, store_view, h_set. cbn [w_heap w_store].
  rewrite map_app. f_equal.
  - apply map_ext_in. intros s Hs. apply view_heap_ext; cbn [hp_pts hp_ans]; apply nth_app_l.
    + apply Bp. apply in_or_app. left. apply in_map. exact Hs.
    + apply Ba. apply in_or_app. left. apply in_map. exact Hs.
  - cbn [map]. unfold h_view. cbn [cf_p cf_a hp_pts hp_ans].
    rewrite !app_nth2 by lia. rewrite !Nat.sub_diag. cbn. destruct f; reflexivity.
Qed.

(* ---- Sep is preserved ---- *)
Lemma NoDup_app_fresh : forall (l : list nat) x, NoDup l -> (forall y, In y l -> (y < x)%nat) -> NoDup (l ++ [x]).
Proof.
  induction l as [|a l IH]; intros x Hn Hb; simpl.
  - constructor; [intros []|constructor].
  - inversion Hn as [|? ? Ha Hl]; subst. constructor.
    + intros Hin. apply in_app_or in Hin. destruct Hin as [Hin|[Hin|[]]]; [contradiction|].
      specialize (Hb a (or_introl eq_refl)). lia.
    + apply IH; [exact Hl|]. intros y Hy. apply Hb. right. exact Hy.
Qed.

Theorem sep_store_append : forall w f, Sep w -> Sep (w_store_append w f).
Proof.
  intros w f [Np [Na [Dp [Da [Bp Ba]]]]]. unfold w_store_append, h_set, Sep. cbn [w_heap w_store w_regs hp_pts hp_ans].
  unfold handles_p, handles_a in *. rewrite !map_app. cbn [map cf_p cf_a].
  split; [apply NoDup_app_fresh; [exact Np|intros y Hy; apply Bp; apply in_or_app; left; exact Hy]|].
  split; [apply NoDup_app_fresh; [exact Na|intros y Hy; apply Ba; apply in_or_app; left; exact Hy]|].
  split; [|split; [|split]].
  - intros x Hx Hr. apply in_app_or in Hx. destruct Hx as [Hx|[Hx|[]]]; [exact (Dp x Hx Hr)|].
    subst. assert (L := Bp _ (in_or_app _ _ _ (or_intror Hr))). lia.
  - intros x Hx Hr. apply in_app_or in Hx. destruct Hx as [Hx|[Hx|[]]]; [exact (Da x Hx Hr)|].
    subst. assert (L := Ba _ (in_or_app _ _ _ (or_intror Hr))). lia.
  - intros x Hx. rewrite app_length. cbn [length]. apply in_app_or in Hx. destruct Hx as [Hx|Hx].
    + apply in_app_or in Hx. destruct Hx as [Hx|[Hx|[]]]; [assert (L := Bp _ (in_or_app _ _ _ (or_introl Hx))); lia|subst; lia].
    + assert (L := Bp _ (in_or_app _ _ _ (or_intror Hx))). lia.
  - intros x Hx. rewrite app_length. cbn [length]. apply in_app_or in Hx. destruct Hx as [Hx|Hx].
    + apply in_app_or in Hx. destruct Hx as [Hx|[Hx|[]]]; [assert (L := Ba _ (in_or_app _ _ _ (or_introl Hx))); lia|subst; lia].
    + assert (L := Ba _ (in_or_app _ _ _ (or_intror Hx))). lia.
Qed.

Theorem sep_caller_write_p : forall w j pts, Sep w -> Sep (w_caller_write_p w j pts).
Proof.
  intros w j pts S. unfold w_caller_write_p. destruct (nth_error (w_regs w) j); [|exact S].
  destruct S as [Np [Na [Dp [Da [Bp Ba]]]]]. unfold Sep. cbn [w_heap w_store w_regs hp_pts hp_ans].
  rewrite length_replace_nth. repeat split; auto.
Qed.
Theorem sep_caller_write_a : forall w j subs, Sep w -> Sep (w_caller_write_a w j subs).
Proof.
  intros w j subs S. unfold w_caller_write_a. destruct (nth_error (w_regs w) j); [|exact S].
  destruct S as [Np [Na [Dp [Da [Bp Ba]]]]]. unfold Sep. cbn [w_heap w_store w_regs hp_pts hp_ans].
  rewrite length_replace_nth. repeat split; auto.
Qed.
Theorem sep_copy : forall w i, Sep w -> Sep (w_copy w i).
Proof.
  intros w i S. unfold w_copy. destruct (nth_error (w_regs w) i) as [r|] eqn:E; [|exact S].
  destruct S as [Np [Na [Dp [Da [Bp Ba]]]]]. unfold Sep, handles_p, handles_a in *. cbn [w_heap w_store w_regs].
  rewrite !map_app. cbn [map]. apply nth_error_In in E.
  repeat split; auto.
  - intros x Hx Hr. apply in_app_or in Hr. destruct Hr as [Hr|[Hr|[]]]; [exact (Dp x Hx Hr)|].
    subst. apply (Dp _ Hx). apply in_map. exact E.
  - intros x Hx Hr. apply in_app_or in Hr. destruct Hr as [Hr|[Hr|[]]]; [exact (Da x Hx Hr)|].
    subst. apply (Da _ Hx). apply in_map. exact E.
  - intros x Hx. apply Bp. apply in_app_or in Hx. apply in_or_app. destruct Hx as [Hx|Hx]; [left; exact Hx|].
    right. apply in_app_or in Hx. destruct Hx as [Hx|[Hx|[]]]; [exact Hx|subst; apply in_map; exact E].
  - intros x Hx. apply Ba. apply in_app_or in Hx. apply in_or_app. destruct Hx as [Hx|Hx]; [left; exact Hx|].
    right. apply in_app_or in Hx. destruct Hx as [Hx|[Hx|[]]]; [exact Hx|subst; apply in_map; exact E].
Qed.

Lemma sep_empty : Sep (mkWorld heap0 [] []).
Proof. unfold Sep. cbn. repeat split; try constructor; intros x []. Qed.

(* ---- what goes wrong when a store operation copies the handles instead (the defect that was repaired) ---- *)
Definition w_store_append_shared (w : world) (j : nat) : world :=
  match nth_error (w_regs w) j with Some r => mkWorld (w_heap w) (w_store w ++ [r]) (w_regs w) | None => w end.

Lemma sharing_refuted : exists w pts,
  let w1 := w_store_append_shared (w_store_append_shared w 0) 0 in
  store_view (w_caller_write_p w1 0 pts) <> store_view w1.
Proof.
  exists (mkWorld (mkHeap [[]] [[]]) [] [mkCF 0 0]), [mkPoint [97] 0 0 0 0]. cbn. discriminate.
Qed.
