(* Proofs_IO.v — a save that did not reach the disk is reported (C15). *)
From Coq Require Import Lia.
From EZ Require Import Base Types Enc IO.
Local Open Scope N_scope.

(* returning normally means the complete content is on the disk, whatever the environment *)
Lemma save_io_normal_complete : forall bytes open_ok limit disk,
  save_io bytes open_ok limit = Normal disk -> disk = bytes /\ open_ok = true /\
  (forall k, limit = Some k -> nlen bytes <= k).
Proof.
  intros bytes open_ok limit disk H. unfold save_io in H.
  destruct open_ok; cbn [negb] in H; [|discriminate].
  destruct limit as [k|].
  - destruct (nlen bytes <=? k) eqn:L; [|discriminate]. injection H as <-. apply N.leb_le in L.
    repeat split; auto. intros k0 E. injection E as <-. exact L.
  - injection H as <-. repeat split; auto. intros k E. discriminate.
Qed.

(* an unopenable destination, or a limit hit at ANY byte offset of the output, is a failure *)
Lemma save_io_fault_reported : forall bytes open_ok limit,
  (open_ok = false \/ exists k, limit = Some k /\ k < nlen bytes) ->
  exists disk, save_io bytes open_ok limit = IoFailure disk /\ nlen disk < nlen bytes + 1.
Proof.
  intros bytes open_ok limit [H|[k [-> H]]]; unfold save_io.
  - subst. exists []. split; [reflexivity|]. unfold nlen. simpl. lia.
  - destruct open_ok; cbn [negb]; [|exists []; split; [reflexivity|unfold nlen; simpl; lia]].
    destruct (nlen bytes <=? k) eqn:L; [apply N.leb_le in L; lia|].
    exists (firstn (N.to_nat k) bytes). split; [reflexivity|]. unfold nlen. rewrite firstn_length. lia.
Qed.
