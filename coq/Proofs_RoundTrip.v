(* Proofs_RoundTrip.v — C01: load (save s) for a well-formed object: the four stages (header, parameter section,
   header update, data section) composed. *)
From Coq Require Import Lia ZifyNat ZifyN ZifyBool.
From EZ Require Import Base Bytes Types Api Enc Dec Proofs_Bytes Proofs_Lookup Proofs_Param Proofs_Codec Proofs_Section
  Proofs_Record Proofs_Chain Proofs_ChainW Proofs_HeaderCodec.
Local Open Scope N_scope.

Lemma last_split : forall A (l : list A), l <> [] -> exists l0 x, l = l0 ++ [x].
Proof. intros A l H. destruct (exists_last H) as [l0 [x E]]. eauto. Qed.

(* Data::Data(file) on the data section c3d::write emitted after header and parameter blocks *)
Theorem read_data_written : forall h pr gs st hb sec fs pn an,
  h_paddr h = 2 -> h_zeros h = 0 -> st_fail st = false ->
  st_file st = hb ++ sec ++ data_section fs -> length hb = 512%nat ->
  nlen sec = 512 * ps_blocks pr -> 1 <= ps_blocks pr < 256 ->
  h_nb_frames h = nlen fs -> nlen fs <= max_frames_vec ->
  nlen fs * (1 + 4 * h_points h + h_byframe h * (1 + h_nb_analogs h)) <= 1048576 ->
  (if 0 <? h_points h then obind (group_named gs nm_POINT) (fun g => obind (param_named g nm_LABELS) values_as_string) = Ok pn else pn = []) ->
  (if 0 <? h_nb_analogs h then obind (group_named gs nm_ANALOG) (fun g => obind (param_named g nm_LABELS) values_as_string) = Ok an else an = []) ->
  (fs <> [] -> (h_scale h < 0)%Z) ->
  Forall (uniform (N.to_nat (h_points h)) (N.to_nat (h_byframe h)) (N.to_nat (h_nb_analogs h))) fs ->
  exists st', read_data h pr gs st = Ok (map (rename_frame pn an) fs, st').
Proof.
  intros h pr gs st hb sec fs pn an Hp Hz Hf Hfile Lh Ls Hb Hn Hmax Hcost Hpn Han Hsc Hu.
  unfold read_data. rewrite Hp, Hz.
  assert (Esk : wrap32s (Z.of_N (wrap64 (512 * sub64 2 1 + 0 + 512 * ps_blocks pr)) - 1) = (Z.of_N (512 + 512 * ps_blocks pr) - 1)%Z).
  { change (sub64 2 1) with 1. unfold wrap64, two64. rewrite N.mod_small by lia. rewrite wrap32s_id by lia. lia. }
  rewrite Esk. unfold rbind at 1. unfold rd_seek, seek. rewrite Hf.
  assert (E0 : (Z.of_N (512 + 512 * ps_blocks pr) - 1 <? 0)%Z = false) by (apply Z.ltb_ge; lia). rewrite E0.
  assert (Ne : sec <> []) by (intros E; rewrite E in Ls; unfold nlen in Ls; cbn [length N.of_nat] in Ls; lia).
  destruct (last_split _ sec Ne) as [sec0 [x Esec]].
  set (k := Z.to_nat (Z.of_N (512 + 512 * ps_blocks pr) - 1)).
  assert (Lk : length (hb ++ sec0) = k).
  { rewrite app_length, Lh. rewrite Esec in Ls. unfold nlen in Ls. rewrite app_length in Ls. cbn [length] in Ls. unfold k. lia. }
  assert (Sk : skipn k (st_file st) = x :: data_section fs).
  { rewrite Hfile, Esec. rewrite <- app_assoc. rewrite app_assoc. rewrite <- app_assoc. cbn [app].
    replace (hb ++ sec0 ++ x :: data_section fs) with ((hb ++ sec0) ++ x :: data_section fs) by (rewrite <- app_assoc; reflexivity).
    apply skipn_app_len. exact Lk. }
  fold k. rewrite Sk.
  set (st1 := mkStream (st_file st) (Z.to_N (Z.of_N (512 + 512 * ps_blocks pr) - 1)) (x :: data_section fs) false).
  unfold rbind at 1. rewrite (reads_int1 x st1 (data_section fs) eq_refl eq_refl).
  rewrite Hn. assert (Em : (max_frames_vec <? nlen fs) = false) by lia. rewrite Em.
  unfold rbind at 1. rewrite blowup_ok by (unfold LIMC; exact Hcost).
  unfold rbind at 1.
  assert (Rp : (if 0 <? h_points h
                then rlift (obind (group_named gs nm_POINT) (fun g => obind (param_named g nm_LABELS) values_as_string))
                else rret []) (adv st1 (length [x]) (data_section fs)) = Ok (pn, adv st1 (length [x]) (data_section fs))).
  { destruct (0 <? h_points h); [rewrite Hpn; reflexivity|rewrite Hpn; reflexivity]. }
  rewrite Rp. unfold rbind at 1.
  assert (Ra : (if 0 <? h_nb_analogs h
                then rlift (obind (group_named gs nm_ANALOG) (fun g => obind (param_named g nm_LABELS) values_as_string))
                else rret []) (adv st1 (length [x]) (data_section fs)) = Ok (an, adv st1 (length [x]) (data_section fs))).
  { destruct (0 <? h_nb_analogs h); [rewrite Han; reflexivity|rewrite Han; reflexivity]. }
  rewrite Ra.
  destruct (nlen fs =? 0) eqn:E.
  - apply N.eqb_eq in E. apply nlen_0_nil in E. subst fs. eexists. reflexivity.
  - assert (Nf : fs <> []) by (intros ->; cbn in E; discriminate). specialize (Hsc Nf).
    assert (Es : (0 <=? h_scale h)%Z = false) by lia. rewrite Es.
    unfold nlen. rewrite Nat2N.id.
    pose proof (data_section_roundtrip fs _ _ _ pn an (adv st1 (length [x]) (data_section fs)) [] Hu (adv_fail _ _ _)) as R.
    rewrite app_nil_r in R. specialize (R (adv_rest _ _ _)). unfold frame_reader in R. rewrite R. eexists. reflexivity.
Qed.

Section WithOps.
Variable f_key : f32 -> outcome Z.
Variable f_tosize : f32 -> outcome N.
Variable f_div : f32 -> f32 -> f32.

(* what load returns on the file save wrote: the header with the data-start word, the canonical prologue, the tree
   with upper-cased names and POINT:DATA_START = first data block, and the frames with names bound from the labels *)
Definition reloaded (s : state) (blocks : N) (pn an : list bstr) : state :=
  mkState (with_dstart (hdr s) (blocks + 1)) (mkPro 1 80 (blocks - 1) 84)
          (map (canon_g (blocks + 1)) (groups s)) (map (rename_frame pn an) (frames s)).

Theorem load_save : forall s bytes sec blocks pn an,
  save s = Ok bytes -> section_bytes (pro s) (groups s) = Ok (sec, blocks) ->
  (* header *)
  wf_hdr (hdr s) -> wf_header (hdr s) ->
  (* parameter tree *)
  ok_tree (groups s) -> (nds (recs_of (groups s) 1) <= 1)%nat ->
  (forall g, In g (groups s) -> is_placeholder g = false /\ group_ok g) ->
  blocks + 1 < 256 -> ps_start (pro s) = 1 ->
  Forall wf_item (items_v (groups s) 1 (blocks + 1)) ->
  (* the header already agrees with the parameters: updateHeader is a no-op on the reloaded object *)
  (let s1 := mkState (with_dstart (hdr s) (blocks + 1)) (mkPro 1 80 (blocks - 1) 84) (map (canon_g (blocks + 1)) (groups s)) [] in
   update_header f_key f_tosize f_div false s1 = ROk tt s1) ->
  (* data *)
  (let h := with_dstart (hdr s) (blocks + 1) in let gs := map (canon_g (blocks + 1)) (groups s) in
   h_nb_frames h = nlen (frames s) /\ nlen (frames s) <= max_frames_vec /\
   nlen (frames s) * (1 + 4 * h_points h + h_byframe h * (1 + h_nb_analogs h)) <= 1048576 /\
   (if 0 <? h_points h then obind (group_named gs nm_POINT) (fun g => obind (param_named g nm_LABELS) values_as_string) = Ok pn else pn = []) /\
   (if 0 <? h_nb_analogs h then obind (group_named gs nm_ANALOG) (fun g => obind (param_named g nm_LABELS) values_as_string) = Ok an else an = []) /\
   (frames s <> [] -> (h_scale h < 0)%Z) /\
   Forall (uniform (N.to_nat (h_points h)) (N.to_nat (h_byframe h)) (N.to_nat (h_nb_analogs h))) (frames s)) ->
  load f_key f_tosize f_div bytes = Ok (reloaded s blocks pn an).
Proof.
  intros s bytes sec blocks pn an Hsave Hsec Wh Wl Hok Hn Hg Hb Hst Wf Huh Hd.
  assert (Eb : bytes = header_bytes (hdr s) (blocks + 1) ++ sec ++ data_section (frames s)).
  { unfold save in Hsave. rewrite Hsec in Hsave. cbn [obind] in Hsave. congruence. }
  assert (Sh : nlen sec = 512 * (blocks - 1) /\ 2 <= blocks).
  { unfold section_bytes in Hsec. destruct (groups_records (groups s) 1 512 _ None) as [[recs dsp]| |]; cbn [obind] in Hsec; try discriminate.
    assert (F : finish_section recs dsp = (sec, blocks)) by congruence. destruct (finish_section_shape _ _ _ _ F) as [A [B _]]. auto. }
  destruct Sh as [Ls B2].
  set (h1 := with_dstart (hdr s) (blocks + 1)) in *.
  set (gs1 := map (canon_g (blocks + 1)) (groups s)) in *.
  set (pr1 := mkPro 1 80 (blocks - 1) 84) in *.
  assert (Lh : length (header_bytes (hdr s) (blocks + 1)) = 512%nat) by (apply header_bytes_length; exact Wl).
  unfold load.
  assert (Ud : u16 (blocks + 1)) by (unfold u16; lia).
  rewrite (read_header_written (hdr s) (blocks + 1) (open_stream bytes) (sec ++ data_section (frames s)) Wh Wl Ud eq_refl Eb).
  fold h1. cbn [open_stream st_file].
  set (st1 := mkStream bytes 512 (sec ++ data_section (frames s)) false).
  assert (Hp1 : h_paddr h1 = 2) by (destruct Wh as (_ & P & _); exact P).
  assert (Hz1 : h_zeros h1 = 0) by (destruct Wh as (Z0 & _); exact Z0).
  destruct (read_parameters_written h1 (pro s) (groups s) sec blocks _ (data_section (frames s)) st1 Hok Hn Hg Hsec Hb Hst Wf Hp1 Hz1 Lh eq_refl Eb)
    as [st2 [R2 [F2 Fl2]]].
  rewrite R2. fold gs1 pr1. cbv zeta in Huh. rewrite Huh. cbn [hdr].
  cbv zeta in Hd. destruct Hd as (D1 & D2 & D3 & D4 & D5 & D6 & D7).
  assert (A1 : st_file st2 = header_bytes (hdr s) (blocks + 1) ++ sec ++ data_section (frames s)) by (rewrite Fl2; exact Eb).
  assert (A2 : nlen sec = 512 * ps_blocks pr1) by (unfold pr1; cbn [ps_blocks]; exact Ls).
  assert (A3 : 1 <= ps_blocks pr1 < 256) by (unfold pr1; cbn [ps_blocks]; lia).
  destruct (read_data_written h1 pr1 gs1 st2 (header_bytes (hdr s) (blocks + 1)) sec (frames s) pn an Hp1 Hz1 F2 A1 Lh A2 A3 D1 D2 D3 D4 D5 D6 D7) as [st3 R3].
  rewrite R3. reflexivity.
Qed.
End WithOps.
