(* Proofs_RoundTrip.v — C01: load (save s) for a well-formed object: the four stages (header, parameter section,
   header update, data section) composed. *)
From Coq Require Import Lia ZifyNat ZifyN ZifyBool.
From EZ Require Import Base Bytes Types Api Enc Dec Proofs_Bytes Proofs_Lookup Proofs_Param Proofs_Codec Proofs_Section
  Proofs_Record Proofs_Chain Proofs_ChainW Proofs_HeaderCodec Proofs_Guards.
Local Open Scope N_scope.

Lemma last_split : forall A (l : list A), l <> [] -> exists l0 x, l = l0 ++ [x].
Proof. intros A l H. destruct (exists_last H) as [l0 [x E]]. eauto. Qed.

(* Data::Data(file) on the data section c3d::write emitted after header and parameter blocks *)
Theorem read_data_written : forall h pr gs st hb sec fs pn an,
  h_paddr h = 2 -> h_zeros h = 0 -> st_fail st = false ->
  st_file st = hb ++ sec ++ data_section fs -> length hb = 512%nat ->
  nlen sec = 512 * ps_blocks pr -> 1 <= ps_blocks pr < 256 ->
  h_nb_frames h = nlen fs -> nlen fs <= max_frames_vec ->
  nlen fs * (1 + 4 * h_points h + h_byframe h * (1 + h_nb_analogs h)) <= 1048576 ->
  (if 0 <? h_points h then obind (group_named gs nm_POINT) (fun g => obind (param_named g nm_LABELS) values_as_string) = Ok pn else pn = []) ->
  (if 0 <? h_nb_analogs h then obind (group_named gs nm_ANALOG) (fun g => obind (param_named g nm_LABELS) values_as_string) = Ok an else an = []) ->
  (fs <> [] -> (h_scale h < 0)%Z) ->
  Forall (uniform (N.to_nat (h_points h)) (N.to_nat (h_byframe h)) (N.to_nat (h_nb_analogs h))) fs ->
  exists st', read_data h pr gs st = Ok (map (rename_frame pn an) fs, st').
Proof.
  intros h pr gs st hb sec fs pn an Hp Hz Hf Hfile Lh Ls Hb Hn Hmax Hcost Hpn Han Hsc Hu.
  unfold read_data. rewrite Hp, Hz.
  assert (Esk : wrap32s (Z.of_N (wrap64 (512 * sub64 2 1 + 0 + 512 * ps_blocks pr)) - 1) = (Z.of_N (512 + 512 * ps_blocks pr) - 1)%Z).
  { change (sub64 2 1) with 1. unfold wrap64, two64. rewrite N.mod_small by lia. rewrite wrap32s_id by lia. lia. }
  rewrite Esk. unfold rbind at 1. unfold rd_seek, seek. rewrite Hf.
  assert (E0 : (Z.of_N (512 + 512 * ps_blocks pr) - 1 <? 0)%Z = false) by (apply Z.ltb_ge; lia). rewrite E0.
  assert (Ne : sec <> []) by (intros E; rewrite E in Ls; unfold nlen in Ls; cbn [length N.of_nat] in Ls; lia).
  destruct (last_split _ sec Ne) as [sec0 [x Esec]].
  set (k := Z.to_nat (Z.of_N (512 + 512 * ps_blocks pr) - 1)).
  assert (Lk : length (hb ++ sec0) = k).
  { rewrite app_length, Lh. rewrite Esec in Ls. unfold nlen in Ls. rewrite app_length in Ls. cbn [length] in Ls. unfold k. lia. }
  assert (Sk : skipn k (st_file st) = x :: data_section fs).
  { rewrite Hfile, Esec. rewrite <- app_assoc. rewrite app_assoc. rewrite <- app_assoc. cbn [app].
    replace (hb ++ sec0 ++ x :: data_section fs) with ((hb ++ sec0) ++ x :: data_section fs) by (rewrite <- app_assoc; reflexivity).
    apply skipn_app_len. exact Lk. }
  fold k. rewrite Sk.
  set (st1 := mkStream (st_file st) (Z.to_N (Z.of_N (512 + 512 * ps_blocks pr) - 1)) (x :: data_section fs) false).
  unfold rbind at 1. rewrite (reads_int1 x st1 (data_section fs) eq_refl eq_refl).
  rewrite Hn. assert (Em : (max_frames_vec <? nlen fs) = false) by lia. rewrite Em.
  unfold rbind at 1. rewrite blowup_ok by (unfold LIMC; exact Hcost).
  unfold rbind at 1.
  assert (Rp : (if 0 <? h_points h
                then rlift (obind (group_named gs nm_POINT) (fun g => obind (param_named g nm_LABELS) values_as_string))
                else rret []) (adv st1 (length [x]) (data_section fs)) = Ok (pn, adv st1 (length [x]) (data_section fs))).
  { destruct (0 <? h_points h); [rewrite Hpn; reflexivity|rewrite Hpn; reflexivity]. }
  rewrite Rp. unfold rbind at 1.
  assert (Ra : (if 0 <? h_nb_analogs h
                then rlift (obind (group_named gs nm_ANALOG) (fun g => obind (param_named g nm_LABELS) values_as_string))
                else rret []) (adv st1 (length [x]) (data_section fs)) = Ok (an, adv st1 (length [x]) (data_section fs))).
  { destruct (0 <? h_nb_analogs h); [rewrite Han; reflexivity|rewrite Han; reflexivity]. }
  rewrite Ra.
  destruct (nlen fs =? 0) eqn:E.
  - apply N.eqb_eq in E. apply nlen_0_nil in E. subst fs. eexists. reflexivity.
  - assert (Nf : fs <> []) by (intros ->; cbn in E; discriminate). specialize (Hsc Nf).
    assert (Es : (0 <=? h_scale h)%Z = false) by lia. rewrite Es.
    unfold nlen. rewrite Nat2N.id.
    pose proof (data_section_roundtrip fs _ _ _ pn an (adv st1 (length [x]) (data_section fs)) [] Hu (adv_fail _ _ _)) as R.
    rewrite app_nil_r in R. specialize (R (adv_rest _ _ _)). unfold frame_reader in R. rewrite R. eexists. reflexivity.
Qed.

Section WithOps.
Variable f_key : f32 -> outcome Z.
Variable f_tosize : f32 -> outcome N.
Variable f_div : f32 -> f32 -> f32.

(* what load returns on the file save wrote: the header with the data-start word, the canonical prologue, the tree
   with upper-cased names and POINT:DATA_START = first data block, and the frames with names bound from the labels *)
Definition reloaded (s : state) (blocks : N) (pn an : list bstr) : state :=
  mkState (with_dstart (hdr s) (blocks + 1)) (mkPro 1 80 (blocks - 1) 84)
          (map (canon_g (blocks + 1)) (groups s)) (map (rename_frame pn an) (frames s)).

Theorem load_save_gen : forall s bytes sec blocks pn an,
  save s = Ok bytes -> section_bytes (pro s) (groups s) = Ok (sec, blocks) ->
  (* header *)
  wf_hdr (hdr s) -> wf_header (hdr s) ->
  (* parameter tree *)
  ok_tree (groups s) -> (nds (recs_of (groups s) 1) <= 1)%nat ->
  apply_items (items_v (groups s) 1 (blocks + 1)) [] = Ok (map (canon_g (blocks + 1)) (groups s)) ->
  blocks + 1 < 256 -> ps_start (pro s) = 1 ->
  Forall wf_item (items_v (groups s) 1 (blocks + 1)) ->
  (* the header already agrees with the parameters: updateHeader is a no-op on the reloaded object *)
  (let s1 := mkState (with_dstart (hdr s) (blocks + 1)) (mkPro 1 80 (blocks - 1) 84) (map (canon_g (blocks + 1)) (groups s)) [] in
   update_header f_key f_tosize f_div false s1 = ROk tt s1) ->
  (* data *)
  (let h := with_dstart (hdr s) (blocks + 1) in let gs := map (canon_g (blocks + 1)) (groups s) in
   h_nb_frames h = nlen (frames s) /\ nlen (frames s) <= max_frames_vec /\
   nlen (frames s) * (1 + 4 * h_points h + h_byframe h * (1 + h_nb_analogs h)) <= 1048576 /\
   (if 0 <? h_points h then obind (group_named gs nm_POINT) (fun g => obind (param_named g nm_LABELS) values_as_string) = Ok pn else pn = []) /\
   (if 0 <? h_nb_analogs h then obind (group_named gs nm_ANALOG) (fun g => obind (param_named g nm_LABELS) values_as_string) = Ok an else an = []) /\
   (frames s <> [] -> (h_scale h < 0)%Z) /\
   Forall (uniform (N.to_nat (h_points h)) (N.to_nat (h_byframe h)) (N.to_nat (h_nb_analogs h))) (frames s)) ->
  load f_key f_tosize f_div bytes = Ok (reloaded s blocks pn an).
Proof.
  intros s bytes sec blocks pn an Hsave Hsec Wh Wl Hok Hn Hg Hb Hst Wf Huh Hd.
  assert (Eb : bytes = header_bytes (hdr s) (blocks + 1) ++ sec ++ data_section (frames s)).
  { unfold save in Hsave. rewrite Hsec in Hsave. cbn [obind] in Hsave. congruence. }
  assert (Sh : nlen sec = 512 * (blocks - 1) /\ 2 <= blocks).
  { unfold section_bytes in Hsec. destruct (groups_records (groups s) 1 512 _ None) as [[recs dsp]| |]; cbn [obind] in Hsec; try discriminate.
    assert (F : finish_section recs dsp = (sec, blocks)) by congruence. destruct (finish_section_shape _ _ _ _ F) as [A [B _]]. auto. }
  destruct Sh as [Ls B2].
  set (h1 := with_dstart (hdr s) (blocks + 1)) in *.
  set (gs1 := map (canon_g (blocks + 1)) (groups s)) in *.
  set (pr1 := mkPro 1 80 (blocks - 1) 84) in *.
  assert (Lh : length (header_bytes (hdr s) (blocks + 1)) = 512%nat) by (apply header_bytes_length; exact Wl).
  unfold load.
  assert (Ud : u16 (blocks + 1)) by (unfold u16; lia).
  rewrite (read_header_written (hdr s) (blocks + 1) (open_stream bytes) (sec ++ data_section (frames s)) Wh Wl Ud eq_refl Eb).
  fold h1. cbn [open_stream st_file].
  set (st1 := mkStream bytes 512 (sec ++ data_section (frames s)) false).
  assert (Hp1 : h_paddr h1 = 2) by (destruct Wh as (_ & P & _); exact P).
  assert (Hz1 : h_zeros h1 = 0) by (destruct Wh as (Z0 & _); exact Z0).
  destruct (read_parameters_written_gen h1 (pro s) (groups s) sec blocks _ (data_section (frames s)) st1 Hok Hn Hg Hsec Hb Hst Wf Hp1 Hz1 Lh eq_refl Eb)
    as [st2 [R2 [F2 Fl2]]].
  rewrite R2. fold gs1 pr1. cbv zeta in Huh. rewrite Huh. cbn [hdr].
  cbv zeta in Hd. destruct Hd as (D1 & D2 & D3 & D4 & D5 & D6 & D7).
  assert (A1 : st_file st2 = header_bytes (hdr s) (blocks + 1) ++ sec ++ data_section (frames s)) by (rewrite Fl2; exact Eb).
  assert (A2 : nlen sec = 512 * ps_blocks pr1) by (unfold pr1; cbn [ps_blocks]; exact Ls).
  assert (A3 : 1 <= ps_blocks pr1 < 256) by (unfold pr1; cbn [ps_blocks]; lia).
  destruct (read_data_written h1 pr1 gs1 st2 (header_bytes (hdr s) (blocks + 1)) sec (frames s) pn an Hp1 Hz1 F2 A1 Lh A2 A3 D1 D2 D3 D4 D5 D6 D7) as [st3 R3].
  rewrite R3. reflexivity.
Qed.

Theorem load_save : forall s bytes sec blocks pn an,
  save s = Ok bytes -> section_bytes (pro s) (groups s) = Ok (sec, blocks) ->
  wf_hdr (hdr s) -> wf_header (hdr s) ->
  ok_tree (groups s) -> (nds (recs_of (groups s) 1) <= 1)%nat ->
  (forall g, In g (groups s) -> is_placeholder g = false /\ group_ok g) ->
  blocks + 1 < 256 -> ps_start (pro s) = 1 ->
  Forall wf_item (items_v (groups s) 1 (blocks + 1)) ->
  (let s1 := mkState (with_dstart (hdr s) (blocks + 1)) (mkPro 1 80 (blocks - 1) 84) (map (canon_g (blocks + 1)) (groups s)) [] in
   update_header f_key f_tosize f_div false s1 = ROk tt s1) ->
  (let h := with_dstart (hdr s) (blocks + 1) in let gs := map (canon_g (blocks + 1)) (groups s) in
   h_nb_frames h = nlen (frames s) /\ nlen (frames s) <= max_frames_vec /\
   nlen (frames s) * (1 + 4 * h_points h + h_byframe h * (1 + h_nb_analogs h)) <= 1048576 /\
   (if 0 <? h_points h then obind (group_named gs nm_POINT) (fun g => obind (param_named g nm_LABELS) values_as_string) = Ok pn else pn = []) /\
   (if 0 <? h_nb_analogs h then obind (group_named gs nm_ANALOG) (fun g => obind (param_named g nm_LABELS) values_as_string) = Ok an else an = []) /\
   (frames s <> [] -> (h_scale h < 0)%Z) /\
   Forall (uniform (N.to_nat (h_points h)) (N.to_nat (h_byframe h)) (N.to_nat (h_nb_analogs h))) (frames s)) ->
  load f_key f_tosize f_div bytes = Ok (reloaded s blocks pn an).
Proof.
  intros s bytes sec blocks pn an Sv Hs Wh Wl Hok Hn Hg. apply (load_save_gen s bytes sec blocks pn an); try assumption.
  rewrite <- (app_nil_l (map _ (groups s))). change 1%Z with (Z.of_nat (length (@nil group)) + 1)%Z. apply (apply_tree (blocks + 1) (groups s) [] Hg).
Qed.

(* the same for a tree with placeholder groups (an object loaded from a file with sparse group ids): C04's subject *)
Theorem load_save_sparse : forall s bytes sec blocks pn an,
  save s = Ok bytes -> section_bytes (pro s) (groups s) = Ok (sec, blocks) ->
  wf_hdr (hdr s) -> wf_header (hdr s) ->
  ok_tree (groups s) -> (nds (recs_of (groups s) 1) <= 1)%nat ->
  (forall g, In g (groups s) -> (is_placeholder g = true -> g = ph) /\ (is_placeholder g = false -> group_ok g)) ->
  (groups s <> [] -> is_placeholder (last (groups s) ph) = false) ->
  blocks + 1 < 256 -> ps_start (pro s) = 1 ->
  Forall wf_item (items_v (groups s) 1 (blocks + 1)) ->
  (let s1 := mkState (with_dstart (hdr s) (blocks + 1)) (mkPro 1 80 (blocks - 1) 84) (map (canon_g (blocks + 1)) (groups s)) [] in
   update_header f_key f_tosize f_div false s1 = ROk tt s1) ->
  (let h := with_dstart (hdr s) (blocks + 1) in let gs := map (canon_g (blocks + 1)) (groups s) in
   h_nb_frames h = nlen (frames s) /\ nlen (frames s) <= max_frames_vec /\
   nlen (frames s) * (1 + 4 * h_points h + h_byframe h * (1 + h_nb_analogs h)) <= 1048576 /\
   (if 0 <? h_points h then obind (group_named gs nm_POINT) (fun g => obind (param_named g nm_LABELS) values_as_string) = Ok pn else pn = []) /\
   (if 0 <? h_nb_analogs h then obind (group_named gs nm_ANALOG) (fun g => obind (param_named g nm_LABELS) values_as_string) = Ok an else an = []) /\
   (frames s <> [] -> (h_scale h < 0)%Z) /\
   Forall (uniform (N.to_nat (h_points h)) (N.to_nat (h_byframe h)) (N.to_nat (h_nb_analogs h))) (frames s)) ->
  load f_key f_tosize f_div bytes = Ok (reloaded s blocks pn an).
Proof.
  intros s bytes sec blocks pn an Sv Hs Wh Wl Hok Hn Hg Hl. apply (load_save_gen s bytes sec blocks pn an); try assumption.
  apply apply_tree_whole; assumption.
Qed.
End WithOps.

(* ---------- C04: saving the reloaded object writes the same bytes again ---------- *)
Lemma upper_c_idem : forall c, upper_c (upper_c c) = upper_c c.
Proof.
  intros c. unfold upper_c. destruct ((97 <=? c) && (c <=? 122)) eqn:E; [|rewrite E; reflexivity].
  assert (E2 : (97 <=? c - 32) && (c - 32 <=? 122) = false) by lia. rewrite E2. reflexivity.
Qed.
Lemma upper_idem : forall n, upper (upper n) = upper n.
Proof. intros n. unfold upper. rewrite map_map. apply map_ext. exact upper_c_idem. Qed.
Lemma upper_length : forall n, length (upper n) = length n.
Proof. intros n. unfold upper. apply map_length. Qed.

Definition ds_name_stable (p : param) : Prop := is_ds p = false -> bstr_eqb (upper (p_name p)) nm_DATA_START = false.

Lemma name_len_byte_upper : forall n l, name_len_byte (upper n) l = name_len_byte n l.
Proof. intros n l. unfold name_len_byte, zlen. rewrite upper_length. reflexivity. Qed.

Lemma param_record_canon : forall v p gid, ds_name_stable p -> param_record (canon_p v p) gid = param_record p gid.
Proof.
  intros v p gid Hs. unfold canon_p. destruct (is_ds p) eqn:D.
  - (* the DATA_START parameter: its value is not written (the slot is patched afterwards) *)
    assert (En : p_name p = nm_DATA_START) by (apply bstr_eqb_eq; exact D).
    unfold param_record, data_bytes, upper_name, with_val. cbn [p_name p_desc p_lock p_type p_dims p_ints p_floats p_strs].
    rewrite En. change (upper nm_DATA_START) with nm_DATA_START.
    assert (Eb : bstr_eqb nm_DATA_START nm_DATA_START = true) by reflexivity. rewrite Eb.
    destruct (has_size (p_dims p) <=? 0)%Z; [reflexivity|]. destruct (p_type p); reflexivity.
  - specialize (Hs D). unfold is_ds in D.
    unfold param_record, data_bytes, upper_name. cbn [p_name p_desc p_lock p_type p_dims p_ints p_floats p_strs].
    rewrite Hs, D, upper_idem, name_len_byte_upper. reflexivity.
Qed.

Lemma group_record_canon : forall v g gid, group_record (canon_g v g) gid = group_record g gid.
Proof. intros v g gid. unfold group_record, canon_g. cbn [g_name g_desc g_lock]. rewrite upper_idem, name_len_byte_upper. reflexivity. Qed.

Lemma params_records_canon : forall v ps gid base acc dsp, (forall p, In p ps -> ds_name_stable p) ->
  params_records (map (canon_p v) ps) gid base acc dsp = params_records ps gid base acc dsp.
Proof.
  intros v ps. induction ps as [|p t IH]; intros gid base acc dsp H; cbn [map params_records]; [reflexivity|].
  rewrite (param_record_canon v p gid (H p (or_introl eq_refl))).
  destruct (param_record p gid) as [[bs ds]| |]; cbn [obind]; try reflexivity.
  apply IH. intros q Hq. apply H. right. exact Hq.
Qed.

Lemma groups_records_canon : forall v gs gid base acc dsp,
  (forall g, In g gs -> forall p, In p (g_params g) -> ds_name_stable p) ->
  groups_records (map (canon_g v) gs) gid base acc dsp = groups_records gs gid base acc dsp.
Proof.
  intros v gs. induction gs as [|g t IH]; intros gid base acc dsp H; cbn [map groups_records]; [reflexivity|].
  assert (Ht : forall g', In g' t -> forall p, In p (g_params g') -> ds_name_stable p) by (intros g' Hg'; apply H; right; exact Hg').
  assert (Ep : (match g_name (canon_g v g) with [] => true | _ => false end) && (nlen (g_params (canon_g v g)) =? 0)
             = (match g_name g with [] => true | _ => false end) && (nlen (g_params g) =? 0)).
  { unfold canon_g. cbn [g_name g_params]. unfold nlen. rewrite map_length. destruct (g_name g); reflexivity. }
  rewrite Ep. destruct ((match g_name g with [] => true | _ => false end) && (nlen (g_params g) =? 0)); [apply IH; exact Ht|].
  rewrite group_record_canon. unfold canon_g at 1. cbn [g_params].
  rewrite (params_records_canon v (g_params g) gid base _ dsp (H g (or_introl eq_refl))).
  destruct (params_records (g_params g) gid base (acc ++ group_record g gid) dsp) as [[acc' dsp']| |]; cbn [obind]; try reflexivity.
  apply IH. exact Ht.
Qed.

Lemma data_section_rename : forall pn an fs, data_section (map (rename_frame pn an) fs) = data_section fs.
Proof.
  intros pn an fs. unfold data_section. rewrite map_map. f_equal. apply map_ext. intros f.
  unfold frame_bytes, rename_frame. cbn [fr_pts fr_subs]. f_equal.
  - f_equal. generalize 0 at 1. induction (fr_pts f) as [|p t IH]; intros i; cbn [rename_points map]; [reflexivity|]. rewrite IH. reflexivity.
  - f_equal. rewrite map_map. apply map_ext. intros sf. f_equal.
    generalize 0 at 1. induction sf as [|c t IH]; intros i; cbn [rename_chans map]; [reflexivity|]. rewrite IH. reflexivity.
Qed.

Lemma header_bytes_dstart : forall h d x, header_bytes (with_dstart h d) x = header_bytes h x.
Proof. intros h d x. reflexivity. Qed.

(* THE FIXPOINT: saving what was reloaded gives the same file *)
Theorem save_reloaded : forall s blocks pn an,
  ps_start (pro s) = 1 ->
  (forall g, In g (groups s) -> forall p, In p (g_params g) -> ds_name_stable p) ->
  save (reloaded s blocks pn an) = save s.
Proof.
  intros s blocks pn an Hst Hs. unfold save, reloaded, section_bytes. cbn [pro groups hdr frames ps_start].
  rewrite Hst. rewrite groups_records_canon by exact Hs.
  destruct (groups_records (groups s) 1 512 _ None) as [[recs dsp]| |]; cbn [obind]; try reflexivity.
  destruct (finish_section recs dsp) as [sec bl]. rewrite header_bytes_dstart, data_section_rename. reflexivity.
Qed.

(* ---------- the "header agrees with the parameters" hypothesis of load_save, declaratively ---------- *)
Section Agree.
Variable f_key : f32 -> outcome Z.
Variable f_tosize : f32 -> outcome N.
Variable f_div : f32 -> f32 -> f32.

(* what updateHeader compares, for an object that is being loaded (no data yet) *)
Definition header_agrees (gs : list group) (h : header) : Prop :=
  exists rate k u ga au fz,
    r_float0 0 gs nm_POINT nm_RATE = Ok rate /\ f_key rate = Ok k /\ f_key (h_rate h) = Ok k /\
    r_int0 0 gs nm_POINT nm_USED = Ok u /\ z_to_usize u = h_points h /\
    group_named gs nm_ANALOG = Ok ga /\ nlen (g_params ga) <> 0 /\
    ((f32_is_zero rate = true /\ h_byframe h = 1) \/
     (exists ar, f32_is_zero rate = false /\ r_float0 0 gs nm_ANALOG nm_RATE = Ok ar /\ f_tosize (f_div ar rate) = Ok (h_byframe h))) /\
    r_int0 0 gs nm_ANALOG nm_USED = Ok au /\ z_to_usize au = h_nb_analogs h /\
    r_int0 0 gs nm_POINT nm_FRAMES = Ok fz /\ z_to_usize fz = h_nb_frames h.

Lemma update_header_noop : forall h pr gs, header_agrees gs h ->
  update_header f_key f_tosize f_div false (mkState h pr gs []) = ROk tt (mkState h pr gs []).
Proof.
  intros h pr gs (rate & k & u & ga & au & fz & Hr & Hk1 & Hk2 & Hu & Eu & Hga & Nga & Hbf & Hau & Eau & Hfz & Efz).
  unfold update_header, uh_rate_points.
  unfold bind at 1. unfold bind at 1. rewrite float0_pure. cbn [groups]. change (r_float0 12) with (r_float0 0). rewrite Hr. cbn [lift].
  unfold bind at 1. cbv [getS]. unfold bind at 1. rewrite Hk1. cbn [lift hdr]. unfold bind at 1. rewrite Hk2. cbn [lift].
  rewrite Z.eqb_refl. cbn [negb when]. unfold bind at 1. cbv [ret].
  unfold bind at 1. rewrite int0_pure. cbn [groups]. change (r_int0 13) with (r_int0 0). rewrite Hu. cbn [lift].
  unfold bind at 1. cbv [getS]. cbn [hdr]. rewrite Eu, N.eqb_refl. cbn [negb when]. unfold bind at 1. cbv [ret].
  unfold bind at 1.
  (* sub-frames: no data, so the rates decide *)
  assert (Bf : byframe_step f_tosize f_div false rate (mkState h pr gs []) = ROk tt (mkState h pr gs [])).
  { unfold byframe_step. unfold bind at 1. cbv [getS]. unfold analog_rate_step.
    unfold bind at 1. cbv [getS]. unfold bind at 1.
    assert (Gg : get_group nm_ANALOG (mkState h pr gs []) = ROk ga (mkState h pr gs [])).
    { unfold get_group. cbv [bind getS]. cbn [groups]. rewrite Hga. reflexivity. }
    rewrite Gg. apply N.eqb_neq in Nga. rewrite Nga. cbn [negb when].
    destruct Hbf as [[Hz Hb1]|(ar & Nrs & Har & Hq)].
    - rewrite Hz. cbn [hdr]. rewrite Hb1. reflexivity.
    - rewrite Nrs.
      unfold bind at 1. rewrite float0_pure. cbn [groups]. change (r_float0 15) with (r_float0 0). rewrite Har. cbn [lift].
      unfold bind at 1. rewrite Hq. cbn [lift hdr]. rewrite N.eqb_refl. reflexivity. }
  rewrite Bf. unfold bind at 1.
  unfold uh_analogs. unfold bind at 1.
  assert (Gg : get_group nm_ANALOG (mkState h pr gs []) = ROk ga (mkState h pr gs [])).
  { unfold get_group. cbv [bind getS]. cbn [groups]. rewrite Hga. reflexivity. }
  rewrite Gg. apply N.eqb_neq in Nga. rewrite Nga. cbn [negb].
  unfold bind at 1. rewrite int0_pure. cbn [groups]. change (r_int0 17) with (r_int0 0). rewrite Hau. cbn [lift].
  unfold bind at 1. cbv [getS]. cbn [hdr]. rewrite Eau, N.eqb_refl. cbn [negb when]. cbv [ret].
  unfold uh_frames. unfold bind at 1. rewrite int0_pure. cbn [groups]. change (r_int0 10) with (r_int0 0). rewrite Hfz. cbn [lift].
  unfold bind at 1. cbv [getS]. cbn [hdr]. rewrite Efz, N.eqb_refl. reflexivity.
Qed.
End Agree.

(* load (save s) with the agreement stated declaratively *)
Theorem load_save_agrees : forall f_key f_tosize f_div s bytes sec blocks pn an,
  save s = Ok bytes -> section_bytes (pro s) (groups s) = Ok (sec, blocks) ->
  wf_hdr (hdr s) -> wf_header (hdr s) ->
  ok_tree (groups s) -> (nds (recs_of (groups s) 1) <= 1)%nat ->
  (forall g, In g (groups s) -> is_placeholder g = false /\ group_ok g) ->
  blocks + 1 < 256 -> ps_start (pro s) = 1 ->
  Forall wf_item (items_v (groups s) 1 (blocks + 1)) ->
  header_agrees f_key f_tosize f_div (map (canon_g (blocks + 1)) (groups s)) (with_dstart (hdr s) (blocks + 1)) ->
  (let h := with_dstart (hdr s) (blocks + 1) in let gs := map (canon_g (blocks + 1)) (groups s) in
   h_nb_frames h = nlen (frames s) /\ nlen (frames s) <= max_frames_vec /\
   nlen (frames s) * (1 + 4 * h_points h + h_byframe h * (1 + h_nb_analogs h)) <= 1048576 /\
   (if 0 <? h_points h then obind (group_named gs nm_POINT) (fun g => obind (param_named g nm_LABELS) values_as_string) = Ok pn else pn = []) /\
   (if 0 <? h_nb_analogs h then obind (group_named gs nm_ANALOG) (fun g => obind (param_named g nm_LABELS) values_as_string) = Ok an else an = []) /\
   (frames s <> [] -> (h_scale h < 0)%Z) /\
   Forall (uniform (N.to_nat (h_points h)) (N.to_nat (h_byframe h)) (N.to_nat (h_nb_analogs h))) (frames s)) ->
  load f_key f_tosize f_div bytes = Ok (reloaded s blocks pn an).
Proof.
  intros f_key f_tosize f_div s bytes sec blocks pn an Sv Hs Wh Wl Hok Hn Hg Hb Hst Wf Ha Hd.
  apply (load_save f_key f_tosize f_div s bytes sec blocks pn an Sv Hs Wh Wl Hok Hn Hg Hb Hst Wf); [|exact Hd].
  cbv zeta. apply update_header_noop. exact Ha.
Qed.

Definition ds_stable_b (gs : list group) : bool :=
  forallb (fun g => forallb (fun p => is_ds p || negb (bstr_eqb (upper (p_name p)) nm_DATA_START)) (g_params g)) gs.
Lemma ds_stable_of_b : forall gs, ds_stable_b gs = true ->
  forall g, In g gs -> forall p, In p (g_params g) -> ds_name_stable p.
Proof.
  intros gs H g Hg p Hp D. unfold ds_stable_b in H. rewrite forallb_forall in H. specialize (H g Hg).
  rewrite forallb_forall in H. specialize (H p Hp). rewrite D in H. cbn [orb] in H. apply Bool.negb_true_iff in H. exact H.
Qed.
