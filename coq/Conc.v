(* Conc.v — C18, the part that is logic: threads that own disjoint objects.  A configuration is one
   state per thread; a schedule picks, at every step, which thread performs its next operation.  Every
   operation reads and writes the state of its own thread only (step has no other argument): under that
   premise any interleaving gives every thread the outputs and the final state of its solo run.  The
   premise — no shared mutable state in the library — is a fact about the binary, checked by the C18
   check (no writable static storage defined by ezc3d, ThreadSanitizer on perturbed schedules). *)
From Coq Require Import Lia.
From EZ Require Import Base.

Section Threads.
Variable S O Out : Type.
Variable stp : S -> O -> S * Out.

(* solo run of one thread *)
Fixpoint run (s : S) (ops : list O) : S * list Out :=
  match ops with
  | [] => (s, [])
  | o :: t => let '(s1, x) := stp s o in let '(s2, xs) := run s1 t in (s2, x :: xs)
  end.

(* two threads (the general case is the same argument): the schedule is a list of booleans, true = thread 1 *)
Fixpoint interleave (sched : list bool) (s1 : S) (p1 : list O) (s2 : S) (p2 : list O)
  : (S * list Out) * (S * list Out) :=
  match sched with
  | [] => (* schedule exhausted: the rest runs thread 1 first, then thread 2 *) (run s1 p1, run s2 p2)
  | true :: sc =>
      match p1 with
      | [] => interleave sc s1 p1 s2 p2
      | o :: t => let '(s1', x) := stp s1 o in
                  let '((f1, o1), r2) := interleave sc s1' t s2 p2 in ((f1, x :: o1), r2)
      end
  | false :: sc =>
      match p2 with
      | [] => interleave sc s1 p1 s2 p2
      | o :: t => let '(s2', x) := stp s2 o in
                  let '(r1, (f2, o2)) := interleave sc s1 p1 s2' t in (r1, (f2, x :: o2))
      end
  end.

Theorem interleave_irrelevant : forall sched s1 p1 s2 p2,
  interleave sched s1 p1 s2 p2 = (run s1 p1, run s2 p2).
Proof.
  induction sched as [|b sc IH]; intros s1 p1 s2 p2; cbn [interleave]; [reflexivity|].
  destruct b.
  - destruct p1 as [|o t]; [apply IH|]. cbn [run]. destruct (stp s1 o) as [s1' x]. rewrite IH.
    destruct (run s1' t) as [f1 o1]. reflexivity.
  - destruct p2 as [|o t]; [apply IH|]. cbn [run]. destruct (stp s2 o) as [s2' x]. rewrite IH.
    destruct (run s2' t) as [f2 o2]. reflexivity.
Qed.
End Threads.
