(* Proofs_Monad.v — reasoning principles for the state/exception monad: footprints
   ("this computation only changes ...") compose through bind. *)
From EZ Require Import Base Types Api.

Section Keeps.
Variable S : Type.
Variable R : S -> S -> Prop.
Hypothesis R_refl : forall s, R s s.
Hypothesis R_trans : forall a b c, R a b -> R b c -> R a c.

Definition keeps {A} (m : M S A) : Prop :=
  forall s, match m s with ROk _ s' => R s s' | RThrow _ s' => R s s' | RUB _ => True end.

Lemma keeps_ret : forall A (a : A), keeps (ret a).
Proof. intros A a s. simpl. apply R_refl. Qed.
Lemma keeps_throw : forall A e, keeps (@throw S A e).
Proof. intros A e s. simpl. apply R_refl. Qed.
Lemma keeps_ub : forall A t, keeps (@ub S A t).
Proof. intros A t s. exact I. Qed.
Lemma keeps_lift : forall A (o : outcome A), keeps (@lift S A o).
Proof. intros A o s. unfold lift. destruct o; simpl; try apply R_refl; exact I. Qed.
Lemma keeps_getS : keeps (@getS S).
Proof. intros s. simpl. apply R_refl. Qed.
Lemma keeps_bind : forall A B (m : M S A) (k : A -> M S B),
  keeps m -> (forall a, keeps (k a)) -> keeps (bind m k).
Proof.
  intros A B m k Hm Hk s. unfold bind. specialize (Hm s).
  destruct (m s) as [a s1|e s1|t]; auto.
  specialize (Hk a s1). destruct (k a s1); auto; eapply R_trans; eauto.
Qed.
Lemma keeps_catch : forall A (m : M S A) h, keeps m -> (forall e, keeps (h e)) -> keeps (catch m h).
Proof.
  intros A m h Hm Hh s. unfold catch. specialize (Hm s).
  destruct (m s) as [a s1|e s1|t]; auto.
  specialize (Hh e s1). destruct (h e s1); auto; eapply R_trans; eauto.
Qed.
Lemma keeps_modS : forall f, (forall s, R s (f s)) -> keeps (modS f).
Proof. intros f H s. simpl. apply H. Qed.
Lemma keeps_putS_from : forall s0 s1, (forall s, R s0 s -> R s s1) -> forall s, R s0 s -> match putS s1 s with ROk _ s' => R s s' | _ => True end.
Proof. intros s0 s1 H s Hs. simpl. apply H, Hs. Qed.
End Keeps.

Arguments keeps {S} R {A} m.

(* inversion helpers *)
Lemma bind_ok : forall S A B (m : M S A) (k : A -> M S B) s b s',
  bind m k s = ROk b s' -> exists a s1, m s = ROk a s1 /\ k a s1 = ROk b s'.
Proof. intros S A B m k s b s' H. unfold bind in H. destruct (m s) as [a s1|e s1|t]; try discriminate. eauto. Qed.
Lemma bind_throw : forall S A B (m : M S A) (k : A -> M S B) s e s',
  bind m k s = RThrow e s' -> m s = RThrow e s' \/ exists a s1, m s = ROk a s1 /\ k a s1 = RThrow e s'.
Proof. intros S A B m k s e s' H. unfold bind in H. destruct (m s) as [a s1|e1 s1|t]; try discriminate; [right; eauto|left; inversion H; reflexivity]. Qed.
Lemma lift_ok : forall S A (o : outcome A) (s : S) a s', lift o s = ROk a s' -> o = Ok a /\ s' = s.
Proof. intros S A o s a s' H. unfold lift in H. destruct o; inversion H; auto. Qed.
Lemma lift_throw : forall S A (o : outcome A) (s : S) e s', lift o s = RThrow e s' -> o = Throw e /\ s' = s.
Proof. intros S A o s e s' H. unfold lift in H. destruct o; inversion H; auto. Qed.
