(* Proofs_ChainZ.v — C02: the other way a parameter chain may end.  The C3D format lets the LAST record carry a zero
   next-record offset instead of being followed by a zero name length.  The walker is shown to rebuild the tree on such a
   chain too: a generalisation of Proofs_Chain.walk_items to any continuation (walk_prefix), the record readers on a record
   whose offset word is zero, and the final step. *)
From Coq Require Import Lia ZifyNat ZifyN ZifyBool.
From EZ Require Import Base Bytes Types Api Enc Dec Proofs_Bytes Proofs_Lookup Proofs_Codec Proofs_Record Proofs_Chain.
Local Open Scope N_scope.

(* ---------- the records with a zero offset word ---------- *)
Theorem read_param_zero : forall p st r,
  wf_param p -> st_fail st = false ->
  st_rest st = upper (p_name p) ++ le_bytes 2 0 ++ param_body p ++ param_tail p ++ r ->
  read_param (hex2int [name_len_byte (p_name p) (p_lock p)]) st =
    Ok ((mkParam (upper (p_name p)) (p_desc p) (p_lock p) (p_type p) (p_dims p) (p_ints p) (p_floats p) (p_strs p), 0%Z),
        adv st (length (p_name p) + 2 + length (param_body p ++ param_tail p)) r).
Proof.
  intros p st r W Hf Hr. pose proof W as [[Hn Hnn] _].
  destruct (nchars_of_name (p_name p) (p_lock p) Hn) as [Ea El].
  rewrite read_param_split. unfold rbind at 1. rewrite Ea.
  pose proof (reads_string (upper (p_name p)) Hnn st _ Hf Hr) as R1. unfold upper in R1. rewrite !map_length in R1. fold (upper (p_name p)) in R1. rewrite R1. clear R1.
  unfold rbind at 1.
  rewrite (reads_uint2 0 ltac:(lia) (adv st (length (p_name p)) _) _ (adv_fail _ _ _) (adv_rest _ _ _)). rewrite le_bytes_length, adv_adv.
  unfold rbind at 1. unfold next_pos. change (Z.to_N 0 =? 0) with true. cbv iota. unfold rret at 1.
  rewrite El.
  rewrite app_assoc. rewrite (param_rest_written p (upper (p_name p)) (p_lock p) 0%Z W _ r (adv_fail _ _ _)); [|rewrite adv_rest; reflexivity].
  rewrite adv_adv. reflexivity.
Qed.

Theorem read_group_zero : forall g old st r,
  wf_group_hdr g -> st_fail st = false ->
  st_rest st = upper (g_name g) ++ le_bytes 2 0 ++ [low8 (zlen (g_desc g))] ++ g_desc g ++ r ->
  read_group old (hex2int [name_len_byte (g_name g) (g_lock g)]) st =
    Ok ((mkGroup (upper (g_name g)) (desc_after g old) (g_lock g) (g_params old), 0%Z),
        adv st (length (g_name g) + 2 + (1 + length (g_desc g))) r).
Proof.
  intros g old st r [[Hn Hnn] [Hdl Hdn]] Hf Hr.
  destruct (nchars_of_name (g_name g) (g_lock g) Hn) as [Ea El].
  unfold read_group. unfold rbind at 1. rewrite Ea.
  pose proof (reads_string (upper (g_name g)) Hnn st _ Hf Hr) as R1. unfold upper in R1. rewrite !map_length in R1. fold (upper (g_name g)) in R1. rewrite R1. clear R1.
  unfold rbind at 1.
  rewrite (reads_uint2 0 ltac:(lia) (adv st (length (g_name g)) _) _ (adv_fail _ _ _) (adv_rest _ _ _)). rewrite le_bytes_length, adv_adv.
  unfold rbind at 1. unfold next_pos. change (Z.to_N 0 =? 0) with true. cbv iota. unfold rret at 1.
  assert (Rd : reads (dl <- rd_uint 1 ;; if dl =? 0 then rret (g_desc old) else rd_string (N.to_nat dl))%R
                     ([low8 (zlen (g_desc g))] ++ g_desc g) (desc_after g old)).
  { unfold zlen, desc_after. rewrite low8_small by lia. eapply reads_bind; [apply reads_uint1; lia|].
    destruct (g_desc g) as [|c t] eqn:D.
    - cbn. apply reads_ret.
    - assert (E : (Z.to_N (Z.of_nat (length (c :: t))) =? 0) = false) by (cbn [length]; lia). rewrite E.
      rewrite to_N_of_nat, Nat2N.id. apply reads_string. exact Hdn. }
  assert (Rg : forall nxt : Z, reads (dl <- rd_uint 1 ;; desc <- (if dl =? 0 then rret (g_desc old) else rd_string (N.to_nat dl)) ;;
                         rret (mkGroup (upper (g_name g)) desc (hex2int [name_len_byte (g_name g) (g_lock g)] <? 0)%Z (g_params old), nxt))%R
                     ([low8 (zlen (g_desc g))] ++ g_desc g)
                     (mkGroup (upper (g_name g)) (desc_after g old) (g_lock g) (g_params old), nxt)).
  { intros nxt. apply reads_assoc. rewrite <- (app_nil_r ([low8 (zlen (g_desc g))] ++ g_desc g)).
    eapply reads_bind; [exact Rd|]. rewrite El. apply reads_ret. }
  rewrite app_assoc. rewrite (Rg 0%Z _ r (adv_fail _ _ _)); [|rewrite adv_rest; reflexivity].
  rewrite adv_adv. rewrite app_length. cbn [length]. reflexivity.
Qed.

(* ---------- the walker on a sequence of records followed by ANYTHING: it arrives at the continuation ---------- *)
Theorem walk_prefix : forall its fuel gs st R,
  Forall wf_item its -> st_fail st = false -> 0 < st_pos st ->
  (Z.of_N (st_pos st) + Z.of_nat (items_len its) < 2147483648)%Z ->
  st_rest st = concat (map item_bytes its) ++ R ->
  walk (length its + fuel) (Z.of_N (st_pos st)) gs st =
    match apply_items its gs with
    | Ok gs' => walk fuel (Z.of_N (st_pos st + N.of_nat (items_len its))) gs' (adv st (items_len its) R)
    | Throw e => Throw e
    | UB t => UB t
    end.
Proof.
  induction its as [|it its IH]; intros fuel gs st R W Hf Hp Hb Hr.
  - cbn [length Nat.add apply_items items_len map concat]. cbn [app] in Hr. rewrite (adv_0 st R Hf Hr).
    replace (st_pos st + N.of_nat 0) with (st_pos st) by lia. reflexivity.
  - apply Forall_cons_iff in W. destruct W as [Wi W].
    cbn [map concat] in Hr. rewrite <- app_assoc in Hr.
    assert (Lb : items_len (it :: its) = (length (item_bytes it) + items_len its)%nat) by (unfold items_len; cbn [map concat]; apply app_length).
    cbn [length Nat.add walk apply_items].
    assert (E0 : (Z.of_N (st_pos st) =? 0)%Z = false) by blia. rewrite E0.
    unfold rbind at 1. unfold rd_tell, tell. rewrite Hf. rewrite Z.eqb_refl. cbn [negb].
    destruct it as [gid g|gid p].
    + destruct Wi as [Hg Wg]. pose proof Wg as [[Hn _] [Hd _]].
      cbn [item_bytes] in Hr, Lb. unfold group_record in Hr. rewrite <- !app_assoc in Hr. cbn [app] in Hr.
      destruct (read_two _ _ st _ Hf Hr) as [R0 R1].
      unfold rbind at 1. rewrite R0.
      destruct (Z.eqb_spec (hex2int [name_len_byte (g_name g) (g_lock g)]) 0) as [Z0|_]; [exfalso; exact (nchars_nonzero _ _ Hn Z0)|].
      unfold rbind at 1. rewrite R1. rewrite (hex2int_low8 (- gid)) by blia.
      assert (En : (- gid <? 0)%Z = true) by blia. rewrite En.
      replace (Z.abs (- gid)) with gid by blia. cbn [apply_item]. fold (slot gid).
      destruct (nth_error (grow_groups gs (Z.to_N gid)) (slot gid)) as [g0|]; [|reflexivity].
      unfold rbind at 1.
      match goal with |- context [read_group g0 ?c (adv st 2 ?X)] =>
        pose proof (read_group_written g g0 (adv st 2 X) (concat (map item_bytes its) ++ R) Wg (adv_fail _ _ _) eq_refl) as RG end.
      rewrite RG. clear RG.
      rewrite adv_adv. cbn [obind adv st_pos].
      rewrite group_record_length in Lb.
      set (n3 := (2 + (length (g_name g) + 2 + (1 + length (g_desc g))))%nat).
      assert (Hpos : wrap32s (Z.of_N (st_pos st + N.of_nat 2 + N.of_nat (length (g_name g)) + 2) + (3 + zlen (g_desc g)) - 2)
                     = Z.of_N (st_pos (adv st n3 (concat (map item_bytes its) ++ R)))).
      { cbn [adv st_pos]. unfold n3, zlen. rewrite wrap32s_id by blia. blia. }
      rewrite Hpos.
      rewrite (IH fuel _ (adv st n3 _) R W); [| apply adv_fail | cbn [adv st_pos]; blia | cbn [adv st_pos]; unfold n3; blia | apply adv_rest].
      destruct (apply_items its _) as [gs'| |]; try reflexivity.
      rewrite adv_adv. cbn [adv st_pos].
      replace (n3 + items_len its)%nat with (items_len (IG gid g :: its)) by (unfold n3; blia).
      replace (st_pos st + N.of_nat n3 + N.of_nat (items_len its)) with (st_pos st + N.of_nat (items_len (IG gid g :: its))) by (unfold n3; blia).
      reflexivity.
    + destruct Wi as [Hg [Wp Ho]]. pose proof Wp as [[Hn _] _].
      cbn [item_bytes] in Hr, Lb. unfold param_bytes in Hr. rewrite <- !app_assoc in Hr. cbn [app] in Hr.
      destruct (read_two _ _ st _ Hf Hr) as [R0 R1].
      unfold rbind at 1. rewrite R0.
      destruct (Z.eqb_spec (hex2int [name_len_byte (p_name p) (p_lock p)]) 0) as [Z0|_]; [exfalso; exact (nchars_nonzero _ _ Hn Z0)|].
      unfold rbind at 1. rewrite R1. rewrite (hex2int_low8 gid) by blia.
      assert (En : (gid <? 0)%Z = false) by blia. rewrite En.
      assert (Ez : (gid =? 0)%Z = false) by blia. rewrite Ez.
      replace (Z.abs gid) with gid by blia. cbn [apply_item]. fold (slot gid).
      destruct (nth_error (grow_groups gs (Z.to_N gid)) (slot gid)) as [g0|]; [|reflexivity].
      unfold rbind at 1.
      match goal with |- context [read_param ?c (adv st 2 ?X)] =>
        pose proof (read_param_written p (adv st 2 X) (concat (map item_bytes its) ++ R) Wp (adv_fail _ _ _) eq_refl) as RP end.
      cbv zeta in RP. rewrite RP. clear RP.
      fold (upper_name p). rewrite adv_adv.
      unfold rbind at 1. unfold rlift.
      destruct (group_set_param g0 (upper_name p)) as [g1|e|t]; cbn [obind]; try reflexivity.
      rewrite param_bytes_length in Lb.
      assert (Eo : ((2 + zlen (param_body p) + zlen (param_tail p)) mod 65536)%Z = (2 + zlen (param_body p) + zlen (param_tail p))%Z)
        by (apply Z.mod_small; unfold zlen in *; blia). rewrite Eo.
      assert (Eo0 : ((2 + zlen (param_body p) + zlen (param_tail p)) =? 0)%Z = false) by (unfold zlen; blia). rewrite Eo0.
      set (off := (2 + zlen (param_body p) + zlen (param_tail p))%Z) in *.
      set (n3 := (2 + (length (p_name p) + 2 + length (param_body p ++ param_tail p)))%nat).
      cbn [adv st_pos].
      assert (Hpos : wrap32s (Z.of_N (st_pos st + N.of_nat 2 + N.of_nat (length (p_name p)) + 2) + off - 2)
                     = Z.of_N (st_pos (adv st n3 (concat (map item_bytes its) ++ R)))).
      { cbn [adv st_pos]. unfold n3, off, zlen in *. rewrite app_length in *. rewrite wrap32s_id by blia. blia. }
      rewrite Hpos.
      rewrite (IH fuel _ (adv st n3 _) R W); [| apply adv_fail | cbn [adv st_pos]; blia | cbn [adv st_pos]; unfold n3; blia | apply adv_rest].
      destruct (apply_items its _) as [gs'| |]; try reflexivity.
      rewrite adv_adv. cbn [adv st_pos].
      replace (n3 + items_len its)%nat with (items_len (IP gid p :: its)) by (unfold n3; blia).
      replace (st_pos st + N.of_nat n3 + N.of_nat (items_len its)) with (st_pos st + N.of_nat (items_len (IP gid p :: its))) by (unfold n3; blia).
      reflexivity.
Qed.

(* ---------- the last record of a chain that ends by a zero offset ---------- *)
Definition item_bytes0 (it : item) : list N :=
  match it with
  | IG gid g => [name_len_byte (g_name g) (g_lock g); low8 (- gid)%Z] ++ upper (g_name g) ++ le_bytes 2 0
                ++ [low8 (zlen (g_desc g))] ++ g_desc g
  | IP gid p => [name_len_byte (p_name p) (p_lock p); low8 gid] ++ upper (p_name p) ++ le_bytes 2 0 ++ param_body p ++ param_tail p
  end.
Lemma item_bytes0_length : forall it, length (item_bytes0 it) = length (item_bytes it).
Proof.
  intros [gid g|gid p]; cbn [item_bytes0 item_bytes]; unfold group_record, param_bytes; rewrite !app_length, !le_bytes_length; reflexivity.
Qed.

Lemma walk_last_zero : forall it fuel gs st R, wf_item it -> st_fail st = false -> 0 < st_pos st ->
  st_rest st = item_bytes0 it ++ R ->
  walk (S (S fuel)) (Z.of_N (st_pos st)) gs st =
    match apply_item it gs with
    | Ok gs' => Ok (gs', adv st (length (item_bytes0 it)) R)
    | Throw e => Throw e
    | UB t => UB t
    end.
Proof.
  intros it fuel gs st R Wi Hf Hp Hr. cbn [walk].
  assert (E0 : (Z.of_N (st_pos st) =? 0)%Z = false) by blia. rewrite E0.
  unfold rbind at 1. unfold rd_tell, tell. rewrite Hf. rewrite Z.eqb_refl. cbn [negb].
  destruct it as [gid g|gid p].
  - destruct Wi as [Hg Wg]. pose proof Wg as [[Hn _] [Hd _]].
    cbn [item_bytes0] in Hr. rewrite <- !app_assoc in Hr. cbn [app] in Hr.
    destruct (read_two _ _ st _ Hf Hr) as [R0 R1].
    unfold rbind at 1. rewrite R0.
    destruct (Z.eqb_spec (hex2int [name_len_byte (g_name g) (g_lock g)]) 0) as [Z0|_]; [exfalso; exact (nchars_nonzero _ _ Hn Z0)|].
    unfold rbind at 1. rewrite R1. rewrite (hex2int_low8 (- gid)) by blia.
    assert (En : (- gid <? 0)%Z = true) by blia. rewrite En.
    replace (Z.abs (- gid)) with gid by blia. cbn [apply_item]. fold (slot gid).
    destruct (nth_error (grow_groups gs (Z.to_N gid)) (slot gid)) as [g0|]; [|reflexivity].
    unfold rbind at 1.
    match goal with |- context [read_group g0 ?c (adv st 2 ?X)] =>
      pose proof (read_group_zero g g0 (adv st 2 X) R Wg (adv_fail _ _ _) eq_refl) as RG end.
    rewrite RG. clear RG. rewrite adv_adv. change (0 =? 0)%Z with true. cbv iota. unfold rret.
    do 2 f_equal. cbn [item_bytes0]. rewrite !app_length, le_bytes_length. cbn [length]. unfold upper. rewrite map_length. f_equal. blia.
  - destruct Wi as [Hg [Wp Ho]]. pose proof Wp as [[Hn _] _].
    cbn [item_bytes0] in Hr. rewrite <- !app_assoc in Hr. cbn [app] in Hr.
    destruct (read_two _ _ st _ Hf Hr) as [R0 R1].
    unfold rbind at 1. rewrite R0.
    destruct (Z.eqb_spec (hex2int [name_len_byte (p_name p) (p_lock p)]) 0) as [Z0|_]; [exfalso; exact (nchars_nonzero _ _ Hn Z0)|].
    unfold rbind at 1. rewrite R1. rewrite (hex2int_low8 gid) by blia.
    assert (En : (gid <? 0)%Z = false) by blia. rewrite En.
    assert (Ez : (gid =? 0)%Z = false) by blia. rewrite Ez.
    replace (Z.abs gid) with gid by blia. cbn [apply_item]. fold (slot gid).
    destruct (nth_error (grow_groups gs (Z.to_N gid)) (slot gid)) as [g0|]; [|reflexivity].
    unfold rbind at 1.
    match goal with |- context [read_param ?c (adv st 2 ?X)] =>
      pose proof (read_param_zero p (adv st 2 X) R Wp (adv_fail _ _ _) eq_refl) as RP end.
    rewrite RP. clear RP.
    fold (upper_name p). rewrite adv_adv.
    unfold rbind at 1. unfold rlift.
    destruct (group_set_param g0 (upper_name p)) as [g1|e|t]; cbn [obind]; try reflexivity.
    change (0 =? 0)%Z with true. cbv iota. unfold rret.
    do 2 f_equal. cbn [item_bytes0]. rewrite !app_length, le_bytes_length. cbn [length]. unfold upper. rewrite map_length. f_equal. blia.
Qed.

Lemma apply_items_app : forall a b gs, apply_items (a ++ b) gs = obind (apply_items a gs) (apply_items b).
Proof.
  induction a as [|x a IH]; intros b gs; cbn [app apply_items obind]; [reflexivity|].
  destruct (apply_item x gs) as [g1| |]; cbn [obind]; [apply IH|reflexivity|reflexivity].
Qed.

(* the whole chain: records with exact offsets, then one record with offset zero, then anything *)
Theorem walk_items_zero : forall its last fuel gs st R,
  Forall wf_item its -> wf_item last -> (length its + 2 <= fuel)%nat -> st_fail st = false -> 0 < st_pos st ->
  (Z.of_N (st_pos st) + Z.of_nat (items_len its) < 2147483648)%Z ->
  st_rest st = concat (map item_bytes its) ++ item_bytes0 last ++ R ->
  walk fuel (Z.of_N (st_pos st)) gs st =
    match apply_items (its ++ [last]) gs with
    | Ok gs' => Ok (gs', adv st (items_len its + length (item_bytes0 last)) R)
    | Throw e => Throw e
    | UB t => UB t
    end.
Proof.
  intros its last fuel gs st R W Wl Fu Hf Hp Hb Hr.
  replace fuel with (length its + S (S (fuel - length its - 2)))%nat by lia.
  rewrite (walk_prefix its _ gs st (item_bytes0 last ++ R) W Hf Hp Hb Hr).
  rewrite apply_items_app. destruct (apply_items its gs) as [gs1| |]; cbn [obind]; try reflexivity.
  pose proof (walk_last_zero last (fuel - length its - 2) gs1 (adv st (items_len its) (item_bytes0 last ++ R)) R Wl (adv_fail _ _ _)) as L.
  cbn [adv st_pos] in L. rewrite L; [| lia | reflexivity].
  cbn [apply_items]. destruct (apply_item last gs1) as [gs2| |]; cbn [obind]; try reflexivity.
  rewrite adv_adv. reflexivity.
Qed.
