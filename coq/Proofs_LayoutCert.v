(* Proofs_LayoutCert.v — deciding, for a concrete file, that the layout theorem (Proofs_Layout.load_layout) applies to it.
   `explain` cuts a file into the parts of Proofs_Layout.file_of (it is not trusted: it may return anything); `cert_ok_b` re-encodes
   the parts with the ENCODER specification (header_block, item_bytes, data_section), compares the result with the file byte by
   byte, and evaluates the hypotheses of the theorem.  Where it answers true, what the loader returns is known: the header
   fields, the tree the records build in file order, the frames.  Extracted and evaluated by the C02 check on every file. *)
From Coq Require Import Lia ZifyNat ZifyN ZifyBool Bool.
From EZ Require Import Base Bytes Types Api Enc Dec Proofs_Bytes Proofs_Lookup Proofs_Param Proofs_Codec Proofs_Section
  Proofs_Record Proofs_Chain Proofs_ChainW Proofs_HeaderCodec Proofs_Guards Proofs_RoundTrip Proofs_Decide Proofs_Layout.
Local Open Scope N_scope.

Record parts := mkParts { lp_z : nat; lp_p : N; lp_h : header; lp_d : N; lp_gap : list N;
                          lp_b0 : N; lp_b1 : N; lp_blocks : N; lp_proc : N; lp_ez : bool; lp_its : list item; lp_tail : list N; lp_fs : list frame }.

Definition slice (l : list N) (a n : nat) : list N := firstn n (skipn a l).

(* the records one after the other, as items, up to the end marker *)
Fixpoint collect (fuel : nat) (acc : list item) : RD (list item * bool) :=
  match fuel with
  | O => rret (rev acc, false)
  | S f =>
      (nchars <- rd_int 1 ;;
       if (nchars =? 0)%Z then rret (rev acc, false) else
       id <- rd_int 1 ;;
       if (id <? 0)%Z then
         r <- read_group (new_group [] []) nchars ;;
         let '(g, nx) := r in if (nx =? 0)%Z then rret (rev (IG (- id) g :: acc), true) else collect f (IG (- id) g :: acc)
       else
         r <- read_param nchars ;;
         let '(q, nx) := r in if (nx =? 0)%Z then rret (rev (IP id q :: acc), true) else collect f (IP id q :: acc))%R
  end.

Section WithOps.
Variable f_key : f32 -> outcome Z.
Variable f_tosize : f32 -> outcome N.
Variable f_div : f32 -> f32 -> f32.

Definition explain (file : list N) : option parts :=
  match read_header (open_stream file) with
  | Ok (h1, _) =>
      let z := N.to_nat (h_zeros h1) in let p := h_paddr h1 in
      let base := (512 * (N.to_nat p - 1) + z)%nat in
      match skipn base file with
      | b0 :: b1 :: blocks :: proc :: rest =>
          match collect (S (length rest)) [] (mkStream file (N.of_nat base + 4) rest false) with
          | Ok ((its, ez), st') =>
              let endpos := N.to_nat (st_pos st') in
              let secend := (base + 512 * N.to_nat blocks)%nat in
              match load f_key f_tosize f_div file with
              | Ok s => Some (mkParts z p (with_pz h1 2 0) (h_dstart h1) (slice file (z + 512) (512 * (N.to_nat p - 2)))
                                      b0 b1 blocks proc ez its (slice file endpos (secend - endpos)) (frames s))
              | _ => None
              end
          | _ => None
          end
      | _ => None
      end
  | _ => None
  end.

Definition cert_state (q : parts) (gs : list group) (pn an : list bstr) : state :=
  mkState (with_pz (with_dstart (lp_h q) (lp_d q)) (lp_p q) (N.of_nat (lp_z q))) (mkPro 1 80 (lp_blocks q) (lp_proc q)) gs
          (map (rename_frame pn an) (lp_fs q)).

Definition cert_args (file : list N) : option (parts * list group * list bstr * list bstr) :=
  match explain file with
  | Some q =>
      match apply_items (lp_its q) [] with
      | Ok gs =>
          let h1 := with_pz (with_dstart (lp_h q) (lp_d q)) (lp_p q) (N.of_nat (lp_z q)) in
          match names_of (0 <? h_points h1) gs nm_POINT, names_of (0 <? h_nb_analogs h1) gs nm_ANALOG with
          | Some pn, Some an => Some (q, gs, pn, an)
          | _, _ => None
          end
      | _ => None
      end
  | None => None
  end.

Definition cert_flags (file : list N) : list bool :=
  match cert_args file with
  | Some (q, gs, pn, an) =>
      let h := lp_h q in let d := lp_d q in let p := lp_p q in let z := lp_z q in let fs := lp_fs q in
      let h1 := with_pz (with_dstart h d) p (N.of_nat z) in
      [bstr_eqb (file_of z p h d (lp_gap q) (lp_b0 q) (lp_b1 q) (lp_blocks q) (lp_proc q) (lp_ez q) (lp_its q) (lp_tail q) fs) file;
       wf_hdr_b h; u16_b d; (2 <=? p) && (p <? 256); nlen (lp_gap q) =? 512 * (p - 2);
       4 + nlen (chain_of (lp_ez q) (lp_its q)) + nlen (lp_tail q) =? 512 * lp_blocks q;
       (lp_blocks q <? 256) && (lp_proc q <? 256);
       ((lp_b0 q =? 1) && (lp_b1 q =? 80)) || ((lp_b0 q =? 0) && (lp_b1 q =? 0));
       forallb wf_item_b (lp_its q);
       (Z.of_nat z + 512 * Z.of_N (p - 1) + 512 * Z.of_N (lp_blocks q) <? 2147483648)%Z;
       header_agrees_b f_key f_tosize f_div gs h1;
       (h_nb_frames h1 =? nlen fs) && (nlen fs <=? max_frames_vec) &&
         (nlen fs * (1 + 4 * h_points h1 + h_byframe h1 * (1 + h_nb_analogs h1)) <=? 1048576);
       nil_b fs || (h_scale h1 <? 0)%Z;
       forallb (uniform_b (N.to_nat (h_points h1)) (N.to_nat (h_byframe h1)) (N.to_nat (h_nb_analogs h1))) fs]
  | None => []
  end.
Definition cert_ok_b (file : list N) : bool := negb (nil_b (cert_flags file)) && forallb (fun b => b) (cert_flags file).

Theorem layout_cert : forall file, cert_ok_b file = true ->
  exists q gs pn an, cert_args file = Some (q, gs, pn, an) /\
    file = file_of (lp_z q) (lp_p q) (lp_h q) (lp_d q) (lp_gap q) (lp_b0 q) (lp_b1 q) (lp_blocks q) (lp_proc q) (lp_ez q) (lp_its q) (lp_tail q) (lp_fs q) /\
    apply_items (lp_its q) [] = Ok gs /\
    load f_key f_tosize f_div file = Ok (cert_state q gs pn an).
Proof.
  intros file H. unfold cert_ok_b, cert_flags in H. destruct (cert_args file) as [[[[q gs] pn] an]|] eqn:EA; [|discriminate].
  exists q, gs, pn, an. split; [reflexivity|].
  cbv zeta in H. cbn [nil_b negb forallb andb] in H. rewrite andb_true_r in H.
  apply andb_prop in H. destruct H as [H1 H]. apply andb_prop in H. destruct H as [H2 H]. apply andb_prop in H. destruct H as [H3 H].
  apply andb_prop in H. destruct H as [H4 H]. apply andb_prop in H. destruct H as [H5 H]. apply andb_prop in H. destruct H as [H6 H].
  apply andb_prop in H. destruct H as [H7 H]. apply andb_prop in H. destruct H as [H8 H]. apply andb_prop in H. destruct H as [H9 H].
  apply andb_prop in H. destruct H as [H10 H]. apply andb_prop in H. destruct H as [H11 H]. apply andb_prop in H. destruct H as [H12 H].
  apply andb_prop in H. destruct H as [H13 H14].
  apply bstr_eqb_eq in H1.
  unfold cert_args in EA. destruct (explain file) as [q'|]; [|discriminate].
  destruct (apply_items (lp_its q') []) as [gs'| |] eqn:Eg; try discriminate. cbv zeta in EA.
  destruct (names_of (0 <? h_points (with_pz (with_dstart (lp_h q') (lp_d q')) (lp_p q') (N.of_nat (lp_z q')))) gs' nm_POINT) as [pn'|] eqn:Npn; try discriminate.
  destruct (names_of (0 <? h_nb_analogs (with_pz (with_dstart (lp_h q') (lp_d q')) (lp_p q') (N.of_nat (lp_z q')))) gs' nm_ANALOG) as [an'|] eqn:Nan; try discriminate.
  assert (q' = q /\ gs' = gs /\ pn' = pn /\ an' = an) as (-> & -> & -> & ->) by (repeat split; congruence). clear EA.
  split; [symmetry; exact H1|]. split; [exact Eg|].
  destruct (wf_hdr_b_ok _ H2) as [Wh Wl].
  rewrite <- H1 at 1. unfold cert_state.
  apply (load_layout f_key f_tosize f_div (lp_z q) (lp_p q) (lp_h q) (lp_d q) (lp_gap q) (lp_b0 q) (lp_b1 q) (lp_blocks q) (lp_proc q)
           (lp_ez q) (lp_its q) (lp_tail q) (lp_fs q) gs pn an Wh Wl (u16_b_ok _ H3)).
  - lia.
  - lia.
  - lia.
  - lia.
  - lia.
  - lia.
  - exact (forallb_Forall _ _ _ _ wf_item_b_ok H9).
  - exact Eg.
  - lia.
  - cbv zeta. apply update_header_noop. apply header_agrees_b_ok. exact H11.
  - cbv zeta. split; [lia|]. split; [lia|]. split; [lia|]. split.
    { unfold names_of in Npn. destruct (0 <? h_points _); [|congruence].
      destruct (obind (group_named _ nm_POINT) _) as [x| |]; try discriminate. congruence. }
    split.
    { unfold names_of in Nan. destruct (0 <? h_nb_analogs _); [|congruence].
      destruct (obind (group_named _ nm_ANALOG) _) as [x| |]; try discriminate. congruence. }
    split.
    { intros Ne. apply orb_prop in H13. destruct H13 as [E|E]; [apply nil_b_ok in E; contradiction|lia]. }
    exact (forallb_Forall _ _ _ _ (uniform_b_ok _ _ _) H14).
Qed.
End WithOps.
