(* Proofs_PointsOnly.v — C01 for data sets without channels whose frames do not hold the sub-frames the header announces.
   Through the API a points-only frame has no sub-frame, while the header may announce some (the rates decide when frame 0
   has none); a frame without channels writes no analog byte whatever its sub-frame count, and the loader creates the
   header's number of (empty) sub-frames.  So the file reloads to the object with each frame's sub-frames normalised to that
   number of empty ones: nothing that carries a value changes. *)
From Coq Require Import Lia ZifyNat ZifyN ZifyBool Bool.
From EZ Require Import Base Bytes Types Api Enc Dec Proofs_Bytes Proofs_Lookup Proofs_Param Proofs_Codec Proofs_Section
  Proofs_Record Proofs_Chain Proofs_ChainW Proofs_HeaderCodec Proofs_Guards Proofs_RoundTrip Proofs_Decide.
Local Open Scope N_scope.

Definition empty_subs (f : frame) : Prop := Forall (fun sf : subframe => sf = []) (fr_subs f).
Definition empty_subs_b (f : frame) : bool := forallb (fun sf : subframe => nil_b sf) (fr_subs f).
Lemma empty_subs_b_ok : forall f, empty_subs_b f = true -> empty_subs f.
Proof. intros f. apply forallb_Forall. intros sf H. apply nil_b_ok. exact H. Qed.

(* the same points, ns empty sub-frames *)
Definition norm_frame (ns : nat) (f : frame) : frame := mkFrame (fr_pts f) (repeat [] ns).

Lemma concat_all_nil : forall (l : list subframe), Forall (fun sf : subframe => sf = []) l ->
  concat (map (fun sf : subframe => concat (map (fun c => w4 (ch_v c)) sf)) l) = [].
Proof.
  induction l as [|sf l IH]; intros H; [reflexivity|]. apply Forall_cons_iff in H. destruct H as [E H]. subst sf.
  cbn [map concat app]. apply IH. exact H.
Qed.
Lemma frame_bytes_norm : forall ns f, empty_subs f -> frame_bytes (norm_frame ns f) = frame_bytes f.
Proof.
  intros ns f H. unfold frame_bytes, norm_frame. cbn [fr_pts fr_subs]. f_equal.
  etransitivity; [|symmetry; apply concat_all_nil; exact H].
  apply concat_all_nil. apply Forall_forall. intros x Hx. apply repeat_spec in Hx. exact Hx.
Qed.
Lemma data_section_norm : forall ns fs, Forall empty_subs fs -> data_section (map (norm_frame ns) fs) = data_section fs.
Proof.
  intros ns fs H. unfold data_section. induction H as [|f fs Hf _ IH]; [reflexivity|].
  cbn [map concat]. rewrite IH, (frame_bytes_norm ns f Hf). reflexivity.
Qed.

(* the object with its frames normalised to the sub-frame count of its header; only for objects without channels *)
Definition normalised (s : state) : state :=
  if h_nb_analogs (hdr s) =? 0 then set_frames s (map (norm_frame (N.to_nat (h_byframe (hdr s)))) (frames s)) else s.

Lemma save_normalised : forall s, (h_nb_analogs (hdr s) = 0 -> Forall empty_subs (frames s)) -> save (normalised s) = save s.
Proof.
  intros s H. unfold normalised. destruct (h_nb_analogs (hdr s) =? 0) eqn:E; [|reflexivity].
  unfold save, set_frames. cbn [pro groups hdr frames]. rewrite data_section_norm by (apply H; lia). reflexivity.
Qed.

Section WithOps.
Variable f_key : f32 -> outcome Z.
Variable f_tosize : f32 -> outcome N.
Variable f_div : f32 -> f32 -> f32.

Definition lsn_ok_b (s : state) : bool :=
  ls_ok_b f_key f_tosize f_div (normalised s) &&
  (negb (h_nb_analogs (hdr s) =? 0) || forallb empty_subs_b (frames s)).

(* what C01 needs: the file of s loads to the normalised object *)
Theorem lsn_ok_load_save : forall s, lsn_ok_b s = true ->
  exists bytes blocks pn an, save s = Ok bytes /\
    load f_key f_tosize f_div bytes = Ok (reloaded (normalised s) blocks pn an).
Proof.
  intros s H. unfold lsn_ok_b in H. apply andb_prop in H. destruct H as [H1 H2].
  destruct (ls_ok_load_save f_key f_tosize f_div (normalised s) H1) as (bytes & blocks & pn & an & _ & Sv & Ld).
  exists bytes, blocks, pn, an. split; [|exact Ld].
  rewrite <- Sv. symmetry. apply save_normalised. intros E.
  apply orb_prop in H2. destruct H2 as [H2|H2]; [rewrite E in H2; discriminate|].
  exact (forallb_Forall _ _ _ _ empty_subs_b_ok H2).
Qed.

(* normalising changes no point and no channel value: the frames keep their points, and an object with channels is untouched *)
Lemma normalised_points : forall s, map fr_pts (frames (normalised s)) = map fr_pts (frames s).
Proof.
  intros s. unfold normalised. destruct (h_nb_analogs (hdr s) =? 0); [|reflexivity].
  unfold set_frames. cbn [frames]. rewrite map_map. reflexivity.
Qed.
Lemma normalised_with_channels : forall s, h_nb_analogs (hdr s) <> 0 -> normalised s = s.
Proof. intros s H. unfold normalised. destruct (h_nb_analogs (hdr s) =? 0) eqn:E; [lia|reflexivity]. Qed.
End WithOps.

(* and C04: the reloaded object saves to the same bytes *)
Definition ls4n_ok_b f_key f_tosize f_div (s : state) : bool :=
  lsn_ok_b f_key f_tosize f_div s && (ps_start (pro s) =? 1) && ds_stable_b (groups s).

Theorem ls4n_ok_second_generation : forall f_key f_tosize f_div s, ls4n_ok_b f_key f_tosize f_div s = true ->
  exists bytes s1, save s = Ok bytes /\ load f_key f_tosize f_div bytes = Ok s1 /\ save s1 = Ok bytes.
Proof.
  intros f_key f_tosize f_div s H. unfold ls4n_ok_b in H. apply andb_prop in H. destruct H as [H H3]. apply andb_prop in H. destruct H as [H1 H2].
  pose proof H1 as H1'. unfold lsn_ok_b in H1'. apply andb_prop in H1'. destruct H1' as [_ Hs].
  destruct (lsn_ok_load_save f_key f_tosize f_div s H1) as (bytes & blocks & pn & an & Sv & Ld).
  exists bytes, (reloaded (normalised s) blocks pn an). split; [exact Sv|]. split; [exact Ld|].
  assert (Pn : pro (normalised s) = pro s /\ groups (normalised s) = groups s).
  { unfold normalised. destruct (h_nb_analogs (hdr s) =? 0); split; reflexivity. }
  destruct Pn as [Pp Pg].
  rewrite (save_reloaded (normalised s) blocks pn an); [| rewrite Pp; lia | rewrite Pg; exact (ds_stable_of_b _ H3)].
  rewrite save_normalised; [exact Sv|]. intros E.
  apply orb_prop in Hs. destruct Hs as [Hs|Hs]; [rewrite E in Hs; discriminate|].
  exact (forallb_Forall _ _ _ _ empty_subs_b_ok Hs).
Qed.
