(* Spec_Typed.v — "the mandatory POINT/ANALOG parameters are well typed": the computable hypothesis of the
   theorems about the updaters (C10, C05).  Kept apart from the proofs so that it is extracted with the
   model and evaluated on the model's snapshots by the checks. *)
From EZ Require Import Base Types Api Proofs_Param.
Local Open Scope N_scope.

(* ---------- well-typed mandatory parameters ---------- *)
Inductive kind := KInt1 | KFlt1 | KInts | KFlts | KStrs | KAny.
Definition LIM : N := 4294967296.
Definition size_ok (p : param) : bool :=
  (nlen (p_ints p) <? LIM) && (nlen (p_floats p) <? LIM) && (nlen (p_strs p) <? LIM).
Definition type_ok (k : kind) (p : param) : bool :=
  match k, p_type p with
  | KInt1, TInt => negb (nlen (p_ints p) =? 0)
  | KFlt1, TFloat => negb (nlen (p_floats p) =? 0)
  | KInts, TInt => true
  | KFlts, TFloat => true
  | KStrs, TChar => true
  | KAny, _ => true
  | _, _ => false
  end.
Definition kind_ok (k : kind) (p : param) : bool := type_ok k p && size_ok p.

(* what the updaters read (and with which getter) *)
Definition MAND : list (bstr * bstr * kind) :=
  [ (nm_POINT, nm_USED, KInt1); (nm_POINT, nm_FRAMES, KInt1); (nm_POINT, nm_RATE, KFlt1);
    (nm_POINT, nm_LABELS, KStrs); (nm_POINT, nm_DESCRIPTIONS, KAny); (nm_POINT, nm_UNITS, KAny);
    (nm_ANALOG, nm_USED, KInt1); (nm_ANALOG, nm_RATE, KFlt1); (nm_ANALOG, nm_LABELS, KStrs);
    (nm_ANALOG, nm_DESCRIPTIONS, KAny); (nm_ANALOG, nm_SCALE, KFlts); (nm_ANALOG, nm_OFFSET, KInts);
    (nm_ANALOG, nm_UNITS, KStrs) ].

Definition mt_entry (gs : list group) (x : bstr * bstr * kind) : bool :=
  let '(g, n, k) := x in match lookup gs g n with Ok p => kind_ok k p | _ => false end.
Definition mt_b (gs : list group) : bool := forallb (mt_entry gs) MAND.
Definition MT (gs : list group) : Prop := mt_b gs = true.

