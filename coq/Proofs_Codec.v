(* Proofs_Codec.v — stages of the codec round trip (C01/C02/C04/C12): what the loader's readers
   return on exactly the bytes the writer emits.  Stage 1: scalars on a stream.  Stage 2: the data
   section — every point's x, y, z and residual and every analog sample, as bit patterns, for any
   number of frames, points, sub-frames and channels. *)
From Coq Require Import Lia.
From EZ Require Import Base Bytes Types Api Enc Dec Proofs_Bytes Proofs_Lookup Proofs_Section.
Local Open Scope N_scope.

Definition adv (st : stream) (n : nat) (r : list N) : stream :=
  mkStream (st_file st) (st_pos st + N.of_nat n) r false.

Lemma firstn_app_exact : forall A (x r : list A), firstn (length x) (x ++ r) = x.
Proof. induction x as [|a x IH]; intros r; simpl; [reflexivity|]. f_equal. apply IH. Qed.
Lemma skipn_app_exact : forall A (x r : list A), skipn (length x) (x ++ r) = r.
Proof. induction x as [|a x IH]; intros r; simpl; [reflexivity|]. apply IH. Qed.

(* reading exactly the bytes that are there *)
Lemma rd_bytes_exact : forall st x r, st_fail st = false -> st_rest st = x ++ r ->
  rd_bytes (length x) st = Ok (x, adv st (length x) r).
Proof.
  intros st x r Hf Hr. unfold rd_bytes, read. rewrite Hf, Hr, firstn_app_exact, skipn_app_exact.
  rewrite Nat.ltb_irrefl. reflexivity.
Qed.

Lemma adv_fail : forall st n r, st_fail (adv st n r) = false. Proof. reflexivity. Qed.
Lemma adv_rest : forall st n r, st_rest (adv st n r) = r. Proof. reflexivity. Qed.
Lemma adv_adv : forall st n m r r', adv (adv st n r) m r' = adv st (n + m) r'.
Proof. intros. unfold adv. cbn [st_file st_pos]. f_equal. lia. Qed.

Definition wf32 (v : N) : Prop := v < 4294967296.

Lemma w4_length : forall v, length (w4 v) = 4%nat.
Proof. intros v. unfold w4, le_bytesN. apply le_bytes_length. Qed.

(* Dec.f32_of_bytes is the assembly proved exact in Proofs_Bytes *)
Lemma f32_of_bytes_same : forall bs, Dec.f32_of_bytes bs = Proofs_Bytes.f32_of_bytes bs.
Proof. intros bs. reflexivity. Qed.

(* stage 1: a float written by the writer is read back as the same pattern *)
Lemma rd_float_written : forall st v r, wf32 v -> st_fail st = false -> st_rest st = w4 v ++ r ->
  rd_float st = Ok (v, adv st 4 r).
Proof.
  intros st v r Hv Hf Hr. unfold rd_float, rbind.
  pose proof (rd_bytes_exact st (w4 v) r Hf Hr) as R. rewrite w4_length in R. rewrite R.
  unfold rret. rewrite f32_of_bytes_same. unfold w4. rewrite f32_roundtrip by exact Hv. reflexivity.
Qed.

Definition wf_point (p : point) : Prop := wf32 (pt_x p) /\ wf32 (pt_y p) /\ wf32 (pt_z p) /\ wf32 (pt_r p).
Definition wf_chan (c : channel) : Prop := wf32 (ch_v c).

Fixpoint rename_points (i : N) (names : list bstr) (pts : list point) : list point :=
  match pts with
  | [] => []
  | p :: t => mkPoint (name_at names str_unlabeled_point i) (pt_x p) (pt_y p) (pt_z p) (pt_r p) :: rename_points (i + 1) names t
  end.
Fixpoint rename_chans (i : N) (names : list bstr) (cs : list channel) : list channel :=
  match cs with
  | [] => []
  | c :: t => mkChan (name_at names str_unlabeled_analog i) (ch_v c) :: rename_chans (i + 1) names t
  end.

(* stage 2a: the points of a frame — x, y, z AND residual, bit for bit; names bound by position *)
Lemma read_points_written : forall pts i names st r, Forall wf_point pts -> st_fail st = false ->
  st_rest st = concat (map point_bytes pts) ++ r ->
  read_points (length pts) i names st = Ok (rename_points i names pts, adv st (16 * length pts) r).
Proof.
  induction pts as [|p t IH]; intros i names st r Hw Hf Hr; cbn [length read_points rename_points].
  - cbn in Hr. unfold rret, adv. rewrite Nat.mul_0_r. rewrite N.add_0_r. subst r. destruct st; cbn in *; subst; reflexivity.
  - inversion Hw as [|? ? [Hx [Hy [Hz Hrr]]] Ht]; subst.
    cbn [map concat] in Hr. unfold point_bytes in Hr. rewrite <- !app_assoc in Hr.
    unfold rbind.
    rewrite (rd_float_written st (pt_x p) _ Hx Hf Hr).
    rewrite (rd_float_written (adv st 4 _) (pt_y p) _ Hy (adv_fail _ _ _) (adv_rest _ _ _)).
    rewrite (rd_float_written (adv (adv st 4 _) 4 _) (pt_z p) _ Hz (adv_fail _ _ _) (adv_rest _ _ _)).
    rewrite (rd_float_written (adv (adv (adv st 4 _) 4 _) 4 _) (pt_r p) _ Hrr (adv_fail _ _ _) (adv_rest _ _ _)).
    rewrite (IH (i + 1) names _ r Ht (adv_fail _ _ _) (adv_rest _ _ _)).
    unfold rret. rewrite !adv_adv.
    replace (4 + (4 + (4 + (4 + 16 * length t))))%nat with (16 * Datatypes.S (length t))%nat by lia. reflexivity.
Qed.

Lemma read_channels_written : forall cs i names st r, Forall wf_chan cs -> st_fail st = false ->
  st_rest st = concat (map (fun c => w4 (ch_v c)) cs) ++ r ->
  read_channels (length cs) i names st = Ok (rename_chans i names cs, adv st (4 * length cs) r).
Proof.
  induction cs as [|c t IH]; intros i names st r Hw Hf Hr; cbn [length read_channels rename_chans].
  - cbn in Hr. unfold rret, adv. rewrite Nat.mul_0_r. rewrite N.add_0_r. subst r. destruct st; cbn in *; subst; reflexivity.
  - inversion Hw as [|? ? Hc Ht]; subst. cbn [map concat] in Hr. rewrite <- app_assoc in Hr.
    unfold rbind. rewrite (rd_float_written st (ch_v c) _ Hc Hf Hr).
    rewrite (IH (i + 1) names _ r Ht (adv_fail _ _ _) (adv_rest _ _ _)).
    unfold rret. rewrite adv_adv.
    replace (4 + 4 * length t)%nat with (4 * Datatypes.S (length t))%nat by lia. reflexivity.
Qed.

(* stage 2b: the sub-frames of a frame, all with nc channels *)
Lemma read_subframes_written : forall subs nc names st r,
  Forall (fun sf => length sf = nc /\ Forall wf_chan sf) subs -> st_fail st = false ->
  st_rest st = concat (map (fun sf => concat (map (fun c => w4 (ch_v c)) sf)) subs) ++ r ->
  rd_many (length subs) (read_channels nc 0 names) st =
    Ok (map (rename_chans 0 names) subs, adv st (4 * nc * length subs) r).
Proof.
  induction subs as [|sf t IH]; intros nc names st r Hw Hf Hr; cbn [length rd_many map].
  - cbn in Hr. unfold rret, adv. rewrite Nat.mul_0_r. rewrite N.add_0_r. subst r. destruct st; cbn in *; subst; reflexivity.
  - inversion Hw as [|? ? [Hl Hc] Ht]; subst. cbn [map concat] in Hr. rewrite <- app_assoc in Hr.
    unfold rbind. rewrite (read_channels_written sf 0 names st _ Hc Hf Hr).
    rewrite (IH (length sf) names _ r Ht (adv_fail _ _ _) (adv_rest _ _ _)).
    unfold rret. rewrite adv_adv.
    replace (4 * length sf + 4 * length sf * length t)%nat with (4 * length sf * Datatypes.S (length t))%nat by lia. reflexivity.
Qed.

Definition uniform (np ns nc : nat) (f : frame) : Prop :=
  length (fr_pts f) = np /\ Forall wf_point (fr_pts f) /\ length (fr_subs f) = ns /\
  Forall (fun sf => length sf = nc /\ Forall wf_chan sf) (fr_subs f).

Definition rename_frame (pn an : list bstr) (f : frame) : frame :=
  mkFrame (rename_points 0 pn (fr_pts f)) (map (rename_chans 0 an) (fr_subs f)).

Definition frame_reader (np ns nc : nat) (pn an : list bstr) : RD frame :=
  rbind (read_points np 0 pn) (fun pts => rbind (rd_many ns (read_channels nc 0 an)) (fun subs => rret (mkFrame pts subs))).

Lemma succ_mul_dist : forall a b n : nat, (a + (b + n * (a + b)) = Datatypes.S n * (a + b))%nat.
Proof. intros a b n. cbn [Nat.mul]. lia. Qed.

(* stage 2c: the whole data section *)
Theorem data_section_roundtrip : forall fs np ns nc pn an st r,
  Forall (uniform np ns nc) fs -> st_fail st = false -> st_rest st = data_section fs ++ r ->
  rd_many (length fs) (frame_reader np ns nc pn an) st =
    Ok (map (rename_frame pn an) fs, adv st (length fs * (16 * np + 4 * nc * ns)) r).
Proof.
  induction fs as [|f t IH]; intros np ns nc pn an st r Hu Hf Hr; cbn [length rd_many map].
  - cbn in Hr. unfold rret, adv. cbn [Nat.mul]. rewrite N.add_0_r. subst r. destruct st; cbn in *; subst; reflexivity.
  - inversion Hu as [|? ? [Hnp [Hwp [Hns Hws]]] Ht]; subst.
    unfold data_section in Hr. cbn [map concat] in Hr. fold (data_section t) in Hr. unfold frame_bytes at 1 in Hr. rewrite <- !app_assoc in Hr.
    unfold rbind at 1. unfold frame_reader at 1. unfold rbind at 1.
    rewrite (read_points_written (fr_pts f) 0 pn st _ Hwp Hf Hr).
    unfold rbind at 1.
    rewrite (read_subframes_written (fr_subs f) nc an _ _ Hws (adv_fail _ _ _) (adv_rest _ _ _)).
    cbn [rret]. unfold rbind at 1.
    rewrite (IH (length (fr_pts f)) (length (fr_subs f)) nc pn an _ r Ht (adv_fail _ _ _) (adv_rest _ _ _)).
    unfold rret, rename_frame. rewrite !adv_adv.
    rewrite succ_mul_dist. reflexivity.
Qed.

(* names: when the labels are the (trimmed) names of the frame's points, binding by position is the identity *)
Lemma rtrim_names_fix : forall (names : list bstr) k n, nth_error names k = Some n -> rtrim n = n ->
  name_at names str_unlabeled_point (N.of_nat k) = n.
Proof. intros names k n H T. unfold name_at. rewrite Nat2N.id, H. exact T. Qed.

Lemma rename_points_id : forall pts k names,
  (forall j p, nth_error pts j = Some p -> nth_error names (k + j) = Some (pt_name p) /\ rtrim (pt_name p) = pt_name p) ->
  rename_points (N.of_nat k) names pts = pts.
Proof.
  induction pts as [|p t IH]; intros k names H; cbn [rename_points]; [reflexivity|].
  destruct (H 0%nat p eq_refl) as [H0 T0]. rewrite Nat.add_0_r in H0.
  rewrite (rtrim_names_fix names k (pt_name p) H0 T0).
  replace (N.of_nat k + 1) with (N.of_nat (Datatypes.S k)) by lia.
  rewrite IH; [destruct p; reflexivity|].
  intros j q Hj. specialize (H (Datatypes.S j) q Hj). replace (Datatypes.S k + j)%nat with (k + Datatypes.S j)%nat by lia. exact H.
Qed.
