(* Properties_C05.v — C05: header, POINT/ANALOG parameters and stored data always agree.
   Inv (Spec_Inv.v) is the agreement predicate; it is decidable (inv_b) and the extracted inv_b is
   evaluated on every snapshot of every run of the C05 check.
   FULL STATEMENT (visible): C05_full_statement — Inv is preserved by every accepted conforming call.
   PROVED for every state and every call: the header half (header counts / rate / frame count / channel
   count / samples per frame follow the parameters after every mutator), and for frame() the parameter half of the
   counts (POINT:FRAMES / POINT:USED / ANALOG:USED are the stored frames / points of frame 0 / channels of its first
   sub-frame after every accepted frame, on objects whose mandatory parameters are well typed).  NOT yet proved: the
   label-like lists, the shape of frames other than frame 0, and the parameter half for the column and declare calls:
   decided by the check. *)
From EZ Require Import Base Types Api Proofs_Param Proofs_Guards Spec_Inv Proofs_Inv Proofs_Header Spec_Typed Proofs_Updaters Proofs_ApiSafe Float32 Run.
Local Open Scope N_scope.

Definition conforming (s : state) (o : op) : Prop :=
  match o with
  | OFrame f _ =>
      (* the frame carries the declared shape, with the sub-frame count of the data set *)
      lk_strs (groups s) nm_POINT nm_LABELS = Some (map pt_name (fr_pts f)) /\
      nlen (fr_subs f) = (if opt_eqb (lk_int0 (groups s) nm_ANALOG nm_USED) 0 then 0 else h_byframe (hdr s)) /\
      (forall sf, In sf (fr_subs f) -> lk_strs (groups s) nm_ANALOG nm_LABELS = Some (map ch_name sf))
  | _ => True
  end.
Definition C05_full_statement : Prop := forall f_key f_tosize f_div f_is_zero s o s',
  Inv s -> conforming s o -> step f_key f_tosize f_div f_is_zero s o = ROk tt s' -> Inv s'.

(* ---- what is proved ---- *)

(* THE HEADER FOLLOWS THE PARAMETERS, from ANY state: whenever the header updater returns normally the
   header's point count, rate (to 1e-4 Hz: same key), frame count and channel count are those of POINT:USED,
   POINT:RATE, POINT:FRAMES and ANALOG:USED, the sub-frame count is that of the first stored frame when it has
   sub-frames, and nothing but the header changed *)
Theorem C05_header_follows_parameters : forall f_key f_tosize f_div b s s',
  update_header f_key f_tosize f_div b s = ROk tt s' ->
  groups s' = groups s /\ frames s' = frames s /\ pro s' = pro s /\
  (exists u, r_int0 13 (groups s) nm_POINT nm_USED = Ok u /\ h_points (hdr s') = z_to_usize u) /\
  (exists rate k, r_float0 12 (groups s) nm_POINT nm_RATE = Ok rate /\ f_key rate = Ok k /\ f_key (h_rate (hdr s')) = Ok k) /\
  (exists fz, r_int0 10 (groups s) nm_POINT nm_FRAMES = Ok fz /\
     ((h_points (hdr s') <> 0 \/ h_nb_analogs (hdr s') <> 0) -> h_nb_frames (hdr s') = z_to_usize fz)) /\
  (exists ga, group_named (groups s) nm_ANALOG = Ok ga /\
     (g_params ga = [] -> h_meas (hdr s') = 0) /\
     (g_params ga <> [] -> exists au, r_int0 17 (groups s) nm_ANALOG nm_USED = Ok au /\
        (h_byframe (hdr s') <> 0 -> z_to_usize au * h_byframe (hdr s') < two64 -> h_nb_analogs (hdr s') = z_to_usize au))) /\
  (forall fr, first_frame b s = Some fr -> fr_subs fr <> [] -> h_byframe (hdr s') = nlen (fr_subs fr)).
Proof. exact update_header_agrees. Qed.
Print Assumptions C05_header_follows_parameters.

(* analog samples per frame = channels x sub-frames: kept by the updater, established whenever a setter runs *)
Theorem C05_samples_are_channels_times_subframes : forall f_key f_tosize f_div b s s',
  update_header f_key f_tosize f_div b s = ROk tt s' ->
  exact (hdr s) ->
  h_nb_analogs (hdr s) * h_byframe (hdr s') < two64 ->
  (forall au, r_int0 17 (groups s) nm_ANALOG nm_USED = Ok au -> z_to_usize au * h_byframe (hdr s') < two64) ->
  exact (hdr s').
Proof. exact update_header_exact. Qed.
Print Assumptions C05_samples_are_channels_times_subframes.

(* ... and every public mutator that returns normally ends with that updater (lock toggles touch one flag) *)
Theorem C05_after_every_call : forall f_key f_tosize f_div f_is_zero s o s',
  step f_key f_tosize f_div f_is_zero s o = ROk tt s' ->
  match o with OLock _ | OUnlock _ => True | _ => ends_with_uh f_key f_tosize f_div s' end.
Proof. exact step_ends_with_updater. Qed.
Print Assumptions C05_after_every_call.

Theorem C05_initial_object : Inv init.
Proof. exact inv_init. Qed.
Print Assumptions C05_initial_object.

(* the analog counts of the header agree after its two setters, whatever it held before:
   channels = the value given, samples per frame = channels x sub-frames *)
Theorem C05_partial_analog_counts : forall h n a, n <> 0 -> h_nb_analogs h * n < two64 -> a * n < two64 ->
  let h' := h_set_nb_analogs (h_set_byframe h n) a in
  h_byframe h' = n /\ h_nb_analogs h' = a /\ h_meas h' = h_nb_analogs h' * h_byframe h'.
Proof. exact analog_counts_agree. Qed.
Print Assumptions C05_partial_analog_counts.

Theorem C05_partial_rescale_keeps_channels : forall h n, n <> 0 -> h_nb_analogs h * n < two64 ->
  h_byframe (h_set_byframe h n) = n /\ h_nb_analogs (h_set_byframe h n) = h_nb_analogs h /\
  h_meas (h_set_byframe h n) = h_nb_analogs h * n.
Proof. exact set_byframe_spec. Qed.
Print Assumptions C05_partial_rescale_keeps_channels.

(* the frame count of the header after the updater's range assignment *)
Theorem C05_partial_frame_count : forall h F, F < two64 -> (h_points h <> 0 \/ h_nb_analogs h <> 0) ->
  h_nb_frames (h_set_first_last h 0 (sub64 F 1)) = F.
Proof. exact nb_frames_after_range. Qed.
Print Assumptions C05_partial_frame_count.

(* refuted as stated for objects without points and channels: the header cannot report their frames *)
Theorem C05_empty_shape_refuted : forall h, h_points h = 0 -> h_nb_analogs h = 0 -> h_nb_frames h = 0.
Proof. exact nb_frames_empty_shape. Qed.
Print Assumptions C05_empty_shape_refuted.

(* the header updater never touches the parameter tree nor the frames; the parameter updater never the frames *)
Theorem C05_partial_updater_footprint : forall f_key f_tosize f_div b s,
  match update_header f_key f_tosize f_div b s with
  | ROk _ s' | RThrow _ s' => groups s' = groups s /\ frames s' = frames s /\ pro s' = pro s
  | RUB _ => True
  end.
Proof. exact keeps_update_header. Qed.
Print Assumptions C05_partial_updater_footprint.

(* THE PARAMETER HALF for frame(): after every accepted frame() on an object whose mandatory parameters are well typed,
   POINT:FRAMES is the number of stored frames, POINT:USED the number of points of frame 0 and ANALOG:USED the number of
   channels of its first sub-frame (0 without sub-frames), read the way the library reads them; and the parameters are
   still well typed, so the statement applies to the next call too. *)
Theorem C05_parameters_follow_data_after_frame : forall f_key f_tosize f_div f_is_zero,
  (forall x e, f_key x <> Throw e) -> (forall x e, f_tosize x <> Throw e) ->
  forall f idx s s',
  MT (groups s) -> (forall fs', put empty_frame (frames s) f idx = Ok fs' -> small_frames fs') ->
  api_frame f_key f_tosize f_div f_is_zero f idx s = ROk tt s' ->
  MT (groups s') /\ counts_follow s'.
Proof. exact api_frame_counts. Qed.
Print Assumptions C05_parameters_follow_data_after_frame.

(* what must NOT change: a frame of the shape the parameters already announce changes no parameter except POINT:FRAMES —
   the label, description, unit, scale and offset lists, the rates and every other group are exactly as before *)
Theorem C05_frame_leaves_the_other_parameters : forall f_key f_tosize f_div f_is_zero f idx s s',
  api_frame f_key f_tosize f_div f_is_zero f idx s = ROk tt s' ->
  (forall fs', put empty_frame (frames s) f idx = Ok fs' -> counts_agree (set_frames s fs')) ->
  forall g n, (g <> nm_POINT \/ n <> nm_FRAMES) -> lookup (groups s') g n = lookup (groups s) g n.
Proof. exact api_frame_keeps_parameters. Qed.
Print Assumptions C05_frame_leaves_the_other_parameters.

(* witnesses of the three known findings, on the executable instance *)
Example C05_frames_without_shape_refuted :
  exists s1, step_x init (OFrame (mkFrame [] []) None) = ROk tt s1 /\ inv_b s1 = false.
Proof. eexists. split; [vm_compute; reflexivity|]. vm_compute. reflexivity. Qed.
Print Assumptions C05_frames_without_shape_refuted.

Example C05_frame0_unfilled_refuted :
  let rate := mkParam nm_RATE [] false TFloat [1] [] [1120403456] [] in
  exists s1 s2 s3, step_x init (OPoint [97]) = ROk tt s1 /\ step_x s1 (OParam nm_POINT rate) = ROk tt s2 /\
    step_x s2 (OFrame (mkFrame [mkPoint [97] 0 0 0 0] []) (Some 2)) = ROk tt s3 /\ inv_b s2 = true /\ inv_b s3 = false.
Proof.
  do 3 eexists.
  split; [vm_compute; reflexivity|]. split; [vm_compute; reflexivity|]. split; [vm_compute; reflexivity|].
  split; vm_compute; reflexivity.
Qed.
Print Assumptions C05_frame0_unfilled_refuted.

(* non-vacuity of Inv: a conforming history reaches states on which it holds, with data *)
Example C05_nonvacuous :
  let rate := mkParam nm_RATE [] false TFloat [1] [] [1120403456] [] in
  let f := mkFrame [mkPoint [97] 1 2 3 4] [] in
  exists s1 s2 s3 s4, step_x init (OPoint [97]) = ROk tt s1 /\ step_x s1 (OParam nm_POINT rate) = ROk tt s2 /\
    step_x s2 (OFrame f None) = ROk tt s3 /\ step_x s3 (OFrame f None) = ROk tt s4 /\
    inv_b s1 = true /\ inv_b s2 = true /\ inv_b s3 = true /\ inv_b s4 = true /\ nlen (frames s4) = 2.
Proof.
  do 4 eexists.
  split; [vm_compute; reflexivity|]. split; [vm_compute; reflexivity|]. split; [vm_compute; reflexivity|].
  split; [vm_compute; reflexivity|]. repeat split; vm_compute; reflexivity.
Qed.
Print Assumptions C05_nonvacuous.
