(* Properties_C05.v — C05: header, POINT/ANALOG parameters and stored data always agree.
   Inv (Spec_Inv.v) is the agreement predicate; it is decidable (inv_b) and the extracted inv_b is
   evaluated on every snapshot of every run of the C05 check.
   FULL STATEMENT (visible, not yet proved in Coq — the check decides it on generated histories):
     C05_full: Inv is preserved by every accepted conforming call and holds of every reachable state. *)
From EZ Require Import Base Types Api Proofs_Param Spec_Inv Proofs_Inv Float32 Run.
Local Open Scope N_scope.

Definition conforming (s : state) (o : op) : Prop :=
  match o with
  | OFrame f _ =>
      (* the frame carries the declared shape, with the sub-frame count of the data set *)
      lk_strs (groups s) nm_POINT nm_LABELS = Some (map pt_name (fr_pts f)) /\
      nlen (fr_subs f) = (if opt_eqb (lk_int0 (groups s) nm_ANALOG nm_USED) 0 then 0 else h_byframe (hdr s)) /\
      (forall sf, In sf (fr_subs f) -> lk_strs (groups s) nm_ANALOG nm_LABELS = Some (map ch_name sf))
  | _ => True
  end.
Definition C05_full_statement : Prop := forall f_key f_tosize f_div f_is_zero s o s',
  Inv s -> conforming s o -> step f_key f_tosize f_div f_is_zero s o = ROk tt s' -> Inv s'.

(* ---- what is proved ---- *)
Theorem C05_initial_object : Inv init.
Proof. exact inv_init. Qed.
Print Assumptions C05_initial_object.

(* the analog counts of the header agree after its two setters, whatever it held before:
   channels = the value given, samples per frame = channels x sub-frames *)
Theorem C05_partial_analog_counts : forall h n a, n <> 0 -> h_nb_analogs h * n < two64 -> a * n < two64 ->
  let h' := h_set_nb_analogs (h_set_byframe h n) a in
  h_byframe h' = n /\ h_nb_analogs h' = a /\ h_meas h' = h_nb_analogs h' * h_byframe h'.
Proof. exact analog_counts_agree. Qed.
Print Assumptions C05_partial_analog_counts.

Theorem C05_partial_rescale_keeps_channels : forall h n, n <> 0 -> h_nb_analogs h * n < two64 ->
  h_byframe (h_set_byframe h n) = n /\ h_nb_analogs (h_set_byframe h n) = h_nb_analogs h /\
  h_meas (h_set_byframe h n) = h_nb_analogs h * n.
Proof. exact set_byframe_spec. Qed.
Print Assumptions C05_partial_rescale_keeps_channels.

(* the frame count of the header after the updater's range assignment *)
Theorem C05_partial_frame_count : forall h F, F < two64 -> (h_points h <> 0 \/ h_nb_analogs h <> 0) ->
  h_nb_frames (h_set_first_last h 0 (sub64 F 1)) = F.
Proof. exact nb_frames_after_range. Qed.
Print Assumptions C05_partial_frame_count.

(* refuted as stated for objects without points and channels: the header cannot report their frames *)
Theorem C05_empty_shape_refuted : forall h, h_points h = 0 -> h_nb_analogs h = 0 -> h_nb_frames h = 0.
Proof. exact nb_frames_empty_shape. Qed.
Print Assumptions C05_empty_shape_refuted.

(* the header updater never touches the parameter tree nor the frames; the parameter updater never the frames *)
Theorem C05_partial_updater_footprint : forall f_key f_tosize f_div b s,
  match update_header f_key f_tosize f_div b s with
  | ROk _ s' | RThrow _ s' => groups s' = groups s /\ frames s' = frames s /\ pro s' = pro s
  | RUB _ => True
  end.
Proof. exact keeps_update_header. Qed.
Print Assumptions C05_partial_updater_footprint.

(* witnesses of the three known findings, on the executable instance *)
Example C05_frames_without_shape_refuted :
  exists s1, step_x init (OFrame (mkFrame [] []) None) = ROk tt s1 /\ inv_b s1 = false.
Proof. eexists. split; [vm_compute; reflexivity|]. vm_compute. reflexivity. Qed.
Print Assumptions C05_frames_without_shape_refuted.

Example C05_frame0_unfilled_refuted :
  let rate := mkParam nm_RATE [] false TFloat [1] [] [1120403456] [] in
  exists s1 s2 s3, step_x init (OPoint [97]) = ROk tt s1 /\ step_x s1 (OParam nm_POINT rate) = ROk tt s2 /\
    step_x s2 (OFrame (mkFrame [mkPoint [97] 0 0 0 0] []) (Some 2)) = ROk tt s3 /\ inv_b s2 = true /\ inv_b s3 = false.
Proof.
  do 3 eexists.
  split; [vm_compute; reflexivity|]. split; [vm_compute; reflexivity|]. split; [vm_compute; reflexivity|].
  split; vm_compute; reflexivity.
Qed.
Print Assumptions C05_frame0_unfilled_refuted.

(* non-vacuity of Inv: a conforming history reaches states on which it holds, with data *)
Example C05_nonvacuous :
  let rate := mkParam nm_RATE [] false TFloat [1] [] [1120403456] [] in
  let f := mkFrame [mkPoint [97] 1 2 3 4] [] in
  exists s1 s2 s3 s4, step_x init (OPoint [97]) = ROk tt s1 /\ step_x s1 (OParam nm_POINT rate) = ROk tt s2 /\
    step_x s2 (OFrame f None) = ROk tt s3 /\ step_x s3 (OFrame f None) = ROk tt s4 /\
    inv_b s1 = true /\ inv_b s2 = true /\ inv_b s3 = true /\ inv_b s4 = true /\ nlen (frames s4) = 2.
Proof.
  do 4 eexists.
  split; [vm_compute; reflexivity|]. split; [vm_compute; reflexivity|]. split; [vm_compute; reflexivity|].
  split; [vm_compute; reflexivity|]. repeat split; vm_compute; reflexivity.
Qed.
Print Assumptions C05_nonvacuous.
