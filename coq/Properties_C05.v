(* Properties_C05.v — C05: header, POINT/ANALOG parameters and stored data always agree.
   Inv (Spec_Inv.v) is the agreement predicate; it is decidable (inv_b) and the extracted inv_b is
   evaluated on every snapshot of every run of the C05 check.
   FULL STATEMENT (visible): C05_full_statement — Inv is preserved by every accepted conforming call.
   PROVED for every state and every call: the header half (header counts / rate / frame count / channel
   count / samples per frame follow the parameters after every mutator), and for frame() the parameter half of the
   counts (POINT:FRAMES / POINT:USED / ANALOG:USED are the stored frames / points of frame 0 / channels of its first
   sub-frame after every accepted frame, on objects whose mandatory parameters are well typed); and the WHOLE predicate Inv
   (all ten components, every stored frame, the label-like lists and their order) is preserved when a frame of the announced
   shape is appended to a data set that holds analog data (C05_frame_append_preserves_the_agreement) or points only
   (C05_frame_append_points_only), or REPLACES any stored frame, frame 0 included (C05_frame_replace_preserves_the_agreement;
   or extends the data set beyond the count — every index at once: C05_frame_any_index; the general form is
   C05_frame_call_general), and by induction over the calls for a whole recording of appended frames (C05_recording_session), also when it starts from
   the declared, still empty object (C05_recording_from_empty); and c3d::parameter on
   any other group keeps it (C05_parameter_elsewhere).  the DECLARATION PHASE is covered from the constructor for every list of names (C05_declaring_keeps_the_agreement,
   C05_declarations_from_the_constructor), setting a rate on an object without data keeps it (C05_rate_keeps_the_agreement), and THE WHOLE
   SESSION from the constructor — declare, set the rates, record — is one theorem without any hypothesis on an intermediate state
   (C05_whole_session_from_the_constructor), and at every intermediate state of it
   (C05_session_every_intermediate_state).  NOT yet proved: the whole predicate for extensions of a points-only data set, for the column
   calls and for the other edits of POINT / ANALOG parameters: decided by the check. *)
From EZ Require Import Base Types Api Proofs_Param Proofs_Guards Spec_Inv Proofs_Inv Proofs_Header Spec_Typed Proofs_Updaters Proofs_ApiSafe Proofs_InvFrame Proofs_InvParam Proofs_Declare Proofs_InvDeclare Proofs_InvRate Float32 Run.
Local Open Scope N_scope.

Definition conforming (s : state) (o : op) : Prop :=
  match o with
  | OFrame f _ =>
      (* the frame carries the declared shape, with the sub-frame count of the data set *)
      lk_strs (groups s) nm_POINT nm_LABELS = Some (map pt_name (fr_pts f)) /\
      nlen (fr_subs f) = (if opt_eqb (lk_int0 (groups s) nm_ANALOG nm_USED) 0 then 0 else h_byframe (hdr s)) /\
      (forall sf, In sf (fr_subs f) -> lk_strs (groups s) nm_ANALOG nm_LABELS = Some (map ch_name sf))
  | _ => True
  end.
Definition C05_full_statement : Prop := forall f_key f_tosize f_div f_is_zero s o s',
  Inv s -> conforming s o -> step f_key f_tosize f_div f_is_zero s o = ROk tt s' -> Inv s'.

(* ---- what is proved ---- *)

(* THE HEADER FOLLOWS THE PARAMETERS, from ANY state: whenever the header updater returns normally the
   header's point count, rate (to 1e-4 Hz: same key), frame count and channel count are those of POINT:USED,
   POINT:RATE, POINT:FRAMES and ANALOG:USED, the sub-frame count is that of the first stored frame when it has
   sub-frames, and nothing but the header changed *)
Theorem C05_header_follows_parameters : forall f_key f_tosize f_div b s s',
  update_header f_key f_tosize f_div b s = ROk tt s' ->
  groups s' = groups s /\ frames s' = frames s /\ pro s' = pro s /\
  (exists u, r_int0 13 (groups s) nm_POINT nm_USED = Ok u /\ h_points (hdr s') = z_to_usize u) /\
  (exists rate k, r_float0 12 (groups s) nm_POINT nm_RATE = Ok rate /\ f_key rate = Ok k /\ f_key (h_rate (hdr s')) = Ok k) /\
  (exists fz, r_int0 10 (groups s) nm_POINT nm_FRAMES = Ok fz /\
     ((h_points (hdr s') <> 0 \/ h_nb_analogs (hdr s') <> 0) -> h_nb_frames (hdr s') = z_to_usize fz)) /\
  (exists ga, group_named (groups s) nm_ANALOG = Ok ga /\
     (g_params ga = [] -> h_meas (hdr s') = 0) /\
     (g_params ga <> [] -> exists au, r_int0 17 (groups s) nm_ANALOG nm_USED = Ok au /\
        (h_byframe (hdr s') <> 0 -> z_to_usize au * h_byframe (hdr s') < two64 -> h_nb_analogs (hdr s') = z_to_usize au))) /\
  (forall fr, first_frame b s = Some fr -> fr_subs fr <> [] -> h_byframe (hdr s') = nlen (fr_subs fr)).
Proof. exact update_header_agrees. Qed.
Print Assumptions C05_header_follows_parameters.

(* analog samples per frame = channels x sub-frames: kept by the updater, established whenever a setter runs *)
Theorem C05_samples_are_channels_times_subframes : forall f_key f_tosize f_div b s s',
  update_header f_key f_tosize f_div b s = ROk tt s' ->
  exact (hdr s) ->
  h_nb_analogs (hdr s) * h_byframe (hdr s') < two64 ->
  (forall au, r_int0 17 (groups s) nm_ANALOG nm_USED = Ok au -> z_to_usize au * h_byframe (hdr s') < two64) ->
  exact (hdr s').
Proof. exact update_header_exact. Qed.
Print Assumptions C05_samples_are_channels_times_subframes.

(* ... and every public mutator that returns normally ends with that updater (lock toggles touch one flag) *)
Theorem C05_after_every_call : forall f_key f_tosize f_div f_is_zero s o s',
  step f_key f_tosize f_div f_is_zero s o = ROk tt s' ->
  match o with OLock _ | OUnlock _ => True | _ => ends_with_uh f_key f_tosize f_div s' end.
Proof. exact step_ends_with_updater. Qed.
Print Assumptions C05_after_every_call.

Theorem C05_initial_object : Inv init.
Proof. exact inv_init. Qed.
Print Assumptions C05_initial_object.

(* the analog counts of the header agree after its two setters, whatever it held before:
   channels = the value given, samples per frame = channels x sub-frames *)
Theorem C05_partial_analog_counts : forall h n a, n <> 0 -> h_nb_analogs h * n < two64 -> a * n < two64 ->
  let h' := h_set_nb_analogs (h_set_byframe h n) a in
  h_byframe h' = n /\ h_nb_analogs h' = a /\ h_meas h' = h_nb_analogs h' * h_byframe h'.
Proof. exact analog_counts_agree. Qed.
Print Assumptions C05_partial_analog_counts.

Theorem C05_partial_rescale_keeps_channels : forall h n, n <> 0 -> h_nb_analogs h * n < two64 ->
  h_byframe (h_set_byframe h n) = n /\ h_nb_analogs (h_set_byframe h n) = h_nb_analogs h /\
  h_meas (h_set_byframe h n) = h_nb_analogs h * n.
Proof. exact set_byframe_spec. Qed.
Print Assumptions C05_partial_rescale_keeps_channels.

(* the frame count of the header after the updater's range assignment *)
Theorem C05_partial_frame_count : forall h F, F < two64 -> (h_points h <> 0 \/ h_nb_analogs h <> 0) ->
  h_nb_frames (h_set_first_last h 0 (sub64 F 1)) = F.
Proof. exact nb_frames_after_range. Qed.
Print Assumptions C05_partial_frame_count.

(* refuted as stated for objects without points and channels: the header cannot report their frames *)
Theorem C05_empty_shape_refuted : forall h, h_points h = 0 -> h_nb_analogs h = 0 -> h_nb_frames h = 0.
Proof. exact nb_frames_empty_shape. Qed.
Print Assumptions C05_empty_shape_refuted.

(* the header updater never touches the parameter tree nor the frames; the parameter updater never the frames *)
Theorem C05_partial_updater_footprint : forall f_key f_tosize f_div b s,
  match update_header f_key f_tosize f_div b s with
  | ROk _ s' | RThrow _ s' => groups s' = groups s /\ frames s' = frames s /\ pro s' = pro s
  | RUB _ => True
  end.
Proof. exact keeps_update_header. Qed.
Print Assumptions C05_partial_updater_footprint.

(* THE PARAMETER HALF for frame(): after every accepted frame() on an object whose mandatory parameters are well typed,
   POINT:FRAMES is the number of stored frames, POINT:USED the number of points of frame 0 and ANALOG:USED the number of
   channels of its first sub-frame (0 without sub-frames), read the way the library reads them; and the parameters are
   still well typed, so the statement applies to the next call too. *)
Theorem C05_parameters_follow_data_after_frame : forall f_key f_tosize f_div f_is_zero,
  (forall x e, f_key x <> Throw e) -> (forall x e, f_tosize x <> Throw e) ->
  forall f idx s s',
  MT (groups s) -> (forall fs', put empty_frame (frames s) f idx = Ok fs' -> small_frames fs') ->
  api_frame f_key f_tosize f_div f_is_zero f idx s = ROk tt s' ->
  MT (groups s') /\ counts_follow s'.
Proof. exact api_frame_counts. Qed.
Print Assumptions C05_parameters_follow_data_after_frame.

(* what must NOT change: a frame of the shape the parameters already announce changes no parameter except POINT:FRAMES —
   the label, description, unit, scale and offset lists, the rates and every other group are exactly as before *)
Theorem C05_frame_leaves_the_other_parameters : forall f_key f_tosize f_div f_is_zero f idx s s',
  api_frame f_key f_tosize f_div f_is_zero f idx s = ROk tt s' ->
  (forall fs', put empty_frame (frames s) f idx = Ok fs' -> counts_agree (set_frames s fs')) ->
  forall g n, (g <> nm_POINT \/ n <> nm_FRAMES) -> lookup (groups s') g n = lookup (groups s) g n.
Proof. exact api_frame_keeps_parameters. Qed.
Print Assumptions C05_frame_leaves_the_other_parameters.

(* witnesses of the three known findings, on the executable instance *)
Example C05_frames_without_shape_refuted :
  exists s1, step_x init (OFrame (mkFrame [] []) None) = ROk tt s1 /\ inv_b s1 = false.
Proof. eexists. split; [vm_compute; reflexivity|]. vm_compute. reflexivity. Qed.
Print Assumptions C05_frames_without_shape_refuted.

Example C05_frame0_unfilled_refuted :
  let rate := mkParam nm_RATE [] false TFloat [1] [] [1120403456] [] in
  exists s1 s2 s3, step_x init (OPoint [97]) = ROk tt s1 /\ step_x s1 (OParam nm_POINT rate) = ROk tt s2 /\
    step_x s2 (OFrame (mkFrame [mkPoint [97] 0 0 0 0] []) (Some 2)) = ROk tt s3 /\ inv_b s2 = true /\ inv_b s3 = false.
Proof.
  do 3 eexists.
  split; [vm_compute; reflexivity|]. split; [vm_compute; reflexivity|]. split; [vm_compute; reflexivity|].
  split; vm_compute; reflexivity.
Qed.
Print Assumptions C05_frame0_unfilled_refuted.

(* non-vacuity of Inv: a conforming history reaches states on which it holds, with data *)
Example C05_nonvacuous :
  let rate := mkParam nm_RATE [] false TFloat [1] [] [1120403456] [] in
  let f := mkFrame [mkPoint [97] 1 2 3 4] [] in
  exists s1 s2 s3 s4, step_x init (OPoint [97]) = ROk tt s1 /\ step_x s1 (OParam nm_POINT rate) = ROk tt s2 /\
    step_x s2 (OFrame f None) = ROk tt s3 /\ step_x s3 (OFrame f None) = ROk tt s4 /\
    inv_b s1 = true /\ inv_b s2 = true /\ inv_b s3 = true /\ inv_b s4 = true /\ nlen (frames s4) = 2.
Proof.
  do 4 eexists.
  split; [vm_compute; reflexivity|]. split; [vm_compute; reflexivity|]. split; [vm_compute; reflexivity|].
  split; [vm_compute; reflexivity|]. repeat split; vm_compute; reflexivity.
Qed.
Print Assumptions C05_nonvacuous.

(* THE WHOLE AGREEMENT, every component at once, across frame(): from a state in which header, parameters and stored frames
   agree (Inv: header counts, POINT:FRAMES / USED, ANALOG:USED, the shape of EVERY filled frame, the eight label-like lists,
   the label order), appending a frame of the announced shape (the declared point names in order, the data set's sub-frame
   count, the declared channel names in every sub-frame) to a data set with analog data leads to a state in which they agree
   again.  Side conditions: mandatory parameters well typed (MT), frame 0 holds sub-frames and at least one channel is
   declared (the data, not the rates, fix the sub-frame count), counts below 2^31. *)
Theorem C05_frame_append_preserves_the_agreement : forall f_key f_tosize f_div f_is_zero,
  (forall x e, f_key x <> Throw e) -> (forall x e, f_tosize x <> Throw e) ->
  forall f s s' f0 ft a,
  Inv s -> MT (groups s) ->
  frames s = f0 :: ft -> fr_subs f0 <> [] ->
  lk_int0 (groups s) nm_ANALOG nm_USED = Some a -> a <> 0 ->
  announced s f ->
  nlen (frames s) + 1 < 2147483648 -> nlen (fr_pts f0) < 2147483648 -> a < 2147483648 -> a * h_byframe (hdr s) < two64 ->
  api_frame f_key f_tosize f_div f_is_zero f None s = ROk tt s' ->
  Inv s'.
Proof. exact frame_append_keeps_inv. Qed.
Print Assumptions C05_frame_append_preserves_the_agreement.

(* replacing a stored frame — any index below the count, frame 0 (the shape reference of the updaters) included *)
Theorem C05_frame_replace_preserves_the_agreement : forall f_key f_tosize f_div f_is_zero,
  (forall x e, f_key x <> Throw e) -> (forall x e, f_tosize x <> Throw e) ->
  forall f i s s' f0 ft a,
  Inv s -> MT (groups s) ->
  frames s = f0 :: ft -> fr_subs f0 <> [] ->
  lk_int0 (groups s) nm_ANALOG nm_USED = Some a -> a <> 0 ->
  announced s f ->
  i < nlen (frames s) ->
  nlen (frames s) < 2147483648 -> nlen (fr_pts f0) < 2147483648 -> a < 2147483648 -> a * h_byframe (hdr s) < two64 ->
  api_frame f_key f_tosize f_div f_is_zero f (Some i) s = ROk tt s' ->
  Inv s'.
Proof. exact frame_replace_keeps_inv. Qed.
Print Assumptions C05_frame_replace_preserves_the_agreement.

(* EVERY INDEX AT ONCE: append (no index), replace (index below the count, frame 0 included), extend (index at or beyond
   the count: the frames in between stay unfilled) — on a data set whose frame 0 holds analog data, any accepted frame() of
   the announced shape leaves header, parameters and stored frames in agreement *)
Theorem C05_frame_any_index : forall f_key f_tosize f_div f_is_zero,
  (forall x e, f_key x <> Throw e) -> (forall x e, f_tosize x <> Throw e) ->
  forall f idx s s' f0 ft a,
  Inv s -> MT (groups s) ->
  frames s = f0 :: ft -> fr_subs f0 <> [] ->
  lk_int0 (groups s) nm_ANALOG nm_USED = Some a -> a <> 0 ->
  announced s f ->
  nlen (frames s) + 1 < 2147483648 -> (forall i, idx = Some i -> i + 1 < 2147483648) ->
  nlen (fr_pts f0) < 2147483648 -> a < 2147483648 -> a * h_byframe (hdr s) < two64 ->
  api_frame f_key f_tosize f_div f_is_zero f idx s = ROk tt s' ->
  Inv s'.
Proof. exact frame_any_index_keeps_inv. Qed.
Print Assumptions C05_frame_any_index.

(* A WHOLE RECORDING, by induction over the calls: any number of frames of the announced shape appended one after the other
   (the shape announced ONCE, by the state the recording starts from) — after the last one header, parameters and stored frames
   agree, and the data set holds exactly the frames supplied, in order *)
Theorem C05_recording_session : forall f_key f_tosize f_div f_is_zero,
  (forall x e, f_key x <> Throw e) -> (forall x e, f_tosize x <> Throw e) ->
  forall fs s s' f0 ft a,
  Inv s -> MT (groups s) -> frames s = f0 :: ft -> fr_subs f0 <> [] ->
  lk_int0 (groups s) nm_ANALOG nm_USED = Some a -> a <> 0 -> Forall (announced s) fs ->
  nlen (frames s) + nlen fs < 2147483648 -> nlen (fr_pts f0) < 2147483648 -> a < 2147483648 -> a * h_byframe (hdr s) < two64 ->
  run_frames f_key f_tosize f_div f_is_zero fs s = ROk tt s' ->
  Inv s' /\ frames s' = frames s ++ fs.
Proof. exact frames_session_keeps_inv. Qed.
Print Assumptions C05_recording_session.

(* c3d::parameter() on any group other than POINT and ANALOG (created when it does not exist): the header and the frames
   are exactly as before and the agreement holds — for every object whose header the updater has nothing to change, which is
   what every mutator leaves behind (C05_after_every_call) *)
Theorem C05_parameter_elsewhere : forall f_key f_tosize f_div gname p s s',
  gname <> nm_POINT -> gname <> nm_ANALOG -> p_name p <> [] -> p_type p <> TNone ->
  Inv s -> update_header f_key f_tosize f_div true s = ROk tt s ->
  api_parameter f_key f_tosize f_div gname p s = ROk tt s' ->
  Inv s' /\ hdr s' = hdr s /\ frames s' = frames s /\ groups s' = tree_after (groups s) gname p.
Proof. exact parameter_elsewhere_keeps_inv. Qed.
Print Assumptions C05_parameter_elsewhere.

(* FROM THE DECLARED, STILL EMPTY OBJECT TO THE END OF THE RECORDING: points and channels declared, rates set (the header
   then announces at least one sub-frame), no frame yet; every frame of the announced shape appended in turn *)
Theorem C05_recording_from_empty : forall f_key f_tosize f_div f_is_zero,
  (forall x e, f_key x <> Throw e) -> (forall x e, f_tosize x <> Throw e) ->
  forall f fs s s' a,
  Inv s -> MT (groups s) -> frames s = [] ->
  lk_int0 (groups s) nm_ANALOG nm_USED = Some a -> a <> 0 -> 1 <= h_byframe (hdr s) ->
  Forall (announced s) (f :: fs) ->
  1 + nlen fs < 2147483648 -> nlen (fr_pts f) < 2147483648 -> a < 2147483648 -> a * h_byframe (hdr s) < two64 ->
  run_frames f_key f_tosize f_div f_is_zero (f :: fs) s = ROk tt s' ->
  Inv s' /\ frames s' = f :: fs.
Proof. exact recording_from_empty_keeps_inv. Qed.
Print Assumptions C05_recording_from_empty.

(* the general form: whatever the index (append, replace, extend), if the frame list after the store has a first frame with
   analog data of the announced shape and names, and every filled frame has the announced shape, the agreement holds again *)
Theorem C05_frame_call_general : forall f_key f_tosize f_div f_is_zero,
  (forall x e, f_key x <> Throw e) -> (forall x e, f_tosize x <> Throw e) ->
  forall f idx s s' fs' g0 gt u a,
  Inv s -> MT (groups s) ->
  put empty_frame (frames s) f idx = Ok fs' ->
  lk_int0 (groups s) nm_POINT nm_USED = Some u ->
  lk_int0 (groups s) nm_ANALOG nm_USED = Some a -> a <> 0 -> 1 <= h_byframe (hdr s) ->
  fs' = g0 :: gt -> fr_subs g0 <> [] -> nlen (fr_subs g0) = h_byframe (hdr s) -> nlen (fr_pts g0) = u -> nan_of g0 = a ->
  lk_strs (groups s) nm_POINT nm_LABELS = Some (map pt_name (fr_pts g0)) ->
  (forall sf0 t, fr_subs g0 = sf0 :: t -> lk_strs (groups s) nm_ANALOG nm_LABELS = Some (map ch_name sf0)) ->
  forallb (fun x => nlen (fr_pts x) =? u) (filter filled fs') = true ->
  forallb (fun x => nlen (fr_subs x) =? h_byframe (hdr s)) (filter filled fs') = true ->
  forallb (fun x => forallb (fun sf : subframe => nlen sf =? a) (fr_subs x)) (filter filled fs') = true ->
  nlen fs' < 2147483648 -> u < 2147483648 -> a < 2147483648 -> a * h_byframe (hdr s) < two64 ->
  api_frame f_key f_tosize f_div f_is_zero f idx s = ROk tt s' ->
  Inv s'.
Proof. exact frame_call_keeps_inv. Qed.
Print Assumptions C05_frame_call_general.

(* the same for a data set that holds points only: no channel is declared and the rates announce no sub-frame (POINT:RATE
   is not zero — any rate, below 1 Hz too —, ANALOG:RATE / POINT:RATE truncates to 0: the sub-frame count then comes from the rates) *)
Theorem C05_frame_append_points_only : forall f_key f_tosize f_div f_is_zero,
  (forall x e, f_key x <> Throw e) -> (forall x e, f_tosize x <> Throw e) ->
  forall f s s' f0 ft,
  Inv s -> MT (groups s) ->
  frames s = f0 :: ft -> fr_pts f0 <> [] -> fr_subs f0 = [] ->
  lk_int0 (groups s) nm_ANALOG nm_USED = Some 0 ->
  rates_announce_none f_tosize f_div (groups s) ->
  announced s f ->
  nlen (frames s) + 1 < 2147483648 -> nlen (fr_pts f0) < 2147483648 ->
  api_frame f_key f_tosize f_div f_is_zero f None s = ROk tt s' ->
  Inv s'.
Proof. exact frame_append_keeps_inv_points_only. Qed.
Print Assumptions C05_frame_append_points_only.

(* non-vacuity: a data set with one point and one channel at two sub-frames per frame meets every hypothesis; the
   agreement after the second frame is obtained from the theorem, not by evaluating the predicate *)
Definition c05_demo : option state :=
  let prate := mkParam nm_RATE [] false TFloat [1] [] [1120403456] [] in
  let arate := mkParam nm_RATE [] false TFloat [1] [] [1128792064] [] in
  let f := mkFrame [mkPoint [97] 1 2 3 4] [[mkChan [99] 5]; [mkChan [99] 6]] in
  match step_x init (OPoint [97]) with ROk _ s1 =>
  match step_x s1 (OAnalog [99]) with ROk _ s2 =>
  match step_x s2 (OParam nm_POINT prate) with ROk _ s3 =>
  match step_x s3 (OParam nm_ANALOG arate) with ROk _ s4 =>
  match step_x s4 (OFrame f None) with ROk _ s5 => Some s5 | _ => None end | _ => None end | _ => None end | _ => None end | _ => None end.
Definition c05_demo_state : state := Eval vm_compute in match c05_demo with Some s => s | None => init end.
Definition c05_demo_frame : frame := mkFrame [mkPoint [97] 7 8 9 10] [[mkChan [99] 11]; [mkChan [99] 12]].

Example C05_frame_append_nonvacuous :
  exists s', step_x c05_demo_state (OFrame c05_demo_frame None) = ROk tt s' /\ nlen (frames s') = 2 /\ Inv s'.
Proof.
  destruct (step_x c05_demo_state (OFrame c05_demo_frame None)) as [[] s'| |] eqn:E; [|vm_compute in E; discriminate|vm_compute in E; discriminate].
  exists s'. split; [reflexivity|]. split; [vm_compute in E; injection E as <-; reflexivity|].
  refine (frame_append_keeps_inv f_key_impl f_tosize_impl f_div_impl f_is_zero_impl f_key_impl_nothrow f_tosize_impl_nothrow
            c05_demo_frame c05_demo_state s' (mkFrame [mkPoint [97] 1 2 3 4] [[mkChan [99] 5]; [mkChan [99] 6]]) [] 1 _ _ _ _ _ _ _ _ _ _ _ E).
  - vm_compute. reflexivity.
  - vm_compute. reflexivity.
  - reflexivity.
  - discriminate.
  - vm_compute. reflexivity.
  - discriminate.
  - split; [vm_compute; reflexivity|]. split; [vm_compute; reflexivity|].
    intros sf [<-|[<-|[]]]; vm_compute; reflexivity.
  - vm_compute. reflexivity.
  - vm_compute. reflexivity.
  - vm_compute. reflexivity.
  - vm_compute. reflexivity.
Qed.
Print Assumptions C05_frame_append_nonvacuous.

(* non-vacuity of the points-only theorem: one declared point at 100 Hz, ANALOG:RATE left at 0 *)
Definition c05_demo_p : option state :=
  let prate := mkParam nm_RATE [] false TFloat [1] [] [1120403456] [] in
  match step_x init (OPoint [97]) with ROk _ s1 =>
  match step_x s1 (OParam nm_POINT prate) with ROk _ s2 =>
  match step_x s2 (OFrame (mkFrame [mkPoint [97] 1 2 3 4] []) None) with ROk _ s3 => Some s3 | _ => None end | _ => None end | _ => None end.
Definition c05_demo_p_state : state := Eval vm_compute in match c05_demo_p with Some s => s | None => init end.

Example C05_frame_append_points_only_nonvacuous :
  exists s', step_x c05_demo_p_state (OFrame (mkFrame [mkPoint [97] 7 8 9 10] []) None) = ROk tt s' /\ nlen (frames s') = 2 /\ Inv s'.
Proof.
  destruct (step_x c05_demo_p_state (OFrame (mkFrame [mkPoint [97] 7 8 9 10] []) None)) as [[] s'| |] eqn:E; [|vm_compute in E; discriminate|vm_compute in E; discriminate].
  exists s'. split; [reflexivity|]. split; [vm_compute in E; injection E as <-; reflexivity|].
  refine (frame_append_keeps_inv_points_only f_key_impl f_tosize_impl f_div_impl f_is_zero_impl f_key_impl_nothrow f_tosize_impl_nothrow
            (mkFrame [mkPoint [97] 7 8 9 10] []) c05_demo_p_state s' (mkFrame [mkPoint [97] 1 2 3 4] []) [] _ _ _ _ _ _ _ _ _ _ E).
  - vm_compute. reflexivity.
  - vm_compute. reflexivity.
  - reflexivity.
  - discriminate.
  - reflexivity.
  - vm_compute. reflexivity.
  - intros rate Rr. vm_compute in Rr. injection Rr as <-. split.
    + reflexivity.
    + intros ar q Ra Hq. vm_compute in Ra. injection Ra as <-. vm_compute in Hq. injection Hq as <-. reflexivity.
  - split; [vm_compute; reflexivity|]. split; [vm_compute; reflexivity|]. intros sf [].
  - vm_compute. reflexivity.
  - vm_compute. reflexivity.
Qed.
Print Assumptions C05_frame_append_points_only_nonvacuous.

(* non-vacuity of the replacement theorem: frame 0 of the demo data set is replaced; the agreement comes from the theorem *)
Example C05_frame_replace_nonvacuous :
  exists s', step_x c05_demo_state (OFrame c05_demo_frame (Some 0)) = ROk tt s' /\ frames s' = [c05_demo_frame] /\ Inv s'.
Proof.
  destruct (step_x c05_demo_state (OFrame c05_demo_frame (Some 0))) as [[] s'| |] eqn:E; [|vm_compute in E; discriminate|vm_compute in E; discriminate].
  exists s'. split; [reflexivity|]. split; [vm_compute in E; injection E as <-; reflexivity|].
  refine (frame_replace_keeps_inv f_key_impl f_tosize_impl f_div_impl f_is_zero_impl f_key_impl_nothrow f_tosize_impl_nothrow
            c05_demo_frame 0 c05_demo_state s' (mkFrame [mkPoint [97] 1 2 3 4] [[mkChan [99] 5]; [mkChan [99] 6]]) [] 1 _ _ _ _ _ _ _ _ _ _ _ _ E).
  - vm_compute. reflexivity.
  - vm_compute. reflexivity.
  - reflexivity.
  - discriminate.
  - vm_compute. reflexivity.
  - discriminate.
  - split; [vm_compute; reflexivity|]. split; [vm_compute; reflexivity|].
    intros sf [<-|[<-|[]]]; vm_compute; reflexivity.
  - vm_compute. reflexivity.
  - vm_compute. reflexivity.
  - vm_compute. reflexivity.
  - vm_compute. reflexivity.
  - vm_compute. reflexivity.
Qed.
Print Assumptions C05_frame_replace_nonvacuous.

(* non-vacuity: the demo data set is a fixpoint of the header updater; a parameter in a new group EXTRA keeps the agreement *)
Example C05_parameter_elsewhere_nonvacuous :
  let q := mkParam [78; 79; 84; 69] [] false TInt [2] [1; 2]%Z [] [] in
  exists s', step_x c05_demo_state (OParam [69; 88; 84; 82; 65] q) = ROk tt s' /\ Inv s' /\ hdr s' = hdr c05_demo_state.
Proof.
  intros q. destruct (step_x c05_demo_state (OParam [69; 88; 84; 82; 65] q)) as [[] s'| |] eqn:E; [|vm_compute in E; discriminate|vm_compute in E; discriminate].
  exists s'. split; [reflexivity|].
  destruct (parameter_elsewhere_keeps_inv f_key_impl f_tosize_impl f_div_impl [69; 88; 84; 82; 65] q c05_demo_state s') as [A [B _]];
    try exact E; try (intro X; apply Proofs_Lookup.bstr_eqb_eq in X; vm_compute in X; discriminate); try discriminate.
  - vm_compute. reflexivity.
  - vm_compute. reflexivity.
  - split; assumption.
Qed.
Print Assumptions C05_parameter_elsewhere_nonvacuous.

(* non-vacuity: the declared object of the demo (one point, one channel, 100 Hz / 200 Hz, no frame) and a recording of two frames;
   the agreement after the recording and the stored frames come from the theorem *)
Definition c05_demo_declared : state := Eval vm_compute in
  let prate := mkParam nm_RATE [] false TFloat [1] [] [1120403456] [] in
  let arate := mkParam nm_RATE [] false TFloat [1] [] [1128792064] [] in
  match step_x init (OPoint [97]) with ROk _ s1 =>
  match step_x s1 (OAnalog [99]) with ROk _ s2 =>
  match step_x s2 (OParam nm_POINT prate) with ROk _ s3 =>
  match step_x s3 (OParam nm_ANALOG arate) with ROk _ s4 => s4 | _ => init end | _ => init end | _ => init end | _ => init end.

Example C05_recording_from_empty_nonvacuous :
  let f1 := mkFrame [mkPoint [97] 1 2 3 4] [[mkChan [99] 5]; [mkChan [99] 6]] in
  exists s', run_frames f_key_impl f_tosize_impl f_div_impl f_is_zero_impl [f1; c05_demo_frame] c05_demo_declared = ROk tt s' /\
             Inv s' /\ frames s' = [f1; c05_demo_frame].
Proof.
  intros f1.
  destruct (run_frames f_key_impl f_tosize_impl f_div_impl f_is_zero_impl [f1; c05_demo_frame] c05_demo_declared) as [[] s'| |] eqn:E;
    [|vm_compute in E; discriminate|vm_compute in E; discriminate].
  exists s'. split; [reflexivity|].
  refine (recording_from_empty_keeps_inv f_key_impl f_tosize_impl f_div_impl f_is_zero_impl f_key_impl_nothrow f_tosize_impl_nothrow
            f1 [c05_demo_frame] c05_demo_declared s' 1 _ _ _ _ _ _ _ _ _ _ _ E).
  - vm_compute. reflexivity.
  - vm_compute. reflexivity.
  - reflexivity.
  - vm_compute. reflexivity.
  - discriminate.
  - vm_compute. discriminate.
  - repeat constructor; try (vm_compute; reflexivity); intros sf [<-|[<-|[]]]; vm_compute; reflexivity.
  - vm_compute. reflexivity.
  - vm_compute. reflexivity.
  - vm_compute. reflexivity.
  - vm_compute. reflexivity.
Qed.
Print Assumptions C05_recording_from_empty_nonvacuous.

(* THE DECLARATION PHASE.  An object "in its declaration phase" holds no frame, its POINT:RATE is still zero, header and
   parameters agree (Inv), the mandatory parameters are well typed, samples = channels x sub-frames in the header, and its
   label lists are lP / lA.  updateParameters(newPoints, newChannels) — what point(name) and analog(name) run on such an object —
   leads to an object in its declaration phase again whose label lists are the old ones followed by the new names IN ORDER,
   with one entry per name in the description, unit, scale and offset lists (that is part of Inv), one sub-frame announced
   by the header, the prologue untouched. *)
Theorem C05_declaring_keeps_the_agreement : forall f_key f_tosize f_div,
  (forall x e, f_key x <> Throw e) -> (forall x e, f_tosize x <> Throw e) ->
  forall nP nA s s' lP lA,
  declaring s lP lA -> nlen lP + nlen nP < 2147483648 -> nlen lA + nlen nA < 2147483648 ->
  update_parameters f_key f_tosize f_div nP nA s = ROk tt s' ->
  declaring s' (lP ++ nP) (lA ++ nA) /\ pro s' = pro s /\ h_byframe (hdr s') = 1.
Proof. exact declare_step. Qed.
Print Assumptions C05_declaring_keeps_the_agreement.

(* ... and from the constructor, by induction over the calls, for EVERY list of point names and EVERY list of channel names
   (repeated names, names with trailing blanks included): point(p) for each p of ps, then analog(c) for each c of cs *)
Theorem C05_declarations_from_the_constructor : forall f_key f_tosize f_div f_is_zero,
  (forall x e, f_key x <> Throw e) -> (forall x e, f_tosize x <> Throw e) ->
  forall ps cs s', nlen ps < 2147483648 -> nlen cs < 2147483648 ->
  run_ops f_key f_tosize f_div f_is_zero (map OPoint ps ++ map OAnalog cs) init = ROk tt s' ->
  declaring s' (map rtrim ps) (map rtrim cs) /\ pro s' = pro init.
Proof. exact declarations_from_init. Qed.
Print Assumptions C05_declarations_from_the_constructor.

(* what "declaring" gives: the agreement, and the label lists in call order *)
Theorem C05_declaring_means : forall s lP lA, declaring s lP lA ->
  Inv s /\ frames s = [] /\ lk_strs (groups s) nm_POINT nm_LABELS = Some lP /\ lk_strs (groups s) nm_ANALOG nm_LABELS = Some lA.
Proof. intros s lP lA (A & _ & _ & B & C & D & _). auto. Qed.
Print Assumptions C05_declaring_means.

(* non-vacuity: three points (one padded, one repeated) and two channels on the executable instance; the calls return
   normally (evaluated), the agreement and the label lists come from the theorem *)
Example C05_declarations_nonvacuous :
  let ps := [[97]; [98; 32; 32]; [97]] in let cs := [[99]; [100; 32]] in
  exists s', run_ops f_key_impl f_tosize_impl f_div_impl f_is_zero_impl (map OPoint ps ++ map OAnalog cs) init = ROk tt s' /\
             Inv s' /\ lk_strs (groups s') nm_POINT nm_LABELS = Some [[97]; [98]; [97]] /\ lk_strs (groups s') nm_ANALOG nm_LABELS = Some [[99]; [100]].
Proof.
  intros ps cs.
  destruct (run_ops f_key_impl f_tosize_impl f_div_impl f_is_zero_impl (map OPoint ps ++ map OAnalog cs) init) as [[] s'| |] eqn:E;
    [|vm_compute in E; discriminate|vm_compute in E; discriminate].
  exists s'. split; [reflexivity|].
  destruct (declarations_from_init f_key_impl f_tosize_impl f_div_impl f_is_zero_impl f_key_impl_nothrow f_tosize_impl_nothrow ps cs s') as [D _];
    [vm_compute; reflexivity|vm_compute; reflexivity|exact E|].
  destruct D as (A & _ & _ & _ & C & D & _). split; [exact A|]. split; [exact C|exact D].
Qed.
Print Assumptions C05_declarations_nonvacuous.

(* SETTING A RATE (c3d::parameter on POINT or ANALOG with a float parameter named RATE) on an object that holds no frame: the
   agreement holds again, the mandatory parameters stay well typed, the tree differs from the old one in that parameter only.
   The two side conditions are 2^64 bounds on (channels x sub-frames announced afterwards). *)
Theorem C05_rate_keeps_the_agreement : forall f_key f_tosize f_div (f_is_zero : f32 -> bool),
  (forall x e, f_key x <> Throw e) -> (forall x e, f_tosize x <> Throw e) ->
  forall G p s s' na,
  (G = nm_POINT \/ G = nm_ANALOG) -> p_name p = nm_RATE -> kind_ok KFlt1 p = true ->
  Inv s -> MT (groups s) -> exact (hdr s) -> frames s = [] ->
  lk_int0 (groups s) nm_ANALOG nm_USED = Some na ->
  h_nb_analogs (hdr s) * h_byframe (hdr s') < two64 -> na * h_byframe (hdr s') < two64 ->
  api_parameter f_key f_tosize f_div G p s = ROk tt s' ->
  Inv s' /\ MT (groups s') /\ exact (hdr s') /\ frames s' = [] /\ pro s' = pro s /\
  lookup (groups s') G nm_RATE = Ok p /\
  (forall g n, (g <> G \/ n <> nm_RATE) -> lookup (groups s') g n = lookup (groups s) g n).
Proof. exact rate_keeps_inv. Qed.
Print Assumptions C05_rate_keeps_the_agreement.

(* THE WHOLE SESSION FROM THE CONSTRUCTOR, one statement, no hypothesis about any intermediate state: for every list of point
   names ps, every non-empty list of channel names cs, every POINT:RATE that is not zero and every ANALOG:RATE such that the
   truncated ratio q is at least 1, and every list of frames that carry the (trimmed) declared names in order with q sub-frames —
   c3d(); point(p) for p in ps; analog(c) for c in cs; parameter("POINT", rate); parameter("ANALOG", rate); frame(f) for f in fs
   — if the calls return normally, header, parameters and stored data agree and the data set holds exactly the frames given.
   (f_tosize (f_div 0 prate) = 0 says that 0 / rate truncates to 0: the float operations are parameters of the model.) *)
Theorem C05_whole_session_from_the_constructor : forall f_key f_tosize f_div f_is_zero,
  (forall x e, f_key x <> Throw e) -> (forall x e, f_tosize x <> Throw e) ->
  forall ps cs pr ar prate arate tp ta q fs s',
  cs <> [] -> nlen ps < 2147483648 -> nlen cs < 2147483648 ->
  p_name pr = nm_RATE -> kind_ok KFlt1 pr = true -> values_as_float pr = Ok (prate :: tp) -> f32_is_zero prate = false ->
  p_name ar = nm_RATE -> kind_ok KFlt1 ar = true -> values_as_float ar = Ok (arate :: ta) ->
  f_tosize (f_div 0 prate) = Ok 0 -> f_tosize (f_div arate prate) = Ok q -> 1 <= q -> nlen cs * q < two64 ->
  Forall (fun f => map pt_name (fr_pts f) = map rtrim ps /\ nlen (fr_subs f) = q /\
                   (forall sf, In sf (fr_subs f) -> map ch_name sf = map rtrim cs)) fs ->
  nlen fs < 2147483647 ->
  run_ops f_key f_tosize f_div f_is_zero
    (map OPoint ps ++ map OAnalog cs ++ [OParam nm_POINT pr; OParam nm_ANALOG ar] ++ map (fun f => OFrame f None) fs) init = ROk tt s' ->
  Inv s' /\ frames s' = fs.
Proof. exact session_end. Qed.
Print Assumptions C05_whole_session_from_the_constructor.

(* ... and AT EVERY INTERMEDIATE STATE of that session (the property says "at every intermediate state, not only the final one"):
   whatever prefix of the calls has been carried out — some of the declarations, all of them, the first rate, both rates, some of
   the frames — header, parameters and stored data agree *)
Theorem C05_session_every_intermediate_state : forall f_key f_tosize f_div f_is_zero,
  (forall x e, f_key x <> Throw e) -> (forall x e, f_tosize x <> Throw e) ->
  forall ps cs pr ar prate arate tp ta q fs s' pre post sk,
  cs <> [] -> nlen ps < 2147483648 -> nlen cs < 2147483648 ->
  p_name pr = nm_RATE -> kind_ok KFlt1 pr = true -> values_as_float pr = Ok (prate :: tp) -> f32_is_zero prate = false ->
  p_name ar = nm_RATE -> kind_ok KFlt1 ar = true -> values_as_float ar = Ok (arate :: ta) ->
  f_tosize (f_div 0 prate) = Ok 0 -> f_tosize (f_div arate prate) = Ok q -> 1 <= q -> nlen cs * q < two64 ->
  Forall (fun f => map pt_name (fr_pts f) = map rtrim ps /\ nlen (fr_subs f) = q /\
                   (forall sf, In sf (fr_subs f) -> map ch_name sf = map rtrim cs)) fs ->
  nlen fs < 2147483647 ->
  run_ops f_key f_tosize f_div f_is_zero
    (map OPoint ps ++ map OAnalog cs ++ [OParam nm_POINT pr; OParam nm_ANALOG ar] ++ map (fun f => OFrame f None) fs) init = ROk tt s' ->
  map OPoint ps ++ map OAnalog cs ++ [OParam nm_POINT pr; OParam nm_ANALOG ar] ++ map (fun f => OFrame f None) fs = pre ++ post ->
  run_ops f_key f_tosize f_div f_is_zero pre init = ROk tt sk ->
  Inv sk.
Proof. exact session_every_intermediate_state. Qed.
Print Assumptions C05_session_every_intermediate_state.

(* non-vacuity: two points (one padded), one channel, 100 Hz / 200 Hz, two frames of two sub-frames on the executable instance:
   every hypothesis is met, the calls return normally (evaluated); the agreement and the stored frames come from the theorem *)
Example C05_whole_session_nonvacuous :
  let ps := [[97]; [98; 32]] in let cs := [[99]] in
  let pr := mkParam nm_RATE [] false TFloat [1] [] [1120403456] [] in let ar := mkParam nm_RATE [] false TFloat [1] [] [1128792064] [] in
  let f1 := mkFrame [mkPoint [97] 1 2 3 4; mkPoint [98] 5 6 7 8] [[mkChan [99] 9]; [mkChan [99] 10]] in
  let f2 := mkFrame [mkPoint [97] 11 12 13 14; mkPoint [98] 15 16 17 18] [[mkChan [99] 19]; [mkChan [99] 20]] in
  exists s', run_ops f_key_impl f_tosize_impl f_div_impl f_is_zero_impl
               (map OPoint ps ++ map OAnalog cs ++ [OParam nm_POINT pr; OParam nm_ANALOG ar] ++ map (fun f => OFrame f None) [f1; f2]) init = ROk tt s' /\
             Inv s' /\ frames s' = [f1; f2].
Proof.
  intros ps cs pr ar f1 f2.
  destruct (run_ops f_key_impl f_tosize_impl f_div_impl f_is_zero_impl
              (map OPoint ps ++ map OAnalog cs ++ [OParam nm_POINT pr; OParam nm_ANALOG ar] ++ map (fun f => OFrame f None) [f1; f2]) init) as [[] s'| |] eqn:E;
    [|vm_compute in E; discriminate|vm_compute in E; discriminate].
  exists s'. split; [reflexivity|].
  pose proof (session_end f_key_impl f_tosize_impl f_div_impl f_is_zero_impl f_key_impl_nothrow f_tosize_impl_nothrow
            ps cs pr ar 1120403456 1128792064 [] [] 2 [f1; f2] s') as T.
  apply T; clear T; try exact E.
  - discriminate.
  - vm_compute. reflexivity.
  - vm_compute. reflexivity.
  - reflexivity.
  - vm_compute. reflexivity.
  - reflexivity.
  - vm_compute. reflexivity.
  - reflexivity.
  - vm_compute. reflexivity.
  - reflexivity.
  - vm_compute. reflexivity.
  - vm_compute. reflexivity.
  - vm_compute. discriminate.
  - vm_compute. reflexivity.
  - repeat constructor; try (vm_compute; reflexivity); intros sf [<-|[<-|[]]]; vm_compute; reflexivity.
  - vm_compute. reflexivity.
Qed.
Print Assumptions C05_whole_session_nonvacuous.

(* the repaired defect 9925f40 on the executable instance: one point recorded at 0.95 Hz (0x3f733333), no channel — the header
   announces no sub-frame, as the frame holds none, and the agreement holds after every call *)
Example C05_point_rate_below_1Hz :
  let rate := mkParam nm_RATE [] false TFloat [1] [] [1064514355] [] in
  let f := mkFrame [mkPoint [97] 1 2 3 4] [] in
  exists s1 s2 s3, step_x init (OPoint [97]) = ROk tt s1 /\ step_x s1 (OParam nm_POINT rate) = ROk tt s2 /\
    step_x s2 (OFrame f None) = ROk tt s3 /\ inv_b s2 = true /\ inv_b s3 = true /\ h_byframe (hdr s3) = 0 /\ nlen (frames s3) = 1.
Proof.
  do 3 eexists.
  split; [vm_compute; reflexivity|]. split; [vm_compute; reflexivity|]. split; [vm_compute; reflexivity|].
  repeat split; vm_compute; reflexivity.
Qed.
Print Assumptions C05_point_rate_below_1Hz.
