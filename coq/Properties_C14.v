(* Properties_C14.v — C14: saving is pure, repeatable and writes only defined bytes.
   In the model save : state -> outcome (list N) is a function of the object and returns no state:
   purity and repeatability hold by construction (stated below for the record).  The content of the
   property is therefore in the TIE: the C14 check compares the digest of every file the real library
   writes with the bytes this pure function computes from the dump (three saves per object, separate
   processes), compares the dumps around each save, and runs a sample under memcheck.  What is proved
   about the function: every byte position of the file is accounted for by the layout theorem. *)
From Coq Require Import Lia.
From EZ Require Import Base Bytes Types Api Enc Float32 Run Proofs_Section.
Local Open Scope N_scope.

Theorem C14_repeatable : forall s b1 b2, save s = Ok b1 -> save s = Ok b2 -> b1 = b2.
Proof. intros s b1 b2 H1 H2. congruence. Qed.
Print Assumptions C14_repeatable.

(* equal objects give equal files: nothing but the object enters the function *)
Theorem C14_function_of_object : forall s1 s2, hdr s1 = hdr s2 -> pro s1 = pro s2 -> groups s1 = groups s2 -> frames s1 = frames s2 ->
  save s1 = save s2.
Proof. intros s1 s2 H1 H2 H3 H4. unfold save. rewrite H1, H2, H3, H4. reflexivity. Qed.
Print Assumptions C14_function_of_object.

(* every byte offset of the output belongs to the header block, the section blocks or the data *)
Theorem C14_every_offset_accounted : forall s bytes, wf_header (hdr s) -> save s = Ok bytes ->
  exists sec blocks, bytes = header_bytes (hdr s) (blocks + 1) ++ sec ++ data_section (frames s) /\
    length (header_bytes (hdr s) (blocks + 1)) = 512%nat /\ nlen sec = 512 * (blocks - 1) /\
    nlen bytes = 512 * blocks + nlen (data_section (frames s)).
Proof.
  intros s bytes Hw H. destruct (save_layout s bytes Hw H) as [sec [blocks [_ [E [L1 [L2 L3]]]]]].
  exists sec, blocks. auto.
Qed.
Print Assumptions C14_every_offset_accounted.

(* event labels: exactly four bytes each, the label then zeros (the site of the repaired defect) *)
Theorem C14_event_label_bytes : forall s, length (label4 s) = 4%nat /\ ((length s <= 4)%nat -> label4 s = s ++ repeat 0 (4 - length s)).
Proof.
  intros s. split; [apply label4_length|]. intros H. unfold label4.
  destruct s as [|a [|b [|c [|d [|e t]]]]]; cbn in *; try reflexivity; lia.
Qed.
Print Assumptions C14_event_label_bytes.

Example C14_nonvacuous : exists b, save_x init = Ok b /\ firstn 4 (skipn 396 b) = [0; 0; 0; 0].
Proof. eexists. split; [vm_compute; reflexivity|]. vm_compute. reflexivity. Qed.
Print Assumptions C14_nonvacuous.
